(* Why finding F5 (C08) cannot be repaired inside computeBidiOrdering: rule L2 is not a function of what the function can
   see.  shaping.Output carries only Direction (the parity of the embedding level), and golang.org/x/text/unicode/bidi -
   the only bidi analysis splitByBidi has - exposes runs with a Direction and a position, no levels
   (Ordering.Run(i).Direction(), Run.Pos(); calculateOrdering folds the levels into parity runs before returning).
   Two lines of an LTR paragraph with the same directions L R L R L: levels 0 1 2 1 0 ("abc ARABIC 123 ARABIC def") and
   levels 0 1 0 1 0 ("abc ARABIC def ARABIC ghi").  L2 orders them differently. *)
From Coq Require Import List Arith ZArith Bool Lia.
From TV Require Import Spec.L2.
Import ListNotations.

Definition lv_a : list nat := [0; 1; 2; 1; 0]%nat.
Definition lv_b : list nat := [0; 1; 0; 1; 0]%nat.

Lemma same_directions : map Nat.odd lv_a = map Nat.odd lv_b /\ levels_valid 0 lv_a = true /\ levels_valid 0 lv_b = true.
Proof. repeat split; reflexivity. Qed.

Lemma list_eqb_Z_eq a : forall b, list_eqb_Z a b = true -> a = b.
Proof.
  induction a as [|x a IH]; destruct b as [|y b]; cbn; try discriminate; auto.
  intros H. apply andb_true_iff in H. destruct H as (H1 & H2). apply Z.eqb_eq in H1. subst. f_equal. auto.
Qed.

Lemma follows_a vis : follows_l2 lv_a vis = true -> vis = [0; 3; 2; 1; 4]%Z.
Proof.
  unfold follows_l2. intros H. apply andb_true_iff in H. destruct H as (Hl & He). apply Nat.eqb_eq in Hl.
  destruct vis as [|v0 [|v1 [|v2 [|v3 [|v4 [|v5 vis]]]]]]; try discriminate Hl.
  apply list_eqb_Z_eq in He. vm_compute in He. injection He as -> -> -> -> ->. reflexivity.
Qed.

Lemma follows_b vis : follows_l2 lv_b vis = true -> vis = [0; 1; 2; 3; 4]%Z.
Proof.
  unfold follows_l2. intros H. apply andb_true_iff in H. destruct H as (Hl & He). apply Nat.eqb_eq in Hl.
  destruct vis as [|v0 [|v1 [|v2 [|v3 [|v4 [|v5 vis]]]]]]; try discriminate Hl.
  apply list_eqb_Z_eq in He. vm_compute in He. injection He as -> -> -> -> ->. reflexivity.
Qed.

(* no function of the paragraph direction and the run directions orders every line as L2 prescribes - not even every
   line of five runs with levels 0..2 in a left-to-right paragraph *)
Lemma l2_needs_levels_lemma : forall order : bool -> list bool -> list Z,
  exists levels, levels_valid 0 levels = true /\ length levels = 5%nat /\ Forall (fun l => (l <= 2)%nat) levels
    /\ follows_l2 levels (order false (map Nat.odd levels)) = false.
Proof.
  intros order.
  destruct (follows_l2 lv_a (order false (map Nat.odd lv_a))) eqn:Ha.
  - exists lv_b. split; [reflexivity|]. split; [reflexivity|]. split; [repeat constructor|].
    destruct (follows_l2 lv_b (order false (map Nat.odd lv_b))) eqn:Hb; auto.
    apply follows_a in Ha. apply follows_b in Hb. change (map Nat.odd lv_b) with (map Nat.odd lv_a) in Hb. congruence.
  - exists lv_a. split; [reflexivity|]. split; [reflexivity|]. split; [repeat constructor|]. exact Ha.
Qed.
