(* Lemmas about the incremental scan (Model/Scan.v). *)
From TV Require Import Model.Scan.

Section ScanProofs.
  Variable FP : Type.
  Variable parse : Z -> list Z -> list FP.
  Notation entry := (entry FP).
  Notation sindex := (sindex FP).
  Notation fresh := (fresh FP parse).
  Notation consume := (consume FP parse).
  Notation scan_walk := (scan_walk FP parse).
  Notation scan := (scan FP parse).
  Notation scratch := (scratch FP parse).
  Notation refresh := (refresh FP parse).
  Notation refresh_all := (refresh_all FP parse).
  Notation honest_history := (honest_history FP parse).

  Lemma lookup_prev_some (prev : sindex) p e : lookup_prev FP prev p = Some e -> In e prev /\ en_path e = p.
  Proof.
    induction prev as [|x r IH]; intros H; [discriminate|]. cbn [lookup_prev] in H.
    destruct (lookup_prev FP r p) as [y|] eqn:E.
    - inversion H; subst. destruct (IH eq_refl). split; [right; assumption|assumption].
    - destruct (list_Z_eqb (en_path x) p) eqn:Ex; [|discriminate]. inversion H; subst.
      split; [left; reflexivity|apply list_Z_eqb_eq; exact Ex].
  Qed.

  (* every entry of a scratch scan is the fresh entry of some file of the walk *)
  Definition from_walk (ws : walk) (e : entry) : Prop := exists w, In w ws /\ e = fresh w.
  Lemma scan_walk_nil_entries (ws : walk) : forall visited dst out,
    scan_walk [] ws visited dst = Ok out -> forall e, In e out -> In e dst \/ from_walk ws e.
  Proof.
    induction ws as [|w r IH]; intros visited dst out H e He.
    - cbn in H. inversion H; subst. left; exact He.
    - cbn [Scan.scan_walk] in H.
      assert (Sub : forall v d, scan_walk [] r v d = Ok out -> In e d \/ from_walk (w :: r) e \/ In e d).
      { intros v d Hd. destruct (IH v d out Hd e He) as [Hin|(x & Hx & Ex)]; [left; exact Hin|].
        right; left. exists x. split; [right; exact Hx|exact Ex]. }
      destruct (w_isdir w); [destruct (Sub _ _ H) as [?|[?|?]]; tauto|].
      destruct (visited_mem visited (w_path w)); [destruct (Sub _ _ H) as [?|[?|?]]; tauto|].
      destruct (negb (w_stat_ok w)); [discriminate|].
      destruct (ignore_font_file (w_name w)); [destruct (Sub _ _ H) as [?|[?|?]]; tauto|].
      destruct (Sub _ _ H) as [Hin|[?|Hin]]; try tauto.
      + apply in_app_or in Hin as [Hin|Hin]; [left; exact Hin|].
        right. exists w. split; [left; reflexivity|]. cbn in Hin. destruct Hin as [<-|[]]. reflexivity.
      + apply in_app_or in Hin as [Hin|Hin]; [left; exact Hin|].
        right. exists w. split; [left; reflexivity|]. cbn in Hin. destruct Hin as [<-|[]]. reflexivity.
  Qed.

  (* reuse is transparent when the cache comes from a tree that is honest with respect to the current one *)
  Lemma consume_honest (cache : sindex) (last : walk) w :
    (forall e, In e cache -> from_walk last e) ->
    forallb (fun l => negb (list_Z_eqb (w_path l) (w_path w) && (w_mt l =? w_mt w)) || (w_cid l =? w_cid w)) last = true ->
    consume cache w = fresh w.
  Proof.
    intros FW H. unfold Scan.consume. destruct (lookup_prev FP cache (w_path w)) as [ce|] eqn:E; [|reflexivity].
    destruct (en_mt ce =? w_mt w) eqn:Em; [|reflexivity].
    apply lookup_prev_some in E as [Hin Hp]. destruct (FW ce Hin) as (l & Hl & ->).
    rewrite forallb_forall in H. specialize (H l Hl). cbn [en_path en_mt Scan.fresh] in *.
    apply Z.eqb_eq in Em. rewrite Hp, Em in *.
    assert (Hpp : list_Z_eqb (w_path w) (w_path w) = true) by (apply list_Z_eqb_eq; reflexivity).
    rewrite <- Hp in H at 1. rewrite Hp in H. rewrite Hpp, Z.eqb_refl in H. cbn in H. apply Z.eqb_eq in H.
    unfold Scan.fresh. rewrite Hp, Em, H. reflexivity.
  Qed.

  Lemma scan_walk_honest (cache : sindex) (last : walk) (ws : walk) :
    (forall e, In e cache -> from_walk last e) -> honest last ws = true ->
    forall visited dst, scan_walk cache ws visited dst = scan_walk [] ws visited dst.
  Proof.
    intros FW. induction ws as [|w r IH]; intros H visited dst; [reflexivity|].
    unfold honest in H. cbn [forallb] in H. apply andb_true_iff in H as [Hw Hr].
    cbn [Scan.scan_walk].
    destruct (w_isdir w); [apply IH; exact Hr|].
    destruct (visited_mem visited (w_path w)); [apply IH; exact Hr|].
    destruct (negb (w_stat_ok w)); [reflexivity|].
    destruct (ignore_font_file (w_name w)); [apply IH; exact Hr|].
    rewrite (consume_honest cache last w FW Hw).
    assert (E0 : consume [] w = fresh w) by reflexivity. rewrite E0. apply IH; exact Hr.
  Qed.

  Lemma scan_honest (last ws : walk) cache : scratch last = Ok cache -> honest last ws = true -> scan cache ws = scratch ws.
  Proof.
    intros S H. unfold Scan.scan, Scan.scratch, Scan.scan. apply (scan_walk_honest cache last ws); [|exact H].
    intros e He. destruct (scan_walk_nil_entries last [] [] cache S e He) as [[]|F]. exact F.
  Qed.

  Lemma refresh_all_honest : forall hist last cache, scratch last = Ok cache -> honest_history last hist = true ->
    refresh_all cache hist = map scratch hist.
  Proof.
    induction hist as [|ws r IH]; intros last cache S H; [reflexivity|].
    cbn [Scan.honest_history] in H. apply andb_true_iff in H as [Hw Hr].
    cbn [Scan.refresh_all map]. unfold Scan.refresh. rewrite (scan_honest last ws cache S Hw).
    destruct (scratch ws) as [i|e|p|] eqn:E; cbn [is_ok] in Hr; f_equal.
    - apply (IH ws i); [exact E|exact Hr].
    - apply (IH last cache); [exact S|exact Hr].
    - apply (IH last cache); [exact S|exact Hr].
    - apply (IH last cache); [exact S|exact Hr].
  Qed.

  (* from no cache at all (or an unreadable one): the first refresh is a scratch scan *)
  Lemma incremental_eq_scratch_lemma : forall hist, honest_history [] hist = true ->
    refresh_all [] hist = map scratch hist.
  Proof. intros hist H. apply (refresh_all_honest hist [] []); [reflexivity|exact H]. Qed.

  (* the scan never panics and needs no fuel *)
  Lemma scan_total : forall prev ws, total (scan prev ws).
  Proof.
    intros prev ws. unfold Scan.scan. generalize (@nil (list Z)) as visited. generalize (@nil entry) as dst.
    induction ws as [|w r IH]; intros dst visited; [exact I|]. cbn [Scan.scan_walk].
    destruct (w_isdir w); [apply IH|]. destruct (visited_mem visited (w_path w)); [apply IH|].
    destruct (negb (w_stat_ok w)); [exact I|]. destruct (ignore_font_file (w_name w)); apply IH.
  Qed.

  (* entries of removed files are dropped, every entry belongs to a file of the current tree *)
  Lemma scan_paths_in_walk : forall prev ws out, scan prev ws = Ok out ->
    forall e, In e out -> exists w, In w ws /\ w_isdir w = false /\ en_path e = w_path w.
  Proof.
    intros prev ws out. unfold Scan.scan. generalize (@nil (list Z)) as visited.
    assert (G : forall ws visited dst out, scan_walk prev ws visited dst = Ok out ->
              forall e, In e out -> In e dst \/ exists w, In w ws /\ w_isdir w = false /\ en_path e = w_path w).
    { clear. induction ws as [|w r IH]; intros visited dst out H e He.
      - cbn in H. inversion H; subst. left; exact He.
      - cbn [Scan.scan_walk] in H.
        assert (Sub : forall v d, scan_walk prev r v d = Ok out -> In e d \/ exists x, In x (w :: r) /\ w_isdir x = false /\ en_path e = w_path x).
        { intros v d Hd. destruct (IH v d out Hd e He) as [Hin|(x & Hx & Ex)]; [left; exact Hin|].
          right. exists x. split; [right; exact Hx|exact Ex]. }
        destruct (w_isdir w) eqn:Ed; [apply (Sub _ _ H)|].
        destruct (visited_mem visited (w_path w)); [apply (Sub _ _ H)|].
        destruct (negb (w_stat_ok w)); [discriminate|].
        destruct (ignore_font_file (w_name w)); [apply (Sub _ _ H)|].
        destruct (Sub _ _ H) as [Hin|Hx]; [|right; exact Hx].
        apply in_app_or in Hin as [Hin|Hin]; [left; exact Hin|].
        right. exists w. split; [left; reflexivity|]. split; [exact Ed|].
        cbn in Hin. destruct Hin as [<-|[]]. unfold Scan.consume.
        destruct (lookup_prev FP prev (w_path w)) as [ce|] eqn:El; [|reflexivity].
        destruct (en_mt ce =? w_mt w); [|reflexivity]. apply lookup_prev_some in El as [_ Hp]. exact Hp. }
    intros visited H e He. destruct (G ws visited [] out H e He) as [[]|X]. exact X.
  Qed.

  (* a scan result holds every path at most once (the visited set), whatever the previous index *)
  Lemma consume_path prev w : en_path (consume prev w) = w_path w.
  Proof.
    unfold Scan.consume. destruct (lookup_prev FP prev (w_path w)) as [ce|] eqn:El; [|reflexivity].
    destruct (en_mt ce =? w_mt w); [|reflexivity]. apply lookup_prev_some in El as [_ Hp]. exact Hp.
  Qed.
  Lemma NoDup_snoc {A} (l : list A) x : NoDup l -> ~ In x l -> NoDup (l ++ [x]).
  Proof.
    induction l as [|a l IH]; intros N H; [constructor; [intros []|constructor]|].
    inversion N as [|? ? Ha Nl]; subst. cbn. constructor.
    - intros Hin. apply in_app_or in Hin as [Hin|[<-|[]]]; [exact (Ha Hin)|]. apply H. left; reflexivity.
    - apply IH; [exact Nl|]. intros Hin. apply H. right; exact Hin.
  Qed.
  Lemma scan_paths_unique : forall prev ws out, scan prev ws = Ok out -> NoDup (map en_path out).
  Proof.
    intros prev ws out. unfold Scan.scan.
    assert (G : forall ws visited dst, NoDup (map en_path dst) ->
              (forall e, In e dst -> visited_mem visited (en_path e) = true) ->
              scan_walk prev ws visited dst = Ok out -> NoDup (map en_path out)).
    { clear ws. induction ws as [|w r IH]; intros visited dst N V H.
      - cbn in H. inversion H; subst. exact N.
      - cbn [Scan.scan_walk] in H.
        destruct (w_isdir w); [apply (IH visited dst N V H)|].
        destruct (visited_mem visited (w_path w)) eqn:Ev; [apply (IH visited dst N V H)|].
        assert (V' : forall e, In e dst -> visited_mem (w_path w :: visited) (en_path e) = true).
        { intros e He. specialize (V e He). unfold visited_mem in *. cbn [existsb]. rewrite V. apply orb_true_r. }
        destruct (negb (w_stat_ok w)); [discriminate|].
        destruct (ignore_font_file (w_name w)); [apply (IH _ dst N V' H)|].
        apply (IH _ _) in H; [exact H| |].
        + rewrite map_app. cbn [map]. rewrite consume_path. apply NoDup_snoc; [exact N|].
          intros Hin. apply in_map_iff in Hin as (e & Ee & He). specialize (V e He). rewrite Ee in V. congruence.
        + intros e He. apply in_app_or in He as [He|[<-|[]]]; [apply V'; exact He|].
          rewrite consume_path. unfold visited_mem. cbn [existsb]. replace (list_Z_eqb (w_path w) (w_path w)) with true; [reflexivity|].
          symmetry. apply list_Z_eqb_eq. reflexivity. }
    apply (G ws [] []); [constructor|intros e []].
  Qed.
End ScanProofs.
