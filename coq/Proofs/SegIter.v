(* Iterators: consecutive non-empty segments covering the text, each ending at a flagged position;
   Init does not depend on what the Segmenter processed before. *)
From TV Require Import Model.Segmenter Proofs.SegCommon.
Open Scope Z_scope.

Lemma seg_init_fresh s paragraph : seg_init s paragraph = seg_init seg_zero paragraph.
Proof. reflexivity. Qed.

Lemma scan_some f : forall l p q, scan f l p = Some q ->
  p <= q < p + Z.of_nat (length l) /\ has_flag f (nth (Z.to_nat (q - p)) l zero_attr) = true.
Proof.
  induction l as [|a r IH]; intros p q H; [discriminate|].
  cbn [scan] in H. destruct (has_flag f a) eqn:Ha.
  - inversion H; subst. replace (q - q) with 0 by lia. cbn [length]. split; [lia | exact Ha].
  - apply IH in H as [H1 H2]. cbn [length]. split; [lia|].
    replace (Z.to_nat (q - p)) with (S (Z.to_nat (q - (p + 1)))) by lia. exact H2.
Qed.

Lemma scan_none f : forall l p, scan f l p = None -> forall a, In a l -> has_flag f a = false.
Proof.
  induction l as [|a r IH]; intros p H x Hx; [destruct Hx|].
  cbn [scan] in H. destruct (has_flag f a) eqn:Ha; [discriminate|].
  destruct Hx as [<- | Hx]; [exact Ha | eapply IH; eassumption].
Qed.

(* a well-formed attribute array: one more entry than runes, the last one carrying every flag *)
Definition attrs_wf (s : segmenter) : Prop :=
  length (sg_attrs s) = S (length (sg_text s)) /\
  forall f, has_flag f (last (sg_attrs s) zero_attr) = true.

Fixpoint chain (f : flag) (s : segmenter) (pos : Z) (segs : list (Z * Z)) : Prop :=
  match segs with
  | [] => pos = Z.of_nat (length (sg_text s))
  | (off, len) :: r => off = pos /\ 0 < len /\ has_flag f (nth_attr s (off + len)) = true /\ chain f s (off + len) r
  end.

Lemma nth_skipn' {A} (l : list A) k j d : nth j (skipn k l) d = nth (k + j) l d.
Proof.
  revert k; induction l as [|x r IH]; intros k.
  - rewrite skipn_nil. destruct j, k; reflexivity.
  - destruct k as [|k]; [reflexivity|]. cbn [skipn plus nth]. apply IH.
Qed.

Lemma last_skipn {A} (l : list A) k d : (k < length l)%nat -> last (skipn k l) d = last l d.
Proof.
  revert k; induction l as [|x r IH]; intros k H; [cbn in H; lia|].
  destruct k as [|k]; [reflexivity|]. cbn [skipn].
  rewrite IH by (cbn in H; lia).
  destruct r; [cbn in H; lia | reflexivity].
Qed.

Lemma last_In {A} (l : list A) d : l <> [] -> In (last l d) l.
Proof.
  induction l as [|x [|y r] IH]; intros H; [contradiction| left; reflexivity |].
  right. apply IH. discriminate.
Qed.

Lemma segments_chain f s : attrs_wf s ->
  forall fuel pos, 0 <= pos <= Z.of_nat (length (sg_text s)) ->
  (Z.to_nat (Z.of_nat (length (sg_text s)) - pos) < fuel)%nat ->
  chain f s pos (segments f s fuel pos).
Proof.
  intros (Hlen & Hlast). set (n := Z.of_nat (length (sg_text s))).
  induction fuel as [|fuel IH]; intros pos Hpos Hfuel; [lia|].
  cbn [segments]. unfold iter_next.
  destruct (scan f (skipn (Z.to_nat (pos + 1)) (sg_attrs s)) (pos + 1)) as [q|] eqn:Hs.
  - apply scan_some in Hs as [Hq Hflag]. rewrite skipn_length, Hlen in Hq.
    cbn [chain]. split; [reflexivity|]. split; [lia|]. split.
    + unfold nth_attr. replace (pos + (q - pos)) with q by lia.
      rewrite nth_skipn' in Hflag. replace (Z.to_nat (pos + 1) + Z.to_nat (q - (pos + 1)))%nat with (Z.to_nat q) in Hflag by lia.
      exact Hflag.
    + replace (pos + (q - pos)) with q by lia. apply IH; fold n; lia.
  - (* nothing flagged after pos: impossible unless pos = n *)
    cbn [chain]. fold n.
    destruct (Z.eq_dec pos n) as [E|NE]; [exact E|]. exfalso.
    assert (Hk : (Z.to_nat (pos + 1) < length (sg_attrs s))%nat) by (rewrite Hlen; lia).
    pose proof (scan_none f _ _ Hs (last (skipn (Z.to_nat (pos + 1)) (sg_attrs s)) zero_attr)) as Hn.
    rewrite last_skipn in Hn by exact Hk.
    rewrite Hlast in Hn. assert (true = false); [|discriminate].
    apply Hn. rewrite <- (last_skipn (sg_attrs s) (Z.to_nat (pos + 1)) zero_attr Hk).
    apply last_In. intros E. apply (f_equal (@length attr)) in E. rewrite skipn_length in E. cbn in E. lia.
Qed.

Lemma fixups_last attrs f : attrs <> [] -> has_flag f (last (fixups attrs) zero_attr) = true.
Proof.
  intros Hne. unfold fixups. destruct attrs as [|a r]; [contradiction|].
  assert (H : forall l : list attr, l <> [] -> has_flag f (last (map_last fix_last l) zero_attr) = true).
  { induction l as [|x [|y l'] IHl]; intros Hl; [contradiction| destruct f; reflexivity |].
    change (map_last fix_last (x :: y :: l')) with (x :: map_last fix_last (y :: l')).
    assert (Hn : map_last fix_last (y :: l') <> []) by (destruct l'; discriminate).
    destruct (map_last fix_last (y :: l')) eqn:E; [contradiction|].
    change (last (x :: a0 :: l) zero_attr) with (last (a0 :: l) zero_attr). apply IHl. discriminate. }
  apply H. discriminate.
Qed.

Lemma seg_init_wf s0 text s : seg_init s0 text = Ok s -> attrs_wf s /\ sg_text s = text.
Proof.
  unfold seg_init. cbn [firstn app].
  destruct (compute_attrs_total_lemma text) as (attrs & E & L).
  rewrite E. cbn [bind]. intros H; inversion H; subst. cbn [sg_attrs sg_text].
  split; [|reflexivity]. split; [exact L|].
  intros f. unfold compute_attrs in E.
  destruct (loop (new_cursor text) 0 text []) as [a0| | |] eqn:El; try discriminate.
  cbn [bind] in E. inversion E; subst. apply fixups_last.
  intros ->. cbn in L. lia.
Qed.

Lemma iterators_lemma s0 text s f :
  seg_init s0 text = Ok s -> chain f s 0 (segments f s (S (length (sg_text s))) 0).
Proof.
  intros H. destruct (seg_init_wf s0 text s H) as (Hwf & _).
  apply segments_chain; [exact Hwf | lia | lia].
Qed.
