(* Word boundaries: the cursor automaton with its write-back (WB6 / WB7b / WB12 amend the boundary before the
   previous significant rune) computes exactly Spec.UAX29.wb_boundary at every position of every string. *)
From TV Require Import Model.Segmenter Spec.UAX29 Proofs.SegCommon Proofs.SegWCore.
Open Scope Z_scope.

(* ---------- the word automaton as a projection of the cursor ---------- *)
Record wst := mkWst { w_last : obs; w_pp : wbc; w_p : wbc; w_w : wbc; w_k : Z; w_ri : bool }.
Definition wproj (cr : cursor) : wst :=
  mkWst (c_r cr) (c_prevPrevWord cr) (c_prevWord cr) (c_word cr) (c_prevWordNoExtend cr) (c_wRIOdd cr).

Definition wstep (s : wst) (i : Z) (r : obs) : wst * (bool * option Z) :=
  let shift := negb (wbq (w_w s) WB_ExtendFormat) in
  let pp := if shift then w_p s else w_pp s in
  let p := if shift then w_w s else w_p s in
  let k := if shift then i - 1 else w_k s in
  let rt := update_word_ri (w_ri s) (o_wb r) in
  let d := word_decision (w_last s) r pp p (o_wb r) (k =? i - 1) (o_pic r) (snd rt) in
  (mkWst r pp p (o_wb r) k (fst rt), (fst d, if snd d then Some k else None)).

Lemma step_wproj cr i r next aft :
  wproj (fst (fst (step cr i r next aft))) = fst (wstep (wproj cr) i r)
  /\ a_word (snd (fst (step cr i r next aft))) = fst (snd (wstep (wproj cr) i r))
  /\ snd (step cr i r next aft) = snd (snd (wstep (wproj cr) i r)).
Proof.
  unfold step, wstep. cbv zeta.
  cbn [wproj w_w w_p w_pp w_k w_ri w_last start_iteration c_word c_prevWord c_prevPrevWord c_prevWordNoExtend c_wRIOdd c_prev c_r c_isExtPic].
  destruct (update_picto _ _ _) as [picto gb11].
  destruct (update_grapheme_ri _ _) as [gri gb1213].
  destruct (update_word_ri (c_wRIOdd cr) (o_wb r)) as [wri wb1516].
  cbn [fst snd].
  destruct (word_decision _ _ _ _ _ _ _ _) as [isW remove].
  destruct (update_num_sequence _ _) as [ns trigger].
  destruct (line_decision _ _ _ _ _ _ _ _ _ _); cbn; auto.
Qed.

(* ---------- the loop on the word flags ---------- *)
Fixpoint clear_at (k : nat) (l : list bool) : list bool :=
  match l, k with
  | [], _ => []
  | _ :: r, O => false :: r
  | b :: r, S k' => b :: clear_at k' r
  end.
Definition apply_rm (rm : option Z) (dw : list bool) : list bool :=
  match rm with Some k => clear_at (Z.to_nat k) dw | None => dw end.

Lemma map_clear_word attrs k : map a_word (clear_word attrs k) = clear_at k (map a_word attrs).
Proof. revert k; induction attrs as [|a r IH]; intros [|k]; cbn; auto. rewrite IH. reflexivity. Qed.

Fixpoint wfold (s : wst) (i : Z) (rs : list obs) (dw : list bool) : list bool :=
  match rs with
  | [] => dw
  | r :: rs' => let st := wstep s i r in
                wfold (fst st) (i + 1) rs' (apply_rm (snd (snd st)) dw ++ [fst (snd st)])
  end.

Lemma loop_w : forall rest cr i done attrs,
  loop cr i rest done = Ok attrs ->
  map a_word attrs = wfold (wproj cr) i (rest ++ [obs_psep]) (map a_word done).
Proof.
  induction rest as [|r rest IH]; intros cr i done attrs.
  - cbn [loop app wfold].
    pose proof (step_wproj cr i obs_psep obs_nul (o_lb obs_nul)) as (Hp & Hw & Hr).
    destruct (step cr i obs_psep obs_nul (o_lb obs_nul)) as [[cr' a] rm]. cbn [fst snd] in Hp, Hw, Hr.
    rewrite <- Hw, <- Hr.
    destruct rm as [k|].
    + destruct (_ || _); [discriminate|]. intros H; inversion H; subst.
      rewrite map_app, map_clear_word. reflexivity.
    + intros H; inversion H; subst. rewrite map_app. reflexivity.
  - cbn [loop app wfold].
    set (next := match rest with [] => obs_psep | n :: _ => n end).
    pose proof (step_wproj cr i r next (after_marks r rest)) as (Hp & Hw & Hr).
    destruct (step cr i r next (after_marks r rest)) as [[cr' a] rm]. cbn [fst snd] in Hp, Hw, Hr.
    rewrite <- Hw, <- Hr, <- Hp.
    destruct rm as [k|].
    + destruct (_ || _); [discriminate|]. intros H. apply IH in H.
      rewrite H, map_app, map_clear_word. reflexivity.
    + intros H. apply IH in H. rewrite H, map_app. reflexivity.
Qed.

(* ---------- specification side: flags of the positions in `left`, nearest first, given the next significant class ---------- *)
Fixpoint En (left : list obs) (n : wbc) : list bool :=
  match left with
  | [] => []
  | o :: left' => wbn left' o n :: En left' (if wb_ef o then n else o_wb o)
  end.

Lemma En_length left : forall n, length (En left n) = length left.
Proof. induction left as [|o l IH]; intros n; cbn; auto. Qed.

Lemma skip_ef_cons o right : hd_wb (skip_ef (o :: right)) = if wb_ef o then hd_wb (skip_ef right) else o_wb o.
Proof. cbn [skip_ef]. destruct (wb_ef o); reflexivity. Qed.

Lemma positions_split : forall left right,
  rev (En left (hd_wb (skip_ef right))) ++ positions wb_boundary left right
  = positions wb_boundary [] (rev left ++ right).
Proof.
  induction left as [|o left IH]; intros right; [reflexivity|].
  cbn [En rev]. rewrite <- skip_ef_cons, <- app_assoc.
  change ([wbn left o (hd_wb (skip_ef right))] ++ positions wb_boundary (o :: left) right)
    with (positions wb_boundary left (o :: right)).
  rewrite IH, <- app_assoc. reflexivity.
Qed.

(* significant context *)
Definition Pc (l : list obs) : wbc := hd_wb (nonef l).
Definition PPc (l : list obs) : wbc := hd_wb (tl (nonef l)).
Fixpoint lead_ef (l : list obs) : nat :=
  match l with o :: r => if wb_ef o then S (lead_ef r) else O | [] => O end.

Lemma wbc_beq_eq a b : wbc_beq a b = true <-> a = b.
Proof. split; [apply internal_wbc_dec_bl | apply internal_wbc_dec_lb]. Qed.

Lemma nonef_cons o l : nonef (o :: l) = if wb_ef o then nonef l else o :: nonef l.
Proof. unfold nonef. cbn [filter]. destruct (wb_ef o); reflexivity. Qed.

Lemma nonef_no_ef l : forall o, In o (nonef l) -> wb_ef o = false.
Proof. intros o H. unfold nonef in H. apply filter_In in H as [_ H]. apply negb_true_iff in H. exact H. Qed.

Lemma hd_wb_not_ef l : (forall o, In o l -> wb_ef o = false) -> wbc_beq (hd_wb l) WB_ExtendFormat = false.
Proof. destruct l as [|o r]; intros H; [reflexivity|]. cbn. apply (H o). left; reflexivity. Qed.

Lemma Pc_not_ef l : wbc_beq (Pc l) WB_ExtendFormat = false.
Proof. apply hd_wb_not_ef, nonef_no_ef. Qed.
Lemma PPc_not_ef l : wbc_beq (PPc l) WB_ExtendFormat = false.
Proof.
  apply hd_wb_not_ef. intros o H. apply (nonef_no_ef l).
  destruct (nonef l); [destruct H | right; exact H].
Qed.

(* wbn through the consistent finite context *)
Lemma wbn_ctx a left' b n :
  obs_wf_w a = true -> obs_wf_w b = true ->
  wbn (a :: left') b n =
  wb_core (mkctx (wb_ef a) (o_cr a) (o_zwj a) (o_lf b) (o_pic b) (o_wb b) (Pc (a :: left')) (PPc (a :: left')) n
                 (Nat.odd (leading (wb_is WB_RI) (nonef (a :: left')))))
  /\ ok_ctx (wb_ef a) (o_cr a) (o_zwj a) (o_lf b) (o_wb b) (Pc (a :: left')) (PPc (a :: left')) = true.
Proof.
  intros Ha Hb. unfold obs_wf_w in Ha, Hb.
  apply andb_true_iff in Ha as [Ha Ha3]. apply andb_true_iff in Ha as [Ha1 Ha2].
  apply andb_true_iff in Hb as [Hb Hb3]. apply andb_true_iff in Hb as [Hb1 Hb2].
  split.
  - cbn [wbn]. unfold wctx_of, mkctx.
    replace (if wb_ef a then WB_ExtendFormat else Pc (a :: left')) with (o_wb a); [reflexivity|].
    unfold Pc. rewrite nonef_cons. unfold wb_ef, wb_is. destruct (wbc_beq (o_wb a) WB_ExtendFormat) eqn:E.
    + apply wbc_beq_eq in E. exact E.
    + reflexivity.
  - unfold ok_ctx. rewrite Pc_not_ef, PPc_not_ef. cbn [negb andb].
    unfold wb_is in *.
    apply andb_true_iff; split; [apply andb_true_iff; split|].
    + destruct (o_cr a); [|reflexivity]. cbn [negb orb] in Ha1 |- *. apply wbc_beq_eq in Ha1.
      unfold wb_ef, wb_is, Pc. rewrite nonef_cons. unfold wb_ef, wb_is. rewrite Ha1. cbn. rewrite Ha1. reflexivity.
    + destruct (o_zwj a); [|reflexivity]. cbn [negb orb] in Ha3 |- *. exact Ha3.
    + destruct (o_lf b); [|reflexivity]. cbn [negb orb] in Hb2 |- *. exact Hb2.
Qed.

(* how the flags of `left` change when the next significant class becomes known *)
Fixpoint adjust (left : list obs) (fl : list bool) (n : wbc) : list bool :=
  match left, fl with
  | o :: left', f :: fl' =>
      if wb_ef o then f :: adjust left' fl' n
      else (f && negb (rcond (Pc left') (o_wb o) n)) :: fl'
  | _, _ => fl
  end.

Lemma rcond_none_l p c : rcond WB_None p c = false.
Proof. destruct p, c; reflexivity. Qed.
Lemma rcond_ef_c pp p : rcond pp p WB_ExtendFormat = false.
Proof. destruct pp, p; reflexivity. Qed.
Lemma rcond_ef_p pp c : rcond pp WB_ExtendFormat c = false.
Proof. destruct pp, c; reflexivity. Qed.
Lemma rcond_nl_c pp p : rcond pp p WB_NewlineCRLF = false.
Proof. destruct pp, p; reflexivity. Qed.

Lemma wbn_lookahead left' o n :
  forallb obs_wf_w left' = true -> obs_wf_w o = true ->
  wbn left' o n = wbn left' o WB_None && negb (rcond (Pc left') (o_wb o) n).
Proof.
  intros Hl Ho. destruct left' as [|a left''].
  - cbn [wbn]. change (Pc []) with WB_None. rewrite rcond_none_l. reflexivity.
  - cbn [forallb] in Hl. apply andb_true_iff in Hl as [Ha _].
    destruct (wbn_ctx a left'' o n Ha Ho) as (E1 & Hok).
    destruct (wbn_ctx a left'' o WB_None Ha Ho) as (E2 & _).
    rewrite E1, E2. apply c2. exact Hok.
Qed.

Lemma En_adjust : forall left n, forallb obs_wf_w left = true -> En left n = adjust left (En left WB_None) n.
Proof.
  induction left as [|o left IH]; intros n Hwf; [reflexivity|].
  cbn [forallb] in Hwf. apply andb_true_iff in Hwf as [Ho Hl].
  cbn [En adjust]. destruct (wb_ef o) eqn:Eo.
  - rewrite (wbn_lookahead left o n Hl Ho).
    assert (Ec : o_wb o = WB_ExtendFormat) by (apply wbc_beq_eq; exact Eo).
    rewrite Ec, rcond_ef_p, andb_true_r. f_equal. apply IH. exact Hl.
  - rewrite (wbn_lookahead left o n Hl Ho). reflexivity.
Qed.

(* ---------- the write-back hits exactly the pending position ---------- *)
Lemma rcond_none_p pp c : rcond pp WB_None c = false.
Proof. destruct pp, c; reflexivity. Qed.
Lemma rcond_none_c pp p : rcond pp p WB_None = false.
Proof. destruct pp, p; reflexivity. Qed.

Lemma clear_at_app_l k l1 l2 : (k < length l1)%nat -> clear_at k (l1 ++ l2) = clear_at k l1 ++ l2.
Proof.
  revert k; induction l1 as [|x r IH]; intros k H; [cbn in H; lia|].
  destruct k as [|k]; [reflexivity|]. cbn. rewrite IH by (cbn in H; lia). reflexivity.
Qed.
Lemma clear_at_last l f : clear_at (length l) (l ++ [f]) = l ++ [false].
Proof. induction l as [|x r IH]; [reflexivity|]. cbn. rewrite IH. reflexivity. Qed.

Lemma nonef_lead l : (length (nonef l) + lead_ef l <= length l)%nat.
Proof.
  induction l as [|o r IH]; [cbn; lia|].
  rewrite nonef_cons. cbn [lead_ef length]. destruct (wb_ef o); cbn [length]; [lia|].
  lia.
Qed.

Lemma Pc_none_nonef l : nonef l = [] -> Pc l = WB_None.
Proof. unfold Pc. intros ->. reflexivity. Qed.

Lemma adjust_rev : forall left fl n, length fl = length left ->
  rev (adjust left fl n) =
  if rcond (PPc left) (Pc left) n then clear_at (length left - 1 - lead_ef left) (rev fl) else rev fl.
Proof.
  induction left as [|o l IH]; intros fl n Hlen.
  - destruct fl; [|discriminate]. change (PPc []) with WB_None. rewrite rcond_none_l. reflexivity.
  - destruct fl as [|f fl']; [discriminate|]. cbn [length] in Hlen.
    assert (Hl : length fl' = length l) by lia.
    cbn [adjust]. unfold PPc, Pc. rewrite nonef_cons. fold (Pc l) (PPc l).
    destruct (wb_ef o) eqn:Eo.
    + cbn [rev]. rewrite (IH fl' n Hl). fold (Pc l) (PPc l).
      destruct (rcond (PPc l) (Pc l) n) eqn:ER; [|reflexivity].
      (* the pending rune exists below *)
      assert (Hne : nonef l <> []).
      { intros E. rewrite (Pc_none_nonef l E), rcond_none_p in ER. discriminate. }
      pose proof (nonef_lead l) as Hnl.
      assert (length (nonef l) > 0)%nat by (destruct (nonef l); [contradiction | cbn; lia]).
      cbn [length lead_ef]. rewrite Eo.
      replace (S (length l) - 1 - S (lead_ef l))%nat with (length l - 1 - lead_ef l)%nat by lia.
      rewrite clear_at_app_l by (rewrite rev_length; lia). reflexivity.
    + cbn [hd_wb tl]. fold (Pc l). cbn [rev length lead_ef]. rewrite Eo.
      destruct (rcond (Pc l) (o_wb o) n).
      * replace (S (length l) - 1 - 0)%nat with (length (rev fl')) by (rewrite rev_length; lia).
        rewrite clear_at_last, andb_false_r. reflexivity.
      * rewrite andb_true_r. reflexivity.
Qed.

(* ---------- invariant of the word automaton ---------- *)
Definition Kz (l : list obs) : Z :=
  match nonef l with [] => -1 | _ => Z.of_nat (length l) - 1 - Z.of_nat (lead_ef l) end.

Definition winv (left : list obs) (s : wst) : Prop :=
  w_last s = hd obs_nul left /\ w_w s = hd_wb left
  /\ w_p s = Pc (tl left) /\ w_pp s = PPc (tl left) /\ w_k s = Kz (tl left)
  /\ w_ri s = Nat.odd (leading (wb_is WB_RI) (nonef left)).

Lemma winv_init text : winv [] (wproj (new_cursor text)).
Proof. unfold winv. cbn. repeat split. Qed.

(* values after startIteration *)
Lemma post_start left s : winv left s ->
  let shift := negb (wbq (w_w s) WB_ExtendFormat) in
  (if shift then w_p s else w_pp s) = PPc left
  /\ (if shift then w_w s else w_p s) = Pc left
  /\ (if shift then Z.of_nat (length left) - 1 else w_k s) = Kz left.
Proof.
  intros (H1 & H2 & H3 & H4 & H5 & H6). cbv zeta. rewrite H2, H3, H4, H5.
  destruct left as [|o l].
  - cbn. repeat split.
  - cbn [hd_wb tl]. unfold PPc, Pc, Kz. rewrite nonef_cons. unfold wbq. fold (wb_is WB_ExtendFormat o). fold (wb_ef o).
    destruct (wb_ef o) eqn:Eo; cbn [negb].
    + repeat split. cbn [length lead_ef]. rewrite Eo. destruct (nonef l); [reflexivity|]. lia.
    + cbn [hd_wb tl length lead_ef]. rewrite Eo. repeat split. lia.
Qed.

Lemma k_after a left' : (Kz (a :: left') =? Z.of_nat (length (a :: left')) - 1) = negb (wb_ef a).
Proof.
  unfold Kz. rewrite nonef_cons. cbn [lead_ef length]. destruct (wb_ef a) eqn:Ea; cbn [negb].
  - destruct (nonef left'); apply Z.eqb_neq; lia.
  - apply Z.eqb_eq. lia.
Qed.

Lemma word_decision_obs prevr r pp p c after pic trig :
  word_decision prevr r pp p c after pic trig
  = word_decision (fobs_w (o_cr prevr) (o_zwj prevr) false) (fobs_w false false (o_lf r)) pp p c after pic trig.
Proof. reflexivity. Qed.

Lemma wd_none prevr r p c after pic trig : snd (word_decision prevr r WB_None p c after pic trig) = false.
Proof.
  unfold word_decision, ahletter, ahn, wbq. cbn [wbc_beq orb andb].
  repeat match goal with |- context [if ?c then _ else _] => destruct c end; reflexivity.
Qed.

(* one step of the automaton against the specification *)
Lemma wstep_spec left s r :
  winv left s -> forallb obs_wf_w left = true -> obs_wf_w r = true ->
  let st := wstep s (Z.of_nat (length left)) r in
  winv (r :: left) (fst st)
  /\ (left <> [] -> fst (snd st) = wbn left r WB_None)
  /\ snd (snd st) = (if rcond (PPc left) (Pc left) (o_wb r) then Some (Kz left) else None).
Proof.
  intros Hinv Hwl Hwr. pose proof (post_start left s Hinv) as (Epp & Ep & Ek). cbv zeta in Epp, Ep, Ek.
  destruct Hinv as (H1 & H2 & H3 & H4 & H5 & H6).
  unfold wstep. cbv zeta. rewrite Epp, Ep, Ek. cbn [fst snd].
  split; [|split].
  - unfold winv. cbn [w_last w_w w_p w_pp w_k w_ri hd hd_wb tl]. repeat split.
    rewrite H6. unfold update_word_ri, wbq. rewrite nonef_cons. fold (wb_is WB_ExtendFormat r). fold (wb_ef r).
    destruct (wb_ef r) eqn:Er; [reflexivity|]. cbn [fst leading]. fold (wb_is WB_RI r).
    destruct (wb_is WB_RI r); [|reflexivity]. cbn [fst]. rewrite Nat.odd_succ, <- Nat.negb_odd. reflexivity.
  - intros Hne. destruct left as [|a left']; [contradiction|].
    cbn [forallb] in Hwl. apply andb_true_iff in Hwl as [Ha _].
    rewrite k_after, H1, H6. cbn [hd]. rewrite word_decision_obs.
    destruct (wbn_ctx a left' r WB_None Ha Hwr) as (E & Hok). rewrite E.
    exact (proj1 (c1 (wb_ef a) (o_cr a) (o_zwj a) (o_lf r) (o_pic r) (o_wb r) (Pc (a :: left')) (PPc (a :: left')) _ Hok)).
  - destruct left as [|a left'].
    + (* first rune: nothing to amend *)
      change (PPc []) with WB_None. rewrite rcond_none_l, wd_none. reflexivity.
    + cbn [forallb] in Hwl. apply andb_true_iff in Hwl as [Ha _].
      rewrite k_after, H1, H6. cbn [hd]. rewrite word_decision_obs.
      destruct (wbn_ctx a left' r WB_None Ha Hwr) as (_ & Hok).
      pose proof (proj2 (c1 (wb_ef a) (o_cr a) (o_zwj a) (o_lf r) (o_pic r) (o_wb r) (Pc (a :: left')) (PPc (a :: left'))
                            (Nat.odd (leading (wb_is WB_RI) (nonef (a :: left')))) Hok)) as E.
      unfold model_w in E. rewrite E. reflexivity.
Qed.

(* ---------- the flag list along the loop ---------- *)
Definition dinv (left : list obs) (dw : list bool) : Prop :=
  match left with
  | [] => dw = []
  | _ :: _ => exists w0 dtl, dw = w0 :: dtl /\ rev (En left WB_None) = true :: dtl
  end.

Lemma clear_at_cons_S k b l : clear_at (S k) (b :: l) = b :: clear_at k l.
Proof. reflexivity. Qed.

Lemma dinv_step left s r dw :
  winv left s -> dinv left dw -> forallb obs_wf_w left = true -> obs_wf_w r = true ->
  let st := wstep s (Z.of_nat (length left)) r in
  dinv (r :: left) (apply_rm (snd (snd st)) dw ++ [fst (snd st)]).
Proof.
  intros Hinv Hd Hwl Hwr. cbv zeta.
  destruct (wstep_spec left s r Hinv Hwl Hwr) as (_ & Hw & Hrm). cbv zeta in Hw, Hrm.
  rewrite Hrm. clear Hrm.
  destruct left as [|a left'].
  - cbn in Hd. subst dw. change (PPc []) with WB_None. rewrite rcond_none_l. cbn [apply_rm app dinv].
    exists (fst (snd (wstep s (Z.of_nat (length (@nil obs))) r))), []. split; reflexivity.
  - rewrite (Hw ltac:(discriminate)). clear Hw.
    destruct Hd as (w0 & dtl & -> & Hrev).
    set (left := a :: left') in *.
    cbn [dinv]. cbn [En rev].
    set (n' := if wb_ef r then WB_None else o_wb r).
    rewrite (En_adjust left n' Hwl), (adjust_rev left (En left WB_None) n' (En_length left WB_None)), Hrev.
    assert (Hsame : rcond (PPc left) (Pc left) n' = rcond (PPc left) (Pc left) (o_wb r)).
    { unfold n'. destruct (wb_ef r) eqn:Er; [|reflexivity].
      assert (E : o_wb r = WB_ExtendFormat) by (apply wbc_beq_eq; exact Er).
      rewrite E, rcond_ef_c, rcond_none_c. reflexivity. }
    rewrite Hsame.
    destruct (rcond (PPc left) (Pc left) (o_wb r)) eqn:ER.
    + (* the pending position is amended: it is not position 0 *)
      assert (Hpp : PPc left <> WB_None) by (intros E; rewrite E, rcond_none_l in ER; discriminate).
      assert (H2 : (length (nonef left) >= 2)%nat).
      { unfold PPc in Hpp. destruct (nonef left) as [|x [|y t]]; cbn in Hpp |- *; try contradiction; lia. }
      pose proof (nonef_lead left) as Hnl.
      assert (HK : Kz left = Z.of_nat (length left - 1 - lead_ef left)).
      { unfold Kz. destruct (nonef left); [cbn in H2; lia|]. lia. }
      cbn [apply_rm]. rewrite HK, Nat2Z.id.
      destruct (length left - 1 - lead_ef left)%nat as [|k] eqn:Ek; [lia|].
      rewrite !clear_at_cons_S. cbn [app]. eexists _, _. split; reflexivity.
    + cbn [apply_rm app]. eexists _, _. split; reflexivity.
Qed.

Lemma wfold_inv : forall rs left s dw,
  winv left s -> dinv left dw -> forallb obs_wf_w left = true -> forallb obs_wf_w rs = true ->
  dinv (rev rs ++ left) (wfold s (Z.of_nat (length left)) rs dw).
Proof.
  induction rs as [|r rs IH]; intros left s dw Hinv Hd Hwl Hwr; [exact Hd|].
  cbn [forallb] in Hwr. apply andb_true_iff in Hwr as [Hr Hrs].
  cbn [wfold rev]. rewrite <- app_assoc. cbn [app].
  replace (Z.of_nat (length left) + 1) with (Z.of_nat (length (r :: left))) by (cbn [length]; lia).
  apply IH.
  - exact (proj1 (wstep_spec left s r Hinv Hwl Hr)).
  - apply dinv_step; assumption.
  - cbn [forallb]. rewrite Hr, Hwl. reflexivity.
  - exact Hrs.
Qed.

Lemma En_newline : forall l, forallb obs_wf_w l = true -> En l WB_NewlineCRLF = En l WB_None.
Proof.
  induction l as [|o l IH]; intros Hwf; [reflexivity|].
  cbn [forallb] in Hwf. apply andb_true_iff in Hwf as [Ho Hl].
  cbn [En]. rewrite (wbn_lookahead l o WB_NewlineCRLF Hl Ho), rcond_nl_c, andb_true_r.
  destruct (wb_ef o); [rewrite IH by exact Hl|]; reflexivity.
Qed.

Lemma forallb_rev {A} (f : A -> bool) l : forallb f (rev l) = forallb f l.
Proof.
  induction l as [|x r IH]; [reflexivity|]. cbn [rev forallb]. rewrite forallb_app, IH. cbn. rewrite andb_true_r. apply andb_comm.
Qed.

Lemma word_lemma text :
  forallb obs_wf_w text = true ->
  exists attrs, compute_attrs text = Ok attrs /\ map a_word attrs = wb_spec text.
Proof.
  intros Hwf. unfold compute_attrs.
  destruct (loop_total text (new_cursor text) 0 [] ltac:(lia) (wne_ok_new text)) as (attrs & E & L).
  rewrite E. cbn [bind]. eexists; split; [reflexivity|].
  pose proof (loop_w text (new_cursor text) 0 [] attrs E) as Hw. cbn [map] in Hw.
  assert (Hwf' : forallb obs_wf_w (text ++ [obs_psep]) = true) by (rewrite forallb_app, Hwf; reflexivity).
  pose proof (wfold_inv (text ++ [obs_psep]) [] (wproj (new_cursor text)) [] (winv_init text) eq_refl eq_refl Hwf') as Hd.
  cbn [length Z.of_nat] in Hd. rewrite <- Hw in Hd. rewrite app_nil_r, rev_app_distr in Hd. cbn [rev app] in Hd.
  cbn [dinv] in Hd. destruct Hd as (w0 & dtl & Hattrs & Hrev).
  cbn [En rev] in Hrev. change (wb_ef obs_psep) with false in Hrev. cbn iota in Hrev.
  change (o_wb obs_psep) with WB_NewlineCRLF in Hrev.
  rewrite En_newline in Hrev by (rewrite forallb_rev; exact Hwf).
  (* the specification *)
  unfold wb_spec.
  pose proof (positions_split (rev text) []) as Hs. rewrite rev_involutive, app_nil_r in Hs.
  cbn [skip_ef hd_wb positions wb_boundary] in Hs. rewrite <- Hs. clear Hs.
  (* the fix-ups *)
  destruct attrs as [|a0 tl0]; [discriminate|].
  cbn [map] in Hattrs. injection Hattrs as _ Htl.
  unfold fixups.
  rewrite (map_map_last a_word true (fun a => eq_refl)) by discriminate.
  change (map a_word (fix_first a0 :: tl0)) with (true :: map a_word tl0).
  rewrite Htl, <- Hrev. rewrite removelast_app by discriminate. cbn [removelast]. rewrite app_nil_r. reflexivity.
Qed.
