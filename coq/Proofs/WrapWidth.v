(* C04 width_bound: the width measured at candidate time bounds Spec/Wrap.v line_measure of the returned line on the
   returned store.  Part 1: the store only loses advance (trimStartLetterSpacing, trailing-space zeroing) when
   0 <= startLetterSpacing <= advance; part 2: processBreakOption keeps "recorded advance >= sum of the glyph advances";
   part 3: the two loops record the best line under a classification (fits / endLine / truncated-prefix / cannotFit);
   part 4: postProcessLine and the theorem about WrapNextLine. *)
From TV Require Import Model.Wrap Spec.Wrap Spec.WrapCut Proofs.Wrap Proofs.WrapCut Proofs.WrapLines Proofs.WrapStore
  Proofs.WrapMand Proofs.WrapTrunc Proofs.WrapMand2.

(* ---- part 1: store order ----------------------------------------------------------------------------------------- *)

Definition gle (a b : glyph) : Prop := gskel a = gskel b /\ g_adv b <= g_adv a.
Definition st_le (st st' : store) : Prop := Forall2 (Forall2 gle) st st'.
Definition gok (g : glyph) : Prop := 0 <= g_sls g <= g_adv g.
Definition SG (st : store) : Prop := Forall (Forall gok) st.

Lemma gle_refl : forall g, gle g g.
Proof. intros; split; [reflexivity|lia]. Qed.
Lemma gle_trans : forall a b c, gle a b -> gle b c -> gle a c.
Proof. intros a b c [H1 H2] [H3 H4]. split; [congruence|lia]. Qed.

Lemma F2_refl : forall {A} (R : A -> A -> Prop), (forall x, R x x) -> forall l, Forall2 R l l.
Proof. intros A R H l. induction l; constructor; auto. Qed.
Lemma F2_trans : forall {A} (R : A -> A -> Prop), (forall x y z, R x y -> R y z -> R x z) ->
  forall a b c, Forall2 R a b -> Forall2 R b c -> Forall2 R a c.
Proof.
  intros A R H a b c H1. revert c. induction H1; intros c H2; inversion H2; subst; constructor; eauto.
Qed.
Lemma st_le_refl : forall st, st_le st st.
Proof. intros. apply F2_refl. intros. apply F2_refl. apply gle_refl. Qed.
Lemma st_le_trans : forall a b c, st_le a b -> st_le b c -> st_le a c.
Proof. intros a b c. apply F2_trans. intros x y z. apply F2_trans. apply gle_trans. Qed.

Lemma F2_firstn : forall {A} (R : A -> A -> Prop) k a b, Forall2 R a b -> Forall2 R (firstn k a) (firstn k b).
Proof. intros A R k. induction k; intros a b H; cbn; [constructor|]. inversion H; subst; constructor; auto. Qed.
Lemma F2_skipn : forall {A} (R : A -> A -> Prop) k a b, Forall2 R a b -> Forall2 R (skipn k a) (skipn k b).
Proof. intros A R k. induction k; intros a b H; cbn; [exact H|]. inversion H; subst; [constructor|auto]. Qed.
Lemma F2_nth : forall {A} (R : A -> A -> Prop) d d' k a b, R d d' -> Forall2 R a b -> R (nth k a d) (nth k b d').
Proof. intros A R d d' k. induction k; intros a b Hd H; inversion H; subst; cbn; auto. Qed.
Lemma F2_len : forall {A} (R : A -> A -> Prop) a b, Forall2 R a b -> zlen a = zlen b.
Proof. intros A R a b H. unfold zlen. induction H; cbn; lia. Qed.

Lemma st_le_array : forall st st' i, st_le st st' -> Forall2 gle (src_array st i) (src_array st' i).
Proof.
  intros st st' i H. unfold src_array, znth. destruct (i <? 0); [constructor|].
  apply (F2_nth (Forall2 gle)); [constructor|exact H].
Qed.
Lemma st_le_glyphs : forall st st' o, st_le st st' -> Forall2 gle (out_glyphs st o) (out_glyphs st' o).
Proof. intros. unfold out_glyphs, zfirstn, zskipn. apply F2_firstn. apply F2_skipn. apply st_le_array. assumption. Qed.

Lemma sum_le : forall a b, Forall2 gle a b -> sum_adv b <= sum_adv a.
Proof. intros a b H. unfold sum_adv. induction H; cbn [fold_right]; [lia|]. destruct H. lia. Qed.

(* the part of a run's advance that the measure discounts at the line end *)
Definition dsc (rtl : bool) (gs : list glyph) : Z :=
  let lastG := if rtl then znth glyph_zero gs 0 else znth glyph_zero gs (zlen gs - 1) in
  if g_ext lastG =? 0 then g_adv lastG else g_els lastG.

Lemma gle_fields : forall a b, gle a b -> g_ext a = g_ext b /\ g_els a = g_els b /\ g_adv b <= g_adv a.
Proof. intros a b [H1 H2]. apply gskel_fields in H1. intuition. Qed.

Lemma dsc_le : forall rtl a b, Forall2 gle a b -> a <> [] -> sum_adv b - dsc rtl b <= sum_adv a - dsc rtl a.
Proof.
  intros rtl a b H Hne. destruct rtl; unfold dsc.
  - inversion H; subst; [congruence|]. unfold znth; cbn. pose proof (sum_le _ _ H1) as SL. unfold sum_adv in SL. apply gle_fields in H0.
    destruct H0 as (E1 & E2 & E3). rewrite <- E1, <- E2. destruct (g_ext x =? 0); lia.
  - unfold sum_adv. induction H; [congruence|]. destruct l as [|x2 l].
    + inversion H0; subst. unfold znth, zlen; cbn. apply gle_fields in H. destruct H as (E1 & E2 & E3).
      rewrite <- E1, <- E2. destruct (g_ext x =? 0); lia.
    + inversion H0; subst. specialize (IHForall2 ltac:(congruence)).
      rewrite !zlen_cons in *. pose proof (zlen_nonneg l). pose proof (zlen_nonneg l'0).
      rewrite (znth_cons_S glyph_zero x (x2 :: l)) by lia. rewrite (znth_cons_S glyph_zero y (y0 :: l'0)) by lia.
      replace (1 + (1 + zlen l) - 1 - 1) with (1 + zlen l - 1) by lia.
      replace (1 + (1 + zlen l'0) - 1 - 1) with (1 + zlen l'0 - 1) by lia.
      cbn [fold_right] in *. destruct H. lia.
Qed.

Definition disc (st : store) (pdir : Z) (r : out) : Z :=
  let gs := out_glyphs st r in
  if (pdir =? o_dir r) && (0 <? zlen gs) then dsc (dir_rtl (o_dir r)) gs else 0.

Lemma disc_le : forall st st' pdir r, st_le st st' ->
  sum_adv (out_glyphs st' r) - disc st' pdir r <= sum_adv (out_glyphs st r) - disc st pdir r.
Proof.
  intros st st' pdir r H. pose proof (st_le_glyphs _ _ r H) as G. unfold disc.
  rewrite <- (F2_len _ _ _ G). destruct ((pdir =? o_dir r) && (0 <? zlen (out_glyphs st r))) eqn:E.
  - apply dsc_le; [exact G|]. apply andb_prop in E. destruct E as [_ E]. apply Z.ltb_lt in E.
    intros N. rewrite N in E. cbn in E. lia.
  - pose proof (sum_le _ _ G). lia.
Qed.

Lemma asa_eq : forall st o pdir, advance_space_aware st o pdir = o_adv o - disc st pdir o.
Proof.
  intros. unfold advance_space_aware, disc, dsc. pose proof (zlen_nonneg (out_glyphs st o)).
  destruct (zlen (out_glyphs st o) =? 0) eqn:E1; destruct (pdir =? o_dir o) eqn:E2; cbn [orb negb andb].
  - apply Z.eqb_eq in E1. rewrite E1. cbn. lia.
  - lia.
  - apply Z.eqb_neq in E1. replace (0 <? zlen (out_glyphs st o)) with true by (symmetry; apply Z.ltb_lt; lia).
    destruct (dir_rtl (o_dir o)); destruct (g_ext _ =? 0); lia.
  - lia.
Qed.

Definition rsum (st : store) (l : list out) : Z := fold_right (fun r a => sum_adv (out_glyphs st r) + a) 0 l.
Definition ldisc (st : store) (pdir : Z) (l : list out) : Z := match rev l with r :: _ => disc st pdir r | [] => 0 end.
Definition lmeas (st : store) (pdir : Z) (l : list out) : Z := rsum st l - ldisc st pdir l.

Lemma rsum_app : forall st a b, rsum st (a ++ b) = rsum st a + rsum st b.
Proof. intros st a b. unfold rsum. induction a; cbn [fold_right app]; lia. Qed.
Lemma rsum_le : forall st st' l, st_le st st' -> rsum st' l <= rsum st l.
Proof. intros st st' l H. unfold rsum. induction l; cbn [fold_right]; [lia|]. pose proof (sum_le _ _ (st_le_glyphs _ _ a H)). lia. Qed.
Lemma lmeas_snoc : forall st pdir l c, lmeas st pdir (l ++ [c]) = rsum st l + (sum_adv (out_glyphs st c) - disc st pdir c).
Proof. intros. unfold lmeas, ldisc. rewrite rev_unit, rsum_app. unfold rsum; cbn [fold_right]. lia. Qed.
Lemma lmeas_nil : forall st pdir, lmeas st pdir [] = 0.
Proof. reflexivity. Qed.
Lemma lmeas_le : forall st st' pdir l, st_le st st' -> lmeas st' pdir l <= lmeas st pdir l.
Proof.
  intros st st' pdir l H. destruct (rev l) as [|r x] eqn:E.
  - apply (f_equal (@rev out)) in E. rewrite rev_involutive in E. subst l. cbn. lia.
  - apply (f_equal (@rev out)) in E. rewrite rev_involutive in E. cbn in E. subst l. rewrite !lmeas_snoc.
    pose proof (rsum_le _ _ (rev x) H). pose proof (disc_le _ _ pdir r H). lia.
Qed.

Lemma line_measure_eq : forall st tsrc pdir line, line_measure st tsrc pdir line = lmeas st pdir (text_runs tsrc line).
Proof.
  intros. unfold line_measure, lmeas, ldisc. fold (rsum st (text_runs tsrc line)).
  destruct (rev (text_runs tsrc line)) as [|r x]; [lia|]. unfold disc, dsc.
  destruct ((pdir =? o_dir r) && (0 <? zlen (out_glyphs st r))); [|lia].
  destruct (dir_rtl (o_dir r)); reflexivity.
Qed.

Lemma out_glyphs_geo : forall st a b, geo a = geo b -> out_glyphs st a = out_glyphs st b.
Proof. intros st a b H. apply geo_fields in H. destruct H as (_ & _ & _ & H1 & H2 & H3). unfold out_glyphs. rewrite H1, H2, H3. reflexivity. Qed.
Lemma disc_geo : forall st pdir a b, geo a = geo b -> disc st pdir a = disc st pdir b.
Proof. intros st pdir a b H. unfold disc. rewrite (out_glyphs_geo st a b H). apply geo_fields in H. destruct H as (H & _). rewrite H. reflexivity. Qed.
Lemma rsum_geo : forall st l l', map geo l = map geo l' -> rsum st l = rsum st l'.
Proof.
  intros st. induction l as [|a l IH]; intros l' H; destruct l' as [|b l']; try discriminate; [reflexivity|].
  destruct (map_cons_inj _ _ _ _ _ H) as [H1 H2]. unfold rsum in *; cbn [fold_right]. rewrite (out_glyphs_geo st a b H1), (IH l' H2). reflexivity.
Qed.
Lemma lmeas_geo : forall st pdir l l', map geo l = map geo l' -> lmeas st pdir l = lmeas st pdir l'.
Proof.
  intros st pdir l l' H. unfold lmeas, ldisc. rewrite (rsum_geo st l l' H). f_equal.
  assert (R : map geo (rev l) = map geo (rev l')) by (rewrite !map_rev; congruence).
  destruct (rev l) as [|a x]; destruct (rev l') as [|b y]; try discriminate; [reflexivity|].
  destruct (map_cons_inj _ _ _ _ _ R) as [H1 _]. apply disc_geo; exact H1.
Qed.

Lemma ceil26_mono : forall x y, x <= y -> ceil26 x <= ceil26 y.
Proof. intros. unfold ceil26. apply Z.div_le_mono; lia. Qed.

(* ---- in-place edits only lose advance ---------------------------------------------------------------------------- *)

Lemma F2_list_set : forall {A} (R : A -> A -> Prop), (forall x, R x x) -> forall l k x,
  (forall y, nth_error l k = Some y -> R y x) -> Forall2 R l (list_set l k x).
Proof.
  intros A R Hr. induction l as [|a l IH]; intros k x H; cbn; [constructor|]. destruct k; cbn.
  - constructor; [apply H; reflexivity|apply F2_refl; exact Hr].
  - constructor; [apply Hr|apply IH; intros y Hy; apply H; exact Hy].
Qed.
Lemma Forall_list_set : forall {A} (P : A -> Prop) l k x, Forall P l -> (forall y, nth_error l k = Some y -> P x) -> Forall P (list_set l k x).
Proof.
  intros A P. induction l as [|a l IH]; intros k x H Hx; cbn; [constructor|]. inversion H; subst. destruct k; cbn.
  - constructor; [apply (Hx a); reflexivity|assumption].
  - constructor; [assumption|apply IH; [assumption|intros y Hy; apply (Hx y); exact Hy]].
Qed.
Lemma nth_error_znth : forall {A} (d : A) l i y, 0 <= i -> nth_error l (Z.to_nat i) = Some y -> znth d l i = y.
Proof. intros A d l i y Hi H. unfold znth. destruct (i <? 0) eqn:E; [lia|]. apply nth_error_nth. exact H. Qed.

Lemma SG_array : forall st k arr, SG st -> nth_error st k = Some arr -> Forall gok arr.
Proof. intros st k arr H E. unfold SG in H. rewrite Forall_forall in H. apply H. eapply nth_error_In; eauto. Qed.

Lemma store_update_le : forall st src i f, SG st -> (forall g, gok g -> gle g (f g)) -> st_le st (store_update st src i f).
Proof.
  intros st src i f HS Hf. unfold store_update, zset. destruct (src <? 0) eqn:E1; [apply st_le_refl|]. apply Z.ltb_ge in E1.
  apply F2_list_set; [intros; apply F2_refl; apply gle_refl|]. intros arr Harr.
  assert (Ha : src_array st src = arr) by (apply nth_error_znth; assumption). rewrite Ha.
  destruct (i <? 0) eqn:E2; [apply F2_refl; apply gle_refl|]. apply Z.ltb_ge in E2.
  apply F2_list_set; [apply gle_refl|]. intros y Hy. rewrite (nth_error_znth glyph_zero arr i y E2 Hy). apply Hf.
  pose proof (SG_array _ _ _ HS Harr) as G. rewrite Forall_forall in G. apply G. eapply nth_error_In; eauto.
Qed.
Lemma store_update_SG : forall st src i f, SG st -> (forall g, gok g -> gok (f g)) -> SG (store_update st src i f).
Proof.
  intros st src i f HS Hf. unfold store_update, zset. destruct (src <? 0) eqn:E1; [exact HS|]. apply Z.ltb_ge in E1.
  apply Forall_list_set; [exact HS|]. intros arr Harr.
  assert (Ha : src_array st src = arr) by (apply nth_error_znth; assumption). rewrite Ha.
  pose proof (SG_array _ _ _ HS Harr) as G.
  destruct (i <? 0) eqn:E2; [exact G|]. apply Z.ltb_ge in E2.
  apply Forall_list_set; [exact G|]. intros y Hy. rewrite (nth_error_znth glyph_zero arr i y E2 Hy). apply Hf.
  rewrite Forall_forall in G. apply G. eapply nth_error_In; eauto.
Qed.

Lemma trim_gle : forall g, gok g -> gle g (trim_glyph g).
Proof. intros g [H1 H2]. split; [symmetry; apply gskel_trim|cbn; lia]. Qed.
Lemma trim_gok : forall g, gok g -> gok (trim_glyph g).
Proof. intros g [H1 H2]. unfold gok; cbn. lia. Qed.
Lemma zero_gle : forall g, gok g -> gle g (zero_adv g).
Proof. intros g [H1 H2]. split; [symmetry; apply gskel_zero|cbn; destruct (g_ext g =? 0); lia]. Qed.

Lemma nonneg_SG : forall st, nonneg_adv st = true -> SG st.
Proof.
  intros st H. unfold nonneg_adv in H. unfold SG. rewrite forallb_forall in H. apply Forall_forall. intros arr Ha.
  specialize (H arr Ha). rewrite forallb_forall in H. apply Forall_forall. intros g Hg. specialize (H g Hg).
  repeat (apply andb_prop in H; destruct H as [H ?]). unfold gok. lia.
Qed.

(* cutRun: the store only loses advance, the cut's Advance is the sum of its glyphs on the new store *)
Lemma cut_run_le : forall st run m s e t st' r, SG st -> cut_run st run m s e t = Ok (st', r) ->
  st_le st st' /\ SG st' /\ o_adv r = sum_adv (out_glyphs st' r) /\ o_src r = o_src run /\ o_dir r = o_dir run.
Proof.
  intros st run m s e t st' r HS H. pose proof (cut_run_fields _ _ _ _ _ _ _ _ H) as (_ & _ & F3 & F4 & _ & F6).
  unfold cut_run in H.
  destruct (inclusive_glyph_range _ _ _ m _) as [[gs gend]| | |]; cbn [bind] in H; try discriminate.
  destruct ((0 <=? gs) && (gs <=? gend + 1) && (gend + 1 <=? zlen (src_array st (o_src run)) - o_lo run)); [|discriminate].
  match type of H with Ok (?a, _) = _ => assert (E : st' = a) by (inversion H; reflexivity) end.
  assert (X : st_le st st' /\ SG st').
  { rewrite E. destruct (t && _).
    - split; [apply store_update_le; [exact HS|exact trim_gle]|apply store_update_SG; [exact HS|exact trim_gok]].
    - split; [apply st_le_refl|exact HS]. }
  destruct X. auto.
Qed.

Definition RA (st : store) (rs : list out) : Prop := Forall (fun r => sum_adv (out_glyphs st r) <= o_adv r) rs.
Lemma RA_le : forall st st' rs, st_le st st' -> RA st rs -> RA st' rs.
Proof.
  intros st st' rs H R. unfold RA in *. rewrite Forall_forall in *. intros r Hr. specialize (R r Hr).
  pose proof (sum_le _ _ (st_le_glyphs _ _ r H)). lia.
Qed.
Lemma RA_znth : forall st rs i, RA st rs -> sum_adv (out_glyphs st (znth out_zero rs i)) <= o_adv (znth out_zero rs i).
Proof.
  intros st rs i R. assert (Z0 : sum_adv (out_glyphs st out_zero) <= o_adv out_zero).
  { unfold out_glyphs, src_array, znth; cbn. lia. }
  unfold znth. destruct (i <? 0); [exact Z0|]. destruct (nth_in_or_default (Z.to_nat i) rs out_zero) as [H|H].
  - unfold RA in R. rewrite Forall_forall in R. apply R; exact H.
  - rewrite H. exact Z0.
Qed.
Lemma adv_consistent_RA : forall st rs, adv_consistent st rs = true -> RA st rs.
Proof.
  intros st rs H. unfold adv_consistent in H. rewrite forallb_forall in H. apply Forall_forall. intros r Hr.
  specialize (H r Hr). apply Z.eqb_eq in H. lia.
Qed.

(* ---- part 2: fillUntil and processBreakOption keep "recorded advance >= sum of the glyph advances" --------------- *)

(* (the input runs' own Advance is never read any more: a run placed whole has its advance recomputed from the glyphs) *)
Definition Base (w : W) : Prop := SG (w_st w).
Definition WA (w : W) : Prop := rsum (w_st w) (s_alt (w_sc w)) <= s_alt_adv (w_sc w).
Definition WSv (w : W) : Prop := rsum (w_st w) (s_save (w_sc w)) <= s_save_adv (w_sc w).

Lemma peek_run : forall w ci run, peek w = (ci, run, true) -> run = znth out_zero (w_runs w) (w_idx w).
Proof. intros w ci run H. unfold peek in H. destruct (zlen (w_runs w) <=? w_idx w); inversion H; reflexivity. Qed.

Definition sfr (w w' : W) : Prop :=
  s_save (w_sc w') = s_save (w_sc w) /\ s_save_adv (w_sc w') = s_save_adv (w_sc w) /\ s_best (w_sc w') = s_best (w_sc w)
  /\ w_runs w' = w_runs w /\ w_cfg w' = w_cfg w /\ w_start w' = w_start w /\ w_br w' = w_br w.
Lemma sfr_refl : forall w, sfr w w.
Proof. intros; unfold sfr; repeat split. Qed.
Lemma sfr_trans : forall a b c, sfr a b -> sfr b c -> sfr a c.
Proof. unfold sfr; intros a b c H1 H2; intuition congruence. Qed.

Lemma WA_append : forall st alt adv r, rsum st alt <= adv -> sum_adv (out_glyphs st r) <= o_adv r ->
  rsum st (alt ++ [r]) <= adv + o_adv r.
Proof. intros. rewrite rsum_app. unfold rsum at 2; cbn [fold_right]. lia. Qed.

Lemma fill_until_W : forall fuel w b w', Base w -> WA w -> fill_until fuel w b = Ok w' ->
  Base w' /\ WA w' /\ st_le (w_st w) (w_st w') /\ sfr w w'.
Proof.
  induction fuel as [|fuel IH]; intros w b w' HB HA H; cbn [fill_until] in H; [discriminate|].
  destruct (peek w) as [[ci run] more] eqn:P.
  destruct (more && (o_cnt run + o_off run <=? b)) eqn:E.
  2:{ inversion H; subst. split; [exact HB|]. split; [exact HA|]. split; [apply st_le_refl|apply sfr_refl]. }
  apply andb_prop in E. destruct E as [E _]. subst more. pose proof (peek_run _ _ _ P) as Hrun.
  destruct (o_off run + o_cnt run <=? w_start w).
  - assert (B1 : Base (iter_advance w)) by (destruct w; exact HB).
    assert (A1 : WA (iter_advance w)) by (destruct w; exact HA).
    destruct (IH _ _ _ B1 A1 H) as (B2 & A2 & L2 & F2). split; [exact B2|]. split; [exact A2|].
    split; [destruct w; exact L2|]. eapply sfr_trans; [|exact F2]. destruct w; unfold sfr; cbn; repeat split.
  - pose proof HB as HS.
    destruct (o_off run <? w_start w).
    + destruct (map_run w ci run) as [w1| | |] eqn:MR; cbn [bind] in H; try discriminate.
      destruct (map_run_set _ _ _ _ MR) as [mp ->].
      destruct (cut_run _ run _ _ _ _) as [[st' rc]| | |] eqn:CR; cbn [bind fst snd] in H; try discriminate.
      replace (w_st (set_mp w mp)) with (w_st w) in CR by (destruct w; reflexivity).
      destruct (cut_run_le _ _ _ _ _ _ _ _ HS CR) as (L1 & S1 & Ad & _).
      set (w2 := iter_advance (cand_append (set_st (set_mp w mp) st') rc)) in *.
      assert (B1 : Base w2) by (unfold w2, Base; destruct w; cbn in *; exact S1).
      assert (A1 : WA w2).
      { unfold w2, WA in *; destruct w; cbn -[rsum sum_adv out_glyphs] in *. apply WA_append; [|lia].
        pose proof (rsum_le _ _ (s_alt w_sc) L1). lia. }
      destruct (IH _ _ _ B1 A1 H) as (B2 & A2 & L2 & F2). split; [exact B2|]. split; [exact A2|].
      split; [eapply st_le_trans; [exact L1|]; unfold w2 in L2; destruct w; exact L2|].
      eapply sfr_trans; [|exact F2]. unfold w2; destruct w; unfold sfr; cbn; repeat split.
    + cbn [bind fst snd] in H.
      set (w2 := iter_advance (cand_append w (recompute_advance (w_st w) run))) in *.
      assert (B1 : Base w2) by (unfold w2, Base; destruct w; cbn in *; assumption).
      assert (A1 : WA w2).
      { unfold w2, WA in *; destruct w; cbn -[rsum sum_adv out_glyphs recompute_advance] in *. apply WA_append; [assumption|].
        unfold recompute_advance, set_adv, out_glyphs. cbn. lia. }
      destruct (IH _ _ _ B1 A1 H) as (B2 & A2 & L2 & F2). split; [exact B2|]. split; [exact A2|].
      split; [unfold w2 in L2; destruct w; exact L2|].
      eapply sfr_trans; [|exact F2]. unfold w2; destruct w; unfold sfr; cbn; repeat split.
Qed.

Lemma pbo_W : forall w opt lc w' r cand, Base w -> WA w -> process_break_option w opt lc = Ok (w', r, cand) ->
  Base w' /\ WA w' /\ st_le (w_st w) (w_st w') /\ sfr w w'
  /\ (r <> BreakInvalid -> o_adv cand = sum_adv (out_glyphs (w_st w') cand)).
Proof.
  intros w opt lc w' r cand HB HA H. unfold process_break_option in H.
  destruct (fst opt <? w_start w).
  { inversion H; subst. split; [exact HB|]. split; [exact HA|]. split; [apply st_le_refl|]. split; [apply sfr_refl|congruence]. }
  destruct (fill_until _ w (fst opt)) as [w1| | |] eqn:FU; cbn [bind] in H; try discriminate.
  destruct (fill_until_W _ _ _ _ HB HA FU) as (B1 & A1 & L1 & F1).
  destruct (peek w1) as [[ci run] mr].
  destruct (map_run w1 ci run) as [w2| | |] eqn:MR; cbn [bind] in H; try discriminate.
  destruct (map_run_set _ _ _ _ MR) as [mp ->].
  assert (B2 : Base (set_mp w1 mp)) by (destruct w1; exact B1).
  assert (A2 : WA (set_mp w1 mp)) by (destruct w1; exact A1).
  assert (L2 : st_le (w_st w) (w_st (set_mp w1 mp))) by (destruct w1; exact L1).
  assert (F2 : sfr w (set_mp w1 mp)) by (eapply sfr_trans; [exact F1|]; destruct w1; unfold sfr; cbn; repeat split).
  destruct (is_valid _ _ _ run) as [v| | |]; cbn [bind] in H; try discriminate.
  destruct v; cbn [negb] in H.
  2:{ inversion H; subst. split; [exact B2|]. split; [exact A2|]. split; [exact L2|]. split; [exact F2|congruence]. }
  destruct (cut_run _ run _ _ _ _) as [[st' rc]| | |] eqn:CR; cbn [bind fst snd] in H; try discriminate.
  destruct (cut_run_le _ _ _ _ _ _ _ _ B2 CR) as (L3 & S3 & Ad & _).
  set (w3 := set_st (set_mp w1 mp) st') in *.
  assert (Hfin : w' = w3 /\ cand = rc).
  { destruct (lc_max lc <? _); [inversion H; auto|]. destruct (lc_truncating lc && _).
    - destruct (_ && _); inversion H; auto.
    - inversion H; auto. }
  destruct Hfin as [-> ->].
  assert (St3 : w_st w3 = st') by (unfold w3; destruct w1; reflexivity).
  split; [|split; [|split; [|split]]].
  - unfold Base. rewrite St3. exact S3.
  - unfold WA in *. rewrite St3. replace (w_sc w3) with (w_sc (set_mp w1 mp)) by (unfold w3; destruct w1; reflexivity).
    pose proof (rsum_le _ _ (s_alt (w_sc (set_mp w1 mp))) L3). lia.
  - rewrite St3. eapply st_le_trans; [exact L2|exact L3].
  - eapply sfr_trans; [exact F2|]. unfold w3; destruct w1; unfold sfr; cbn; repeat split.
  - intros _. rewrite St3. exact Ad.
Qed.

(* the width the wrapper measured for a candidate bounds the declarative measure of the candidate line on the same store *)
Lemma cand_meas : forall w cand, WA w -> o_adv cand = sum_adv (out_glyphs (w_st w) cand) ->
  ceil26 (lmeas (w_st w) (c_dir (w_cfg w)) (s_alt (w_sc w) ++ [cand])) <= cand_width w cand.
Proof.
  intros w cand HA Ad. unfold cand_width. apply ceil26_mono. rewrite lmeas_snoc, asa_eq. unfold WA in HA. lia.
Qed.

(* ---- part 3: the classification of the best line through both loops ---------------------------------------------- *)

Lemma pbo_endline : forall w opt lc w' cand, process_break_option w opt lc = Ok (w', EndLine, cand) ->
  out_end cand = b_n (w_br w') /\ c_cont (w_cfg w') = false.
Proof.
  intros w opt lc w' cand H. unfold process_break_option in H.
  destruct (fst opt <? w_start w); [discriminate|].
  destruct (fill_until _ w (fst opt)) as [w1| | |]; cbn [bind] in H; try discriminate.
  destruct (peek w1) as [[ci run] mr].
  destruct (map_run w1 ci run) as [w2| | |]; cbn [bind] in H; try discriminate.
  destruct (is_valid _ _ _ run) as [v| | |]; cbn [bind] in H; try discriminate.
  destruct v; cbn [negb] in H; [|discriminate].
  destruct (cut_run _ run _ _ _ _) as [sr| | |]; cbn [bind] in H; try discriminate.
  destruct (lc_max lc <? _); [destruct (has_best _); discriminate|].
  destruct (lc_truncating lc && _); [|discriminate].
  destruct ((o_cnt (snd sr) + o_off (snd sr) =? b_n (w_br (set_st w2 (fst sr)))) && negb (c_cont (w_cfg (set_st w2 (fst sr))))) eqn:E; [|discriminate].
  inversion H; subst. apply andb_prop in E. destruct E as [E1 E2]. apply Z.eqb_eq in E1. apply negb_true_iff in E2.
  unfold out_end. split; [lia|exact E2].
Qed.

Lemma nwb_U : forall n b b' o, Bk n b -> next_word_break b = (b', Some o) ->
  forall p, line_boundary (b_attrs b) p = true ->
    (b_wpos b < p \/ (b_wpos b = p /\ b_isUnusedW b = true)) ->
    fst o + 1 <= p /\ (p <> fst o + 1 -> b_wpos b' < p).
Proof.
  intros n b b' o HB H p Hl HU. destruct HB as (_ & Hw & _ & _ & _ & _ & _ & _ & _ & _ & HF & _).
  unfold next_word_break in H. destruct (b_isUnusedW b) eqn:F.
  - inversion H; subst; clear H. cbn [b_wpos]. cbn [b2z] in HF. destruct HF as [HF|[HF1 HF2]]; [lia|]. lia.
  - destruct (next_word_raw b) as [b1 [o1|]] eqn:R; inversion H; subst; clear H. cbn [b_wpos].
    destruct (next_word_raw_spec _ _ _ Hw R) as (_ & _ & W & _ & _ & _ & NL).
    destruct HU as [HU|[_ HU]]; [|discriminate].
    assert (~ (b_wpos b < p < fst o + 1)) by (intros Q; rewrite (NL p Q) in Hl; discriminate). lia.
Qed.

Lemma nwb_prev_reissue : forall b b' ro, next_word_break b = (b', ro) -> b_isUnusedW b = true -> b_prevW b' = b_prevW b.
Proof. intros b b' ro H F. unfold next_word_break in H. rewrite F in H. inversion H; reflexivity. Qed.

(* the grapheme iterator: boundary q has not been handed out yet (ahead of the iterator, or pending re-issue) *)
Definition UG (b : breaker) (q : Z) : Prop := b_gpos b < q \/ (b_gpos b = q /\ b_isUnusedG b = true).

(* nextGraphemeBreak never loses a pending grapheme boundary: it is skipped (at or before previousWordBreak), handed
   out, or still pending afterwards *)
Lemma ngb_U : forall n fuel b b' ro, Bk n b -> next_grapheme_break fuel b = Ok (b', ro) ->
  forall q, q <= n -> grapheme_boundary (b_attrs b) q = true -> UG b q ->
    (q <= fst (b_prevW b) + 1 /\ 0 < fst (b_prevW b))
    \/ match ro with
       | Some o => q = fst o + 1 \/ (fst o + 1 < q /\ UG b' q)
       | None => UG b' q /\ fst (b_unusedW b) + 1 < q
       end.
Proof.
  intros n. induction fuel as [|fuel IH]; intros b b' ro HB H q Hq Hg HU; cbn [next_grapheme_break] in H; [discriminate|].
  pose proof HB as (Hn & Hw & Hgp & Hp & Hu & Hun & Hug & Hugn & Hst & Hw3 & Hfw & Hfg).
  set (rd := if b_isUnusedG b then (set_unusedG b (b_unusedG b) false, Some (b_unusedG b)) else next_grapheme_raw b) in H.
  assert (R : exists b1 o, rd = (b1, Some o) /\ Bk n b1 /\ b_prevW b1 = b_prevW b /\ b_unusedW b1 = b_unusedW b /\ b_attrs b1 = b_attrs b
              /\ b_isUnusedG b1 = false /\ b_gpos b1 = fst o + 1
              /\ (q = fst o + 1 \/ (fst o + 1 < q /\ UG b1 q))).
  { unfold rd. destruct (b_isUnusedG b) eqn:F.
    - cbn [b2z] in Hfg. destruct Hfg as [Hfg|[Hfg1 Hfg2]]; [lia|].
      eexists _, _. split; [reflexivity|]. split; [unfold Bk; cbn; try rewrite F in *; cbn [b2z] in *; repeat split; try lia|].
      cbn. repeat split; auto; try lia.
      destruct HU as [HU|[HU _]]; [right; split; [lia|left; cbn; lia]|left; lia].
    - unfold next_grapheme_raw. destruct (iter_next (b_attrs b) (b_n b) fl_grapheme (b_gpos b)) as [p ok] eqn:E. destruct ok.
      + apply iter_next_spec in E; [|exact Hgp]. destruct E as (E1 & E2 & E3).
        destruct HU as [HU|[_ HU]]; [|congruence].
        assert (Hqp : p <= q).
        { destruct (Z_lt_le_dec q p) as [A|A]; [|exact A]. exfalso. unfold grapheme_boundary, attr_at in Hg. rewrite (E3 q) in Hg by lia. discriminate. }
        eexists _, _. split; [reflexivity|]. split; [unfold Bk; cbn; try rewrite F in *; cbn [b2z] in *; repeat split; try lia|].
        cbn. repeat split; auto; try lia.
        destruct (Z.eq_dec q p) as [->|Hne]; [left; lia|right; split; [lia|left; cbn; lia]].
      + exfalso. apply iter_next_false in E. destruct E as [_ E]. destruct HU as [HU|[_ HU]]; [|congruence].
        unfold grapheme_boundary, attr_at in Hg. rewrite Hn in E. rewrite (E q) in Hg by lia. discriminate. }
  destruct R as (b1 & o & -> & HB1 & S3 & S2 & S5 & Hf1 & Hg1 & Hq1).
  destruct ((fst o <=? fst (b_prevW b1)) && (0 <? fst (b_prevW b1))) eqn:SK.
  - apply andb_prop in SK. destruct SK as [SK1 SK2]. apply Z.leb_le in SK1. apply Z.ltb_lt in SK2. rewrite S3 in SK1, SK2.
    destruct Hq1 as [->|[Hq1 Hq2]]; [left; split; lia|].
    specialize (IH _ _ _ HB1 H q Hq ltac:(rewrite S5; exact Hg) Hq2). rewrite S3, S2 in IH. exact IH.
  - right. destruct (fst (b_unusedW b1) <? fst o) eqn:GT; inversion H; subst b' ro; clear H.
    + apply Z.ltb_lt in GT. rewrite S2 in GT. unfold UG; cbn.
      destruct Hq1 as [->|[Hq1 _]]; (split; [|lia]); [right; split; [lia|reflexivity]|left; lia].
    + destruct Hq1 as [->|[Hq1 _]]; [left; reflexivity|right; split; [exact Hq1|unfold UG; cbn; left; lia]].
Qed.

Section Loops.
Variables (n : Z) (attrs : list Z) (st0 : store) (rs : list out).

Definition lbV (p : Z) : Prop := line_boundary attrs p = true /\ CBall st0 rs p.
Definition SK (w : W) : Prop := sk (w_st w) = sk st0 /\ w_runs w = rs /\ b_attrs (w_br w) = attrs.

(* valid grapheme boundaries, and the positions where the policy permits ending a line *)
Definition gbV (p : Z) : Prop := grapheme_boundary attrs p = true /\ CBall st0 rs p.
Definition brkV (w : W) (p : Z) : Prop := lbV p \/ (c_policy (w_cfg w) <> 1 /\ gbV p).
Definition OverQ (w : W) (l : list out) : Prop := forall p, w_start w < p < lend (w_start w) l -> brkV w p -> False.
Definition T0c (w : W) (l : list out) : Prop := l = [].
Definition EndC (w : W) (l : list out) : Prop := lend (w_start w) l = n /\ c_cont (w_cfg w) = false.
Definition BCl (lc : line_cfg) (w : W) (l : list out) : Prop :=
  let m := ceil26 (lmeas (w_st w) (c_dir (w_cfg w)) l) in
  (m <= lc_max lc /\ (lc_truncating lc = true -> m <= lc_tmax lc \/ EndC w l))
  \/ (lc_truncating lc = true /\ T0c w l)
  \/ (lc_truncating lc = false /\ OverQ w l).
Definition BC (lc : line_cfg) (w : W) : Prop := forall l, s_best (w_sc w) = Some l -> BCl lc w l.

Definition No (w : W) : Prop :=
  has_best w = false -> forall p, w_start w < p -> lbV p ->
    b_wpos (w_br w) < p \/ (b_wpos (w_br w) = p /\ b_isUnusedW (w_br w) = true).
Definition Ni (w : W) : Prop := has_best w = false -> forall p, w_start w < p -> lbV p -> b_wpos (w_br w) <= p.
(* without a best line: no valid grapheme boundary beyond the line start has been handed out, and the options the
   grapheme iterator skips (at or before previousWordBreak) lie before the line start *)
Definition Gi (w : W) : Prop := has_best w = false ->
  (forall q, w_start w < q <= n -> gbV q -> UG (w_br w) q)
  /\ (fst (b_prevW (w_br w)) + 1 <= w_start w \/ fst (b_prevW (w_br w)) <= 0).
Definition Go (w : W) : Prop := has_best w = false ->
  (forall q, w_start w < q <= n -> gbV q -> UG (w_br w) q)
  /\ (fst (b_prevW (w_br w)) + 1 <= w_start w \/ fst (b_prevW (w_br w)) <= 0)
  /\ (b_isUnusedW (w_br w) = false -> fst (b_unusedW (w_br w)) + 1 <= w_start w \/ fst (b_unusedW (w_br w)) <= 0).

Definition HBI_t : Prop := forall w opt lc w' r cand,
  Inv n w -> XI n w -> fst opt < n -> (s_alt (w_sc w) <> [] -> lend (w_start w) (s_alt (w_sc w)) <= fst opt) ->
  process_break_option w opt lc = Ok (w', r, cand) -> r = BreakInvalid ->
  fst opt < w_start w \/ ~ CBall (w_st w) (w_runs w) (fst opt + 1).

Lemma BC_step : forall lc w w', BC lc w -> st_le (w_st w) (w_st w') -> s_best (w_sc w') = s_best (w_sc w) ->
  w_start w' = w_start w -> w_cfg w' = w_cfg w -> w_runs w' = w_runs w -> BC lc w'.
Proof.
  intros lc w w' H L Eb Es Ec Er l Hl. rewrite Eb in Hl. specialize (H l Hl). unfold BCl, EndC, T0c, OverQ, brkV in *.
  rewrite Es, Ec. pose proof (ceil26_mono _ _ (lmeas_le _ _ (c_dir (w_cfg w)) l L)) as M.
  destruct H as [[H1 H2]|[H|H]]; [left|right; left; exact H|right; right; exact H].
  split; [lia|]. intros T. destruct (H2 T) as [H3|H3]; [left; lia|right; exact H3].
Qed.
Lemma BC_same : forall lc w w', BC lc w -> w_st w' = w_st w -> s_best (w_sc w') = s_best (w_sc w) ->
  w_start w' = w_start w -> w_cfg w' = w_cfg w -> w_runs w' = w_runs w -> BC lc w'.
Proof. intros lc w w' H E. intros. eapply BC_step; eauto. rewrite E. apply st_le_refl. Qed.

Lemma chain_snoc_end : forall l s c e, chain s (l ++ [c]) e -> e = out_end c.
Proof.
  intros l s c e H. apply chain_app_inv in H. destruct H as (m & _ & H). unfold chain in H; cbn in H.
  destruct (o_off c =? m); [|discriminate]. inversion H; reflexivity.
Qed.

Definition Post (lc : line_cfg) (w' : W) : Prop := Base w' /\ BC lc w'.

Lemma has_best_false_best : forall w w', s_best (w_sc w') = s_best (w_sc w) -> has_best w' = false -> has_best w = false.
Proof. intros w w' E H. rewrite <- (has_best_same w w' E). exact H. Qed.

Lemma inner_W : HBI_t -> forall fuel w wopt lc w' d,
  JT n w -> OrdI w -> 1 <= b_wpos (w_br w) <= n -> fst (b_unusedW (w_br w)) = b_wpos (w_br w) - 1 ->
  fst wopt = b_wpos (w_br w) - 1 -> XI n w ->
  SK w -> Base w -> WA w -> WSv w -> BC lc w -> Ni w -> Gi w ->
  inner_loop fuel w wopt lc = Ok (w', d) -> Post lc w'.
Proof.
  intros HBI. induction fuel as [|fuel IH]; intros w wopt lc w' d HT HO HW HU HWo HX HK HBs HA HSv HBC HNi HGi H; cbn [inner_loop] in H; [discriminate|].
  destruct (JT_checkpoint n w HT) as (T1 & Csv & Calt & Cbe & Cbr & Cbest).
  pose proof (XI_checkpoint n w HX) as XC1.
  assert (St1 : w_st (checkpoint w) = w_st w) by (destruct w; reflexivity).
  assert (WSv1 : WSv (checkpoint w)) by (unfold WSv, WA in *; destruct w; exact HA).
  assert (WA1 : WA (checkpoint w)) by (unfold WA in *; destruct w; exact HA).
  assert (Cf1 : w_cfg (checkpoint w) = w_cfg w /\ w_runs (checkpoint w) = w_runs w) by (destruct w; split; reflexivity).
  set (w1 := checkpoint w) in *.
  destruct (next_grapheme_break (br_fuel w1) (w_br w1)) as [[b1 ro]| | |] eqn:NG; cbn [bind fst snd] in H; try discriminate.
  pose proof T1 as ((_ & B1 & _) & _).
  destruct (ngb_spec n _ _ _ _ B1 NG) as (Bb1 & SW & UG & X & Y). rewrite Cbr in SW, UG, X, Y.
  destruct SW as (S1 & S2 & S3 & S4 & S5).
  pose proof (JT_set_br n w1 b1 T1 Bb1) as T2.
  destruct (set_br_proj w1 b1) as (Q1 & Q2 & Q3 & Q4 & Q5).
  assert (Q7 : w_start w1 = w_start w) by (destruct w; reflexivity).
  pose proof (XI_set_br n w1 b1 XC1) as XC2.
  assert (St2 : w_st (set_br w1 b1) = w_st w) by (rewrite <- St1; destruct w1; reflexivity).
  assert (Cf2 : w_cfg (set_br w1 b1) = w_cfg w /\ w_runs (set_br w1 b1) = w_runs w) by (destruct Cf1; destruct w1; cbn in *; split; assumption).
  assert (WSv2 : WSv (set_br w1 b1)) by (unfold WSv in *; destruct w1; exact WSv1).
  assert (WA2 : WA (set_br w1 b1)) by (unfold WA in *; destruct w1; exact WA1).
  assert (HBs2 : Base (set_br w1 b1)) by (unfold Base in *; rewrite St2; exact HBs).
  set (w2 := set_br w1 b1) in *.
  rewrite Calt in Q1. rewrite Csv in Q5. rewrite Cbest in Q4. rewrite Q7 in Q3.
  destruct (Bk_ug_n n _ Bb1) as (G1 & G2 & G3).
  set (b := w_br w) in *.
  destruct ro as [opt|].
  2:{ (* the end of the loop: the best line so far, or the UAX #14 option that cannot fit (no valid boundary inside it) *)
      cbv beta iota zeta in H.
      assert (Rw2 : restore w2 = w2) by (unfold w2, w1; destruct w as [? ? ? ? ? ? ? ? ? [? ? ? ? ?] ?]; reflexivity).
      unfold word_fallback in H.
      destruct (negb (lc_truncating lc) && negb (has_best w2)) eqn:FB.
      2:{ inversion H; subst w' d. split; [exact HBs2|]. eapply BC_same; [exact HBC|exact St2|exact Q4|exact Q3|exact (proj1 Cf2)|exact (proj2 Cf2)]. }
      apply andb_prop in FB. destruct FB as [FB1 FB2]. apply negb_true_iff in FB1, FB2.
      rewrite (has_best_same w w2 Q4) in FB2. rewrite Rw2 in H.
      assert (Hord : s_alt (w_sc w2) <> [] -> lend (w_start w2) (s_alt (w_sc w2)) <= fst wopt).
      { rewrite Q1. rewrite (JT_no_best_alt n w HT FB2). congruence. }
      destruct (pbo_safe n w2 wopt lc (proj1 (proj1 T2)) XC2 ltac:(lia) Hord) as (w3 & r & cand & PB & XC3 & Sk3 & Fin3).
      rewrite PB in H. cbn [bind] in H.
      destruct (JP_pbo n w2 wopt lc w3 r cand (proj1 T2) ltac:(lia) Hord PB) as (P3 & F3 & BE3 & LE3 & C3 & L3).
      destruct (pbo_W _ _ _ _ _ _ HBs2 WA2 PB) as (Bs3 & WA3 & Le3 & Sf3 & Ad3).
      destruct F3 as (F3c & _ & F3s & _ & F3r & _ & F3b & F3v & F3best).
      rewrite Q4 in F3best. rewrite Q3 in F3s. rewrite (proj1 Cf2) in F3c. rewrite (proj2 Cf2) in F3r. rewrite St2 in Le3.
      assert (BC3 : BC lc w3) by (eapply BC_step; [exact HBC|exact Le3|exact F3best|exact F3s|exact F3c|exact F3r]).
      cbv beta iota zeta in H.
      assert (Hcase : (r = BreakInvalid /\ w' = restore w3 /\ d = false) \/ (r <> BreakInvalid /\ w' = mark_best w3 [cand] /\ d = false)).
      { destruct r; injection H as <- <-; first [left; repeat split; reflexivity | right; repeat split; try reflexivity; discriminate]. }
      clear H. destruct Hcase as [(Hr & -> & ->)|(Hr & -> & ->)].
      - split; [unfold Base in *; destruct w3; exact Bs3|]. eapply BC_same; [exact BC3| | | | |]; destruct w3; reflexivity.
      - split; [unfold Base in *; destruct w3; exact Bs3|].
        intros l Hl. destruct (mark_best_proj w3 [cand]) as (M1 & M2 & M3 & M4). rewrite M4 in Hl. injection Hl as <-.
        unfold BCl. right; right. split; [exact FB1|]. unfold OverQ. rewrite M3.
        destruct (C3 Hr) as (_ & _ & C33). rewrite (lend_chain _ _ _ C33). intros p Hp Hv. rewrite F3s in Hp.
        destruct Hv as [Hv|[_ Hv]].
        + pose proof (HNi FB2 p ltac:(lia) Hv) as Q. fold b in Q. lia.
        + (* a valid grapheme boundary inside: it was still pending, so nextGraphemeBreak would have handed it out *)
          destruct (HGi FB2) as [GU GP]. fold b in GU, GP.
          pose proof (ngb_U n _ _ _ _ B1 NG p ltac:(lia) ltac:(rewrite Cbr; destruct HK as (_ & _ & K3); fold b in K3; rewrite K3; exact (proj1 Hv))
                        ltac:(rewrite Cbr; apply GU; [lia|exact Hv])) as Q.
          rewrite Cbr in Q. fold b in Q. destruct Q as [[Qa Qb]|[_ Qc]]; lia. }
  destruct X as (X1 & X2 & X3 & X4 & X5 & X6 & X7 & X8).
  assert (X1' : fst opt = fst (b_unusedG b1)) by (rewrite X1; reflexivity).
  assert (Hord : s_alt (w_sc w2) <> [] -> lend (w_start w2) (s_alt (w_sc w2)) <= fst opt).
  { rewrite Q1, Q3. intros Hne. destruct (HO Hne) as [O1|O1]; fold b in O1; lia. }
  destruct (pbo_safe n w2 opt lc (proj1 (proj1 T2)) XC2 ltac:(lia) Hord) as (w3 & r & cand & PB & XC3 & Sk3 & Fin3).
  rewrite PB in H. cbn [bind] in H.
  destruct (JP_pbo n w2 opt lc w3 r cand (proj1 T2) ltac:(lia) Hord PB) as (P3 & F3 & BE3 & LE3 & C3 & L3).
  destruct (pbo_W _ _ _ _ _ _ HBs2 WA2 PB) as (Bs3 & WA3 & Le3 & Sf3 & Ad3).
  destruct (process_fits_width _ _ _ _ _ _ PB) as (PW1 & PW2 & PW3 & PW4).
  destruct (pbo_kind _ _ _ _ _ _ PB) as (PK1 & PK2 & PK3).
  destruct F3 as (F3c & _ & F3s & _ & F3r & _ & F3b & F3v & F3best).
  rewrite Q2 in F3b. rewrite Q5 in F3v. rewrite Q4 in F3best. rewrite Q3 in F3s, LE3. rewrite Q1 in LE3.
  rewrite (proj1 Cf2) in F3c. rewrite (proj2 Cf2) in F3r.
  assert (Mw : Bk n (mark_word_unused b1)) by (apply Bk_mark_word; [exact Bb1|rewrite S1; exact HW|rewrite S1, S2; exact HU]).
  rewrite Q1, Q3 in Hord. rewrite Q3 in C3.
  assert (Hsv : r <> BreakInvalid -> lend (w_start w3) (s_save (w_sc w3)) <= fst opt).
  { intros Hr. destruct (C3 Hr) as (C31 & _). rewrite F3v, F3s. destruct (s_alt (w_sc w)) eqn:A; [unfold lend; cbn; lia|].
    apply Hord. congruence. }
  rewrite St2 in Sk3, Le3.
  destruct (mark_best_proj w3 [cand]) as (M1 & M2 & M3 & M4).
  destruct (restore_proj w3) as (R1 & R2 & R3 & R4).
  assert (Best1 : r <> BreakInvalid -> XI n (mark_best w3 [cand]) /\ JT n (mark_best w3 [cand])
                   /\ lend (w_start w3) (s_alt (w_sc w3)) < fst opt + 1).
  { intros Hr. destruct (C3 Hr) as (C31 & C32 & C33). destruct (Fin3 Hr) as [FP FC].
    destruct (JT_mark_best n w3 cand (fst opt + 1) P3 C33 C32 ltac:(specialize (Hsv Hr); lia) ltac:(lia)) as [T4 _].
    destruct (chain_app_lend _ _ _ _ C33 C32) as [CL _].
    split; [eapply XI_mark_best1; eauto|split; [exact T4|exact CL]]. }
  assert (Stm : forall sfx, w_st (mark_best w3 sfx) = w_st w3) by (intros; destruct w3; reflexivity).
  (* the new facts at w3 *)
  assert (BC3 : BC lc w3) by (eapply BC_step; [exact HBC|exact Le3|exact F3best|exact F3s|exact F3c|exact F3r]).
  assert (WSv3 : WSv w3).
  { unfold WSv in *. destruct Sf3 as (Sf1 & Sf2 & _). rewrite Sf1, Sf2. pose proof (rsum_le _ _ (s_save (w_sc w2)) Le3) as Q.
    rewrite St2 in WSv2. lia. }
  assert (HK3 : SK w3).
  { destruct HK as (K1 & K2 & K3). split; [rewrite Sk3; exact K1|]. split; [rewrite F3r; exact K2|]. rewrite F3b. rewrite S5. exact K3. }
  assert (Hn3 : b_n (w_br w3) = n) by (destruct P3 as (_ & (Hn & _) & _); exact Hn).
  assert (Hs0 : 0 <= w_start w3) by (destruct P3 as (_ & _ & _ & Hs & _); lia).
  (* classification of the line alt ++ [cand] recorded at w3 *)
  assert (BCfit : r <> BreakInvalid -> cand_width w3 cand <= lc_max lc ->
            (lc_truncating lc = true -> cand_width w3 cand <= lc_tmax lc \/ EndC w3 (s_alt (w_sc w3) ++ [cand])) ->
            forall b', BC lc (set_br (mark_best w3 [cand]) b')).
  { intros Hr Hm Ht b' l Hl. replace (s_best (w_sc (set_br (mark_best w3 [cand]) b'))) with (Some (s_alt (w_sc w3) ++ [cand])) in Hl by (destruct w3; reflexivity).
    injection Hl as <-. unfold BCl. left.
    replace (w_st (set_br (mark_best w3 [cand]) b')) with (w_st w3) by (destruct w3; reflexivity).
    replace (w_cfg (set_br (mark_best w3 [cand]) b')) with (w_cfg w3) by (destruct w3; reflexivity).
    pose proof (cand_meas w3 cand WA3 (Ad3 Hr)) as CM. split; [lia|]. intros T. destruct (Ht T) as [Q|Q]; [left; lia|right].
    unfold EndC in *. replace (w_start (set_br (mark_best w3 [cand]) b')) with (w_start w3) by (destruct w3; reflexivity). exact Q. }
  assert (BCover : r <> BreakInvalid -> lc_truncating lc = false -> has_best w3 = false ->
            forall b', BC lc (set_br (mark_best w3 [cand]) b')).
  { intros Hr Ht Hh b' l Hl. replace (s_best (w_sc (set_br (mark_best w3 [cand]) b'))) with (Some (s_alt (w_sc w3) ++ [cand])) in Hl by (destruct w3; reflexivity).
    injection Hl as <-. unfold BCl. right; right. split; [exact Ht|]. unfold OverQ.
    replace (w_start (set_br (mark_best w3 [cand]) b')) with (w_start w3) by (destruct w3; reflexivity).
    destruct (C3 Hr) as (_ & _ & C33). rewrite (lend_chain _ _ _ C33). intros p Hp Hv. rewrite F3s in Hp.
    pose proof (has_best_false_best w w3 F3best Hh) as Hnb.
    destruct Hv as [Hv|[_ Hv]].
    - pose proof (HNi Hnb p ltac:(lia) Hv) as Q. fold b in Q, HU. lia.
    - (* a valid grapheme boundary before the option: it was pending, so it would have been handed out first *)
      destruct (HGi Hnb) as [GU GP]. fold b in GU, GP.
      pose proof (ngb_U n _ _ _ _ B1 NG p ltac:(lia) ltac:(rewrite Cbr; destruct HK as (_ & _ & K3); fold b in K3; rewrite K3; exact (proj1 Hv))
                    ltac:(rewrite Cbr; apply GU; [lia|exact Hv])) as Q.
      rewrite Cbr in Q. fold b in Q. cbv beta iota in Q. destruct Q as [[Qa Qb]|[Qc|[Qc _]]]; lia. }
  assert (SBm : forall b', set_br (mark_best w3 [cand]) b' = set_br (mark_best w3 [cand]) b') by reflexivity.
  destruct r.
  - (* BreakInvalid *)
    apply (IH (restore w3) wopt lc w' d).
    + apply JT_restore; exact P3.
    + unfold OrdI. rewrite R1, R2, R3, F3v, F3s, F3b. intros Hne. destruct (HO Hne) as [O|O]; fold b in O; [left; rewrite S3; exact O|right; lia].
    + rewrite R2, F3b, S1. exact HW.
    + rewrite R2, F3b, S1, S2. exact HU.
    + rewrite R2, F3b, S1. exact HWo.
    + apply XI_restore; exact XC3.
    + destruct HK3 as (K1 & K2 & K3). split; [destruct w3; exact K1|]. split; [destruct w3; exact K2|]. rewrite R2. exact K3.
    + unfold Base in *. destruct w3; exact Bs3.
    + unfold WA, WSv in *. destruct w3; exact WSv3.
    + unfold WSv in *. destruct w3; exact WSv3.
    + eapply BC_same; [exact BC3| | | | |]; destruct w3; reflexivity.
    + unfold Ni. rewrite (has_best_same w3 (restore w3) R4), R2, R3, F3b, F3s, S1. intros Hh. apply HNi. exact (has_best_false_best w w3 F3best Hh).
    + (* the rejected grapheme option was not a valid boundary: nothing valid was consumed *)
      unfold Gi. rewrite (has_best_same w3 (restore w3) R4), R2, R3, F3b, F3s, S3. intros Hh.
      pose proof (has_best_false_best w w3 F3best Hh) as Hnb. destruct (HGi Hnb) as [GU GP]. fold b in GU, GP.
      split; [|exact GP]. intros q Hq Hv.
      pose proof (ngb_U n _ _ _ _ B1 NG q ltac:(lia) ltac:(rewrite Cbr; destruct HK as (_ & _ & K3); fold b in K3; rewrite K3; exact (proj1 Hv))
                    ltac:(rewrite Cbr; apply GU; [lia|exact Hv])) as Q.
      rewrite Cbr in Q. fold b in Q. cbv beta iota in Q. destruct Q as [[Qa Qb]|[Qc|[_ Qc]]]; [lia| |exact Qc].
      exfalso. pose proof (HBI w2 opt lc w3 BreakInvalid cand (proj1 (proj1 T2)) XC2 ltac:(lia) ltac:(rewrite Q1, Q3; exact Hord) PB eq_refl) as HBIr.
      destruct HBIr as [I|I]; [rewrite Q3 in I; lia|]. apply I. replace (fst opt + 1) with q by lia.
      destruct HK as (K1 & K2 & _). rewrite (proj2 Cf2), K2. apply (CBall_sk st0); [rewrite St2; symmetry; exact K1|exact (proj2 Hv)].
    + exact H.
  - (* EndLine *)
    inversion H; subst w' d. destruct (pbo_endline _ _ _ _ _ PB) as [E1 E2]. destruct (C3 ltac:(discriminate)) as (_ & _ & C33).
    split; [unfold Base in *; rewrite Stm; destruct w3; exact Bs3|].
    replace (mark_best w3 [cand]) with (set_br (mark_best w3 [cand]) (w_br w3)) by (destruct w3; reflexivity).
    apply BCfit; [discriminate|apply PW2; reflexivity|]. intros _. right. unfold EndC. rewrite (lend_chain _ _ _ C33).
    rewrite (chain_snoc_end _ _ _ _ C33). split; [lia|exact E2].
  - (* Truncated *)
    inversion H; subst w' d. destruct (has_best w3) eqn:HB3; [split; [exact Bs3|exact BC3]|].
    split; [unfold Base in *; destruct w3; exact Bs3|].
    destruct (mark_best_proj (restore w3) []) as (N1 & N2 & N3 & N4).
    intros l Hl. rewrite N4, app_nil_r, R1, F3v in Hl. injection Hl as <-. unfold BCl. right; left. split; [apply PK3; right; reflexivity|].
    unfold T0c. apply (JT_no_best_alt n w HT). exact (has_best_false_best w w3 F3best HB3).
  - (* NewLineBeforeBreak *)
    inversion H; subst w' d. split; [unfold Base in *; destruct w3; exact Bs3|].
    eapply BC_same; [exact BC3| | | | |]; destruct w3; reflexivity.
  - (* Fits *)
    destruct (Best1 ltac:(discriminate)) as (B1x & T4 & CL). rewrite F3b in H.
    pose proof (JT_set_br n _ _ T4 Mw) as T5.
    destruct (set_br_proj (mark_best w3 [cand]) (mark_word_unused b1)) as (U1 & U2 & U3 & U4 & U5).
    destruct (PW1 eq_refl) as [PWa PWb].
    apply (IH (set_br (mark_best w3 [cand]) (mark_word_unused b1)) wopt lc w' d).
    + exact T5.
    + unfold OrdI. rewrite U1, U2, U3, M1, M3. cbn. intros _. right. lia.
    + rewrite U2; cbn. rewrite S1; exact HW.
    + rewrite U2; cbn. rewrite S1, S2; exact HU.
    + rewrite U2; cbn. rewrite S1; exact HWo.
    + apply XI_set_br. exact B1x.
    + destruct HK3 as (K1 & K2 & K3). split; [destruct w3; exact K1|]. split; [destruct w3; exact K2|]. rewrite U2. cbn. rewrite S5. destruct HK as (_ & _ & K4). exact K4.
    + unfold Base in *. destruct w3; exact Bs3.
    + unfold WA in *. destruct w3; exact WA3.
    + unfold WSv in *. destruct w3; exact WSv3.
    + apply BCfit; [discriminate|exact PWa|]. intros T. left. apply PWb. exact T.
    + unfold Ni. intros Hh. exfalso. rewrite (has_best_same (mark_best w3 [cand]) _ U4), has_best_mark in Hh. discriminate.
    + unfold Gi. intros Hh. exfalso. rewrite (has_best_same (mark_best w3 [cand]) _ U4), has_best_mark in Hh. discriminate.
    + exact H.
  - (* CannotFit *)
    destruct (lc_truncating lc) eqn:LT; inversion H; subst w' d; [split; [exact Bs3|exact BC3]|].
    split; [unfold Base in *; destruct w3; exact Bs3|]. apply BCover; [discriminate|reflexivity|apply PK2; reflexivity].
Qed.

Lemma outer_W : HBI_t -> forall fuel w lc w' d,
  JT n w -> OrdO w -> XI n w ->
  SK w -> Base w -> WA w -> WSv w -> BC lc w -> No w -> Go w ->
  outer_loop fuel w lc = Ok (w', d) -> Post lc w'.
Proof.
  intros HBI. induction fuel as [|fuel IH]; intros w lc w' d HT HO HX HK HBs HA HSv HBC HNo HGo H; cbn [outer_loop] in H; [discriminate|].
  destruct (JT_checkpoint n w HT) as (T1 & Csv & Calt & Cbe & Cbr & Cbest).
  pose proof (XI_checkpoint n w HX) as XC1.
  assert (St1 : w_st (checkpoint w) = w_st w) by (destruct w; reflexivity).
  assert (WSv1 : WSv (checkpoint w)) by (unfold WSv, WA in *; destruct w; exact HA).
  assert (WA1 : WA (checkpoint w)) by (unfold WA in *; destruct w; exact HA).
  assert (Cf1 : w_cfg (checkpoint w) = w_cfg w /\ w_runs (checkpoint w) = w_runs w) by (destruct w; split; reflexivity).
  set (w1 := checkpoint w) in *.
  destruct (next_word_break (w_br w1)) as [b1 ro] eqn:NW.
  pose proof T1 as ((_ & B1 & _) & _).
  destruct (nwb_spec n _ _ _ B1 NW) as (Bb1 & SG1 & FW & UW & X). rewrite Cbr in SG1, UW, X.
  destruct SG1 as (S1 & S2 & S3 & S5).
  pose proof (JT_set_br n w1 b1 T1 Bb1) as T2.
  destruct (set_br_proj w1 b1) as (Q1 & Q2 & Q3 & Q4 & Q5).
  assert (Q7 : w_start w1 = w_start w) by (destruct w; reflexivity).
  pose proof (XI_set_br n w1 b1 XC1) as XC2.
  assert (St2 : w_st (set_br w1 b1) = w_st w) by (rewrite <- St1; destruct w1; reflexivity).
  assert (Cf2 : w_cfg (set_br w1 b1) = w_cfg w /\ w_runs (set_br w1 b1) = w_runs w) by (destruct Cf1; destruct w1; cbn in *; split; assumption).
  assert (WSv2 : WSv (set_br w1 b1)) by (unfold WSv in *; destruct w1; exact WSv1).
  assert (WA2 : WA (set_br w1 b1)) by (unfold WA in *; destruct w1; exact WA1).
  assert (HBs2 : Base (set_br w1 b1)) by (unfold Base in *; rewrite St2; exact HBs).
  set (w2 := set_br w1 b1) in *.
  rewrite Calt in Q1. rewrite Csv in Q5. rewrite Cbest in Q4. rewrite Q7 in Q3.
  destruct (Bk_ug_n n _ Bb1) as (G1 & G2 & G3).
  set (b := w_br w) in *.
  destruct ro as [opt|].
  2:{ inversion H; subst w' d. split; [exact HBs2|]. eapply BC_same; [exact HBC|exact St2|exact Q4|exact Q3|exact (proj1 Cf2)|exact (proj2 Cf2)]. }
  destruct X as (X1 & X3 & X6 & X7 & X8 & X9 & X10).
  assert (X1' : fst opt = fst (b_unusedW b1)) by (rewrite X1; reflexivity).
  assert (Hord : s_alt (w_sc w2) <> [] -> lend (w_start w2) (s_alt (w_sc w2)) <= fst opt).
  { rewrite Q1, Q3. intros Hne. destruct (HO Hne) as [O1 O2]; fold b in O1; lia. }
  destruct (pbo_safe n w2 opt lc (proj1 (proj1 T2)) XC2 ltac:(lia) Hord) as (w3 & r & cand & PB & XC3 & Sk3 & Fin3).
  rewrite PB in H. cbn [bind] in H.
  destruct (JP_pbo n w2 opt lc w3 r cand (proj1 T2) ltac:(lia) Hord PB) as (P3 & F3 & BE3 & LE3 & C3 & L3).
  destruct (pbo_W _ _ _ _ _ _ HBs2 WA2 PB) as (Bs3 & WA3 & Le3 & Sf3 & Ad3).
  destruct (process_fits_width _ _ _ _ _ _ PB) as (PW1 & PW2 & PW3 & PW4).
  destruct (pbo_kind _ _ _ _ _ _ PB) as (PK1 & PK2 & PK3).
  pose proof (HBI w2 opt lc w3 r cand (proj1 (proj1 T2)) XC2 ltac:(lia) Hord PB) as HBIr.
  destruct F3 as (F3c & _ & F3s & _ & F3r & _ & F3b & F3v & F3best).
  rewrite Q2 in F3b. rewrite Q5 in F3v. rewrite Q4 in F3best. rewrite Q3 in F3s, LE3. rewrite Q1 in LE3.
  rewrite (proj1 Cf2) in F3c. rewrite (proj2 Cf2) in F3r.
  assert (Mw : Bk n (mark_word_unused b1)) by (apply Bk_mark_word; [exact Bb1|lia|lia]).
  rewrite Q1, Q3 in Hord. rewrite Q3 in C3.
  assert (Hsv : r <> BreakInvalid -> lend (w_start w3) (s_save (w_sc w3)) <= fst opt).
  { intros Hr. destruct (C3 Hr) as (C31 & _). rewrite F3v, F3s. destruct (s_alt (w_sc w)) eqn:A; [unfold lend; cbn; lia|].
    apply Hord. congruence. }
  rewrite St2 in Sk3, Le3.
  destruct (mark_best_proj w3 [cand]) as (M1 & M2 & M3 & M4).
  destruct (restore_proj w3) as (R1 & R2 & R3 & R4).
  assert (Best1 : r <> BreakInvalid -> XI n (mark_best w3 [cand]) /\ JT n (mark_best w3 [cand])
                   /\ lend (w_start w3) (s_alt (w_sc w3)) < fst opt + 1).
  { intros Hr. destruct (C3 Hr) as (C31 & C32 & C33). destruct (Fin3 Hr) as [FP FC].
    destruct (JT_mark_best n w3 cand (fst opt + 1) P3 C33 C32 ltac:(specialize (Hsv Hr); lia) ltac:(lia)) as [T4 _].
    destruct (chain_app_lend _ _ _ _ C33 C32) as [CL _].
    split; [eapply XI_mark_best1; eauto|split; [exact T4|exact CL]]. }
  assert (Stm : forall sfx, w_st (mark_best w3 sfx) = w_st w3) by (intros; destruct w3; reflexivity).
  (* the new facts at w3 *)
  assert (BC3 : BC lc w3) by (eapply BC_step; [exact HBC|exact Le3|exact F3best|exact F3s|exact F3c|exact F3r]).
  assert (WSv3 : WSv w3).
  { unfold WSv in *. destruct Sf3 as (Sf1 & Sf2 & _). rewrite Sf1, Sf2. pose proof (rsum_le _ _ (s_save (w_sc w2)) Le3) as Q.
    rewrite St2 in WSv2. lia. }
  assert (HK3 : SK w3).
  { destruct HK as (K1 & K2 & K3). split; [rewrite Sk3; exact K1|]. split; [rewrite F3r; exact K2|]. rewrite F3b. rewrite S5. exact K3. }
  assert (Hs0 : 0 <= w_start w3) by (destruct P3 as (_ & _ & _ & Hs & _); lia).
  assert (Hn3 : b_n (w_br w3) = n) by (destruct P3 as (_ & (Hn & _) & _); exact Hn).
  (* every valid line boundary beyond the line start that is not consumed lies at or after this option *)
  assert (NU : has_best w = false -> forall p, w_start w < p -> lbV p -> fst opt + 1 <= p /\ (p <> fst opt + 1 -> b_wpos b1 < p)).
  { intros Hh p Hp Hv. pose proof (HNo Hh p Hp Hv) as Q. fold b in Q. destruct HK as (_ & _ & K3). fold b in K3.
    apply (nwb_U n (w_br w1) b1 opt B1 NW p); rewrite Cbr; [rewrite K3; exact (proj1 Hv)|exact Q]. }
  assert (NiE : has_best w = false -> forall p, w_start w < p -> lbV p -> b_wpos b1 <= p).
  { intros Hh p Hp Hv. destruct (NU Hh p Hp Hv) as [Q _]. lia. }
  assert (BCfit : r <> BreakInvalid -> cand_width w3 cand <= lc_max lc ->
            (lc_truncating lc = true -> cand_width w3 cand <= lc_tmax lc \/ EndC w3 (s_alt (w_sc w3) ++ [cand])) ->
            BC lc (mark_best w3 [cand])).
  { intros Hr Hm Ht l Hl. rewrite M4 in Hl. injection Hl as <-. unfold BCl. left. rewrite Stm.
    replace (w_cfg (mark_best w3 [cand])) with (w_cfg w3) by (destruct w3; reflexivity).
    pose proof (cand_meas w3 cand WA3 (Ad3 Hr)) as CM. split; [lia|]. intros T. destruct (Ht T) as [Q|Q]; [left; lia|right].
    unfold EndC in *. rewrite M3. exact Q. }
  assert (BCover : r <> BreakInvalid -> lc_truncating lc = false -> has_best w3 = false -> policy_never w3 = true -> BC lc (mark_best w3 [cand])).
  { intros Hr Ht Hh Hpn l Hl. rewrite M4 in Hl. injection Hl as <-. unfold BCl. right; right. split; [exact Ht|]. unfold OverQ. rewrite M3.
    destruct (C3 Hr) as (_ & _ & C33). rewrite (lend_chain _ _ _ C33). intros p Hp Hv. rewrite F3s in Hp.
    destruct Hv as [Hv|[Hpol _]].
    - pose proof (NiE (has_best_false_best w w3 F3best Hh) p ltac:(lia) Hv) as Q. lia.
    - unfold policy_never in Hpn. apply Z.eqb_eq in Hpn. apply Hpol. replace (w_cfg (mark_best w3 [cand])) with (w_cfg w3) by (destruct w3; reflexivity). exact Hpn. }
  (* the grapheme registers after this read *)
  assert (GiE : has_best w = false ->
            (forall q, w_start w < q <= n -> gbV q -> UG b1 q)
            /\ (fst (b_prevW b1) + 1 <= w_start w \/ fst (b_prevW b1) <= 0)).
  { intros Hh. destruct (HGo Hh) as (GU & GP & GW). fold b in GU, GP, GW. split.
    - intros q Hq Hv. specialize (GU q Hq Hv). unfold UG in *. rewrite S1, S3. exact GU.
    - destruct (b_isUnusedW b) eqn:FB.
      + rewrite (nwb_prev_reissue _ _ _ NW); [rewrite Cbr; exact GP|rewrite Cbr; exact FB].
      + rewrite (X9 eq_refl). exact (GW eq_refl). }
  (* the grapheme loop entered from a state that carries the checkpoint of this iteration *)
  assert (G : forall wx, JP n wx -> s_save (w_sc wx) = s_alt (w_sc w) -> w_start wx = w_start w ->
              b_prevW (w_br wx) = b_prevW b1 -> b_wpos (w_br wx) = b_wpos b1 -> b_unusedW (w_br wx) = b_unusedW b1 ->
              b_gpos (w_br wx) = b_gpos b1 -> b_isUnusedG (w_br wx) = b_isUnusedG b1 ->
              XI n wx -> SK wx -> Base wx -> WSv wx -> BC lc wx -> (has_best wx = false -> has_best w = false) ->
              inner_loop (br_fuel wx) (restore wx) opt lc = Ok (w', d) -> Post lc w').
  { intros wx Px Sx Stx Pwx Wx Ux Gpx Gfx Xx Kx Bx Svx BCx Hbx Hx. destruct (restore_proj wx) as (Rx1 & Rx2 & Rx3 & Rx4).
    apply (inner_W HBI (br_fuel wx) (restore wx) opt lc w' d); [apply JT_restore; exact Px| | | | |apply XI_restore; exact Xx| | | | | | | |exact Hx].
    - unfold OrdI. rewrite Rx1, Rx2, Rx3, Sx, Stx, Pwx. intros Hne. left. destruct (HO Hne) as [O1 O2]. fold b in O1, O2.
      destruct (b_isUnusedW b) eqn:FB; [cbn in O2; lia|]. rewrite (X9 eq_refl). exact O1.
    - rewrite Rx2, Wx. lia.
    - rewrite Rx2, Wx, Ux. lia.
    - rewrite Rx2, Wx. lia.
    - destruct Kx as (K1 & K2 & K3). split; [destruct wx; exact K1|]. split; [destruct wx; exact K2|]. rewrite Rx2. exact K3.
    - unfold Base in *. destruct wx; exact Bx.
    - unfold WA, WSv in *. destruct wx; exact Svx.
    - unfold WSv in *. destruct wx; exact Svx.
    - eapply BC_same; [exact BCx| | | | |]; destruct wx; reflexivity.
    - unfold Ni. rewrite (has_best_same wx (restore wx) Rx4), Rx2, Rx3, Wx, Stx. intros Hh. apply NiE. apply Hbx. exact Hh.
    - unfold Gi. rewrite (has_best_same wx (restore wx) Rx4), Rx2, Rx3, Pwx, Stx. intros Hh. destruct (GiE (Hbx Hh)) as [GU GP].
      split; [|exact GP]. intros q Hq Hv. specialize (GU q Hq Hv). unfold UG in *. rewrite Gpx, Gfx. exact GU. }
  destruct r.
  - (* BreakInvalid: the option is discarded *)
    cbv beta iota zeta in H. rewrite R2, F3b in H.
    destruct (set_br_proj (restore w3) (discard_word b1)) as (D1 & D2 & D3 & D4 & D5).
    apply (IH (set_br (restore w3) (discard_word b1)) lc w' d).
    + apply JT_set_br; [apply JT_restore; exact P3|apply Bk_discard; assumption].
    + unfold OrdO. rewrite D1, D2, D3, R1, R3, F3v, F3s. cbn [discard_word b_unusedW b_isUnusedW]. rewrite FW.
      intros Hne. destruct (HO Hne) as [O1 O2]. fold b in O1, O2.
      destruct (b_isUnusedW b) eqn:FB; [cbn in O2; lia|]. rewrite (X9 eq_refl). split; [exact O1|reflexivity].
    + apply XI_set_br. apply XI_restore; exact XC3.
    + destruct HK3 as (K1 & K2 & K3). split; [destruct w3; exact K1|]. split; [destruct w3; exact K2|]. rewrite D2. cbn. rewrite <- F3b. exact K3.
    + unfold Base in *. destruct w3; exact Bs3.
    + unfold WA, WSv in *. destruct w3; exact WSv3.
    + unfold WSv in *. destruct w3; exact WSv3.
    + eapply BC_same; [exact BC3| | | | |]; destruct w3; reflexivity.
    + unfold No. rewrite (has_best_same (restore w3) _ D4), (has_best_same w3 (restore w3) R4), D2, D3, R3, F3s.
      cbn [discard_word b_wpos b_isUnusedW]. rewrite FW. intros Hh p Hp Hv. left.
      destruct (NU (has_best_false_best w w3 F3best Hh) p Hp Hv) as [Q1' Q2']. apply Q2'. intros ->.
      destruct (HBIr eq_refl) as [Q|Q]; [rewrite Q3 in Q; lia|]. apply Q.
      destruct HK as (K1 & K2 & _). rewrite (proj2 Cf2), K2. apply (CBall_sk st0); [rewrite St2; symmetry; exact K1|exact (proj2 Hv)].
    + unfold Go. rewrite (has_best_same (restore w3) _ D4), (has_best_same w3 (restore w3) R4), D2, D3, R3, F3s.
      cbn [discard_word b_prevW b_unusedW b_isUnusedW]. intros Hh.
      destruct (GiE (has_best_false_best w w3 F3best Hh)) as [GU GP].
      split; [intros q Hq Hv; specialize (GU q Hq Hv); unfold UG in *; cbn; exact GU|]. split; [exact GP|intros _; exact GP].
    + exact H.
  - (* EndLine *)
    inversion H; subst w' d. destruct (pbo_endline _ _ _ _ _ PB) as [E1 E2]. destruct (C3 ltac:(discriminate)) as (_ & _ & C33).
    split; [unfold Base in *; rewrite Stm; destruct w3; exact Bs3|].
    apply BCfit; [discriminate|apply PW2; reflexivity|]. intros _. right. unfold EndC. rewrite (lend_chain _ _ _ C33).
    rewrite (chain_snoc_end _ _ _ _ C33). split; [lia|exact E2].
  - (* Truncated *)
    set (wt := if has_best w3 then w3 else mark_best (restore w3) []) in *.
    assert (X' : JP n wt /\ w_br wt = b1 /\ s_save (w_sc wt) = s_alt (w_sc w) /\ w_start wt = w_start w /\ XI n wt
                 /\ SK wt /\ Base wt /\ WSv wt /\ BC lc wt /\ (has_best wt = false -> has_best w = false)).
    { unfold wt. destruct (has_best w3) eqn:HB3.
      - split; [exact P3|]. split; [exact F3b|]. split; [exact F3v|]. split; [exact F3s|]. split; [exact XC3|]. split; [exact HK3|].
        split; [exact Bs3|]. split; [exact WSv3|]. split; [exact BC3|]. intros Q. change (has_best w3 = false) in Q. congruence.
      - destruct (JT_restore n w3 P3) as [P3r _].
        destruct (JP_mark_best_nil n (restore w3) P3r ltac:(destruct w3; cbn; apply Z.le_refl)) as [P4 _]. split; [exact P4|].
        pose proof (XI_mark_best0 n (restore w3) (XI_restore n w3 XC3) (proj1 P3r)) as X4.
        destruct (mark_best_proj (restore w3) []) as (N1 & N2 & N3 & N4).
        split; [rewrite N2, R2; exact F3b|]. split; [destruct w3; exact F3v|]. split; [rewrite N3, R3; exact F3s|]. split; [exact X4|].
        split; [destruct HK3 as (K1 & K2 & K3); split; [destruct w3; exact K1|split; [destruct w3; exact K2|rewrite N2, R2; exact K3]]|].
        split; [unfold Base in *; destruct w3; exact Bs3|]. split; [unfold WSv in *; destruct w3; exact WSv3|].
        split.
        + intros l Hl. rewrite N4, app_nil_r, R1, F3v in Hl. injection Hl as <-. unfold BCl. right; left. split; [apply PK3; right; reflexivity|].
          unfold T0c. apply (JT_no_best_alt n w HT). exact (has_best_false_best w w3 F3best HB3).
        + intros _. exact (has_best_false_best w w3 F3best HB3). }
    destruct X' as (X'1 & X'2 & X'3 & X'4 & X'5 & X'6 & X'7 & X'8 & X'9 & X'10).
    destruct (policy_never wt).
    + inversion H; subst w' d. split; [exact X'7|exact X'9].
    + apply (G wt X'1 X'3 X'4); auto; rewrite X'2; reflexivity.
  - (* NewLineBeforeBreak *)
    rewrite R2, F3b in H.
    pose proof (JT_set_br n _ _ (JT_restore n w3 P3) Mw) as T5.
    destruct (set_br_proj (restore w3) (mark_word_unused b1)) as (U1 & U2 & U3 & U4 & U5).
    assert (X5 : XI n (set_br (restore w3) (mark_word_unused b1))) by (apply XI_set_br; apply XI_restore; exact XC3).
    set (wn := set_br (restore w3) (mark_word_unused b1)) in *.
    assert (Bn : Base wn) by (unfold Base, wn in *; destruct w3; exact Bs3).
    assert (BCn : BC lc wn) by (eapply BC_same; [exact BC3| | | | |]; unfold wn; destruct w3; reflexivity).
    destruct (_ || _).
    + inversion H; subst w' d. split; [exact Bn|exact BCn].
    + apply (G wn (proj1 T5));
        [rewrite U5; destruct w3; cbn in *; exact F3v|rewrite U3, R3; exact F3s|rewrite U2; reflexivity|rewrite U2; reflexivity
        |rewrite U2; reflexivity|rewrite U2; reflexivity|rewrite U2; reflexivity|exact X5| |exact Bn| |exact BCn| |exact H].
      * destruct HK3 as (K1 & K2 & K3). split; [unfold wn; destruct w3; exact K1|]. split; [unfold wn; destruct w3; exact K2|].
        rewrite U2. cbn. rewrite S5. destruct HK as (_ & _ & K4). exact K4.
      * unfold WSv, wn in *. destruct w3; exact WSv3.
      * intros Hh. rewrite (has_best_same (restore w3) wn U4), (has_best_same w3 (restore w3) R4) in Hh.
        exact (has_best_false_best w w3 F3best Hh).
  - (* Fits *)
    destruct (Best1 ltac:(discriminate)) as (B1x & T4 & CL). destruct (PW1 eq_refl) as [PWa PWb].
    assert (BCm : BC lc (mark_best w3 [cand])) by (apply BCfit; [discriminate|exact PWa|intros T; left; apply PWb; exact T]).
    assert (Bm : Base (mark_best w3 [cand])) by (unfold Base in *; destruct w3; exact Bs3).
    destruct (snd opt).
    + inversion H; subst w' d. split; [exact Bm|exact BCm].
    + apply (IH (mark_best w3 [cand]) lc w' d).
      * exact T4.
      * unfold OrdO. rewrite M1, M2, M3, F3b, FW. intros _. split; [lia|reflexivity].
      * exact B1x.
      * destruct HK3 as (K1 & K2 & K3). split; [destruct w3; exact K1|]. split; [destruct w3; exact K2|]. rewrite M2. exact K3.
      * exact Bm.
      * unfold WA in *. destruct w3; exact WA3.
      * unfold WSv in *. destruct w3; exact WSv3.
      * exact BCm.
      * unfold No. intros Hh. exfalso. rewrite has_best_mark in Hh. discriminate.
      * unfold Go. intros Hh. exfalso. rewrite has_best_mark in Hh. discriminate.
      * exact H.
  - (* CannotFit *)
    destruct (policy_never w3) eqn:Hpn.
    + destruct (lc_truncating lc) eqn:LT; inversion H; subst w' d; [split; [exact Bs3|exact BC3]|].
      split; [unfold Base in *; destruct w3; exact Bs3|]. apply BCover; [discriminate|reflexivity|apply PK2; reflexivity|reflexivity].
    + apply (G w3 P3); auto; try (rewrite F3b; reflexivity). intros Hh. exact (has_best_false_best w w3 F3best Hh).
Qed.

End Loops.

(* ---- part 4: postProcessLine and WrapNextLine -------------------------------------------------------------------- *)

Lemma pp_first_W : forall w line w1 l1, SG (w_st w) -> pp_first w line = (w1, l1) ->
  st_le (w_st w) (w_st w1)
  /\ match line with None => l1 = None | Some l => exists l', l1 = Some l' /\ map geo l' = map geo l end.
Proof.
  intros w line w1 l1 HS H. unfold pp_first in H. destruct line as [[|a fl]|].
  - inversion H; subst. split; [apply st_le_refl|eauto].
  - cbv zeta in H. destruct (c_notrim (w_cfg w)).
    + inversion H; subst. split; [destruct w; apply st_le_refl|]. eexists. split; [reflexivity|apply bidi_geo].
    + match type of H with context [if ?c then _ else _] => destruct c end; inversion H; subst.
      * split; [destruct w; unfold set_start, set_st; cbn -[store_update zero_adv] in *; apply store_update_le; [exact HS|exact zero_gle]|].
        eexists. split; [reflexivity|].
        rewrite <- (bidi_geo (c_dir (w_cfg w)) (a :: fl)). apply (map_zset geo out_zero). reflexivity.
      * split; [destruct w; apply st_le_refl|]. eexists. split; [reflexivity|apply bidi_geo].
  - inversion H; subst. split; [apply st_le_refl|reflexivity].
Qed.

Lemma pp_tail_W : forall cfg w line done w' wl d', pp_tail cfg w line done = (w', wl, d') ->
  w_st w' = w_st w /\ wl_next wl = w_start w
  /\ ((wl_line wl = line /\ (w_truncating w = true -> c_trunc cfg - 1 = 0 -> b_n (w_br w) - w_start w <= 0 /\ c_cont cfg = false))
      \/ (w_truncating w = true /\ c_trunc cfg - 1 = 0 /\ (0 < b_n (w_br w) - w_start w \/ c_cont cfg = true)
          /\ exists t l, wl_line wl = Some l /\ o_src t = o_src (c_truncator cfg)
               /\ map geo l = map geo ((match line with Some x => x | None => [] end) ++ [t]))).
Proof.
  intros cfg w line done w' wl d' H. unfold pp_tail in H.
  destruct (w_truncating w) eqn:T.
  - destruct (c_trunc cfg - 1 =? 0) eqn:K.
    + apply Z.eqb_eq in K.
      replace (w_start (set_cfg w (mkCfg (c_dir cfg) (c_trunc cfg - 1) (c_truncator cfg) (c_cont cfg) (c_policy cfg) (c_notrim cfg)))) with (w_start w) in H by (destruct w; reflexivity).
      destruct ((0 <? b_n (w_br w) - w_start w) || c_cont cfg) eqn:E.
      * injection H as <- <- <-. cbn. split; [destruct w; reflexivity|]. split; [destruct w; reflexivity|]. right.
        split; [reflexivity|]. split; [exact K|]. split.
        { apply orb_prop in E. destruct E as [E|E]; [left; apply Z.ltb_lt in E; exact E|right; exact E]. }
        eexists _, _. split; [reflexivity|]. split; [|apply bidi_geo]. reflexivity.
      * injection H as <- <- <-. cbn. split; [destruct w; reflexivity|]. split; [destruct w; reflexivity|]. left.
        split; [reflexivity|]. intros _ _. apply orb_false_elim in E. destruct E as [E1 E2]. apply Z.ltb_ge in E1. split; [lia|exact E2].
    + apply Z.eqb_neq in K. destruct (done || _); injection H as <- <- <-; cbn;
        (split; [destruct w; reflexivity|]; split; [destruct w; reflexivity|]; left; split; [reflexivity|intros; lia]).
  - destruct (done || _); injection H as <- <- <-; cbn;
      (split; [destruct w; reflexivity|]; split; [destruct w; reflexivity|]; left; split; [reflexivity|intros; discriminate]).
Qed.

Lemma PO_src : forall st rs r, PO st rs r -> 0 <= o_src r < zlen rs.
Proof.
  intros st rs r H. unfold PO, piece_ok in H. rewrite !andb_true_iff in H.
  destruct H as (((((((((A & B) & _) & _) & _) & _) & _) & _) & _) & _). apply Z.leb_le in A. apply Z.ltb_lt in B. lia.
Qed.

Lemma text_runs_geo : forall tsrc l l', map geo l = map geo l' -> map geo (text_runs tsrc l) = map geo (text_runs tsrc l').
Proof.
  intros tsrc. induction l as [|a l IH]; intros l' H; destruct l' as [|b l']; try discriminate; [reflexivity|].
  destruct (map_cons_inj _ _ _ _ _ H) as [H1 H2]. unfold text_runs in *. cbn [filter].
  pose proof (geo_fields _ _ H1) as (_ & _ & _ & Q & _).
  assert (E : is_text tsrc a = is_text tsrc b) by (unfold is_text; rewrite Q; reflexivity). rewrite E.
  destruct (is_text tsrc b); cbn [map]; [rewrite H1; f_equal|]; apply IH; exact H2.
Qed.
Lemma has_truncator_geo : forall tsrc l l', map geo l = map geo l' -> has_truncator tsrc l = has_truncator tsrc l'.
Proof.
  intros tsrc. induction l as [|a l IH]; intros l' H; destruct l' as [|b l']; try discriminate; [reflexivity|].
  destruct (map_cons_inj _ _ _ _ _ H) as [H1 H2]. unfold has_truncator in *. cbn [existsb].
  pose proof (geo_fields _ _ H1) as (_ & _ & _ & Q & _). rewrite Q. f_equal. apply IH; exact H2.
Qed.
Lemma text_runs_all : forall tsrc l, Forall (fun r => o_src r <> tsrc) l -> text_runs tsrc l = l /\ has_truncator tsrc l = false.
Proof.
  intros tsrc l H. unfold text_runs, has_truncator. induction H; cbn [filter existsb]; [auto|]. destruct IHForall as [I1 I2].
  apply Z.eqb_neq in H. assert (E : is_text tsrc x = true) by (unfold is_text; rewrite H; reflexivity).
  rewrite E, H, I1, I2. auto.
Qed.
Lemma text_runs_snoc : forall tsrc l t, o_src t = tsrc -> text_runs tsrc (l ++ [t]) = text_runs tsrc l /\ has_truncator tsrc (l ++ [t]) = true.
Proof.
  intros tsrc l t H. unfold text_runs, has_truncator. rewrite filter_app, existsb_app. cbn [filter existsb].
  assert (E : is_text tsrc t = false) by (unfold is_text; rewrite H, Z.eqb_refl; reflexivity). rewrite E, H, Z.eqb_refl. cbn [orb].
  rewrite app_nil_r, orb_true_r. auto.
Qed.

(* the word iterator has not consumed a valid line boundary beyond the line start (F37 drops one) *)
Definition WI (attrs : list Z) (w : W) : Prop :=
  forall p, w_start w < p -> line_boundary attrs p = true -> CBall (w_st w) (w_runs w) p ->
    b_wpos (w_br w) < p \/ (b_wpos (w_br w) = p /\ b_isUnusedW (w_br w) = true).

(* the grapheme iterator has not handed out a valid grapheme boundary beyond the line start, and the options it skips
   (at or before previousWordBreak; after the next read: at or before unusedWordBreak) lie before the line start *)
Definition GI (n : Z) (attrs : list Z) (w : W) : Prop :=
  (forall q, w_start w < q <= n -> grapheme_boundary attrs q = true -> CBall (w_st w) (w_runs w) q -> UG (w_br w) q)
  /\ (fst (b_prevW (w_br w)) + 1 <= w_start w \/ fst (b_prevW (w_br w)) <= 0)
  /\ (b_isUnusedW (w_br w) = false -> fst (b_unusedW (w_br w)) + 1 <= w_start w \/ fst (b_unusedW (w_br w)) <= 0).

Definition width_stmt (attrs : list Z) (n : Z) (w : W) (mw : Z) (w' : W) (wl : wrapped) (line : list out) : Prop :=
  let tsrc := o_src (c_truncator (w_cfg w)) in
  let m := ceil26 (line_measure (w_st w') tsrc (c_dir (w_cfg w)) line) in
  let s := w_start w in let e := wl_next wl in
  (has_truncator tsrc line = true ->
     s = e \/ m <= mw - ceil26 (o_adv (c_truncator (w_cfg w))))
  /\ (has_truncator tsrc line = false ->
     m <= mw \/ (forall p, s < p < e ->
                    (line_boundary attrs p = true \/ (c_policy (w_cfg w) <> 1 /\ grapheme_boundary attrs p = true)) ->
                    CBall (w_st w) (w_runs w) p -> False)).

Lemma wnl_width : forall n attrs w mw w' wl d line,
  HBI_t n -> CI n attrs w -> XB n w -> w_more w = true ->
  SG (w_st w) -> WI attrs w -> GI n attrs w -> zlen (w_runs w) <= o_src (c_truncator (w_cfg w)) ->
  wrap_next_line w mw = Ok (w', wl, d) -> wl_line wl = Some line ->
  width_stmt attrs n w mw w' wl line.
Proof.
  intros n attrs w mw w' wl d line HBI HC HB Hm HS HWI HGI Hts H Hline. unfold wrap_next_line in H. rewrite Hm in H. cbn [negb] in H.
  destruct (CI_peek n attrs w HC) as (ci & run & PK). rewrite PK in H. cbn [negb] in H.
  destruct (CI_start_line n attrs w HC) as (T0 & O0 & A0 & N0 & Acc0).
  pose proof (XI_start_line n w HB) as X0.
  set (lc := mkLC _ _ _) in H.
  pose proof (outer_safe n (loop_fuel (start_line w)) (start_line w) lc T0 O0 X0) as OS.
  destruct (outer_loop _ (start_line w) lc) as [[w2 d2]| | |] eqn:OL; cbn [bind] in H; try discriminate.
  destruct OS as [X2 S2].
  destruct (outer_loop_ok n _ _ _ _ _ (proj1 (proj1 T0)) OL) as [I2 O2].
  destruct O2 as (Oc & Ot & Os & Om & Or & On & Oa).
  assert (PW : Post n attrs (w_st w) (w_runs w) lc w2).
  { apply (outer_W n attrs (w_st w) (w_runs w) HBI (loop_fuel (start_line w)) (start_line w) lc w2 d2 T0 O0 X0); [| | | | | | |exact OL].
    - split; [destruct w; reflexivity|]. split; [destruct w; reflexivity|exact A0].
    - unfold Base. destruct w; assumption.
    - unfold WA. destruct w; cbn. lia.
    - unfold WSv. destruct w; cbn. lia.
    - intros l Hl. destruct w; discriminate.
    - intros _ p Hp [Hv1 Hv2]. replace (w_br (start_line w)) with (w_br w) by (destruct w; reflexivity).
      apply HWI; [destruct w; exact Hp|exact Hv1|exact Hv2].
    - intros _. destruct HGI as (G1 & G2 & G3). replace (w_br (start_line w)) with (w_br w) by (destruct w; reflexivity).
      replace (w_start (start_line w)) with (w_start w) by (destruct w; reflexivity).
      split; [intros q Hq [Hv1 Hv2]; apply G1; assumption|]. split; [exact G2|exact G3]. }
  destruct PW as [Bs2 BC2].
  replace (w_cfg (start_line w)) with (w_cfg w) in * by (destruct w; reflexivity).
  replace (w_runs (start_line w)) with (w_runs w) in * by (destruct w; reflexivity).
  replace (w_st (start_line w)) with (w_st w) in * by (destruct w; reflexivity).
  replace (w_start (start_line w)) with (w_start w) in * by (destruct w; reflexivity).
  replace (w_truncating (start_line w)) with (w_truncating w) in * by (destruct w; reflexivity).
  replace (w_br (start_line w)) with (w_br w) in * by (destruct w; reflexivity).
  cbv beta iota zeta in H. rewrite post_process_split in H.
  destruct (pp_first w2 (s_best (w_sc w2))) as [w1 l1] eqn:PF.
  assert (HL : forall l, s_best (w_sc w2) = Some l -> chain (w_start w2) l (lend (w_start w2) l)).
  { intros l Hl. destruct I2 as (_ & _ & _ & _ & HBo). destruct (HBo l Hl) as [e He]. rewrite (lend_chain _ _ _ He). exact He. }
  destruct (pp_first_spec _ _ _ _ HL PF) as (F1 & F2 & _ & F4 & _ & _ & _ & F8 & F9 & _).
  destruct (pp_first_W _ _ _ _ Bs2 PF) as (L1 & G1).
  injection H as H. destruct (pp_tail_W _ _ _ _ _ _ _ H) as (St' & Nx & Alt).
  destruct HC as (_ & _ & _ & _ & HBk & _ & Hst & HT & _). pose proof (proj1 HBk) as Hbn.
  rewrite F8, On, Hbn, F2, Ot in Alt.
  unfold width_stmt. cbv zeta. rewrite St', Nx. rewrite <- Oc.
  set (tsrc := o_src (c_truncator (w_cfg w2))) in *. set (pdir := c_dir (w_cfg w2)).
  assert (Hlc : lc_truncating lc = true <-> (w_truncating w = true /\ c_trunc (w_cfg w2) - 1 = 0)).
  { unfold lc; cbn [lc_truncating]. change (w_cfg (start_line w)) with (w_cfg w). rewrite Oc. rewrite HT. split.
    - intros E. apply Z.eqb_eq in E. rewrite E. split; [reflexivity|lia].
    - intros [_ E]. apply Z.eqb_eq. lia. }
  assert (Hmx : lc_max lc = mw /\ lc_tmax lc = mw - ceil26 (o_adv (c_truncator (w_cfg w2)))) by (unfold lc; change (w_cfg (start_line w)) with (w_cfg w); rewrite Oc; split; reflexivity).
  destruct Hmx as [Hmx Htx].
  destruct (s_best (w_sc w2)) as [l|] eqn:EB.
  2:{ (* no best line: only the truncator can be returned *)
      subst l1. rewrite F9. destruct Alt as [[A1 _]|(_ & _ & _ & t & l' & A1 & A2 & A3)]; [congruence|].
      rewrite A1 in Hline. injection Hline as <-. cbn [app] in A3.
      rewrite (has_truncator_geo tsrc l' [t] A3). pose proof (text_runs_snoc tsrc [] t A2) as [_ Q]. cbn [app] in Q. rewrite Q.
      split; [intros _; left; symmetry; exact Os|discriminate]. }
  destruct G1 as (l' & -> & Gl). rewrite F9, Os.
  destruct X2 as (_ & _ & _ & XBest). destruct (XBest l EB) as [FPO _].
  assert (Hsrc : Forall (fun r => o_src r <> tsrc) l').
  { assert (Q : Forall (fun r => o_src r <> tsrc) l).
    { eapply Forall_impl; [|exact FPO]. intros r Hr. apply PO_src in Hr. rewrite Or in Hr. unfold tsrc. rewrite Oc. lia. }
    clear - Q Gl. revert l Q Gl. induction l' as [|x l' IH]; intros l Q Gl; destruct l as [|y l]; try discriminate; [constructor|].
    destruct (map_cons_inj _ _ _ _ _ Gl) as [G1 G2]. inversion Q; subst. constructor; [|eapply IH; eauto].
    apply geo_fields in G1. destruct G1 as (_ & _ & _ & G1 & _). congruence. }
  destruct (text_runs_all tsrc l' Hsrc) as [TA1 TA2].
  (* the measure of the returned text on the returned store is bounded by the measure of best at the end of the loops *)
  assert (Mle : forall txt, map geo txt = map geo l' ->
            ceil26 (lmeas (w_st w1) pdir txt) <= ceil26 (lmeas (w_st w2) pdir l)).
  { intros txt Ht. apply ceil26_mono. rewrite (lmeas_geo _ _ txt l' Ht), (lmeas_geo _ _ l' l Gl). apply lmeas_le. exact L1. }
  specialize (BC2 l EB). unfold BCl in BC2. fold pdir in BC2. rewrite Hmx, Htx in BC2.
  rewrite F9, Os in Alt.
  destruct Alt as [[A1 A2]|(A0' & A0'' & A2 & t & lt & A1 & A3 & A4)].
  - (* the line is best itself *)
    rewrite A1 in Hline. injection Hline as <-. rewrite TA2. split; [discriminate|]. intros _.
    rewrite line_measure_eq, TA1.
    pose proof (Mle l' eq_refl) as M.
    destruct BC2 as [[B1 _]|[[B1 B2]|[B1 B2]]].
    + left. lia.
    + exfalso. apply Hlc in B1. destruct B1 as [B1a B1b]. destruct (A2 B1a B1b) as [A2a _].
      unfold T0c in B2. subst l. unfold lend in A2a; cbn in A2a; lia.
    + right. intros p Hp Hv1 Hv2. apply (B2 p); [rewrite Os; exact Hp|].
      destruct Hv1 as [Hv1|[Hv0 Hv1]]; [left; split; assumption|right; split; [|split; assumption]].
      first [exact Hv0 | rewrite Oc; exact Hv0 | rewrite <- Oc; exact Hv0].
  - (* the truncator was appended *)
    cbn [app] in A4. rewrite A1 in Hline. injection Hline as <-.
    pose proof (text_runs_snoc tsrc l' t A3) as [Q1 Q2].
    rewrite (has_truncator_geo tsrc lt (l' ++ [t]) A4), Q2. split; [intros _|discriminate].
    rewrite line_measure_eq.
    assert (Gt : map geo (text_runs tsrc lt) = map geo l') by (rewrite (text_runs_geo tsrc lt (l' ++ [t]) A4), Q1, TA1; reflexivity).
    pose proof (Mle _ Gt) as M.
    assert (LT : lc_truncating lc = true) by (apply Hlc; split; assumption).
    destruct BC2 as [[B1 B2]|[[B1 B2]|[B1 B2]]].
    + destruct (B2 LT) as [B3|[B3 B4]]; [right; lia|]. exfalso. rewrite Os in B3. destruct A2 as [A2|A2]; [lia|congruence].
    + unfold T0c in B2. subst l. left. reflexivity.
    + congruence.
Qed.

(* ---- part 5: the BreakInvalid premise, reachable states, the statement over the Spec's cluster_boundary ----------- *)

Lemma HBI_all : forall n, HBI_t n.
Proof.
  intros n w opt lc w' r cand HI HX Ho Hord H Hr.
  destruct (pbo_safe2 n w opt lc HI HX Ho Hord) as (w2 & r2 & c2 & PB & _ & _ & _ & BI).
  rewrite PB in H. injection H as _ <- _. apply BI. exact Hr.
Qed.

Lemma run_calls_dead : forall widths w wk rs, w_more w = false -> run_calls w widths = Ok (wk, rs) -> w_more wk = false.
Proof.
  induction widths as [|mw rest IH]; intros w wk rs Hm H; cbn [run_calls] in H; [inversion H; subst; exact Hm|].
  unfold wrap_next_line in H. rewrite Hm in H. cbn [negb bind] in H.
  destruct (run_calls w rest) as [[w2 r2]| | |] eqn:R; cbn [bind fst snd] in H; try discriminate.
  injection H as <- _. eapply IH; eauto.
Qed.

Lemma run_calls_reach : forall n attrs widths w wk rs,
  CI n attrs w -> w_more w = true -> XB n w ->
  run_calls w widths = Ok (wk, rs) -> w_more wk = true ->
  CI n attrs wk /\ XB n wk /\ w_runs wk = w_runs w.
Proof.
  intros n attrs. induction widths as [|mw rest IH]; intros w wk rs HC Hm HB H Hk; cbn [run_calls] in H.
  - inversion H; subst. auto.
  - pose proof (wrap_next_line_safe n attrs w mw HC HB) as SF.
    destruct (wrap_next_line w mw) as [[[w1 wl] d]| | |] eqn:WN; cbn [bind] in H; try discriminate.
    destruct (run_calls w1 rest) as [[w2 r2]| | |] eqn:R; cbn [bind fst snd] in H; try discriminate.
    injection H as <- _. destruct SF as (XB1 & _ & R1 & _).
    destruct (wrap_next_line_J n attrs w mw w1 wl d HC Hm WN) as (_ & _ & _ & Jf & Jt).
    destruct d.
    + destruct (Jt eq_refl) as [M1 _]. pose proof (run_calls_dead _ _ _ _ M1 R). congruence.
    + destruct (Jf eq_refl) as (C1 & M1 & _). destruct (IH _ _ _ C1 M1 XB1 R Hk) as (A & B & C). rewrite C, R1. auto.
Qed.

Lemma WI_prepare : forall attrs w cfg runs, WI attrs (prepare w cfg attrs runs 0 0).
Proof. intros attrs w cfg runs p Hp _ _. left. cbn in *. lia. Qed.

Lemma GI_prepare : forall n attrs w cfg runs, GI n attrs (prepare w cfg attrs runs 0 0).
Proof. intros n attrs w cfg runs. unfold GI, UG; cbn. split; [intros q Hq _ _; left; lia|]. split; [right; lia|intros _; right; lia]. Qed.

Lemma forall_range_intro : forall f cnt lo, (forall p, lo <= p < lo + Z.of_nat cnt -> f p = true) -> forall_range lo cnt f = true.
Proof.
  intros f. induction cnt as [|c IH]; intros lo H; cbn [forall_range]; [reflexivity|].
  rewrite (H lo) by lia. cbn [andb]. apply IH. intros p Hp. apply H. lia.
Qed.
(* "no permitted break position at a cluster boundary strictly inside" is Spec/Wrap.v single_unit, for every policy *)
Lemma any_single_unit : forall attrs st rs n policy s e, e <= n ->
  (forall p, s < p < e -> (line_boundary attrs p = true \/ (policy <> 1 /\ grapheme_boundary attrs p = true)) ->
             cluster_boundary st rs p = true -> False) ->
  single_unit attrs st rs n policy s e = true.
Proof.
  intros attrs st rs n policy s e He H. unfold single_unit, forall_between. apply forall_range_intro. intros p Hp.
  unfold any_break_ok. replace (p =? n) with false by (symmetry; apply Z.eqb_neq; lia). cbn [orb].
  destruct (cluster_boundary st rs p) eqn:C; [|rewrite andb_false_r; reflexivity]. rewrite andb_true_r.
  apply negb_true_iff. apply orb_false_iff. split.
  - destruct (line_boundary attrs p) eqn:L; [|reflexivity]. exfalso. apply (H p); [lia|left; exact L|exact C].
  - destruct (policy =? 1) eqn:P; [reflexivity|]. cbn [negb andb]. apply Z.eqb_neq in P.
    destruct (grapheme_boundary attrs p) eqn:G; [|reflexivity]. exfalso. apply (H p); [lia|right; split; [exact P|exact G]|exact C].
Qed.

(* what the theorem says of one returned line (st = the store on entry of the call, st' = on return) *)
Definition width_bound_stmt (attrs : list Z) (n : Z) (runs : list out) (st st' : store) (tsrc pdir tadv policy : Z)
           (s e mw : Z) (line : list out) : Prop :=
  let m := ceil26 (line_measure st' tsrc pdir line) in
  (has_truncator tsrc line = true -> s = e \/ m <= mw - ceil26 tadv)
  /\ (has_truncator tsrc line = false -> m <= mw \/ single_unit attrs st runs n policy s e = true).

Lemma width_bound_calls : forall n w cfg attrs runs widths wk rs mw w' wl d line,
  wf_runs (w_st w) runs n = true -> zlen attrs - 1 = n -> 1 <= n ->
  run_calls (prepare w cfg attrs runs 0 0) widths = Ok (wk, rs) -> w_more wk = true ->
  zlen runs <= o_src (c_truncator (w_cfg wk)) ->
  nonneg_adv (w_st wk) = true -> WI attrs wk -> GI n attrs wk ->
  wrap_next_line wk mw = Ok (w', wl, d) -> wl_line wl = Some line ->
  width_bound_stmt attrs n runs (w_st wk) (w_st w') (o_src (c_truncator (w_cfg wk))) (c_dir (w_cfg wk))
                   (o_adv (c_truncator (w_cfg wk))) (c_policy (w_cfg wk)) (w_start wk) (wl_next wl) mw line.
Proof.
  intros n w cfg attrs runs widths wk rs mw w' wl d line HW Ha Hn RC Hk Hts Hnn HWI HGI WN Hl.
  destruct (run_calls_reach n attrs widths _ wk rs (CI_prepare n w cfg attrs runs (wf_runs_ok _ _ _ HW) Ha Hn) eq_refl
              (XB_prepare n w cfg attrs runs HW) RC Hk) as (C & B & R).
  change (w_runs (prepare w cfg attrs runs 0 0)) with runs in R.
  pose proof (wnl_width n attrs wk mw w' wl d line (HBI_all n) C B Hk (nonneg_SG _ Hnn)
                HWI HGI ltac:(rewrite R; exact Hts) WN Hl) as Q.
  destruct (wrap_next_line_J n attrs wk mw w' wl d C Hk WN) as ((Hnx & _) & _).
  unfold width_stmt in Q. cbv zeta in Q. rewrite R in Q. destruct Q as [Q1 Q2]. unfold width_bound_stmt. cbv zeta. split; [exact Q1|].
  intros Ht. destruct (Q2 Ht) as [Q|Q]; [left; exact Q|right]. apply any_single_unit; [lia|].
  intros p Hp Hbr Hcb. apply (Q p Hp Hbr).
  destruct B as (BW & _). rewrite R in BW. eapply cluster_boundary_CBall; eauto.
Qed.

(* under policy Never "no valid UAX #14 opportunity strictly inside" is exactly Spec/Wrap.v single_unit *)
Lemma never_single_unit : forall attrs st rs n s e, e <= n ->
  (forall p, s < p < e -> line_boundary attrs p = true -> cluster_boundary st rs p = true -> False) ->
  single_unit attrs st rs n 1 s e = true.
Proof.
  intros attrs st rs n s e He H. unfold single_unit, forall_between. apply forall_range_intro. intros p Hp.
  unfold any_break_ok. cbn [Z.eqb negb andb]. rewrite orb_false_r.
  replace (p =? n) with false by (symmetry; apply Z.eqb_neq; lia). cbn [orb].
  destruct (line_boundary attrs p) eqn:L; [|reflexivity]. destruct (cluster_boundary st rs p) eqn:C; [|reflexivity].
  exfalso. apply (H p); [lia|exact L|exact C].
Qed.
