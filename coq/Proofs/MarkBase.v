(* GPOS mark-to-base attachment as a window-local rule (C18): the pass meets the contract of Spec/LocalEngine.v on sorted
   buffers without MultipleSubst output (no glyph carries the `multiplied` bit). *)
From TV Require Import Model.MarkBase Spec.LocalEngine Proofs.LocalEngine Proofs.EngineItem Proofs.KernMachine.

Definition nomult (l : list item) : Prop := Forall (fun x => is_multiplied x = false) l.
Definition inv_mb (l : list item) : Prop := sorted l /\ nomult l.

(* first index whose element satisfies f *)
Fixpoint sfind (f : item -> bool) (l : list item) : option nat :=
  match l with [] => None | y :: r => if f y then Some O else option_map S (sfind f r) end.

Definition msel (P : mbparams) (y : item) : bool :=
  match match_plain 8 (mb_mask P) true true y with MMatch => true | _ => false end.

Lemma mb_search_nomult P : forall rd, nomult rd -> mb_search P rd = sfind (msel P) rd.
Proof.
  induction rd as [|y r IH]; intros H; [reflexivity|]. inversion H as [|? ? Hy Hr]; subst. cbn [mb_search sfind].
  unfold msel. unfold mb_accept. rewrite Hy. cbn [negb orb].
  destruct (match_plain 8 (mb_mask P) true true y); rewrite ?IH by exact Hr; reflexivity.
Qed.

Lemma sfind_some f : forall l i, sfind f l = Some i -> (i < length l)%nat.
Proof.
  induction l as [|y r IH]; intros i H; [discriminate|]. cbn in *. destruct (f y); [injection H as <-; lia|].
  destruct (sfind f r) as [j|]; [|discriminate]. injection H as <-. specialize (IH j eq_refl). lia.
Qed.

Lemma sfind_app f : forall a b, sfind f (a ++ b) = match sfind f a with Some i => Some i | None => option_map (fun j => (length a + j)%nat) (sfind f b) end.
Proof.
  induction a as [|y r IH]; intros b; cbn.
  - destruct (sfind f b); reflexivity.
  - destruct (f y); [reflexivity|]. rewrite IH. destruct (sfind f r); [reflexivity|]. destruct (sfind f b); reflexivity.
Qed.

Lemma nomult_app a b : nomult (a ++ b) <-> nomult a /\ nomult b.
Proof. apply Forall_app. Qed.
Lemma nomult_rev a : nomult a -> nomult (rev a).
Proof. unfold nomult. intros H. apply Forall_forall. intros x Hx. rewrite Forall_forall in H. apply H. apply in_rev. exact Hx. Qed.

(* the step *)
Definition mstep (P : mbparams) (d t : list item) : list item * list item :=
  let '(d', t', _) := mb_step P false d t in (d', t').
Lemma mb_pass_step P L R d t : pstep (mb_pass P) L R d t = mstep P d t.
Proof. reflexivity. Qed.

Lemma mstep_cons P d x rest : mstep P d (x :: rest) = (fst (mb_at P false d x), rest).
Proof. unfold mstep, mb_step. destruct (mb_at P false d x). reflexivity. Qed.

(* the attached mark *)
Lemma mb_attach_same x dx dy ch : icl (mb_attach x dx dy ch) = icl x /\ (iutb x = true -> iutb (mb_attach x dx dy ch) = true).
Proof. split; [reflexivity|auto]. Qed.

(* what the step decides at x: nothing, or attachment to the glyph at index b of d, x rewritten to x' *)
Definition mb_plan (P : mbparams) (d : list item) (x : item) : option (nat * item) :=
  if negb (has_mask (mb_mask P) x && check_prop (mb_flag P) x) then None
  else match mb_mark P (igid x) with
  | None => None
  | Some (class, mx, my) =>
    match mb_search P (rev d) with
    | None => None
    | Some dist =>
      let b := (length d - 1 - dist)%nat in
      match mb_base P (igid (nth b d i0)) with
      | None => None
      | Some anchors =>
        match mb_anchor anchors class with
        | None => None
        | Some (bx, byy) => Some (b, mb_attach x (bx - mx) (byy - my) (Z.of_nat b - Z.of_nat (length d)))
        end
      end
    end
  end.

Lemma mb_at_plan P d x :
  fst (mb_at P false d x) = match mb_plan P d x with
                            | None => d ++ [x]
                            | Some (b, x') => firstn b d ++ flag_window (skipn b d ++ [x'])
                            end.
Proof.
  unfold mb_at, mb_plan. destruct (negb _); [reflexivity|].
  destruct (mb_mark P (igid x)) as [[[class mx] my]|]; [|reflexivity].
  destruct (mb_search P (rev d)) as [dist|]; [|reflexivity].
  destruct (mb_base P _) as [anchors|]; [|reflexivity].
  destruct (mb_anchor anchors class) as [[bx byy]|]; reflexivity.
Qed.

Lemma mb_plan_props P d x b x' : nomult d -> mb_plan P d x = Some (b, x') ->
  (b < length d)%nat /\ icl x' = icl x /\ (iutb x = true -> iutb x' = true).
Proof.
  intros Hn. unfold mb_plan. destruct (negb _); [discriminate|].
  destruct (mb_mark P (igid x)) as [[[class mx] my]|]; [|discriminate].
  destruct (mb_search P (rev d)) as [dist|] eqn:Es; [|discriminate].
  destruct (mb_base P _) as [anchors|]; [|discriminate].
  destruct (mb_anchor anchors class) as [[bx byy]|]; [|discriminate].
  intros H. injection H as <- <-.
  rewrite mb_search_nomult in Es by (apply nomult_rev; exact Hn). apply sfind_some in Es. rewrite rev_length in Es.
  split; [lia|]. apply mb_attach_same.
Qed.

(* locality of the decision: d2 is what the piece starting at the cut has passed, d1 what lies before the cut *)
Lemma mb_plan_prefix P d1 d2 x : nomult (d1 ++ d2) ->
  match mb_plan P d2 x with
  | Some (b, x') => mb_plan P (d1 ++ d2) x = Some ((length d1 + b)%nat, x')
  | None => mb_plan P (d1 ++ d2) x = None
            \/ exists b x', mb_plan P (d1 ++ d2) x = Some (b, x') /\ (b < length d1)%nat
  end.
Proof.
  intros Hn. pose proof Hn as Hn'. apply nomult_app in Hn'. destruct Hn' as [Hn1 Hn2].
  unfold mb_plan. destruct (negb _); [left; reflexivity|].
  destruct (mb_mark P (igid x)) as [[[class mx] my]|]; [|left; reflexivity].
  rewrite !mb_search_nomult by (apply nomult_rev; assumption).
  rewrite rev_app_distr, sfind_app.
  destruct (sfind (msel P) (rev d2)) as [dist|] eqn:E2.
  - pose proof (sfind_some _ _ _ E2) as Ld. rewrite rev_length in Ld.
    rewrite app_length.
    replace (length d1 + length d2 - 1 - dist)%nat with (length d1 + (length d2 - 1 - dist))%nat by lia.
    rewrite app_nth2 by lia. replace (length d1 + (length d2 - 1 - dist) - length d1)%nat with (length d2 - 1 - dist)%nat by lia.
    destruct (mb_base P _) as [anchors|]; [|left; reflexivity].
    destruct (mb_anchor anchors class) as [[bx byy]|]; [|left; reflexivity].
    f_equal. f_equal. f_equal. lia.
  - destruct (sfind (msel P) (rev d1)) as [i|] eqn:E1; [|left; reflexivity]. cbn [option_map].
    pose proof (sfind_some _ _ _ E1) as Li. rewrite rev_length in Li. rewrite rev_length.
    destruct (mb_base P _) as [anchors|]; [|left; reflexivity].
    destruct (mb_anchor anchors class) as [[bx byy]|]; [|left; reflexivity].
    right. eexists _, _. split; [reflexivity|]. rewrite app_length. lia.
Qed.

Lemma mstep_refines P d x rest : nomult d ->
  refines (d ++ x :: rest) (fst (mstep P d (x :: rest)) ++ snd (mstep P d (x :: rest))).
Proof.
  intros Hn. rewrite mstep_cons. cbn [fst snd]. rewrite mb_at_plan.
  destruct (mb_plan P d x) as [[b x']|] eqn:E.
  - destruct (mb_plan_props P d x b x' Hn E) as (Lb & Ec & Eu).
    rewrite <- (firstn_skipn b d) at 1. rewrite <- !app_assoc.
    change (skipn b d ++ x :: rest) with (skipn b d ++ [x] ++ rest). rewrite (app_assoc (skipn b d) [x] rest).
    apply window_refines. apply refines_app; [apply refines_refl|]. constructor; [|constructor]. split; [symmetry; exact Ec|exact Eu].
  - rewrite <- app_assoc. apply refines_refl.
Qed.

Lemma refines_nomult s s' : (forall y, In y s' -> exists x, In x s /\ gp (ig y) = gp (ig x)) -> nomult s -> nomult s'.
Proof.
  unfold nomult. intros H Hn. apply Forall_forall. intros y Hy. destruct (H y Hy) as (x & Hx & E).
  rewrite Forall_forall in Hn. specialize (Hn x Hx). unfold is_multiplied in *. rewrite E. exact Hn.
Qed.

Lemma mstep_nomult P d x rest : nomult (d ++ x :: rest) -> nomult (fst (mstep P d (x :: rest)) ++ snd (mstep P d (x :: rest))).
Proof.
  intros Hn. apply (refines_nomult (d ++ x :: rest)); [|exact Hn].
  rewrite mstep_cons. cbn [fst snd]. rewrite mb_at_plan.
  destruct (mb_plan P d x) as [[b x']|] eqn:E.
  - intros y Hy. apply in_app_or in Hy. destruct Hy as [Hy|Hy]; [|exists y; split; [apply in_or_app; right; right; exact Hy|reflexivity]].
    apply in_app_or in Hy. destruct Hy as [Hy|Hy].
    + exists y. split; [apply in_or_app; left; eapply in_firstn; exact Hy|reflexivity].
    + apply flag_window_gp in Hy. destruct Hy as (z & Hz & Ez). apply in_app_or in Hz. destruct Hz as [Hz|[<-|[]]].
      * exists z. split; [apply in_or_app; left; eapply in_skipn; exact Hz|exact Ez].
      * exists x. split; [apply in_or_app; right; left; reflexivity|].
        rewrite Ez. unfold mb_plan in E. destruct (negb _); [discriminate|].
        destruct (mb_mark P (igid x)) as [[[class mx] my]|]; [|discriminate].
        destruct (mb_search P (rev d)); [|discriminate]. destruct (mb_base P _); [|discriminate].
        destruct (mb_anchor _ _) as [[bx byy]|]; [|discriminate]. injection E as _ <-. reflexivity.
  - intros y Hy. exists y. split; [|reflexivity]. rewrite <- app_assoc in Hy. exact Hy.
Qed.

Theorem mb_step_ok P : step_ok icl iutb sideL inv_mb (mb_pass P).
Proof.
  constructor.
  - (* progress *) intros L R d t Hne. rewrite mb_pass_step. destruct t as [|x rest]; [contradiction|]. rewrite mstep_cons. cbn. lia.
  - (* invariant *) intros L R d t Hne [HS HN]. rewrite mb_pass_step. destruct t as [|x rest]; [contradiction|]. split.
    + eapply sorted_same; [|exact HS]. symmetry. apply refines_icls. apply mstep_refines. apply nomult_app in HN. tauto.
    + apply mstep_nomult. exact HN.
  - (* clusters *) intros L R d t y Hne [HS HN] Hy. rewrite mb_pass_step in Hy. destruct t as [|x rest]; [contradiction|].
    apply nomult_app in HN. apply (refines_cls _ _ (mstep_refines P d x rest (proj1 HN)) y Hy).
  - (* persistence *) intros L R d t c Hne [HS HN] F. rewrite mb_pass_step. destruct t as [|x rest]; [contradiction|].
    apply nomult_app in HN. apply (refines_fog c _ _ (mstep_refines P d x rest (proj1 HN)) F).
  - (* cut ahead: attachment never looks ahead *)
    intros L R R' d t1 t2 c Hne HI HI1 HC _. cbv zeta. rewrite !mb_pass_step. right.
    destruct t1 as [|x r1]; [contradiction|]. cbn [app]. rewrite !mstep_cons. reflexivity.
  - (* cut behind *)
    intros L L' R d1 d2 t c Hne [HS HN] [HS2 HN2] HC _. cbv zeta. rewrite !mb_pass_step.
    destruct t as [|x rest]; [contradiction|]. rewrite !mstep_cons. cbn [fst snd]. rewrite !mb_at_plan.
    apply cutvL_spec in HC. destruct HC as [C1 C2].
    assert (HN12 : nomult (d1 ++ d2)).
    { rewrite app_assoc in HN. apply nomult_app in HN. tauto. }
    pose proof (mb_plan_prefix P d1 d2 x HN12) as Hp.
    destruct (mb_plan P d2 x) as [[b x']|] eqn:E2.
    + right. rewrite Hp. f_equal.
      rewrite firstn_app, skipn_app. rewrite firstn_all2, skipn_all2 by lia.
      replace (length d1 + b - length d1)%nat with b by lia. cbn [app]. rewrite <- app_assoc. reflexivity.
    + destruct Hp as [Hp|(b & x' & Hp & Lb)]; rewrite Hp.
      * right. rewrite <- app_assoc. reflexivity.
      * left.
        destruct (mb_plan_props P (d1 ++ d2) x b x' HN12 Hp) as (_ & Ec & Eu).
        rewrite <- app_assoc. apply fog_flag_window.
        -- eapply sorted_same; [|exact HS]. symmetry.
           transitivity (icls (firstn b (d1 ++ d2) ++ (skipn b (d1 ++ d2) ++ [x]) ++ rest)).
           ++ apply refines_icls. apply refines_app; [apply refines_refl|]. apply refines_app; [|apply refines_refl].
              apply refines_app; [apply refines_refl|]. constructor; [|constructor]. split; [symmetry; exact Ec|exact Eu].
           ++ rewrite <- !app_assoc. rewrite (app_assoc (firstn b (d1 ++ d2))). rewrite firstn_skipn. rewrite <- app_assoc. reflexivity.
        -- intros y Hy. apply C1. rewrite firstn_app in Hy. replace (b - length d1)%nat with O in Hy by lia.
           cbn [firstn] in Hy. rewrite app_nil_r in Hy. eapply in_firstn. exact Hy.
        -- intros y Hy. apply C2. apply in_or_app. right. right. exact Hy.
        -- exists (nth b d1 i0). split.
           ++ apply in_or_app. left. rewrite skipn_app. apply in_or_app. left. apply nth_in_skipn. exact Lb.
           ++ apply C1. apply nth_In. exact Lb.
        -- exists x'. split; [apply in_or_app; right; left; reflexivity|]. rewrite Ec. apply C2. apply in_or_app. right. left. reflexivity.
Qed.
