(* Lemmas about the gvar tuple scalar (Model/GvarScalar.v). *)
From Coq Require Import Lia Arith PeanoNat.
From TV Require Import Model.GvarScalar.
Open Scope Z_scope.

Lemma f32_mul_0_r x : f32_mul x 0 = 0.
Proof. unfold f32_mul. rewrite Z.mul_0_r. reflexivity. Qed.
Lemma f32_mul_0_l x : f32_mul 0 x = 0.
Proof. unfold f32_mul. rewrite Z.mul_0_l. reflexivity. Qed.

Lemma fold_zero (l : list (option Z)) : fold_left mul_term l 0 = 0.
Proof. induction l as [|t l IH]; [reflexivity|]. cbn [fold_left]. destruct t; cbn [mul_term]; [rewrite f32_mul_0_l|]; exact IH. Qed.

Section Tuple.
  Variables (hi : bool) (coords peak start end_ : list Z).
  Let term := term_at hi coords peak start end_.

  (* the loop with its early "return 0" is the product of the per-axis factors of the range *)
  Lemma scalar_loop_is_product n : forall i acc,
    scalar_loop hi coords peak start end_ i n acc = fold_left mul_term (map term (seq i n)) acc.
  Proof.
    induction n as [|k IH]; intros i acc; [reflexivity|].
    cbn [scalar_loop seq map fold_left]. fold term.
    destruct (term i) as [f|]; cbn [mul_term]; [|apply IH].
    destruct (f =? 0) eqn:E; [|apply IH].
    apply Z.eqb_eq in E. subst f. rewrite f32_mul_0_r, fold_zero. reflexivity.
  Qed.

  (* a zero factor anywhere makes the product zero *)
  Lemma product_zero l : forall acc, In (Some 0) l -> fold_left mul_term l acc = 0.
  Proof.
    induction l as [|t l IH]; intros acc Hin; [destruct Hin|].
    cbn [fold_left]. destruct Hin as [->|Hin]; [cbn [mul_term]; rewrite f32_mul_0_r; apply fold_zero|apply IH; exact Hin].
  Qed.

  Lemma fold_none l : forall acc, (forall i, In i l -> term i = None) -> fold_left mul_term (map term l) acc = acc.
  Proof.
    induction l as [|a l IH]; intros acc H; [reflexivity|].
    cbn [map fold_left]. rewrite (H a) by (left; reflexivity). cbn [mul_term]. apply IH. intros i Hi. apply H. right; exact Hi.
  Qed.

  Lemma term_zero_peak i : nth i peak 0 = 0 -> term i = None.
  Proof. intros H. unfold term, term_at, axis_term. rewrite H. reflexivity. Qed.
End Tuple.

(* newGvar's cache: a result other than -1 is the position of the ONLY non-zero peak *)
Lemma active_idx_from_spec t : forall i idx v, 0 <= i -> (idx = -1 \/ 0 <= idx < i) ->
  active_idx_from i t idx = v -> v <> -1 ->
  (idx = -1 -> i <= v /\ nth (Z.to_nat (v - i)) t 0 <> 0 /\ forall k : nat, Z.of_nat k <> v - i -> nth k t 0 = 0)
  /\ (idx <> -1 -> v = idx /\ forall k : nat, nth k t 0 = 0).
Proof.
  induction t as [|p t IH]; intros i idx v Hi Hidx H Hv; cbn [active_idx_from] in H.
  - subst v. split; [intros E; congruence|]. intros _. split; [reflexivity|]. intros k; destruct k; reflexivity.
  - destruct (p =? 0) eqn:Ep.
    + apply Z.eqb_eq in Ep. subst p.
      destruct (IH (i + 1) idx v ltac:(lia) ltac:(lia) H Hv) as [A B]. split.
      * intros E. destruct (A E) as (A1 & A2 & A3). split; [lia|]. split.
        { replace (Z.to_nat (v - i)) with (S (Z.to_nat (v - (i + 1)))) by lia. exact A2. }
        { intros k Hk. destruct k as [|k]; [reflexivity|]. cbn [nth]. apply A3. lia. }
      * intros E. destruct (B E) as (B1 & B2). split; [exact B1|]. intros k; destruct k as [|k]; [reflexivity|apply B2].
    + apply Z.eqb_neq in Ep.
      destruct (negb (idx =? -1)) eqn:En.
      * subst v. congruence.
      * apply Bool.negb_false_iff, Z.eqb_eq in En. subst idx.
        destruct (IH (i + 1) i v ltac:(lia) ltac:(lia) H Hv) as [_ B].
        destruct (B ltac:(lia)) as (B1 & B2). clear H Hv B. subst v. split; [|intros E; congruence].
        intros _. split; [lia|]. split.
        { replace (i - i) with 0 by lia. cbn. exact Ep. }
        { intros k Hk. destruct k as [|k]; [lia|]. cbn [nth]. apply B2. }
Qed.

Lemma active_idx_spec t v : active_idx t = v -> v <> -1 ->
  0 <= v /\ nth (Z.to_nat v) t 0 <> 0 /\ forall k : nat, k <> Z.to_nat v -> nth k t 0 = 0.
Proof.
  intros H Hv. destruct (active_idx_from_spec t 0 (-1) v ltac:(lia) ltac:(left; reflexivity) H Hv) as [A _].
  destruct (A eq_refl) as (A1 & A2 & A3). rewrite Z.sub_0_r in *. split; [exact A1|]. split; [exact A2|].
  intros k Hk. apply A3. lia.
Qed.

Lemma nth_nonzero_lt (l : list Z) k : nth k l 0 <> 0 -> (k < length l)%nat.
Proof. intros H. destruct (Nat.lt_ge_cases k (length l)) as [L|L]; [exact L|]. rewrite nth_overflow in H by exact L. congruence. Qed.

(* calculateScalar with the shared tuple cache = the product over ALL axes, whenever the peak tuple has one entry per axis *)
Lemma scalar_go_is_full (coords : list Z) (shared : list (list Z)) (embedded : bool) (index : Z) (peak0 start end_ : list Z) (hi : bool) :
  let peak := if embedded then peak0 else nth (Z.to_nat index) shared [] in
  (embedded = false -> 0 <= index < Z.of_nat (length shared)) ->
  length peak = length coords ->
  scalar_go coords shared embedded index peak0 start end_ hi = scalar_full hi coords peak start end_.
Proof.
  intros peak Hidx Hlen. unfold scalar_go, scalar_full.
  set (n := Z.of_nat (length coords)).
  destruct embedded.
  - cbn zeta. unfold peak in *. rewrite Hlen. fold n.
    replace ((n <? n) || (n <? n)) with false by (rewrite Z.ltb_irrefl; reflexivity).
    rewrite scalar_loop_is_product. rewrite Z.sub_0_r. unfold n. rewrite Nat2Z.id. reflexivity.
  - specialize (Hidx eq_refl).
    replace (Z.of_nat (length shared) <=? index) with false by (symmetry; apply Z.leb_gt; lia).
    fold peak.
    destruct (active_idx peak =? -1) eqn:Ea.
    + cbn zeta. rewrite Hlen. fold n.
      replace ((n <? n) || (n <? n)) with false by (rewrite Z.ltb_irrefl; reflexivity).
      rewrite scalar_loop_is_product. rewrite Z.sub_0_r. unfold n. rewrite Nat2Z.id. reflexivity.
    + apply Z.eqb_neq in Ea.
      destruct (active_idx_spec peak (active_idx peak) eq_refl Ea) as (V0 & V1 & V2).
      set (v := active_idx peak) in *.
      pose proof (nth_nonzero_lt peak (Z.to_nat v) V1) as Vlt. rewrite Hlen in Vlt.
      cbn zeta.
      replace ((n <? v + 1) || (Z.of_nat (length peak) <? v + 1)) with false.
      2:{ symmetry. apply Bool.orb_false_iff. rewrite Hlen. fold n. split; apply Z.ltb_ge; unfold n; lia. }
      rewrite scalar_loop_is_product.
      replace (Z.to_nat (v + 1 - v)) with 1%nat by lia.
      set (j := Z.to_nat v) in *.
      assert (Hseq : seq 0 (length coords) = seq 0 j ++ j :: seq (S j) (length coords - S j)).
      { replace (length coords) with (j + S (length coords - S j))%nat at 1 by lia. rewrite seq_app. reflexivity. }
      rewrite Hseq, map_app, fold_left_app. cbn [seq map fold_left].
      rewrite fold_none.
      2:{ intros i Hi. apply term_zero_peak. apply V2. apply in_seq in Hi. lia. }
      rewrite fold_none; [reflexivity|].
      intros i Hi. apply term_zero_peak. apply V2. apply in_seq in Hi. lia.
Qed.
