(* Cluster accounting of the stages of the shaping pipeline that run without output in progress: every one of them keeps
   `bkeeps` (Proofs/EngineKeep.v: no cluster value invented; while a glyph remains the smallest value is kept).
   sort, reorderMarks, the second round of otShapeNormalize, the CGJ pass, formClusters, ensureNativeDirection
   (reverseGraphemes), insertDottedCircle, setUnicodeProps, ensureMonotoneClusters, hideDefaultIgnorables. *)
From TV Require Import Model.Buffer Spec.Buffer Proofs.ShapeGlue Proofs.Buffer Proofs.BufferOps Proofs.BufferNewOps Proofs.BufferAll.
From TV Require Import Model.Engine Proofs.Engine.
From TV Require Import Proofs.EngineKeep Proofs.EngineKeepMerge Proofs.EngineReorder Proofs.EngineRound2 Proofs.EngineForm Proofs.EngineHide Proofs.EnginePre.

(* ---------- bkeeps on buffers without output ---------- *)

Lemma bkeeps_info b b' : have_out b = false -> have_out b' = false -> lkeeps (cls (info b)) (cls (info b')) -> bkeeps b b'.
Proof. intros H1 H2 K. unfold bkeeps. rewrite (bseq_nohave b H1), (bseq_nohave b' H2). exact K. Qed.

Lemma bkeeps_cls_eq b b' : have_out b = false -> have_out b' = false -> cls (info b') = cls (info b) -> bkeeps b b'.
Proof. intros H1 H2 E. apply bkeeps_info; auto. apply lkeeps_eq. exact E. Qed.

Lemma ok_inj {A} (r : res A) a b : r = Ok a -> r = Ok b -> a = b.
Proof. intros E1 E2. rewrite E1 in E2. inversion E2. reflexivity. Qed.

(* what the loops keep: the `stable` facts of Proofs/BufferNewOps.v, the cursor, and the cluster accounting *)
Definition ks (lo hi : Z) (b0 b : buffer) : Prop := stable lo hi b0 b /\ idx b = idx b0 /\ bkeeps b0 b.

Lemma ks_refl lo hi b : WF lo hi b = true -> have_out b = false -> ks lo hi b b.
Proof. intros Hw Hh. split; [apply stable_refl; auto|]. split; [reflexivity|apply bkeeps_refl]. Qed.

Lemma ks_trans lo hi a b c : ks lo hi a b -> ks lo hi b c -> ks lo hi a c.
Proof.
  intros (S1 & I1 & K1) (S2 & I2 & K2). split; [exact (stable_trans _ _ _ _ _ S1 S2)|].
  split; [congruence|exact (bkeeps_trans _ _ _ K1 K2)].
Qed.

Lemma ks_parts lo hi b0 b : (level b0 =? 2) = false -> ks lo hi b0 b ->
  (level b =? 2) = false /\ WF lo hi b = true /\ have_out b = false /\ zlen (info b) = zlen (info b0) /\ idx b = idx b0.
Proof. intros Hl ((Hw & Hh & Elv & El) & Ei & _). rewrite Elv. repeat split; auto. Qed.

(* a buffer with the same cluster sequence *)
Lemma same_info_ks lo hi b b' : (level b =? 2) = false -> WF lo hi b = true -> have_out b = false ->
  level b' = level b -> have_out b' = false -> idx b' = idx b -> cls (info b') = cls (info b) -> ks lo hi b b'.
Proof.
  intros Hl Hw Hh Elv Hh' Ei Ec. pose proof (cls_eq_zlen _ _ Ec) as El.
  split; [|split; [exact Ei|apply bkeeps_cls_eq; auto]].
  repeat split; auto. apply (WF_same_info lo hi b); auto.
Qed.

Lemma edit_ks lo hi b l : (level b =? 2) = false -> WF lo hi b = true -> have_out b = false -> cls l = cls (info b) ->
  ks lo hi b (with_info b l).
Proof. intros Hl Hw Hh Ec. apply same_info_ks; auto. Qed.

(* mergeClusters *)
Lemma merge_ks lo hi b s e : (level b =? 2) = false -> WF lo hi b = true -> have_out b = false ->
  0 <= s -> s <= e -> e <= zlen (info b) ->
  exists b', merge_clusters b s e = Ok b' /\ ks lo hi b b'
    /\ Forall (fun g => cl g = cl (nth (Z.to_nat s) (info b') g0)) (slice s e (info b')).
Proof.
  intros Hl Hw Hh H0 H1 H2.
  destruct (merge_full lo hi b s e Hl Hw) as (b' & E & W & L & I & Hh' & Z1 & _ & _ & _ & U).
  { apply pre_merge_nohave; auto. }
  destruct (WF_parts lo hi b Hl Hw) as (I0 & I1 & _).
  exists b'. split; [exact E|]. split; [|exact U].
  split; [repeat split; congruence|]. split; [exact I|].
  apply (merge_clusters_keeps b s e b'); auto. rewrite Hh. discriminate.
Qed.

(* unsafeToBreak *)
Lemma utb_ks lo hi b s e : (level b =? 2) = false -> WF lo hi b = true -> have_out b = false -> 0 <= s ->
  exists b', unsafe_to_break b s e = Ok b' /\ ks lo hi b b'.
Proof.
  intros Hl Hw Hh H0. destruct (WF_parts lo hi b Hl Hw) as (I0 & I1 & _).
  assert (Hp : pre (OUnsafeBreak s e) b = true) by (cbn [pre]; apply Z.leb_le; exact H0).
  pose proof (flag_ops_same_cl (OUnsafeBreak s e) b Hl I0 I1 Hp) as FS. cbn [run_op] in FS.
  destruct FS as (b' & E & (S1 & S2 & S3 & S4 & S5)).
  exists b'. split; [exact E|]. apply same_info_ks; auto; congruence.
Qed.

(* ---------- 1. sort ---------- *)

Lemma sort_step_ks lo hi b0 cmp s b i : (level b0 =? 2) = false -> ks lo hi b0 b -> 0 <= s -> s < i -> i < zlen (info b0) ->
  exists b', sort_step cmp s (Ok b) i = Ok b' /\ ks lo hi b0 b'.
Proof.
  intros Hl K H0 H1 H2. destruct (ks_parts lo hi b0 b Hl K) as (Hlb & Hw & Hh & El & Ei).
  unfold sort_step. cbn [bind].
  destruct (Z.leb_spec 0 s); [|lia]. destruct (Z.ltb_spec i (zlen (info b))); [|lia]. cbn [andb negb].
  set (j := sort_find cmp (info b) (nth (Z.to_nat i) (info b) g0) s (Z.to_nat (i - s))).
  pose proof (sort_find_bound cmp (info b) (nth (Z.to_nat i) (info b) g0) s (Z.to_nat (i - s))) as Hj. fold j in Hj.
  destruct (Z.eqb_spec j i) as [Eji|Nji].
  - exists b. split; [reflexivity|exact K].
  - destruct (merge_ks lo hi b j (i + 1) Hlb Hw Hh) as (b1 & E1 & K1 & U1); try lia.
    rewrite E1. cbn [bind]. eexists. split; [reflexivity|].
    destruct (ks_parts lo hi b b1 Hlb K1) as (Hlb1 & Hw1 & Hh1 & El1 & Ei1).
    apply (ks_trans lo hi b0 b1); [exact (ks_trans _ _ _ _ _ K K1)|].
    apply edit_ks; auto. apply rotate_const_cls; try lia. exact U1.
Qed.

Lemma sort_range_ks lo hi cmp b s e : (level b =? 2) = false -> WF lo hi b = true -> have_out b = false ->
  0 <= s -> e <= zlen (info b) ->
  exists b', sort_range cmp b s e = Ok b' /\ ks lo hi b b'.
Proof.
  intros Hl Hw Hh H0 H1. unfold sort_range.
  destruct (Z_lt_le_dec (e - s - 1) 0) as [Hneg|Hpos].
  - unfold zseq. replace (Z.to_nat (e - s - 1)) with 0%nat by lia. cbn [seq map fold_left]. exists b. split; [reflexivity|].
    apply ks_refl; auto.
  - destruct (fold_inv_zseq (sort_step cmp s) (fun _ x => ks lo hi b x) (fun k => s + 1 + k) (e - s - 1) b Hpos) as (b' & E & S').
    + intros j st Hj Hst. apply (sort_step_ks lo hi b cmp s st (s + 1 + j)); auto; lia.
    + apply ks_refl; auto.
    + exists b'. split; [exact E|exact S'].
Qed.

Theorem sort_range_keeps lo hi cmp b s e b' : (level b =? 2) = false -> WF lo hi b = true -> have_out b = false ->
  0 <= s -> e <= zlen (info b) -> sort_range cmp b s e = Ok b' -> bkeeps b b'.
Proof.
  intros Hl Hw Hh H0 H1 E. destruct (sort_range_ks lo hi cmp b s e Hl Hw Hh H0 H1) as (b1 & E1 & _ & _ & K).
  rewrite (ok_inj _ _ _ E E1). exact K.
Qed.

(* ---------- 2. reorderMarks ---------- *)

Lemma hebrew_reorder_ks lo hi : forall k b i en,
  (level b =? 2) = false -> WF lo hi b = true -> have_out b = false -> 2 <= i -> en <= zlen (info b) ->
  exists b', hebrew_reorder k b i en = Ok b' /\ ks lo hi b b'.
Proof.
  induction k as [|k IH]; intros b i en Hl Hw Hh Hi He.
  - exists b. split; [reflexivity|apply ks_refl; auto].
  - cbn [hebrew_reorder]. destruct (Z.leb_spec en i).
    { exists b. split; [reflexivity|apply ks_refl; auto]. }
    rewrite !getg_ok by lia. cbn [bind].
    match goal with |- context [if ?c then _ else _] => destruct c end.
    + destruct (merge_ks lo hi b (i - 1) (i + 1) Hl Hw Hh) as (b1 & E1 & K1 & U1); try lia.
      rewrite E1. cbn [bind]. eexists. split; [reflexivity|].
      destruct (ks_parts lo hi b b1 Hl K1) as (Hlb1 & Hw1 & Hh1 & El1 & Ei1).
      rewrite Forall_forall in U1.
      set (inf := info b1) in *.
      assert (C1 : cl (nth (Z.to_nat i) inf g0) = cl (nth (Z.to_nat (i - 1)) inf g0)).
      { apply U1. apply nth_in_slice; lia. }
      unfold set_info, ginfo. cbn [info with_info]. fold inf.
      set (inf1 := zfirstn (i - 1) inf ++ [nth (Z.to_nat i) inf g0] ++ zskipn (i - 1 + 1) inf).
      assert (Ec1 : cls inf1 = cls inf) by (apply set_one_cls; try lia; exact C1).
      assert (El1' : zlen inf1 = zlen inf) by (apply cls_eq_zlen; exact Ec1).
      assert (Ec2 : cls (zfirstn i inf1 ++ [nth (Z.to_nat (i - 1)) inf g0] ++ zskipn (i + 1) inf1) = cls inf).
      { rewrite <- Ec1. apply set_one_cls; try lia.
        rewrite <- (nth_cls inf1), Ec1, nth_cls. symmetry. exact C1. }
      apply (ks_trans lo hi b b1); [exact K1|].
      apply same_info_ks; auto.
    + apply IH; auto; lia.
Qed.

Lemma arabic_round_ks is_mcm lo hi cc en b start i0 :
  (level b =? 2) = false -> WF lo hi b = true -> have_out b = false ->
  0 <= start -> start <= i0 -> i0 <= en -> en <= zlen (info b) ->
  arabic_round is_mcm cc en (b, start, i0) = Ok None
  \/ exists b' start' i', arabic_round is_mcm cc en (b, start, i0) = Ok (Some (b', start', i'))
       /\ ks lo hi b b' /\ 0 <= start' /\ start' <= i' /\ i' <= en.
Proof.
  intros Hl Hw Hh H0 H1 H2 H3. unfold arabic_round.
  pose proof (run_while_bound (fun g => mcc g <? cc) (slice i0 en (info b))) as B1.
  rewrite zlen_slice in B1 by lia.
  set (i := i0 + run_while (fun g => mcc g <? cc) (slice i0 en (info b))) in *.
  destruct (Z.eqb_spec i en) as [Eie|Nie]; [left; reflexivity|]. right.
  rewrite getg_ok by lia. cbn [bind].
  destruct (cc <? mcc _).
  { exists b, start, i. split; [reflexivity|]. split; [apply ks_refl; auto|]. repeat split; lia. }
  pose proof (run_while_bound (fun g => (mcc g =? cc) && is_mcm (cp g)) (slice i en (info b))) as B2.
  rewrite zlen_slice in B2 by lia.
  set (j := i + run_while (fun g => (mcc g =? cc) && is_mcm (cp g)) (slice i en (info b))) in *.
  destruct (Z.eqb_spec i j) as [Eij|Nij].
  { exists b, start, i. split; [reflexivity|]. split; [apply ks_refl; auto|]. repeat split; lia. }
  destruct (merge_ks lo hi b start j Hl Hw Hh) as (b1 & E1 & K1 & U1); try lia.
  rewrite E1. cbn [bind].
  destruct (ks_parts lo hi b b1 Hl K1) as (Hlb1 & Hw1 & Hh1 & El1 & Ei1).
  destruct (Z.leb_spec 0 start); [|lia]. destruct (Z.leb_spec start i); [|lia].
  destruct (Z.leb_spec j (zlen (info b1))); [|lia]. cbn [andb negb].
  eexists _, _, _. split; [reflexivity|].
  split; [|repeat split; lia].
  apply (ks_trans lo hi b b1); [exact K1|]. apply edit_ks; auto.
  apply (block_rotate_cls (info b1) (set_mcc 26) (cl (nth (Z.to_nat start) (info b1) g0))); try lia; [apply keeps_set_mcc|exact U1].
Qed.

Lemma arabic_reorder_ks is_mcm lo hi b s en :
  (level b =? 2) = false -> WF lo hi b = true -> have_out b = false -> 0 <= s -> s <= en -> en <= zlen (info b) ->
  exists b', arabic_reorder is_mcm b s en = Ok b' /\ ks lo hi b b'.
Proof.
  intros Hl Hw Hh H0 H1 H2. unfold arabic_reorder.
  destruct (arabic_round_ks is_mcm lo hi 220 en b s s Hl Hw Hh H0 ltac:(lia) H1 H2)
    as [E1|(b1 & st1 & i1 & E1 & K1 & A1 & A2 & A3)]; rewrite E1; cbn [bind].
  - exists b. split; [reflexivity|apply ks_refl; auto].
  - destruct (ks_parts lo hi b b1 Hl K1) as (Hlb1 & Hw1 & Hh1 & El1 & Ei1).
    destruct (arabic_round_ks is_mcm lo hi 230 en b1 st1 i1 Hlb1 Hw1 Hh1 A1 A2 A3 ltac:(lia))
      as [E2|(b2 & st2 & i2 & E2 & K2 & _)]; rewrite E2; cbn [bind fst].
    + exists b1. split; [reflexivity|exact K1].
    + exists b2. split; [reflexivity|exact (ks_trans _ _ _ _ _ K1 K2)].
Qed.

Lemma reorder_marks_ks sreorder is_mcm lo hi b s en :
  (level b =? 2) = false -> WF lo hi b = true -> have_out b = false -> 0 <= s -> s <= en -> en <= zlen (info b) ->
  exists b', reorder_marks sreorder is_mcm b s en = Ok b' /\ ks lo hi b b'.
Proof.
  intros Hl Hw Hh H0 H1 H2. unfold reorder_marks.
  destruct (sreorder =? 1); [apply arabic_reorder_ks; auto|].
  destruct (sreorder =? 2); [apply hebrew_reorder_ks; auto; lia|].
  exists b. split; [reflexivity|apply ks_refl; auto].
Qed.

Theorem reorder_marks_keeps sreorder is_mcm lo hi b s en b' :
  (level b =? 2) = false -> WF lo hi b = true -> have_out b = false -> 0 <= s -> s <= en -> en <= zlen (info b) ->
  reorder_marks sreorder is_mcm b s en = Ok b' -> bkeeps b b'.
Proof.
  intros Hl Hw Hh H0 H1 H2 E. destruct (reorder_marks_ks sreorder is_mcm lo hi b s en Hl Hw Hh H0 H1 H2) as (b1 & E1 & _ & _ & K).
  rewrite (ok_inj _ _ _ E E1). exact K.
Qed.

(* ---------- 3. the second round of otShapeNormalize and the CGJ pass ---------- *)

Lemma round2_ks sreorder is_mcm lo hi : forall fuel count b i,
  (level b =? 2) = false -> WF lo hi b = true -> have_out b = false -> count = zlen (info b) -> 0 <= i ->
  (Z.to_nat (count - i) <= fuel)%nat ->
  exists b', round2 sreorder is_mcm fuel count b i = Ok b' /\ ks lo hi b b'.
Proof.
  induction fuel as [|f IH]; intros count b i Hl Hw Hh Hc Hi Hf.
  - cbn [round2]. destruct (Z.leb_spec count i); [|lia].
    exists b. split; [reflexivity|apply ks_refl; auto].
  - cbn [round2]. destruct (Z.leb_spec count i).
    { exists b. split; [reflexivity|apply ks_refl; auto]. }
    destruct (mcc (ginfo b i) =? 0).
    { apply IH; auto; lia. }
    pose proof (run_while_bound (fun g => negb (mcc g =? 0)) (slice (i + 1) count (info b))) as B.
    rewrite zlen_slice in B by lia.
    set (en := i + 1 + run_while (fun g => negb (mcc g =? 0)) (slice (i + 1) count (info b))) in *.
    cbv zeta.
    destruct (32 <? en - i).
    { apply IH; auto; lia. }
    destruct (sort_range_ks lo hi cmp_ccc b i en Hl Hw Hh) as (b1 & E1 & K1); try lia.
    rewrite E1. cbn [bind].
    destruct (ks_parts lo hi b b1 Hl K1) as (Hlb1 & Hw1 & Hh1 & El1 & Ei1).
    destruct (reorder_marks_ks sreorder is_mcm lo hi b1 i en Hlb1 Hw1 Hh1) as (b2 & E2 & K2); try lia.
    rewrite E2. cbn [bind].
    destruct (ks_parts lo hi b1 b2 Hlb1 K2) as (Hlb2 & Hw2 & Hh2 & El2 & Ei2).
    destruct (IH count b2 (en + 1) Hlb2 Hw2 Hh2) as (b3 & E3 & K3); try lia.
    exists b3. split; [exact E3|].
    exact (ks_trans _ _ _ _ _ (ks_trans _ _ _ _ _ K1 K2) K3).
Qed.

(* any fuel: partial correctness *)
Theorem round2_keeps sreorder is_mcm lo hi : forall fuel count b i b',
  (level b =? 2) = false -> WF lo hi b = true -> have_out b = false -> count = zlen (info b) -> 0 <= i ->
  round2 sreorder is_mcm fuel count b i = Ok b' -> bkeeps b b'.
Proof.
  induction fuel as [|f IH]; intros count b i b' Hl Hw Hh Hc Hi E.
  - cbn [round2] in E. destruct (count <=? i); [|discriminate]. inversion E. apply bkeeps_refl.
  - cbn [round2] in E. destruct (Z.leb_spec count i).
    { inversion E. apply bkeeps_refl. }
    destruct (mcc (ginfo b i) =? 0).
    { apply (IH count b (i + 1)); auto; lia. }
    pose proof (run_while_bound (fun g => negb (mcc g =? 0)) (slice (i + 1) count (info b))) as B.
    rewrite zlen_slice in B by lia.
    set (en := i + 1 + run_while (fun g => negb (mcc g =? 0)) (slice (i + 1) count (info b))) in *.
    cbv zeta in E.
    destruct (32 <? en - i).
    { apply (IH count b (en + 1)); auto; lia. }
    destruct (sort_range_ks lo hi cmp_ccc b i en Hl Hw Hh) as (b1 & E1 & K1); try lia.
    rewrite E1 in E. cbn [bind] in E.
    destruct (ks_parts lo hi b b1 Hl K1) as (Hlb1 & Hw1 & Hh1 & El1 & Ei1).
    destruct (reorder_marks_ks sreorder is_mcm lo hi b1 i en Hlb1 Hw1 Hh1) as (b2 & E2 & K2); try lia.
    rewrite E2 in E. cbn [bind] in E.
    destruct (ks_parts lo hi b1 b2 Hlb1 K2) as (Hlb2 & Hw2 & Hh2 & El2 & Ei2).
    pose proof (IH count b2 (en + 1) b' Hlb2 Hw2 Hh2 ltac:(lia) ltac:(lia) E) as K3.
    destruct K1 as (_ & _ & K1). destruct K2 as (_ & _ & K2).
    exact (bkeeps_trans _ _ _ (bkeeps_trans _ _ _ K1 K2) K3).
Qed.

Lemma cgj_step_ks lo hi b i : (level b =? 2) = false -> WF lo hi b = true -> have_out b = false ->
  1 <= i -> i + 2 <= zlen (info b) ->
  exists b', cgj_step (Ok b) i = Ok b' /\ ks lo hi b b'.
Proof.
  intros Hl Hw Hh H1 H2. unfold cgj_step. cbn [bind]. cbv zeta.
  destruct (_ && _).
  - set (g' := set_up (ginfo b i) (Z.land (up (ginfo b i)) (Z.lnot 64))).
    assert (K1 : ks lo hi b (set_info b i g')).
    { unfold set_info. apply edit_ks; auto. apply set_one_cls; try lia. reflexivity. }
    destruct (ks_parts lo hi b _ Hl K1) as (Hlb1 & Hw1 & Hh1 & El1 & Ei1).
    destruct (utb_ks lo hi (set_info b i g') (i - 1) (i + 2) Hlb1 Hw1 Hh1) as (b' & E & K2); try lia.
    exists b'. split; [exact E|exact (ks_trans _ _ _ _ _ K1 K2)].
  - exists b. split; [reflexivity|apply ks_refl; auto].
Qed.

Lemma cgj_pass_ks lo hi b : (level b =? 2) = false -> WF lo hi b = true -> have_out b = false ->
  exists b', cgj_pass b = Ok b' /\ ks lo hi b b'.
Proof.
  intros Hl Hw Hh. unfold cgj_pass.
  destruct (Z_lt_le_dec (zlen (info b) - 2) 0) as [Hneg|Hpos].
  - unfold zseq. replace (Z.to_nat (zlen (info b) - 2)) with 0%nat by lia. cbn [seq map fold_left].
    exists b. split; [reflexivity|apply ks_refl; auto].
  - destruct (fold_inv_zseq cgj_step (fun _ x => ks lo hi b x) (fun i => i + 1) (zlen (info b) - 2) b Hpos)
      as (b' & E & S').
    + intros j st Hj Ks.
      destruct (ks_parts lo hi b st Hl Ks) as (Hls & Hws & Hhs & Els & Eis).
      destruct (cgj_step_ks lo hi st (j + 1) Hls Hws Hhs) as (b1 & E1 & K1); try lia.
      exists b1. split; [exact E1|exact (ks_trans _ _ _ _ _ Ks K1)].
    + apply ks_refl; auto.
    + exists b'. split; [exact E|exact S'].
Qed.

Theorem cgj_pass_keeps lo hi b b' : (level b =? 2) = false -> WF lo hi b = true -> have_out b = false ->
  cgj_pass b = Ok b' -> bkeeps b b'.
Proof.
  intros Hl Hw Hh E. destruct (cgj_pass_ks lo hi b Hl Hw Hh) as (b1 & E1 & _ & _ & K).
  rewrite (ok_inj _ _ _ E E1). exact K.
Qed.

(* ---------- 4. formClusters ---------- *)

Definition krange_step (lo hi : Z) (f : buffer -> Z -> Z -> res buffer) : Prop :=
  forall b s e, (level b =? 2) = false -> WF lo hi b = true -> have_out b = false -> 0 <= s -> s <= e -> e <= zlen (info b) ->
    exists b', f b s e = Ok b' /\ ks lo hi b b'.

Lemma merge_krange_step lo hi : krange_step lo hi merge_clusters.
Proof.
  intros b s e Hl Hw Hh H0 H1 H2. destruct (merge_ks lo hi b s e Hl Hw Hh H0 H1 H2) as (b' & E & K & _).
  exists b'. split; assumption.
Qed.

Lemma utb_krange_step lo hi : krange_step lo hi unsafe_to_break.
Proof. intros b s e Hl Hw Hh H0 H1 H2. apply utb_ks; auto. Qed.

Lemma fc_loop_ks lo hi f : krange_step lo hi f ->
  forall fuel count b start b', (level b =? 2) = false -> WF lo hi b = true -> have_out b = false -> count = zlen (info b) ->
    0 <= start -> fc_loop fuel f count b start = Ok b' -> ks lo hi b b'.
Proof.
  intros Hf. induction fuel as [|k IH]; intros count b start b' Hl Hw Hh Hc H0 E; cbn [fc_loop] in E.
  - destruct (count <=? start); [|discriminate]. inversion E; subst b'. apply ks_refl; auto.
  - destruct (Z.leb_spec count start); [inversion E; subst b'; apply ks_refl; auto|].
    pose proof (grapheme_end_bound (info b) start H0 ltac:(lia)) as B.
    destruct (Hf b start (grapheme_end (info b) start) Hl Hw Hh H0 ltac:(lia) ltac:(lia)) as (b1 & E1 & K1).
    rewrite E1 in E. cbn [bind] in E.
    destruct (ks_parts lo hi b b1 Hl K1) as (Hlb1 & Hw1 & Hh1 & El1 & Ei1).
    apply (ks_trans lo hi b b1); [exact K1|].
    apply (IH count b1 (grapheme_end (info b) start) b'); auto; lia.
Qed.

Theorem form_clusters_keeps lo hi e e' : EWF lo hi e -> form_clusters e = Ok e' -> bkeeps (eb e) (eb e').
Proof.
  intros (Hw & Hl & Hh). unfold form_clusters. destruct (negb (sf_nonascii e)); [intros E; inversion E; apply bkeeps_refl|].
  assert (Hstep : krange_step lo hi (if level (eb e) =? 0 then merge_clusters else unsafe_to_break))
    by (destruct (level (eb e) =? 0); [apply merge_krange_step|apply utb_krange_step]).
  destruct (fc_loop _ _ _ _ _) as [b'| | |] eqn:E; cbn [lift bind]; try discriminate.
  intros E'. inversion E'; subst e'. cbn [eb with_eb].
  destruct (fc_loop_ks lo hi _ Hstep _ _ _ _ _ Hl Hw Hh eq_refl (Z.le_refl 0) E) as (_ & _ & K). exact K.
Qed.

(* ---------- 5. reverseRange / reverseGraphemes / ensureNativeDirection ---------- *)

(* reversing any range keeps the set of cluster values *)
Theorem reverse_range_keeps b s e b' : reverse_range b s e = Ok b' -> have_out b = false -> bkeeps b b'.
Proof.
  unfold reverse_range. intros E Hh. destruct (Z.ltb_spec (e - s) 2); [inversion E; apply bkeeps_refl|].
  destruct (Z.leb_spec 0 s); [|discriminate]. destruct (Z.leb_spec e (zlen (info b))); [|discriminate].
  cbn [andb negb] in E. inversion E; subst b'. clear E.
  apply bkeeps_info; auto. cbn [info with_info].
  destruct (split3 (info b) s e) as (l1 & l2 & l3 & E3 & L1 & L2 & F & S & K & _); try lia.
  rewrite F, S, K. rewrite E3 at 1. apply lkeeps_same_set. intros x.
  rewrite !cls_app, cls_rev, !in_app_iff, <- in_rev. tauto.
Qed.

Lemma reverse_whole_keeps b b' : reverse b = Ok b' -> have_out b = false -> bkeeps b b'.
Proof. unfold reverse. apply reverse_range_keeps. Qed.

Lemma rgg_merge_step_ks lo hi grp b start i : (level b =? 2) = false -> WF lo hi b = true -> have_out b = false ->
  0 <= start -> start <= i -> i <= zlen (info b) ->
  exists b' start', rgg_step grp true (Ok (b, start)) i = Ok (b', start') /\ ks lo hi b b' /\ (start' = start \/ start' = i).
Proof.
  intros Hl Hw Hh H0 H1 H2. unfold rgg_step. cbn [bind].
  destruct (grp _ _).
  - exists b, start. split; [reflexivity|]. split; [apply ks_refl; auto|left; reflexivity].
  - destruct (merge_ks lo hi b start i Hl Hw Hh) as (b1 & E1 & K1 & U1); try lia.
    rewrite E1. cbn [bind].
    destruct (ks_parts lo hi b b1 Hl K1) as (Hlb1 & Hw1 & Hh1 & El1 & Ei1).
    destruct (reverse_range_const b1 start i (cl (nth (Z.to_nat start) (info b1) g0))) as (b2 & E2 & Ec2 & El2 & _ & Ei2 & Eh2 & Elv2); try lia; [exact U1|].
    rewrite E2. cbn [bind]. exists b2, i. split; [reflexivity|]. split; [|right; reflexivity].
    apply (ks_trans lo hi b b1); [exact K1|]. apply same_info_ks; auto; congruence.
Qed.

Lemma reverse_groups_merge_keeps lo hi grp b b' : (level b =? 2) = false -> WF lo hi b = true -> have_out b = false ->
  reverse_groups grp true b = Ok b' -> bkeeps b b'.
Proof.
  intros Hl Hw Hh. unfold reverse_groups. destruct (Z.eqb_spec (zlen (info b)) 0) as [Z0|NZ].
  - intros E. inversion E. apply bkeeps_refl.
  - pose proof (zlen_nonneg (info b)) as Hn. set (n := zlen (info b)) in *.
    destruct (fold_inv_zseq (rgg_step grp true)
                (fun j (st : buffer * Z) => ks lo hi b (fst st) /\ 0 <= snd st <= j + 1) (fun i => i + 1) (n - 1) (b, 0)) as ([b1 st] & E & K1 & R1); try lia.
    + intros j [bb ss] Hj (Kb & Rb). cbn [fst snd] in *.
      destruct (ks_parts lo hi b bb Hl Kb) as (Hlbb & Hwbb & Hhbb & Elbb & Eibb).
      destruct (rgg_merge_step_ks lo hi grp bb ss (j + 1) Hlbb Hwbb Hhbb) as (b2 & s' & E' & K' & D'); try lia.
      exists (b2, s'). split; [exact E'|]. cbn [fst snd]. split; [exact (ks_trans _ _ _ _ _ Kb K')|]. destruct D'; lia.
    + cbn [fst snd]. split; [apply ks_refl; auto|lia].
    + rewrite E. cbn [bind fst snd] in *.
      destruct (ks_parts lo hi b b1 Hl K1) as (Hlb1 & Hw1 & Hh1 & El1 & Ei1).
      destruct (merge_ks lo hi b1 st n Hlb1 Hw1 Hh1) as (b2 & E2 & K2 & U2); try lia.
      rewrite E2. cbn [bind].
      destruct (ks_parts lo hi b1 b2 Hlb1 K2) as (Hlb2 & Hw2 & Hh2 & El2 & Ei2).
      destruct (reverse_range_const b2 st n (cl (nth (Z.to_nat st) (info b2) g0))) as (b3 & E3 & Ec3 & El3 & _ & Ei3 & Eh3 & Elv3); try lia; [exact U2|].
      rewrite E3. cbn [bind]. intros E4.
      assert (K3 : ks lo hi b2 b3) by (apply same_info_ks; auto; congruence).
      destruct (ks_trans _ _ _ _ _ K1 (ks_trans _ _ _ _ _ K2 K3)) as (_ & _ & K).
      apply (bkeeps_trans b b3 b'); [exact K|]. apply reverse_whole_keeps; [exact E4|congruence].
Qed.

Theorem reverse_graphemes_keeps lo hi m b b' : (level b =? 2) = false -> WF lo hi b = true -> have_out b = false ->
  m || groups_uniform (info b) = true -> reverse_graphemes m b = Ok b' -> bkeeps b b'.
Proof.
  intros Hl Hw Hh Hm. unfold reverse_graphemes. destruct m.
  - apply (reverse_groups_merge_keeps lo hi); auto.
  - cbn [orb] in Hm. intros E.
    destruct (reverse_groups_nomerge_spec is_cont b) as (b1 & E1 & Ec & El & _ & Ei & Eh & Elv).
    { intros i H0 H1 Hc. rewrite !nth_cls. apply groups_uniform_nth; auto. }
    rewrite (ok_inj _ _ _ E E1). apply bkeeps_info; [exact Hh|congruence|]. rewrite Ec. apply lkeeps_rev.
Qed.

Theorem ensure_native_direction_keeps lo hi horiz e e' : EWF lo hi e ->
  (level (eb e) =? 1) || groups_uniform (info (eb e)) = true ->
  ensure_native_direction horiz e = Ok e' -> bkeeps (eb e) (eb e').
Proof.
  intros (Hw & Hl & Hh) Hg. unfold ensure_native_direction. cbv zeta.
  match goal with |- context [if ?c then _ else Ok e] => destruct c end; [|intros E; inversion E; apply bkeeps_refl].
  destruct (reverse_graphemes _ _) as [b'| | |] eqn:E; cbn [bind]; try discriminate.
  intros E'. inversion E'; subst e'. cbn [eb with_eb with_dir].
  exact (reverse_graphemes_keeps lo hi _ _ _ Hl Hw Hh Hg E).
Qed.

(* ---------- 6. insertDottedCircle and setUnicodeProps ---------- *)

Theorem insert_dotted_circle_keeps ugc udi umcc nominal lo hi e e' : EWF lo hi e -> idx (eb e) = 0 ->
  insert_dotted_circle ugc udi umcc nominal e = Ok e' -> bkeeps (eb e) (eb e').
Proof.
  intros (Hw & Hl & Hh) Hi. unfold insert_dotted_circle.
  destruct (f_no_dc e); [intros E; inversion E; apply bkeeps_refl|].
  destruct (_ || _ || (zlen (info (eb e)) =? 0) || _) eqn:Hc; [intros E; inversion E; apply bkeeps_refl|].
  destruct (negb (snd (nominal 9676))); [intros E; inversion E; apply bkeeps_refl|].
  apply orb_false_elim in Hc. destruct Hc as [Hc _]. apply orb_false_elim in Hc. destruct Hc as [_ Hz].
  apply Z.eqb_neq in Hz. pose proof (zlen_nonneg (info (eb e))) as Hn.
  destruct (compute_props ugc udi umcc 9676) as [p f].
  unfold clear_output. cbn [bind]. cbn [info with_idx with_out with_have].
  rewrite getg_ok by lia. cbn [bind].
  rewrite swap_from_start by reflexivity. cbn [bind].
  intros E. inversion E; subst e'. clear E. destruct f as [[fa fd] fc]. cbn [or_scratch eb with_eb].
  apply bkeeps_info; [exact Hh|reflexivity|].
  cbn [out info with_idx with_out with_have app].
  destruct (info (eb e)) as [|g r] eqn:Ei; [rewrite zlen_nil in Hz; lia|].
  change (nth (Z.to_nat 0) (g :: r) g0) with g. cbn [cls map cl].
  apply lkeeps_same_set. intros x. cbn [In]. tauto.
Qed.

Theorem set_unicode_props_keeps ugc udi umcc uextpict e : have_out (eb e) = false ->
  bkeeps (eb e) (eb (set_unicode_props ugc udi umcc uextpict e)).
Proof.
  intros Hh. destruct (set_unicode_props_spec ugc udi umcc uextpict e) as (Ec & _ & _ & Ehv & _).
  apply bkeeps_cls_eq; [exact Hh|congruence|exact Ec].
Qed.

(* ---------- 7. ensureMonotoneClusters ---------- *)

Lemma ensure_monotone_clusters_ks lo hi asc b : (level b =? 2) = false -> WF lo hi b = true -> have_out b = false ->
  exists b', ensure_monotone_clusters asc b = Ok b' /\ ks lo hi b b'.
Proof.
  intros Hl Hw Hh. unfold ensure_monotone_clusters. rewrite Hl. cbn [orb].
  destruct (Z.ltb_spec (zlen (info b)) 2); [exists b; split; [reflexivity|apply ks_refl; auto]|].
  destruct (fold_inv_zseq (emc_step asc) (fun _ x => ks lo hi b x) (fun i => i + 1) (zlen (info b) - 1) b) as (b' & E & S'); try lia.
  - intros j st Hj Ks. destruct (ks_parts lo hi b st Hl Ks) as (Hls & Hws & Hhs & Els & Eis).
    unfold emc_step. cbn [bind].
    destruct (_ || _); [exists st; split; [reflexivity|exact Ks]|].
    pose proof (emc_back_bound asc (info st) (cl (ginfo st (j + 1))) (Z.to_nat (j + 1 - 1))) as B.
    destruct (merge_ks lo hi st (emc_back asc (info st) (cl (ginfo st (j + 1))) (Z.to_nat (j + 1 - 1))) (j + 1 + 1) Hls Hws Hhs)
      as (b1 & E1 & K1 & _); try lia.
    exists b1. split; [exact E1|exact (ks_trans _ _ _ _ _ Ks K1)].
  - apply ks_refl; auto.
  - exists b'. split; [exact E|exact S'].
Qed.

Theorem ensure_monotone_clusters_keeps lo hi asc b b' : (level b =? 2) = false -> WF lo hi b = true -> have_out b = false ->
  ensure_monotone_clusters asc b = Ok b' -> bkeeps b b'.
Proof.
  intros Hl Hw Hh E. destruct (ensure_monotone_clusters_ks lo hi asc b Hl Hw Hh) as (b1 & E1 & _ & _ & K).
  rewrite (ok_inj _ _ _ E E1). exact K.
Qed.

(* ---------- 8. hideDefaultIgnorables ---------- *)

Lemma hide_have_out nominal e e' : (level (eb e) =? 2) = false -> have_out (eb e) = false -> idx (eb e) = 0 ->
  hide_default_ignorables nominal e = Ok e' -> have_out (eb e') = false.
Proof.
  intros Hl Hh Hi. unfold hide_default_ignorables.
  destruct (negb (sf_di e) || f_preserve_di e); [intros H; inversion H; subst e'; exact Hh|].
  destruct (if invisible e =? 0 then nominal 32 else (invisible e, false)) as [inv ok].
  destruct (negb (f_remove_di e) && ok).
  - intros H. inversion H; subst e'. exact Hh.
  - destruct (ot_delete_glyphs_inplace_core is_default_ignorable (eb e) Hl Hh Hi) as (b' & E & _ & Hh' & _).
    rewrite E. cbn [lift bind]. intros H. inversion H; subst e'. exact Hh'.
Qed.

Theorem hide_default_ignorables_keeps nominal e e' : (level (eb e) =? 2) = false -> have_out (eb e) = false -> idx (eb e) = 0 ->
  hide_default_ignorables nominal e = Ok e' -> bkeeps (eb e) (eb e').
Proof.
  intros Hl Hh Hi E. destruct (hide_default_ignorables_ss nominal e e' Hl Hh Hi E) as (S & M).
  apply bkeeps_info; [exact Hh|exact (hide_have_out nominal e e' Hl Hh Hi E)|].
  apply lkeeps_ss; [exact S|]. intros N. apply M. intros N'. apply N. rewrite N'. reflexivity.
Qed.

(* ---------- the stages before normalisation, composed (as pre_normalize_full in Proofs/EnginePre.v) ---------- *)

Theorem pre_normalize_keeps ugc udi umcc uextpict nominal lo hi horiz e e' : (forall u, 0 <= ugc u < 32) ->
  EWF lo hi e -> idx (eb e) = 0 -> level (eb e) = 0 \/ level (eb e) = 1 ->
  pre_normalize ugc udi umcc uextpict nominal horiz e = Ok e' -> bkeeps (eb e) (eb e').
Proof.
  intros Hgc He Hi Hlv. unfold pre_normalize. cbv zeta.
  pose proof (set_unicode_props_wf ugc udi umcc uextpict lo hi e He) as H1.
  destruct (set_unicode_props_spec ugc udi umcc uextpict e) as (_ & _ & I1 & _ & L1 & _).
  pose proof (set_unicode_props_keeps ugc udi umcc uextpict e (proj2 (proj2 He))) as K1.
  destruct (insert_dotted_circle_wf ugc udi umcc nominal lo hi _ H1 ltac:(congruence)) as (e2 & E2 & H2 & I2 & _ & L2).
  pose proof (insert_dotted_circle_keeps ugc udi umcc nominal lo hi _ e2 H1 ltac:(congruence) E2) as K2.
  rewrite E2. cbn [bind].
  destruct (form_clusters_wf lo hi e2 H2) as (e3 & E3 & H3 & I3 & _ & L3).
  pose proof (form_clusters_keeps lo hi e2 e3 H2 E3) as K3.
  rewrite E3. cbn [bind]. intros E4.
  assert (Hg : (level (eb e3) =? 1) || groups_uniform (info (eb e3)) = true).
  { destruct Hlv as [Hzero|Hone].
    - rewrite (form_clusters_groups ugc udi umcc uextpict nominal e e2 e3 Hgc Hzero Hi E2 ltac:(congruence) I2 E3). apply orb_true_r.
    - replace (level (eb e3)) with 1 by congruence. reflexivity. }
  pose proof (ensure_native_direction_keeps lo hi horiz e3 e' H3 Hg E4) as K4.
  exact (bkeeps_trans _ _ _ (bkeeps_trans _ _ _ (bkeeps_trans _ _ _ K1 K2) K3) K4).
Qed.

Print Assumptions sort_range_keeps.
Print Assumptions reorder_marks_keeps.
Print Assumptions round2_keeps.
Print Assumptions cgj_pass_keeps.
Print Assumptions form_clusters_keeps.
Print Assumptions reverse_range_keeps.
Print Assumptions reverse_graphemes_keeps.
Print Assumptions ensure_native_direction_keeps.
Print Assumptions insert_dotted_circle_keeps.
Print Assumptions set_unicode_props_keeps.
Print Assumptions ensure_monotone_clusters_keeps.
Print Assumptions hide_default_ignorables_keeps.
Print Assumptions pre_normalize_keeps.
