(* "Nothing is lost, nothing is invented": the relation between the cluster sequences before and after a stage of the
   shaping engine that the rune accounting of countClusters needs.  lkeeps l l': every cluster value of l' is a value of l,
   and while l' is not empty its smallest value is the smallest value of l.  (Closed under merging a block to its minimum,
   duplicating, reversing; deletion keeps it as long as the deleted glyph's cluster is merged into a neighbour.) *)
From TV Require Import Model.Buffer Spec.Buffer Proofs.ShapeGlue Proofs.Buffer Proofs.BufferOps.

Definition lsub (l l' : list Z) : Prop := forall x, In x l' -> In x l.
Definition lkmin (l l' : list Z) : Prop := l' <> [] -> lmin l' = lmin l.
Definition lkeeps (l l' : list Z) : Prop := lsub l l' /\ lkmin l l'.

Lemma lsub_refl l : lsub l l.
Proof. intros x H. exact H. Qed.
Lemma lsub_trans a b c : lsub a b -> lsub b c -> lsub a c.
Proof. intros H1 H2 x H. apply H1. apply H2. exact H. Qed.

Lemma lsub_nonempty l l' : lsub l l' -> l' <> [] -> l <> [].
Proof. intros S N E. subst l. destruct l' as [|x r]; [congruence|]. exact (S x (or_introl eq_refl)). Qed.

Lemma lkeeps_refl l : lkeeps l l.
Proof. split; [apply lsub_refl|intros _; reflexivity]. Qed.

Lemma lkeeps_trans a b c : lkeeps a b -> lkeeps b c -> lkeeps a c.
Proof.
  intros [S1 M1] [S2 M2]. split; [eapply lsub_trans; eassumption|].
  intros N. rewrite (M2 N). apply M1. exact (lsub_nonempty b c S2 N).
Qed.

Lemma lkeeps_eq l l' : l' = l -> lkeeps l l'.
Proof. intros ->. apply lkeeps_refl. Qed.

(* the working introduction rule: no value invented and the smallest value of l still occurs *)
Lemma lkeeps_intro l l' : lsub l l' -> (l' <> [] -> In (lmin l) l') -> lkeeps l l'.
Proof.
  intros S H. split; [exact S|]. intros N. apply lmin_char; [exact (H N)|].
  apply Forall_forall. intros x Hx. apply lmin_le. apply S. exact Hx.
Qed.

Lemma lkeeps_same_set l l' : (forall x, In x l <-> In x l') -> lkeeps l l'.
Proof.
  intros H. apply lkeeps_intro; [intros x Hx; apply H; exact Hx|].
  intros N. apply H. apply lmin_in. intros E. subst l. destruct l' as [|x r]; [congruence|]. exact (proj2 (H x) (or_introl eq_refl)).
Qed.

Lemma lkeeps_rev l : lkeeps l (rev l).
Proof. apply lkeeps_same_set. intros x. apply in_rev. Qed.

(* a stutter-subsequence that keeps the smallest value *)
Lemma lkeeps_ss l l' : ss l l' -> lkmin l l' -> lkeeps l l'.
Proof. intros S M. split; [intros x Hx; exact (ss_in _ _ S x Hx)|exact M]. Qed.

(* buffers: the glyph sequence the buffer stands for *)
Definition bkeeps (b b' : buffer) : Prop := lkeeps (cls (bseq b)) (cls (bseq b')).
Lemma bkeeps_refl b : bkeeps b b.
Proof. apply lkeeps_refl. Qed.
Lemma bkeeps_trans a b c : bkeeps a b -> bkeeps b c -> bkeeps a c.
Proof. apply lkeeps_trans. Qed.
