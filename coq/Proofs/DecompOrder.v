(* Canonical ordering of the canonical decompositions (C20): the two parts of a decomposition are never an
   out-of-order pair of combining marks, and the first part of a recomposable code point is a starter. *)
From TV Require Import Lib.GoNum Lib.Res Model.Unicode Model.Lang Spec.Unicode Proofs.Unicode Proofs.Decomp.

(* no table of a non-zero combining class meets [lo, hi] (strided entries expanded): every code point of the
   range has class 0 *)
Definition classes_miss (lo hi : Z) : bool :=
  forallb (fun p => (fst p =? 0)%nat || forallb (fun iv => (snd iv <? lo) || (hi <? fst iv)) (intervals_of (snd p)))
          combiningClasses_order.

Lemma mem_miss t lo hi r : strides_ok t -> forallb (fun iv => (snd iv <? lo) || (hi <? fst iv)) (intervals_of t) = true ->
  lo <= r <= hi -> mem t r = false.
Proof.
  intros F H Hr. apply not_true_is_false. intro Hm. destruct (mem_intervals t r F Hm) as [iv [Hin Hiv]].
  rewrite forallb_forall in H. specialize (H iv Hin). unfold in_iv in Hiv. apply andb_prop in Hiv as [A B]. apply Z.leb_le in A, B.
  apply orb_prop in H as [H|H]; apply Z.ltb_lt in H; lia.
Qed.

Lemma ccc_zero_in lo hi r : classes_miss lo hi = true -> is_rune r -> lo <= r <= hi -> lookup_combining_class r = Ok 0.
Proof.
  intros H Hr Hb. rewrite (lookup_combining_class_scan r Hr). unfold classes_miss in H. rewrite forallb_forall in H.
  destruct (scan_classes combiningClasses_order r) as [i|] eqn:E; [|reflexivity].
  destruct (scan_some _ _ _ E) as [p [Hp [Hi Hm]]]. specialize (H p Hp).
  apply orb_prop in H as [H|H].
  - apply Nat.eqb_eq in H. rewrite <- Hi, H. reflexivity.
  - pose proof (order_ok_strides _ (family_order_ok _ combining_family_ok) p Hp) as F.
    rewrite (mem_miss (snd p) lo hi r F H Hb) in Hm. discriminate Hm.
Qed.

Lemma jamo_miss : classes_miss 4352 4607 = true. Proof. vm_cast_no_check (eq_refl true). Qed.
Lemma syllables_miss : classes_miss 44032 55203 = true. Proof. vm_cast_no_check (eq_refl true). Qed.

(* the statement for one decomposition (a, b) of c, on the model's lookups *)
Definition order_ok_pair (c a b : Z) : bool :=
  match lookup_combining_class a, lookup_combining_class b with
  | Ok ca, Ok cb => negb ((cb <? ca) && (0 <? cb)) && (excluded c || (ca =? 0))
  | _, _ => false
  end.
Lemma decompose2_order_ok_true :
  forallb (fun e => order_ok_pair (fst e) (fst (snd e)) (snd (snd e))) decompose2_pairs = true.
Proof. vm_cast_no_check (eq_refl true). Qed.

Lemma compose_hangul_ranges a b c : compose_hangul a b = (c, true) ->
  (44032 <= a <= 55203 /\ 4352 <= b <= 4607) \/ (4352 <= a <= 4607 /\ 4352 <= b <= 4607).
Proof.
  unfold compose_hangul.
  unfold HangulSBase, HangulSCount, HangulTCount, HangulNCount, HangulLBase, HangulLCount, HangulVBase, HangulVCount, HangulTBase.
  intro Hcomp.
  destruct ((a >=? 44032) && (a <? 44032 + 11172) && (b >? 4519) && (b <? 4519 + 28) && (Z.rem (a - 44032) 28 =? 0)) eqn:G1.
  - repeat (apply andb_prop in G1 as [G1 ?]). rewrite Z.geb_leb in G1. apply Z.leb_le in G1.
    repeat match goal with E : (_ <? _) = true |- _ => apply Z.ltb_lt in E | E : (_ >? _) = true |- _ => rewrite Z.gtb_ltb in E; apply Z.ltb_lt in E end.
    left. lia.
  - destruct ((a >=? 4352) && (a <? 4352 + 19) && (b >=? 4449) && (b <? 4449 + 21)) eqn:G2; [|discriminate].
    repeat (apply andb_prop in G2 as [G2 ?]). rewrite Z.geb_leb in G2. apply Z.leb_le in G2.
    repeat match goal with E : (_ <? _) = true |- _ => apply Z.ltb_lt in E | E : (_ >=? _) = true |- _ => rewrite Z.geb_leb in E; apply Z.leb_le in E end.
    right. lia.
Qed.

Lemma order_ok_pair_sound c a b : order_ok_pair c a b = true ->
  exists ca cb, lookup_combining_class a = Ok ca /\ lookup_combining_class b = Ok cb
                /\ ~ (cb < ca /\ 0 < cb) /\ (excluded c = false -> ca = 0).
Proof.
  unfold order_ok_pair. intro H.
  destruct (lookup_combining_class a) as [ca| | |]; try discriminate H;
  destruct (lookup_combining_class b) as [cb| | |]; try discriminate H.
  apply andb_prop in H as [H3 H4].
  exists ca, cb. split; [reflexivity|]. split; [reflexivity|]. split.
  + intros [A B]. apply negb_true_iff in H3. apply andb_false_iff in H3 as [H3|H3]; apply Z.ltb_ge in H3; lia.
  + intro He. rewrite He in H4. cbn [orb] in H4. apply Z.eqb_eq in H4. exact H4.
Qed.

Lemma table_pair_order c a b : In (c, (a, b)) decompose2_pairs ->
  exists ca cb, lookup_combining_class a = Ok ca /\ lookup_combining_class b = Ok cb
                /\ ~ (cb < ca /\ 0 < cb) /\ (excluded c = false -> ca = 0).
Proof.
  intro E2. apply order_ok_pair_sound.
  exact (proj1 (forallb_forall _ _) decompose2_order_ok_true (c, (a, b)) E2).
Qed.

Lemma decomposition_order_lemma c a b : is_rune c -> decompose c = (a, b, true) -> b <> 0 ->
  exists ca cb, lookup_combining_class a = Ok ca /\ lookup_combining_class b = Ok cb
                /\ ~ (cb < ca /\ 0 < cb) /\ (excluded c = false -> ca = 0).
Proof.
  intros Hc Hd Hb. unfold decompose in Hd.
  destruct (decompose_hangul c) as [[ha hb] hok] eqn:Eh. destruct hok.
  - inversion Hd; subst ha hb. clear Hd.
    pose proof (compose_hangul_ranges a b c (hangul_decompose_compose c a b Hc Eh)) as Hr.
    exists 0, 0. destruct Hr as [[A B]|[A B]].
    + rewrite (ccc_zero_in 44032 55203 a syllables_miss ltac:(unfold is_rune; lia) A), (ccc_zero_in 4352 4607 b jamo_miss ltac:(unfold is_rune; lia) B).
      repeat split; try reflexivity. lia.
    + rewrite (ccc_zero_in 4352 4607 a jamo_miss ltac:(unfold is_rune; lia) A), (ccc_zero_in 4352 4607 b jamo_miss ltac:(unfold is_rune; lia) B).
      repeat split; try reflexivity. lia.
  - destruct (assoc c decompose1_pairs) as [m1|] eqn:E1; [inversion Hd; subst; contradiction|].
    destruct (assoc c decompose2_pairs) as [[x y]|] eqn:E2; [|inversion Hd; subst; contradiction].
    inversion Hd; subst x y. clear Hd. apply assoc_in in E2. exact (table_pair_order c a b E2).
Qed.
