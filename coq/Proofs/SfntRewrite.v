(* C19: reading a written file back and writing what was read gives the same bytes (the writer is a
   function of the tags and contents the reader returns; nothing else of the first file matters). *)
From TV Require Import Model.Sfnt Spec.Sfnt Proofs.Sfnt.
Open Scope Z_scope.

(* the table list a client obtains from a loaded file: every tag of the directory with its RawTable bytes *)
Definition reread (file : list Z) (ld : loader) : list table :=
  map (fun tag => mkTable tag (match raw_table file ld tag with Ok c => c | _ => [] end)) (loader_tables ld).

Lemma reread_written ts :
  wf_tables ts -> ssorted (map t_tag ts) ->
  exists ld, new_loader (write_ttf ts) = Ok ld /\ reread (write_ttf ts) ld = ts.
Proof.
  intros W S. destruct (roundtrip_lemma ts W S) as (ld & E & _ & T & R).
  exists ld. split; [exact E|]. unfold reread. rewrite T, map_map.
  rewrite <- (map_id ts) at 2. apply map_ext_in. intros t Ht. rewrite (R t Ht). destruct t; reflexivity.
Qed.

Lemma rewrite_identical ts :
  wf_tables ts -> ssorted (map t_tag ts) ->
  exists ld, new_loader (write_ttf ts) = Ok ld /\ write_ttf (reread (write_ttf ts) ld) = write_ttf ts.
Proof.
  intros W S. destruct (reread_written ts W S) as (ld & E & R). exists ld. split; [exact E|]. rewrite R. reflexivity.
Qed.
