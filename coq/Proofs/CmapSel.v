(* C11, character maps, the rest of font/cmap.go: format 0 (enumeration = lookup, and what newCmap0 builds), the
   choice of the subtable by ProcessCmap (findSubtable, the preference order, the legacy wrappers), format 14
   (GetGlyphVariant = the linear specification on sorted tables), and the main theorem: the cmap ProcessCmap
   returns for typed records enumerates exactly the non-negative runes it looks up. *)
From Coq Require Import ZifyBool.
From TV Require Import Lib.GoNum Lib.Res Lib.Bytes Model.RuneSet Model.Cmap Model.CmapSel.
From TV Require Import Spec.RuneSet Spec.Cmap Spec.CmapRemap Spec.CmapSel.
From TV Require Import Proofs.Cmap Proofs.CmapSan.

(* ------------------------------------------------------------------------------------------ *)
(* A. format 0                                                                                 *)
(* ------------------------------------------------------------------------------------------ *)

(* the association list is strictly sorted by key *)
Fixpoint ssorted (m : cmap0) : Prop :=
  match m with
  | [] => True
  | (k, _) :: t => (forall k', In k' (map fst t) -> k < k') /\ ssorted t
  end.

Lemma m0_insert_keys : forall m r g k, In k (map fst (m0_insert m r g)) <-> k = r \/ In k (map fst m).
Proof.
  induction m as [|(r', g') t IH]; intros r g k; cbn [m0_insert map fst In].
  - intuition.
  - destruct (Z.ltb_spec r r') as [Hlt|Hge].
    + cbn [map fst In]. intuition.
    + destruct (Z.eqb_spec r r') as [He|Hne]; cbn [map fst In].
      * subst r'. intuition.
      * rewrite IH. intuition.
Qed.

Lemma m0_insert_sorted : forall m r g, ssorted m -> ssorted (m0_insert m r g).
Proof.
  induction m as [|(r', g') t IH]; intros r g H; cbn [m0_insert].
  - cbn [ssorted map In]. split; [intros k' []|exact I].
  - destruct H as (H1 & H2).
    destruct (Z.ltb_spec r r') as [Hlt|Hge].
    + cbn [ssorted map fst In]. split; [|split; assumption].
      intros k' [<-|Hk]; [exact Hlt|]. specialize (H1 _ Hk). lia.
    + destruct (Z.eqb_spec r r') as [He|Hne].
      * subst r'. cbn [ssorted]. split; assumption.
      * cbn [ssorted]. split; [|apply IH; exact H2].
        intros k' Hk. apply m0_insert_keys in Hk. destruct Hk as [->|Hk]; [lia|apply H1; exact Hk].
Qed.

Lemma lookup0_raw_insert : forall m r g x,
  lookup0_raw (m0_insert m r g) x = if r =? x then Some g else lookup0_raw m x.
Proof.
  induction m as [|(r', g') t IH]; intros r g x; cbn [m0_insert lookup0_raw].
  - reflexivity.
  - destruct (Z.ltb_spec r r') as [Hlt|Hge].
    + reflexivity.
    + destruct (Z.eqb_spec r r') as [He|Hne]; cbn [lookup0_raw].
      * subst r'. destruct (Z.eqb_spec r x); reflexivity.
      * rewrite IH. destruct (Z.eqb_spec r' x) as [E1|N1]; [|reflexivity].
        destruct (Z.eqb_spec r x) as [E2|N2]; [lia|reflexivity].
Qed.

Lemma lookup0_raw_In : forall m r g, lookup0_raw m r = Some g -> In (r, g) m.
Proof.
  induction m as [|(a, g0) t IH]; intros r g H; cbn [lookup0_raw] in H; [discriminate|].
  destruct (Z.eqb_spec a r) as [->|Hne].
  - injection H as <-. left. reflexivity.
  - right. apply IH. exact H.
Qed.

Lemma ssorted_lookup : forall m, ssorted m ->
  NoDup (map fst m) /\ forall r g, In (r, g) m <-> lookup0_raw m r = Some g.
Proof.
  induction m as [|(a, g0) t IH]; intros H.
  - split; [constructor|]. intros r g. cbn [In lookup0_raw]. split; [intros []|discriminate].
  - destruct H as (H1 & H2). destruct (IH H2) as (N & L). split.
    + cbn [map fst]. constructor; [|exact N]. intros Hi. specialize (H1 _ Hi). lia.
    + intros r g. cbn [In lookup0_raw]. destruct (Z.eqb_spec a r) as [->|Hne].
      * split.
        -- intros [E|Hi]; [injection E as <-; reflexivity|].
           exfalso. assert (Hk : In r (map fst t)) by (apply in_map_iff; exists (r, g); split; [reflexivity|exact Hi]).
           specialize (H1 _ Hk). lia.
        -- intros E. injection E as <-. left. reflexivity.
      * rewrite <- L. split; [intros [E|Hi]; [injection E as E1 E2; contradiction|exact Hi]|intros Hi; right; exact Hi].
Qed.

Definition step0 (decode : list Z) : cmap0 -> Z * Z -> cmap0 :=
  fun m bg => if fst bg =? 0 then m else m0_insert m (znth 0 decode (fst bg)) (snd bg).

Lemma fold0_sorted decode : forall l m, ssorted m -> ssorted (fold_left (step0 decode) l m).
Proof.
  induction l as [|bg l IH]; intros m H; cbn [fold_left]; [exact H|].
  apply IH. unfold step0. destruct (fst bg =? 0); [exact H|apply m0_insert_sorted; exact H].
Qed.

Lemma new_cmap0_sorted : forall decode ga, ssorted (new_cmap0 decode ga).
Proof. intros decode ga. unfold new_cmap0. apply (fold0_sorted decode). exact I. Qed.

Lemma ssorted_iter_agrees : forall m, ssorted m -> iter_agrees (iter0 m) (lookup0 m).
Proof.
  intros m H. destruct (ssorted_lookup m H) as (N & L). unfold iter0, lookup0. split; [exact N|].
  intros r g _. rewrite L. destruct (lookup0_raw m r) as [g'|].
  - split; [intros E; injection E as <-; reflexivity|intros E; injection E as <-; reflexivity].
  - split; discriminate.
Qed.

Lemma iter0_eq_lookup0 : forall decode ga, iter_agrees (iter0 (new_cmap0 decode ga)) (lookup0 (new_cmap0 decode ga)).
Proof. intros decode ga. apply ssorted_iter_agrees. apply new_cmap0_sorted. Qed.

(* what the loop of newCmap0 builds: the last byte (not 0) decoding to x wins *)
Lemma fold0_lookup decode x g : forall ga lo m,
  lookup0_raw (fold_left (step0 decode) (combine (zrange lo (length ga)) ga) m) x = Some g <->
  (exists b, lo <= b < lo + zlen ga /\ b <> 0 /\ znth 0 decode b = x /\ znth 0 ga (b - lo) = g /\
             forall b', b < b' < lo + zlen ga -> b' <> 0 -> znth 0 decode b' <> x)
  \/ (lookup0_raw m x = Some g /\ forall b', lo <= b' < lo + zlen ga -> b' <> 0 -> znth 0 decode b' <> x).
Proof.
  induction ga as [|a ga IH]; intros lo m.
  - cbn [length zrange combine fold_left]. rewrite zlen_nil. split.
    + intros H. right. split; [exact H|]. intros b' Hb'. lia.
    + intros [(b & Hb & _)|(H & _)]; [lia|exact H].
  - cbn [length zrange combine fold_left]. rewrite IH. rewrite zlen_cons.
    pose proof (zlen_nonneg ga) as Hlen.
    assert (Hz : forall b, lo < b -> znth 0 (a :: ga) (b - lo) = znth 0 ga (b - (lo + 1))).
    { intros b Hb. rewrite znth_cons_pos by lia. f_equal. lia. }
    assert (Hz0 : znth 0 (a :: ga) (lo - lo) = a) by (rewrite Z.sub_diag; reflexivity).
    unfold step0. cbn [fst snd].
    destruct (Z.eqb_spec lo 0) as [E0|N0].
    + split.
      * intros [(b & Hb & Hn & Hd & Hg & Hl)|(Hm & Hl)].
        -- left. exists b. rewrite Hz by lia. repeat split; try lia; try assumption.
           intros b' Hb' Hn'. apply Hl; lia.
        -- right. split; [exact Hm|]. intros b' Hb' Hn'. apply Hl; lia.
      * intros [(b & Hb & Hn & Hd & Hg & Hl)|(Hm & Hl)].
        -- left. exists b. rewrite Hz in Hg by lia. repeat split; try lia; try assumption.
           intros b' Hb' Hn'. apply Hl; lia.
        -- right. split; [exact Hm|]. intros b' Hb' Hn'. apply Hl; lia.
    + rewrite lookup0_raw_insert. destruct (Z.eqb_spec (znth 0 decode lo) x) as [Ex|Nx].
      * split.
        -- intros [(b & Hb & Hn & Hd & Hg & Hl)|(Hm & Hl)].
           ++ left. exists b. rewrite Hz by lia. repeat split; try lia; try assumption.
              intros b' Hb' Hn'. apply Hl; lia.
           ++ injection Hm as <-. left. exists lo. rewrite Hz0. repeat split; try lia; try assumption.
              intros b' Hb' Hn'. apply Hl; lia.
        -- intros [(b & Hb & Hn & Hd & Hg & Hl)|(Hm & Hl)].
           ++ destruct (Z.eq_dec b lo) as [->|Hne].
              ** right. rewrite Hz0 in Hg. subst a. split; [reflexivity|]. intros b' Hb' Hn'. apply Hl; lia.
              ** left. exists b. rewrite Hz in Hg by lia. repeat split; try lia; try assumption.
                 intros b' Hb' Hn'. apply Hl; lia.
           ++ exfalso. apply (Hl lo); [lia|exact N0|exact Ex].
      * split.
        -- intros [(b & Hb & Hn & Hd & Hg & Hl)|(Hm & Hl)].
           ++ left. exists b. rewrite Hz by lia. repeat split; try lia; try assumption.
              intros b' Hb' Hn'. apply Hl; lia.
           ++ right. split; [exact Hm|]. intros b' Hb' Hn'.
              destruct (Z.eq_dec b' lo) as [->|Hne]; [exact Nx|apply Hl; lia].
        -- intros [(b & Hb & Hn & Hd & Hg & Hl)|(Hm & Hl)].
           ++ assert (Hne : b <> lo) by (intros ->; contradiction).
              left. exists b. rewrite Hz in Hg by lia. repeat split; try lia; try assumption.
              intros b' Hb' Hn'. apply Hl; lia.
           ++ right. split; [exact Hm|]. intros b' Hb' Hn'. apply Hl; lia.
Qed.

Lemma new_cmap0_spec : forall decode ga r g, length ga = 256%nat ->
  (lookup0 (new_cmap0 decode ga) r = Ok (g, true) <->
   exists b, 1 <= b < 256 /\ znth 0 decode b = r /\ znth 0 ga b = g /\
             forall b', b < b' < 256 -> znth 0 decode b' <> r).
Proof.
  intros decode ga r g Hlen.
  assert (Hz : zlen ga = 256) by (unfold zlen; rewrite Hlen; reflexivity).
  assert (Hl : lookup0 (new_cmap0 decode ga) r = Ok (g, true) <-> lookup0_raw (new_cmap0 decode ga) r = Some g).
  { unfold lookup0. destruct (lookup0_raw (new_cmap0 decode ga) r) as [g'|].
    - split; intros E; injection E as <-; reflexivity.
    - split; discriminate. }
  rewrite Hl. unfold new_cmap0. fold (step0 decode). rewrite (fold0_lookup decode r g ga 0 []). rewrite Hz.
  cbn [lookup0_raw]. split.
  - intros [(b & Hb & Hn & Hd & Hg & Hlast)|(Hm & _)]; [|discriminate].
    exists b. rewrite Z.sub_0_r in Hg. repeat split; try lia; try assumption.
    intros b' Hb'. apply Hlast; lia.
  - intros (b & Hb & Hd & Hg & Hlast). left. exists b. rewrite Z.sub_0_r.
    repeat split; try lia; try assumption. intros b' Hb' _. apply Hlast. lia.
Qed.

(* ------------------------------------------------------------------------------------------ *)
(* B. ProcessCmap: the identifiers of the candidates and the choice                            *)
(* ------------------------------------------------------------------------------------------ *)

Lemma collect_ids_gen decode : forall recs acc uv0 cands uv,
  collect decode recs acc uv0 = Ok (cands, uv) ->
  map cand_id cands = rev (map cand_id acc) ++ map rec_id (filter (fun r => is_candidate (snd r)) recs).
Proof.
  induction recs as [|((p, e), st) recs IH]; intros acc uv0 cands uv H; cbn [collect] in H.
  - injection H as <- _. cbn [filter map]. rewrite app_nil_r. rewrite map_rev. reflexivity.
  - destruct st; cbn [filter snd is_candidate map].
    + apply IH in H. rewrite H. cbn [map rev]. rewrite <- app_assoc. reflexivity.
    + apply IH in H. exact H.
    + destruct (new_cmap4 qs ga) as [s| | |]; cbn [bind] in H; try discriminate.
      apply IH in H. rewrite H. cbn [map rev]. rewrite <- app_assoc. reflexivity.
    + apply IH in H. rewrite H. cbn [map rev]. rewrite <- app_assoc. reflexivity.
    + apply IH in H. rewrite H. cbn [map rev]. rewrite <- app_assoc. reflexivity.
    + apply IH in H. rewrite H. cbn [map rev]. rewrite <- app_assoc. reflexivity.
    + apply IH in H. rewrite H. cbn [map rev]. rewrite <- app_assoc. reflexivity.
    + destruct ((p =? 0) && (e =? 5)); [|discriminate]. apply IH in H. exact H.
Qed.

Lemma collect_ids : forall decode recs cands uv, collect decode recs [] [] = Ok (cands, uv) ->
  map cand_id cands = map rec_id (filter (fun r => is_candidate (snd r)) recs).
Proof. intros decode recs cands uv H. apply collect_ids_gen in H. exact H. Qed.

Lemma find_subtable_some p e : forall c m, find_subtable p e c = Some m ->
  exists i, nth_error c i = Some (p, e, m) /\
            forall j c', (j < i)%nat -> nth_error c j = Some c' -> cand_id c' <> (p, e).
Proof.
  induction c as [|((p', e'), m') t IH]; intros m H; cbn [find_subtable] in H; [discriminate|].
  destruct ((p' =? p) && (e' =? e)) eqn:C.
  - injection H as <-. exists 0%nat. split.
    + cbn [nth_error]. do 2 f_equal. f_equal; lia.
    + intros j c' Hj. lia.
  - destruct (IH m H) as (i & Hi & Hf). exists (S i). split; [exact Hi|].
    intros j c' Hj Hn. destruct j as [|j].
    + cbn [nth_error] in Hn. injection Hn as <-. unfold cand_id. cbn [fst snd].
      intros E. injection E as E1 E2. lia.
    + cbn [nth_error] in Hn. apply (Hf j c'); [lia|exact Hn].
Qed.

Lemma find_subtable_none p e : forall c, find_subtable p e c = None -> ~ In (p, e) (map cand_id c).
Proof.
  induction c as [|((p', e'), m') t IH]; intros H; cbn [find_subtable] in H; [intros []|].
  destruct ((p' =? p) && (e' =? e)) eqn:C; [discriminate|].
  cbn [map In]. unfold cand_id at 1. cbn [fst snd]. intros [E|Hi].
  - injection E as E1 E2. lia.
  - exact (IH H Hi).
Qed.

Lemma find_subtable_iff_some p e c m : find_subtable p e c = Some m <->
  exists i, nth_error c i = Some (p, e, m) /\
            forall j c', (j < i)%nat -> nth_error c j = Some c' -> cand_id c' <> (p, e).
Proof.
  split; [apply find_subtable_some|].
  revert m. induction c as [|((p', e'), m') t IH]; intros m (i & Hi & Hf).
  - destruct i; discriminate Hi.
  - cbn [find_subtable]. destruct i as [|i].
    + cbn [nth_error] in Hi. injection Hi as -> -> ->. rewrite !Z.eqb_refl. reflexivity.
    + destruct ((p' =? p) && (e' =? e)) eqn:C.
      * exfalso. apply (Hf 0%nat (p', e', m')); [lia|reflexivity|]. unfold cand_id. cbn [fst snd]. f_equal; lia.
      * apply IH. exists i. split; [exact Hi|]. intros j c' Hj Hn. apply (Hf (S j) c'); [lia|exact Hn].
Qed.

Lemma find_subtable_iff_none p e c : find_subtable p e c = None <-> ~ In (p, e) (map cand_id c).
Proof.
  split; [apply find_subtable_none|].
  induction c as [|((p', e'), m') t IH]; intros H; cbn [find_subtable]; [reflexivity|].
  destruct ((p' =? p) && (e' =? e)) eqn:C.
  - exfalso. apply H. left. unfold cand_id. cbn [fst snd]. f_equal; lia.
  - apply IH. intros Hi. apply H. right. exact Hi.
Qed.

Lemma first_preferred_some : forall prefs c m, first_preferred prefs c = Some m ->
  exists (k : nat) p e (i : nat), nth_error prefs k = Some (p, e) /\ nth_error c i = Some (p, e, m) /\
    (forall j c', (j < i)%nat -> nth_error c j = Some c' -> cand_id c' <> (p, e)) /\
    (forall k' id, (k' < k)%nat -> nth_error prefs k' = Some id -> ~ In id (map cand_id c)).
Proof.
  induction prefs as [|(p, e) t IH]; intros c m H; cbn [first_preferred] in H; [discriminate|].
  destruct (find_subtable p e c) as [m0|] eqn:F.
  - injection H as <-. destruct (find_subtable_some p e c m0 F) as (i & Hi & Hf).
    exists 0%nat, p, e, i. split; [reflexivity|]. split; [exact Hi|]. split; [exact Hf|]. intros k' id Hk. lia.
  - destruct (IH c m H) as (k & p0 & e0 & i & Hk & Hi & Hf & Hp).
    exists (S k), p0, e0, i. split; [exact Hk|]. split; [exact Hi|]. split; [exact Hf|].
    intros k' id Hk' Hn. destruct k' as [|k'].
    + cbn [nth_error] in Hn. injection Hn as <-. apply find_subtable_none. exact F.
    + cbn [nth_error] in Hn. apply (Hp k' id); [lia|exact Hn].
Qed.

Lemma first_preferred_none : forall prefs c, first_preferred prefs c = None ->
  forall id, In id prefs -> ~ In id (map cand_id c).
Proof.
  induction prefs as [|(p, e) t IH]; intros c H id Hi; [destruct Hi|].
  cbn [first_preferred] in H. destruct (find_subtable p e c) as [m0|] eqn:F; [discriminate|].
  destruct Hi as [<-|Hi]; [apply find_subtable_none; exact F|apply IH; assumption].
Qed.

Lemma process_cmap_choice : forall decode recs fp cands uv,
  collect decode recs [] [] = Ok (cands, uv) ->
  (cands = [] /\ process_cmap decode recs fp = Err 3) \/
  (exists res, process_cmap decode recs fp = Ok (res, uv) /\ right_choice cands fp res).
Proof.
  intros decode recs fp cands uv H. unfold process_cmap. rewrite H. cbn [bind].
  destruct (find_subtable 3 0 cands) as [cm|] eqn:F.
  - right. eexists. split; [reflexivity|].
    destruct (find_subtable_some 3 0 cands cm F) as (i & Hi & Hf).
    exists i, (3, 0, cm). split; [exact Hi|]. left. exists 0%nat.
    split; [reflexivity|]. split; [exact Hf|]. split; [intros k' id Hk; lia|]. reflexivity.
  - destruct (first_preferred preference cands) as [cm|] eqn:P.
    + right. exists cm. split; [reflexivity|].
      destruct (first_preferred_some preference cands cm P) as (k & p & e & i & Hk & Hi & Hf & Hp).
      exists i, (p, e, cm). split; [exact Hi|]. left. exists (S k).
      split; [exact Hk|]. split; [exact Hf|]. split; [|reflexivity].
      intros k' id Hk' Hn. destruct k' as [|k'].
      * cbn in Hn. injection Hn as <-. apply find_subtable_none. exact F.
      * apply (Hp k' id); [lia|exact Hn].
    + destruct cands as [|((p, e), cm) t].
      * left. split; reflexivity.
      * right. exists cm. split; [reflexivity|]. exists 0%nat, (p, e, cm). split; [reflexivity|]. right.
        split; [|split; reflexivity]. intros id [<-|Hi].
        -- apply find_subtable_none. exact F.
        -- apply (first_preferred_none preference _ P). exact Hi.
Qed.

Lemma process_cmap_err : forall decode recs fp e, collect decode recs [] [] = Err e -> process_cmap decode recs fp = Err e.
Proof. intros decode recs fp e H. unfold process_cmap. rewrite H. reflexivity. Qed.

(* ------------------------------------------------------------------------------------------ *)
(* C. format 14: the three bisections answer what the linear searches of uvs_spec answer       *)
(* ------------------------------------------------------------------------------------------ *)

Definition se_def (e : Z * Z) : Z * Z := (fst e, fst e + snd e).
Definition se_key (e : Z * Z) : Z * Z := (fst e, fst e).
Definition se_sel (v : varsel) : Z * Z := (vs_sel v, vs_sel v).

Lemma def_sorted_from : forall l lo, def_sorted lo l = true -> sorted_from se_def lo l.
Proof.
  induction l as [|(s, c) t IH]; intros lo H; [exact I|].
  cbn [def_sorted] in H. apply andb_prop in H as [H H3]. apply andb_prop in H as [H1 H2].
  cbn [sorted_from se_def fst snd]. split; [lia|]. split; [lia|]. apply IH. exact H3.
Qed.

Lemma keys_sorted_from : forall l lo, keys_sorted lo l = true -> sorted_from se_key lo l.
Proof.
  induction l as [|(k, v) t IH]; intros lo H; [exact I|].
  cbn [keys_sorted] in H. apply andb_prop in H as [H1 H2].
  cbn [sorted_from se_key fst snd]. split; [lia|]. split; [lia|]. apply IH. exact H2.
Qed.

Lemma sels_sorted_from : forall t lo, sels_sorted lo t = true -> sorted_from se_sel lo t.
Proof.
  induction t as [|v t IH]; intros lo H; [exact I|].
  cbn [sels_sorted] in H. apply andb_prop in H as [H1 H2].
  cbn [sorted_from se_sel fst snd]. split; [lia|]. split; [lia|]. apply IH. exact H2.
Qed.

Definition lift_def (b : res (option Z)) : res bool :=
  match b with
  | Ok (Some _) => Ok true | Ok None => Ok false
  | Err n => Err n | Panic n => Panic n | OutOfFuel => OutOfFuel
  end.

Lemma def_loop_bs l r : forall fuel i j, def_loop fuel l r i j = lift_def (bs se_def (0, 0) fuel l r i j).
Proof.
  induction fuel as [|f IH]; intros i j; cbn [def_loop bs].
  - destruct (i <? j); reflexivity.
  - destruct (i <? j); [|reflexivity].
    cbn [se_def fst snd].
    destruct (r <? fst (znth (0, 0) l (i + (j - i) / 2))); [apply IH|].
    destruct (fst (znth (0, 0) l (i + (j - i) / 2)) + snd (znth (0, 0) l (i + (j - i) / 2)) <? r); [apply IH|].
    reflexivity.
Qed.

Lemma def_loop_spec : forall l r lo, def_sorted lo l = true ->
  def_loop (S (length l)) l r 0 (zlen l) = Ok (existsb (in_def r) l).
Proof.
  intros l r lo H. apply def_sorted_from in H. rewrite def_loop_bs.
  destruct (bs_top se_def (0, 0) lo l r H) as [(h & Hb & Hi & Hc)|(Hb & Hn)]; rewrite Hb; cbn [lift_def]; f_equal; symmetry.
  - apply existsb_exists. exists (znth (0, 0) l h). split; [exact Hi|].
    unfold contains, se_def in Hc. cbn [fst snd] in Hc. unfold in_def. lia.
  - destruct (existsb (in_def r) l) eqn:E; [|reflexivity].
    apply existsb_exists in E. destruct E as (e & He & Hd). exfalso. apply (Hn e He).
    unfold contains, se_def. cbn [fst snd]. unfold in_def in Hd. lia.
Qed.

Definition lift_nondef (l : list (Z * Z)) (b : res (option Z)) : res (option Z) :=
  match b with
  | Ok (Some h) => Ok (Some (snd (znth (0, 0) l h))) | Ok None => Ok None
  | Err n => Err n | Panic n => Panic n | OutOfFuel => OutOfFuel
  end.

Lemma nondef_loop_bs l r : forall fuel i j, nondef_loop fuel l r i j = lift_nondef l (bs se_key (0, 0) fuel l r i j).
Proof.
  induction fuel as [|f IH]; intros i j; cbn [nondef_loop bs].
  - destruct (i <? j); reflexivity.
  - destruct (i <? j); [|reflexivity].
    cbn [se_key fst snd].
    destruct (r <? fst (znth (0, 0) l (i + (j - i) / 2))); [apply IH|].
    destruct (fst (znth (0, 0) l (i + (j - i) / 2)) <? r); [apply IH|].
    reflexivity.
Qed.

Lemma nondef_loop_spec : forall l r lo, keys_sorted lo l = true ->
  nondef_loop (S (length l)) l r 0 (zlen l) = Ok (option_map snd (find (fun e => fst e =? r) l)).
Proof.
  intros l r lo H. apply keys_sorted_from in H. rewrite nondef_loop_bs.
  destruct (bs_top se_key (0, 0) lo l r H) as [(h & Hb & Hi & Hc)|(Hb & Hn)]; rewrite Hb; cbn [lift_nondef]; f_equal.
  - destruct (find (fun e => fst e =? r) l) as [e'|] eqn:F; cbn [option_map].
    + apply find_some in F. destruct F as (He' & Hk).
      assert (Hc' : contains se_key e' r) by (unfold contains, se_key; cbn [fst snd]; lia).
      rewrite (sorted_unique se_key l lo r e' _ H He' Hi Hc' Hc). reflexivity.
    + exfalso. pose proof (find_none _ _ F _ Hi) as Hk. cbn beta in Hk.
      unfold contains, se_key in Hc. cbn [fst snd] in Hc. lia.
  - destruct (find (fun e => fst e =? r) l) as [e'|] eqn:F; cbn [option_map]; [|reflexivity].
    exfalso. apply find_some in F. destruct F as (He' & Hk). apply (Hn e' He').
    unfold contains, se_key. cbn [fst snd]. lia.
Qed.

Definition glyph_spec (v : varsel) (r : Z) : Z * Z :=
  if existsb (in_def r) (vs_def v) then (0, VariantUseDefault)
  else match find (fun e => fst e =? r) (vs_nondef v) with
       | Some e => (snd e, VariantFound)
       | None => (0, VariantNotFound)
       end.

Lemma get_glyph_spec : forall v r, wf_varsel v = true -> get_glyph v r = Ok (glyph_spec v r).
Proof.
  intros v r H. unfold wf_varsel in H. apply andb_prop in H as [H1 H2].
  unfold get_glyph, glyph_spec. rewrite (def_loop_spec _ r 0 H1). cbn [bind].
  destruct (existsb (in_def r) (vs_def v)); [reflexivity|].
  rewrite (nondef_loop_spec _ r 0 H2). cbn [bind].
  destruct (find (fun e => fst e =? r) (vs_nondef v)); reflexivity.
Qed.

Definition lift_variant (t : list varsel) (r : Z) (b : res (option Z)) : res (Z * Z) :=
  match b with
  | Ok (Some h) => get_glyph (znth dvarsel t h) r | Ok None => Ok (0, VariantNotFound)
  | Err n => Err n | Panic n => Panic n | OutOfFuel => OutOfFuel
  end.

Lemma variant_loop_bs t r sel : forall fuel i j,
  variant_loop fuel t r sel i j = lift_variant t r (bs se_sel dvarsel fuel t sel i j).
Proof.
  induction fuel as [|f IH]; intros i j; cbn [variant_loop bs].
  - destruct (i <? j); reflexivity.
  - destruct (i <? j); [|reflexivity].
    cbn [se_sel fst snd].
    destruct (sel <? vs_sel (znth dvarsel t (i + (j - i) / 2))); [apply IH|].
    destruct (vs_sel (znth dvarsel t (i + (j - i) / 2)) <? sel); [apply IH|].
    reflexivity.
Qed.

Lemma uvs_lookup_spec : forall t r sel, wf_uvs t = true -> get_glyph_variant t r sel = Ok (uvs_spec t r sel).
Proof.
  intros t r sel H. unfold wf_uvs in H. apply andb_prop in H as [H1 H2].
  apply sels_sorted_from in H1. rewrite forallb_forall in H2.
  unfold get_glyph_variant, uvs_spec. rewrite variant_loop_bs. fold (glyph_spec).
  destruct (bs_top se_sel dvarsel 0 t sel H1) as [(h & Hb & Hi & Hc)|(Hb & Hn)]; rewrite Hb; cbn [lift_variant].
  - destruct (find (fun v => vs_sel v =? sel) t) as [v'|] eqn:F.
    + apply find_some in F. destruct F as (Hv' & Hk).
      assert (Hc' : contains se_sel v' sel) by (unfold contains, se_sel; cbn [fst snd]; lia).
      rewrite <- (sorted_unique se_sel t 0 sel v' _ H1 Hv' Hi Hc' Hc).
      rewrite (get_glyph_spec v' r (H2 v' Hv')). reflexivity.
    + exfalso. pose proof (find_none _ _ F _ Hi) as Hk. cbn beta in Hk.
      unfold contains, se_sel in Hc. cbn [fst snd] in Hc. lia.
  - destruct (find (fun v => vs_sel v =? sel) t) as [v'|] eqn:F; [|reflexivity].
    exfalso. apply find_some in F. destruct F as (Hv' & Hk). apply (Hn v' Hv').
    unfold contains, se_sel. cbn [fst snd]. lia.
Qed.

(* ------------------------------------------------------------------------------------------ *)
(* D. the chosen cmap enumerates what it looks up                                              *)
(* ------------------------------------------------------------------------------------------ *)

(* ---- D.0 the remaper iterator when the lookups are only known to succeed on the non-negative runes (the remaper
   iterators only call the lookups on non-negative runes, so totality on those is enough) ---- *)
Definition total_nn (f : Z -> res (Z * bool)) : Prop := forall r, rune_nn r -> exists v, f r = Ok v.

Lemma total_lookup_nn f : total_lookup f -> total_nn f.
Proof. intros H r _. apply H. Qed.

Section RemapNN.
Variables (wrapped remaper : Z -> res (Z * bool)) (inner : list (Z * Z)) (last : Z).
Hypothesis Htw : total_nn wrapped.
Hypothesis Htr : total_nn remaper.
Hypothesis Hin : iter_agrees_nn inner wrapped.
Hypothesis Hext : forall r g, wrapped r = Ok (g, true) -> remaper r = Ok (g, true).
Hypothesis Hdom : forall r g, rune_nn r -> remaper r = Ok (g, true) ->
  (exists g', wrapped r = Ok (g', true)) \/ 0 <= r <= last.
Hypothesis Hlast : 0 <= last < 2147483648.

Lemma remap_extra_spec_nn : forall rs, (forall r, In r rs -> rune_nn r) -> exists x,
  remap_extra wrapped remaper rs = Ok x /\
  (forall r g, In (r, g) x <->
     In r rs /\ (exists g', wrapped r = Ok (g', false)) /\ remaper r = Ok (g, true)) /\
  (NoDup rs -> NoDup (map fst x)).
Proof.
  induction rs as [|r0 t IH]; intros Hrs; cbn [remap_extra].
  - exists []. split; [reflexivity|]. split; [|intros; constructor].
    intros r g; cbn [In]; tauto.
  - destruct IH as (x & Ex & Hx & Hnd); [intros r Hr; apply Hrs; right; exact Hr|].
    assert (Hnn0 : rune_nn r0) by (apply Hrs; left; reflexivity).
    assert (Hfst : forall r, In r (map fst x) -> In r t).
    { intros r Hr. apply in_map_iff in Hr as ([r' g'] & E & Hi). cbn [fst] in E; subst r'.
      apply Hx in Hi. tauto. }
    destruct (Htw r0 Hnn0) as [[g0 b0] E0]. rewrite E0. cbn [bind snd].
    destruct b0.
    + exists x. split; [exact Ex|]. split.
      * intros r g. rewrite Hx. cbn [In]. split.
        -- tauto.
        -- intros [[->|Hi] [[g' Hw] Hr]]; [congruence|]. split; [assumption|]. split; [exists g'|]; assumption.
      * intros Hn. inversion Hn; subst. auto.
    + destruct (Htr r0 Hnn0) as [[g1 b1] E1]. rewrite E1, Ex. cbn [bind snd fst].
      destruct b1.
      * exists ((r0, g1) :: x). split; [reflexivity|]. split.
        -- intros r g. cbn [In]. rewrite Hx. split.
           ++ intros [E|H].
              ** inversion E; subst. split; [left; reflexivity|]. split; [exists g0|]; assumption.
              ** tauto.
           ++ intros [[->|Hi] [[g' Hw] Hr]].
              ** left. congruence.
              ** right. split; [assumption|]. split; [exists g'|]; assumption.
        -- intros Hn. inversion Hn; subst. cbn [map fst]. constructor; auto.
      * exists x. split; [reflexivity|]. split.
        -- intros r g. rewrite Hx. cbn [In]. split.
           ++ tauto.
           ++ intros [[->|Hi] [[g' Hw] Hr]]; [congruence|]. split; [assumption|]. split; [exists g'|]; assumption.
        -- intros Hn. inversion Hn; subst. auto.
Qed.

Lemma remap_iter_agrees_nn : exists l,
  remap_iter inner wrapped remaper last = Ok l /\ iter_agrees_nn l remaper.
Proof.
  unfold remap_iter.
  destruct (remap_extra_spec_nn (zrange 0 (Z.to_nat (last + 1)))) as (x & Ex & Hx & Hnd).
  { intros r Hr. apply Proofs.CmapSan.In_zrange in Hr. unfold rune_nn. lia. }
  rewrite Ex. cbn [bind]. exists (inner ++ x). split; [reflexivity|].
  destruct Hin as (Hin1 & Hin2 & Hin3).
  assert (Hxr : forall r g, In (r, g) x -> 0 <= r <= last).
  { intros r g Hi. apply Hx in Hi as [Hi _]. apply Proofs.CmapSan.In_zrange in Hi. lia. }
  split; [|split].
  - rewrite map_app. apply NoDup_app_iff_local.
    + exact Hin1.
    + apply Hnd, Proofs.CmapSan.NoDup_zrange.
    + intros r H1 H2.
      apply in_map_iff in H1 as ([r1 g1] & E1 & I1). cbn [fst] in E1; subst r1.
      apply in_map_iff in H2 as ([r2 g2] & E2 & I2). cbn [fst] in E2; subst r2.
      pose proof (Hin2 _ _ I1) as Hnn.
      apply (Hin3 _ _ Hnn) in I1.
      apply Hx in I2 as (_ & [g' Hw] & _). congruence.
  - intros r g Hi. apply in_app_or in Hi as [Hi|Hi].
    + exact (Hin2 _ _ Hi).
    + apply Hxr in Hi. unfold rune_nn. lia.
  - intros r g Hnn. rewrite in_app_iff. split.
    + intros [Hi|Hi].
      * apply Hext. apply Hin3; assumption.
      * apply Hx in Hi. tauto.
    + intros Hr. destruct (Htw r Hnn) as [[g' b] Ew]. destruct b.
      * left. pose proof (Hext _ _ Ew) as Hr'. assert (g' = g) by congruence. subst g'.
        apply Hin3; assumption.
      * right. apply Hx. split; [|split; [exists g'; exact Ew | exact Hr]].
        apply Proofs.CmapSan.In_zrange.
        destruct (Hdom _ _ Hnn Hr) as [[g'' Hw]|Hb]; [congruence|]. lia.
Qed.
End RemapNN.

Lemma remap_symbol_total_nn : forall il, total_nn il -> total_nn (remap_symbol il).
Proof.
  intros il Ht r Hnn. unfold remap_symbol.
  assert (Hf : exists n, Z.to_nat (Z.max 0 ((255 - r) / 61440) + 2) = S (S n)).
  { exists (Z.to_nat (Z.max 0 ((255 - r) / 61440))). generalize ((255 - r) / 61440). intros q. lia. }
  destruct Hf as (n & ->). cbn [remap_symbol_fuel].
  destruct (Ht r Hnn) as [[g b] E]. rewrite E. cbn [bind snd].
  destruct b; [eexists; reflexivity|].
  destruct (Z.leb_spec r 255) as [Hle|Hgt]; [|eexists; reflexivity].
  assert (Hnn' : rune_nn (61440 + r)) by (unfold rune_nn in *; lia).
  destruct (Ht _ Hnn') as [[g' b'] E'].
  assert (Hgo : forall k, exists v, remap_symbol_fuel k il (61440 + r) = Ok v).
  { intros k. destruct k; cbn [remap_symbol_fuel]; rewrite E'; cbn [bind snd];
      (destruct b'; [eexists; reflexivity|]);
      (destruct (Z.leb_spec (61440 + r) 255); [unfold rune_nn in Hnn; lia|eexists; reflexivity]). }
  exact (Hgo (S n)).
Qed.

Lemma remap_symbol_iter_agrees_nn : forall il inner,
  total_nn il -> iter_agrees_nn inner il ->
  exists l, remap_iter inner il (remap_symbol il) 255 = Ok l /\ iter_agrees_nn l (remap_symbol il).
Proof.
  intros il inner Ht Hin. apply remap_iter_agrees_nn; try assumption.
  - apply remap_symbol_total_nn. exact Ht.
  - intros r g E. unfold remap_symbol. apply remap_symbol_fuel_hit. exact E.
  - intros r g Hnn H. unfold remap_symbol in H. apply remap_symbol_fuel_dom in H.
    unfold rune_nn in Hnn. destruct H as [H|H]; [left; exact H|right; lia].
  - lia.
Qed.

Lemma remap_pua_iter_agrees_nn : forall pua il inner last,
  total_nn il -> iter_agrees_nn inner il ->
  0 <= last < 2147483648 ->
  (forall r, pua r <> 0 -> 0 <= r <= last /\ 0 < pua r < 2147483648 /\ pua (pua r) = 0) ->
  exists l, remap_iter inner il (remap_pua_fuel 2 pua il) last = Ok l /\
            iter_agrees_nn l (remap_pua_fuel 2 pua il).
Proof.
  intros pua il inner last Ht Hin Hlast Hpua.
  apply remap_iter_agrees_nn; try assumption.
  - intros r Hnn. cbn [remap_pua_fuel].
    destruct (Ht r Hnn) as [[g b] E]. rewrite E. cbn [bind snd].
    destruct b; [eexists; reflexivity|].
    destruct (Z.eqb_spec (pua r) 0) as [C|C]; [eexists; reflexivity|].
    destruct (Hpua r C) as (_ & Hp & Hz).
    assert (Hnn' : rune_nn (pua r)) by (unfold rune_nn; lia).
    destruct (Ht _ Hnn') as [[g1 b1] E1]. rewrite E1. cbn [bind snd].
    destruct b1; [eexists; reflexivity|].
    rewrite Hz. cbn. eexists; reflexivity.
  - intros r g E. cbn [remap_pua_fuel]. rewrite E. reflexivity.
  - intros r g Hnn H. cbn [remap_pua_fuel] in H.
    destruct (Ht r Hnn) as [[g0 b] E]. rewrite E in H. cbn [bind snd] in H.
    destruct b; [left; exists g0; exact E|].
    destruct (Z.eqb_spec (pua r) 0) as [C|C]; [discriminate|].
    right. apply (Hpua r). exact C.
Qed.

(* ---- D.iii the legacy arabic tables ---- *)
Lemma keys_sorted_lb : forall l lo, keys_sorted lo l = true -> forall k v, In (k, v) l -> lo <= k.
Proof.
  induction l as [|(k0, v0) t IH]; intros lo H k v Hi; [destruct Hi|].
  cbn [keys_sorted] in H. apply andb_prop in H as [H1 H2].
  destruct Hi as [E|Hi]; [injection E as <- _; lia|]. specialize (IH _ H2 _ _ Hi). lia.
Qed.

Lemma pua_table_cond : forall tab, pua_table_ok tab = true ->
  forall r, pua_of tab r <> 0 ->
    0 <= r <= arabicPUALastRune /\ 0 < pua_of tab r < 2147483648 /\ pua_of tab (pua_of tab r) = 0.
Proof.
  intros tab H r Hr. unfold pua_table_ok in H. apply andb_prop in H as [H1 H2].
  rewrite forallb_forall in H2. unfold pua_of in Hr |- *.
  destruct (lookup0_raw tab r) as [m|] eqn:E; [|congruence].
  apply lookup0_raw_In in E. pose proof (keys_sorted_lb _ _ H1 _ _ E) as Hlb.
  specialize (H2 _ E). cbn [fst snd] in H2.
  apply andb_prop in H2 as [H2 H5]. apply andb_prop in H2 as [H2 H4]. apply andb_prop in H2 as [H2 H3].
  destruct (lookup0_raw tab m); [discriminate|]. lia.
Qed.

(* ---- D.ii the base candidates ---- *)
Definition keys_nn (m : cmap0) : Prop := forall k, In k (map fst m) -> rune_nn k.

Definition wf_base (m : mcmap) : Prop :=
  match m with
  | M0 c => ssorted c /\ keys_nn c
  | M4 s => wf_cmap4 s = true
  | M6 c => wf_cmap6 c = true \/ c6_entries c = []
  | M12 g => wf_cmap12 g = true
  | M13 g => wf_cmap13 g = true
  | MSym _ | MSimp _ | MTrad _ => False
  end.

Lemma iter_agrees_to_nn : forall l f, iter_agrees l f -> (forall r g, In (r, g) l -> rune_nn r) -> iter_agrees_nn l f.
Proof.
  intros l f (N & A) Hnn. split; [exact N|]. split; [exact Hnn|].
  intros r g Hr. apply A. unfold rune_nn in Hr. unfold int32_ok. lia.
Qed.

Lemma lookup6_empty : forall c r g, c6_entries c = [] -> lookup6 c r <> Ok (g, true).
Proof.
  intros c r g He. unfold lookup6. rewrite He. change (zlen (@nil Z)) with 0.
  destruct (r <? c6_first c); [discriminate|]. cbv zeta.
  destruct (Z.ltb_spec (r - c6_first c) 0); [discriminate|].
  destruct (Z.leb_spec 0 (r - c6_first c)); [discriminate|lia].
Qed.

Lemma lookup6_total : forall c, total_lookup (lookup6 c).
Proof.
  intros c r. unfold lookup6. destruct (r <? c6_first c); [eexists; reflexivity|]. cbv zeta.
  destruct ((r - c6_first c <? 0) || (zlen (c6_entries c) <=? r - c6_first c)); eexists; reflexivity.
Qed.

Lemma base_iter_agrees simp trad : forall m, wf_base m ->
  exists l, miter simp trad m = Ok l /\ iter_agrees_nn l (mlookup simp trad m).
Proof.
  intros m H. destruct m as [c|s|c|g|g|c|c|c]; cbn [wf_base] in H; try contradiction; cbn [miter mlookup].
  - destruct H as (Hs & Hk). exists (iter0 c). split; [reflexivity|].
    apply iter_agrees_to_nn; [apply ssorted_iter_agrees; exact Hs|].
    intros r g Hi. apply Hk. unfold iter0 in Hi. apply in_map_iff. exists (r, g). split; [reflexivity|exact Hi].
  - destruct (wf_cmap4_sorted _ _ H) as (Hs & Hwf).
    destruct (iter4_eq_lookup4 s H) as (l & El & Ha). exists l. split; [exact El|].
    apply iter_agrees_to_nn; [exact Ha|].
    rewrite (iter4_wf s Hwf) in El. injection El as <-.
    intros r g Hi. apply in_flat_map in Hi. destruct Hi as (e & He & Hi).
    apply (proj2 (seg4p_ok e (Hwf e He))) in Hi. destruct Hi as (Hc & _).
    pose proof (wf_seg4_prop _ (Hwf e He)) as (P1 & P2 & P3 & _).
    unfold contains, se4 in Hc. cbn [fst snd] in Hc. unfold rune_nn. lia.
  - destruct H as [H|He].
    + exists (iter6 c). split; [reflexivity|].
      apply iter_agrees_to_nn; [apply iter6_eq_lookup6; exact H|].
      pose proof (wf_cmap6_prop _ H) as (P1 & P2).
      intros r g Hi. unfold iter6 in Hi. apply in_map_iff in Hi. destruct Hi as (p & E & Hp).
      apply Proofs.CmapSan.In_zrange in Hp. fold (zlen (c6_entries c)) in Hp.
      injection E as <- _. rewrite sint32_small by lia. unfold rune_nn. lia.
    + exists []. split; [unfold iter6; rewrite He; reflexivity|].
      split; [constructor|]. split; [intros r g []|].
      intros r g _. split; [intros []|]. intros E. exfalso. exact (lookup6_empty c r g He E).
  - destruct (wf_cmap12_sorted _ _ _ H) as (Hs & Hwf).
    exists (iter12 g). split; [reflexivity|].
    apply iter_agrees_to_nn; [apply iter12_eq_lookup12; exact H|].
    intros r g0 Hi. unfold iter12 in Hi. apply in_flat_map in Hi. destruct Hi as (e & He & Hi).
    apply (proj2 (iter12_seg_ok false e (Hwf e He))) in Hi. destruct Hi as (Hc & _).
    pose proof (wf_grp_prop _ _ (Hwf e He)) as (P1 & P2 & P3 & _).
    unfold contains, se12 in Hc. cbn [fst snd] in Hc. unfold rune_nn. lia.
  - destruct (wf_cmap12_sorted _ _ _ H) as (Hs & Hwf).
    exists (iter13 g). split; [reflexivity|].
    apply iter_agrees_to_nn; [apply iter13_eq_lookup13; exact H|].
    intros r g0 Hi. unfold iter13 in Hi. apply in_flat_map in Hi. destruct Hi as (e & He & Hi).
    apply (proj2 (iter12_seg_ok true e (Hwf e He))) in Hi. destruct Hi as (Hc & _).
    pose proof (wf_grp_prop _ _ (Hwf e He)) as (P1 & P2 & P3 & _).
    unfold contains, se12 in Hc. cbn [fst snd] in Hc. unfold rune_nn. lia.
Qed.

Lemma lookup_char_ok {A : Type} (se : A -> Z * Z) gl mp (f : Z -> res (Z * bool)) (l : list A) r :
  lookup_char se gl mp f l -> int32_ok r -> exists v, f r = Ok v.
Proof.
  intros H Hr. destruct (H r Hr) as [(e & _ & _ & E)|(_ & E)]; rewrite E.
  - destruct (mp e r); eexists; reflexivity.
  - eexists; reflexivity.
Qed.

Lemma base_total_nn simp trad : forall m, wf_base m -> total_nn (mlookup simp trad m).
Proof.
  intros m H r Hnn. assert (Hr : int32_ok r) by (unfold rune_nn in Hnn; unfold int32_ok; lia).
  destruct m as [c|s|c|g|g|c|c|c]; cbn [wf_base] in H; try contradiction; cbn [mlookup].
  - unfold lookup0. destruct (lookup0_raw c r); eexists; reflexivity.
  - exact (lookup_char_ok _ _ _ _ _ r (lookup4_char s H) Hr).
  - apply lookup6_total.
  - exact (lookup_char_ok _ _ _ _ _ r (lookup12_char false g H) Hr).
  - exact (lookup_char_ok _ _ _ _ _ r (lookup12_char true g H) Hr).
Qed.

(* ---- D.iii wrapping ---- *)
Lemma wrap_page_iter_agrees simp trad : pua_table_ok simp = true -> pua_table_ok trad = true ->
  forall fp m, wf_base m ->
  exists l, miter simp trad (wrap_page fp m) = Ok l /\ iter_agrees_nn l (mlookup simp trad (wrap_page fp m)).
Proof.
  intros Hsimp Htrad fp m H.
  destruct (base_iter_agrees simp trad m H) as (l & El & Ha).
  pose proof (base_total_nn simp trad m H) as Ht.
  unfold wrap_page.
  destruct (fp =? FPNone); [|destruct (fp =? FPSimpArabic); [|destruct (fp =? FPTradArabic)]].
  - cbn [miter]. rewrite El. cbn [bind]. cbn [mlookup]. apply remap_symbol_iter_agrees_nn; assumption.
  - cbn [miter]. rewrite El. cbn [bind]. cbn [mlookup].
    apply remap_pua_iter_agrees_nn; try assumption; [unfold arabicPUALastRune; lia|apply pua_table_cond; exact Hsimp].
  - cbn [miter]. rewrite El. cbn [bind]. cbn [mlookup].
    apply remap_pua_iter_agrees_nn; try assumption; [unfold arabicPUALastRune; lia|apply pua_table_cond; exact Htrad].
  - exists l. split; assumption.
Qed.

(* ---- D.i every candidate collected from typed records is well-formed ---- *)
Lemma fold0_keys decode : forall l m k, In k (map fst (fold_left (step0 decode) l m)) ->
  In k (map fst m) \/ exists b, k = znth 0 decode b.
Proof.
  induction l as [|bg l IH]; intros m k H; cbn [fold_left] in H; [left; exact H|].
  apply IH in H. destruct H as [H|H]; [|right; exact H].
  unfold step0 in H. destruct (fst bg =? 0); [left; exact H|].
  apply m0_insert_keys in H. destruct H as [->|H]; [right; eexists; reflexivity|left; exact H].
Qed.

Lemma decode_ok_nn : forall decode b, decode_ok decode = true -> rune_nn (znth 0 decode b).
Proof.
  intros decode b H. unfold decode_ok in H. apply andb_prop in H as [_ H]. rewrite forallb_forall in H.
  unfold znth. destruct (b <? 0); [unfold rune_nn; lia|].
  destruct (nth_in_or_default (Z.to_nat b) decode 0) as [Hi| ->]; [|unfold rune_nn; lia].
  specialize (H _ Hi). unfold rune_nn. lia.
Qed.

Lemma new_cmap0_wf : forall decode ga, decode_ok decode = true -> wf_base (M0 (new_cmap0 decode ga)).
Proof.
  intros decode ga H. cbn [wf_base]. split; [apply new_cmap0_sorted|].
  intros k Hk. unfold new_cmap0 in Hk. apply (fold0_keys decode) in Hk.
  destruct Hk as [[]|(b & ->)]. apply decode_ok_nn. exact H.
Qed.

Lemma forallb_Forall_local {A} (f : A -> bool) (P : A -> Prop) (l : list A) :
  (forall x, f x = true -> P x) -> forallb f l = true -> Forall P l.
Proof.
  intros Hf H. rewrite forallb_forall in H. apply Forall_forall. intros x Hx. apply Hf. apply H. exact Hx.
Qed.

Lemma s4_wf : forall qs ga s, forallb u16quad qs = true -> forallb byteb ga = true ->
  new_cmap4 qs ga = Ok s -> wf_base (M4 (sanitize4 s)).
Proof.
  intros qs ga s Hq Hg E. cbn [wf_base]. apply sanitize4_wf.
  apply (new_cmap4_typed qs ga s); [| |exact E].
  - apply (forallb_Forall_local u16quad); [|exact Hq]. intros (((e, st), d), iro) Hx. exact Hx.
  - apply (forallb_Forall_local byteb); [|exact Hg]. intros x Hx. unfold byteb in Hx. lia.
Qed.

Lemma s6_wf : forall f en, u16b f = true -> zlen en <= 65535 -> wf_cmap6 (new_cmap6 f en) = true.
Proof.
  intros f en Hf Hl. unfold wf_cmap6, new_cmap6. cbn [c6_first c6_entries]. unfold u16b in Hf. lia.
Qed.

Lemma zlen_zfirstn_le {A} n (l : list A) : 0 <= n -> zlen (zfirstn n l) <= n.
Proof.
  intros Hn. unfold zlen, zfirstn. rewrite firstn_length. lia.
Qed.

Lemma s10_wf : forall f en, 0 <= f < 2147483648 -> wf_cmap6 (new_cmap10 f en) = true.
Proof.
  intros f en Hf. unfold wf_cmap6, new_cmap10, max_rune. cbn [c6_first c6_entries].
  rewrite sint32_small by lia.
  destruct (Z.ltb_spec 1114111 f) as [Hgt|Hle].
  - change (zlen (@nil Z)) with 0. lia.
  - pose proof (zlen_zfirstn_le (1114111 - f + 1) en ltac:(lia)). lia.
Qed.

Lemma s10_wf_base : forall f en, u32b f = true -> wf_base (M6 (new_cmap10 f en)).
Proof.
  intros f en Hf. cbn [wf_base]. unfold u32b in Hf.
  destruct (Z.ltb_spec f 2147483648) as [Hlt|Hge].
  - left. apply s10_wf. lia.
  - right. unfold new_cmap10, max_rune. cbn [c6_entries]. destruct (Z.ltb_spec 1114111 f); [reflexivity|lia].
Qed.

Lemma collect_wf decode : decode_ok decode = true -> forall recs acc uv0 cands uv,
  Forall (fun r => typed_sub (snd r)) recs -> Forall (fun c => wf_base (snd c)) acc ->
  collect decode recs acc uv0 = Ok (cands, uv) -> Forall (fun c => wf_base (snd c)) cands.
Proof.
  intros Hd. induction recs as [|((p, e), st) recs IH]; intros acc uv0 cands uv Hty Hacc H; cbn [collect] in H.
  - injection H as <- _. apply Forall_rev. exact Hacc.
  - inversion Hty as [|? ? Hst Hty']; subst. cbn [snd] in Hst.
    destruct st; cbn [typed_sub] in Hst.
    + apply (IH _ _ _ _ Hty') in H; [exact H|]. constructor; [|exact Hacc]. cbn [snd]. apply new_cmap0_wf. exact Hd.
    + apply (IH _ _ _ _ Hty') in H; [exact H|exact Hacc].
    + destruct (new_cmap4 qs ga) as [s| | |] eqn:E; cbn [bind] in H; try discriminate.
      apply (IH _ _ _ _ Hty') in H; [exact H|]. constructor; [|exact Hacc]. cbn [snd].
      destruct Hst as (Hq & Hg). apply (s4_wf qs ga s Hq Hg E).
    + apply (IH _ _ _ _ Hty') in H; [exact H|]. constructor; [|exact Hacc]. cbn [snd wf_base].
      destruct Hst as (Hf & Hl & _). left. apply s6_wf; assumption.
    + apply (IH _ _ _ _ Hty') in H; [exact H|]. constructor; [|exact Hacc]. cbn [snd].
      destruct Hst as (Hf & _). apply s10_wf_base. exact Hf.
    + apply (IH _ _ _ _ Hty') in H; [exact H|]. constructor; [|exact Hacc]. cbn [snd wf_base].
      exact (proj1 (sanitize12_wf false g Hst)).
    + apply (IH _ _ _ _ Hty') in H; [exact H|]. constructor; [|exact Hacc]. cbn [snd wf_base].
      exact (proj1 (sanitize12_wf true g Hst)).
    + destruct ((p =? 0) && (e =? 5)); [|discriminate]. apply (IH _ _ _ _ Hty') in H; [exact H|exact Hacc].
Qed.

(* ---- D.iv what ProcessCmap returns: a candidate, possibly wrapped ---- *)
Lemma process_cmap_result : forall decode recs fp cm uv, process_cmap decode recs fp = Ok (cm, uv) ->
  exists cands c, collect decode recs [] [] = Ok (cands, uv) /\ In c cands /\
                  (cm = snd c \/ cm = wrap_page fp (snd c)).
Proof.
  intros decode recs fp cm uv H.
  destruct (collect decode recs [] []) as [(cands, uv')| | |] eqn:E;
    try (unfold process_cmap in H; rewrite E in H; discriminate H).
  destruct (process_cmap_choice decode recs fp cands uv' E) as [(_ & Hp)|(res & Hp & Hc)]; [congruence|].
  rewrite Hp in H. injection H as -> ->.
  exists cands. destruct Hc as (i & c & Hn & Hc). exists c. split; [reflexivity|].
  split; [apply (nth_error_In _ _ Hn)|].
  destruct Hc as [(k & _ & _ & _ & ->)|(_ & _ & ->)]; [|left; reflexivity].
  destruct (Nat.eqb k 0); [right|left]; reflexivity.
Qed.

(* the candidate ProcessCmap picks (before wrapping) always enumerates what it looks up *)
Lemma process_cmap_base_iter_agrees : forall simp trad decode recs fp cm uv,
  decode_ok decode = true -> Forall (fun r => typed_sub (snd r)) recs ->
  process_cmap decode recs fp = Ok (cm, uv) ->
  exists m, (cm = m \/ cm = wrap_page fp m) /\ wf_base m /\
            exists l, miter simp trad m = Ok l /\ iter_agrees_nn l (mlookup simp trad m).
Proof.
  intros simp trad decode recs fp cm uv Hd Hty H.
  destruct (process_cmap_result _ _ _ _ _ H) as (cands & c & E & Hi & Hc).
  pose proof (collect_wf decode Hd recs [] [] cands uv Hty (Forall_nil _) E) as Hwf.
  rewrite Forall_forall in Hwf. specialize (Hwf c Hi).
  exists (snd c). split; [exact Hc|]. split; [exact Hwf|]. apply base_iter_agrees. exact Hwf.
Qed.

(* The main theorem: the cmap ProcessCmap returns enumerates exactly the non-negative runes it looks up *)
Lemma process_cmap_iter_agrees : forall simp trad decode recs fp cm uv,
  pua_table_ok simp = true -> pua_table_ok trad = true -> decode_ok decode = true ->
  Forall (fun r => typed_sub (snd r)) recs ->
  process_cmap decode recs fp = Ok (cm, uv) ->
  exists l, miter simp trad cm = Ok l /\ iter_agrees_nn l (mlookup simp trad cm).
Proof.
  intros simp trad decode recs fp cm uv Hsimp Htrad Hd Hty H.
  destruct (process_cmap_result _ _ _ _ _ H) as (cands & c & E & Hi & Hc).
  pose proof (collect_wf decode Hd recs [] [] cands uv Hty (Forall_nil _) E) as Hwf.
  rewrite Forall_forall in Hwf. specialize (Hwf c Hi).
  destruct Hc as [->| ->].
  - apply base_iter_agrees. exact Hwf.
  - apply wrap_page_iter_agrees; assumption.
Qed.
