(* The first (decompose) round of otShapeNormalize keeps `bkeeps`: no cluster value is invented and the smallest cluster value
   of the glyph sequence is kept.  "Decompose: the output clusters are the input clusters with multiplicity changed." *)
From TV Require Import Model.Buffer Spec.Buffer Proofs.ShapeGlue Proofs.Buffer Proofs.BufferOps Proofs.BufferNewOps Proofs.BufferAll.
From TV Require Import Model.Engine Proofs.Engine.
From TV Require Import Proofs.EngineKeep Proofs.EngineKeepMerge Proofs.EngineRecompose Proofs.EngineDecompose.

(* ---------- list facts ---------- *)

(* a non-empty constant block replaced by another non-empty block of the same constant *)
Lemma lkeeps_const_block (a m m' z : list Z) c : m <> [] -> m' <> [] ->
  Forall (fun x => x = c) m -> Forall (fun x => x = c) m' -> lkeeps (a ++ m ++ z) (a ++ m' ++ z).
Proof.
  intros N N' F F'. rewrite Forall_forall in F, F'.
  assert (Hm : In c m). { destruct m as [|x r]; [congruence|]. left. apply F. left. reflexivity. }
  assert (Hm' : In c m'). { destruct m' as [|x r]; [congruence|]. left. apply F'. left. reflexivity. }
  apply lkeeps_same_set. intros x. rewrite !in_app_iff. split.
  - intros [H|[H|H]]; auto. right. left. rewrite (F x H). exact Hm'.
  - intros [H|[H|H]]; auto. right. left. rewrite (F' x H). exact Hm.
Qed.

Lemma Forall_repeat_eq (c : Z) n : Forall (fun x => x = c) (repeat c n).
Proof. induction n; cbn [repeat]; constructor; auto. Qed.

Lemma cl_nth_cls (l l' : list glyph) i : cls l = cls l' -> cl (nth i l g0) = cl (nth i l' g0).
Proof.
  intros E. transitivity (nth i (cls l) (cl g0)); [symmetry; apply map_nth|]. rewrite E. apply map_nth.
Qed.

(* ---------- buffer-level frame facts ---------- *)

Lemma same_cl_bseq b b' : same_cl b b' -> cls (bseq b') = cls (bseq b).
Proof.
  intros (E1 & E2 & E3 & E4 & E5). unfold bseq. rewrite E4. destruct (have_out b); [|exact E1].
  rewrite !cls_app, !cls_zskipn, E1, E2, E3. reflexivity.
Qed.

Lemma same_cl_keeps b b' : same_cl b b' -> bkeeps b b'.
Proof. intros S. apply lkeeps_eq. apply same_cl_bseq. exact S. Qed.

Lemma next_glyph_bseq b b' : have_out b = true -> 0 <= idx b -> idx b < zlen (info b) -> next_glyph b = Ok b' -> bseq b' = bseq b.
Proof.
  intros Hh H0 H1 E. rewrite next_glyph_frame in E by auto. injection E as <-.
  rewrite !bseq_have by (cbn; exact Hh). cbn [out idx info with_idx with_out].
  rewrite <- app_assoc. cbn [app]. rewrite <- zskipn_cons by lia. reflexivity.
Qed.

Lemma next_glyphs_bseq b k b' : have_out b = true -> 0 <= idx b -> 0 <= k -> idx b + k <= zlen (info b) ->
  next_glyphs b k = Ok b' -> bseq b' = bseq b.
Proof.
  intros Hh H0 H1 H2 E. rewrite next_glyphs_frame in E by auto. injection E as <-.
  rewrite !bseq_have by (cbn; exact Hh). cbn [out idx info with_idx with_out].
  rewrite <- app_assoc. rewrite <- zskipn_slice by lia. reflexivity.
Qed.

(* outputRune with the cursor inside the buffer: one glyph with the cluster of the current glyph is appended to the output *)
Lemma output_rune_frame b u : have_out b = true -> 0 <= idx b -> idx b < zlen (info b) ->
  exists g, cl g = cl (nth (Z.to_nat (idx b)) (info b) g0)
            /\ output_rune b u = Ok (with_idx (with_out b (out b ++ [g])) (idx b + 0)).
Proof.
  intros Hh H0 H1. unfold output_rune, replace_glyphs, merge_clusters.
  destruct (Z.ltb_spec (idx b + 0 - idx b) 2); [|lia]. cbn [bind].
  destruct (Z.ltb_spec (idx b) (zlen (info b))); [|lia]. rewrite getg_ok by lia. cbn [bind].
  cbn [olen]. rewrite zlen_cons, zlen_nil. change (Z.max (1 + 0) 0) with 1. change (1 + 0 <? 1) with false. cbn [orb].
  eexists. split; [|reflexivity]. reflexivity.
Qed.

(* n glyphs carrying the cluster of the current glyph were appended to the output; clusters of Info and the cursor unchanged *)
Definition curc (b : buffer) : Z := cl (nth (Z.to_nat (idx b)) (info b) g0).
Definition outn (b b' : buffer) (n : Z) : Prop :=
  have_out b' = true /\ idx b' = idx b /\ cls (info b') = cls (info b) /\ 0 <= n
  /\ cls (out b') = cls (out b) ++ repeat (curc b) (Z.to_nat n).

Lemma outn_refl b : have_out b = true -> outn b b 0.
Proof. intros H. unfold outn. cbn [Z.to_nat repeat]. rewrite app_nil_r. repeat split; auto. lia. Qed.

Lemma outn_curc b b' n : outn b b' n -> curc b' = curc b.
Proof. intros (_ & X & C & _). unfold curc. rewrite X. apply cl_nth_cls. exact C. Qed.

Lemma outn_trans b1 b2 b3 n m : outn b1 b2 n -> outn b2 b3 m -> outn b1 b3 (n + m).
Proof.
  intros A B. pose proof (outn_curc _ _ _ A) as Ec.
  destruct A as (H1 & X1 & C1 & N1 & O1). destruct B as (H2 & X2 & C2 & N2 & O2).
  unfold outn. repeat split; try congruence; try lia.
  rewrite O2, O1, Ec, <- app_assoc, <- repeat_app, Z2Nat.inj_add by lia. reflexivity.
Qed.

Lemma outn_zlen b b' n : outn b b' n -> zlen (info b') = zlen (info b).
Proof. intros (_ & _ & C & _). exact (cls_eq_zlen _ _ C). Qed.

(* no output: the glyph sequence has the same clusters *)
Lemma outn_0_bseq b b' : have_out b = true -> outn b b' 0 -> cls (bseq b') = cls (bseq b).
Proof.
  intros Hh (H & X & C & _ & O). cbn [Z.to_nat repeat] in O. rewrite app_nil_r in O.
  rewrite !bseq_have by auto. rewrite !cls_app, !cls_zskipn, O, C, X. reflexivity.
Qed.

Lemma outn_side b b' n : 0 <= idx b -> idx b < zlen (info b) -> outn b b' n ->
  have_out b' = true /\ 0 <= idx b' /\ idx b' < zlen (info b').
Proof. intros H0 H1 A. pose proof (outn_zlen _ _ _ A) as Zl. destruct A as (Hh & X & _). repeat split; auto; lia. Qed.

Section KeepDecompose.
  Variable ugc : Z -> Z.
  Variable udi : Z -> bool.
  Variable umcc : Z -> Z.
  Variable uspace : Z -> Z.
  Variable nominal : Z -> Z * bool.
  Variable variation : Z -> Z -> Z * bool.
  Variable sdecomp : Z -> option (Z * Z).
  Variable dfuel : nat.
  Variables lo hi : Z.

  Lemma set_cur_gid_k b g b1 : 0 <= idx b -> idx b < zlen (info b) -> set_cur_gid b g = Ok b1 ->
    same_cl b b1 /\ out b1 = out b /\ zlen (info b1) = zlen (info b).
  Proof.
    intros H0 H1 E. unfold set_cur_gid in E. rewrite getg_ok in E by lia. cbn [bind] in E. injection E as <-.
    destruct (set_info_same_cl b (idx b) (set_gid (nth (Z.to_nat (idx b)) (info b) g0) g) H0 H1 eq_refl) as [S Z].
    split; [exact S|]. split; [reflexivity|exact Z].
  Qed.

  Lemma prev_set_props_k e e' : 0 < zlen (out (eb e)) -> prev_set_props ugc udi umcc e = Ok e' ->
    info (eb e') = info (eb e) /\ idx (eb e') = idx (eb e) /\ have_out (eb e') = have_out (eb e)
    /\ cls (out (eb e')) = cls (out (eb e)).
  Proof.
    intros O E. unfold prev_set_props in E. destruct (Z.eqb_spec (zlen (out (eb e))) 0); [lia|].
    destruct (compute_props ugc udi umcc (cp (lastg (out (eb e))))) as [p f]. injection E as <-.
    rewrite !eb_or_scratch. cbn [eb with_eb info idx have_out out with_out]. repeat split.
    pose proof (f_equal cls (zfirstn_last (out (eb e)) O)) as Ez. rewrite cls_app in Ez. rewrite cls_app.
    etransitivity; [|exact Ez]. reflexivity.
  Qed.

  Lemma output_char_k e u g e' : have_out (eb e) = true -> 0 <= idx (eb e) -> idx (eb e) < zlen (info (eb e)) ->
    output_char ugc udi umcc e u g = Ok e' -> outn (eb e) (eb e') 1.
  Proof.
    intros Hh H0 H1 E. unfold output_char in E.
    destruct (set_cur_gid (eb e) g) as [b1| | |] eqn:E1; cbn [bind] in E; try discriminate.
    destruct (set_cur_gid_k _ _ _ H0 H1 E1) as ((S1 & S2 & S3 & S4 & S5) & O1 & Z1).
    destruct (output_rune_frame b1 u) as (x & Cx & E2); [congruence|lia|lia|].
    rewrite E2 in E. cbn [bind] in E.
    apply prev_set_props_k in E.
    2:{ cbn [eb with_eb out with_idx with_out]. rewrite zlen_app, zlen_cons. pose proof (zlen_nonneg (out b1)). pose proof (zlen_nonneg (@nil glyph)). lia. }
    cbn [eb with_eb out info idx have_out with_idx with_out] in E. destruct E as (A1 & A2 & A3 & A4).
    unfold outn. rewrite A1, A2, A3, A4. repeat split; try congruence; try lia.
    rewrite cls_app, O1. change (Z.to_nat 1) with 1%nat. cbn [cls map repeat]. f_equal. f_equal.
    rewrite Cx. unfold curc. rewrite S3. apply cl_nth_cls. exact S1.
  Qed.

  (* decompose outputs n glyphs, all with the cluster of the current glyph *)
  Lemma decompose_rec_k : forall fuel shortest ab e r,
    have_out (eb e) = true -> 0 <= idx (eb e) -> idx (eb e) < zlen (info (eb e)) ->
    decompose_rec ugc udi umcc nominal sdecomp fuel shortest ab e = Ok r -> outn (eb e) (eb (fst r)) (snd r).
  Proof.
    induction fuel as [|f IH]; intros shortest ab e r Hh H0 H1 E; [discriminate|].
    cbn [decompose_rec] in E. destruct (sdecomp ab) as [[a b]|].
    2:{ injection E as <-. apply outn_refl; auto. }
    destruct (nominal b) as [bg bok]. destruct (negb (b =? 0) && negb bok).
    { injection E as <-. apply outn_refl. auto. }
    destruct (nominal a) as [ag aok].
    assert (OB : forall e1 (k k' : Z) r', outn (eb e) (eb e1) k -> k' = k + 1 ->
               (do e2 <- output_char ugc udi umcc e1 b bg; Ok (e2, k')) = Ok r' -> outn (eb e) (eb (fst r')) (snd r')).
    { intros e1 k k' r' A Ek E'. destruct (outn_side _ _ _ H0 H1 A) as (Q1 & Q2 & Q3).
      destruct (output_char ugc udi umcc e1 b bg) as [e2| | |] eqn:E2; cbn [bind] in E'; try discriminate.
      injection E' as <-. cbn [fst snd]. subst k'. apply (outn_trans _ _ _ _ _ A).
      exact (output_char_k e1 b bg e2 Q1 Q2 Q3 E2). }
    assert (OA : forall e0 r', outn (eb e) (eb e0) 0 ->
               (do e1 <- output_char ugc udi umcc e0 a ag;
                if negb (b =? 0) then do e2 <- output_char ugc udi umcc e1 b bg; Ok (e2, 2) else Ok (e1, 1)) = Ok r' ->
               outn (eb e) (eb (fst r')) (snd r')).
    { intros e0 r' A E'. destruct (outn_side _ _ _ H0 H1 A) as (Q1 & Q2 & Q3).
      destruct (output_char ugc udi umcc e0 a ag) as [e1| | |] eqn:E1; cbn [bind] in E'; try discriminate.
      pose proof (outn_trans _ _ _ _ _ A (output_char_k e0 a ag e1 Q1 Q2 Q3 E1)) as A1. cbn [Z.add] in A1.
      destruct (negb (b =? 0)).
      - apply (OB e1 1 2 r' A1); [reflexivity|exact E'].
      - injection E' as <-. exact A1. }
    destruct (shortest && aok). { apply (OA e r); [apply outn_refl; exact Hh|exact E]. }
    destruct (decompose_rec ugc udi umcc nominal sdecomp f shortest a e) as [[e1 ret]| | |] eqn:Er; cbn [bind] in E; try discriminate.
    pose proof (IH _ _ _ _ Hh H0 H1 Er) as A. cbn [fst snd] in A.
    destruct (Z.eqb_spec ret 0); cbn [negb] in E.
    - subst ret. destruct aok; [exact (OA e1 r A E)|]. injection E as <-. exact A.
    - destruct (negb (b =? 0)); [exact (OB e1 ret (ret + 1) r A eq_refl E)|]. injection E as <-. exact A.
  Qed.

  Lemma next_char_k e g e' : have_out (eb e) = true -> 0 <= idx (eb e) -> idx (eb e) < zlen (info (eb e)) ->
    next_char e g = Ok e' -> cls (bseq (eb e')) = cls (bseq (eb e)).
  Proof.
    intros Hh H0 H1 E. unfold next_char in E.
    destruct (set_cur_gid (eb e) g) as [b1| | |] eqn:E1; cbn [bind] in E; try discriminate.
    destruct (set_cur_gid_k _ _ _ H0 H1 E1) as (S & O1 & Z1). pose proof S as (S1 & S2 & S3 & S4 & S5).
    unfold lift in E. destruct (next_glyph b1) as [b2| | |] eqn:E2; cbn [bind] in E; try discriminate. injection E as <-.
    cbn [eb with_eb]. rewrite (next_glyph_bseq b1 b2) by (auto; try congruence; lia). apply same_cl_bseq. exact S.
  Qed.

  Lemma cls_cons g r : cls (g :: r) = cl g :: cls r.
  Proof. reflexivity. Qed.

  (* decomposeCurrentCharacter: the current glyph is passed on, or replaced by n >= 1 glyphs of its cluster *)
  Lemma decompose_current_k shortest e e' : have_out (eb e) = true -> 0 <= idx (eb e) -> idx (eb e) < zlen (info (eb e)) ->
    decompose_current ugc udi umcc uspace nominal sdecomp dfuel shortest e = Ok e' -> bkeeps (eb e) (eb e').
  Proof.
    intros Hh H0 H1 E. unfold decompose_current in E. rewrite getg_ok in E by lia. cbn [bind] in E.
    set (x := nth (Z.to_nat (idx (eb e))) (info (eb e)) g0) in *.
    destruct (nominal (cp x)) as [gl ok].
    destruct (shortest && ok). { apply lkeeps_eq. exact (next_char_k _ _ _ Hh H0 H1 E). }
    destruct (decompose_rec ugc udi umcc nominal sdecomp dfuel shortest (cp x) e) as [[e1 n]| | |] eqn:Er; cbn [bind] in E; try discriminate.
    pose proof (decompose_rec_k _ _ _ _ _ Hh H0 H1 Er) as A. cbn [fst snd] in A.
    destruct (outn_side _ _ _ H0 H1 A) as (Q1 & Q2 & Q3).
    destruct (Z.eqb_spec n 0) as [N0|N0]; cbn [negb] in E.
    2:{ unfold lift, skip_glyph in E. cbn [bind] in E. injection E as <-. cbn [eb with_eb].
        unfold bkeeps. rewrite !bseq_have by (cbn; auto). cbn [out idx info with_idx].
        destruct A as (_ & X & C & Nn & O). rewrite X.
        rewrite (zskipn_cons (info (eb e)) (idx (eb e))) by lia. fold x.
        rewrite !cls_app, cls_cons, !cls_zskipn, O, C, <- app_assoc.
        apply (lkeeps_const_block _ [cl x] (repeat (curc (eb e)) (Z.to_nat n)) _ (curc (eb e))).
        - discriminate.
        - destruct (Z.to_nat n) eqn:En; [lia|]. discriminate.
        - constructor; [reflexivity|constructor].
        - apply Forall_repeat_eq. }
    subst n. pose proof (outn_0_bseq _ _ Hh A) as B0.
    destruct (negb shortest && ok). { unfold bkeeps. rewrite <- B0. apply lkeeps_eq. exact (next_char_k _ _ _ Q1 Q2 Q3 E). }
    destruct (nominal 32) as [sg sok].
    match type of E with (if ?c then _ else _) = _ => destruct c end.
    - rewrite getg_ok in E by lia. cbn [bind] in E.
      set (x1 := nth (Z.to_nat (idx (eb e1))) (info (eb e1)) g0) in *.
      match type of E with bind (next_char ?ee ?gg) _ = _ => destruct (next_char ee gg) as [e2| | |] eqn:E2 end;
        cbn [bind] in E; try discriminate.
      injection E as <-.
      destruct (set_info_same_cl (eb e1) (idx (eb e1)) (set_up x1 (Z.lor (Z.shiftl (uspace (cp x)) 8) (Z.land (up x1) 255))) Q2 Q3 eq_refl) as [S Z].
      apply next_char_k in E2; cbn [eb with_eb]; try (unfold set_info; cbn [have_out idx with_info]; auto; fail).
      2:{ rewrite Z. unfold set_info. cbn [idx with_info]. exact Q3. }
      cbn [eb with_eb] in E2. unfold bkeeps. change (eb (set_space_fallback e2)) with (eb e2).
      rewrite E2, (same_cl_bseq _ _ S), B0. apply lkeeps_refl.
    - destruct (nominal 8208) as [hg hok].
      destruct ((cp x =? 8209) && hok); unfold bkeeps; rewrite <- B0; apply lkeeps_eq; exact (next_char_k _ _ _ Q1 Q2 Q3 E).
  Qed.

  (* replaceGlyphs(2, [u], nil): the two glyphs are merged, then replaced by one glyph of the merged cluster *)
  Lemma replace2_keeps b u b' : (level b =? 2) = false -> WF lo hi b = true -> have_out b = true ->
    idx b + 2 <= zlen (info b) -> replace_glyphs b 2 (Some [u]) None = Ok b' -> bkeeps b b'.
  Proof.
    intros Hl Hw Hh K E. destruct (WF_parts lo hi b Hl Hw) as (I0 & I1 & _).
    destruct (merge_full lo hi b (idx b) (idx b + 2) Hl Hw) as (b1 & E1 & W1 & L1 & X1 & Hh1 & ZN1 & ZO1 & _ & _ & FA).
    { cbn [pre]. destruct (Z.leb_spec 0 (idx b)); [|lia]. destruct (Z.leb_spec (idx b) (idx b + 2)); [|lia].
      destruct (Z.leb_spec (idx b + 2) (zlen (info b))); [|lia]. rewrite Z.leb_refl, orb_true_r. reflexivity. }
    apply (bkeeps_trans _ b1).
    { apply (merge_clusters_keeps b (idx b) (idx b + 2) b1); auto; lia. }
    unfold replace_glyphs in E. rewrite E1 in E. cbn [bind] in E.
    destruct (Z.ltb_spec (idx b1) (zlen (info b1))); [|lia].
    rewrite getg_ok in E by lia. cbn [bind] in E.
    cbn [olen] in E. rewrite zlen_cons, zlen_nil in E. cbn [Z.add Z.max Z.compare Pos.compare Z.ltb orb] in E.
    change (1 <? 1) with false in E. cbn [orb] in E. change (Z.to_nat 1) with 1%nat in E. cbn [seq map] in E.
    injection E as <-. rewrite Hh in Hh1.
    unfold bkeeps. rewrite !bseq_have by (cbn; auto). cbn [out idx info with_idx with_out].
    rewrite X1 in *. rewrite (zskipn_slice (info b1) (idx b) 2) by lia.
    rewrite <- app_assoc, !cls_app.
    set (c := cl (nth (Z.to_nat (idx b)) (info b1) g0)) in *.
    apply (lkeeps_const_block _ _ _ _ c).
    - intros N. pose proof (f_equal (@zlen Z) N) as ZZ. rewrite zlen_cls, zlen_slice, zlen_nil in ZZ by lia. lia.
    - discriminate.
    - apply Forall_forall. intros v Hv. apply in_map_iff in Hv. destruct Hv as (g & <- & Hg).
      rewrite Forall_forall in FA. exact (FA g Hg).
    - constructor; [reflexivity|constructor].
  Qed.

  Lemma set_glyph_next_k e e' : have_out (eb e) = true -> 0 <= idx (eb e) -> idx (eb e) < zlen (info (eb e)) ->
    set_glyph_next nominal e = Ok e' -> cls (bseq (eb e')) = cls (bseq (eb e)).
  Proof.
    intros Hh H0 H1 E. unfold set_glyph_next in E. rewrite getg_ok in E by lia. cbn [bind] in E.
    exact (next_char_k _ _ _ Hh H0 H1 E).
  Qed.

  Lemma set_glyph_next_kg e e' : good lo hi e -> idx (eb e) < zlen (info (eb e)) ->
    set_glyph_next nominal e = Ok e' -> fr lo hi e e' /\ idx (eb e') = idx (eb e) + 1 /\ cls (bseq (eb e')) = cls (bseq (eb e)).
  Proof.
    intros G H1 E. destruct (good_idx lo hi e G) as [I0 I1].
    destruct (set_glyph_next_ok nominal lo hi e G H1) as (e1 & E1 & F1 & X1). rewrite E1 in E. injection E as <-.
    split; [exact F1|]. split; [exact X1|]. apply set_glyph_next_k; auto. apply G.
  Qed.

  Lemma vs_skip_k : forall fuel en e e', good lo hi e -> en <= zlen (info (eb e)) ->
    vs_skip nominal fuel en e = Ok e' -> fr lo hi e e' /\ cls (bseq (eb e')) = cls (bseq (eb e)).
  Proof.
    induction fuel as [|f IH]; intros en e e' G En E; [discriminate|]. destruct (good_idx lo hi e G) as [I0 I1].
    cbn [vs_skip] in E. destruct (Z.ltb_spec (idx (eb e)) en).
    - rewrite getg_ok in E by lia. cbn [bind] in E. destruct (is_vs _).
      + destruct (set_glyph_next nominal e) as [e1| | |] eqn:E1; cbn [bind] in E; try discriminate.
        destruct (set_glyph_next_kg e e1 G ltac:(lia) E1) as (F1 & X1 & K1).
        pose proof F1 as (G1 & L1 & Z1 & _).
        destruct (IH en e1 e' G1 ltac:(lia) E) as (F2 & K2).
        split; [exact (fr_trans _ _ _ _ _ F1 F2)|congruence].
      + injection E as <-. split; [apply fr_refl; exact G|reflexivity].
    - injection E as <-. split; [apply fr_refl; exact G|reflexivity].
  Qed.

  Lemma vs_cluster_k : forall fuel en e e', good lo hi e -> en <= zlen (info (eb e)) ->
    vs_cluster nominal variation fuel en e = Ok e' -> bkeeps (eb e) (eb e').
  Proof.
    induction fuel as [|f IH]; intros en e e' G En E; [discriminate|]. destruct (good_idx lo hi e G) as [I0 I1].
    cbn [vs_cluster] in E. destruct (Z.ltb_spec (idx (eb e)) (en - 1)).
    - rewrite !getg_ok in E by lia. cbn [bind] in E.
      set (x := nth (Z.to_nat (idx (eb e))) (info (eb e)) g0) in *.
      set (y := nth (Z.to_nat (idx (eb e) + 1)) (info (eb e)) g0) in *.
      destruct (is_vs (cp y)).
      + destruct (variation (cp x) (cp y)) as [vg vok].
        destruct (set_cur_gid_ok lo hi e vg G) as (b1 & E1 & F1 & X1 & O1); [lia|]. rewrite E1 in E. cbn [bind] in E.
        pose proof F1 as (G1 & L1 & Z1 & D1 & M1). cbn [eb with_eb dir] in L1, Z1, D1.
        destruct (set_cur_gid_k _ _ _ I0 ltac:(lia) E1) as (Sc & _ & _).
        assert (S2 : exists e2, (if vok then lift e (replace_glyphs b1 2 (Some [cp x]) None)
                                 else do e1 <- set_glyph_next nominal (with_eb e b1); set_glyph_next nominal e1) = Ok e2
                                /\ fr lo hi e e2 /\ bkeeps b1 (eb e2)).
        { destruct vok.
          - destruct G1 as (Hl1 & Hw1 & Hh1). cbn [eb with_eb] in Hl1, Hw1, Hh1.
            destruct (replace_glyphs_frame lo hi b1 2 (cp x) Hl1 Hw1 Hh1) as (b2 & E2 & W2 & L2 & X2 & Hh2 & Z2 & O2); try lia.
            rewrite E2. cbn [lift bind]. eexists. split; [reflexivity|]. split.
            + unfold fr, good, grow. cbn [eb with_eb dir]. rewrite L2. rewrite O1 in O2. repeat split; auto; try lia.
            + cbn [eb with_eb]. apply (replace2_keeps b1 (cp x) b2); auto. lia.
          - destruct (set_glyph_next nominal (with_eb e b1)) as [e1| | |] eqn:E2.
            2,3,4: (destruct (set_glyph_next_ok nominal lo hi (with_eb e b1) G1) as (e1' & E2' & _); [cbn [eb with_eb]; lia|congruence]).
            cbn [bind].
            destruct (set_glyph_next_kg _ _ G1 ltac:(cbn [eb with_eb]; lia) E2) as (F2 & X2 & K2).
            pose proof F2 as (G2 & L2 & Z2 & D2 & M2). cbn [eb with_eb dir] in *.
            destruct (set_glyph_next_ok nominal lo hi e1 G2) as (e2 & E3 & _); [lia|].
            destruct (set_glyph_next_kg _ _ G2 ltac:(lia) E3) as (F3 & X3 & K3).
            exists e2. split; [exact E3|]. split; [exact (fr_trans _ _ _ _ _ F1 (fr_trans _ _ _ _ _ F2 F3))|].
            apply lkeeps_eq. congruence. }
        destruct S2 as (e2 & E2 & F2 & K2). rewrite E2 in E. cbn [bind] in E.
        pose proof F2 as (G2 & L2 & Z2 & D2 & M2).
        destruct (vs_skip nominal (S f) en e2) as [e3| | |] eqn:E3; cbn [bind] in E; try discriminate.
        destruct (vs_skip_k (S f) en e2 e3 G2 ltac:(lia) E3) as (F3 & K3).
        pose proof F3 as (G3 & L3 & Z3 & _).
        apply (bkeeps_trans _ b1); [apply same_cl_keeps; exact Sc|]. apply (bkeeps_trans _ (eb e2)); [exact K2|].
        apply (bkeeps_trans _ (eb e3)); [apply lkeeps_eq; exact K3|]. apply (IH en e3 e' G3); [lia|exact E].
      + destruct (set_glyph_next nominal e) as [e1| | |] eqn:E1; cbn [bind] in E; try discriminate.
        destruct (set_glyph_next_kg e e1 G ltac:(lia) E1) as (F1 & X1 & K1).
        pose proof F1 as (G1 & L1 & Z1 & _).
        apply (bkeeps_trans _ (eb e1)); [apply lkeeps_eq; exact K1|]. apply (IH en e1 e' G1); [lia|exact E].
    - destruct (Z.ltb_spec (idx (eb e)) en).
      + apply lkeeps_eq. apply set_glyph_next_k; auto; [apply G|lia].
      + injection E as <-. apply bkeeps_refl.
  Qed.

  Lemma dcc_loop_k : forall fuel short en e e', good lo hi e -> en <= zlen (info (eb e)) ->
    dcc_loop ugc udi umcc uspace nominal sdecomp dfuel fuel short en e = Ok e' -> bkeeps (eb e) (eb e').
  Proof.
    induction fuel as [|f IH]; intros short en e e' G En E; [discriminate|].
    destruct (good_idx lo hi e G) as [I0 I1]. cbn [dcc_loop] in E.
    destruct (Z.ltb_spec (idx (eb e)) en).
    - destruct (decompose_current_ok ugc udi umcc uspace nominal sdecomp dfuel lo hi short e G ltac:(lia))
        as [[E1 _]|(e1 & E1 & F1 & X1)]; rewrite E1 in E; cbn [bind] in E; [discriminate|].
      pose proof F1 as (G1 & L1 & Z1 & _).
      apply (bkeeps_trans _ (eb e1)).
      + apply (decompose_current_k short e e1); auto; [apply G|lia].
      + apply (IH short en e1 e' G1); [lia|exact E].
    - injection E as <-. apply bkeeps_refl.
  Qed.

  Lemma decompose_multi_k en short e e' : good lo hi e -> en <= zlen (info (eb e)) ->
    decompose_multi ugc udi umcc uspace nominal variation sdecomp dfuel en short e = Ok e' -> bkeeps (eb e) (eb e').
  Proof.
    intros G En E. unfold decompose_multi in E. destruct (existsb _ _).
    - exact (vs_cluster_k _ _ _ _ G En E).
    - exact (dcc_loop_k _ _ _ _ _ G En E).
  Qed.

  (* ---------- the round ---------- *)

  Lemma round1_keeps : forall fuel count might always simple e r,
    good lo hi e -> count = zlen (info (eb e)) -> idx (eb e) < count -> (Z.to_nat (count - idx (eb e)) <= fuel)%nat ->
    round1 ugc udi umcc uspace nominal variation sdecomp dfuel fuel count might always simple e = Ok r ->
    bkeeps (eb e) (eb (fst r)).
  Proof.
    induction fuel as [|f IH]; intros count might always simple e r G Hc I2 Hf E; [lia|].
    destruct (good_idx lo hi e G) as [I0 I1]. cbn [round1] in E.
    set (b := eb e) in *. set (i0 := idx b) in *.
    pose proof (run_while_bound (fun g => negb (is_umark g)) (slice (i0 + 1) count (info b))) as RB.
    rewrite zlen_slice in RB by lia.
    set (en0 := i0 + 1 + run_while (fun g => negb (is_umark g)) (slice (i0 + 1) count (info b))) in *.
    set (en := if en0 <? count then en0 - 1 else en0) in *.
    assert (Hen : i0 <= en /\ en <= count) by (unfold en; destruct (Z.ltb_spec en0 count); lia).
    match type of E with bind ?st _ = _ =>
      assert (S1 : exists e1, st = Ok e1 /\ fr lo hi e e1 /\ i0 <= idx (eb e1) /\ idx (eb e1) <= en /\ bkeeps b (eb e1)) end.
    { destruct might.
      2:{ exists e. split; [reflexivity|]. split; [apply fr_refl; exact G|fold b; fold i0].
          split; [lia|]. split; [lia|apply bkeeps_refl]. }
      pose proof (sc_scan_spec nominal (slice i0 en (info b))) as (C & ZL & K0 & K1).
      destruct (sc_scan nominal (slice i0 en (info b))) as [l k]. cbn [fst snd] in *. rewrite zlen_slice in * by lia.
      set (b' := with_info b (zfirstn i0 (info b) ++ l ++ zskipn en (info b))).
      assert (Ci : cls (info b') = cls (info b)).
      { unfold b'. cbn [info with_info]. rewrite !cls_app, C. rewrite <- !cls_app.
        destruct (split3 (info b) i0 en) as (l1 & l2 & l3 & E0 & _ & _ & F1 & F2 & F3 & _); try lia.
        rewrite F1, F2, F3, <- E0. reflexivity. }
      destruct G as (Hl & Hw & Hh). fold b in Hl, Hw, Hh.
      assert (Sc : same_cl b b') by (unfold same_cl, b'; cbn [info out idx have_out level with_info]; auto).
      pose proof (WF_same_cl lo hi b b' Hl Hw Sc) as W'.
      pose proof (cls_eq_zlen _ _ Ci) as Z'.
      assert (Hl' : (level b' =? 2) = false) by exact Hl.
      destruct (op_step lo hi (ONextN k) b' Hl' W') as (b2 & E2 & W2 & L2); [|reflexivity|].
      { cbn [pre]. change (idx b') with i0. rewrite Z'. destruct (Z.leb_spec 0 k); [|lia].
        destruct (Z.leb_spec (i0 + k) (zlen (info b))); [|lia]. reflexivity. }
      cbn [run_op] in E2. rewrite E2. cbn [lift bind]. eexists. split; [reflexivity|].
      assert (K : bkeeps b b2).
      { apply lkeeps_eq. rewrite (next_glyphs_bseq b' k b2); [apply same_cl_bseq; exact Sc|exact Hh|exact I0|lia| |exact E2].
        change (idx b') with i0. lia. }
      assert (FF : fr lo hi e (with_eb e b2) /\ i0 <= idx (eb (with_eb e b2)) /\ idx (eb (with_eb e b2)) <= en).
      { rewrite next_glyphs_frame in E2; [|exact Hh|exact I0|lia|change (idx b') with i0; lia].
        injection E2 as B2. subst b2. unfold fr, good, grow. cbn [eb with_eb dir level have_out info idx out with_idx with_out] in *.
        fold b.
        assert (ZS : zlen (out b ++ slice (idx b) (idx b + k) (zfirstn i0 (info b) ++ l ++ zskipn en (info b))) = zlen (out b) + k).
        { change (zfirstn i0 (info b) ++ l ++ zskipn en (info b)) with (info b').
          rewrite zlen_app, zlen_slice by (fold i0; lia). lia. }
        rewrite ZS. change (idx b') with i0. change (have_out b') with (have_out b). change (level b') with (level b).
        fold i0. repeat split; auto; lia. }
      destruct FF as (FA & FB & FC). auto. }
    destruct S1 as (e1 & E1 & F1 & Xa & Xb & K1). rewrite E1 in E. cbn [bind] in E.
    pose proof F1 as (G1 & L1 & Z1 & D1 & M1). fold b in L1, Z1.
    destruct (dcc_loop_ok ugc udi umcc uspace nominal sdecomp dfuel lo hi (Z.to_nat (en - idx (eb e1)) + 1) might en e1 G1
                ltac:(lia) ltac:(lia)) as [[E2 _]|(e2 & E2 & F2 & X2)]; rewrite E2 in E; cbn [bind] in E; [discriminate|].
    pose proof (dcc_loop_k (Z.to_nat (en - idx (eb e1)) + 1) might en e1 e2 G1 ltac:(lia) E2) as K2.
    pose proof F2 as (G2 & L2 & Z2 & D2 & M2).
    pose proof (fr_trans _ _ _ _ _ F1 F2) as F02.
    pose proof (bkeeps_trans _ _ _ K1 K2) as K02.
    destruct (Z.eqb_spec (idx (eb e2)) count) as [Eq|Ne].
    { injection E as <-. cbn [fst]. exact K02. }
    destruct (good_idx lo hi e2 G2) as [J0 J1].
    pose proof (run_while_bound is_umark (slice (idx (eb e2) + 1) count (info (eb e2)))) as RB2.
    rewrite zlen_slice in RB2 by lia.
    set (en2 := idx (eb e2) + 1 + run_while is_umark (slice (idx (eb e2) + 1) count (info (eb e2)))) in *.
    destruct (decompose_multi_ok ugc udi umcc uspace nominal variation sdecomp dfuel lo hi en2 always e2 G2 ltac:(lia))
      as [[E3 _]|(e3 & E3 & F3 & X3)]; rewrite E3 in E; cbn [bind] in E; [discriminate|].
    pose proof (decompose_multi_k en2 always e2 e3 G2 ltac:(lia) E3) as K3.
    pose proof F3 as (G3 & L3 & Z3 & D3 & M3).
    pose proof (bkeeps_trans _ _ _ K02 K3) as K03.
    destruct (Z.ltb_spec (idx (eb e3)) count).
    - apply (bkeeps_trans _ _ _ K03).
      apply (IH count might always false e3 r G3 ltac:(lia) ltac:(lia) ltac:(lia) E).
    - injection E as <-. exact K03.
  Qed.

  (* with the existence / WF statement of Proofs/EngineDecompose.v *)
  Lemma round1_okt_keeps : forall fuel count might always simple e,
    good lo hi e -> count = zlen (info (eb e)) -> idx (eb e) < count -> (Z.to_nat (count - idx (eb e)) <= fuel)%nat ->
    okt sdecomp dfuel (round1 ugc udi umcc uspace nominal variation sdecomp dfuel fuel count might always simple e)
        (fun r => fr lo hi e (fst r) /\ idx (eb (fst r)) = zlen (info (eb (fst r))) /\ 0 < zlen (out (eb (fst r)))
                  /\ bkeeps (eb e) (eb (fst r))).
  Proof.
    intros fuel count might always simple e G Hc I2 Hf.
    destruct (round1_okt ugc udi umcc uspace nominal variation sdecomp dfuel lo hi fuel count might always simple e G Hc I2 Hf)
      as [H|(r & E & F & X & O)]; [left; exact H|].
    right. exists r. split; [exact E|]. split; [exact F|]. split; [exact X|]. split; [exact O|].
    exact (round1_keeps fuel count might always simple e r G Hc I2 Hf E).
  Qed.
End KeepDecompose.
