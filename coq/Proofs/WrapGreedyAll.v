(* C04 greedy clause for EVERY break policy (Never, WhenNecessary, Always).
   The counterpart of Proofs/WrapGreedy.v outer_N for both loops of wrapNextLine, on top of the invariants of
   Proofs/WrapValid.v (every valid UAX #14 boundary beyond the best line is ahead of the line iterator or pending, no valid
   grapheme boundary beyond the line start is handed out untried):
   - inner_G: the grapheme loop.  Entered with the UAX #14 option wopt that did not fit (the line extended to wopt + 1 is too
     wide on the entry store of the call), it returns "not done" outside the truncating line only with a best line [s, e)
     such that (1) no valid UAX #14 boundary lies strictly between e and wopt + 1 and the line extended to wopt + 1 is
     too wide, and (2) there is q >= e with no valid UAX #14 or grapheme boundary strictly between e and q and the line
     extended to q is too wide (q = the grapheme option rejected with newLineBeforeBreak, wopt + 1 when the grapheme
     iterator has nothing left up to wopt, or e itself when the line is the unit that cannot fit);
   - outer_G: the UAX #14 loop.  A line returned "not done" outside the truncating line ends at a mandatory boundary, or (1)
     holds for the pending UAX #14 option, and (2) holds whenever the policy is Always, or WhenNecessary and the line
     does not end at a valid UAX #14 boundary (the line was split inside a word).
   "Too wide" is Proofs/WrapGreedy.v Rejected: the runes placed as the exact pieces of the input runs measure more than
   maxWidth by lmeas on the entry store of the call (the store only loses advance during a call: WU). *)
From TV Require Import Model.Wrap Spec.Wrap Spec.WrapCut Spec.WrapGreedy Spec.WrapGreedyAll Proofs.Wrap Proofs.WrapCut Proofs.WrapLines
  Proofs.WrapTotal Proofs.WrapStore Proofs.WrapMand Proofs.WrapMand2 Proofs.WrapTrunc Proofs.WrapWidth Proofs.WrapValid Proofs.WrapGreedy.

Section GreedyAll.
Variables (n : Z) (attrs : list Z) (st0 : store) (rs : list out).
Hypothesis HRE : SG st0.

Local Notation lbV := (lbV attrs st0 rs).
Local Notation gbV := (gbV attrs st0 rs).
Local Notation SK := (SK attrs st0 rs).
Local Notation WU := (WU st0).
Local Notation Rej := (Rejected st0 rs).

Definition anyV (p : Z) : Prop := lbV p \/ gbV p.

(* the line [s, e) cannot take the next boundary of kind K: up to some q >= e no boundary of kind K lies strictly after e,
   and the line extended to q is too wide (q = e: the line itself is too wide - the unit that cannot fit) *)
Definition NTW (K : Z -> Prop) (mw pdir s e : Z) : Prop :=
  exists q, e <= q /\ (forall p, e < p < q -> K p -> False) /\ Rej mw pdir s q.

Definition PostGi (lc : line_cfg) (pdir s hi : Z) (w' : W) (d : bool) : Prop :=
  d = false -> lc_truncating lc = false ->
  NTW lbV (lc_max lc) pdir s (best_end w') /\ NTW anyV (lc_max lc) pdir s (best_end w') /\ best_end w' <= hi.

Lemma WU_same : forall w w', w_st w' = w_st w -> s_alt (w_sc w') = s_alt (w_sc w) -> s_alt_adv (w_sc w') = s_alt_adv (w_sc w) ->
  WU w -> WU w'.
Proof. intros w w' A B C H. unfold Proofs.WrapGreedy.WU in *. rewrite A, B, C. exact H. Qed.

Lemma inner_G : forall fuel w wopt lc w' d,
  JT n w -> OrdI w -> 1 <= b_wpos (w_br w) <= n -> fst (b_unusedW (w_br w)) = b_wpos (w_br w) - 1 ->
  fst wopt = b_wpos (w_br w) - 1 -> XI n w -> SK w ->
  (forall p, best_end w < p -> lbV p -> b_wpos (w_br w) <= p) ->
  (has_best w = true -> best_end w <= fst (b_prevW (w_br w)) + 1 \/ best_end w <= fst (b_unusedG (w_br w)) + 1) ->
  (b_isUnusedW (w_br w) = true \/ has_best w = false \/ lc_truncating lc = true) ->
  (lc_truncating lc = false -> has_best w = false -> CBall st0 rs (fst wopt + 1) /\ w_start w <= fst wopt) ->
  (forall q, best_end w < q <= n -> gbV q -> UG (w_br w) q) ->
  (fst (b_prevW (w_br w)) + 1 <= best_end w \/ fst (b_prevW (w_br w)) <= 0) ->
  WU w -> best_end w <= fst wopt + 1 ->
  (lc_truncating lc = false -> Rej (lc_max lc) (c_dir (w_cfg w)) (w_start w) (fst wopt + 1)) ->
  inner_loop fuel w wopt lc = Ok (w', d) -> PostGi lc (c_dir (w_cfg w)) (w_start w) (fst wopt + 1) w' d.
Proof.
  induction fuel as [|fuel IH]; intros w wopt lc w' d HT HO HW HU HWo HX HK Ki OB Fi Vw Gg Pp HWU Hbw Hrej H; cbn [inner_loop] in H; [discriminate|].
  destruct (JT_checkpoint n w HT) as (T1 & Csv & Calt & Cbe & Cbr & Cbest).
  pose proof (best_end_ge n w (proj1 HT)) as BG.
  pose proof (XI_checkpoint n w HX) as XC1.
  assert (St1 : w_st (checkpoint w) = w_st w) by (destruct w; reflexivity).
  assert (Rn1 : w_runs (checkpoint w) = w_runs w) by (destruct w; reflexivity).
  assert (Cf1 : w_cfg (checkpoint w) = w_cfg w) by (destruct w; reflexivity).
  assert (WU1 : WU (checkpoint w)) by (unfold Proofs.WrapGreedy.WU in *; destruct w; exact HWU).
  assert (WS1 : s_save_adv (w_sc (checkpoint w)) <= rsum st0 (s_save (w_sc (checkpoint w)))).
  { destruct HWU as (_ & _ & HU'). destruct w; exact HU'. }
  set (w1 := checkpoint w) in *.
  destruct (next_grapheme_break (br_fuel w1) (w_br w1)) as [[b1 ro]| | |] eqn:NG; cbn [bind fst snd] in H; try discriminate.
  pose proof T1 as ((_ & B1 & _) & _).
  destruct (ngb_spec n _ _ _ _ B1 NG) as (Bb1 & SW & UGm & X & Y). rewrite Cbr in SW, UGm, X, Y.
  destruct SW as (S1 & S2 & S3 & S4 & S5).
  pose proof (JT_set_br n w1 b1 T1 Bb1) as T2.
  destruct (set_br_proj w1 b1) as (Q1 & Q2 & Q3 & Q4 & Q5).
  assert (Q6 : best_end (set_br w1 b1) = best_end w) by (rewrite best_end_set_br; exact Cbe).
  assert (Q7 : w_start w1 = w_start w) by (destruct w; reflexivity).
  pose proof (XI_set_br n w1 b1 XC1) as XC2.
  assert (St2 : w_st (set_br w1 b1) = w_st w) by (rewrite <- St1; destruct w1; reflexivity).
  assert (Rn2 : w_runs (set_br w1 b1) = w_runs w) by (rewrite <- Rn1; destruct w1; reflexivity).
  assert (Cf2 : w_cfg (set_br w1 b1) = w_cfg w) by (rewrite <- Cf1; destruct w1; reflexivity).
  assert (WU2 : WU (set_br w1 b1)) by (unfold Proofs.WrapGreedy.WU in *; destruct w1; exact WU1).
  assert (WS2 : s_save_adv (w_sc (set_br w1 b1)) <= rsum st0 (s_save (w_sc (set_br w1 b1)))) by (destruct w1; exact WS1).
  set (w2 := set_br w1 b1) in *.
  rewrite Calt in Q1. rewrite Csv in Q5. rewrite Cbest in Q4. rewrite Q7 in Q3.
  destruct (Bk_ug_n n _ Bb1) as (G1 & G2 & G3).
  pose proof Bb1 as (_ & _ & _ & Hpw1 & _).
  set (b := w_br w) in *.
  assert (GUx : forall q, best_end w < q <= n -> gbV q ->
            match ro with
            | Some o => q = fst o + 1 \/ (fst o + 1 < q /\ UG b1 q)
            | None => UG b1 q /\ fst (b_unusedW b) + 1 < q
            end).
  { intros q Hq Hv.
    pose proof (ngb_U n _ _ _ _ B1 NG q ltac:(lia) ltac:(rewrite Cbr; destruct HK as (_ & _ & K3); fold b in K3; rewrite K3; exact (proj1 Hv))
                  ltac:(rewrite Cbr; apply Gg; assumption)) as Q.
    rewrite Cbr in Q. fold b in Q. destruct Q as [[Qa Qb]|Q]; [exfalso; lia|exact Q]. }
  fold b in HW, HU, HWo.
  (* the two ways out through the pending UAX #14 option *)
  assert (ViaW : forall K : Z -> Prop, lc_truncating lc = false ->
            (forall p, best_end w < p < fst wopt + 1 -> K p -> False) ->
            NTW K (lc_max lc) (c_dir (w_cfg w)) (w_start w) (best_end w)).
  { intros K Hlc HKn. exists (fst wopt + 1). split; [exact Hbw|]. split; [exact HKn|exact (Hrej Hlc)]. }
  assert (NoLb : forall p, best_end w < p < fst wopt + 1 -> lbV p -> False).
  { intros p Hp Hv. specialize (Ki p ltac:(lia) Hv). fold b in Ki. lia. }
  destruct ro as [opt|].
  2:{ (* the end of the loop *)
      cbv beta iota zeta in H.
      assert (Rw2 : restore w2 = w2) by (unfold w2, w1; destruct w as [? ? ? ? ? ? ? ? ? [? ? ? ? ?] ?]; reflexivity).
      unfold word_fallback in H.
      destruct (negb (lc_truncating lc) && negb (has_best w2)) eqn:FB.
      2:{ injection H as <- <-. intros _ Hlc. rewrite Q6. split; [apply ViaW; [exact Hlc|exact NoLb]|]. split; [|exact Hbw].
          apply ViaW; [exact Hlc|]. intros p Hp [Hv|Hv]; [exact (NoLb p Hp Hv)|].
          destruct (GUx p ltac:(lia) Hv) as [_ Qg]. lia. }
      apply andb_prop in FB. destruct FB as [FB1 FB2]. apply negb_true_iff in FB1, FB2.
      rewrite (has_best_same w w2 Q4) in FB2. rewrite Rw2 in H.
      destruct (Vw FB1 FB2) as [V1 V2].
      assert (Hord : s_alt (w_sc w2) <> [] -> lend (w_start w2) (s_alt (w_sc w2)) <= fst wopt).
      { rewrite Q1. rewrite (JT_no_best_alt n w HT FB2). congruence. }
      destruct (pbo_safe2 n w2 wopt lc (proj1 (proj1 T2)) XC2 ltac:(lia) Hord) as (w3 & r & cand & PB & XC3 & Sk3 & Fin3 & Inv3).
      rewrite PB in H. cbn [bind] in H.
      destruct (JP_pbo n w2 wopt lc w3 r cand (proj1 T2) ltac:(lia) Hord PB) as (P3 & F3 & BE3 & LE3 & C3 & L3).
      destruct F3 as (_ & _ & F3s & _ & _ & _ & F3b & F3v & F3best).
      rewrite Q2 in F3b. rewrite Q5 in F3v. rewrite Q4 in F3best. rewrite Q3 in F3s. rewrite Q6 in BE3.
      rewrite Q3, St2, Rn2 in Inv3.
      cbv beta iota zeta in H.
      assert (Hcase : (r = BreakInvalid /\ w' = restore w3 /\ d = false) \/ (r <> BreakInvalid /\ w' = mark_best w3 [cand] /\ d = false)).
      { destruct r; injection H as <- <-; first [left; repeat split; reflexivity | right; repeat split; try reflexivity; discriminate]. }
      clear H. destruct Hcase as [(Hr & -> & ->)|(Hr & -> & ->)].
      - exfalso. destruct (Inv3 Hr) as [I|I]; [lia|]. apply I. apply (SK_CB attrs st0 rs); assumption.
      - intros _ Hlc.
        destruct (C3 Hr) as (C31 & C32 & C33). rewrite Q3 in C31.
        assert (Hsv : lend (w_start w3) (s_save (w_sc w3)) <= fst wopt + 1).
        { rewrite F3v, F3s, (JT_no_best_alt n w HT FB2). unfold lend; cbn. lia. }
        destruct (JT_mark_best n w3 cand (fst wopt + 1) P3 C33 C32 Hsv ltac:(lia)) as [T4 BE4].
        rewrite BE4.
        assert (E : forall K : Z -> Prop, NTW K (lc_max lc) (c_dir (w_cfg w)) (w_start w) (fst wopt + 1)).
        { intros K. exists (fst wopt + 1). split; [lia|]. split; [intros p Hp; lia|exact (Hrej Hlc)]. }
        split; [apply E|split; [apply E|lia]]. }
  destruct X as (X1 & X2 & X3 & X4 & X5 & X6 & X7 & X8).
  assert (X1' : fst opt = fst (b_unusedG b1)) by (rewrite X1; reflexivity).
  assert (Hord : s_alt (w_sc w2) <> [] -> lend (w_start w2) (s_alt (w_sc w2)) <= fst opt).
  { rewrite Q1, Q3. intros Hne. destruct (HO Hne) as [O1|O1]; fold b in O1; lia. }
  destruct (pbo_safe2 n w2 opt lc (proj1 (proj1 T2)) XC2 ltac:(lia) Hord) as (w3 & r & cand & PB & XC3 & Sk3 & Fin3 & Inv3).
  rewrite PB in H. cbn [bind] in H.
  destruct (JP_pbo n w2 opt lc w3 r cand (proj1 T2) ltac:(lia) Hord PB) as (P3 & F3 & BE3 & LE3 & C3 & L3).
  destruct (pbo_kind _ _ _ _ _ _ PB) as (K1 & K2 & K3).
  assert (Rn2' : w_runs w2 = rs) by (rewrite Rn2; exact (proj1 (proj2 HK))).
  destruct (pbo_U st0 rs HRE _ _ _ _ _ _ Rn2' WU2 PB) as [WU3 CW3].
  destruct (pbo_save _ _ _ _ _ _ PB) as (Sf2 & Sf1).
  destruct (process_fits_width _ _ _ _ _ _ PB) as (PW1 & PW2 & PW3 & PW4).
  destruct F3 as (F3c & _ & F3s & _ & F3r & _ & F3b & F3v & F3best).
  rewrite Q2 in F3b. rewrite Q5 in F3v. rewrite Q4 in F3best. rewrite Q3 in F3s, LE3. rewrite Q1 in LE3. rewrite Q6 in BE3.
  rewrite Rn2 in F3r. rewrite St2 in Sk3. rewrite Cf2 in F3c.
  assert (HB3 : has_best w3 = has_best w) by (apply has_best_same; exact F3best).
  assert (Mw : Bk n (mark_word_unused b1)) by (apply Bk_mark_word; [exact Bb1|rewrite S1; exact HW|rewrite S1, S2; exact HU]).
  rewrite Q1, Q3 in Hord. rewrite Q3 in C3.
  assert (Hsv : r <> BreakInvalid -> lend (w_start w3) (s_save (w_sc w3)) <= fst opt).
  { intros Hr. destruct (C3 Hr) as (C31 & _). rewrite F3v, F3s. destruct (s_alt (w_sc w)) eqn:A; [unfold lend; cbn; lia|].
    apply Hord. congruence. }
  assert (HK3 : SK w3).
  { destruct HK as (K1' & K2' & K3'). split; [rewrite Sk3; exact K1'|]. split; [rewrite F3r; exact K2'|]. rewrite F3b. rewrite S5. exact K3'. }
  assert (Hmono : r <> BreakInvalid -> best_end w <= fst opt + 1).
  { intros Hr. destruct (C3 Hr) as (C31 & _). destruct (has_best w) eqn:HBw.
    - fold b in OB. destruct (OB eq_refl) as [O|O]; lia.
    - rewrite (best_end_no_best w HBw). lia. }
  assert (Best1 : r <> BreakInvalid -> XI n (mark_best w3 [cand]) /\ JT n (mark_best w3 [cand])
                   /\ best_end (mark_best w3 [cand]) = fst opt + 1).
  { intros Hr. destruct (C3 Hr) as (C31 & C32 & C33). destruct (Fin3 Hr) as [FP FC].
    destruct (JT_mark_best n w3 cand (fst opt + 1) P3 C33 C32 ltac:(specialize (Hsv Hr); lia) ltac:(lia)) as [T4 BE4].
    split; [eapply XI_mark_best1; eauto|split; [exact T4|exact BE4]]. }
  destruct (mark_best_proj w3 [cand]) as (M1 & M2 & M3 & M4).
  destruct (restore_proj w3) as (R1 & R2 & R3 & R4).
  assert (HBr : has_best (restore w3) = has_best w) by (apply has_best_same; rewrite R4; exact F3best).
  (* a candidate measured wider than maxWidth: the line extended to it is too wide on the entry store *)
  assert (RejO : r = CannotFit \/ r = NewLineBeforeBreak -> Rej (lc_max lc) (c_dir (w_cfg w)) (w_start w) (fst opt + 1)).
  { intros Hr. assert (Hr' : r <> BreakInvalid) by (destruct Hr; subst r; discriminate).
    destruct (C3 Hr') as (C31 & C32 & C33).
    exists (s_alt (w_sc w3) ++ [cand]). split; [rewrite <- F3s; exact C33|].
    split.
    - destruct XC3 as (_ & XA & _). destruct (Fin3 Hr') as [FP _].
      destruct HK3 as (K1' & K2' & _). rewrite K2' in XA, FP.
      apply (Forall_PO_sk (w_st w3) st0 rs); [exact K1'|]. apply Forall_app. split; [exact XA|constructor; [exact FP|constructor]].
    - pose proof (PW4 Hr) as Wd. pose proof (CW3 Hr') as V. rewrite F3c in V. lia. }
  destruct r.
  - (* BreakInvalid *)
    assert (E : PostGi lc (c_dir (w_cfg (restore w3))) (w_start (restore w3)) (fst wopt + 1) w' d).
    { apply (IH (restore w3) wopt lc w' d); [apply JT_restore; exact P3| | | | |apply XI_restore; exact XC3| | | | | | | | | | |exact H].
      + unfold OrdI. rewrite R1, R2, R3, F3v, F3s, F3b. intros Hne. destruct (HO Hne) as [O|O]; fold b in O; [left; rewrite S3; exact O|right; lia].
      + rewrite R2, F3b, S1. exact HW.
      + rewrite R2, F3b, S1, S2. exact HU.
      + rewrite R2, F3b, S1. exact HWo.
      + destruct HK3 as (K1' & K2' & K3'). split; [destruct w3; exact K1'|]. split; [destruct w3; exact K2'|]. rewrite R2. exact K3'.
      + rewrite best_end_restore, BE3, R2, F3b, S1. exact Ki.
      + rewrite HBr, best_end_restore, BE3, R2, F3b, S3. intros Hh. fold b in OB. destruct (OB Hh) as [O|O]; [left; exact O|right; lia].
      + rewrite R2, F3b, S4, HBr. exact Fi.
      + rewrite HBr, R3, F3s. exact Vw.
      + rewrite best_end_restore, BE3, R2, F3b. intros q Hq Hv. destruct (GUx q Hq Hv) as [Qc|[_ Qc]]; [exfalso|exact Qc].
        destruct (Inv3 eq_refl) as [I|I]; [rewrite Q3 in I; lia|]. apply I. replace (fst opt + 1) with q by lia.
        rewrite St2, Rn2. apply (SK_CB attrs st0 rs); [exact HK|exact (proj2 Hv)].
      + rewrite best_end_restore, BE3, R2, F3b, S3. exact Pp.
      + destruct WU3 as (U1 & U2 & _). unfold Proofs.WrapGreedy.WU.
        replace (w_st (restore w3)) with (w_st w3) by (destruct w3; reflexivity).
        replace (s_alt_adv (w_sc (restore w3))) with (s_save_adv (w_sc w3)) by (destruct w3; reflexivity).
        rewrite R1, Sf1, Sf2. split; [exact U1|]. split; [exact U2|exact WS2].
      + rewrite best_end_restore, BE3. exact Hbw.
      + replace (w_cfg (restore w3)) with (w_cfg w3) by (destruct w3; reflexivity). rewrite R3, F3c, F3s. exact Hrej. }
    replace (w_cfg (restore w3)) with (w_cfg w3) in E by (destruct w3; reflexivity). rewrite R3, F3c, F3s in E. exact E.
  - (* EndLine *) cbv beta iota zeta in H. injection H as <- <-. intros Q; discriminate Q.
  - (* Truncated *) cbv beta iota zeta in H. injection H as <- <-. intros Q; discriminate Q.
  - (* NewLineBeforeBreak *)
    cbv beta iota zeta in H. rewrite R2, F3b in H. injection H as <- <-.
    intros _ Hlc. rewrite best_end_set_br, best_end_restore, BE3.
    split; [apply ViaW; [exact Hlc|exact NoLb]|]. split; [|exact Hbw].
    exists (fst opt + 1). split; [apply Hmono; discriminate|]. split; [|apply RejO; right; reflexivity].
    intros p Hp [Hv|Hv]; [apply (NoLb p); [lia|exact Hv]|].
    destruct (GUx p ltac:(lia) Hv) as [Qc|[Qc _]]; lia.
  - (* Fits *)
    destruct (Best1 ltac:(discriminate)) as (B1x & T4 & BE4). rewrite F3b in H.
    pose proof (JT_set_br n _ _ T4 Mw) as T5.
    destruct (set_br_proj (mark_best w3 [cand]) (mark_word_unused b1)) as (U1 & U2 & U3 & U4 & U5).
    destruct (C3 ltac:(discriminate)) as (C31 & C32 & C33).
    destruct (chain_app_lend _ _ _ _ C33 C32) as [CL _].
    assert (HB5 : has_best (set_br (mark_best w3 [cand]) (mark_word_unused b1)) = true).
    { rewrite (has_best_same (mark_best w3 [cand]) _ U4). apply has_best_mark. }
    set (wf := set_br (mark_best w3 [cand]) (mark_word_unused b1)) in *.
    assert (Cff : w_cfg wf = w_cfg w3 /\ w_start wf = w_start w3) by (unfold wf; destruct w3; split; reflexivity).
    assert (E : PostGi lc (c_dir (w_cfg wf)) (w_start wf) (fst wopt + 1) w' d).
    { apply (IH wf wopt lc w' d); [exact T5| | | | |apply XI_set_br; exact B1x| | | | | | | | | | |exact H].
      + unfold OrdI. rewrite U1, U2, U3, M1, M3. cbn. intros _. right. lia.
      + rewrite U2; cbn. rewrite S1; exact HW.
      + rewrite U2; cbn. rewrite S1, S2; exact HU.
      + rewrite U2; cbn. rewrite S1; exact HWo.
      + destruct HK3 as (K1' & K2' & K3'). split; [unfold wf; destruct w3; exact K1'|]. split; [unfold wf; destruct w3; exact K2'|]. rewrite U2. cbn. rewrite S5.
        destruct HK as (_ & _ & K4). exact K4.
      + unfold wf. rewrite best_end_set_br, BE4. fold wf. rewrite U2. cbn. rewrite S1. intros p Hp Hv. apply Ki; [|exact Hv].
        specialize (Hmono ltac:(discriminate)). lia.
      + intros _. right. unfold wf. rewrite best_end_set_br, BE4. fold wf. rewrite U2. cbn. lia.
      + left. rewrite U2. reflexivity.
      + intros _ Q. rewrite HB5 in Q. discriminate Q.
      + unfold wf. rewrite best_end_set_br, BE4. fold wf. rewrite U2. intros q Hq Hv. specialize (Hmono ltac:(discriminate)).
        destruct (GUx q ltac:(lia) Hv) as [Qc|[_ Qc]]; [lia|]. unfold UG in *. cbn. exact Qc.
      + unfold wf. rewrite best_end_set_br, BE4. fold wf. rewrite U2. cbn. rewrite S3. lia.
      + unfold Proofs.WrapGreedy.WU in *. unfold wf. destruct w3; exact WU3.
      + unfold wf. rewrite best_end_set_br, BE4. lia.
      + rewrite (proj1 Cff), (proj2 Cff), F3c, F3s. exact Hrej. }
    rewrite (proj1 Cff), (proj2 Cff), F3c, F3s in E. exact E.
  - (* CannotFit *)
    destruct (lc_truncating lc) eqn:Hlc.
    + cbv beta iota zeta in H. injection H as <- <-. intros Q; discriminate Q.
    + rewrite F3b in H. cbv beta iota zeta in H. injection H as <- <-.
      destruct (Best1 ltac:(discriminate)) as (B1x & T4 & BE4).
      intros _ _. rewrite best_end_set_br, BE4.
      assert (E : forall K : Z -> Prop, NTW K (lc_max lc) (c_dir (w_cfg w)) (w_start w) (fst opt + 1)).
      { intros K. exists (fst opt + 1). split; [lia|]. split; [intros p Hp; lia|apply RejO; left; reflexivity]. }
      split; [apply E|split; [apply E|lia]].
Qed.


(* the UAX #14 loop *)
Definition PostGo (lc : line_cfg) (pdir s pol : Z) (w' : W) (d : bool) : Prop :=
  d = false -> lc_truncating lc = false ->
  (mandatory_boundary attrs (best_end w') = true /\ line_boundary attrs (best_end w') = true)
  \/ (NTW lbV (lc_max lc) pdir s (best_end w')
      /\ ((pol = 2 \/ (pol = 0 /\ ~ lbV (best_end w'))) -> NTW anyV (lc_max lc) pdir s (best_end w'))
      /\ ((pol = 0 /\ ~ lbV (best_end w')) -> forall p, s < p < best_end w' -> lbV p -> False)).

(* the grapheme loop was entered with every valid UAX #14 boundary beyond the line start at or after hi, or the policy is not
   WhenNecessary *)
Lemma PostGi_Go : forall lc pdir s hi pol w' d, PostGi lc pdir s hi w' d ->
  (lc_truncating lc = false -> pol = 0 -> forall p, s < p < hi -> lbV p -> False) -> PostGo lc pdir s pol w' d.
Proof.
  intros lc pdir s hi pol w' d H Hn Hd Hlc. destruct (H Hd Hlc) as (A & B & C). right. split; [exact A|]. split; [intros _; exact B|].
  intros [Hp _] p Hpp Hv. apply (Hn Hlc Hp p); [lia|exact Hv].
Qed.

Lemma policy_cfg : forall w w', w_cfg w' = w_cfg w ->
  policy_never w' = (c_policy (w_cfg w) =? 1) /\ policy_when_necessary w' = (c_policy (w_cfg w) =? 0).
Proof. intros w w' H. unfold policy_never, policy_when_necessary. rewrite H. split; reflexivity. Qed.

Lemma outer_G : forall fuel w lc w' d,
  JT n w -> OrdO w -> XI n w -> SK w ->
  (forall p, best_end w < p -> lbV p -> U (w_br w) p) ->
  (has_best w = true -> best_end w <= fst (b_unusedW (w_br w)) + 1 /\ b_isUnusedW (w_br w) = false) ->
  GP n attrs st0 rs (best_end w) (w_br w) ->
  WU w -> BW (w_br w) -> (has_best w = true -> lbV (best_end w)) ->
  outer_loop fuel w lc = Ok (w', d) -> PostGo lc (c_dir (w_cfg w)) (w_start w) (c_policy (w_cfg w)) w' d.
Proof.
  induction fuel as [|fuel IH]; intros w lc w' d HT HO HX HK Ko OB Gp HWU HBW HLb H; cbn [outer_loop] in H; [discriminate|].
  destruct (JT_checkpoint n w HT) as (T1 & Csv & Calt & Cbe & Cbr & Cbest).
  pose proof (best_end_ge n w (proj1 HT)) as BG.
  pose proof (XI_checkpoint n w HX) as XC1.
  assert (St1 : w_st (checkpoint w) = w_st w) by (destruct w; reflexivity).
  assert (Rn1 : w_runs (checkpoint w) = w_runs w) by (destruct w; reflexivity).
  assert (Cf1 : w_cfg (checkpoint w) = w_cfg w) by (destruct w; reflexivity).
  assert (WU1 : WU (checkpoint w)) by (unfold Proofs.WrapGreedy.WU in *; destruct w; exact HWU).
  assert (WS1 : s_save_adv (w_sc (checkpoint w)) <= rsum st0 (s_save (w_sc (checkpoint w)))).
  { destruct HWU as (_ & _ & HU'). destruct w; exact HU'. }
  set (w1 := checkpoint w) in *.
  destruct (next_word_break (w_br w1)) as [b1 ro] eqn:NW.
  pose proof T1 as ((_ & B1 & _) & _).
  destruct (nwb_spec n _ _ _ B1 NW) as (Bb1 & SG1 & FW & UW & X). rewrite Cbr in SG1, UW, X, B1, NW.
  destruct SG1 as (S1 & S2 & S3 & S5).
  pose proof (JT_set_br n w1 b1 T1 Bb1) as T2.
  destruct (set_br_proj w1 b1) as (Q1 & Q2 & Q3 & Q4 & Q5).
  assert (Q6 : best_end (set_br w1 b1) = best_end w) by (rewrite best_end_set_br; exact Cbe).
  assert (Q7 : w_start w1 = w_start w) by (destruct w; reflexivity).
  pose proof (XI_set_br n w1 b1 XC1) as XC2.
  assert (St2 : w_st (set_br w1 b1) = w_st w) by (rewrite <- St1; destruct w1; reflexivity).
  assert (Rn2 : w_runs (set_br w1 b1) = w_runs w) by (rewrite <- Rn1; destruct w1; reflexivity).
  assert (Cf2 : w_cfg (set_br w1 b1) = w_cfg w) by (rewrite <- Cf1; destruct w1; reflexivity).
  assert (WU2 : WU (set_br w1 b1)) by (unfold Proofs.WrapGreedy.WU in *; destruct w1; exact WU1).
  assert (WS2 : s_save_adv (w_sc (set_br w1 b1)) <= rsum st0 (s_save (w_sc (set_br w1 b1)))) by (destruct w1; exact WS1).
  set (w2 := set_br w1 b1) in *.
  rewrite Calt in Q1. rewrite Csv in Q5. rewrite Cbest in Q4. rewrite Q7 in Q3.
  destruct (Bk_ug_n n _ Bb1) as (G1 & G2 & G3).
  set (b := w_br w) in *.
  destruct ro as [opt|].
  2:{ cbv beta iota zeta in H. injection H as <- <-. intros Q; discriminate Q. }
  destruct X as (X1 & X3 & X6 & X7 & X8 & X9 & X10).
  assert (X1' : fst opt = fst (b_unusedW b1)) by (rewrite X1; reflexivity).
  destruct (nwb_gap b b1 opt ltac:(destruct B1 as (_ & B1 & _); exact B1) NW) as (Wle & Gap).
  destruct (nwb_canon b b1 (Some opt) HBW NW) as (BW1 & _ & _ & Can). destruct (Can opt eq_refl) as [[CanL CanM] _].
  destruct HK as (HK1 & HK2 & HK3). fold b in HK3. rewrite HK3 in Gap, CanL, CanM.
  assert (P0 : forall p, best_end w < p -> lbV p -> b_wpos b1 <= p).
  { intros p Hp Hv. apply Gap; [apply Ko; assumption|exact (proj1 Hv)]. }
  assert (Hord : s_alt (w_sc w2) <> [] -> lend (w_start w2) (s_alt (w_sc w2)) <= fst opt).
  { rewrite Q1, Q3. intros Hne. destruct (HO Hne) as [O1 O2]; fold b in O1; lia. }
  destruct (pbo_safe2 n w2 opt lc (proj1 (proj1 T2)) XC2 ltac:(lia) Hord) as (w3 & r & cand & PB & XC3 & Sk3 & Fin3 & Inv3).
  rewrite PB in H. cbn [bind] in H.
  destruct (JP_pbo n w2 opt lc w3 r cand (proj1 T2) ltac:(lia) Hord PB) as (P3 & F3 & BE3 & LE3 & C3 & L3).
  destruct (pbo_kind _ _ _ _ _ _ PB) as (K1 & K2 & K3).
  assert (Rn2' : w_runs w2 = rs) by (rewrite Rn2; exact HK2).
  destruct (pbo_U st0 rs HRE _ _ _ _ _ _ Rn2' WU2 PB) as [WU3 CW3].
  destruct (pbo_save _ _ _ _ _ _ PB) as (Sf2 & Sf1).
  destruct (process_fits_width _ _ _ _ _ _ PB) as (PW1 & PW2 & PW3 & PW4).
  destruct F3 as (F3c & _ & F3s & _ & F3r & _ & F3b & F3v & F3best).
  rewrite Q2 in F3b. rewrite Q5 in F3v. rewrite Q4 in F3best. rewrite Q3 in F3s, LE3. rewrite Q1 in LE3. rewrite Q6 in BE3.
  rewrite Rn2 in F3r. rewrite Q3, St2, Rn2 in Inv3. rewrite St2 in Sk3. rewrite Cf2 in F3c.
  assert (HB3 : has_best w3 = has_best w) by (apply has_best_same; exact F3best).
  assert (Mw : Bk n (mark_word_unused b1)) by (apply Bk_mark_word; [exact Bb1|lia|lia]).
  rewrite Q1, Q3 in Hord. rewrite Q3 in C3.
  assert (Hsv : r <> BreakInvalid -> lend (w_start w3) (s_save (w_sc w3)) <= fst opt).
  { intros Hr. destruct (C3 Hr) as (C31 & _). rewrite F3v, F3s. destruct (s_alt (w_sc w)) eqn:A; [unfold lend; cbn; lia|].
    apply Hord. congruence. }
  assert (HK3' : SK w3).
  { split; [rewrite Sk3; exact HK1|]. split; [rewrite F3r; exact HK2|]. rewrite F3b. rewrite S5. exact HK3. }
  pose proof Bb1 as (_ & _ & _ & Hpw1 & _).
  destruct Gp as (Gg & Pp & Pu). fold b in Gg, Pp, Pu.
  assert (Gg1 : forall q, best_end w < q <= n -> gbV q -> UG b1 q).
  { intros q Hq Hv. specialize (Gg q Hq Hv). unfold UG in *. rewrite S1, S3. exact Gg. }
  assert (Pp1 : fst (b_prevW b1) + 1 <= best_end w \/ fst (b_prevW b1) <= 0).
  { destruct (b_isUnusedW b) eqn:FB.
    - rewrite (nwb_prev_reissue _ _ _ NW FB). exact Pp.
    - rewrite (X9 eq_refl). exact (Pu eq_refl). }
  assert (Hmono : r <> BreakInvalid -> best_end w <= fst opt + 1).
  { intros Hr. destruct (C3 Hr) as (C31 & _). destruct (has_best w) eqn:HBw.
    - fold b in OB. destruct (OB eq_refl) as [O _]. lia.
    - rewrite (best_end_no_best w HBw). lia. }
  assert (GPm : r <> BreakInvalid -> forall bx, b_gpos bx = b_gpos b1 -> b_isUnusedG bx = b_isUnusedG b1 -> b_prevW bx = b_prevW b1 ->
            b_unusedW bx = b_unusedW b1 -> GP n attrs st0 rs (fst opt + 1) bx).
  { intros Hr bx E1 E2 E3 E4. specialize (Hmono Hr). split; [|split].
    - intros q Hq Hv. pose proof (Gg1 q ltac:(lia) Hv) as Q. unfold UG in *. rewrite E1, E2. exact Q.
    - rewrite E3. lia.
    - intros _. rewrite E4. lia. }
  destruct (mark_best_proj w3 [cand]) as (M1 & M2 & M3 & M4).
  destruct (restore_proj w3) as (R1 & R2 & R3 & R4).
  assert (HBr : has_best (restore w3) = has_best w) by (apply has_best_same; rewrite R4; exact F3best).
  assert (Best1 : r <> BreakInvalid -> XI n (mark_best w3 [cand]) /\ JT n (mark_best w3 [cand])
                   /\ best_end (mark_best w3 [cand]) = fst opt + 1).
  { intros Hr. destruct (C3 Hr) as (C31 & C32 & C33). destruct (Fin3 Hr) as [FP FC].
    destruct (JT_mark_best n w3 cand (fst opt + 1) P3 C33 C32 ltac:(specialize (Hsv Hr); lia) ltac:(lia)) as [T4 BE4].
    split; [eapply XI_mark_best1; eauto|split; [exact T4|exact BE4]]. }
  (* the option read is a valid UAX #14 boundary when it is not rejected *)
  assert (LbO : r <> BreakInvalid -> lbV (fst opt + 1)).
  { intros Hr. split; [exact CanL|]. destruct (Fin3 Hr) as [_ FC]. eapply (SK_CB' attrs st0 rs); [exact HK3'|exact FC]. }
  (* a candidate measured wider than maxWidth: the line extended to it is too wide on the entry store *)
  assert (RejO : r = CannotFit \/ r = NewLineBeforeBreak -> Rej (lc_max lc) (c_dir (w_cfg w)) (w_start w) (fst opt + 1)).
  { intros Hr. assert (Hr' : r <> BreakInvalid) by (destruct Hr; subst r; discriminate).
    destruct (C3 Hr') as (C31 & C32 & C33).
    exists (s_alt (w_sc w3) ++ [cand]). split; [rewrite <- F3s; exact C33|].
    split.
    - destruct XC3 as (_ & XA & _). destruct (Fin3 Hr') as [FP _].
      destruct HK3' as (K1' & K2' & _). rewrite K2' in XA, FP.
      apply (Forall_PO_sk (w_st w3) st0 rs); [exact K1'|]. apply Forall_app. split; [exact XA|constructor; [exact FP|constructor]].
    - pose proof (PW4 Hr) as Wd. pose proof (CW3 Hr') as V. rewrite F3c in V. lia. }
  (* the grapheme loop entered from a state that carries the checkpoint of this iteration *)
  assert (G : forall wx, JP n wx -> s_save (w_sc wx) = s_alt (w_sc w) -> w_start wx = w_start w ->
              b_prevW (w_br wx) = b_prevW b1 -> b_wpos (w_br wx) = b_wpos b1 -> b_unusedW (w_br wx) = b_unusedW b1 ->
              b_gpos (w_br wx) = b_gpos b1 -> b_isUnusedG (w_br wx) = b_isUnusedG b1 ->
              XI n wx -> SK wx -> best_end wx = best_end w -> has_best wx = has_best w ->
              (b_isUnusedW (w_br wx) = true \/ has_best wx = false \/ lc_truncating lc = true) ->
              (lc_truncating lc = false -> has_best wx = false -> CBall st0 rs (fst opt + 1) /\ w_start wx <= fst opt) ->
              w_st wx = w_st w3 -> s_save_adv (w_sc wx) = s_save_adv (w_sc w3) -> w_cfg wx = w_cfg w3 ->
              r <> BreakInvalid -> (lc_truncating lc = false -> r = CannotFit \/ r = NewLineBeforeBreak) ->
              inner_loop (br_fuel wx) (restore wx) opt lc = Ok (w', d) -> PostGi lc (c_dir (w_cfg w)) (w_start w) (fst opt + 1) w' d).
  { intros wx Px Sx Stx Pwx Wx Ux Gpx Gfx Xx Kx Bx Hbx Fx Vx Stw Sax Cfx Hnr Hrr Hx. destruct (restore_proj wx) as (Rx1 & Rx2 & Rx3 & Rx4).
    assert (Hbr : has_best (restore wx) = has_best w) by (rewrite (has_best_same wx (restore wx) Rx4); exact Hbx).
    assert (E : PostGi lc (c_dir (w_cfg (restore wx))) (w_start (restore wx)) (fst opt + 1) w' d).
    { apply (inner_G (br_fuel wx) (restore wx) opt lc w' d); [apply JT_restore; exact Px| | | | |apply XI_restore; exact Xx| | | | | | | | | | |exact Hx].
      - unfold OrdI. rewrite Rx1, Rx2, Rx3, Sx, Stx, Pwx. intros Hne. left. destruct (HO Hne) as [O1 O2]. fold b in O1, O2.
        destruct (b_isUnusedW b) eqn:FB; [cbn in O2; lia|]. rewrite (X9 eq_refl). exact O1.
      - rewrite Rx2, Wx. lia.
      - rewrite Rx2, Wx, Ux. lia.
      - rewrite Rx2, Wx. lia.
      - destruct Kx as (K1' & K2' & K3'). split; [destruct wx; exact K1'|]. split; [destruct wx; exact K2'|]. rewrite Rx2. exact K3'.
      - rewrite best_end_restore, Bx, Rx2, Wx. exact P0.
      - rewrite Hbr, best_end_restore, Bx, Rx2, Pwx. intros Hh. left. fold b in OB. destruct (OB Hh) as [O1 O2].
        rewrite (X9 O2). exact O1.
      - rewrite Rx2, (has_best_same wx (restore wx) Rx4). exact Fx.
      - rewrite (has_best_same wx (restore wx) Rx4), Rx3. exact Vx.
      - rewrite best_end_restore, Bx, Rx2. intros q Hq Hv. pose proof (Gg1 q Hq Hv) as Q. unfold UG in *. rewrite Gpx, Gfx. exact Q.
      - rewrite best_end_restore, Bx, Rx2, Pwx. exact Pp1.
      - destruct WU3 as (U1 & U2 & _). unfold Proofs.WrapGreedy.WU.
        replace (w_st (restore wx)) with (w_st wx) by (destruct wx; reflexivity).
        replace (s_alt_adv (w_sc (restore wx))) with (s_save_adv (w_sc wx)) by (destruct wx; reflexivity).
        rewrite Rx1, Stw, Sax, Sx, <- F3v, Sf1, Sf2. split; [exact U1|]. split; [exact U2|exact WS2].
      - rewrite best_end_restore, Bx. apply Hmono. exact Hnr.
      - replace (w_cfg (restore wx)) with (w_cfg wx) by (destruct wx; reflexivity). rewrite Rx3, Cfx, F3c, Stx. intros Hlc. apply RejO. exact (Hrr Hlc). }
    replace (w_cfg (restore wx)) with (w_cfg wx) in E by (destruct wx; reflexivity). rewrite Rx3, Cfx, F3c, Stx in E. exact E. }
  assert (Pol3 : forall wx, w_cfg wx = w_cfg w3 ->
            policy_never wx = (c_policy (w_cfg w) =? 1) /\ policy_when_necessary wx = (c_policy (w_cfg w) =? 0)).
  { intros wx Hc. apply policy_cfg. rewrite Hc. exact F3c. }
  destruct r.
  - (* BreakInvalid: the option is discarded *)
    cbv beta iota zeta in H. rewrite R2, F3b in H.
    destruct (set_br_proj (restore w3) (discard_word b1)) as (D1 & D2 & D3 & D4 & D5).
    assert (HBd : has_best (set_br (restore w3) (discard_word b1)) = has_best w).
    { rewrite (has_best_same (restore w3) _ D4). exact HBr. }
    set (wd := set_br (restore w3) (discard_word b1)) in *.
    assert (Cfd : w_cfg wd = w_cfg w3) by (unfold wd; destruct w3; reflexivity).
    assert (BEd : best_end wd = best_end w) by (unfold wd; rewrite best_end_set_br, best_end_restore; exact BE3).
    assert (E : PostGo lc (c_dir (w_cfg wd)) (w_start wd) (c_policy (w_cfg wd)) w' d).
    { apply (IH wd lc w' d);
        [apply JT_set_br; [apply JT_restore; exact P3|apply Bk_discard; assumption]| |apply XI_set_br; apply XI_restore; exact XC3| | | | | | | |exact H].
      + unfold OrdO. rewrite D1, D2, D3, R1, R3, F3v, F3s. cbn [discard_word b_unusedW b_isUnusedW]. rewrite FW.
        intros Hne. destruct (HO Hne) as [O1 O2]. fold b in O1, O2.
        destruct (b_isUnusedW b) eqn:FB; [cbn in O2; lia|]. rewrite (X9 eq_refl). split; [exact O1|reflexivity].
      + destruct HK3' as (K1' & K2' & K3'). split; [unfold wd; destruct w3; exact K1'|]. split; [unfold wd; destruct w3; exact K2'|]. rewrite D2. cbn. rewrite <- F3b. exact K3'.
      + intros p Hp Hv. rewrite BEd in Hp. rewrite D2. unfold U. cbn [discard_word b_wpos b_isUnusedW].
        pose proof (P0 p Hp Hv) as Pq.
        left. destruct (Z.eq_dec p (b_wpos b1)) as [E|E]; [exfalso|lia].
        destruct (Inv3 eq_refl) as [I|I]; [lia|]. apply I. replace (fst opt + 1) with p by lia.
        rewrite HK2. apply (CBall_sk st0); [symmetry; exact HK1|exact (proj2 Hv)].
      + rewrite HBd, BEd, D2. cbn [discard_word b_unusedW b_isUnusedW]. rewrite FW.
        intros Hh. fold b in OB. destruct (OB Hh) as [O1 O2]. rewrite (X9 O2). split; [exact O1|reflexivity].
      + rewrite BEd, D2. split; [|split].
        * intros q Hq Hv. pose proof (Gg1 q Hq Hv) as Q. unfold UG in *. cbn. exact Q.
        * cbn. exact Pp1.
        * cbn. intros _. exact Pp1.
      + destruct WU3 as (U1 & U2 & _). unfold Proofs.WrapGreedy.WU.
        replace (w_st wd) with (w_st w3) by (unfold wd; destruct w3; reflexivity).
        replace (s_alt_adv (w_sc wd)) with (s_save_adv (w_sc w3)) by (unfold wd; destruct w3; reflexivity).
        rewrite D1, R1, Sf1, Sf2. split; [exact U1|]. split; [exact U2|exact WS2].
      + rewrite D2. apply BW_discard; [exact BW1|exact FW].
      + rewrite HBd, BEd. exact HLb. }
    rewrite Cfd, F3c, D3, R3, F3s in E. exact E.
  - (* EndLine *) cbv beta iota zeta in H. injection H as <- <-. intros Q; discriminate Q.
  - (* Truncated: the truncating line *)
    assert (Ht : lc_truncating lc = true) by (apply K3; right; reflexivity).
    intros _ Q. congruence.
  - (* NewLineBeforeBreak *)
    cbv beta iota zeta in H. rewrite R2, F3b in H.
    pose proof (JT_set_br n _ _ (JT_restore n w3 P3) Mw) as T5.
    destruct (set_br_proj (restore w3) (mark_word_unused b1)) as (U1 & U2 & U3 & U4 & U5).
    assert (BE5 : best_end (set_br (restore w3) (mark_word_unused b1)) = best_end w) by (rewrite best_end_set_br, best_end_restore; exact BE3).
    assert (HB5 : has_best (set_br (restore w3) (mark_word_unused b1)) = has_best w).
    { rewrite (has_best_same (restore w3) _ U4). exact HBr. }
    assert (Hhb : has_best w = true) by (rewrite <- HB3; apply K1; reflexivity).
    set (wu := set_br (restore w3) (mark_word_unused b1)) in *.
    assert (Cfu : w_cfg wu = w_cfg w3) by (unfold wu; destruct w3; reflexivity).
    destruct (Pol3 wu Cfu) as [Pn Pw]. rewrite Pn, Pw in H.
    destruct ((c_policy (w_cfg w) =? 1) || ((c_policy (w_cfg w) =? 0) && negb (lc_truncating lc))) eqn:EP.
    + injection H as <- <-. intros _ Hlc. right. rewrite BE5. split.
      * exists (fst opt + 1). split; [apply Hmono; discriminate|]. split; [|apply RejO; right; reflexivity].
        intros p Hp Hv. specialize (P0 p ltac:(lia) Hv). lia.
      * split.
        -- intros [Hp2|[Hp0 Hnl]]; exfalso.
           ++ rewrite Hp2 in EP. cbn in EP. discriminate EP.
           ++ apply Hnl. apply HLb. exact Hhb.
        -- intros [_ Hnl]. exfalso. apply Hnl. apply HLb. exact Hhb.
    + apply (PostGi_Go lc _ _ (fst opt + 1)).
      2:{ intros Hlc Hp0. exfalso. rewrite Hp0, Hlc in EP. cbn in EP. discriminate EP. }
      apply (G wu (proj1 T5));
        [rewrite U5; destruct w3; cbn in *; exact F3v|rewrite U3, R3; exact F3s|rewrite U2; reflexivity|rewrite U2; reflexivity
        |rewrite U2; reflexivity|rewrite U2; reflexivity|rewrite U2; reflexivity|apply XI_set_br; apply XI_restore; exact XC3| |exact BE5|exact HB5|left; rewrite U2; reflexivity| | | | |discriminate|intros _; right; reflexivity|exact H].
      * destruct HK3' as (K1' & K2' & K3'). split; [unfold wu; destruct w3; exact K1'|]. split; [unfold wu; destruct w3; exact K2'|]. rewrite U2. cbn. rewrite S5. exact HK3.
      * intros _ Q. rewrite HB5, Hhb in Q. discriminate Q.
      * unfold wu; destruct w3; reflexivity.
      * unfold wu; destruct w3; reflexivity.
      * exact Cfu.
  - (* Fits *)
    destruct (Best1 ltac:(discriminate)) as (B1x & T4 & BE4).
    cbv beta iota zeta in H. destruct (snd opt) eqn:SO.
    + injection H as <- <-. intros _ _. left. rewrite BE4. symmetry in CanM. apply andb_prop in CanM. split; [exact (proj1 CanM)|exact CanL].
    + assert (Cfm : w_cfg (mark_best w3 [cand]) = w_cfg w3) by (destruct w3; reflexivity).
      assert (E : PostGo lc (c_dir (w_cfg (mark_best w3 [cand]))) (w_start (mark_best w3 [cand])) (c_policy (w_cfg (mark_best w3 [cand]))) w' d).
      { apply (IH (mark_best w3 [cand]) lc w' d); [exact T4| |exact B1x| | | | | | | |exact H].
        * unfold OrdO. rewrite M1, M2, M3, F3b, FW. destruct (C3 ltac:(discriminate)) as (C31 & C32 & C33).
          destruct (chain_app_lend _ _ _ _ C33 C32) as [CL _]. intros _. split; [lia|reflexivity].
        * destruct HK3' as (K1' & K2' & K3'). split; [destruct w3; exact K1'|]. split; [destruct w3; exact K2'|]. rewrite M2. exact K3'.
        * intros p Hp Hv. rewrite BE4 in Hp. rewrite M2, F3b. left. lia.
        * intros _. rewrite BE4, M2, F3b, FW. split; [lia|reflexivity].
        * rewrite BE4, M2, F3b. apply GPm; [discriminate|reflexivity|reflexivity|reflexivity|reflexivity].
        * unfold Proofs.WrapGreedy.WU in *. destruct w3; exact WU3.
        * rewrite M2, F3b. exact BW1.
        * intros _. rewrite BE4. apply LbO. discriminate. }
      rewrite Cfm, F3c, M3, F3s in E. exact E.
  - (* CannotFit *)
    assert (Hhb : has_best w3 = false) by (apply K2; reflexivity).
    cbv beta iota zeta in H. destruct (Pol3 w3 eq_refl) as [Pn _]. rewrite Pn in H.
    destruct (c_policy (w_cfg w) =? 1) eqn:EP.
    + destruct (lc_truncating lc) eqn:Hlc.
      * injection H as <- <-. intros Q; discriminate Q.
      * injection H as <- <-. destruct (Best1 ltac:(discriminate)) as (_ & _ & BE4). intros _ _. right. rewrite BE4.
        apply Z.eqb_eq in EP. split.
        -- exists (fst opt + 1). split; [lia|]. split; [intros p Hp; lia|apply RejO; left; reflexivity].
        -- split; [intros [Hp2|[Hp0 _]]; lia|intros [Hp0 _]; lia].
    + apply (PostGi_Go lc _ _ (fst opt + 1)).
      2:{ intros _ _ p Hp Hv. assert (Hnb : has_best w = false) by (rewrite <- HB3; exact Hhb).
          specialize (P0 p ltac:(rewrite (best_end_no_best w Hnb); lia) Hv). lia. }
      apply (G w3 P3); auto; try (rewrite F3b; reflexivity); try discriminate.
      * intros _ _. destruct (Fin3 ltac:(discriminate)) as [_ FC]. destruct (C3 ltac:(discriminate)) as (C31 & _).
        split; [eapply (SK_CB' attrs st0 rs); [exact HK3'|exact FC]|lia].
Qed.

End GreedyAll.

(* ---- one WrapNextLine call ---------------------------------------------------------------------------------------- *)

(* the greedy clause over the wrapper's own notions, the entry store of the call as reference *)
Definition greedy_int (attrs : list Z) (st : store) (rs : list out) (pdir pol s e mw : Z) : Prop :=
  (mandatory_boundary attrs e = true /\ line_boundary attrs e = true)
  \/ (NTW st rs (lbV attrs st rs) mw pdir s e
      /\ ((pol = 2 \/ (pol = 0 /\ ~ lbV attrs st rs e)) -> NTW st rs (anyV attrs st rs) mw pdir s e)
      /\ ((pol = 0 /\ ~ lbV attrs st rs e) -> forall p, s < p < e -> lbV attrs st rs p -> False)).

Lemma wnl_G : forall n attrs w mw w' wl,
  CI n attrs w -> XB n w -> w_more w = true ->
  KoV attrs (w_st w) (w_runs w) w -> KoG n attrs (w_st w) (w_runs w) w -> BW (w_br w) -> SG (w_st w) ->
  wrap_next_line w mw = Ok (w', wl, false) ->
  greedy_int attrs (w_st w) (w_runs w) (c_dir (w_cfg w)) (c_policy (w_cfg w)) (w_start w) (wl_next wl) mw.
Proof.
  intros n attrs w mw w' wl HC HB Hm Ko Kg HBW HSG H. unfold wrap_next_line in H. rewrite Hm in H. cbn [negb] in H.
  destruct (CI_peek n attrs w HC) as (ci & run & PK). rewrite PK in H. cbn [negb] in H.
  destruct (CI_start_line n attrs w HC) as (T0 & O0 & A0 & N0 & Acc0).
  pose proof HC as (HR & HP & HS & HM & HBk & HA & Hst & HT & HF).
  set (lc := mkLC _ _ _) in H.
  destruct (outer_loop _ (start_line w) lc) as [[w2 d2]| | |] eqn:OL; cbn [bind] in H; try discriminate.
  destruct (outer_loop_ok n _ _ _ _ _ (proj1 (proj1 T0)) OL) as [_ O2].
  destruct (outer_loop_J n (phi n (w_br w)) attrs _ _ _ _ _ T0 O0 (N0 lc) A0 (fun _ => Acc0) OL) as (P2 & N2 & A2 & Post2 & Acc2).
  assert (PG : PostGo attrs (w_st w) (w_runs w) lc (c_dir (w_cfg (start_line w))) (w_start (start_line w)) (c_policy (w_cfg (start_line w))) w2 d2).
  { eapply (outer_G n attrs (w_st w) (w_runs w) HSG); [exact T0|exact O0|apply XI_start_line; exact HB| | | | | | | |exact OL].
    - split; [destruct w; reflexivity|]. split; [destruct w; reflexivity|exact A0].
    - intros p Hp Hv. replace (w_br (start_line w)) with (w_br w) by (destruct w; reflexivity). apply Ko; [|exact Hv].
      replace (best_end (start_line w)) with (w_start w) in Hp by (destruct w; reflexivity). exact Hp.
    - intros Q. destruct w; discriminate Q.
    - replace (w_br (start_line w)) with (w_br w) by (destruct w; reflexivity).
      replace (best_end (start_line w)) with (w_start w) by (destruct w; reflexivity). exact Kg.
    - unfold WU. destruct w; cbn. split; [exact HSG|]. split; [apply st_le_refl|lia].
    - replace (w_br (start_line w)) with (w_br w) by (destruct w; reflexivity). exact HBW.
    - intros Q. destruct w; discriminate Q. }
  destruct O2 as (Oc & Ot & Os & Om & Or & On & Oa).
  replace (w_cfg (start_line w)) with (w_cfg w) in * by (destruct w; reflexivity).
  replace (w_truncating (start_line w)) with (w_truncating w) in * by (destruct w; reflexivity).
  replace (w_start (start_line w)) with (w_start w) in * by (destruct w; reflexivity).
  replace (w_more (start_line w)) with (w_more w) in * by (destruct w; reflexivity).
  replace (w_runs (start_line w)) with (w_runs w) in * by (destruct w; reflexivity).
  cbv beta iota zeta in H. injection H as PP. rewrite post_process_split in PP.
  destruct (pp_first w2 (s_best (w_sc w2))) as [w1 l1] eqn:PF.
  pose proof P2 as (I2 & B2 & S2 & St2 & BP2 & _ & BN2).
  assert (HL : forall l, s_best (w_sc w2) = Some l -> chain (w_start w2) l (lend (w_start w2) l)).
  { intros l Hl. destruct I2 as (_ & _ & _ & _ & HBo). destruct (HBo l Hl) as [e He]. rewrite (lend_chain _ _ _ He). exact He. }
  destruct (pp_first_spec _ _ _ _ HL PF) as (F1 & F2 & F3 & F4 & F5 & F6 & F7 & F8 & F9 & F10).
  fold (best_end w2) in F9.
  rewrite <- F1 in PP.
  destruct (pp_tail_spec n w1 l1 d2 w' wl false ltac:(rewrite F8; exact (proj1 B2)) ltac:(rewrite F9; exact BN2) PP)
    as (G1 & G2 & G3 & G4 & G5 & G6 & G7 & G8 & G9 & G10 & G11 & G12 & G13 & G14 & G15 & G16).
  assert (TF : tfinal w1 = lc_truncating lc).
  { unfold tfinal, lc. cbn. rewrite F2, F1, Ot, Oc, HT.
    destruct (c_trunc (w_cfg w) =? 1) eqn:E1.
    - apply Z.eqb_eq in E1. rewrite E1. reflexivity.
    - apply Z.eqb_neq in E1. destruct (0 <? c_trunc (w_cfg w)); [|reflexivity]. cbn. apply Z.eqb_neq. lia. }
  destruct (G11 eq_refl) as (D1 & D2 & D3 & D4 & D5).
  assert (Hlc : lc_truncating lc = false) by (rewrite <- TF; exact D4).
  specialize (PG D2 Hlc). rewrite G8, F9. change (lc_max lc) with mw in PG. exact PG.
Qed.

(* ---- any sequence of calls ---------------------------------------------------------------------------------------- *)

Lemma greedy_all_calls : forall n w cfg attrs runs widths wk rs mw w' wl,
  wf_runs (w_st w) runs n = true -> zlen attrs - 1 = n -> 1 <= n ->
  run_calls (prepare w cfg attrs runs 0 0) widths = Ok (wk, rs) -> w_more wk = true ->
  nonneg_adv (w_st wk) = true ->
  wrap_next_line wk mw = Ok (w', wl, false) ->
  (exists line, wl_line wl = Some line)
  /\ greedy_stmt attrs (w_st wk) runs (c_dir (w_cfg wk)) (c_policy (w_cfg wk)) (w_start wk) (wl_next wl) mw.
Proof.
  intros n w cfg attrs runs widths wk rs mw w' wl HW Ha Hn RC Hk Hnn WN.
  split; [eapply live_call_line; eauto|].
  destruct (run_calls_V n attrs (w_st w) runs widths (prepare w cfg attrs runs 0 0) true wk rs
              (prepare_state_V n w cfg attrs runs HW Ha Hn) RC) as [_ K].
  destruct (K Hk) as (KC & KB & Ks & Kr & Kv & Kg).
  assert (HBW : BW (w_br wk)) by (apply (run_calls_BW widths (prepare w cfg attrs runs 0 0) wk rs); [apply BW_new|exact RC]).
  assert (CB : forall p, CBall (w_st wk) runs p -> CBall (w_st w) runs p).
  { intros p Hc. apply (CBall_sk (w_st wk)); [exact Ks|exact Hc]. }
  assert (Kv' : KoV attrs (w_st wk) (w_runs wk) wk).
  { rewrite Kr. intros p Hp [Hl Hc]. apply Kv; [exact Hp|]. split; [exact Hl|apply CB; exact Hc]. }
  assert (Kg' : KoG n attrs (w_st wk) (w_runs wk) wk).
  { rewrite Kr. destruct Kg as (Kg1 & Kg2 & Kg3). split; [|split; assumption].
    intros q Hq [Hg Hc]. apply Kg1; [exact Hq|]. split; [exact Hg|apply CB; exact Hc]. }
  pose proof (wnl_G n attrs wk mw w' wl KC KB Hk Kv' Kg' HBW (nonneg_SG _ Hnn) WN) as G. rewrite Kr in G.
  assert (WF : wf_runs (w_st wk) runs n = true) by (destruct KB as (BW' & _); rewrite Kr in BW'; exact BW').
  assert (VL : forall p, valid_line_break attrs (w_st wk) runs p -> lbV attrs (w_st wk) runs p).
  { intros p [V1 V2]. split; [exact V1|]. eapply cluster_boundary_CBall; eauto. }
  assert (VG : forall p, valid_grapheme_break attrs (w_st wk) runs p -> gbV attrs (w_st wk) runs p).
  { intros p [V1 V2]. split; [exact V1|]. eapply cluster_boundary_CBall; eauto. }
  assert (CV : forall (K0 : Z -> Prop) (K' : Z -> Prop), (forall p, K' p -> K0 p) ->
            NTW (w_st wk) runs K0 mw (c_dir (w_cfg wk)) (w_start wk) (wl_next wl) ->
            next_too_wide K' (w_st wk) runs (c_dir (w_cfg wk)) (w_start wk) (wl_next wl) mw).
  { intros K0 K' HKK (q & Q1 & Q2 & Q3). exists q. split; [exact Q1|]. split; [intros p Hp Hk'; exact (Q2 p Hp (HKK p Hk'))|].
    apply Rejected_too_wide. exact Q3. }
  destruct G as [[G _]|(G1 & G2 & _)]; [left; exact G|right]. split.
  - apply (CV _ _ VL G1).
  - intros Hpol. apply (CV (anyV attrs (w_st wk) runs)).
    + intros p [Hp|Hp]; [left; apply VL; exact Hp|right; apply VG; exact Hp].
    + apply G2. destruct Hpol as [Hp2|[Hp0 Hnl]]; [left; exact Hp2|right; split; [exact Hp0|]].
      intros [Hl _]. congruence.
Qed.

(* C03, policy WhenNecessary: a word is split only when it cannot fit on a line by itself.  A line [s, e) returned with the
   wrapper live (not the truncated line) whose end is no UAX #14 opportunity: no valid UAX #14 opportunity lies strictly inside
   it (the line starts inside or at the start of the word) and the next valid UAX #14 opportunity after e could not be
   reached: the runes from the line start to it are too wide *)
Lemma wn_split_calls : forall n w cfg attrs runs widths wk rs mw w' wl,
  wf_runs (w_st w) runs n = true -> zlen attrs - 1 = n -> 1 <= n ->
  run_calls (prepare w cfg attrs runs 0 0) widths = Ok (wk, rs) -> w_more wk = true ->
  nonneg_adv (w_st wk) = true -> c_policy (w_cfg wk) = 0 ->
  wrap_next_line wk mw = Ok (w', wl, false) ->
  line_boundary attrs (wl_next wl) = false ->
  (forall p, w_start wk < p < wl_next wl -> valid_line_break attrs (w_st wk) runs p -> False)
  /\ next_too_wide (word_candidate attrs (w_st wk) runs) (w_st wk) runs (c_dir (w_cfg wk)) (w_start wk) (wl_next wl) mw.
Proof.
  intros n w cfg attrs runs widths wk rs mw w' wl HW Ha Hn RC Hk Hnn Hpol WN Hnl.
  destruct (run_calls_V n attrs (w_st w) runs widths (prepare w cfg attrs runs 0 0) true wk rs
              (prepare_state_V n w cfg attrs runs HW Ha Hn) RC) as [_ K].
  destruct (K Hk) as (KC & KB & Ks & Kr & Kv & Kg).
  assert (HBW : BW (w_br wk)) by (apply (run_calls_BW widths (prepare w cfg attrs runs 0 0) wk rs); [apply BW_new|exact RC]).
  assert (CB : forall p, CBall (w_st wk) runs p -> CBall (w_st w) runs p).
  { intros p Hc. apply (CBall_sk (w_st wk)); [exact Ks|exact Hc]. }
  assert (Kv' : KoV attrs (w_st wk) (w_runs wk) wk).
  { rewrite Kr. intros p Hp [Hl Hc]. apply Kv; [exact Hp|]. split; [exact Hl|apply CB; exact Hc]. }
  assert (Kg' : KoG n attrs (w_st wk) (w_runs wk) wk).
  { rewrite Kr. destruct Kg as (Kg1 & Kg2 & Kg3). split; [|split; assumption].
    intros q Hq [Hg Hc]. apply Kg1; [exact Hq|]. split; [exact Hg|apply CB; exact Hc]. }
  pose proof (wnl_G n attrs wk mw w' wl KC KB Hk Kv' Kg' HBW (nonneg_SG _ Hnn) WN) as G. rewrite Kr in G.
  assert (WF : wf_runs (w_st wk) runs n = true) by (destruct KB as (BW' & _); rewrite Kr in BW'; exact BW').
  assert (VL : forall p, valid_line_break attrs (w_st wk) runs p -> lbV attrs (w_st wk) runs p).
  { intros p [V1 V2]. split; [exact V1|]. eapply cluster_boundary_CBall; eauto. }
  assert (Nl : ~ lbV attrs (w_st wk) runs (wl_next wl)) by (intros [Hl _]; congruence).
  destruct G as [G|(G1 & _ & G3)].
  - destruct G as [_ G]. congruence.
  - split.
    + intros p Hp Hv. exact (G3 (conj Hpol Nl) p Hp (VL p Hv)).
    + destruct G1 as (q & Q1 & Q2 & Q3). exists q. split; [exact Q1|]. split; [intros p Hp Hv; exact (Q2 p Hp (VL p Hv))|].
      apply Rejected_too_wide. exact Q3.
Qed.
