(* Lemmas about the line wrapper model (Model/Wrap.v) for C02, C03, C04. *)
From TV Require Import Model.Wrap Spec.Wrap.

(* ---- C04: a candidate that is recorded as fitting fits ------------------------------------------ *)

(* the width the wrapper measures for the candidate line alt ++ [cand] *)
Definition cand_width (w : W) (cand : out) : Z :=
  ceil26 (advance_space_aware (w_st w) cand (c_dir (w_cfg w)) + s_alt_adv (w_sc w)).

Lemma process_fits_width : forall w opt lc w' r cand,
  process_break_option w opt lc = Ok (w', r, cand) ->
  (r = Fits -> cand_width w' cand <= lc_max lc /\ (lc_truncating lc = true -> cand_width w' cand <= lc_tmax lc))
  /\ (r = EndLine -> cand_width w' cand <= lc_max lc)
  /\ (r = Truncated -> cand_width w' cand <= lc_max lc /\ lc_truncating lc = true /\ lc_tmax lc < cand_width w' cand)
  /\ ((r = CannotFit \/ r = NewLineBeforeBreak) -> lc_max lc < cand_width w' cand).
Proof.
  intros w opt lc w' r cand H. unfold process_break_option in H.
  destruct (fst opt <? w_start w).
  { inversion H; subst. repeat split; intros; try discriminate; destruct H0; discriminate. }
  destruct (fill_until _ w (fst opt)) as [w1| | |]; cbn [bind] in H; try discriminate.
  destruct (peek w1) as [[ci run] mr].
  destruct (map_run w1 ci run) as [w2| | |]; cbn [bind] in H; try discriminate.
  destruct (is_valid _ _ _ run) as [v| | |]; cbn [bind] in H; try discriminate.
  destruct v; cbn [negb] in H.
  2:{ inversion H; subst. repeat split; intros; try discriminate; destruct H0; discriminate. }
  destruct (cut_run _ run _ _ _ _) as [sr| | |]; cbn [bind] in H; try discriminate.
  set (w3 := set_st w2 (fst sr)) in *.
  change (ceil26 (advance_space_aware (w_st w3) (snd sr) (c_dir (w_cfg w3)) + s_alt_adv (w_sc w3)))
    with (cand_width w3 (snd sr)) in H.
  destruct (lc_max lc <? cand_width w3 (snd sr)) eqn:E1.
  { apply Z.ltb_lt in E1. inversion H; subst. destruct (has_best w3);
    repeat split; intros; try discriminate; try lia; try (destruct H0; discriminate). }
  apply Z.ltb_ge in E1.
  destruct (lc_truncating lc) eqn:ET; cbn [andb] in H.
  - destruct (lc_tmax lc <? cand_width w3 (snd sr)) eqn:E2.
    + apply Z.ltb_lt in E2.
      destruct ((o_cnt (snd sr) + o_off (snd sr) =? b_n (w_br w3)) && negb (c_cont (w_cfg w3)));
      inversion H; subst; repeat split; intros; try discriminate; try lia; try (destruct H0; discriminate).
    + apply Z.ltb_ge in E2. inversion H; subst.
      repeat split; intros; try discriminate; try lia; try (destruct H0; discriminate).
  - inversion H; subst. repeat split; intros; try discriminate; try lia; try (destruct H0; discriminate).
Qed.

(* ---- C03: the breaker only proposes flagged positions -------------------------------------------- *)

Lemma scan_flag_spec : forall flag l p q,
  scan_flag flag l p = Some q ->
  p <= q < p + zlen l /\ has_flag (znth 0 l (q - p)) flag = true
  /\ forall r, p <= r < q -> has_flag (znth 0 l (r - p)) flag = false.
Proof.
  induction l as [|a l IH]; intros p q H; cbn [scan_flag] in H; [discriminate|].
  rewrite zlen_cons. pose proof (zlen_nonneg l).
  destruct (has_flag a flag) eqn:E.
  - inversion H; subst. split; [lia|]. split.
    + replace (q - q) with 0 by lia. exact E.
    + intros; lia.
  - apply IH in H. destruct H as (H1 & H2 & H3). split; [lia|]. split.
    + unfold znth in *. destruct (q - p <? 0) eqn:Q; [lia|]. destruct (q - (p + 1) <? 0) eqn:Q2; [lia|].
      replace (Z.to_nat (q - p)) with (S (Z.to_nat (q - (p + 1)))) by lia. exact H2.
    + intros r Hr. destruct (Z.eq_dec r p) as [->|Hne].
      * replace (p - p) with 0 by lia. exact E.
      * specialize (H3 r ltac:(lia)). unfold znth in *.
        destruct (r - p <? 0) eqn:Q; [lia|]. destruct (r - (p + 1) <? 0) eqn:Q2; [lia|].
        replace (Z.to_nat (r - p)) with (S (Z.to_nat (r - (p + 1)))) by lia. exact H3.
Qed.

Lemma znth_zskipn : forall (l : list Z) k i, 0 <= k -> 0 <= i -> znth 0 (zskipn k l) i = znth 0 l (k + i).
Proof.
  intros l k i Hk Hi. unfold znth, zskipn.
  destruct (i <? 0) eqn:A; [lia|]. destruct (k + i <? 0) eqn:B; [lia|].
  replace (Z.to_nat (k + i)) with (Z.to_nat k + Z.to_nat i)%nat by lia.
  generalize (Z.to_nat k) (Z.to_nat i). clear. intros a; revert l.
  induction a; intros l b; cbn; auto. destruct l; cbn; [destruct b; reflexivity|]. apply IHa.
Qed.
Lemma znth_zfirstn : forall (l : list Z) k i, 0 <= i < k -> znth 0 (zfirstn k l) i = znth 0 l i.
Proof.
  intros l k i Hi. unfold znth, zfirstn. destruct (i <? 0) eqn:A; [lia|].
  revert l i Hi A. generalize dependent k. intros k l i Hi _.
  assert (Hn : (Z.to_nat i < Z.to_nat k)%nat) by lia.
  revert Hn. generalize (Z.to_nat i) (Z.to_nat k). clear.
  intros n m; revert n l; induction m; intros n l H; [lia|].
  destruct l; destruct n; cbn; auto. apply IHm. lia.
Qed.

(* attributeIterator.next: the position found carries the flag, lies after pos and within the text, and no flagged
   position was skipped *)
Lemma iter_next_spec : forall attrs n flag pos p,
  0 <= pos -> iter_next attrs n flag pos = (p, true) ->
  pos < p <= n /\ has_flag (znth 0 attrs p) flag = true
  /\ forall r, pos < r < p -> has_flag (znth 0 attrs r) flag = false.
Proof.
  intros attrs n flag pos p Hpos H. unfold iter_next in H.
  destruct (scan_flag flag (zskipn (pos + 1) (zfirstn (n + 1) attrs)) (pos + 1)) as [q|] eqn:E; [|discriminate].
  inversion H; subst q. apply scan_flag_spec in E. destruct E as (H1 & H2 & H3).
  assert (Hlen : zlen (zskipn (pos + 1) (zfirstn (n + 1) attrs)) <= Z.max 0 (n + 1 - (pos + 1))).
  { unfold zlen, zskipn, zfirstn. rewrite skipn_length, firstn_length. lia. }
  assert (Hp : p <= n) by lia.
  split; [lia|]. split.
  - rewrite znth_zskipn in H2 by lia. replace (pos + 1 + (p - (pos + 1))) with p in H2 by lia.
    rewrite znth_zfirstn in H2 by lia. exact H2.
  - intros r Hr. specialize (H3 r ltac:(lia)). rewrite znth_zskipn in H3 by lia.
    replace (pos + 1 + (r - (pos + 1))) with r in H3 by lia. rewrite znth_zfirstn in H3 by lia. exact H3.
Qed.

(* every UAX #14 candidate is the rune before a line boundary of the segmenter; it is required only at a mandatory one *)
Lemma next_word_raw_spec : forall b b' o,
  0 <= b_wpos b -> next_word_raw b = (b', Some o) ->
  line_boundary (b_attrs b) (fst o + 1) = true /\ b_wpos b <= fst o < b_n b
  /\ b_wpos b' = fst o + 1 /\ b_attrs b' = b_attrs b /\ b_n b' = b_n b
  /\ (snd o = true -> mandatory_boundary (b_attrs b) (fst o + 1) = true)
  /\ (forall r, b_wpos b < r < fst o + 1 -> line_boundary (b_attrs b) r = false).
Proof.
  intros b b' o Hpos H. unfold next_word_raw in H.
  destruct (iter_next (b_attrs b) (b_n b) fl_line (b_wpos b)) as [p ok] eqn:E.
  destruct ok; [|inversion H]. inversion H; subst; clear H. cbn [fst snd b_wpos b_attrs b_n].
  apply iter_next_spec in E; [|exact Hpos]. destruct E as (H1 & H2 & H3).
  replace (p - 1 + 1) with p by lia. unfold line_boundary, mandatory_boundary, attr_at.
  repeat split; try lia; auto.
  intros Hreq. apply andb_prop in Hreq. tauto.
Qed.

Lemma next_grapheme_raw_spec : forall b b' o,
  0 <= b_gpos b -> next_grapheme_raw b = (b', Some o) ->
  grapheme_boundary (b_attrs b) (fst o + 1) = true /\ b_gpos b <= fst o < b_n b
  /\ b_gpos b' = fst o + 1 /\ snd o = false.
Proof.
  intros b b' o Hpos H. unfold next_grapheme_raw in H.
  destruct (iter_next (b_attrs b) (b_n b) fl_grapheme (b_gpos b)) as [p ok] eqn:E.
  destruct ok; [|inversion H]. inversion H; subst; clear H. cbn [fst snd b_gpos].
  apply iter_next_spec in E; [|exact Hpos]. destruct E as (H1 & H2 & H3).
  replace (p - 1 + 1) with p by lia. unfold grapheme_boundary, attr_at. repeat split; try lia; auto.
Qed.

(* ---- C02: rune ranges -------------------------------------------------------------------------- *)

Definition chain (s : Z) (l : list out) (e : Z) : Prop := contiguous_from s l = Some e.
Definition all_pos (l : list out) : Prop := Forall (fun o => 0 < o_cnt o) l.

Lemma chain_app : forall l1 l2 s m e, chain s l1 m -> chain m l2 e -> chain s (l1 ++ l2) e.
Proof.
  unfold chain. induction l1 as [|a l1 IH]; intros l2 s m e H1 H2; cbn in *.
  - inversion H1; subst; exact H2.
  - destruct (o_off a =? s); [|discriminate]. eapply IH; eauto.
Qed.
Lemma chain_app_inv : forall l1 l2 s e, chain s (l1 ++ l2) e -> exists m, chain s l1 m /\ chain m l2 e.
Proof.
  unfold chain. induction l1 as [|a l1 IH]; intros l2 s e H; cbn in *.
  - eauto.
  - destruct (o_off a =? s); [|discriminate]. apply IH in H. exact H.
Qed.
Lemma chain_single : forall o s, o_off o = s -> chain s [o] (out_end o).
Proof. intros o s H. unfold chain; cbn. rewrite H, Z.eqb_refl. reflexivity. Qed.
Lemma chain_fun : forall l s e1 e2, chain s l e1 -> chain s l e2 -> e1 = e2.
Proof. unfold chain; intros; congruence. Qed.
Lemma chain_pos_lt : forall l s e, chain s l e -> all_pos l -> l <> [] -> s < e.
Proof.
  unfold chain. induction l as [|a l IH]; intros s e H P N; [congruence|].
  cbn in H. destruct (o_off a =? s) eqn:E; [|discriminate]. apply Z.eqb_eq in E.
  inversion P; subst. destruct l as [|b l].
  - cbn in H. inversion H. unfold out_end. lia.
  - specialize (IH _ _ H H3 ltac:(congruence)). unfold out_end in IH. lia.
Qed.
Lemma chain_pos_le : forall l s e, chain s l e -> all_pos l -> s <= e.
Proof.
  intros l s e H P. destruct l; [inversion H; lia|]. apply chain_pos_lt in H; auto; [lia|congruence].
Qed.

(* ranges are what the chain looks at *)
Definition rng (o : out) : Z * Z * Z := (o_off o, o_cnt o, o_src o).
Lemma chain_rng : forall l l' s, map rng l = map rng l' -> contiguous_from s l = contiguous_from s l'.
Proof.
  induction l as [|a l IH]; intros l' s H; destruct l' as [|b l']; cbn in H; try discriminate; auto.
  assert (Hx : o_off a = o_off b /\ o_cnt a = o_cnt b /\ map rng l = map rng l') by (unfold rng in H; inversion H; auto).
  destruct Hx as (Ho & Hc & Ht).
  cbn [contiguous_from]. unfold out_end. rewrite Ho, Hc. destruct (o_off b =? s); auto.
Qed.

Definition runs_ok (rs : list out) (n : Z) : Prop := chain 0 rs n /\ all_pos rs.

Lemma znth_cons_S : forall {A} (d : A) a l i, 0 < i -> znth d (a :: l) i = znth d l (i - 1).
Proof.
  intros. unfold znth. destruct (i <? 0) eqn:E; [apply Z.ltb_lt in E; lia|]. destruct (i - 1 <? 0) eqn:E2; [apply Z.ltb_lt in E2; lia|].
  replace (Z.to_nat i) with (S (Z.to_nat (i - 1))) by lia. reflexivity.
Qed.

Lemma znth_app_exact : forall {A} (d : A) pre r post, znth d (pre ++ r :: post) (zlen pre) = r.
Proof.
  intros. unfold znth, zlen. destruct (Z.of_nat (length pre) <? 0) eqn:E; [apply Z.ltb_lt in E; lia|].
  rewrite Nat2Z.id. rewrite app_nth2 by lia. rewrite Nat.sub_diag. reflexivity.
Qed.

(* cutRun: the rune range of the result depends only on the arguments and the mapping's length; its advance is the
   sum of the advances of its glyphs in the store it returns *)
Lemma cut_run_fields : forall st run m s e t st' r,
  cut_run st run m s e t = Ok (st', r) ->
  o_off r = o_off run + Z.max (s - o_off run) 0
  /\ out_end r = o_off run + Z.min (e - o_off run) (zlen m - 1) + 1
  /\ o_src r = o_src run /\ o_dir r = o_dir run /\ o_vis r = o_vis run
  /\ o_adv r = sum_adv (out_glyphs st' r).
Proof.
  intros st run m s e t st' r H. unfold cut_run in H.
  destruct (inclusive_glyph_range _ _ _ m _) as [[gs gend]| | |]; cbn [bind] in H; try discriminate.
  destruct ((0 <=? gs) && (gs <=? gend + 1) && (gend + 1 <=? zlen (src_array st (o_src run)) - o_lo run)); [|discriminate].
  inversion H; subst; clear H. unfold out_end, recompute_advance, set_adv; cbn [o_off o_cnt o_src o_dir o_vis o_adv].
  repeat split; auto.
  - destruct (s - o_off run <? 0) eqn:A; lia.
  - destruct (s - o_off run <? 0) eqn:A; destruct (zlen m <=? e - o_off run) eqn:B; lia.
Qed.

Lemma fill_range_len : forall m cs ce v m', fill_range m cs ce v = Ok m' -> zlen m' = zlen m.
Proof.
  intros m cs ce v m' H. unfold fill_range in H.
  destruct ((cs <=? ce) && (cs <? zlen m)) eqn:E; [|inversion H; auto].
  destruct (cs <? 0) eqn:N; [discriminate|]. inversion H; subst; clear H.
  apply andb_prop in E. destruct E as [E1 E2]. apply Z.leb_le in E1. apply Z.ltb_lt in E2. apply Z.ltb_ge in N.
  rewrite !zlen_app. rewrite zlen_zfirstn by lia. rewrite zlen_zskipn by lia.
  unfold zlen at 1. rewrite repeat_length. lia.
Qed.
Lemma map3_ltr_len : forall fuel glyphs off g m m', map3_ltr fuel glyphs off g m = Ok m' -> zlen m' = zlen m.
Proof.
  induction fuel; intros glyphs off g m m' H; cbn in H; [discriminate|].
  destruct (g <? zlen glyphs); [|inversion H; auto].
  destruct (zget glyphs g) as [gl| | |]; cbn [bind] in H; try discriminate.
  destruct (fill_range m _ _ g) as [m1| | |] eqn:F; cbn [bind] in H; try discriminate.
  apply IHfuel in H. apply fill_range_len in F. lia.
Qed.
Lemma map3_rtl_len : forall fuel glyphs off g m m', map3_rtl fuel glyphs off g m = Ok m' -> zlen m' = zlen m.
Proof.
  induction fuel; intros glyphs off g m m' H; cbn in H; [discriminate|].
  destruct (0 <=? g); [|inversion H; auto].
  destruct (zget glyphs g) as [gl| | |]; cbn [bind] in H; try discriminate.
  destruct (fill_range m _ _ _) as [m1| | |] eqn:F; cbn [bind] in H; try discriminate.
  apply IHfuel in H. apply fill_range_len in F. lia.
Qed.
Lemma map3_len : forall dir off glyphs init m, map3 dir off glyphs init = Ok m -> zlen m = zlen init.
Proof.
  intros dir off glyphs init m H. unfold map3 in H.
  destruct (dir_rtl dir); [eapply map3_rtl_len|eapply map3_ltr_len]; eauto.
Qed.

(* ---- the invariant of a line in progress ---------------------------------------------------------- *)

(* the candidate prefix [alt] and the iterator position [idx]: the runs before idx are consumed, alt is a chain of
   non-empty pieces from the line start that ends where run idx starts (or nothing is collected yet and run idx starts
   at or before the line start) *)
Definition pair_ok (rs : list out) (n start : Z) (alt : list out) (idx : Z) : Prop :=
  all_pos alt /\
  exists pre post m e, rs = pre ++ post /\ zlen pre = idx /\ chain 0 pre m /\ chain m post n
    /\ chain start alt e /\ (alt = [] -> m <= start) /\ (alt <> [] -> e = m).

Definition mp_ok (w : W) : Prop :=
  m_valid (w_mp w) = true -> zlen (mapping_of (w_mp w)) = o_cnt (znth out_zero (w_runs w) (m_run (w_mp w))).
Definition best_ok (w : W) : Prop := forall l, s_best (w_sc w) = Some l -> exists e, chain (w_start w) l e.

Definition Inv (n : Z) (w : W) : Prop :=
  runs_ok (w_runs w) n
  /\ pair_ok (w_runs w) n (w_start w) (s_alt (w_sc w)) (w_idx w)
  /\ pair_ok (w_runs w) n (w_start w) (s_save (w_sc w)) (w_saved w)
  /\ mp_ok w /\ best_ok w.

Definition frame (w w' : W) : Prop :=
  w_cfg w' = w_cfg w /\ w_truncating w' = w_truncating w /\ w_start w' = w_start w /\ w_more w' = w_more w
  /\ w_runs w' = w_runs w /\ w_saved w' = w_saved w /\ w_br w' = w_br w
  /\ s_save (w_sc w') = s_save (w_sc w) /\ s_best (w_sc w') = s_best (w_sc w).
Lemma frame_refl : forall w, frame w w.
Proof. intros; unfold frame; repeat split. Qed.
Lemma frame_trans : forall a b c, frame a b -> frame b c -> frame a c.
Proof. unfold frame; intros a b c H1 H2; intuition congruence. Qed.

Lemma all_pos_znth : forall rs i, all_pos rs -> 0 <= o_cnt (znth out_zero rs i).
Proof.
  intros rs i H. unfold znth. destruct (i <? 0); [cbn; lia|].
  generalize (Z.to_nat i). induction H; intros k; destruct k; cbn; try lia. apply IHForall.
Qed.

Lemma zfirstn_all : forall {A} (l : list A) k, zlen l <= k -> zfirstn k l = l.
Proof. intros. unfold zfirstn. apply firstn_all2. unfold zlen in H. lia. Qed.

Lemma map_run_ok : forall w ci run w1,
  all_pos (w_runs w) -> mp_ok w -> run = znth out_zero (w_runs w) ci ->
  map_run w ci run = Ok w1 ->
  (exists mp, w1 = set_mp w mp) /\ mp_ok w1 /\ zlen (mapping_of (w_mp w1)) = o_cnt run.
Proof.
  intros w ci run w1 HP HM Hrun H. unfold map_run in H.
  destruct (negb (m_run (w_mp w) =? ci) || negb (m_valid (w_mp w))) eqn:E.
  - destruct (o_cnt run <=? 0) eqn:C.
    + inversion H; subst w1; clear H. split; [eauto|]. apply Z.leb_le in C.
      pose proof (all_pos_znth (w_runs w) ci HP). rewrite <- Hrun in H.
      split; [|cbn; unfold mapping_of; cbn; unfold zlen; cbn; lia].
      intros _. cbn. unfold mapping_of; cbn. rewrite <- Hrun. unfold zlen; cbn; lia.
    + apply Z.leb_gt in C.
      set (back := if o_cnt run <=? zlen (m_back (w_mp w)) then m_back (w_mp w) else repeat 0 (Z.to_nat (o_cnt run))) in *.
      assert (Hb : o_cnt run <= zlen back).
      { unfold back. destruct (o_cnt run <=? zlen (m_back (w_mp w))) eqn:L; [apply Z.leb_le in L; lia|].
        unfold zlen. rewrite repeat_length. lia. }
      destruct (map3 _ _ _ (zfirstn (o_cnt run) back)) as [m'| | |] eqn:M; cbn [bind] in H; try discriminate.
      inversion H; subst w1; clear H. split; [eauto|].
      apply map3_len in M. rewrite zlen_zfirstn in M by lia.
      assert (Hm : mapping_of (mkMapper true ci (m' ++ zskipn (o_cnt run) back) (o_cnt run)) = m').
      { unfold mapping_of; cbn. rewrite <- M. apply zfirstn_app_exact. }
      split; [|cbn; rewrite Hm; exact M].
      intros _. cbn. rewrite Hm. rewrite <- Hrun. exact M.
  - inversion H; subst w1; clear H. apply orb_false_elim in E. destruct E as [E1 E2].
    apply negb_false_iff in E1. apply negb_false_iff in E2. apply Z.eqb_eq in E1.
    split; [exists (w_mp w); destruct w; reflexivity|]. split; [exact HM|].
    rewrite (HM E2). rewrite E1. rewrite Hrun. reflexivity.
Qed.

Lemma chain_cons_inv : forall r post m n, chain m (r :: post) n -> o_off r = m /\ chain (out_end r) post n.
Proof. unfold chain; intros r post m n H; cbn in H. destruct (o_off r =? m) eqn:E; [|discriminate]. apply Z.eqb_eq in E. auto. Qed.

Lemma peek_split : forall w pre post, w_runs w = pre ++ post -> zlen pre = w_idx w ->
  peek w = match post with [] => (w_idx w, out_zero, false) | r :: _ => (w_idx w, r, true) end.
Proof.
  intros w pre post H Hi. unfold peek. rewrite H, zlen_app, <- Hi. destruct post as [|r post].
  - rewrite zlen_nil. replace (zlen pre + 0 <=? zlen pre) with true by (symmetry; apply Z.leb_le; lia). reflexivity.
  - rewrite zlen_cons. pose proof (zlen_nonneg post).
    replace (zlen pre + (1 + zlen post) <=? zlen pre) with false by (symmetry; apply Z.leb_gt; lia).
    rewrite znth_app_exact. reflexivity.
Qed.

Lemma all_pos_app : forall a b, all_pos a -> all_pos b -> all_pos (a ++ b).
Proof. unfold all_pos; intros; apply Forall_app; auto. Qed.

Lemma fill_until_ok : forall n fuel w b w',
  runs_ok (w_runs w) n -> pair_ok (w_runs w) n (w_start w) (s_alt (w_sc w)) (w_idx w) -> mp_ok w ->
  fill_until fuel w b = Ok w' ->
  frame w w' /\ pair_ok (w_runs w') n (w_start w') (s_alt (w_sc w')) (w_idx w') /\ mp_ok w'
  /\ (s_alt (w_sc w') <> [] -> s_alt (w_sc w') = s_alt (w_sc w) \/ exists e, chain (w_start w') (s_alt (w_sc w')) e /\ e <= b).
Proof.
  intros n. induction fuel as [|fuel IH]; intros w b w' HR HP HM H; cbn [fill_until] in H; [discriminate|].
  destruct HP as (Hpos & pre & post & m & e & Hsplit & Hidx & Hpre & Hpost & Halt & He1 & He2).
  rewrite (peek_split w pre post Hsplit Hidx) in H.
  destruct post as [|r post'].
  { cbn in H. inversion H; subst w'. split; [apply frame_refl|]. split; [|split; [exact HM|auto]].
    split; [exact Hpos|]. exists pre, [], m, e. repeat split; auto. }
  cbn [andb] in H.
  destruct (o_cnt r + o_off r <=? b) eqn:Eb.
  2:{ inversion H; subst w'. split; [apply frame_refl|]. split; [|split; [exact HM|auto]].
      split; [exact Hpos|]. exists pre, (r :: post'), m, e. repeat split; auto. }
  apply Z.leb_le in Eb.
  destruct (chain_cons_inv _ _ _ _ Hpost) as [Hoff Hpost'].
  assert (Hrpos : 0 < o_cnt r).
  { destruct HR as [_ HA]. rewrite Hsplit in HA. apply Forall_app in HA. destruct HA as [_ HA]. inversion HA; auto. }
  assert (Hpre' : chain 0 (pre ++ [r]) (out_end r)).
  { eapply chain_app; [exact Hpre|]. apply chain_single; auto. }
  assert (Hsplit' : w_runs w = (pre ++ [r]) ++ post') by (rewrite <- app_assoc; exact Hsplit).
  assert (Hidx' : zlen (pre ++ [r]) = w_idx w + 1) by (rewrite zlen_app, zlen_cons, zlen_nil; lia).
  destruct (o_off r + o_cnt r <=? w_start w) eqn:Es.
  - (* the run lies before the line start: skipped *)
    apply Z.leb_le in Es.
    assert (Halt0 : s_alt (w_sc w) = []).
    { destruct (s_alt (w_sc w)) eqn:A; auto. exfalso.
      assert (e = m) by (apply He2; congruence). subst e.
      apply chain_pos_lt in Halt; auto; [|congruence]. lia. }
    assert (P1 : runs_ok (w_runs (iter_advance w)) n) by (destruct w; exact HR).
    assert (P2 : pair_ok (w_runs (iter_advance w)) n (w_start (iter_advance w)) (s_alt (w_sc (iter_advance w))) (w_idx (iter_advance w))).
    { split; [destruct w; exact Hpos|]. exists (pre ++ [r]), post', (out_end r), e.
      destruct w; cbn in *. repeat split; auto.
      all: try (intros; congruence); try (intros _; unfold out_end; lia). }
    assert (P3 : mp_ok (iter_advance w)) by (destruct w; exact HM).
    destruct (IH _ _ _ P1 P2 P3 H) as (F & P & M & X). split; [|split; [exact P|split; [exact M|]]].
    + eapply frame_trans; [|exact F]. unfold frame, iter_advance; destruct w; cbn; repeat split.
    + intros Hne. specialize (X Hne). destruct X as [X|X]; [left|right; exact X].
      rewrite X. destruct w; reflexivity.
  - apply Z.leb_gt in Es.
    destruct (o_off r <? w_start w) eqn:Ec.
    + (* part of the run was used on a previous line: cut *)
      apply Z.ltb_lt in Ec.
      assert (Halt0 : s_alt (w_sc w) = []).
      { destruct (s_alt (w_sc w)) eqn:A; auto. exfalso.
        assert (e = m) by (apply He2; congruence). subst e.
        apply chain_pos_lt in Halt; auto; [|congruence]. lia. }
      destruct (map_run w (w_idx w) r) as [w1| | |] eqn:MR; cbn [bind] in H; try discriminate.
      assert (Hr : r = znth out_zero (w_runs w) (w_idx w)).
      { rewrite Hsplit, <- Hidx. symmetry. apply znth_app_exact. }
      destruct (map_run_ok w (w_idx w) r w1 (proj2 HR) HM Hr MR) as ((mp & ->) & HM1 & Hlen).
      destruct (cut_run _ r _ _ _ _) as [[st' rc]| | |] eqn:CR; cbn [bind] in H; try discriminate.
      cbn [fst snd] in H.
      apply cut_run_fields in CR. destruct CR as (C1 & C2 & _).
      replace (w_start (set_mp w mp)) with (w_start w) in * by (destruct w; reflexivity).
      rewrite Hlen in C2.
      assert (Hco : o_off rc = w_start w) by lia.
      assert (Hce : out_end rc = out_end r) by (unfold out_end in *; lia).
      set (w2 := iter_advance (cand_append (set_st (set_mp w mp) st') rc)) in *.
      assert (P1 : runs_ok (w_runs w2) n) by (destruct w; exact HR).
      assert (P2 : pair_ok (w_runs w2) n (w_start w2) (s_alt (w_sc w2)) (w_idx w2)).
      { destruct w; cbn in *. rewrite Halt0. cbn. split.
        -- constructor; [unfold out_end in Hce; lia|constructor].
        -- exists (pre ++ [r]), post', (out_end r), (out_end rc). repeat split; auto.
           ++ apply chain_single; auto.
           ++ intros; congruence. }
      assert (P3 : mp_ok w2) by (destruct w; cbn in *; intros V; specialize (HM1 V); exact HM1).
      destruct (IH _ _ _ P1 P2 P3 H) as (F & P & M & X). split; [|split; [exact P|split; [exact M|]]].
      * eapply frame_trans; [|exact F]. unfold frame, w2, iter_advance, cand_append; destruct w; cbn; repeat split.
      * intros Hne. specialize (X Hne). destruct X as [X|X]; [right|right; exact X].
        rewrite X. destruct F as (_ & _ & F3 & _). rewrite F3.
        unfold w2. destruct w; cbn in *. rewrite Halt0. cbn. exists (out_end rc).
        split; [apply chain_single; auto|]. unfold out_end in *. lia.
    + (* the whole run goes on the line, its advance taken from the glyphs *)
      apply Z.ltb_ge in Ec. cbn [bind fst snd] in H.
      set (r' := recompute_advance (w_st w) r) in *.
      assert (Er : o_off r' = o_off r /\ o_cnt r' = o_cnt r /\ out_end r' = out_end r) by (unfold r', recompute_advance, set_adv, out_end; cbn; auto).
      destruct Er as (Er1 & Er2 & Er3).
      assert (Hchain : chain (w_start w) (s_alt (w_sc w) ++ [r']) (out_end r)).
      { rewrite <- Er3. destruct (s_alt (w_sc w)) eqn:A.
        - cbn. apply chain_single. rewrite Er1. specialize (He1 eq_refl). lia.
        - assert (e = m) by (apply He2; congruence). subst e.
          eapply chain_app; [exact Halt|]. apply chain_single; rewrite Er1; auto. }
      set (w2 := iter_advance (cand_append w r')) in *.
      assert (P1 : runs_ok (w_runs w2) n) by (destruct w; exact HR).
      assert (P2 : pair_ok (w_runs w2) n (w_start w2) (s_alt (w_sc w2)) (w_idx w2)).
      { destruct w; cbn in *. split.
        -- apply all_pos_app; auto. constructor; [try rewrite Er2; cbn; auto|constructor].
        -- exists (pre ++ [r]), post', (out_end r), (out_end r). repeat split; auto.
           intros Hnil. destruct w_sc; cbn in *. destruct s_alt; discriminate. }
      assert (P3 : mp_ok w2) by (destruct w; exact HM).
      destruct (IH _ _ _ P1 P2 P3 H) as (F & P & M & X). split; [|split; [exact P|split; [exact M|]]].
      * eapply frame_trans; [|exact F]. unfold frame, w2, iter_advance, cand_append; destruct w; cbn; repeat split.
      * intros Hne. specialize (X Hne). destruct X as [X|X]; [right|right; exact X].
        rewrite X. destruct F as (_ & _ & F3 & _). rewrite F3.
        unfold w2. destruct w; cbn in *. exists (out_end r). split; [exact Hchain|]. unfold out_end; lia.
Qed.

Lemma znth_default : forall {A} (d : A) l i, zlen l <= i -> znth d l i = d.
Proof.
  intros A d l i H. unfold znth. pose proof (zlen_nonneg l). destruct (i <? 0) eqn:E; [reflexivity|].
  apply nth_overflow. unfold zlen in *. lia.
Qed.

Lemma cut_run_empty_mapping : forall st run m s e t, zlen m = 0 -> cut_run st run m s e t = Panic p_index.
Proof.
  intros st run m s e t Hm. unfold cut_run, inclusive_glyph_range.
  assert (Z : forall i, zget m i = Panic p_index).
  { intros i. unfold zget. rewrite Hm. destruct (0 <=? i) eqn:A; destruct (i <? 0) eqn:B; try reflexivity. lia. }
  destruct (dir_rtl (o_dir run)); rewrite Z; reflexivity.
Qed.

Lemma Inv_intro : forall n w, runs_ok (w_runs w) n -> pair_ok (w_runs w) n (w_start w) (s_alt (w_sc w)) (w_idx w) ->
  pair_ok (w_runs w) n (w_start w) (s_save (w_sc w)) (w_saved w) -> mp_ok w -> best_ok w -> Inv n w.
Proof. intros; unfold Inv; auto. Qed.

Lemma pbo_ok : forall n w opt lc w' r cand,
  Inv n w -> process_break_option w opt lc = Ok (w', r, cand) ->
  Inv n w' /\ frame w w'
  /\ (r <> BreakInvalid -> exists e, chain (w_start w') (s_alt (w_sc w') ++ [cand]) e /\ e <= fst opt + 1).
Proof.
  intros n w opt lc w' r cand (HR & HP & HS & HM & HB) H. unfold process_break_option in H.
  destruct (fst opt <? w_start w) eqn:E0.
  { inversion H; subst. split; [apply Inv_intro; auto|]. split; [apply frame_refl|congruence]. }
  apply Z.ltb_ge in E0.
  destruct (fill_until _ w (fst opt)) as [w1| | |] eqn:FU; cbn [bind] in H; try discriminate.
  destruct (fill_until_ok n _ _ _ _ HR HP HM FU) as (F1 & P1 & M1 & X1).
  destruct F1 as (F1a & F1b & F1c & F1d & F1e & F1f & F1g & F1h & F1i).
  pose proof P1 as P1'. destruct P1' as (Hpos & pre & post & m & e & Hsplit & Hidx & Hpre & Hpost & Halt & He1 & He2).
  rewrite (peek_split w1 pre post Hsplit Hidx) in H.
  assert (HR1 : runs_ok (w_runs w1) n) by (rewrite F1e; exact HR).
  (* the run under the cursor *)
  set (run := match post with [] => out_zero | r :: _ => r end).
  assert (Hrun : run = znth out_zero (w_runs w1) (w_idx w1)).
  { unfold run. rewrite Hsplit, <- Hidx. destruct post.
    - rewrite app_nil_r. symmetry. apply znth_default. lia.
    - symmetry. apply znth_app_exact. }
  assert (H' : (do w2 <- map_run w1 (w_idx w1) run;
                do v <- is_valid (w_st w2) (fst opt) (mapping_of (w_mp w2)) run;
                if negb v then Ok (w2, BreakInvalid, out_zero)
                else do sr <- cut_run (w_st w2) run (mapping_of (w_mp w2)) (w_start w2) (fst opt) (alt_empty w2);
                     let w3 := set_st w2 (fst sr) in let cand := snd sr in
                     let width := ceil26 (advance_space_aware (w_st w3) cand (c_dir (w_cfg w3)) + s_alt_adv (w_sc w3)) in
                     if lc_max lc <? width then Ok (w3, (if has_best w3 then NewLineBeforeBreak else CannotFit), cand)
                     else if lc_truncating lc && (lc_tmax lc <? width) then
                       if (o_cnt cand + o_off cand =? b_n (w_br w3)) && negb (c_cont (w_cfg w3)) then Ok (w3, EndLine, cand)
                       else Ok (w3, Truncated, cand)
                     else Ok (w3, Fits, cand)) = Ok (w', r, cand)).
  { unfold run. destruct post; exact H. }
  clear H. rename H' into H.
  destruct (map_run w1 (w_idx w1) run) as [w2| | |] eqn:MR; cbn [bind] in H; try discriminate.
  destruct (map_run_ok w1 (w_idx w1) run w2 (proj2 HR1) M1 Hrun MR) as ((mp & ->) & HM2 & Hlen).
  assert (InvW2 : forall st', Inv n (set_st (set_mp w1 mp) st') /\ frame w (set_st (set_mp w1 mp) st')).
  { intros st'. split.
    - apply Inv_intro.
      + destruct w1; cbn in *. rewrite F1e. exact HR.
      + destruct w1; exact P1.
      + destruct w1; cbn in *. rewrite F1e, F1c, F1h, F1f. exact HS.
      + destruct w1; cbn in *. exact HM2.
      + intros l Hl. destruct w1; cbn in *. rewrite F1i in Hl. rewrite F1c. apply HB; auto.
    - unfold frame. destruct w1; cbn in *. repeat split; auto. }
  destruct (is_valid _ _ _ run) as [v| | |]; cbn [bind] in H; try discriminate.
  destruct v; cbn [negb] in H.
  2:{ inversion H; subst. destruct (InvW2 (w_st w1)) as [I F].
      replace (set_st (set_mp w1 mp) (w_st w1)) with (set_mp w1 mp) in * by (destruct w1; reflexivity).
      split; [exact I|]. split; [exact F|congruence]. }
  destruct (cut_run _ run _ _ _ _) as [[st' rc]| | |] eqn:CR; cbn [bind fst snd] in H; try discriminate.
  assert (Hpost_ne : post <> []).
  { intros ->. unfold run in *. rewrite cut_run_empty_mapping in CR; [discriminate|]. rewrite Hlen. reflexivity. }
  destruct post as [|r0 post']; [congruence|]. unfold run in *. clear run.
  destruct (chain_cons_inv _ _ _ _ Hpost) as [Hoff Hpost'].
  apply cut_run_fields in CR. destruct CR as (C1 & C2 & _).
  replace (w_start (set_mp w1 mp)) with (w_start w1) in * by (destruct w1; reflexivity).
  assert (Hchain : exists e', chain (w_start w1) (s_alt (w_sc w1) ++ [rc]) e' /\ e' <= fst opt + 1).
  { exists (out_end rc). split; [|lia]. eapply chain_app; [exact Halt|]. apply chain_single.
    destruct (s_alt (w_sc w1)) eqn:A.
    - specialize (He1 eq_refl). inversion Halt. lia.
    - assert (e = m) by (apply He2; congruence). subst e.
      apply chain_pos_lt in Halt; auto; [|congruence]. lia. }
  destruct (InvW2 st') as [I F].
  assert (Hfin : w' = set_st (set_mp w1 mp) st' /\ cand = rc).
  { destruct (lc_max lc <? _); [inversion H; auto|]. destruct (lc_truncating lc && _).
    - destruct (_ && _); inversion H; auto.
    - inversion H; auto. }
  destruct Hfin as [-> ->]. split; [exact I|]. split; [exact F|]. intros _.
  replace (w_start (set_st (set_mp w1 mp) st')) with (w_start w1) by (destruct w1; reflexivity).
  replace (s_alt (w_sc (set_st (set_mp w1 mp) st'))) with (s_alt (w_sc w1)) by (destruct w1; reflexivity).
  exact Hchain.
Qed.

(* ---- the two loops of wrapNextLine keep the invariant ----------------------------------------------- *)

Definition ofr (w w' : W) : Prop :=
  w_cfg w' = w_cfg w /\ w_truncating w' = w_truncating w /\ w_start w' = w_start w /\ w_more w' = w_more w
  /\ w_runs w' = w_runs w /\ b_n (w_br w') = b_n (w_br w) /\ b_attrs (w_br w') = b_attrs (w_br w).
Lemma ofr_refl : forall w, ofr w w.
Proof. intros; unfold ofr; repeat split. Qed.
Lemma ofr_trans : forall a b c, ofr a b -> ofr b c -> ofr a c.
Proof. unfold ofr; intros a b c H1 H2; intuition congruence. Qed.
Lemma frame_ofr : forall w w', frame w w' -> ofr w w'.
Proof. unfold frame, ofr; intros w w' H; intuition congruence. Qed.

Lemma Inv_checkpoint : forall n w, Inv n w -> Inv n (checkpoint w) /\ ofr w (checkpoint w).
Proof.
  intros n w (HR & HP & HS & HM & HB). split; [|destruct w; unfold ofr; cbn; repeat split].
  apply Inv_intro; destruct w; cbn in *; auto.
Qed.
Lemma Inv_restore : forall n w, Inv n w -> Inv n (restore w) /\ ofr w (restore w).
Proof.
  intros n w (HR & HP & HS & HM & HB). split; [|destruct w; unfold ofr; cbn; repeat split].
  apply Inv_intro; destruct w; cbn in *; auto.
Qed.
Lemma Inv_set_br : forall n w b, Inv n w -> Inv n (set_br w b).
Proof. intros n w b (HR & HP & HS & HM & HB). apply Inv_intro; destruct w; cbn in *; auto. Qed.
Lemma ofr_set_br : forall w b, b_n b = b_n (w_br w) -> b_attrs b = b_attrs (w_br w) -> ofr w (set_br w b).
Proof. intros w b H1 H2. destruct w; unfold ofr; cbn in *; repeat split; auto. Qed.
Lemma Inv_mark_best : forall n w suffix,
  Inv n w -> (exists e, chain (w_start w) (s_alt (w_sc w) ++ suffix) e) ->
  Inv n (mark_best w suffix) /\ ofr w (mark_best w suffix).
Proof.
  intros n w suffix (HR & HP & HS & HM & HB) HC. split; [|destruct w; unfold ofr; cbn; repeat split].
  apply Inv_intro; destruct w; cbn in *; auto.
  intros l Hl; cbn in *. inversion Hl; subst. exact HC.
Qed.
Lemma Inv_alt_chain : forall n w, Inv n w -> exists e, chain (w_start w) (s_alt (w_sc w) ++ []) e.
Proof.
  intros n w (HR & HP & _). destruct HP as (_ & pre & post & m & e & _ & _ & _ & _ & Halt & _).
  rewrite app_nil_r. eauto.
Qed.

Lemma next_word_break_frame : forall b b' o, next_word_break b = (b', o) -> b_n b' = b_n b /\ b_attrs b' = b_attrs b.
Proof.
  intros b b' o H. unfold next_word_break in H. destruct (b_isUnusedW b).
  - inversion H; subst; cbn; auto.
  - unfold next_word_raw in H. destruct (iter_next _ _ _ _) as [p ok]. destruct ok; inversion H; subst; cbn; auto.
Qed.
Lemma next_grapheme_break_frame : forall fuel b b' o, next_grapheme_break fuel b = Ok (b', o) -> b_n b' = b_n b /\ b_attrs b' = b_attrs b.
Proof.
  induction fuel; intros b b' o H; cbn in H; [discriminate|].
  destruct (b_isUnusedG b).
  - cbn in H. destruct ((fst (b_unusedG b) <=? fst (b_prevW b)) && (0 <? fst (b_prevW b))).
    + apply IHfuel in H. cbn in H. exact H.
    + destruct (fst (b_unusedW b) <? fst (b_unusedG b)); inversion H; subst; cbn; auto.
  - unfold next_grapheme_raw in H. destruct (iter_next _ _ _ _) as [p ok]. destruct ok.
    + cbn in H. destruct ((p - 1 <=? fst (b_prevW b)) && (0 <? fst (b_prevW b))).
      * apply IHfuel in H. cbn in H. exact H.
      * destruct (fst (b_unusedW b) <? p - 1); inversion H; subst; cbn; auto.
    + inversion H; subst; cbn; auto.
Qed.

Ltac otr := solve [ repeat (first [ eassumption | eapply ofr_trans; [eassumption|] ]) ].

(* the end of the grapheme loop: the UAX #14 option is processed again and recorded when no line was found *)
Lemma fallback_ok : forall n w wopt lc w' d,
  Inv n w -> word_fallback w wopt lc = Ok (w', d) -> Inv n w' /\ ofr w w'.
Proof.
  intros n w wopt lc w' d HI H. unfold word_fallback in H.
  destruct (negb (lc_truncating lc) && negb (has_best w)); [|inversion H; subst; split; [exact HI|apply ofr_refl]].
  destruct (Inv_restore n w HI) as [I1 O1].
  destruct (process_break_option (restore w) wopt lc) as [[[w3 r] cand]| | |] eqn:PB; cbn [bind] in H; try discriminate.
  destruct (pbo_ok n _ _ _ _ _ _ I1 PB) as (I3 & F3 & C3). apply frame_ofr in F3.
  assert (O3 : ofr w w3) by otr.
  destruct r; inversion H; subst; try (destruct (Inv_restore n w3 I3) as [I4 O4]; split; auto; otr);
    (destruct C3 as (e & C3 & _); [congruence|];
     destruct (Inv_mark_best n w3 [cand] I3 (ex_intro _ e C3)) as [I4 O4]; split; auto; otr).
Qed.

Lemma inner_loop_ok : forall n fuel w wopt lc w' d,
  Inv n w -> inner_loop fuel w wopt lc = Ok (w', d) -> Inv n w' /\ ofr w w'.
Proof.
  intros n. induction fuel as [|fuel IH]; intros w wopt lc w' d HI H; cbn [inner_loop] in H; [discriminate|].
  destruct (Inv_checkpoint n w HI) as [I1 O1].
  destruct (next_grapheme_break _ (w_br (checkpoint w))) as [[b1 ro]| | |] eqn:NG; cbn [bind fst snd] in H; try discriminate.
  destruct (next_grapheme_break_frame _ _ _ _ NG) as [Bn Ba].
  pose proof (Inv_set_br n _ b1 I1) as I2. pose proof (ofr_set_br (checkpoint w) b1 Bn Ba) as O2.
  assert (O12 : ofr w (set_br (checkpoint w) b1)) by otr.
  clear O1 O2. set (w2 := set_br (checkpoint w) b1) in *.
  destruct ro as [opt|]; [|destruct (fallback_ok n _ _ _ _ _ I2 H) as [I5 O5]; split; auto; otr].
  destruct (process_break_option w2 opt lc) as [[[w3 r] cand]| | |] eqn:PB; cbn [bind] in H; try discriminate.
  destruct (pbo_ok n _ _ _ _ _ _ I2 PB) as (I3 & F3 & C3). apply frame_ofr in F3.
  assert (O3 : ofr w w3) by otr. clear F3 O12.
  destruct r.
  - (* BreakInvalid *) destruct (Inv_restore n w3 I3) as [I4 O4].
    destruct (IH _ _ _ _ _ I4 H) as [I5 O5]. split; auto; otr.
  - (* EndLine *) inversion H; subst. destruct C3 as (e & C3 & _); [congruence|].
    destruct (Inv_mark_best n w3 [cand] I3 (ex_intro _ e C3)) as [I4 O4]. split; auto; otr.
  - (* Truncated *) inversion H; subst. destruct (has_best w3); [split; auto|].
    destruct (Inv_restore n w3 I3) as [I4r O4r].
    destruct (Inv_mark_best n (restore w3) [] I4r (Inv_alt_chain n _ I4r)) as [I4 O4]. split; auto; otr.
  - (* NewLineBeforeBreak *) inversion H; subst. destruct (Inv_restore n w3 I3) as [I4 O4]. split.
    + apply Inv_set_br; auto.
    + eapply ofr_trans; [exact O3|]. eapply ofr_trans; [exact O4|]. apply ofr_set_br; reflexivity.
  - (* Fits *) destruct C3 as (e & C3 & _); [congruence|].
    destruct (Inv_mark_best n w3 [cand] I3 (ex_intro _ e C3)) as [I4 O4].
    assert (I5 : Inv n (set_br (mark_best w3 [cand]) (mark_word_unused (w_br w3)))) by (apply Inv_set_br; auto).
    destruct (IH _ _ _ _ _ I5 H) as [I6 O6]. split; auto.
    eapply ofr_trans; [exact O3|]. eapply ofr_trans; [exact O4|]. eapply ofr_trans; [|exact O6].
    destruct w3; unfold ofr; cbn; repeat split.
  - (* CannotFit *) destruct (lc_truncating lc); inversion H; subst; [split; auto|].
    destruct C3 as (e & C3 & _); [congruence|].
    destruct (Inv_mark_best n w3 [cand] I3 (ex_intro _ e C3)) as [I4 O4]. split.
    + apply Inv_set_br; auto.
    + eapply ofr_trans; [exact O3|]. eapply ofr_trans; [exact O4|]. destruct w3; unfold ofr; cbn; repeat split.
Qed.

Lemma outer_loop_ok : forall n fuel w lc w' d,
  Inv n w -> outer_loop fuel w lc = Ok (w', d) -> Inv n w' /\ ofr w w'.
Proof.
  intros n. induction fuel as [|fuel IH]; intros w lc w' d HI H; cbn [outer_loop] in H; [discriminate|].
  destruct (Inv_checkpoint n w HI) as [I1 O1].
  destruct (next_word_break (w_br (checkpoint w))) as [b1 ro] eqn:NW.
  destruct (next_word_break_frame _ _ _ NW) as [Bn Ba].
  pose proof (Inv_set_br n _ b1 I1) as I2. pose proof (ofr_set_br (checkpoint w) b1 Bn Ba) as O2.
  assert (O12 : ofr w (set_br (checkpoint w) b1)) by otr.
  clear O1 O2. set (w2 := set_br (checkpoint w) b1) in *.
  destruct ro as [opt|]; [|inversion H; subst; auto].
  destruct (process_break_option w2 opt lc) as [[[w3 r] cand]| | |] eqn:PB; cbn [bind] in H; try discriminate.
  destruct (pbo_ok n _ _ _ _ _ _ I2 PB) as (I3 & F3 & C3). apply frame_ofr in F3.
  assert (O3 : ofr w w3) by otr. clear F3 O12.
  assert (G : forall wx, Inv n wx -> ofr w wx -> inner_loop (br_fuel wx) (restore wx) opt lc = Ok (w', d) -> Inv n w' /\ ofr w w').
  { intros wx Ix Ox Hx. destruct (Inv_restore n wx Ix) as [I4 O4]. destruct (inner_loop_ok n _ _ _ _ _ _ I4 Hx) as [I5 O5].
    split; auto; otr. }
  destruct r.
  - (* BreakInvalid *) destruct (Inv_restore n w3 I3) as [I4 O4]. cbv zeta in H.
    pose proof (Inv_set_br n _ (discard_word (w_br (restore w3))) I4) as I4'.
    pose proof (ofr_set_br (restore w3) (discard_word (w_br (restore w3))) eq_refl eq_refl) as O4'.
    destruct (IH _ _ _ _ I4' H) as [I5 O5]. split; auto; otr.
  - (* EndLine *) inversion H; subst. destruct C3 as (e & C3 & _); [congruence|].
    destruct (Inv_mark_best n w3 [cand] I3 (ex_intro _ e C3)) as [I4 O4]. split; auto; otr.
  - (* Truncated *)
    assert (X : Inv n (if has_best w3 then w3 else mark_best (restore w3) []) /\ ofr w (if has_best w3 then w3 else mark_best (restore w3) [])).
    { destruct (has_best w3); [split; auto|].
      destruct (Inv_restore n w3 I3) as [I4r O4r].
      destruct (Inv_mark_best n (restore w3) [] I4r (Inv_alt_chain n _ I4r)) as [I4 O4]. split; auto; otr. }
    destruct X as [I4 O4]. destruct (policy_never _); [inversion H; subst; auto|]. eapply G; eauto.
  - (* NewLineBeforeBreak *)
    destruct (Inv_restore n w3 I3) as [I4 O4].
    assert (I5 : Inv n (set_br (restore w3) (mark_word_unused (w_br (restore w3))))) by (apply Inv_set_br; auto).
    assert (O5 : ofr w (set_br (restore w3) (mark_word_unused (w_br (restore w3))))).
    { eapply ofr_trans; [exact O3|]. eapply ofr_trans; [exact O4|]. apply ofr_set_br; reflexivity. }
    destruct (_ || _); [inversion H; subst; auto|]. eapply G; eauto.
  - (* Fits *) destruct C3 as (e & C3 & _); [congruence|].
    destruct (Inv_mark_best n w3 [cand] I3 (ex_intro _ e C3)) as [I4 O4].
    assert (O5 : ofr w (mark_best w3 [cand])) by otr.
    destruct (snd opt); [inversion H; subst; auto|].
    destruct (IH _ _ _ _ I4 H) as [I6 O6]. split; auto; otr.
  - (* CannotFit *)
    destruct (policy_never w3).
    + destruct (lc_truncating lc); inversion H; subst; [split; auto|].
      destruct C3 as (e & C3 & _); [congruence|].
      destruct (Inv_mark_best n w3 [cand] I3 (ex_intro _ e C3)) as [I4 O4]. split; auto; otr.
    + eapply G; eauto.
Qed.

(* ---- postProcessLine and WrapNextLine ------------------------------------------------------------- *)

Lemma assign_vis_rng : forall l vs, map rng (assign_vis l vs) = map rng l.
Proof. induction l; intros vs; destruct vs; cbn; auto. f_equal. apply IHl. Qed.
Lemma bidi_go_rng : forall dir len l idx seg, map rng (bidi_go dir len idx seg l) = map rng (seg ++ l).
Proof.
  induction l as [|a l IH]; intros idx seg; cbn [bidi_go].
  - rewrite app_nil_r. apply assign_vis_rng.
  - destruct (o_dir a =? dir).
    + rewrite !map_app. cbn [map]. rewrite IH. cbn [app map]. unfold swap_visual_order. rewrite assign_vis_rng. reflexivity.
    + rewrite IH. rewrite <- app_assoc. cbn [app]. rewrite !map_app. reflexivity.
Qed.
Lemma bidi_rng : forall dir l, map rng (compute_bidi_ordering dir l) = map rng l.
Proof. intros. unfold compute_bidi_ordering. apply bidi_go_rng. Qed.

Lemma list_set_rng : forall l i x, (forall d, rng x = rng (nth i l d)) -> map rng (list_set l i x) = map rng l.
Proof.
  induction l as [|a l IH]; intros i x H; cbn; auto. destruct i; cbn.
  - f_equal. apply (H a).
  - f_equal. apply IH. intros d. apply (H d).
Qed.
Lemma zset_rng : forall l i x, rng x = rng (znth out_zero l i) -> i < zlen l -> map rng (zset l i x) = map rng l.
Proof.
  intros l i x H Hi. unfold zset. destruct (i <? 0) eqn:E; [reflexivity|]. apply list_set_rng.
  intros d. unfold znth in H. rewrite E in H. rewrite H. apply f_equal. apply nth_indep. unfold zlen in Hi. lia.
Qed.

Lemma chain_last : forall l s e, chain s l e -> l <> [] -> out_end (znth out_zero l (zlen l - 1)) = e.
Proof.
  unfold chain. induction l as [|a l IH]; intros s e H N; [congruence|].
  cbn in H. destruct (o_off a =? s); [|discriminate]. destruct l as [|b l].
  - cbn in H. inversion H. reflexivity.
  - rewrite zlen_cons. rewrite znth_cons_S by (rewrite zlen_cons; pose proof (zlen_nonneg l); lia).
    replace (1 + zlen (b :: l) - 1 - 1) with (zlen (b :: l) - 1) by lia.
    eapply IH; eauto. congruence.
Qed.

Lemma chain_last' : forall l s e, chain s l e -> l <> [] ->
  o_cnt (znth out_zero l (zlen l - 1)) + o_off (znth out_zero l (zlen l - 1)) = e.
Proof. intros l s e H N. pose proof (chain_last l s e H N) as X. unfold out_end in X. lia. Qed.

(* what one call returns, as rune ranges: the line is a chain from the previous line start; the new line start is
   its end; an appended truncator covers exactly the rest of the paragraph and Truncated is its rune count *)
Definition line_result (n start : Z) (w' : W) (wl : wrapped) : Prop :=
  wl_next wl = w_start w' /\
  match wl_line wl with
  | None => w_start w' = start /\ (wl_truncated wl = 0 \/ wl_truncated wl = n - start)
  | Some l => exists e, chain start l e
        /\ ((e = w_start w' /\ (wl_truncated wl = 0 \/ wl_truncated wl = n - w_start w'))
            \/ (e = n /\ wl_truncated wl = n - w_start w'
                /\ exists body, chain start body (w_start w')
                     /\ map rng l = map rng body ++ [(w_start w', wl_truncated wl, o_src (c_truncator (w_cfg w')))]))
  end.

Lemma start_set_cfg : forall w c, w_start (set_cfg w c) = w_start w.
Proof. destruct w; reflexivity. Qed.
Lemma start_set_more : forall w b, w_start (set_more w b) = w_start w.
Proof. destruct w; reflexivity. Qed.
Lemma cfg_set_more : forall w b, w_cfg (set_more w b) = w_cfg w.
Proof. destruct w; reflexivity. Qed.
Lemma cfg_set_cfg : forall w c, w_cfg (set_cfg w c) = c.
Proof. destruct w; reflexivity. Qed.

Lemma post_process_chain : forall n w line done w' wl d',
  b_n (w_br w) = n ->
  (forall l, line = Some l -> exists e, chain (w_start w) l e) ->
  post_process w line done = (w', wl, d') ->
  line_result n (w_start w) w' wl.
Proof.
  intros n w line done w' wl d' Hn HL H. unfold post_process in H.
  (* first part: ordering, trim, new line start *)
  set (P1 := match line with
             | Some (_ :: _ as fl) => _
             | _ => (w, line)
             end) in H.
  assert (X : exists w1 line1, P1 = (w1, line1) /\ b_n (w_br w1) = n /\ w_cfg w1 = w_cfg w /\ w_truncating w1 = w_truncating w
              /\ match line1 with
                 | None => line = None /\ w_start w1 = w_start w
                 | Some l1 => chain (w_start w) l1 (w_start w1)
                 end).
  { unfold P1. destruct line as [[|a fl]|].
    - exists w, (Some []). repeat split; auto.
    - destruct (HL _ eq_refl) as [e He].
      set (fl0 := compute_bidi_ordering (c_dir (w_cfg w)) (a :: fl)).
      assert (R0 : map rng fl0 = map rng (a :: fl)) by apply bidi_rng.
      assert (N0 : fl0 <> []) by (intros Q; rewrite Q in R0; discriminate).
      assert (C0 : chain (w_start w) fl0 e) by (unfold chain; rewrite (chain_rng _ _ _ R0); exact He).
      clearbody fl0.
      destruct (c_notrim (w_cfg w)).
      + eexists _, _. split; [reflexivity|]. cbn. repeat split; auto.
        rewrite (chain_last' _ _ _ C0 N0). exact C0.
      + set (goal := match find_vis fl0 _ 0 with Some i => i | None => _ end). clearbody goal.
        destruct (0 <? o_len (znth out_zero fl0 goal)) eqn:EL.
        * destruct (goal <? zlen fl0) eqn:EG.
          -- apply Z.ltb_lt in EG.
             set (fl1 := zset fl0 goal _).
             assert (R1 : map rng fl1 = map rng fl0) by (apply zset_rng; [reflexivity|exact EG]).
             clearbody fl1.
             assert (N1 : fl1 <> []) by (intros Q; rewrite Q in R1; destruct fl0; [congruence|discriminate]).
             assert (C1 : chain (w_start w) fl1 e) by (unfold chain; rewrite (chain_rng _ _ _ R1); exact C0).
             eexists _, _. split; [reflexivity|]. cbn. repeat split; auto.
             rewrite (chain_last' _ _ _ C1 N1). exact C1.
          -- apply Z.ltb_ge in EG. rewrite (znth_default out_zero fl0 goal EG) in EL. cbn in EL. discriminate.
        * eexists _, _. split; [reflexivity|]. cbn. repeat split; auto.
          rewrite (chain_last' _ _ _ C0 N0). exact C0.
    - exists w, None. repeat split; auto. }
  destruct X as (w1 & line1 & -> & Hn1 & Hc1 & Ht1 & HX).
  cbn [fst snd] in H. rewrite Hn1 in H.
  assert (Hplain : forall wz x, w_start wz = w_start w1 -> x = w_start w1 -> line_result n (w_start w) wz (mkWrapped line1 0 x)).
  { intros wz x Hz ->. unfold line_result; cbn. rewrite Hz. split; [reflexivity|]. destruct line1.
    - exists (w_start w1). split; [exact HX|]. left. auto.
    - destruct HX as [_ HX]. rewrite HX. auto. }
  destruct (w_truncating w1) eqn:TR.
  - destruct (c_trunc (w_cfg w) - 1 =? 0) eqn:K.
    + rewrite start_set_cfg in H.
      destruct ((0 <? n - w_start w1) || c_cont (w_cfg w)) eqn:INS.
      * inversion H; subst w' wl d'; clear H. unfold line_result; cbn.
        rewrite ?start_set_more, ?start_set_cfg, ?cfg_set_more, ?cfg_set_cfg. cbn.
        split; [reflexivity|].
        set (t' := mkOut _ _ (w_start w1) (n - w_start w1) _ _ _ _).
        set (body := match line1 with Some l => l | None => [] end).
        assert (CB : chain (w_start w) body (w_start w1)).
        { unfold body. destruct line1; [exact HX|]. destruct HX as [_ ->]. reflexivity. }
        assert (CT : chain (w_start w) (body ++ [t']) n).
        { eapply chain_app; [exact CB|]. pose proof (chain_single t' (w_start w1) eq_refl) as Q.
          replace (out_end t') with n in Q by (unfold out_end, t'; cbn; lia). exact Q. }
        set (fl := compute_bidi_ordering _ (body ++ [t'])).
        assert (R : map rng fl = map rng (body ++ [t'])) by apply bidi_rng.
        exists n. split; [unfold chain; rewrite (chain_rng _ _ _ R); exact CT|]. right. split; [reflexivity|]. split; [reflexivity|].
        exists body. split; [exact CB|]. rewrite R, map_app. reflexivity.
      * inversion H; subst w' wl d'; clear H. unfold line_result; cbn.
        rewrite ?start_set_more, ?start_set_cfg. split; [reflexivity|]. destruct line1.
        -- exists (w_start w1). split; [exact HX|]. left. auto.
        -- destruct HX as [_ HX]. rewrite HX. auto.
    + destruct (done || _); inversion H; subst w' wl d'; clear H;
        apply Hplain; rewrite ?start_set_more, ?start_set_cfg; reflexivity.
  - destruct (done || _); inversion H; subst w' wl d'; clear H;
      apply Hplain; rewrite ?start_set_more; reflexivity.
Qed.

Lemma wrap_next_line_chain : forall n w mw w' wl d,
  Inv n (start_line w) -> b_n (w_br w) = n -> w_more w = true ->
  wrap_next_line w mw = Ok (w', wl, d) ->
  line_result n (w_start w) w' wl.
Proof.
  intros n w mw w' wl d HI Hn Hm H. unfold wrap_next_line in H. rewrite Hm in H. cbn [negb] in H.
  destruct (peek w) as [[ci run] hasFirst]. destruct hasFirst; cbn [negb] in H.
  - destruct (outer_loop _ (start_line w) _) as [[w2 d2]| | |] eqn:OL; cbn [bind] in H; try discriminate.
    destruct (outer_loop_ok n _ _ _ _ _ HI OL) as [I2 O2].
    destruct O2 as (_ & _ & Os & _ & _ & On & _).
    inversion H as [H1]. clear H.
    replace (w_start w) with (w_start w2) by (rewrite Os; destruct w; reflexivity).
    eapply post_process_chain; [| |exact H1].
    + rewrite On. destruct w; exact Hn.
    + destruct I2 as (_ & _ & _ & _ & HB). exact HB.
  - inversion H as [H1]. clear H. eapply post_process_chain; [exact Hn| |exact H1]. intros l Hl; discriminate.
Qed.

Lemma prepare_inv : forall n w cfg attrs runs,
  runs_ok runs n -> Inv n (start_line (prepare w cfg attrs runs 0 0)).
Proof.
  intros n w cfg attrs runs HR. destruct HR as [HC HP].
  assert (P : pair_ok runs n 0 [] 0).
  { split; [constructor|]. exists [], runs, 0, 0. repeat split; auto; try reflexivity; try lia; try (intros; congruence). }
  apply Inv_intro; cbn; auto.
  - split; auto.
  - intros V; discriminate.
  - intros l Hl; discriminate.
Qed.

(* the first line of a paragraph, for every well-formed run list, configuration and width *)
Lemma first_line_chain : forall n w cfg attrs runs mw w' wl d,
  runs_ok runs n -> zlen attrs - 1 = n ->
  wrap_next_line (prepare w cfg attrs runs 0 0) mw = Ok (w', wl, d) ->
  line_result n 0 w' wl.
Proof.
  intros n w cfg attrs runs mw w' wl d HR Hn H.
  change 0 with (w_start (prepare w cfg attrs runs 0 0)) at 1.
  eapply wrap_next_line_chain; [apply prepare_inv; exact HR|exact Hn|reflexivity|exact H].
Qed.

(* Advance of every candidate the wrapper cuts = sum of the advances of its glyphs in the store at that time *)
Lemma cut_run_advance : forall st run m s e t st' r,
  cut_run st run m s e t = Ok (st', r) -> o_adv r = sum_adv (out_glyphs st' r).
Proof. intros. apply cut_run_fields in H. tauto. Qed.
