(* C02: the store-structure invariant of the line wrapper.  The glyph store keeps its skeleton (cluster value, rune
   count, glyph count, extent, end letter spacing of every glyph; lengths of every array) through every edit the
   wrapper makes (trimStartLetterSpacing, trailing-space zeroing); everything the wrapper decides from the store
   (rune -> glyph mapping, isValid, the slice bounds of cutRun) is a function of that skeleton.  Composed with
   map3_correct / cut_run_exact / is_valid_sound this gives: no call panics (wrap_no_panic) and every piece placed on a
   returned line holds exactly the glyphs of the clusters of its rune range (wrapped_pieces_exact). *)
From TV Require Import Model.Wrap Spec.Wrap Spec.WrapCut Proofs.Wrap Proofs.WrapCut Proofs.WrapLines Proofs.WrapTotal.

(* ---- the skeleton of a store -------------------------------------------------------------------------- *)

Definition gskel (g : glyph) : Z * Z * Z * Z * Z := (g_cluster g, g_rc g, g_gc g, g_ext g, g_els g).
Definition sk (st : store) : list (list (Z * Z * Z * Z * Z)) := map (map gskel) st.

Lemma gskel_fields : forall a b, gskel a = gskel b ->
  g_cluster a = g_cluster b /\ g_rc a = g_rc b /\ g_gc a = g_gc b /\ g_ext a = g_ext b /\ g_els a = g_els b.
Proof. intros a b H. unfold gskel in H. inversion H. auto. Qed.

Lemma map_cons_inj : forall {A B} (f : A -> B) x y a b, map f (x :: a) = map f (y :: b) -> f x = f y /\ map f a = map f b.
Proof. intros A B f x y a b H. cbn [map] in H. split; [exact (f_equal (hd (f x)) H)|exact (f_equal (@tl _) H)]. Qed.

Lemma gskel_trim : forall g, gskel (trim_glyph g) = gskel g.
Proof. reflexivity. Qed.
Lemma gskel_zero : forall g, gskel (zero_adv g) = gskel g.
Proof. reflexivity. Qed.

Lemma map_list_set : forall {A B} (h : A -> B) l k x,
  (forall y, nth_error l k = Some y -> h x = h y) -> map h (list_set l k x) = map h l.
Proof.
  induction l as [|a l IH]; intros k x H; cbn; auto. destruct k; cbn.
  - f_equal. apply H. reflexivity.
  - f_equal. apply IH. intros y Hy. apply H. exact Hy.
Qed.
Lemma map_zset : forall {A B} (h : A -> B) (d : A) l i x,
  h x = h (znth d l i) -> map h (zset l i x) = map h l.
Proof.
  intros A B h d l i x H. unfold zset. destruct (i <? 0) eqn:E; [reflexivity|]. apply map_list_set.
  intros y Hy. rewrite H. unfold znth. rewrite E. f_equal. apply nth_error_nth. exact Hy.
Qed.

Lemma sk_update : forall st src i f, (forall g, gskel (f g) = gskel g) -> sk (store_update st src i f) = sk st.
Proof.
  intros st src i f Hf. unfold sk, store_update. apply (map_zset (map gskel) []).
  fold (src_array st src). apply (map_zset gskel glyph_zero). apply Hf.
Qed.

Lemma sk_array : forall st st' i, sk st = sk st' -> map gskel (src_array st i) = map gskel (src_array st' i).
Proof.
  intros st st' i H. unfold src_array, znth. destruct (i <? 0); [reflexivity|].
  change (@nil (Z * Z * Z * Z * Z)) with (map gskel []).
  rewrite <- !(map_nth (map gskel)). unfold sk in H. cbn [map]. rewrite H. reflexivity.
Qed.
Lemma sk_zlen : forall st st', sk st = sk st' -> zlen st = zlen st'.
Proof. intros st st' H. apply (f_equal (@length _)) in H. unfold sk in H. rewrite !map_length in H. unfold zlen. lia. Qed.
Lemma skl_zlen : forall (a b : list glyph), map gskel a = map gskel b -> zlen a = zlen b.
Proof. intros a b H. apply (f_equal (@length _)) in H. rewrite !map_length in H. unfold zlen. lia. Qed.

(* ---- what depends on the skeleton only ------------------------------------------------------------------ *)

Lemma skl_firstn : forall (a b : list glyph) k, map gskel a = map gskel b -> map gskel (zfirstn k a) = map gskel (zfirstn k b).
Proof. intros a b k H. unfold zfirstn. rewrite <- !firstn_map. rewrite H. reflexivity. Qed.
Lemma skl_skipn : forall (a b : list glyph) k, map gskel a = map gskel b -> map gskel (zskipn k a) = map gskel (zskipn k b).
Proof. intros a b k H. unfold zskipn. rewrite <- !skipn_map. rewrite H. reflexivity. Qed.
Lemma skl_rev : forall (a b : list glyph), map gskel a = map gskel b -> map gskel (rev a) = map gskel (rev b).
Proof. intros a b H. rewrite !map_rev. rewrite H. reflexivity. Qed.

Lemma skl_forallb2 : forall (p q : glyph -> bool) (a b : list glyph),
  (forall x y, gskel x = gskel y -> p x = q y) -> map gskel a = map gskel b -> forallb p a = forallb q b.
Proof.
  intros p q. induction a as [|x a IH]; intros b Hp H; destruct b as [|y b]; try discriminate; auto.
  destruct (map_cons_inj _ _ _ _ _ H) as [H1 H2]. cbn. rewrite (Hp x y) by assumption. f_equal. apply IH; auto.
Qed.
Lemma skl_existsb : forall (p : glyph -> bool) (a b : list glyph),
  (forall x y, gskel x = gskel y -> p x = p y) -> map gskel a = map gskel b -> existsb p a = existsb p b.
Proof.
  intros p. induction a as [|x a IH]; intros b Hp H; destruct b as [|y b]; try discriminate; auto.
  destruct (map_cons_inj _ _ _ _ _ H) as [H1 H2]. cbn. rewrite (Hp x y) by assumption. f_equal. apply IH; auto.
Qed.

Lemma skl_wf_clusters : forall fuel (a b : list glyph) pos stop, map gskel a = map gskel b ->
  wf_clusters fuel a pos stop = wf_clusters fuel b pos stop.
Proof.
  induction fuel as [|fuel IH]; intros a b pos stop H; cbn [wf_clusters]; auto.
  destruct a as [|x a']; destruct b as [|y b']; try discriminate; auto.
  pose proof (skl_zlen _ _ H) as HL.
  assert (Hxy : gskel x = gskel y) by (destruct (map_cons_inj _ _ _ _ _ H) as [H1 H2]; exact H1).
  destruct (gskel_fields _ _ Hxy) as (F1 & F2 & F3 & _). rewrite F1, F2, F3, HL.
  f_equal; [f_equal|].
  - apply skl_forallb2; [|apply skl_firstn; exact H].
    intros u v Huv. destruct (gskel_fields _ _ Huv) as (G1 & G2 & G3 & _). unfold same_cluster. rewrite F1, F2, F3, G1, G2, G3. reflexivity.
  - apply IH. apply skl_skipn. exact H.
Qed.

Lemma sk_wf_run : forall st st' i r, sk st = sk st' -> wf_run st i r = wf_run st' i r.
Proof.
  intros st st' i r H. unfold wf_run. pose proof (sk_array st st' i H) as HA.
  rewrite (skl_zlen _ _ HA).
  replace (length (src_array st i)) with (length (src_array st' i))
    by (apply (f_equal (@length _)) in HA; rewrite !map_length in HA; lia).
  f_equal. apply skl_wf_clusters. unfold logical_glyphs. destruct (dir_rtl (o_dir r)); [apply skl_rev|]; exact HA.
Qed.
Lemma sk_wf_runs_from : forall st st' rs i pos n, sk st = sk st' -> wf_runs_from st i pos rs n = wf_runs_from st' i pos rs n.
Proof.
  intros st st' rs. induction rs as [|r rs IH]; intros i pos n H; cbn [wf_runs_from]; auto.
  rewrite (sk_wf_run st st' i r H), (IH (i + 1) (out_end r) n H). reflexivity.
Qed.
Lemma sk_wf_runs : forall st st' rs n, sk st = sk st' -> wf_runs st rs n = wf_runs st' rs n.
Proof. intros. apply sk_wf_runs_from. assumption. Qed.

Lemma skl_first_index : forall p (a b : list glyph) k, map gskel a = map gskel b ->
  first_index (holds p) a k = first_index (holds p) b k.
Proof.
  intros p. induction a as [|x a IH]; intros b k H; destruct b as [|y b]; try discriminate; auto.
  destruct (map_cons_inj _ _ _ _ _ H) as [H1 H2]. destruct (gskel_fields _ _ H1) as (F1 & F2 & _). cbn [first_index]. unfold holds. rewrite F1, F2.
  destruct (_ && _); auto.
Qed.
Lemma skl_map3_spec : forall (a b : list glyph) off cnt, map gskel a = map gskel b -> map3_spec a off cnt = map3_spec b off cnt.
Proof. intros a b off cnt H. unfold map3_spec. apply map_ext. intros i. apply skl_first_index. exact H. Qed.

Lemma skl_cluster_start : forall (a b : list glyph) off cnt p, map gskel a = map gskel b ->
  cluster_start a off cnt p = cluster_start b off cnt p.
Proof.
  intros a b off cnt p H. unfold cluster_start. f_equal. apply skl_existsb; [|exact H].
  intros x y Hxy. destruct (gskel_fields _ _ Hxy) as (F1 & _). rewrite F1. reflexivity.
Qed.

Lemma skl_piece_glyphs_ok : forall (a b : list glyph) i lo hi x y, map gskel a = map gskel b ->
  piece_glyphs_ok a i lo hi x y = piece_glyphs_ok b i lo hi x y.
Proof.
  induction a as [|g a IH]; intros b i lo hi x y H; destruct b as [|g' b]; try discriminate; auto.
  destruct (map_cons_inj _ _ _ _ _ H) as [H1 H2]. destruct (gskel_fields _ _ H1) as (F1 & F2 & _). cbn [piece_glyphs_ok]. rewrite F1, F2.
  f_equal. apply IH. assumption.
Qed.
Lemma sk_piece_ok : forall st st' rs r, sk st = sk st' -> piece_ok st rs r = piece_ok st' rs r.
Proof.
  intros st st' rs r H. unfold piece_ok. pose proof (sk_array st st' (o_src r) H) as HA.
  rewrite (skl_zlen _ _ HA). f_equal. apply skl_piece_glyphs_ok. exact HA.
Qed.

Lemma sk_structure_kept : forall st st', sk st = sk st' -> structure_kept st st' = true.
Proof.
  unfold structure_kept, sk. induction st as [|a st IH]; intros st' H; destruct st' as [|b st']; try discriminate; auto.
  destruct (map_cons_inj _ _ _ _ _ H) as [H1 H2]. cbn [list_eqb]. rewrite IH by assumption. rewrite andb_true_r.
  clear - H1. revert b H1. induction a as [|x a IHa]; intros b H; destruct b as [|y b]; try discriminate; auto.
  destruct (map_cons_inj _ _ _ _ _ H) as [H1 H2]. destruct (gskel_fields _ _ H1) as (F1 & F2 & F3 & F4 & F5). cbn [list_eqb].
  rewrite IHa by assumption. unfold glyph_struct_eqb. rewrite F1, F2, F3, F4, F5, !Z.eqb_refl. reflexivity.
Qed.

(* ---- facts from wf_runs ----------------------------------------------------------------------------------- *)

Lemma wf_run_facts : forall st i r, wf_run st i r = true ->
  o_src r = i /\ o_lo r = 0 /\ o_len r = zlen (src_array st i) /\ 1 <= o_cnt r
  /\ wf_glyphs (o_dir r) (src_array st i) (o_off r) (o_cnt r) = true.
Proof.
  intros st i r H. unfold wf_run in H.
  repeat (apply andb_prop in H; let H' := fresh "K" in destruct H as [H H']).
  apply Z.eqb_eq in H. apply Z.eqb_eq in K4. apply Z.eqb_eq in K3. apply Z.leb_le in K2.
  repeat split; auto.
Qed.

Lemma src_array_out : forall st i, ~ (0 <= i < zlen st) -> src_array st i = [].
Proof.
  intros st i H. unfold src_array. destruct (Z_lt_dec i 0) as [A|A].
  - unfold znth. replace (i <? 0) with true by (symmetry; apply Z.ltb_lt; lia). reflexivity.
  - apply znth_default. lia.
Qed.

Lemma wf_runs_from_nth : forall st rs i pos n, wf_runs_from st i pos rs n = true ->
  forall k, 0 <= k < zlen rs -> wf_run st (i + k) (znth out_zero rs k) = true.
Proof.
  intros st. induction rs as [|r rs IH]; intros i pos n H k Hk; [unfold zlen in Hk; cbn in Hk; lia|].
  cbn [wf_runs_from] in H. apply andb_prop in H. destruct H as [H H2]. apply andb_prop in H. destruct H as [H0 H1].
  rewrite zlen_cons in Hk. destruct (Z.eq_dec k 0) as [->|Hne].
  - rewrite Z.add_0_r. exact H1.
  - rewrite znth_cons_S by lia. replace (i + k) with (i + 1 + (k - 1)) by lia. eapply IH; eauto. lia.
Qed.

Lemma wf_runs_from_chain : forall st rs i pos n, wf_runs_from st i pos rs n = true -> chain pos rs n /\ all_pos rs.
Proof.
  intros st. induction rs as [|r rs IH]; intros i pos n H; cbn [wf_runs_from] in H.
  - apply Z.eqb_eq in H. subst. split; [reflexivity|constructor].
  - apply andb_prop in H. destruct H as [H H2]. apply andb_prop in H. destruct H as [H0 H1].
    destruct (IH _ _ _ H2) as [C P]. destruct (wf_run_facts _ _ _ H1) as (_ & _ & _ & F & _). split.
    + unfold chain. cbn [contiguous_from]. rewrite H0. exact C.
    + constructor; [lia|exact P].
Qed.
Lemma wf_runs_ok : forall st rs n, wf_runs st rs n = true -> runs_ok rs n.
Proof. intros st rs n H. apply (wf_runs_from_chain st rs 0 0 n H). Qed.

Lemma In_znth : forall {A} (d : A) l x, In x l -> exists k, 0 <= k < zlen l /\ znth d l k = x.
Proof.
  intros A d l x H. destruct (In_nth l x d H) as (k & Hk & E). exists (Z.of_nat k). split; [unfold zlen; lia|].
  unfold znth. destruct (Z.of_nat k <? 0) eqn:Q; [lia|]. rewrite Nat2Z.id. exact E.
Qed.

Lemma wf_runs_nth : forall st rs n, wf_runs st rs n = true -> forall k, 0 <= k < zlen rs ->
  let r := znth out_zero rs k in
  In r rs /\ o_src r = k /\ o_lo r = 0 /\ o_len r = zlen (src_array st k) /\ 1 <= o_cnt r
  /\ wf_glyphs (o_dir r) (src_array st k) (o_off r) (o_cnt r) = true /\ 0 <= k < zlen st
  /\ out_glyphs st r = src_array st k.
Proof.
  intros st rs n H k Hk r. pose proof (wf_runs_from_nth st rs 0 0 n H k Hk) as W. rewrite Z.add_0_l in W. fold r in W.
  destruct (wf_run_facts _ _ _ W) as (F1 & F2 & F3 & F4 & F5).
  assert (Hst : 0 <= k < zlen st).
  { destruct (Z_lt_dec k 0) as [A|A]; [lia|]. destruct (Z_lt_dec k (zlen st)) as [B|B]; [lia|]. exfalso.
    rewrite src_array_out in F5 by lia. unfold wf_glyphs, logical_glyphs in F5. destruct (dir_rtl (o_dir r)); cbn in F5; apply Z.eqb_eq in F5; lia. }
  split; [apply znth_In; exact Hk|]. repeat (split; [assumption|]).
  rewrite <- F1. apply out_glyphs_whole; [exact F2|rewrite F1; exact F3].
Qed.
Lemma wf_runs_in : forall st rs n, wf_runs st rs n = true -> forall r, In r rs ->
  0 <= o_src r < zlen rs /\ znth out_zero rs (o_src r) = r /\ o_lo r = 0 /\ o_len r = zlen (src_array st (o_src r))
  /\ 1 <= o_cnt r /\ wf_glyphs (o_dir r) (src_array st (o_src r)) (o_off r) (o_cnt r) = true /\ 0 <= o_src r < zlen st
  /\ out_glyphs st r = src_array st (o_src r).
Proof.
  intros st rs n H r Hr. destruct (In_znth out_zero rs r Hr) as (k & Hk & E).
  destruct (wf_runs_nth st rs n H k Hk) as (_ & F1 & F2 & F3 & F4 & F5 & F6 & F7). rewrite E in *. rewrite F1.
  repeat split; auto; lia.
Qed.

Lemma chain_in_bounds : forall l s e r, chain s l e -> all_pos l -> In r l -> s <= o_off r /\ out_end r <= e.
Proof.
  induction l as [|a l IH]; intros s e r C P Hr; [destruct Hr|].
  destruct (chain_cons_inv _ _ _ _ C) as [C1 C2]. inversion P; subst.
  pose proof (chain_pos_le _ _ _ C2 H2) as L. destruct Hr as [->|Hr].
  - split; lia.
  - destruct (IH _ _ _ C2 H2 Hr). unfold out_end in *. split; lia.
Qed.

(* ---- cluster boundaries of all runs ------------------------------------------------------------------------- *)

Definition CBall (st : store) (rs : list out) (p : Z) : Prop :=
  forall r, In r rs -> cluster_start (src_array st (o_src r)) (o_off r) (o_cnt r) p = true.

Lemma CBall_sk : forall st st' rs p, sk st = sk st' -> CBall st rs p -> CBall st' rs p.
Proof. intros st st' rs p H C r Hr. rewrite <- (skl_cluster_start _ _ _ _ _ (sk_array st st' (o_src r) H)). apply C. exact Hr. Qed.

Lemma cluster_start_out : forall gs off cnt p, p <= off \/ off + cnt <= p -> cluster_start gs off cnt p = true.
Proof.
  intros gs off cnt p [H|H]; unfold cluster_start.
  - replace (p <=? off) with true by (symmetry; apply Z.leb_le; lia). reflexivity.
  - replace (off + cnt <=? p) with true by (symmetry; apply Z.leb_le; lia). rewrite orb_true_r. reflexivity.
Qed.

Lemma CBall_boundary : forall st rs pre post s0 m n, rs = pre ++ post -> chain s0 pre m -> chain m post n -> all_pos rs ->
  CBall st rs m.
Proof.
  intros st rs pre post s0 m n -> C1 C2 P r Hr. apply Forall_app in P. destruct P as [P1 P2].
  apply cluster_start_out. apply in_app_or in Hr. destruct Hr as [Hr|Hr].
  - right. destruct (chain_in_bounds _ _ _ _ C1 P1 Hr). unfold out_end in *. lia.
  - left. destruct (chain_in_bounds _ _ _ _ C2 P2 Hr). lia.
Qed.

(* ---- the invariant ------------------------------------------------------------------------------------------ *)

(* the cached mapping is map3_spec of the run it is valid for *)
Definition MS (w : W) : Prop :=
  m_valid (w_mp w) = true ->
  mapping_of (w_mp w) = map3_spec (src_array (w_st w) (m_run (w_mp w)))
                                  (o_off (znth out_zero (w_runs w) (m_run (w_mp w)))) (o_cnt (znth out_zero (w_runs w) (m_run (w_mp w)))).

Definition PO (st : store) (rs : list out) (r : out) : Prop := piece_ok st rs r = true.

(* base part: holds between calls *)
Definition XB (n : Z) (w : W) : Prop :=
  wf_runs (w_st w) (w_runs w) n = true /\ MS w /\ CBall (w_st w) (w_runs w) (w_start w).
(* the pieces of the line in progress *)
Definition XP (w : W) : Prop :=
  Forall (PO (w_st w) (w_runs w)) (s_alt (w_sc w)) /\ Forall (PO (w_st w) (w_runs w)) (s_save (w_sc w))
  /\ (forall l, s_best (w_sc w) = Some l ->
        Forall (PO (w_st w) (w_runs w)) l /\ CBall (w_st w) (w_runs w) (lend (w_start w) l)).
Definition XI (n : Z) (w : W) : Prop := XB n w /\ XP w.

Lemma Forall_PO_sk : forall st st' rs l, sk st = sk st' -> Forall (PO st rs) l -> Forall (PO st' rs) l.
Proof. intros st st' rs l H F. eapply Forall_impl; [|exact F]. intros a Ha. unfold PO in *. rewrite <- (sk_piece_ok st st' rs a H). exact Ha. Qed.

Lemma XB_set_st : forall n w st', XB n w -> sk st' = sk (w_st w) -> XB n (set_st w st').
Proof.
  intros n w st' (H1 & H2 & H3) S. symmetry in S. destruct w; cbn in *. split; [|split].
  - rewrite <- (sk_wf_runs _ _ _ _ S). exact H1.
  - unfold MS in *; cbn in *. intros V. rewrite (H2 V). apply skl_map3_spec. apply sk_array. exact S.
  - eapply CBall_sk; eauto.
Qed.
Lemma XI_set_st : forall n w st', XI n w -> sk st' = sk (w_st w) -> XI n (set_st w st').
Proof.
  intros n w st' (HB & H4 & H5 & H6) S. split; [apply XB_set_st; auto|]. symmetry in S. destruct w; cbn in *.
  split; [|split]; try (eapply Forall_PO_sk; eauto).
  intros l Hl. destruct (H6 l Hl) as [A B]. split; [eapply Forall_PO_sk; eauto|eapply CBall_sk; eauto].
Qed.

Lemma XI_ext : forall n w w', w_st w' = w_st w -> w_runs w' = w_runs w -> w_mp w' = w_mp w -> w_start w' = w_start w ->
  w_sc w' = w_sc w -> XI n w -> XI n w'.
Proof. intros n w w' E1 E2 E3 E4 E5 H. unfold XI, XB, XP, MS in *. rewrite E1, E2, E3, E4, E5. exact H. Qed.
Lemma XB_ext : forall n w w', w_st w' = w_st w -> w_runs w' = w_runs w -> w_mp w' = w_mp w -> w_start w' = w_start w ->
  XB n w -> XB n w'.
Proof. intros n w w' E1 E2 E3 E4 H. unfold XB, MS in *. rewrite E1, E2, E3, E4. exact H. Qed.

(* ---- whole runs and cut pieces are exact --------------------------------------------------------------------- *)

Lemma pgo_inside : forall l i lo hi a b, (forall x, In x l -> a <= g_cluster x /\ g_cluster x + g_rc x <= b) ->
  lo <= i -> i + zlen l <= hi -> piece_glyphs_ok l i lo hi a b = true.
Proof.
  induction l as [|g l IH]; intros i lo hi a b F L1 L2; cbn [piece_glyphs_ok]; auto.
  rewrite zlen_cons in L2. pose proof (zlen_nonneg l).
  replace ((lo <=? i) && (i <? hi)) with true by (symmetry; apply andb_true_intro; split; [apply Z.leb_le|apply Z.ltb_lt]; lia).
  destruct (F g (or_introl eq_refl)) as [Q1 Q2]. apply andb_true_intro; split.
  - apply andb_true_intro; split; apply Z.leb_le; lia.
  - apply IH; try lia. intros; apply F; right; auto.
Qed.

Lemma whole_piece_ok : forall st rs n r, wf_runs st rs n = true -> In r rs -> PO st rs r.
Proof.
  intros st rs n r H Hr. destruct (wf_runs_in st rs n H r Hr) as (F1 & F2 & F3 & F4 & F5 & F6 & F7 & F8).
  unfold PO, piece_ok. rewrite F2, F3, F4. pose proof (zlen_nonneg (src_array st (o_src r))).
  repeat (apply andb_true_intro; split); try (apply Z.leb_le; lia); try (apply Z.ltb_lt; lia); try (apply Z.eqb_eq; reflexivity).
  apply pgo_inside; try lia. intros x Hx. apply wf_glyphs_clusters in F6.
  destruct (cl_in _ _ _ F6 x ltac:(apply in_logical; exact Hx)) as (Q1 & Q2 & Q3). unfold out_end. lia.
Qed.

Lemma cut_run_bounds : forall st run m s e t st' r, cut_run st run m s e t = Ok (st', r) ->
  o_lo run <= o_lo r /\ 0 <= o_len r /\ o_lo r + o_len r <= zlen (src_array st (o_src run)) /\ sk st' = sk st.
Proof.
  intros st run m s e t st' r H. unfold cut_run in H.
  destruct (inclusive_glyph_range _ _ _ m _) as [[gs gend]| | |]; cbn [bind] in H; try discriminate.
  destruct ((0 <=? gs) && (gs <=? gend + 1) && (gend + 1 <=? zlen (src_array st (o_src run)) - o_lo run)) eqn:E; [|discriminate].
  apply andb_prop in E. destruct E as [E E3]. apply andb_prop in E. destruct E as [E1 E2].
  apply Z.leb_le in E1. apply Z.leb_le in E2. apply Z.leb_le in E3.
  inversion H; subst; clear H. unfold recompute_advance, set_adv; cbn [o_lo o_len o_src].
  repeat split; try lia. destruct (t && _); [apply sk_update; apply gskel_trim|reflexivity].
Qed.

(* cutRun of an input run with the specified mapping, from a cluster boundary s to a cluster boundary after e *)
Lemma cut_safe : forall n st rs run s e trim,
  wf_runs st rs n = true -> In run rs -> s <= e -> s < o_off run + o_cnt run -> o_off run <= e ->
  cluster_start (src_array st (o_src run)) (o_off run) (o_cnt run) s = true ->
  cluster_start (src_array st (o_src run)) (o_off run) (o_cnt run) (Z.min e (o_off run + o_cnt run - 1) + 1) = true ->
  exists st' rc, cut_run st run (map3_spec (src_array st (o_src run)) (o_off run) (o_cnt run)) s e trim = Ok (st', rc)
    /\ sk st' = sk st /\ PO st' rs rc /\ o_off rc = Z.max s (o_off run) /\ out_end rc = Z.min e (o_off run + o_cnt run - 1) + 1.
Proof.
  intros n st rs run s e trim H Hr Hse Hs He Cs Ce.
  destruct (wf_runs_in st rs n H run Hr) as (F1 & F2 & F3 & F4 & F5 & F6 & F7 & F8).
  assert (Cs' : cluster_start (out_glyphs st run) (o_off run) (o_cnt run) (Z.max s (o_off run)) = true).
  { rewrite F8. destruct (Z_le_dec s (o_off run)) as [A|A].
    - rewrite Z.max_r by lia. apply cluster_start_out. left; lia.
    - rewrite Z.max_l by lia. exact Cs. }
  destruct (cut_run_exact_full st run s e trim F3 F4 F7 ltac:(rewrite F8; exact F6) F5 Hse Hs He Cs' ltac:(rewrite F8; exact Ce))
    as (st' & rc & R & R1 & R2 & R3 & R4 & R5 & _ & _ & _ & _ & R10).
  rewrite F8 in R. exists st', rc. split; [exact R|].
  destruct (cut_run_bounds _ _ _ _ _ _ _ _ R) as (B1 & B2 & B3 & B4).
  split; [exact B4|]. split; [|split; assumption].
  unfold PO. rewrite (sk_piece_ok st' st rs rc B4). unfold piece_ok. rewrite R3, F2, R4.
  unfold out_end in *.
  repeat (apply andb_true_intro; split); try (apply Z.leb_le; lia); try (apply Z.ltb_lt; lia); try (apply Z.eqb_eq; reflexivity).
  replace (o_off rc + o_cnt rc) with (Z.min e (o_off run + o_cnt run - 1) + 1) by lia. rewrite R1. exact R10.
Qed.

(* ---- mapRun, fillUntil, processBreakOption do not panic and keep the invariant -------------------------------- *)

Lemma map_run_safe : forall n w ci run,
  XB n w -> 0 <= ci < zlen (w_runs w) -> run = znth out_zero (w_runs w) ci ->
  exists mp, map_run w ci run = Ok (set_mp w mp) /\ XB n (set_mp w mp)
    /\ mapping_of mp = map3_spec (src_array (w_st w) ci) (o_off run) (o_cnt run).
Proof.
  intros n w ci run (HW & HM & HC) Hci Hrun.
  destruct (wf_runs_nth _ _ _ HW ci Hci) as (G0 & G1 & G2 & G3 & G4 & G5 & G6 & G7). rewrite <- Hrun in *.
  unfold map_run.
  destruct (negb (m_run (w_mp w) =? ci) || negb (m_valid (w_mp w))) eqn:E.
  - replace (o_cnt run <=? 0) with false by (symmetry; apply Z.leb_gt; lia).
    set (back := if o_cnt run <=? zlen (m_back (w_mp w)) then m_back (w_mp w) else repeat 0 (Z.to_nat (o_cnt run))).
    assert (Hb : o_cnt run <= zlen back).
    { unfold back. destruct (o_cnt run <=? zlen (m_back (w_mp w))) eqn:L; [apply Z.leb_le in L; lia|].
      unfold zlen. rewrite repeat_length. lia. }
    rewrite (map3_correct (o_dir run) (o_off run) (out_glyphs (w_st w) run) (zfirstn (o_cnt run) back) (o_cnt run));
      [|rewrite G7; exact G5|apply zlen_zfirstn; lia].
    cbn [bind]. eexists. split; [reflexivity|].
    assert (Hm : mapping_of (mkMapper true ci (map3_spec (out_glyphs (w_st w) run) (o_off run) (o_cnt run) ++ zskipn (o_cnt run) back) (o_cnt run))
                 = map3_spec (src_array (w_st w) ci) (o_off run) (o_cnt run)).
    { unfold mapping_of; cbn. rewrite G7.
      set (M := map3_spec (src_array (w_st w) ci) (o_off run) (o_cnt run)).
      assert (L : zlen M = o_cnt run) by (apply map3_spec_len; lia). rewrite <- L. apply zfirstn_app_exact. }
    split; [|exact Hm].
    destruct w; cbn in *. split; [exact HW|]. split; [|exact HC].
    unfold MS; cbn. intros _. unfold mapping_of in Hm; cbn in Hm. unfold mapping_of; cbn. rewrite Hm, <- Hrun. reflexivity.
  - apply orb_false_elim in E. destruct E as [E1 E2]. apply negb_false_iff in E1. apply negb_false_iff in E2. apply Z.eqb_eq in E1.
    exists (w_mp w). replace (set_mp w (w_mp w)) with w by (destruct w; reflexivity).
    split; [reflexivity|]. split; [split; [exact HW|split; [exact HM|exact HC]]|].
    rewrite (HM E2), E1, <- Hrun. reflexivity.
Qed.

Lemma XI_set_mp : forall n w mp, XI n w -> XB n (set_mp w mp) -> XI n (set_mp w mp).
Proof. intros n w mp (_ & HP) HB. split; [exact HB|]. destruct w; exact HP. Qed.

Lemma fill_until_safe : forall n fuel w b,
  XI n w -> 0 <= w_idx w -> Z.max 0 (zlen (w_runs w) - w_idx w) < Z.of_nat fuel ->
  exists w', fill_until fuel w b = Ok w' /\ XI n w' /\ sk (w_st w') = sk (w_st w).
Proof.
  intros n. induction fuel as [|fuel IH]; intros w b HX Hi HF; [lia|]. cbn [fill_until]. unfold peek.
  destruct (zlen (w_runs w) <=? w_idx w) eqn:E; [exists w; cbn [andb]; auto|].
  apply Z.leb_gt in E. cbn [andb]. set (run := znth out_zero (w_runs w) (w_idx w)).
  destruct (o_cnt run + o_off run <=? b); [|exists w; auto].
  pose proof HX as ((HW & HM & HC) & HA & HS & HBst).
  destruct (wf_runs_nth _ _ _ HW (w_idx w) ltac:(lia)) as (G0 & G1 & G2 & G3 & G4 & G5 & G6 & G7). fold run in G0, G1, G2, G3, G4, G5, G7.
  assert (ADV : forall wx, XI n wx -> w_idx wx = w_idx w -> w_runs wx = w_runs w -> sk (w_st wx) = sk (w_st w) ->
            exists w', fill_until fuel (iter_advance wx) b = Ok w' /\ XI n w' /\ sk (w_st w') = sk (w_st w)).
  { intros wx X1 X2 X3 X4.
    destruct (IH (iter_advance wx) b) as (w' & R1 & R2 & R3).
    - eapply XI_ext; [| | | | |exact X1]; destruct wx; reflexivity.
    - destruct wx; cbn in *; lia.
    - destruct wx; cbn in *; subst; lia.
    - exists w'. split; [exact R1|]. split; [exact R2|]. rewrite R3. destruct wx; exact X4. }
  destruct (o_off run + o_cnt run <=? w_start w) eqn:Es; [apply ADV; auto|]. apply Z.leb_gt in Es.
  destruct (o_off run <? w_start w) eqn:Ec.
  - apply Z.ltb_lt in Ec.
    destruct (map_run_safe n w (w_idx w) run (proj1 HX) ltac:(lia) eq_refl) as (mp & MR & XM & MM). rewrite MR. cbn [bind].
    replace (w_st (set_mp w mp)) with (w_st w) by (destruct w; reflexivity).
    replace (w_start (set_mp w mp)) with (w_start w) by (destruct w; reflexivity).
    replace (mapping_of (w_mp (set_mp w mp))) with (mapping_of mp) by (destruct w; reflexivity). rewrite MM, <- G1.
    destruct (cut_safe n (w_st w) (w_runs w) run (w_start w) (o_cnt run + o_off run) (alt_empty (set_mp w mp)) HW G0
                ltac:(lia) ltac:(lia) ltac:(lia) (HC run G0) ltac:(apply cluster_start_out; right; lia))
      as (st' & rc & CR & S1 & P1 & _ & _).
    rewrite CR. cbn [bind fst snd].
    apply ADV; try (destruct w; reflexivity); [|destruct w; exact S1].
    pose proof (XI_set_st n _ st' (XI_set_mp n w mp HX XM) ltac:(destruct w; exact S1)) as (XB2 & XA2 & XS2 & XBe2).
    split; [destruct w; exact XB2|]. destruct w; cbn in *. split; [|split; assumption].
    apply Forall_app. split; [exact XA2|constructor; [exact P1|constructor]].
  - cbn [bind fst snd]. apply ADV; try (destruct w; reflexivity).
    split; [destruct w; exact (proj1 HX)|]. destruct w; cbn in *. split; [|split; assumption].
    apply Forall_app. split; [exact HA|constructor; [|constructor]].
    assert (PW : PO w_st w_runs run) by (eapply whole_piece_ok; eauto).
    unfold PO in *. rewrite <- PW. unfold piece_ok, recompute_advance, set_adv, out_end. reflexivity.
Qed.

Lemma pbo_safe : forall n w opt lc,
  Inv n w -> XI n w -> fst opt < n ->
  (s_alt (w_sc w) <> [] -> lend (w_start w) (s_alt (w_sc w)) <= fst opt) ->
  exists w' r cand, process_break_option w opt lc = Ok (w', r, cand) /\ XI n w' /\ sk (w_st w') = sk (w_st w)
    /\ (r <> BreakInvalid -> PO (w_st w') (w_runs w') cand /\ CBall (w_st w') (w_runs w') (fst opt + 1)).
Proof.
  intros n w opt lc HI HX Hopt Hord. pose proof HI as (HR & HP & HS & HM & HB).
  unfold process_break_option.
  destruct (fst opt <? w_start w) eqn:E0.
  { exists w, BreakInvalid, out_zero. split; [reflexivity|]. split; [exact HX|]. split; [reflexivity|congruence]. }
  apply Z.ltb_ge in E0.
  assert (Hidx0 : 0 <= w_idx w).
  { destruct HP as (_ & pre & post & m & e & _ & Hidx & _). rewrite <- Hidx. apply zlen_nonneg. }
  destruct (fill_until_safe n (S (length (w_runs w))) w (fst opt) HX Hidx0 ltac:(unfold zlen; lia)) as (w1 & FU & X1 & S1).
  rewrite FU. cbn [bind].
  destruct (fill_until_ok n _ _ _ _ HR HP HM FU) as (F1 & P1 & M1 & Y1).
  destruct (fill_until_ext _ _ _ _ FU) as (_ & _ & Hstop).
  destruct F1 as (F1a & F1b & F1c & F1d & F1e & F1f & F1g & F1h & F1i).
  pose proof P1 as (Hpos & pre & post & m & e & Hsplit & Hidx & Hpre & Hpost & Halt & He1 & He2).
  (* the cursor run starts at or before the option *)
  assert (Hm : m <= fst opt).
  { destruct (s_alt (w_sc w1)) eqn:A.
    - specialize (He1 eq_refl). lia.
    - assert (e = m) by (apply He2; congruence). subst e.
      destruct Y1 as [Y1|(e' & Y1 & Y2)]; [congruence| |].
      + rewrite <- Y1 in Hord. rewrite F1c in Halt. rewrite (lend_chain _ _ _ Halt) in Hord. apply Hord. congruence.
      + pose proof (chain_fun _ _ _ _ Halt Y1). lia. }
  destruct post as [|r0 post'].
  { exfalso. inversion Hpost. lia. }
  rewrite (peek_split w1 pre (r0 :: post') Hsplit Hidx) in Hstop |- *.
  destruct (chain_cons_inv _ _ _ _ Hpost) as [Hoff Hpost'].
  pose proof X1 as ((HW1 & HM1 & HC1) & HA1 & HS1 & HB1).
  assert (Hr0 : r0 = znth out_zero (w_runs w1) (w_idx w1)) by (rewrite Hsplit, <- Hidx; symmetry; apply znth_app_exact).
  assert (Hci : 0 <= w_idx w1 < zlen (w_runs w1)).
  { rewrite Hsplit, <- Hidx, zlen_app, zlen_cons. pose proof (zlen_nonneg pre). pose proof (zlen_nonneg post'). lia. }
  destruct (wf_runs_nth _ _ _ HW1 (w_idx w1) Hci) as (G0 & G1 & G2 & G3 & G4 & G5 & G6 & G7). rewrite <- Hr0 in *.
  destruct (map_run_safe n w1 (w_idx w1) r0 (proj1 X1) Hci Hr0) as (mp & MR & XM & MM). rewrite MR. cbn [bind].
  replace (w_st (set_mp w1 mp)) with (w_st w1) by (destruct w1; reflexivity).
  replace (w_start (set_mp w1 mp)) with (w_start w1) by (destruct w1; reflexivity).
  replace (mapping_of (w_mp (set_mp w1 mp))) with (mapping_of mp) by (destruct w1; reflexivity). rewrite MM, <- G1.
  pose proof (XI_set_mp n w1 mp X1 XM) as X2.
  destruct (is_valid_spec (w_st w1) r0 (fst opt) G2 ltac:(rewrite G1; exact G3) ltac:(rewrite G7; exact G5)) as (v & IV & IVs).
  rewrite G7, <- G1 in IV, IVs. rewrite IV. cbn [bind].
  destruct v; cbn [negb].
  2:{ exists (set_mp w1 mp), BreakInvalid, out_zero. split; [reflexivity|]. split; [exact X2|]. split; [destruct w1; exact S1|congruence]. }
  specialize (IVs eq_refl).
  assert (Hend : fst opt < o_off r0 + o_cnt r0) by lia.
  destruct (cut_safe n (w_st w1) (w_runs w1) r0 (w_start w1) (fst opt) (alt_empty (set_mp w1 mp)) HW1 G0
              ltac:(lia) ltac:(lia) ltac:(lia) (HC1 r0 G0) ltac:(rewrite Z.min_l by lia; exact IVs))
    as (st' & rc & CR & S2 & P2 & O1 & O2).
  rewrite CR. cbn [bind fst snd]. cbv zeta.
  pose proof (XI_set_st n _ st' X2 ltac:(destruct w1; exact S2)) as X3.
  set (w3 := set_st (set_mp w1 mp) st') in *.
  assert (R3 : w_runs w3 = w_runs w1 /\ w_st w3 = st') by (unfold w3; destruct w1; split; reflexivity). destruct R3 as [R3 R4].
  assert (Fin3 : PO (w_st w3) (w_runs w3) rc /\ CBall (w_st w3) (w_runs w3) (fst opt + 1)).
  { rewrite R3, R4. split; [exact P2|]. apply (CBall_sk (w_st w1)); [symmetry; exact S2|].
    intros r Hr. destruct (HR) as [_ HAP]. rewrite <- F1e, Hsplit in HAP. apply Forall_app in HAP. destruct HAP as [AP1 AP2]. apply Forall_cons_iff in AP2. destruct AP2 as [AP3 AP4].
    rewrite Hsplit in Hr. apply in_app_or in Hr. destruct Hr as [Hr|[<-|Hr]].
    - apply cluster_start_out. right. destruct (chain_in_bounds _ _ _ _ Hpre AP1 Hr). unfold out_end in *. lia.
    - rewrite Z.min_l in O2 by lia. exact IVs.
    - apply cluster_start_out. left. destruct (chain_in_bounds _ _ _ _ Hpost' AP4 Hr). unfold out_end in *. lia. }
  assert (S3 : sk (w_st w3) = sk (w_st w)) by (rewrite R4, S2; exact S1).
  repeat match goal with |- context [if ?c then _ else _] => destruct c end;
    (eexists _, _, _; split; [reflexivity|]; split; [exact X3|]; split; [exact S3|intros _; exact Fin3]).
Qed.

(* ---- the scratch operations keep the invariant ---------------------------------------------------------------- *)

Lemma XI_checkpoint : forall n w, XI n w -> XI n (checkpoint w).
Proof.
  intros n w ((H1 & H2 & H3) & H4 & H5 & H6). destruct w; unfold XI, XB, XP, MS in *; cbn in *.
  split; [split; [exact H1|split; [exact H2|exact H3]]|split; [exact H4|split; [exact H4|exact H6]]].
Qed.
Lemma XI_restore : forall n w, XI n w -> XI n (restore w).
Proof.
  intros n w ((H1 & H2 & H3) & H4 & H5 & H6). destruct w; unfold XI, XB, XP, MS in *; cbn in *.
  split; [split; [exact H1|split; [exact H2|exact H3]]|split; [exact H5|split; [exact H5|exact H6]]].
Qed.
Lemma XI_set_br : forall n w b, XI n w -> XI n (set_br w b).
Proof. intros n w b H. eapply XI_ext; [| | | | |exact H]; destruct w; reflexivity. Qed.
Lemma XI_mark_best1 : forall n w cand e, XI n w -> PO (w_st w) (w_runs w) cand ->
  chain (w_start w) (s_alt (w_sc w) ++ [cand]) e -> CBall (w_st w) (w_runs w) e -> XI n (mark_best w [cand]).
Proof.
  intros n w cand e ((H1 & H2 & H3) & H4 & H5 & H6) HP HC HB. destruct w; unfold XI, XB, XP, MS in *; cbn in *.
  split; [split; [exact H1|split; [exact H2|exact H3]]|split; [exact H4|split; [exact H5|]]].
  intros l Hl. injection Hl as <-. split; [apply Forall_app; split; [exact H4|constructor; [exact HP|constructor]]|].
  rewrite (lend_chain _ _ _ HC). exact HB.
Qed.
Lemma Inv_alt_CB : forall n w, Inv n w -> XI n w -> CBall (w_st w) (w_runs w) (lend (w_start w) (s_alt (w_sc w))).
Proof.
  intros n w ((HC & HA) & (Hpos & pre & post & m & e & Hsplit & Hidx & Hpre & Hpost & Halt & He1 & He2) & _) ((_ & _ & H3) & _).
  rewrite (lend_chain _ _ _ Halt). destruct (s_alt (w_sc w)) eqn:A.
  - inversion Halt; subst. exact H3.
  - assert (e = m) by (apply He2; congruence). subst e. eapply CBall_boundary; eauto.
Qed.
Lemma XI_mark_best0 : forall n w, XI n w -> Inv n w -> XI n (mark_best w []).
Proof.
  intros n w HX HI. pose proof (Inv_alt_CB n w HI HX) as HB. destruct HX as ((H1 & H2 & H3) & H4 & H5 & H6).
  destruct w; unfold XI, XB, XP, MS in *; cbn in *.
  split; [split; [exact H1|split; [exact H2|exact H3]]|split; [exact H4|split; [exact H5|]]].
  intros l Hl. injection Hl as <-. rewrite app_nil_r. split; [exact H4|exact HB].
Qed.

(* ---- the two loops of wrapNextLine: no panic, invariant kept ---------------------------------------------------- *)

Lemma ngb_total : forall fuel b, match next_grapheme_break fuel b with Ok _ | OutOfFuel => True | _ => False end.
Proof.
  induction fuel; intros b; cbn [next_grapheme_break]; auto.
  destruct (if b_isUnusedG b then _ else _) as [b1 r]. destruct r as [o|]; auto.
  destruct (_ && _); [apply IHfuel|]. destruct (_ <? _); exact I.
Qed.

Definition safe_loop (n : Z) (s0 : list (list (Z * Z * Z * Z * Z))) (r : res (W * bool)) : Prop :=
  match r with Ok (w', _) => XI n w' /\ sk (w_st w') = s0 | OutOfFuel => True | _ => False end.

(* the end of the grapheme loop: the UAX #14 option processed again from the checkpoint *)
Lemma fallback_safe : forall n w wopt lc, JP n w -> XI n w -> fst wopt < n ->
  safe_loop n (sk (w_st w)) (word_fallback w wopt lc).
Proof.
  intros n w wopt lc HP HX HWo. unfold word_fallback.
  destruct (negb (lc_truncating lc) && negb (has_best w)) eqn:FB; [|cbn; split; [exact HX|reflexivity]].
  apply andb_prop in FB. destruct FB as [_ FB2]. apply negb_true_iff in FB2.
  pose proof (JT_restore n w HP) as TR. pose proof (XI_restore n w HX) as XR.
  assert (Hnb : has_best (restore w) = false) by (rewrite (has_best_same w (restore w)); [exact FB2|destruct w; reflexivity]).
  assert (Hord : s_alt (w_sc (restore w)) <> [] -> lend (w_start (restore w)) (s_alt (w_sc (restore w))) <= fst wopt).
  { rewrite (JT_no_best_alt n _ TR Hnb). congruence. }
  destruct (pbo_safe n (restore w) wopt lc (proj1 (proj1 TR)) XR HWo Hord) as (w3 & r & cand & PB & XC3 & Sk3 & Fin3).
  rewrite PB. cbn [bind].
  destruct (JP_pbo n (restore w) wopt lc w3 r cand (proj1 TR) HWo Hord PB) as (P3 & F3 & BE3 & LE3 & C3 & L3).
  assert (Sr : sk (w_st (restore w)) = sk (w_st w)) by (destruct w; reflexivity). rewrite Sr in Sk3.
  destruct r; cbv beta iota zeta;
    try (destruct (C3 ltac:(discriminate)) as (C31 & C32 & C33); destruct (Fin3 ltac:(discriminate)) as [FP FC];
         split; [eapply XI_mark_best1; eauto|rewrite <- Sk3; destruct w3; reflexivity]).
  split; [apply XI_restore; exact XC3|rewrite <- Sk3; destruct w3; reflexivity].
Qed.

Lemma inner_safe : forall n fuel w wopt lc,
  JT n w -> OrdI w -> 1 <= b_wpos (w_br w) <= n -> fst (b_unusedW (w_br w)) = b_wpos (w_br w) - 1 -> XI n w -> fst wopt < n ->
  safe_loop n (sk (w_st w)) (inner_loop fuel w wopt lc).
Proof.
  intros n. induction fuel as [|fuel IH]; intros w wopt lc HT HO HW HU HX HWo; cbn [inner_loop]; [exact I|].
  destruct (JT_checkpoint n w HT) as (T1 & Csv & Calt & Cbe & Cbr & Cbest).
  pose proof (XI_checkpoint n w HX) as XC1.
  assert (St1 : w_st (checkpoint w) = w_st w) by (destruct w; reflexivity).
  set (w1 := checkpoint w) in *.
  pose proof (ngb_total (br_fuel w1) (w_br w1)) as NT.
  destruct (next_grapheme_break (br_fuel w1) (w_br w1)) as [[b1 ro]| | |] eqn:NG; cbn [bind fst snd]; try exact I; try (destruct NT).
  pose proof T1 as ((_ & B1 & _) & _).
  destruct (ngb_spec n _ _ _ _ B1 NG) as (Bb1 & SW & UG & X & Y). rewrite Cbr in SW, UG, X, Y.
  destruct SW as (S1 & S2 & S3 & S4 & S5).
  pose proof (JT_set_br n w1 b1 T1 Bb1) as T2.
  destruct (set_br_proj w1 b1) as (Q1 & Q2 & Q3 & Q4 & Q5).
  assert (Q7 : w_start w1 = w_start w) by (destruct w; reflexivity).
  pose proof (XI_set_br n w1 b1 XC1) as XC2.
  assert (St2 : w_st (set_br w1 b1) = w_st w) by (rewrite <- St1; destruct w1; reflexivity).
  set (w2 := set_br w1 b1) in *.
  rewrite Calt in Q1. rewrite Csv in Q5. rewrite Cbest in Q4. rewrite Q7 in Q3.
  destruct (Bk_ug_n n _ Bb1) as (G1 & G2 & G3).
  set (b := w_br w) in *.
  destruct ro as [opt|].
  2:{ cbv beta iota zeta. replace (sk (w_st w)) with (sk (w_st w2)) by (rewrite St2; reflexivity).
      apply fallback_safe; [exact (proj1 T2)|exact XC2|exact HWo]. }
  destruct X as (X1 & X2 & X3 & X4 & X5 & X6 & X7 & X8).
  assert (X1' : fst opt = fst (b_unusedG b1)) by (rewrite X1; reflexivity).
  assert (Hord : s_alt (w_sc w2) <> [] -> lend (w_start w2) (s_alt (w_sc w2)) <= fst opt).
  { rewrite Q1, Q3. intros Hne. destruct (HO Hne) as [O1|O1]; fold b in O1; lia. }
  destruct (pbo_safe n w2 opt lc (proj1 (proj1 T2)) XC2 ltac:(lia) Hord) as (w3 & r & cand & PB & XC3 & Sk3 & Fin3).
  rewrite PB. cbn [bind].
  destruct (JP_pbo n w2 opt lc w3 r cand (proj1 T2) ltac:(lia) Hord PB) as (P3 & F3 & BE3 & LE3 & C3 & L3).
  destruct F3 as (_ & _ & F3s & _ & _ & _ & F3b & F3v & F3best).
  rewrite Q2 in F3b. rewrite Q5 in F3v. rewrite Q4 in F3best. rewrite Q3 in F3s, LE3. rewrite Q1 in LE3.
  assert (Mw : Bk n (mark_word_unused b1)) by (apply Bk_mark_word; [exact Bb1|rewrite S1; exact HW|rewrite S1, S2; exact HU]).
  rewrite Q1, Q3 in Hord. rewrite Q3 in C3.
  assert (Hsv : r <> BreakInvalid -> lend (w_start w3) (s_save (w_sc w3)) <= fst opt).
  { intros Hr. destruct (C3 Hr) as (C31 & _). rewrite F3v, F3s. destruct (s_alt (w_sc w)) eqn:A; [unfold lend; cbn; lia|].
    apply Hord. congruence. }
  rewrite St2 in Sk3.
  destruct (mark_best_proj w3 [cand]) as (M1 & M2 & M3 & M4).
  destruct (restore_proj w3) as (R1 & R2 & R3 & R4).
  assert (Best1 : r <> BreakInvalid -> XI n (mark_best w3 [cand]) /\ JT n (mark_best w3 [cand])
                   /\ lend (w_start w3) (s_alt (w_sc w3)) < fst opt + 1).
  { intros Hr. destruct (C3 Hr) as (C31 & C32 & C33). destruct (Fin3 Hr) as [FP FC].
    destruct (JT_mark_best n w3 cand (fst opt + 1) P3 C33 C32 ltac:(specialize (Hsv Hr); lia) ltac:(lia)) as [T4 _].
    destruct (chain_app_lend _ _ _ _ C33 C32) as [CL _].
    split; [eapply XI_mark_best1; eauto|split; [exact T4|exact CL]]. }
  assert (Stm : forall sfx, w_st (mark_best w3 sfx) = w_st w3) by (intros; destruct w3; reflexivity).
  destruct r.
  - (* BreakInvalid *)
    assert (Sr : sk (w_st (restore w3)) = sk (w_st w)) by (rewrite <- Sk3; destruct w3; reflexivity).
    rewrite <- Sr. apply IH.
    + apply JT_restore; exact P3.
    + unfold OrdI. rewrite R1, R2, R3, F3v, F3s, F3b. intros Hne. destruct (HO Hne) as [O|O]; fold b in O; [left; rewrite S3; exact O|right; lia].
    + rewrite R2, F3b, S1. exact HW.
    + rewrite R2, F3b, S1, S2. exact HU.
    + apply XI_restore; exact XC3.
    + exact HWo.
  - (* EndLine *)
    cbv beta iota zeta. destruct (Best1 ltac:(discriminate)) as (B1x & _). split; [exact B1x|rewrite Stm; exact Sk3].
  - (* Truncated *)
    cbv beta iota zeta. destruct (has_best w3); [split; [exact XC3|exact Sk3]|].
    split; [apply XI_mark_best0; [apply XI_restore; exact XC3|exact (proj1 (proj1 (JT_restore n w3 P3)))]|].
    rewrite <- Sk3. destruct w3; reflexivity.
  - (* NewLineBeforeBreak *)
    cbv beta iota zeta. split; [apply XI_set_br; apply XI_restore; exact XC3|].
    rewrite <- Sk3. destruct w3; reflexivity.
  - (* Fits *)
    destruct (Best1 ltac:(discriminate)) as (B1x & T4 & CL). rewrite F3b.
    pose proof (JT_set_br n _ _ T4 Mw) as T5.
    destruct (set_br_proj (mark_best w3 [cand]) (mark_word_unused b1)) as (U1 & U2 & U3 & U4 & U5).
    assert (Sr : sk (w_st (set_br (mark_best w3 [cand]) (mark_word_unused b1))) = sk (w_st w)) by (rewrite <- Sk3; destruct w3; reflexivity).
    rewrite <- Sr. apply IH.
    + exact T5.
    + unfold OrdI. rewrite U1, U2, U3, M1, M3. cbn. intros _. right. lia.
    + rewrite U2; cbn. rewrite S1; exact HW.
    + rewrite U2; cbn. rewrite S1, S2; exact HU.
    + apply XI_set_br. exact B1x.
    + exact HWo.
  - (* CannotFit *)
    destruct (lc_truncating lc); cbv beta iota zeta; [split; [exact XC3|exact Sk3]|].
    destruct (Best1 ltac:(discriminate)) as (B1x & _). split; [apply XI_set_br; exact B1x|].
    rewrite <- Sk3. destruct w3; reflexivity.
Qed.

Lemma outer_safe : forall n fuel w lc,
  JT n w -> OrdO w -> XI n w -> safe_loop n (sk (w_st w)) (outer_loop fuel w lc).
Proof.
  intros n. induction fuel as [|fuel IH]; intros w lc HT HO HX; cbn [outer_loop]; [exact I|].
  destruct (JT_checkpoint n w HT) as (T1 & Csv & Calt & Cbe & Cbr & Cbest).
  pose proof (XI_checkpoint n w HX) as XC1.
  assert (St1 : w_st (checkpoint w) = w_st w) by (destruct w; reflexivity).
  set (w1 := checkpoint w) in *.
  destruct (next_word_break (w_br w1)) as [b1 ro] eqn:NW.
  pose proof T1 as ((_ & B1 & _) & _).
  destruct (nwb_spec n _ _ _ B1 NW) as (Bb1 & SG & FW & UW & X). rewrite Cbr in SG, UW, X.
  destruct SG as (S1 & S2 & S3 & S5).
  pose proof (JT_set_br n w1 b1 T1 Bb1) as T2.
  destruct (set_br_proj w1 b1) as (Q1 & Q2 & Q3 & Q4 & Q5).
  assert (Q7 : w_start w1 = w_start w) by (destruct w; reflexivity).
  pose proof (XI_set_br n w1 b1 XC1) as XC2.
  assert (St2 : w_st (set_br w1 b1) = w_st w) by (rewrite <- St1; destruct w1; reflexivity).
  set (w2 := set_br w1 b1) in *.
  rewrite Calt in Q1. rewrite Csv in Q5. rewrite Cbest in Q4. rewrite Q7 in Q3.
  destruct (Bk_ug_n n _ Bb1) as (G1 & G2 & G3).
  set (b := w_br w) in *.
  destruct ro as [opt|].
  2:{ cbv beta iota zeta. split; [exact XC2|rewrite St2; reflexivity]. }
  destruct X as (X1 & X3 & X6 & X7 & X8 & X9 & X10).
  assert (X1' : fst opt = fst (b_unusedW b1)) by (rewrite X1; reflexivity).
  assert (Hord : s_alt (w_sc w2) <> [] -> lend (w_start w2) (s_alt (w_sc w2)) <= fst opt).
  { rewrite Q1, Q3. intros Hne. destruct (HO Hne) as [O1 O2]; fold b in O1; lia. }
  destruct (pbo_safe n w2 opt lc (proj1 (proj1 T2)) XC2 ltac:(lia) Hord) as (w3 & r & cand & PB & XC3 & Sk3 & Fin3).
  rewrite PB. cbn [bind].
  destruct (JP_pbo n w2 opt lc w3 r cand (proj1 T2) ltac:(lia) Hord PB) as (P3 & F3 & BE3 & LE3 & C3 & L3).
  destruct F3 as (F3c & _ & F3s & _ & _ & _ & F3b & F3v & F3best).
  rewrite Q2 in F3b. rewrite Q5 in F3v. rewrite Q4 in F3best. rewrite Q3 in F3s, LE3. rewrite Q1 in LE3.
  assert (Mw : Bk n (mark_word_unused b1)) by (apply Bk_mark_word; [exact Bb1|lia|lia]).
  rewrite Q1, Q3 in Hord. rewrite Q3 in C3.
  assert (Hsv : r <> BreakInvalid -> lend (w_start w3) (s_save (w_sc w3)) <= fst opt).
  { intros Hr. destruct (C3 Hr) as (C31 & _). rewrite F3v, F3s. destruct (s_alt (w_sc w)) eqn:A; [unfold lend; cbn; lia|].
    apply Hord. congruence. }
  rewrite St2 in Sk3.
  destruct (mark_best_proj w3 [cand]) as (M1 & M2 & M3 & M4).
  destruct (restore_proj w3) as (R1 & R2 & R3 & R4).
  assert (Best1 : r <> BreakInvalid -> XI n (mark_best w3 [cand]) /\ JT n (mark_best w3 [cand])
                   /\ lend (w_start w3) (s_alt (w_sc w3)) < fst opt + 1).
  { intros Hr. destruct (C3 Hr) as (C31 & C32 & C33). destruct (Fin3 Hr) as [FP FC].
    destruct (JT_mark_best n w3 cand (fst opt + 1) P3 C33 C32 ltac:(specialize (Hsv Hr); lia) ltac:(lia)) as [T4 _].
    destruct (chain_app_lend _ _ _ _ C33 C32) as [CL _].
    split; [eapply XI_mark_best1; eauto|split; [exact T4|exact CL]]. }
  assert (Stm : forall sfx, w_st (mark_best w3 sfx) = w_st w3) by (intros; destruct w3; reflexivity).
  (* the grapheme loop entered from a state that carries the checkpoint of this iteration *)
  assert (G : forall wx, JP n wx -> s_save (w_sc wx) = s_alt (w_sc w) -> w_start wx = w_start w ->
              b_prevW (w_br wx) = b_prevW b1 -> b_wpos (w_br wx) = b_wpos b1 -> b_unusedW (w_br wx) = b_unusedW b1 ->
              XI n wx -> sk (w_st wx) = sk (w_st w) ->
              safe_loop n (sk (w_st w)) (inner_loop (br_fuel wx) (restore wx) opt lc)).
  { intros wx Px Sx Stx Pwx Wx Ux Xx Skx. destruct (restore_proj wx) as (Rx1 & Rx2 & Rx3 & Rx4).
    replace (sk (w_st w)) with (sk (w_st (restore wx))) by (rewrite <- Skx; destruct wx; reflexivity).
    apply inner_safe; [apply JT_restore; exact Px| | | |apply XI_restore; exact Xx|lia].
    - unfold OrdI. rewrite Rx1, Rx2, Rx3, Sx, Stx, Pwx. intros Hne. left. destruct (HO Hne) as [O1 O2]. fold b in O1, O2.
      destruct (b_isUnusedW b) eqn:FB; [cbn in O2; lia|]. rewrite (X9 eq_refl). exact O1.
    - rewrite Rx2, Wx. lia.
    - rewrite Rx2, Wx, Ux. lia. }
  destruct r.
  - (* BreakInvalid: the option is discarded *)
    cbv zeta. rewrite R2, F3b.
    destruct (set_br_proj (restore w3) (discard_word b1)) as (D1 & D2 & D3 & D4 & D5).
    assert (Sr : sk (w_st (set_br (restore w3) (discard_word b1))) = sk (w_st w)) by (rewrite <- Sk3; destruct w3; reflexivity).
    rewrite <- Sr. apply IH.
    + apply JT_set_br; [apply JT_restore; exact P3|apply Bk_discard; assumption].
    + unfold OrdO. rewrite D1, D2, D3, R1, R3, F3v, F3s. cbn [discard_word b_unusedW b_isUnusedW]. rewrite FW.
      intros Hne. destruct (HO Hne) as [O1 O2]. fold b in O1, O2.
      destruct (b_isUnusedW b) eqn:FB; [cbn in O2; lia|]. rewrite (X9 eq_refl). split; [exact O1|reflexivity].
    + apply XI_set_br. apply XI_restore; exact XC3.
  - (* EndLine *)
    cbv beta iota zeta. destruct (Best1 ltac:(discriminate)) as (B1x & _). split; [exact B1x|rewrite Stm; exact Sk3].
  - (* Truncated *)
    assert (X' : JP n (if has_best w3 then w3 else mark_best (restore w3) []) /\ w_br (if has_best w3 then w3 else mark_best (restore w3) []) = b1
                 /\ s_save (w_sc (if has_best w3 then w3 else mark_best (restore w3) [])) = s_alt (w_sc w)
                 /\ w_start (if has_best w3 then w3 else mark_best (restore w3) []) = w_start w
                 /\ XI n (if has_best w3 then w3 else mark_best (restore w3) [])
                 /\ sk (w_st (if has_best w3 then w3 else mark_best (restore w3) [])) = sk (w_st w)).
    { destruct (has_best w3).
      - split; [exact P3|]. auto.
      - destruct (JT_restore n w3 P3) as [P3r _].
        destruct (JP_mark_best_nil n (restore w3) P3r ltac:(destruct w3; cbn; apply Z.le_refl)) as [P4 _]. split; [exact P4|].
        pose proof (XI_mark_best0 n (restore w3) (XI_restore n w3 XC3) (proj1 P3r)) as X4.
        destruct w3; cbn in *. auto. }
    destruct X' as (X'1 & X'2 & X'3 & X'4 & X'5 & X'6).
    cbv beta iota zeta. destruct (policy_never _).
    + split; [exact X'5|exact X'6].
    + apply (G _ X'1 X'3 X'4); auto; rewrite X'2; reflexivity.
  - (* NewLineBeforeBreak *)
    cbv beta iota zeta. rewrite R2, F3b.
    pose proof (JT_set_br n _ _ (JT_restore n w3 P3) Mw) as T5.
    destruct (set_br_proj (restore w3) (mark_word_unused b1)) as (U1 & U2 & U3 & U4 & U5).
    assert (X5 : XI n (set_br (restore w3) (mark_word_unused b1))) by (apply XI_set_br; apply XI_restore; exact XC3).
    assert (Sk5 : sk (w_st (set_br (restore w3) (mark_word_unused b1))) = sk (w_st w)) by (rewrite <- Sk3; destruct w3; reflexivity).
    destruct (_ || _).
    + split; [exact X5|exact Sk5].
    + apply (G (set_br (restore w3) (mark_word_unused b1)) (proj1 T5));
        [rewrite U5; destruct w3; cbn in *; exact F3v|rewrite U3, R3; exact F3s|rewrite U2; reflexivity|rewrite U2; reflexivity
        |rewrite U2; reflexivity|exact X5|exact Sk5].
  - (* Fits *)
    destruct (Best1 ltac:(discriminate)) as (B1x & T4 & CL).
    cbv beta iota zeta. destruct (snd opt).
    + split; [exact B1x|rewrite Stm; exact Sk3].
    + assert (Sr : sk (w_st (mark_best w3 [cand])) = sk (w_st w)) by (rewrite Stm; exact Sk3).
      rewrite <- Sr. apply IH.
      * exact T4.
      * unfold OrdO. rewrite M1, M2, M3, F3b, FW. intros _. split; [lia|reflexivity].
      * exact B1x.
  - (* CannotFit *)
    cbv beta iota zeta. destruct (policy_never w3).
    + destruct (lc_truncating lc); [split; [exact XC3|exact Sk3]|].
      destruct (Best1 ltac:(discriminate)) as (B1x & _). split; [exact B1x|rewrite Stm; exact Sk3].
    + apply (G w3 P3); auto; rewrite F3b; reflexivity.
Qed.

(* ---- postProcessLine --------------------------------------------------------------------------------------------- *)

(* what piece_ok reads of a run: bidi ordering only rewrites VisualIndex, the trailing-space trim only Advance *)
Definition geo (o : out) : Z * Z * Z * Z * Z * Z := (o_dir o, o_off o, o_cnt o, o_src o, o_lo o, o_len o).
Lemma geo_fields : forall a b, geo a = geo b ->
  o_dir a = o_dir b /\ o_off a = o_off b /\ o_cnt a = o_cnt b /\ o_src a = o_src b /\ o_lo a = o_lo b /\ o_len a = o_len b.
Proof. intros a b H. unfold geo in H. inversion H. auto 10. Qed.
Lemma piece_ok_geo : forall st rs a b, geo a = geo b -> piece_ok st rs a = piece_ok st rs b.
Proof.
  intros st rs a b H. destruct (geo_fields _ _ H) as (F1 & F2 & F3 & F4 & F5 & F6).
  unfold piece_ok, out_end. rewrite F1, F2, F3, F4, F5, F6. reflexivity.
Qed.

Lemma assign_vis_geo : forall l vs, map geo (assign_vis l vs) = map geo l.
Proof. induction l; intros vs; destruct vs; cbn [assign_vis map]; auto. f_equal. apply IHl. Qed.
Lemma bidi_go_geo : forall dir len l idx seg, map geo (bidi_go dir len idx seg l) = map geo (seg ++ l).
Proof.
  induction l as [|a l IH]; intros idx seg; cbn [bidi_go].
  - rewrite app_nil_r. apply assign_vis_geo.
  - destruct (o_dir a =? dir).
    + rewrite !map_app. cbn [map]. rewrite IH. cbn [app map]. unfold swap_visual_order. rewrite assign_vis_geo. reflexivity.
    + rewrite IH. rewrite <- app_assoc. cbn [app]. rewrite !map_app. reflexivity.
Qed.
Lemma bidi_geo : forall dir l, map geo (compute_bidi_ordering dir l) = map geo l.
Proof. intros. unfold compute_bidi_ordering. apply bidi_go_geo. Qed.

(* every run of a returned line is an exact piece of an input run, or the appended truncator *)
Definition line_exact (st : store) (rs : list out) (tsrc : Z) (l : list out) : Prop :=
  Forall (fun r => PO st rs r \/ o_src r = tsrc) l.

Lemma line_exact_geo : forall st rs tsrc l l', map geo l' = map geo l -> line_exact st rs tsrc l -> line_exact st rs tsrc l'.
Proof.
  intros st rs tsrc l l'. revert l. induction l' as [|a l' IH]; intros l H F; destruct l as [|b l]; try discriminate; [constructor|].
  destruct (map_cons_inj _ _ _ _ _ H) as [H1 H2]. apply Forall_cons_iff in F. destruct F as [F1 F2].
  constructor; [|eapply IH; eauto]. destruct (geo_fields _ _ H1) as (_ & _ & _ & G4 & _).
  destruct F1 as [F1|F1]; [left; unfold PO in *; rewrite (piece_ok_geo st rs a b H1); exact F1|right; lia].
Qed.
Lemma line_exact_sk : forall st st' rs tsrc l, sk st = sk st' -> line_exact st rs tsrc l -> line_exact st' rs tsrc l.
Proof.
  intros st st' rs tsrc l H F. eapply Forall_impl; [|exact F]. intros a [Ha|Ha]; [left|right; exact Ha].
  unfold PO in *. rewrite <- (sk_piece_ok st st' rs a H). exact Ha.
Qed.
Lemma line_exact_PO : forall st rs tsrc l, Forall (PO st rs) l -> line_exact st rs tsrc l.
Proof. intros. eapply Forall_impl; [|eassumption]. intros a Ha. left. exact Ha. Qed.

Lemma pp_first_safe : forall n w line w1 l1,
  XB n w ->
  (forall l, line = Some l -> Forall (PO (w_st w) (w_runs w)) l /\ CBall (w_st w) (w_runs w) (lend (w_start w) l)) ->
  (forall l, line = Some l -> chain (w_start w) l (lend (w_start w) l)) ->
  pp_first w line = (w1, l1) ->
  XB n w1 /\ sk (w_st w1) = sk (w_st w) /\ w_runs w1 = w_runs w /\ w_cfg w1 = w_cfg w
  /\ (forall l', l1 = Some l' -> Forall (PO (w_st w1) (w_runs w1)) l').
Proof.
  intros n w line w1 l1 (HW & HM & HC) HL HCh H.
  destruct (pp_first_spec w line w1 l1 HCh H) as (F1 & F2 & F3 & F4 & F5 & F6 & F7 & F8 & F9 & F10).
  assert (K : sk (w_st w1) = sk (w_st w)
              /\ forall l', l1 = Some l' -> exists l, line = Some l /\ map geo l' = map geo l).
  { unfold pp_first in H. destruct line as [[|a fl]|].
    - inversion H; subst. split; [reflexivity|]. intros l' E. inversion E; subst. eauto.
    - cbv zeta in H. destruct (c_notrim (w_cfg w)).
      + inversion H; subst. split; [destruct w; reflexivity|]. intros l' E. inversion E; subst. eexists. split; [reflexivity|apply bidi_geo].
      + match type of H with context [if ?c then _ else _] => destruct c end; inversion H; subst.
        * split; [destruct w; cbn; apply sk_update; apply gskel_zero|]. intros l' E. inversion E; subst. eexists. split; [reflexivity|].
          rewrite <- (bidi_geo (c_dir (w_cfg w)) (a :: fl)). apply (map_zset geo out_zero). reflexivity.
        * split; [destruct w; reflexivity|]. intros l' E. inversion E; subst. eexists. split; [reflexivity|apply bidi_geo].
    - inversion H; subst. split; [reflexivity|]. intros l' E. discriminate. }
  destruct K as [K1 K2]. symmetry in K1.
  split; [|split; [symmetry; exact K1|split; [exact F4|split; [exact F1|]]]].
  - unfold XB, MS. rewrite F4, F7, F9. split; [|split].
    + rewrite <- (sk_wf_runs _ _ _ _ K1). exact HW.
    + intros V. rewrite (HM V). apply skl_map3_spec. apply sk_array. exact K1.
    + destruct line as [l|]; [apply (CBall_sk _ _ _ _ K1); apply (HL l eq_refl)|apply (CBall_sk _ _ _ _ K1); exact HC].
  - intros l' E. destruct (K2 l' E) as (l & El & Gl). rewrite F4. apply (Forall_PO_sk _ _ _ _ K1).
    destruct (HL l El) as [FP _]. clear - FP Gl. revert l FP Gl. induction l' as [|x l' IH]; intros l FP Gl; destruct l as [|y l]; try discriminate; [constructor|].
    destruct (map_cons_inj _ _ _ _ _ Gl) as [G1 G2]. apply Forall_cons_iff in FP. destruct FP as [P1 P2].
    constructor; [unfold PO in *; rewrite (piece_ok_geo _ _ x y G1); exact P1|eapply IH; eauto].
Qed.

Lemma pp_tail_line : forall cfg w line done w' wl d',
  pp_tail cfg w line done = (w', wl, d') ->
  w_st w' = w_st w
  /\ (wl_line wl = line \/ exists t l, wl_line wl = Some l /\ o_src t = o_src (c_truncator cfg)
        /\ map geo l = map geo ((match line with Some x => x | None => [] end) ++ [t])).
Proof.
  intros cfg w line done w' wl d' H. unfold pp_tail in H.
  destruct (w_truncating w).
  - destruct (c_trunc cfg - 1 =? 0).
    + destruct ((0 <? b_n (w_br w) - w_start (set_cfg w _)) || c_cont cfg).
      * inversion H; subst; clear H. cbn. split; [first [reflexivity|destruct w; reflexivity]|]. right. eexists _, _. split; [reflexivity|].
        split; [|apply bidi_geo]. reflexivity.
      * inversion H; subst; clear H. cbn. split; [first [reflexivity|destruct w; reflexivity]|left; reflexivity].
    + destruct (done || _); inversion H; subst; clear H; cbn; (split; [first [reflexivity|destruct w; reflexivity]|left; reflexivity]).
  - destruct (done || _); inversion H; subst; clear H; cbn; (split; [first [reflexivity|destruct w; reflexivity]|left; reflexivity]).
Qed.

(* ---- one WrapNextLine call ----------------------------------------------------------------------------------------- *)

Definition safe_call (n : Z) (s0 : list (list (Z * Z * Z * Z * Z))) (rs : list out) (tsrc : Z) (r : res (W * wrapped * bool)) : Prop :=
  match r with
  | Ok (w', wl, _) => XB n w' /\ sk (w_st w') = s0 /\ w_runs w' = rs
                      /\ (forall l, wl_line wl = Some l -> line_exact (w_st w') rs tsrc l)
  | OutOfFuel => True
  | _ => False
  end.

Lemma XI_start_line : forall n w, XB n w -> XI n (start_line w).
Proof.
  intros n w HB. split; [eapply XB_ext; [| | | |exact HB]; destruct w; reflexivity|].
  destruct w; unfold XP; cbn. split; [constructor|split; [constructor|intros l Hl; discriminate]].
Qed.

Lemma wrap_next_line_safe : forall n attrs w mw, CI n attrs w -> XB n w ->
  safe_call n (sk (w_st w)) (w_runs w) (o_src (c_truncator (w_cfg w))) (wrap_next_line w mw).
Proof.
  intros n attrs w mw HC HB. unfold wrap_next_line. destruct (w_more w) eqn:Hm; cbn [negb].
  2:{ cbn. split; [exact HB|]. split; [reflexivity|]. split; [reflexivity|intros l Hl; discriminate]. }
  destruct (CI_peek n attrs w HC) as (ci & run & PK). rewrite PK. cbn [negb].
  destruct (CI_start_line n attrs w HC) as (T0 & O0 & A0 & N0 & Acc0).
  pose proof (XI_start_line n w HB) as X0.
  set (lc := mkLC _ _ _).
  pose proof (outer_safe n (loop_fuel (start_line w)) (start_line w) lc T0 O0 X0) as OS.
  destruct (outer_loop _ (start_line w) lc) as [[w2 d2]| | |] eqn:OL; cbn [bind]; try exact OS.
  destruct OS as [X2 S2].
  destruct (outer_loop_ok n _ _ _ _ _ (proj1 (proj1 T0)) OL) as [I2 O2].
  destruct O2 as (Oc & Ot & Os & Om & Or & On & Oa).
  replace (w_cfg (start_line w)) with (w_cfg w) in * by (destruct w; reflexivity).
  replace (w_runs (start_line w)) with (w_runs w) in * by (destruct w; reflexivity).
  replace (w_st (start_line w)) with (w_st w) in * by (destruct w; reflexivity).
  cbv beta iota zeta. rewrite post_process_split.
  destruct (pp_first w2 (s_best (w_sc w2))) as [w1 l1] eqn:PF.
  assert (HL : forall l, s_best (w_sc w2) = Some l -> chain (w_start w2) l (lend (w_start w2) l)).
  { intros l Hl. destruct I2 as (_ & _ & _ & _ & HBo). destruct (HBo l Hl) as [e He]. rewrite (lend_chain _ _ _ He). exact He. }
  destruct X2 as (XB2 & _ & _ & XBest).
  destruct (pp_first_safe n w2 _ w1 l1 XB2 XBest HL PF) as (XB1 & S1 & R1 & C1 & P1).
  destruct (pp_tail (w_cfg w2) w1 l1 d2) as [[w' wl] d'] eqn:PT.
  destruct (pp_tail_line _ _ _ _ _ _ _ PT) as (St' & Ln).
  destruct (pp_tail_spec n w1 l1 d2 w' wl d') as (G1 & G2 & G3 & G4 & G5 & G6 & G7 & _).
  { destruct (pp_first_spec _ _ _ _ HL PF) as (_ & _ & _ & _ & _ & _ & _ & F8 & _). rewrite F8, On.
    destruct HC as (_ & _ & _ & _ & HBk & _). replace (w_br (start_line w)) with (w_br w) by (destruct w; reflexivity). exact (proj1 HBk). }
  { destruct (pp_first_spec _ _ _ _ HL PF) as (_ & _ & _ & _ & _ & _ & _ & _ & F9 & _). rewrite F9.
    destruct (outer_loop_J n (phi n (w_br w)) attrs _ _ _ _ _ T0 O0 (N0 lc) A0 (fun _ => Acc0) OL) as (P2 & _).
    destruct P2 as (_ & _ & _ & _ & _ & _ & BN2). exact BN2. }
  { rewrite C1. exact PT. }
  cbn. split; [|split; [rewrite St', S1; exact S2|split; [rewrite G1, R1; exact Or|]]].
  - eapply XB_ext; [exact St'|exact G1|exact G4|exact G7|exact XB1].
  - intros l Hl. rewrite St', <- Or, <- R1. destruct Ln as [Ln|(t & l' & Ln & Ts & Gl)].
    + rewrite Ln in Hl. apply line_exact_PO. apply P1. exact Hl.
    + rewrite Ln in Hl. injection Hl as <-. eapply line_exact_geo; [exact Gl|].
      apply Forall_app. split.
      * destruct l1 as [x|]; [apply line_exact_PO; apply P1; reflexivity|constructor].
      * constructor; [right; rewrite Ts, Oc; reflexivity|constructor].
Qed.

(* ---- any number of calls, WrapParagraph, the iterative API ------------------------------------------------------------ *)

Definition no_panic {A} (r : res A) : Prop := match r with Panic _ | Err _ => False | _ => True end.

Definition lines_exact (st : store) (rs : list out) (tsrc : Z) (res : list (wrapped * bool)) : Prop :=
  Forall (fun x => forall l, wl_line (fst x) = Some l -> line_exact st rs tsrc l) res.

Lemma run_calls_safe : forall n attrs tsrc widths w (live : bool),
  (match live return Prop with true => CI n attrs w /\ w_more w = true | false => w_more w = false end) ->
  XB n w -> o_src (c_truncator (w_cfg w)) = tsrc ->
  match run_calls w widths with
  | Ok (w', rs) => sk (w_st w') = sk (w_st w) /\ lines_exact (w_st w') (w_runs w) tsrc rs
  | OutOfFuel => True
  | _ => False
  end.
Proof.
  intros n attrs tsrc. induction widths as [|mw rest IH]; intros w live HS HB HT; cbn [run_calls].
  { split; [reflexivity|constructor]. }
  destruct live.
  - destruct HS as [HC Hm].
    pose proof (wrap_next_line_safe n attrs w mw HC HB) as WS.
    destruct (wrap_next_line w mw) as [[[w1 wl] d]| | |] eqn:WN; cbn [bind]; try exact WS.
    destruct WS as (XB1 & S1 & R1 & L1). rewrite HT in L1.
    destruct (wrap_next_line_J n attrs w mw w1 wl d HC Hm WN) as (_ & _ & L3 & L4 & L5).
    specialize (IH w1 (negb d)).
    assert (HS1 : match negb d return Prop with true => CI n attrs w1 /\ w_more w1 = true | false => w_more w1 = false end).
    { destruct d; cbn; [apply L5; reflexivity|]. destruct (L4 eq_refl) as (A & B & _). auto. }
    specialize (IH HS1 XB1 ltac:(rewrite L3; exact HT)).
    destruct (run_calls w1 rest) as [[w2 rs2]| | |]; cbn [bind fst snd]; try exact IH.
    destruct IH as [S2 E2]. split; [rewrite S2; exact S1|]. constructor; [|rewrite <- R1; exact E2].
    cbn [fst]. intros l Hl. apply (line_exact_sk (w_st w1)); [symmetry; exact S2|]. apply L1. exact Hl.
  - unfold wrap_next_line. rewrite HS. cbn [negb bind].
    specialize (IH w false HS HB HT). destruct (run_calls w rest) as [[w2 rs2]| | |]; cbn [bind fst snd]; try exact IH.
    destruct IH as [S2 E2]. split; [exact S2|]. constructor; [|exact E2]. cbn. intros l Hl; discriminate.
Qed.

Lemma XB_prepare : forall n w cfg attrs runs, wf_runs (w_st w) runs n = true -> XB n (prepare w cfg attrs runs 0 0).
Proof.
  intros n w cfg attrs runs H. unfold XB, MS, prepare; cbn. split; [exact H|]. split; [intros V; discriminate|].
  intros r Hr. apply cluster_start_out. left. destruct (wf_runs_ok _ _ _ H) as [C P].
  destruct (chain_in_bounds _ _ _ _ C P Hr). lia.
Qed.

Lemma paragraph_loop_safe : forall n attrs tsrc fuel w mw acc,
  CI n attrs w -> w_more w = true -> XB n w -> o_src (c_truncator (w_cfg w)) = tsrc ->
  Forall (line_exact (w_st w) (w_runs w) tsrc) acc ->
  match paragraph_loop fuel w mw acc with
  | Ok (w', ls, _) => sk (w_st w') = sk (w_st w) /\ Forall (line_exact (w_st w') (w_runs w) tsrc) ls
  | OutOfFuel => True
  | _ => False
  end.
Proof.
  intros n attrs tsrc. induction fuel as [|fuel IH]; intros w mw acc HC Hm HB HT HA; cbn [paragraph_loop]; [exact I|].
  pose proof (wrap_next_line_safe n attrs w mw HC HB) as WS.
  destruct (wrap_next_line w mw) as [[[w1 wl] d]| | |] eqn:WN; cbn [bind]; try exact WS.
  destruct WS as (XB1 & S1 & R1 & L1). rewrite HT in L1.
  destruct (wrap_next_line_J n attrs w mw w1 wl d HC Hm WN) as (_ & _ & L3 & L4 & L5).
  assert (HA1 : Forall (line_exact (w_st w1) (w_runs w) tsrc) (match wl_line wl with Some l => acc ++ [l] | None => acc end)).
  { assert (HA' : Forall (line_exact (w_st w1) (w_runs w) tsrc) acc).
    { eapply Forall_impl; [|exact HA]. intros a Ha. eapply line_exact_sk; [symmetry; exact S1|exact Ha]. }
    destruct (wl_line wl) as [l|]; [|exact HA']. apply Forall_app. split; [exact HA'|constructor; [apply L1; reflexivity|constructor]]. }
  destruct d.
  - split; [exact S1|exact HA1].
  - destruct (L4 eq_refl) as (C1 & M1 & _).
    specialize (IH w1 mw _ C1 M1 XB1 ltac:(rewrite L3; exact HT) ltac:(rewrite R1; exact HA1)).
    destruct (paragraph_loop fuel w1 mw _) as [[[w2 ls] tr]| | |]; try exact IH.
    destruct IH as [S2 E2]. split; [rewrite S2; exact S1|rewrite <- R1; exact E2].
Qed.

Lemma next_line_loop_safe : forall n attrs fuel w widths acc,
  CI n attrs w -> w_more w = true -> XB n w -> no_panic (next_line_loop fuel w widths acc).
Proof.
  intros n attrs. induction fuel as [|fuel IH]; intros w widths acc HC Hm HB; cbn [next_line_loop]; [exact I|].
  set (wd := match widths with x :: _ => x | [] => 0 end).
  pose proof (wrap_next_line_safe n attrs w wd HC HB) as WS.
  destruct (wrap_next_line w wd) as [[[w1 wl] d]| | |] eqn:WN; cbn [bind]; try exact WS; try exact I.
  destruct WS as (XB1 & _).
  destruct (wrap_next_line_J n attrs w wd w1 wl d HC Hm WN) as (_ & _ & _ & L4 & L5).
  destruct d.
  - destruct (L5 eq_refl) as [M1 _]. unfold wrap_next_line. rewrite M1. cbn. exact I.
  - destruct (L4 eq_refl) as (C1 & M1 & _). apply IH; auto.
Qed.

(* wrap_no_panic and wrapped_pieces_exact *)
Lemma wrap_no_panic_all : forall n w cfg attrs runs,
  wf_runs (w_st w) runs n = true -> zlen attrs - 1 = n -> 1 <= n ->
  (forall mw, no_panic (wrap_paragraph w cfg mw attrs runs))
  /\ (forall widths, no_panic (wrap_iterative w cfg widths attrs runs))
  /\ (forall widths, no_panic (run_calls (prepare w cfg attrs runs 0 0) widths)).
Proof.
  intros n w cfg attrs runs HW Hn H1.
  pose proof (CI_prepare n w cfg attrs runs (wf_runs_ok _ _ _ HW) Hn H1) as HC.
  pose proof (XB_prepare n w cfg attrs runs HW) as HB.
  split; [|split].
  - intros mw. unfold wrap_paragraph.
    match goal with |- no_panic (match ?f with Some _ => _ | None => _ end) => destruct f end; [exact I|].
    pose proof (paragraph_loop_safe n attrs (o_src (c_truncator cfg)) (para_fuel attrs) _ mw [] HC eq_refl HB eq_refl ltac:(constructor)) as X.
    destruct (paragraph_loop _ _ mw []) as [[[w2 ls] tr]| | |]; try exact X; exact I.
  - intros widths. unfold wrap_iterative. eapply next_line_loop_safe; eauto.
  - intros widths.
    pose proof (run_calls_safe n attrs (o_src (c_truncator cfg)) widths _ true (conj HC eq_refl) HB eq_refl) as X.
    destruct (run_calls _ widths) as [[w2 rs]| | |]; try exact X; exact I.
Qed.

Lemma forallb_text_exact : forall st rs tsrc l, line_exact st rs tsrc l -> forallb (piece_ok st rs) (text_runs tsrc l) = true.
Proof.
  intros st rs tsrc l H. apply forallb_forall. intros x Hx. unfold text_runs in Hx. apply filter_In in Hx. destruct Hx as [Hx Ht].
  unfold line_exact in H. rewrite Forall_forall in H. destruct (H x Hx) as [P|P]; [exact P|].
  unfold is_text in Ht. apply negb_true_iff in Ht. apply Z.eqb_neq in Ht. contradiction.
Qed.

Lemma wrapped_pieces_exact_calls : forall n w cfg attrs runs widths w' rs,
  wf_runs (w_st w) runs n = true -> zlen attrs - 1 = n -> 1 <= n ->
  run_calls (prepare w cfg attrs runs 0 0) widths = Ok (w', rs) ->
  structure_kept (w_st w) (w_st w') = true
  /\ forall wl d l, In (wl, d) rs -> wl_line wl = Some l ->
       forallb (piece_ok (w_st w') runs) (text_runs (o_src (c_truncator cfg)) l) = true.
Proof.
  intros n w cfg attrs runs widths w' rs HW Hn H1 H.
  pose proof (CI_prepare n w cfg attrs runs (wf_runs_ok _ _ _ HW) Hn H1) as HC.
  pose proof (XB_prepare n w cfg attrs runs HW) as HB.
  pose proof (run_calls_safe n attrs (o_src (c_truncator cfg)) widths _ true (conj HC eq_refl) HB eq_refl) as X.
  rewrite H in X. destruct X as [S E]. split; [apply sk_structure_kept; symmetry; exact S|].
  intros wl d l Hin Hl. apply forallb_text_exact. unfold lines_exact in E. rewrite Forall_forall in E.
  apply (E (wl, d) Hin l Hl).
Qed.

Lemma wrapped_pieces_exact_paragraph : forall n w cfg attrs runs mw w' ls tr,
  wf_runs (w_st w) runs n = true -> zlen attrs - 1 = n -> 1 <= n ->
  wrap_paragraph w cfg mw attrs runs = Ok (w', ls, tr) ->
  structure_kept (w_st w) (w_st w') = true
  /\ forall l, In l ls -> forallb (piece_ok (w_st w') runs) (text_runs (o_src (c_truncator cfg)) l) = true.
Proof.
  intros n w cfg attrs runs mw w' ls tr HW Hn H1 H. unfold wrap_paragraph in H.
  match type of H with (match ?f with Some _ => _ | None => _ end) = _ => destruct f as [first|] eqn:FP end.
  - (* the single-run fast path returns the input run *)
    inversion H; subst; clear H. replace (w_st (set_br w (new_breaker attrs))) with (w_st w) by (destruct w; reflexivity).
    split; [apply sk_structure_kept; reflexivity|]. intros l [<-|[]].
    destruct (negb _); [|discriminate]. destruct (negb _); [|discriminate].
    destruct runs as [|r0 [|r1 rest]]; try discriminate. destruct (_ <=? _); [|discriminate]. inversion FP; subst.
    apply forallb_text_exact. constructor; [|constructor]. left.
    assert (PW : PO (w_st w) [r0] r0) by (eapply whole_piece_ok; [exact HW|left; reflexivity]).
    unfold PO in *. rewrite <- PW. unfold piece_ok, recompute_advance, set_adv, out_end. reflexivity.
  - pose proof (CI_prepare n w cfg attrs runs (wf_runs_ok _ _ _ HW) Hn H1) as HC.
    pose proof (XB_prepare n w cfg attrs runs HW) as HB.
    pose proof (paragraph_loop_safe n attrs (o_src (c_truncator cfg)) (para_fuel attrs) _ mw [] HC eq_refl HB eq_refl ltac:(constructor)) as X.
    rewrite H in X. destruct X as [S E]. split; [apply sk_structure_kept; symmetry; exact S|].
    intros l Hin. apply forallb_text_exact. rewrite Forall_forall in E. apply (E l Hin).
Qed.
