(* Lemmas about Model/HbPos.v: the default positioning of harfbuzz/ot_shaper.go (C12). *)
From Coq Require Import ZArith List Bool Lia.
From TV Require Import Lib.GoNum Model.F32 Model.HbFont Model.HbPos Spec.HbFont Proofs.HbFont.
Import ListNotations.
Open Scope Z_scope.

(* (x + o) - o on int32 is x *)
Lemma add_sub_wrap x o : - 2147483648 <= x < 2147483648 -> sint32 (sint32 (x + o) - o) = x.
Proof.
  intros R. apply sint32_unique; [|apply sint32_rng|exact R].
  destruct (sint32_eq (x + o)) as [k1 E1]. destruct (sint32_eq (sint32 (x + o) - o)) as [k2 E2].
  exists (k1 + k2). lia.
Qed.
Lemma sub_add_wrap x o : - 2147483648 <= x < 2147483648 -> sint32 (sint32 (x - o) + o) = x.
Proof.
  intros R. apply sint32_unique; [|apply sint32_rng|exact R].
  destruct (sint32_eq (x - o)) as [k1 E1]. destruct (sint32_eq (sint32 (x - o) + o)) as [k2 E2].
  exists (k1 + k2). lia.
Qed.

Definition pos32 (p : Z * Z) : Prop := - 2147483648 <= fst p < 2147483648 /\ - 2147483648 <= snd p < 2147483648.

Section P.
  Variable fc : face.
  Variable ft : hbfont.

  (* adding then subtracting (or subtracting then adding) the origin of a glyph is the identity on int32 points *)
  Lemma origin_add_sub_lemma g p : pos32 p ->
    subtract_glyph_h_origin fc ft g (add_glyph_h_origin fc ft g p) = p
    /\ add_glyph_h_origin fc ft g (subtract_glyph_h_origin fc ft g p) = p.
  Proof.
    intros [A B]. unfold subtract_glyph_h_origin, add_glyph_h_origin, sub_xy, add_xy. destruct p as [x y]. cbn [fst snd] in *.
    rewrite !add_sub_wrap, !sub_add_wrap by assumption. split; reflexivity.
  Qed.

  Definition off32 (p : ppos) : Prop := pos32 (pp_xo p, pp_yo p).

  Lemma sub_add_h_origin inf p : off32 p -> sub_h_origin fc ft inf (add_h_origin fc ft inf p) = p.
  Proof.
    intros H. unfold sub_h_origin, add_h_origin. cbn [pp_xa pp_ya pp_xo pp_yo].
    rewrite <- surjective_pairing. destruct (origin_add_sub_lemma (pi_gid inf) (pp_xo p, pp_yo p) H) as [E _].
    rewrite E. destruct p; reflexivity.
  Qed.

  Lemma map2_sub_add infos ps : Forall off32 ps -> length infos = length ps ->
    map2 (sub_h_origin fc ft) infos (map2 (add_h_origin fc ft) infos ps) = ps.
  Proof.
    revert ps. induction infos as [|i infos IH]; intros [|p ps] F L; try discriminate; [reflexivity|].
    inversion F; subst. cbn [map2]. rewrite sub_add_h_origin by assumption. f_equal. apply IH; [assumption|]. cbn in L. lia.
  Qed.

  (* ---- positionDefault ---- *)
  Lemma default_pos_cross h inf : cross_adv h (default_pos fc ft h inf) = 0.
  Proof. unfold default_pos, cross_adv. destruct h; reflexivity. Qed.
  Lemma default_pos_axis h inf : axis_of h (default_pos fc ft h inf) = font_adv fc ft h (pi_gid inf).
  Proof. unfold default_pos, axis_of, font_adv. destruct h; reflexivity. Qed.

  Lemma set_axis_cross h p v : cross_adv h (set_axis h p v) = cross_adv h p.
  Proof. unfold set_axis, cross_adv. destruct h; reflexivity. Qed.

  Lemma fold_set_axis_cross h (f : Z -> Z) l p : cross_adv h (fold_left (fun q g => set_axis h q (f g)) l p) = cross_adv h p.
  Proof. revert p. induction l as [|g l IH]; intros p; [reflexivity|]. cbn [fold_left]. rewrite IH. apply set_axis_cross. Qed.

  Lemma fallback_space_cross sc h inf p : cross_adv h (fallback_space fc ft sc h inf p) = cross_adv h p.
  Proof.
    unfold fallback_space. destruct (negb (pi_space inf)); [reflexivity|].
    set (p1 := if negb (sc_invisible sc =? 0) && (pi_gid inf =? sc_invisible sc) then _ else p).
    assert (E1 : cross_adv h p1 = cross_adv h p) by (unfold p1; destruct (negb (sc_invisible sc =? 0) && (pi_gid inf =? sc_invisible sc)); [apply set_axis_cross|reflexivity]).
    repeat match goal with |- context [if ?c then _ else _] => destruct c end;
      rewrite ?fold_set_axis_cross, ?set_axis_cross; try exact E1.
    destruct (sc_punct sc); rewrite ?set_axis_cross; exact E1.
  Qed.
  Lemma fallback_space_not_space sc h inf p : pi_space inf = false -> fallback_space fc ft sc h inf p = p.
  Proof. intros E. unfold fallback_space. rewrite E. reflexivity. Qed.

  (* what positionDefault guarantees for one glyph *)
  Definition default_ok (h sf : bool) (inf : pinfo) (p : ppos) : Prop :=
    cross_adv h p = 0
    /\ ((sf = false \/ pi_space inf = false) ->
        axis_of h p = font_adv fc ft h (pi_gid inf)
        /\ (pp_xo p, pp_yo p) = (if h then subtract_glyph_h_origin fc ft (pi_gid inf) (0, 0)
                                 else subtract_glyph_v_origin fc ft (pi_gid inf) (0, 0))).

  Lemma position_default_lemma dir sf sc infos :
    Forall2 (default_ok (hb_is_horizontal dir) sf) infos (position_default fc ft dir sf sc infos)
    /\ length (position_default fc ft dir sf sc infos) = length infos.
  Proof.
    unfold position_default. set (h := hb_is_horizontal dir).
    assert (B : forall inf, default_ok h false inf (default_pos fc ft h inf)).
    { intros inf. split; [apply default_pos_cross|]. intros _. split; [apply default_pos_axis|].
      unfold default_pos. destruct h; cbn [pp_xo pp_yo]; rewrite <- surjective_pairing; reflexivity. }
    destruct sf.
    - induction infos as [|inf infos IH]; [split; [constructor|reflexivity]|].
      cbn [map map2]. destruct IH as [IH L]. split; [|cbn [length]; rewrite L; reflexivity].
      constructor; [|exact IH].
      destruct (B inf) as [C A]. split; [rewrite fallback_space_cross; exact C|].
      intros [X|X]; [discriminate|]. rewrite fallback_space_not_space by exact X. apply A. left. reflexivity.
    - split; [|apply map_length]. induction infos as [|inf infos IH]; [constructor|]. cbn [map]. constructor; [apply B|exact IH].
  Qed.

  Lemma position_default_cross dir sf sc infos :
    all_cross_zero (hb_is_horizontal dir) (position_default fc ft dir sf sc infos) = true.
  Proof.
    destruct (position_default_lemma dir sf sc infos) as [F _]. unfold all_cross_zero.
    induction F as [|inf p infos ps [C _] F IH]; [reflexivity|]. cbn [forallb]. rewrite C, IH. reflexivity.
  Qed.

  (* ---- positionComplex / position ---- *)
  Lemma map2_cross {A} (f : A -> ppos -> ppos) h (l : list A) ps :
    (forall a p, cross_adv h (f a p) = 0 \/ cross_adv h (f a p) = cross_adv h p) ->
    all_cross_zero h ps = true -> all_cross_zero h (map2 f l ps) = true.
  Proof.
    intros Hf. revert ps. induction l as [|a l IH]; intros [|p ps] H; try reflexivity.
    cbn [map2]. unfold all_cross_zero in *. cbn [forallb] in *. apply andb_prop in H. destruct H as [H1 H2].
    rewrite IH by exact H2. destruct (Hf a p) as [E|E]; rewrite E; [reflexivity|rewrite H1; reflexivity].
  Qed.

  Definition keeps_cross_zero (f : list pinfo -> list ppos -> list ppos) : Prop :=
    forall h infos ps, all_cross_zero h ps = true -> all_cross_zero h (f infos ps) = true.

  Lemma zero_mark_cross adjust : keeps_cross_zero (zero_mark_widths_by_gdef adjust).
  Proof.
    intros h infos ps H. unfold zero_mark_widths_by_gdef. apply map2_cross; [|exact H].
    intros inf p. unfold zero_mark. destruct (pi_mark inf); [left|right; reflexivity].
    destruct adjust, h; reflexivity.
  Qed.

  Lemma zero_di_cross a b c : keeps_cross_zero (zero_width_default_ignorables a b c).
  Proof.
    intros h infos ps H. unfold zero_width_default_ignorables. destruct (negb a || b || c); [exact H|].
    apply map2_cross; [|exact H]. intros inf p. destruct (pi_ignorable inf); [left; destruct h; reflexivity|right; reflexivity].
  Qed.

  Lemma all_cross_rev h ps : all_cross_zero h (rev ps) = all_cross_zero h ps.
  Proof.
    unfold all_cross_zero. induction ps as [|p ps IH]; [reflexivity|]. cbn [rev forallb].
    rewrite forallb_app, IH. cbn [forallb]. rewrite andb_true_r. apply andb_comm.
  Qed.

  Section Plan.
    Variable gpos fbmarks : list pinfo -> list ppos -> list ppos.
    Hypothesis gpos_ok : keeps_cross_zero gpos.
    Hypothesis fb_ok : keeps_cross_zero fbmarks.

    Lemma position_complex_cross dir pl fl infos ps :
      all_cross_zero (hb_is_horizontal dir) ps = true ->
      all_cross_zero (hb_is_horizontal dir) (position_complex fc ft gpos fbmarks dir pl fl infos ps) = true.
    Proof.
      intros H. unfold position_complex. set (h := hb_is_horizontal dir) in *.
      assert (A : forall (f : pinfo -> ppos -> ppos) l q, (forall a p, cross_adv h (f a p) = cross_adv h p) ->
                  all_cross_zero h q = true -> all_cross_zero h (map2 f l q) = true).
      { intros f l q Hf. apply map2_cross. intros a p. right. apply Hf. }
      assert (Hadd : forall a p, cross_adv h (add_h_origin fc ft a p) = cross_adv h p) by (intros; destruct h; reflexivity).
      assert (Hsub : forall a p, cross_adv h (sub_h_origin fc ft a p) = cross_adv h p) by (intros; destruct h; reflexivity).
      set (q1 := map2 (add_h_origin fc ft) infos ps). assert (H1 : all_cross_zero h q1 = true) by (apply A; assumption).
      set (q2 := if pl_zero_marks pl && (pl_behavior pl =? 1) then _ else q1).
      assert (H2 : all_cross_zero h q2 = true) by (unfold q2; destruct (pl_zero_marks pl && (pl_behavior pl =? 1)); [apply zero_mark_cross|]; exact H1).
      set (q3 := gpos infos q2). assert (H3 : all_cross_zero h q3 = true) by (apply gpos_ok; exact H2).
      set (q4 := if pl_zero_marks pl && (pl_behavior pl =? 2) then _ else q3).
      assert (H4 : all_cross_zero h q4 = true) by (unfold q4; destruct (pl_zero_marks pl && (pl_behavior pl =? 2)); [apply zero_mark_cross|]; exact H3).
      set (q5 := zero_width_default_ignorables _ _ _ infos q4). assert (H5 : all_cross_zero h q5 = true) by (apply zero_di_cross; exact H4).
      set (q6 := map2 (sub_h_origin fc ft) infos q5). assert (H6 : all_cross_zero h q6 = true) by (apply A; assumption).
      destruct (pl_fallback_marks pl); [apply fb_ok|]; exact H6.
    Qed.

    (* the whole of position(): cross-axis advances stay zero, and a backward direction returns the reversal of what
       the forward computation produced *)
    Lemma position_lemma dir sf sc pl fl infos :
      let ps := position_complex fc ft gpos fbmarks dir pl fl infos (position_default fc ft dir sf sc infos) in
      all_cross_zero (hb_is_horizontal dir) (snd (position fc ft gpos fbmarks dir sf sc pl fl infos)) = true
      /\ position fc ft gpos fbmarks dir sf sc pl fl infos = (if hb_is_backward dir then (rev infos, rev ps) else (infos, ps)).
    Proof.
      cbv zeta. split; [|reflexivity]. unfold position.
      pose proof (position_complex_cross dir pl fl infos _ (position_default_cross dir sf sc infos)) as C.
      destruct (hb_is_backward dir); cbn [snd]; [rewrite all_cross_rev|]; exact C.
    Qed.
  End Plan.

  (* a plan that applies nothing (no GPOS, kern, kerx, trak; no marks to zero, no default ignorables) leaves the
     default positions untouched: the origin shift of positionComplex cancels *)
  Lemma position_complex_identity dir pl fl infos ps :
    Forall off32 ps -> length infos = length ps ->
    existsb pi_mark infos = false -> fl_has_di fl = false -> pl_fallback_marks pl = false ->
    position_complex fc ft (fun _ q => q) (fun _ q => q) dir pl fl infos ps = ps.
  Proof.
    intros F L M D FB. unfold position_complex. rewrite FB.
    assert (Z0 : forall adj q, zero_mark_widths_by_gdef adj infos q = map2 (fun _ p => p) infos q).
    { intros adj. unfold zero_mark_widths_by_gdef. clear L. induction infos as [|i l IH]; intros [|p q]; try reflexivity.
      cbn [existsb] in M. apply orb_false_elim in M. destruct M as [M1 M2]. cbn [map2]. unfold zero_mark at 1. rewrite M1. f_equal. apply IH. exact M2. }
    assert (I : forall q, length infos = length q -> map2 (fun (_ : pinfo) (p : ppos) => p) infos q = q).
    { clear. induction infos as [|i l IH]; intros [|p q] L; try discriminate; [reflexivity|]. cbn [map2]. f_equal. apply IH. cbn in L. lia. }
    assert (LA : length (map2 (add_h_origin fc ft) infos ps) = length ps).
    { clear - L. revert ps L. induction infos as [|i l IH]; intros [|p q] L; try discriminate; [reflexivity|]. cbn [map2 length]. f_equal. apply IH. cbn in L. lia. }
    unfold zero_width_default_ignorables. rewrite D. cbn [negb orb].
    rewrite !Z0. destruct (pl_zero_marks pl && (pl_behavior pl =? 1)), (pl_zero_marks pl && (pl_behavior pl =? 2));
      rewrite ?I by (rewrite ?I by lia; lia); apply map2_sub_add; assumption.
  Qed.
End P.
