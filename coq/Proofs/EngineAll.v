(* C18: GPOS pair positioning joins the engine of Proofs/EngineMulti.v (GSUB multiple substitution, contextual lookups of
   format 3, GSUB single / ligature substitution, legacy kerning): its window flagging never flags the first cluster of
   a sorted buffer either, so it meets the contract under inv_gm = sorted /\ head_clear; every engine built from the
   five kinds of passes is cut-safe, asking of the whole run only logical order and an unflagged first cluster. *)
From TV Require Import Model.KernMachine Model.GsubLig Model.GsubMulti Model.Context3 Model.PairPos Spec.LocalEngine.
From TV Require Import Proofs.LocalEngine Proofs.EngineItem Proofs.KernMachine Proofs.GsubLig Proofs.GsubMulti Proofs.Context3.
From TV Require Import Proofs.GsubLigHead Proofs.EngineMulti Proofs.Direction Proofs.ForwardRule Proofs.PairPos.

Lemma back_refl S : back S S.
Proof. intros y Hy U. exists y. split; [exact Hy|split; [reflexivity|left; exact U]]. Qed.

Lemma back_trans A B C : (forall u, In u B -> exists u0, In u0 A /\ icl u0 = icl u) -> back A B -> back B C -> back A C.
Proof.
  intros HB H1 H2 y2 Hy2 U2. destruct (H2 y2 Hy2 U2) as (y1 & Hy1 & E1 & [U1|(u1 & Hu1 & Lu1)]).
  - destruct (H1 y1 Hy1 U1) as (y & Hy & E & D). exists y. split; [exact Hy|]. split; [congruence|].
    destruct D as [D|(u & Hu & Lu)]; [left; exact D|right; exists u; split; [exact Hu|lia]].
  - destruct (HB y1 Hy1) as (y & Hy & E). destruct (HB u1 Hu1) as (u & Hu & Eu).
    exists y. split; [exact Hy|]. split; [congruence|]. right. exists u. split; [exact Hu|lia].
Qed.

Lemma pp_pair_same P x y x' y' ap : pp_pair P x y = Some (x', y', ap) ->
  (icl x = icl x' /\ iutb x = iutb x') /\ (icl y = icl y' /\ iutb y = iutb y').
Proof.
  unfold pp_pair. destruct (pp_record P (igid x) (igid y)) as [[v1 v2]|]; [|discriminate].
  destruct (apply_vr P (pp_vf1 P) v1 (ip x)) as [p1 a1]. destruct (apply_vr P (pp_vf2 P) v2 (ip y)) as [p2 a2].
  intros H. injection H as <- <- _. repeat split.
Qed.

Lemma ustep_head_clear P d x rest : sorted (d ++ x :: rest) -> head_clear (d ++ x :: rest) ->
  head_clear (fst (ustep P d (x :: rest)) ++ snd (ustep P d (x :: rest))).
Proof.
  intros HS HC. rewrite ustep_fr.
  assert (R : refines (d ++ x :: rest) (fst (fr_step (pp_plan P) d (x :: rest)) ++ snd (fr_step (pp_plan P) d (x :: rest)))).
  { apply fr_refines. apply pp_plan_shape. }
  apply (head_clear_back (d ++ x :: rest)); [exact HS|exact R| |exact HC].
  destruct (pp_plan P x rest) as [[[m W] n]|] eqn:E.
  2:{ rewrite (fr_none (pp_plan P) d x rest E). cbn [fst snd]. rewrite <- app_assoc. apply back_refl. }
  rewrite (fr_seq (pp_plan P) d x rest m W n E).
  (* the window before its flagging: the glyphs of the input with their flags, or flagged as the inner window was *)
  unfold pp_plan in E. destruct (pp_find P x rest) as [[[[k x'] y'] ap]|] eqn:F; [|discriminate].
  apply pp_find_some in F. destruct F as (_ & Sn & Ep). apply snext_some in Sn. destruct Sn as (Lk & _ & _).
  destruct (pp_pair_same _ _ _ _ _ _ Ep) as [Sx Sy].
  assert (S0 : same (x :: firstn k rest ++ [nth k rest i0]) (x' :: firstn k rest ++ [y'])).
  { constructor; [exact Sx|]. apply same_app; [apply same_refl|]. constructor; [exact Sy|constructor]. }
  destruct (pp_vf2 P =? 0).
  - destruct ap; [|discriminate]. injection E as <- <- <-.
    apply (back_same_l _ (d ++ (x' :: firstn k rest ++ [y']) ++ skipn (S k) rest)); [|apply back_window].
    rewrite (split_nth rest k Lk) at 1.
    replace (x :: firstn k rest ++ nth k rest i0 :: skipn (S k) rest)
      with ((x :: firstn k rest ++ [nth k rest i0]) ++ skipn (S k) rest) by (cbn; rewrite <- app_assoc; reflexivity).
    apply same_app; [apply same_refl|]. apply same_app; [exact S0|apply same_refl].
  - cbv zeta in E. remember (firstn 1 (skipn (S k) rest)) as z eqn:Ez. injection E as <- <- <-.
    change (S (k + length z)) with (S k + length z)%nat.
    assert (Et : skipn (S k) rest = z ++ skipn (S k + length z) rest).
    { rewrite skipn_plus, Ez, skipn_1_len. destruct (skipn (S k) rest); reflexivity. }
    set (tail := skipn (S k + length z) rest) in *.
    (* the input, with the window of the pair and the glyph after it set apart *)
    assert (Ein : d ++ x :: rest = d ++ ((x :: firstn k rest ++ [nth k rest i0]) ++ z) ++ tail).
    { rewrite (split_nth rest k Lk) at 1. rewrite Et. cbn [app]. rewrite <- !app_assoc. reflexivity. }
    rewrite Ein.
    set (w0 := x' :: firstn k rest ++ [y']) in *.
    apply (back_same_l _ (d ++ (w0 ++ z) ++ tail)).
    { apply same_app; [apply same_refl|]. apply same_app; [|apply same_refl]. apply same_app; [exact S0|apply same_refl]. }
    unfold pp_window. fold w0. destruct ap.
    + apply (back_trans _ (d ++ (flag_window w0 ++ z) ++ tail)).
      * intros u Hu. apply in_app_or in Hu. destruct Hu as [Hu|Hu]; [exists u; split; [apply in_or_app; left; exact Hu|reflexivity]|].
        apply in_app_or in Hu. destruct Hu as [Hu|Hu]; [|exists u; split; [apply in_or_app; right; apply in_or_app; right; exact Hu|reflexivity]].
        apply in_app_or in Hu. destruct Hu as [Hu|Hu];
          [|exists u; split; [apply in_or_app; right; apply in_or_app; left; apply in_or_app; right; exact Hu|reflexivity]].
        destruct (refines_in_r _ _ u (flag_window_refines m_break w0) Hu) as (u0 & Hu0 & Eu0 & _).
        exists u0. split; [apply in_or_app; right; apply in_or_app; left; apply in_or_app; left; exact Hu0|exact Eu0].
      * rewrite <- !app_assoc. apply back_window.
      * apply back_window.
    + apply back_window.
Qed.

Theorem pp_step_ok_gm P : step_ok icl iutb sideL inv_gm (pp_pass P).
Proof.
  apply (step_ok_strengthen icl iutb sideL sorted head_clear (pp_pass P) (pp_step_ok P)).
  intros L R d t Hne HS HC. cbn [pstep pp_pass]. destruct t as [|x rest]; [contradiction|].
  change (let '(d', t', _) := pp_step_u P d (x :: rest) in (d', t')) with (ustep P d (x :: rest)).
  apply ustep_head_clear; assumption.
Qed.

(* ---- the engine of the five kinds of passes ---- *)
Inductive apiece := AMulti (P : gmparams) | ACtx (P : cxparams) | AKern (P : kparams) | AGsub (P : gsparams) | APair (P : ppparams).
Definition apiece_pass (p : apiece) : @pass item unit :=
  match p with
  | AMulti P => gm_pass P | ACtx P => cx_pass P | AKern P => kern_pass P | AGsub P => gs_pass P | APair P => pp_pass P
  end.

Theorem apiece_step_ok p : step_ok icl iutb sideL inv_gm (apiece_pass p).
Proof. destruct p; [apply gm_step_ok|apply cx_step_ok_gm|apply kern_step_ok_gm|apply gs_step_ok_gm|apply pp_step_ok_gm]. Qed.

(* the hypotheses about the pieces follow from those about the whole run, for ANY engine that meets the contract
   under inv_gm *)
Theorem cut_safe_whole_gm (qs : list (@pass item unit)) : Forall (step_ok icl iutb sideL inv_gm) qs ->
  forall L R pre suf c,
  sorted (pre ++ suf) -> head_clear (pre ++ suf) -> pre <> [] -> cutv icl sideL c pre suf = true ->
  fog icl iutb c (erun qs L R (pre ++ suf)) = false ->
  erun qs L R (pre ++ suf) = erun qs L (suf ++ R) pre ++ erun qs (L ++ pre) R suf.
Proof.
  intros Hqs L R pre suf c HS HC Hne HCut HF.
  assert (W : wf_engine icl iutb sideL inv_gm qs) by (apply wf_engine_unit; exact Hqs).
  pose proof HS as HS'. apply sorted_app in HS'. destruct HS' as (Sp & Ss & _).
  pose proof HCut as HCut'. apply cutvL_spec in HCut'. destruct HCut' as [C1 C2].
  assert (F0 : fog icl iutb c (pre ++ suf) = false).
  { destruct (fog icl iutb c (pre ++ suf)) eqn:F; [|reflexivity].
    rewrite (erun_persist icl iutb sideL inv_gm qs W L R (pre ++ suf) c (conj HS HC) F) in HF. discriminate. }
  apply (wf_engine_cut_safe icl iutb sideL inv_gm qs W L R pre suf c); try assumption.
  - split; [exact HS|exact HC].
  - split; [exact Sp|]. destruct pre as [|h r]; [contradiction|]. cbn [app head_clear] in *.
    intros y Hy Ey. apply HC; [|exact Ey]. destruct Hy as [Hy|Hy]; [left; exact Hy|right; apply in_or_app; left; exact Hy].
  - split; [exact Ss|]. apply (head_clear_of_unflagged suf c Ss C2).
    + intros y Hy Ey. destruct (iutb y) eqn:U; [exfalso|reflexivity].
      assert (fog icl iutb c (pre ++ suf) = true); [|congruence].
      apply fog_spec. right. exists y. split; [apply in_or_app; right; exact Hy|auto].
    + destruct (has_cl icl c (pre ++ suf)) eqn:Hc.
      * apply has_cl_spec in Hc. destruct Hc as (y & Hy & Ey). apply in_app_or in Hy. destruct Hy as [Hy|Hy]; [specialize (C1 y Hy); lia|].
        exists y. auto.
      * exfalso. unfold fog in F0. rewrite Hc in F0. discriminate.
Qed.

Theorem apieces_cut_safe_whole (ps : list apiece) L R pre suf c :
  sorted (pre ++ suf) -> head_clear (pre ++ suf) -> pre <> [] -> cutv icl sideL c pre suf = true ->
  fog icl iutb c (erun (map apiece_pass ps) L R (pre ++ suf)) = false ->
  erun (map apiece_pass ps) L R (pre ++ suf)
  = erun (map apiece_pass ps) L (suf ++ R) pre ++ erun (map apiece_pass ps) (L ++ pre) R suf.
Proof.
  apply cut_safe_whole_gm. apply Forall_forall. intros q Hq. apply in_map_iff in Hq. destruct Hq as (p & <- & _). apply apiece_step_ok.
Qed.
