(* Cluster accounting of the pipeline before substitution: otShapeNormalize, and AddRunes -> ... -> otShapeNormalize as a
   whole, invent no cluster value and keep the smallest one (relation bkeeps of Proofs/EngineKeep.v).  Consequence: on a fresh
   buffer the clusters after normalisation are rune indices of the item and, whenever a glyph is produced, the smallest one is
   the first rune of the item — what countClusters needs for the rune counts to sum to the run length. *)
From TV Require Import Model.Buffer Spec.Buffer Proofs.ShapeGlue Proofs.Buffer Proofs.BufferOps Proofs.BufferNewOps Proofs.BufferAll.
From TV Require Import Model.Engine Proofs.Engine Proofs.EngineForm Proofs.EngineProps Proofs.EnginePre.
From TV Require Import Proofs.EngineReorder Proofs.EngineRound2 Proofs.EngineRecompose Proofs.EngineDecompose Proofs.EngineNormalize.
From TV Require Import Proofs.EngineHide Proofs.EnginePipeline.
From TV Require Import Proofs.EngineKeep Proofs.EngineKeepMerge Proofs.EngineKeepRecompose Proofs.EngineKeepDecompose Proofs.EngineKeepStages.

Lemma next_glyph_bseq b b' : have_out b = true -> 0 <= idx b -> idx b < zlen (info b) -> next_glyph b = Ok b' -> bseq b' = bseq b.
Proof.
  intros Hh I0 I1 E. rewrite (next_glyph_frame b Hh I0 I1) in E. inversion E; subst b'. clear E.
  unfold bseq. cbn [have_out out info idx with_idx with_out]. rewrite Hh.
  rewrite (zskipn_cons (info b) (idx b)) by lia. rewrite <- app_assoc. reflexivity.
Qed.

Lemma bkeeps_bseq_eq b b' : bseq b' = bseq b -> bkeeps b b'.
Proof. intros E. unfold bkeeps. rewrite E. apply lkeeps_refl. Qed.

Section Account.
  Variable ugc : Z -> Z.
  Variable udi : Z -> bool.
  Variable umcc : Z -> Z.
  Variable uextpict : Z -> bool.
  Variable uspace : Z -> Z.
  Variable nominal : Z -> Z * bool.
  Variable variation : Z -> Z -> Z * bool.
  Variable sdecomp : Z -> option (Z * Z).
  Variable scomp : Z -> Z -> option Z.
  Variable smode : Z.
  Variable sreorder : Z.
  Variable is_mcm : Z -> bool.
  Variable dfuel : nat.
  Variables lo hi : Z.

  Notation okt := (okt sdecomp dfuel).

  Lemma okt_and {A} (r : res A) (P Q : A -> Prop) : okt r P -> (forall x, r = Ok x -> Q x) -> okt r (fun x => P x /\ Q x).
  Proof. intros [H|(x & E & Hx)] HQ; [left; exact H|right; exists x; auto]. Qed.

  Lemma normalize_okt_keeps e : EWF lo hi e ->
    okt (normalize ugc udi umcc uspace nominal variation sdecomp scomp smode sreorder is_mcm dfuel e)
        (fun e' => bkeeps (eb e) (eb e')).
  Proof.
    intros (Hw & Hl & Hh). unfold normalize.
    destruct (WF_parts lo hi (eb e) Hl Hw) as (I0 & I1 & _).
    destruct (Z.eqb_spec (zlen (info (eb e))) 0) as [Z0|NZ].
    { apply okt_ok. apply bkeeps_refl. }
    cbv zeta.
    destruct (clear_output_wf lo hi (eb e) Hl Hw) as (b0 & E0 & W0 & L0); [cbn [pre]; rewrite Hh; reflexivity|].
    rewrite E0. cbn [bind].
    assert (F0 : have_out b0 = true /\ idx b0 = 0 /\ info b0 = info (eb e) /\ out b0 = []).
    { unfold clear_output in E0. inversion E0; subst b0. repeat split. }
    destruct F0 as (Hh0 & Hi0 & Ei0 & Eo0).
    assert (K0 : bkeeps (eb e) b0).
    { apply bkeeps_bseq_eq. unfold bseq. rewrite Hh0, Hh, Eo0, Hi0, Ei0. rewrite zskipn_0. reflexivity. }
    pose proof (zlen_nonneg (info (eb e))) as Hn.
    assert (G0 : good lo hi (with_eb e b0)).
    { unfold good. cbn [eb with_eb]. repeat split; auto. rewrite L0. exact Hl. }
    eapply okt_bind.
    { apply okt_and.
      - apply (round1_okt ugc udi umcc uspace nominal variation sdecomp dfuel lo hi); cbn [eb with_eb]; auto; try lia.
        rewrite Hi0, Ei0. lia.
      - intros r Er. eapply (round1_keeps ugc udi umcc uspace nominal variation sdecomp dfuel lo hi); [exact G0| | | |exact Er];
          cbn [eb with_eb]; auto; try lia. rewrite Hi0, Ei0. lia. }
    intros [e1 simple] ((Fr & Iend & Onz) & K1). cbn [fst eb with_eb] in *.
    destruct Fr as ((Hl1 & Hw1 & Hh1) & Lv1 & Z1 & D1 & _). cbn [eb with_eb dir] in Lv1, Z1, D1.
    destruct (swap_end_wf lo hi (eb e1) Hl1 Hw1 Hh1 Iend) as (b1 & E1 & W1 & L1 & Hh1' & I1' & Zb1).
    rewrite E1. cbn [bind].
    assert (Kb1 : bkeeps (eb e1) b1).
    { rewrite (swap_at_end (eb e1) Hh1 Iend) in E1. inversion E1; subst b1. apply bkeeps_bseq_eq.
      unfold bseq. cbn [have_out info]. rewrite Hh1, Iend. rewrite zskipn_all by lia. rewrite app_nil_r. reflexivity. }
    assert (Hlb1 : (level b1 =? 2) = false) by (rewrite L1; exact Hl1).
    assert (R2 : exists b2, (if negb simple then round2 sreorder is_mcm (Z.to_nat (zlen (info b1)) + 1) (zlen (info b1)) b1 0 else Ok b1) = Ok b2
                  /\ stable lo hi b1 b2 /\ idx b2 = idx b1 /\ bkeeps b1 b2).
    { destruct simple; cbn [negb].
      - exists b1. split; [reflexivity|]. split; [apply stable_refl; auto|]. split; [reflexivity|apply bkeeps_refl].
      - destruct (round2_call_ok sreorder is_mcm lo hi b1 Hlb1 W1 Hh1') as (b2 & E2 & S2 & I2).
        exists b2. split; [exact E2|]. split; [exact S2|]. split; [exact I2|].
        eapply (round2_keeps sreorder is_mcm lo hi); [exact Hlb1|exact W1|exact Hh1'|reflexivity| |exact E2]. lia. }
    destruct R2 as (b2 & E2 & (W2 & Hh2 & L2 & Z2) & I2 & K2). rewrite E2. cbn [bind].
    assert (Hlb2 : (level b2 =? 2) = false) by (rewrite L2; exact Hlb1).
    assert (R3 : exists b3, (if sf_cgj e1 then cgj_pass b2 else Ok b2) = Ok b3 /\ stable lo hi b2 b3 /\ idx b3 = idx b2 /\ bkeeps b2 b3).
    { destruct (sf_cgj e1).
      - destruct (cgj_pass_ok lo hi b2 Hlb2 W2 Hh2) as (b3 & E3 & S3 & I3).
        exists b3. split; [exact E3|]. split; [exact S3|]. split; [exact I3|]. exact (cgj_pass_keeps lo hi b2 b3 Hlb2 W2 Hh2 E3).
      - exists b2. split; [reflexivity|]. split; [apply stable_refl; auto|]. split; [reflexivity|apply bkeeps_refl]. }
    destruct R3 as (b3 & E3 & (W3 & Hh3 & L3 & Z3) & I3 & K3). rewrite E3. cbn [bind].
    assert (Hlb3 : (level b3 =? 2) = false) by (rewrite L3; exact Hlb2).
    assert (K03 : bkeeps (eb e) b3).
    { eapply bkeeps_trans; [exact K0|]. eapply bkeeps_trans; [exact K1|]. eapply bkeeps_trans; [exact Kb1|].
      eapply bkeeps_trans; [exact K2|exact K3]. }
    destruct (negb simple && _).
    - destruct (clear_output_wf lo hi b3 Hlb3 W3) as (b4 & E4 & W4 & L4); [cbn [pre]; rewrite Hh3; reflexivity|].
      rewrite E4. cbn [bind].
      assert (F4 : have_out b4 = true /\ idx b4 = 0 /\ info b4 = info b3 /\ out b4 = []).
      { unfold clear_output in E4. inversion E4; subst b4. repeat split. }
      destruct F4 as (Hh4 & Hi4 & Ei4 & Eo4).
      assert (K4 : bkeeps b3 b4).
      { apply bkeeps_bseq_eq. unfold bseq. rewrite Hh4, Hh3, Eo4, Hi4, Ei4. rewrite zskipn_0. reflexivity. }
      assert (Hlb4 : (level b4 =? 2) = false) by (rewrite L4; exact Hlb3).
      assert (Pos4 : 0 < zlen (info b4)) by (rewrite Ei4; lia).
      destruct (next_glyph_wf lo hi b4 Hlb4 W4) as (b5 & E5 & W5 & L5); [cbn [pre]; apply Z.ltb_lt; lia|].
      rewrite E5. cbn [bind].
      assert (K5 : bkeeps b4 b5) by (apply bkeeps_bseq_eq; apply (next_glyph_bseq b4 b5 Hh4); auto; lia).
      rewrite (next_glyph_frame b4 Hh4 ltac:(lia) ltac:(lia)) in E5. injection E5 as Eb5.
      assert (Hlb5 : (level b5 =? 2) = false) by (rewrite L5; exact Hlb4).
      assert (F5 : have_out b5 = true /\ idx b5 = 1 /\ zlen (out b5) = 1 /\ info b5 = info b4).
      { rewrite <- Eb5. cbn [have_out idx out info with_idx with_out]. rewrite Hh4, Hi4, Eo4. repeat split. }
      destruct F5 as (Hh5 & Hi5 & Zo5 & Ei5).
      destruct (round3_ok_end ugc udi umcc nominal scomp lo hi (Z.to_nat (zlen (info b5)) + 1) (zlen (info b5)) 0 (with_eb e1 b5))
        as (e5 & E5' & W5' & Hl5' & Hh5' & I5' & D5'); cbn [eb with_eb]; auto; try lia.
      rewrite E5'. cbn [bind].
      assert (K6 : bkeeps b5 (eb e5)).
      { apply (round3_keeps ugc udi umcc nominal scomp lo hi (Z.to_nat (zlen (info b5)) + 1) (zlen (info b5)) 0 (with_eb e1 b5) e5);
          cbn [eb with_eb]; auto; try lia. }
      destruct (swap_end_wf lo hi (eb e5) Hl5' W5' Hh5' I5') as (b6 & E6 & W6 & L6 & Hh6 & I6 & _).
      rewrite E6. cbn [lift bind]. apply okt_ok. cbn [eb with_eb].
      assert (K7 : bkeeps (eb e5) b6).
      { rewrite (swap_at_end (eb e5) Hh5' I5') in E6. inversion E6; subst b6. apply bkeeps_bseq_eq.
        unfold bseq. cbn [have_out info]. rewrite Hh5', I5'. rewrite zskipn_all by lia. rewrite app_nil_r. reflexivity. }
      eapply bkeeps_trans; [exact K03|]. eapply bkeeps_trans; [exact K4|]. eapply bkeeps_trans; [exact K5|].
      eapply bkeeps_trans; [exact K6|exact K7].
    - apply okt_ok. cbn [eb with_eb]. exact K03.
  Qed.

  (* otShapeNormalize invents no cluster value and keeps the smallest one *)
  Lemma normalize_keeps e e' : EWF lo hi e ->
    normalize ugc udi umcc uspace nominal variation sdecomp scomp smode sreorder is_mcm dfuel e = Ok e' -> bkeeps (eb e) (eb e').
  Proof.
    intros He E. destruct (normalize_okt_keeps e He) as [[E' _]|(x & E' & K)]; rewrite E in E'; [discriminate|].
    inversion E'; subst x. exact K.
  Qed.

  (* setUnicodeProps .. otShapeNormalize *)
  Lemma pre_gsub_keeps horiz e e' : (forall u, 0 <= ugc u < 32) ->
    EWF lo hi e -> idx (eb e) = 0 -> level (eb e) = 0 \/ level (eb e) = 1 ->
    pre_gsub ugc udi umcc uextpict uspace nominal variation sdecomp scomp smode sreorder is_mcm dfuel horiz e = Ok e' ->
    bkeeps (eb e) (eb e').
  Proof.
    intros Hgc He Hi Hlv E. unfold pre_gsub in E.
    destruct (pre_normalize_full ugc udi umcc uextpict nominal lo hi horiz e Hgc He Hi Hlv) as (e4 & E4 & H4 & _).
    rewrite E4 in E. cbn [bind] in E.
    eapply bkeeps_trans; [exact (pre_normalize_keeps ugc udi umcc uextpict nominal lo hi horiz e e4 Hgc He Hi Hlv E4)|].
    exact (normalize_keeps e4 e' H4 E).
  Qed.

  (* partial-correctness form of the invariant: whatever the decomposition budget, an Ok result satisfies EWF *)
  Lemma pre_gsub_ewf horiz e e' : (forall u, 0 <= ugc u < 32) ->
    EWF lo hi e -> idx (eb e) = 0 -> level (eb e) = 0 \/ level (eb e) = 1 ->
    pre_gsub ugc udi umcc uextpict uspace nominal variation sdecomp scomp smode sreorder is_mcm dfuel horiz e = Ok e' ->
    EWF lo hi e'.
  Proof.
    intros Hgc He Hi Hlv E. unfold pre_gsub in E.
    destruct (pre_normalize_full ugc udi umcc uextpict nominal lo hi horiz e Hgc He Hi Hlv) as (e4 & E4 & H4 & _).
    rewrite E4 in E. cbn [bind] in E.
    destruct (normalize_ok ugc udi umcc uspace nominal variation sdecomp scomp smode sreorder is_mcm dfuel lo hi e4 H4)
      as [E'|(x & E' & P)]; rewrite E in E'; [discriminate|]. inversion E'; subst x. exact (proj1 P).
  Qed.
End Account.

(* the clusters AddRunes gives a fresh buffer *)
Lemma lmin_item off len : 0 < len -> lmin (map (fun i => off + i) (zseq len)) = off.
Proof.
  intros H. apply lmin_char.
  - apply in_map_iff. exists 0. split; [lia|]. unfold zseq. apply in_map_iff. exists 0%nat. split; [reflexivity|]. apply in_seq. lia.
  - apply Forall_forall. intros x Hx. apply in_map_iff in Hx. destruct Hx as (i & <- & Hi). apply in_zseq in Hi. lia.
Qed.

Section Accounting.
  Variable ugc : Z -> Z.
  Variable udi : Z -> bool.
  Variable umcc : Z -> Z.
  Variable uextpict : Z -> bool.
  Variable uspace : Z -> Z.
  Variable nominal : Z -> Z * bool.
  Variable variation : Z -> Z -> Z * bool.
  Variable sdecomp : Z -> option (Z * Z).
  Variable scomp : Z -> Z -> option Z.
  Variable smode : Z.
  Variable sreorder : Z.
  Variable is_mcm : Z -> bool.
  Variable dfuel : nat.

  (* AddRunes on an empty buffer, then everything up to substitution: every cluster is a rune index of the item and, if any
     glyph is there, the smallest cluster is the first rune of the item *)
  Lemma pre_gsub_accounts horiz e0 text off len0 newcap e1 e2 :
    let len := add_runes_len text off len0 in
    (forall u, 0 <= ugc u < 32) ->
    info (eb e0) = [] -> EWF off (off + len) e0 -> idx (eb e0) = 0 -> level (eb e0) = 0 \/ level (eb e0) = 1 ->
    pre (OAddRunes text off len0 newcap) (eb e0) = true ->
    e_add_runes e0 text off len0 newcap = Ok e1 ->
    pre_gsub ugc udi umcc uextpict uspace nominal variation sdecomp scomp smode sreorder is_mcm dfuel horiz e1 = Ok e2 ->
    (forall c, In c (cls (info (eb e2))) -> off <= c < off + len)
    /\ (info (eb e2) <> [] -> lmin (cls (info (eb e2))) = off).
  Proof.
    intros len Hgc Hemp He Hi Hlv Hp E1 E2.
    assert (Hr : op_rng off (off + len) (OAddRunes text off len0 newcap) = true).
    { cbn [op_rng]. fold len. destruct (Z.leb_spec len 0); [reflexivity|]. cbn [orb].
      apply andb_true_intro. split; apply Z.leb_le; lia. }
    destruct (e_add_runes_wf off (off + len) e0 text off len0 newcap He Hp Hr) as (e1' & E1' & H1 & I1 & L1 & _).
    rewrite E1 in E1'. inversion E1'; subst e1'. clear E1'.
    assert (C1 : cls (info (eb e1)) = map (fun i => off + i) (zseq len)).
    { unfold e_add_runes in E1. cbv zeta in E1. destruct (negb _); [discriminate|].
      destruct (add_runes (eb e0) text off len0 newcap) as [b| | |] eqn:Ea; cbn [bind] in E1; try discriminate.
      inversion E1; subst e1. cbn [eb with_eb with_ctx].
      unfold add_runes in Ea. cbv zeta in Ea. destruct (_ && _); [|discriminate]. inversion Ea; subst b.
      cbn [info with_pos with_info]. rewrite Hemp. cbn [app]. apply cls_new_runes. }
    pose proof (pre_gsub_keeps ugc udi umcc uextpict uspace nominal variation sdecomp scomp smode sreorder is_mcm dfuel
                  off (off + len) horiz e1 e2 Hgc H1 ltac:(congruence) ltac:(rewrite L1; exact Hlv) E2) as [S M].
    pose proof H1 as (_ & _ & Hh1).
    assert (Hh2 : have_out (eb e2) = false).
    { pose proof (pre_gsub_ewf ugc udi umcc uextpict uspace nominal variation sdecomp scomp smode sreorder is_mcm dfuel
                    off (off + len) horiz e1 e2 Hgc H1 ltac:(congruence) ltac:(rewrite L1; exact Hlv) E2) as (_ & _ & X). exact X. }
    rewrite (bseq_nohave _ Hh1), (bseq_nohave _ Hh2) in S, M. rewrite C1 in S, M.
    split.
    - intros c Hc. specialize (S c Hc). apply in_map_iff in S. destruct S as (i & <- & Hi'). apply in_zseq in Hi'. lia.
    - intros N. rewrite M.
      + apply lmin_item. destruct (Z_lt_le_dec 0 len); [assumption|]. exfalso.
        destruct (info (eb e2)) as [|g r] eqn:Eg; [congruence|].
        specialize (S (cl g) (or_introl eq_refl)). apply in_map_iff in S. destruct S as (i & _ & Hi'). apply in_zseq in Hi'. lia.
      + intros Hn. apply N. destruct (info (eb e2)); [reflexivity|discriminate].
  Qed.
End Accounting.
