(* WF-preservation of the operations added to Model/Buffer.v in the extension round: AddRune / AddRunes, sort (with its
   cluster merging) and reverseGroups with mergeClusters = true/false on graphemes (reverseGraphemes).  Also the generic
   fold lemmas used for the loops of Model/Engine.v. *)
From TV Require Import Model.Buffer Spec.Buffer Proofs.ShapeGlue Proofs.Buffer Proofs.BufferOps.

(* ---------- generic loop lemmas ---------- *)

Lemma fold_inv_idx {St} (step : res St -> Z -> res St) (I : Z -> St -> Prop) (g : Z -> Z) :
  forall k a st,
    (forall j st, Z.of_nat a <= j < Z.of_nat a + Z.of_nat k -> I j st -> exists st', step (Ok st) (g j) = Ok st' /\ I (j + 1) st') ->
    I (Z.of_nat a) st ->
    exists st', fold_left step (map g (map Z.of_nat (seq a k))) (Ok st) = Ok st' /\ I (Z.of_nat a + Z.of_nat k) st'.
Proof.
  induction k as [|k IH]; intros a st Hs Hi.
  - exists st. cbn [seq map fold_left]. split; [reflexivity|]. replace (Z.of_nat a + Z.of_nat 0) with (Z.of_nat a) by lia. exact Hi.
  - cbn [seq map fold_left]. destruct (Hs (Z.of_nat a) st) as (st1 & E1 & I1); [lia|exact Hi|]. rewrite E1.
    destruct (IH (S a) st1) as (st2 & E2 & I2).
    + intros j st' Hj Hij. apply Hs; [lia|exact Hij].
    + replace (Z.of_nat (S a)) with (Z.of_nat a + 1) by lia. exact I1.
    + exists st2. split; [exact E2|]. replace (Z.of_nat a + Z.of_nat (S k)) with (Z.of_nat (S a) + Z.of_nat k) by lia. exact I2.
Qed.

(* the same over zseq n *)
Lemma fold_inv_zseq {St} (step : res St -> Z -> res St) (I : Z -> St -> Prop) (g : Z -> Z) n st : 0 <= n ->
  (forall j st, 0 <= j < n -> I j st -> exists st', step (Ok st) (g j) = Ok st' /\ I (j + 1) st') ->
  I 0 st ->
  exists st', fold_left step (map g (zseq n)) (Ok st) = Ok st' /\ I n st'.
Proof.
  intros Hn Hs Hi. unfold zseq.
  destruct (fold_inv_idx step I g (Z.to_nat n) 0%nat st) as (st' & E & I').
  - intros j s Hj. apply Hs. lia.
  - exact Hi.
  - exists st'. split; [exact E|]. replace n with (Z.of_nat 0 + Z.of_nat (Z.to_nat n)) by lia. exact I'.
Qed.

Lemma in_zseq x n : In x (zseq n) -> 0 <= x < n.
Proof.
  unfold zseq. intros H. apply in_map_iff in H. destruct H as (k & <- & Hk). apply in_seq in Hk. lia.
Qed.

Lemma zlen_zseq n : 0 <= n -> zlen (zseq n) = n.
Proof. intros H. unfold zseq, zlen. rewrite map_length, seq_length. lia. Qed.

Lemma const_lists_eq (v : Z) : forall a b, Forall (fun x => x = v) a -> Forall (fun x => x = v) b -> length a = length b -> a = b.
Proof.
  induction a as [|x a IH]; intros [|y b] Ha Hb Hl; try discriminate; [reflexivity|].
  inversion Ha; subst. inversion Hb; subst. f_equal. apply IH; auto.
Qed.

Lemma nth_zskipn {A} (d : A) (l : list A) s i : 0 <= s -> s <= i -> nth (Z.to_nat i) l d = nth (Z.to_nat (i - s)) (zskipn s l) d.
Proof.
  intros H0 H1. unfold zskipn.
  destruct (Nat.le_gt_cases (Z.to_nat s) (length l)) as [Hle|Hgt].
  - rewrite <- (firstn_skipn (Z.to_nat s) l) at 1.
    rewrite app_nth2 by (rewrite firstn_length; lia).
    f_equal. rewrite firstn_length. rewrite Nat.min_l by exact Hle. lia.
  - rewrite skipn_all2 by lia. rewrite nth_overflow by lia. destruct (Z.to_nat (i - s)); reflexivity.
Qed.

(* ---------- AddRune / AddRunes ---------- *)

Lemma in_range_app lo hi a b : in_range lo hi (a ++ b) = in_range lo hi a && in_range lo hi b.
Proof. unfold in_range. apply forallb_app. Qed.

Lemma append_wf lo hi b news pl pc : (level b =? 2) = false -> WF lo hi b = true ->
  monotone (cls (bseq b) ++ cls news) = true -> in_range lo hi (cls news) = true ->
  WF lo hi (with_pos (with_info b (info b ++ news)) pl pc) = true.
Proof.
  intros Hl Hw Hm Hr. destruct (WF_parts lo hi b Hl Hw) as (I0 & I1 & _ & Hr0).
  pose proof (zlen_nonneg news) as Hn.
  assert (Eb : cls (bseq (with_pos (with_info b (info b ++ news)) pl pc)) = cls (bseq b) ++ cls news).
  { unfold bseq. cbn [have_out out idx info with_pos with_info]. destruct (have_out b).
    - rewrite zskipn_app_lt by lia. rewrite app_assoc, cls_app. reflexivity.
    - apply cls_app. }
  apply WF_intro; cbn [level idx info with_pos with_info]; auto; try (rewrite zlen_app; lia).
  - rewrite Eb. exact Hm.
  - rewrite Eb, in_range_app, Hr0, Hr. reflexivity.
Qed.

Lemma add_rune_wf lo hi b r c k : (level b =? 2) = false -> WF lo hi b = true ->
  pre (OAddRune r c k) b = true -> op_rng lo hi (OAddRune r c k) = true -> okwf lo hi b (add_rune b r c k).
Proof.
  intros Hl Hw Hp Hr. cbn [pre] in Hp. apply andb_prop in Hp. destruct Hp as [Hm _]. cbn [op_rng] in Hr.
  unfold add_rune. eexists. split; [reflexivity|]. split; [|reflexivity].
  apply append_wf; auto. cbn. rewrite Hr. reflexivity.
Qed.

Lemma cls_new_runes text off l :
  cls (map (fun i => mkG (off + i) fl0 0 (nth (Z.to_nat (off + i)) text 0) 0) l) = map (fun i => off + i) l.
Proof. unfold cls. rewrite map_map. reflexivity. Qed.

Lemma add_runes_wf lo hi b t off len0 k : (level b =? 2) = false -> WF lo hi b = true ->
  pre (OAddRunes t off len0 k) b = true -> op_rng lo hi (OAddRunes t off len0 k) = true -> okwf lo hi b (add_runes b t off len0 k).
Proof.
  intros Hl Hw Hp Hr. cbn [pre] in Hp. cbv zeta in Hp. pre_split Hp. cbn [op_rng] in Hr.
  unfold add_runes. cbv zeta. rewrite Hp, Hp3, Hp2. cbn [andb].
  eexists. split; [reflexivity|]. split; [|reflexivity].
  apply append_wf; auto; rewrite cls_new_runes; [exact Hp1|].
  set (len := add_runes_len t off len0) in *.
  unfold in_range. apply forallb_forall. intros x Hx. apply in_map_iff in Hx. destruct Hx as (i & <- & Hi). apply in_zseq in Hi.
  apply orb_prop in Hr. destruct Hr as [Hr|Hr]; [apply Z.leb_le in Hr; lia|].
  apply andb_prop in Hr. destruct Hr as [R1 R2]. apply Z.leb_le in R1, R2.
  apply andb_true_intro. split; [apply Z.leb_le|apply Z.ltb_lt]; lia.
Qed.

(* ---------- sort ---------- *)

Lemma sort_find_bound cmp inf x s k : s <= sort_find cmp inf x s k <= s + Z.of_nat k.
Proof.
  induction k as [|k IH]; cbn [sort_find]; [lia|].
  destruct (0 <? cmp (nth (Z.to_nat (s + Z.of_nat k)) inf g0) x); lia.
Qed.

(* what the loops of sort / reverseGroups keep besides WF *)
Definition stable (lo hi : Z) (b0 b : buffer) : Prop :=
  WF lo hi b = true /\ have_out b = false /\ level b = level b0 /\ zlen (info b) = zlen (info b0).

Lemma stable_refl lo hi b : WF lo hi b = true -> have_out b = false -> stable lo hi b b.
Proof. intros. repeat split; auto. Qed.

(* moving glyph i in front of glyph j inside a block of one cluster value *)
Lemma rotate_const_cls (inf : list glyph) j i : 0 <= j -> j <= i -> i < zlen inf ->
  Forall (fun g => cl g = cl (nth (Z.to_nat j) inf g0)) (slice j (i + 1) inf) ->
  cls (zfirstn j inf ++ [nth (Z.to_nat i) inf g0] ++ slice j i inf ++ zskipn (i + 1) inf) = cls inf.
Proof.
  intros H0 H1 H2 Hc. set (v := cl (nth (Z.to_nat j) inf g0)) in *.
  destruct (split3 inf j (i + 1)) as (l1 & l2 & l3 & E & L1 & L2 & F & S & K & _); try lia.
  assert (Einf : cls inf = cls l1 ++ cls l2 ++ cls l3) by (rewrite E at 1; rewrite !cls_app; reflexivity).
  rewrite Einf, F, K. rewrite !cls_app. f_equal. rewrite app_assoc. f_equal. rewrite <- cls_app.
  rewrite Forall_forall in Hc.
  apply (const_lists_eq v).
  - apply Forall_forall. intros x Hx. unfold cls in Hx. apply in_map_iff in Hx. destruct Hx as (g & <- & Hg).
    apply Hc. apply in_app_or in Hg. destruct Hg as [[<-|[]]|Hg].
    + apply nth_in_slice; lia.
    + apply (slice_incl inf j j i (i + 1)); auto; lia.
  - apply Forall_forall. intros x Hx. unfold cls in Hx. apply in_map_iff in Hx. destruct Hx as (g & <- & Hg).
    apply Hc. rewrite S. exact Hg.
  - unfold cls. rewrite !map_length, app_length. cbn [length].
    assert (A1 : zlen (slice j i inf) = i - j) by (apply zlen_slice; lia).
    unfold zlen in *. lia.
Qed.

Lemma sort_step_ok lo hi b0 cmp s b i : (level b0 =? 2) = false -> stable lo hi b0 b -> 0 <= s -> s < i -> i < zlen (info b0) ->
  exists b', sort_step cmp s (Ok b) i = Ok b' /\ stable lo hi b0 b'.
Proof.
  intros Hl (Hw & Hh & Elv & El) H0 H1 H2. unfold sort_step. cbn [bind].
  assert (Hlb : (level b =? 2) = false) by (rewrite Elv; exact Hl).
  destruct (Z.leb_spec 0 s); [|lia]. destruct (Z.ltb_spec i (zlen (info b))); [|lia]. cbn [andb negb].
  set (j := sort_find cmp (info b) (nth (Z.to_nat i) (info b) g0) s (Z.to_nat (i - s))).
  pose proof (sort_find_bound cmp (info b) (nth (Z.to_nat i) (info b) g0) s (Z.to_nat (i - s))) as Hj. fold j in Hj.
  destruct (Z.eqb_spec j i) as [Eji|Nji].
  - exists b. split; [reflexivity|]. repeat split; auto.
  - destruct (merge_full lo hi b j (i + 1) Hlb Hw) as (b1 & E1 & W1 & L1 & I1 & Hh1 & Z1 & _ & _ & _ & U1).
    { cbn [pre]. rewrite Hh. cbn [negb orb]. rewrite andb_true_r.
      apply andb_true_intro. split; [apply andb_true_intro; split|]; apply Z.leb_le; lia. }
    rewrite E1. cbn [bind]. eexists. split; [reflexivity|].
    assert (Hlb1 : (level b1 =? 2) = false) by (rewrite L1; exact Hlb).
    assert (Ec : cls (zfirstn j (info b1) ++ [nth (Z.to_nat i) (info b1) g0] ++ slice j i (info b1) ++ zskipn (i + 1) (info b1)) = cls (info b1)).
    { apply rotate_const_cls; try lia. exact U1. }
    repeat split; cbn [have_out level info with_info]; try congruence.
    + apply (WF_same_info lo hi b1); cbn [have_out level info idx with_info]; auto; try congruence. exact (cls_eq_zlen _ _ Ec).
    + rewrite (cls_eq_zlen _ _ Ec). congruence.
Qed.

Lemma sort_range_stable lo hi cmp b s e : (level b =? 2) = false -> WF lo hi b = true -> have_out b = false ->
  0 <= s -> e <= zlen (info b) ->
  exists b', sort_range cmp b s e = Ok b' /\ stable lo hi b b'.
Proof.
  intros Hl Hw Hh H0 H1. unfold sort_range.
  destruct (Z_lt_le_dec (e - s - 1) 0) as [Hneg|Hpos].
  - unfold zseq. replace (Z.to_nat (e - s - 1)) with 0%nat by lia. cbn [seq map fold_left]. exists b. split; [reflexivity|].
    apply stable_refl; auto.
  - destruct (fold_inv_zseq (sort_step cmp s) (fun _ x => stable lo hi b x) (fun k => s + 1 + k) (e - s - 1) b Hpos) as (b' & E & S').
    + intros j st Hj Hst. apply (sort_step_ok lo hi b cmp s st (s + 1 + j)); auto; lia.
    + apply stable_refl; auto.
    + exists b'. split; [exact E|exact S'].
Qed.

Lemma sort_wf lo hi b s e : (level b =? 2) = false -> WF lo hi b = true -> pre (OSort s e) b = true ->
  okwf lo hi b (sort_range cmp_ccc b s e).
Proof.
  intros Hl Hw Hp. cbn [pre] in Hp. pre_split Hp. apply negb_true_iff in Hp. apply Z.leb_le in Hp1, Hp0.
  destruct (sort_range_stable lo hi cmp_ccc b s e Hl Hw Hp Hp1 Hp0) as (b' & E & W & _ & L & _).
  exists b'. auto.
Qed.

(* ---------- reverseGroups with cluster merging: any grouping function ---------- *)

Lemma rgg_merge_step lo hi b0 grp b start i : (level b0 =? 2) = false -> stable lo hi b0 b ->
  0 <= start -> start <= i -> i <= zlen (info b0) ->
  exists b' start', rgg_step grp true (Ok (b, start)) i = Ok (b', start') /\ stable lo hi b0 b' /\ (start' = start \/ start' = i).
Proof.
  intros Hl (Hw & Hh & Elv & El) H0 H1 H2. unfold rgg_step. cbn [bind].
  assert (Hlb : (level b =? 2) = false) by (rewrite Elv; exact Hl).
  destruct (grp _ _).
  - exists b, start. split; [reflexivity|]. split; [repeat split; auto|left; reflexivity].
  - destruct (merge_full lo hi b start i Hlb Hw) as (b1 & E1 & W1 & L1 & I1 & Hh1 & Z1 & _ & _ & _ & U1).
    { cbn [pre]. rewrite Hh. cbn [negb orb]. rewrite andb_true_r.
      apply andb_true_intro. split; [apply andb_true_intro; split|]; apply Z.leb_le; lia. }
    rewrite E1. cbn [bind].
    destruct (reverse_range_const b1 start i (cl (nth (Z.to_nat start) (info b1) g0))) as (b2 & E2 & Ec2 & El2 & _ & Ei2 & Eh2 & Elv2); try lia; [exact U1|].
    rewrite E2. cbn [bind]. exists b2, i. split; [reflexivity|]. split; [|right; reflexivity].
    assert (Hlb1 : (level b1 =? 2) = false) by (rewrite L1; exact Hlb).
    repeat split; try congruence.
    apply (WF_same_info lo hi b1); auto; congruence.
Qed.

Lemma reverse_groups_merge_wf lo hi grp b : (level b =? 2) = false -> WF lo hi b = true -> have_out b = false ->
  okwf lo hi b (reverse_groups grp true b).
Proof.
  intros Hl Hw Hh. unfold reverse_groups. destruct (Z.eqb_spec (zlen (info b)) 0) as [Z0|NZ].
  - exists b. auto.
  - pose proof (zlen_nonneg (info b)) as Hn. set (n := zlen (info b)) in *.
    destruct (fold_inv_zseq (rgg_step grp true)
                (fun j (st : buffer * Z) => stable lo hi b (fst st) /\ 0 <= snd st <= j + 1) (fun i => i + 1) (n - 1) (b, 0)) as ([b1 st] & E & S1 & R1); try lia.
    + intros j [bb ss] Hj (Sb & Rb). cbn [fst snd] in *.
      destruct (rgg_merge_step lo hi b grp bb ss (j + 1) Hl Sb) as (b' & s' & E' & S' & D'); try lia.
      exists (b', s'). split; [exact E'|]. cbn [fst snd]. split; [exact S'|]. destruct D'; lia.
    + cbn [fst snd]. split; [apply stable_refl; auto|lia].
    + rewrite E. cbn [bind fst snd] in *. destruct S1 as (W1 & Hh1 & L1 & Z1).
      assert (Hlb1 : (level b1 =? 2) = false) by (rewrite L1; exact Hl).
      destruct (merge_full lo hi b1 st n Hlb1 W1) as (b2 & E2 & W2 & L2 & I2 & Hh2 & Z2 & _ & _ & _ & U2).
      { cbn [pre]. rewrite Hh1. cbn [negb orb]. rewrite andb_true_r.
        apply andb_true_intro. split; [apply andb_true_intro; split|]; apply Z.leb_le; lia. }
      rewrite E2. cbn [bind].
      destruct (reverse_range_const b2 st n (cl (nth (Z.to_nat st) (info b2) g0))) as (b3 & E3 & Ec3 & El3 & _ & Ei3 & Eh3 & Elv3); try lia; [exact U2|].
      rewrite E3. cbn [bind].
      assert (Hlb2 : (level b2 =? 2) = false) by (rewrite L2; exact Hlb1).
      assert (W3 : WF lo hi b3 = true) by (apply (WF_same_info lo hi b2); auto; congruence).
      destruct (reverse_whole b3) as (b4 & E4 & Ec4 & El4 & _ & Ei4 & Eh4 & Elv4).
      exists b4. split; [exact E4|]. split; [|congruence].
      apply (WF_reversed lo hi b3); auto; try congruence.
Qed.

(* ---------- reverseGroups without merging, groups decided by the second glyph (graphemes) ---------- *)

Lemma groups_uniform_nth : forall l i, groups_uniform l = true -> 0 < i -> i < zlen l ->
  is_cont (nth (Z.to_nat i) l g0) = true -> cl (nth (Z.to_nat (i - 1)) l g0) = cl (nth (Z.to_nat i) l g0).
Proof.
  induction l as [|a l IH]; intros i Hg H0 H1 Hc.
  - rewrite zlen_nil in H1. lia.
  - destruct l as [|b l]; [rewrite zlen_cons, zlen_nil in H1; lia|].
    cbn [groups_uniform] in Hg. apply andb_prop in Hg. destruct Hg as [Hab Hg].
    destruct (Z.eq_dec i 1) as [->|N].
    + change (Z.to_nat (1 - 1)) with 0%nat. change (Z.to_nat 1) with 1%nat in *. cbn [nth] in *.
      rewrite Hc in Hab. cbn [negb orb] in Hab. apply Z.eqb_eq in Hab. exact Hab.
    + rewrite zlen_cons in H1.
      replace (Z.to_nat i) with (S (Z.to_nat (i - 1))) in * by lia.
      replace (Z.to_nat (i - 1)) with (S (Z.to_nat (i - 1 - 1))) at 1 by lia.
      cbn [nth] in *. apply IH; auto; lia.
Qed.

Lemma reverse_range_suffix b s e b' : 0 <= s -> s <= e -> e <= zlen (info b) -> reverse_range b s e = Ok b' ->
  zskipn e (info b') = zskipn e (info b).
Proof.
  intros H0 H1 H2. unfold reverse_range. destruct (e - s <? 2); [intros E; inversion E; reflexivity|].
  destruct (negb _); [discriminate|]. intros E. inversion E. cbn [info with_info].
  destruct (split3 (info b) s e H0 H1 H2) as (l1 & l2 & l3 & E3 & L1 & L2 & F & S & K & _).
  rewrite F, S, K. rewrite app_assoc.
  replace e with (zlen (l1 ++ rev l2)) at 1 by (rewrite zlen_app, zlen_rev; lia).
  apply zskipn_app_exact.
Qed.

Section NoMerge.
  Variable P : glyph -> bool.
  Variable b0 : buffer.
  Let L0 := cls (info b0).
  Let n := zlen (info b0).
  Hypothesis HU : forall i, 0 < i -> i < n -> P (nth (Z.to_nat i) (info b0) g0) = true -> nth (Z.to_nat (i - 1)) L0 0 = nth (Z.to_nat i) L0 0.

  Definition nm_inv (j : Z) (st : buffer * Z) : Prop :=
    let '(b, start) := st in
    cls (info b) = L0 /\ (out b = out b0 /\ idx b = idx b0 /\ have_out b = have_out b0 /\ level b = level b0)
    /\ zskipn start (info b) = zskipn start (info b0)
    /\ 0 <= start /\ start <= j + 1
    /\ (forall p, start <= p < j + 1 -> nth (Z.to_nat p) L0 0 = nth (Z.to_nat start) L0 0).

  Lemma nm_step j st : 0 <= j -> j + 1 < n -> nm_inv j st ->
    exists st', rgg_step (fun _ g2 => P g2) false (Ok st) (j + 1) = Ok st' /\ nm_inv (j + 1) st'.
  Proof.
    intros Hj0 Hj1. destruct st as [b start]. intros (Ec & Es & Sk & S0 & S1 & Blk).
    assert (El : zlen (info b) = n) by (unfold n; apply cls_eq_zlen; exact Ec).
    unfold rgg_step. cbn [bind].
    assert (En : nth (Z.to_nat (j + 1)) (info b) g0 = nth (Z.to_nat (j + 1)) (info b0) g0).
    { rewrite (nth_zskipn g0 (info b) start (j + 1)) by lia. rewrite Sk. symmetry. apply nth_zskipn; lia. }
    rewrite En. destruct (P (nth (Z.to_nat (j + 1)) (info b0) g0)) eqn:HP.
    - exists (b, start). split; [reflexivity|]. unfold nm_inv. repeat split; try tauto; try lia.
      intros p Hp. destruct (Z.eq_dec p (j + 1)) as [->|N]; [|apply Blk; lia].
      destruct (Z.eq_dec start (j + 1)) as [->|N2]; [reflexivity|].
      rewrite <- (HU (j + 1)) by (auto; lia). replace (j + 1 - 1) with j by lia. apply Blk. lia.
    - destruct (reverse_range_const b start (j + 1) (nth (Z.to_nat start) L0 0)) as (b1 & E1 & Ec1 & El1 & F1 & F2 & F3 & F4); try lia.
      { apply (Forall_slice_nth _ _ _ _ _ eq_refl); try lia. intros p Hp. rewrite <- nth_cls, Ec. apply Blk. lia. }
      rewrite E1. cbn [bind]. exists (b1, j + 1). split; [reflexivity|]. unfold nm_inv.
      split; [congruence|]. split; [destruct Es as (Q1 & Q2 & Q3 & Q4); repeat split; congruence|].
      split.
      { rewrite (reverse_range_suffix b start (j + 1) b1) by (auto; lia).
        replace (zskipn (j + 1) (info b)) with (zskipn (j + 1 - start) (zskipn start (info b))) by (rewrite zskipn_zskipn by lia; f_equal; lia).
        rewrite Sk. rewrite zskipn_zskipn by lia. f_equal. lia. }
      split; [lia|]. split; [lia|]. intros p Hp. replace p with (j + 1) by lia. reflexivity.
  Qed.

  Lemma reverse_groups_nomerge_spec : exists b', reverse_groups (fun _ g2 => P g2) false b0 = Ok b' /\ cls (info b') = rev L0
    /\ zlen (info b') = n /\ out b' = out b0 /\ idx b' = idx b0 /\ have_out b' = have_out b0 /\ level b' = level b0.
  Proof.
    unfold reverse_groups. fold n. destruct (Z.eqb_spec n 0) as [Z0|NZ].
    - exists b0. unfold n in Z0. apply zlen_zero_nil in Z0. unfold L0, n. rewrite Z0. repeat split; auto.
    - pose proof (zlen_nonneg (info b0)) as Hn. fold n in Hn.
      destruct (fold_inv_zseq (rgg_step (fun _ g2 => P g2) false) nm_inv (fun i => i + 1) (n - 1) (b0, 0)) as ([b1 st] & E & Ec & Es & Sk & S0 & S1 & Blk); try lia.
      + intros j s Hj Hi. apply nm_step; auto; lia.
      + unfold nm_inv. repeat split; auto; try lia. intros p Hp. replace p with 0 by lia. reflexivity.
      + rewrite E. cbn [bind].
        assert (El1 : zlen (info b1) = n) by (unfold n; apply cls_eq_zlen; exact Ec).
        destruct (reverse_range_const b1 st n (nth (Z.to_nat st) L0 0)) as (b2 & E2 & Ec2 & El2 & F1 & F2 & F3 & F4); try lia.
        { apply (Forall_slice_nth _ _ _ _ _ eq_refl); try lia. intros p Hp. rewrite <- nth_cls, Ec. apply Blk. lia. }
        rewrite E2. cbn [bind].
        destruct (reverse_whole b2) as (b3 & E3 & Ec3 & El3 & G1 & G2 & G3 & G4).
        exists b3. split; [exact E3|]. destruct Es as (Q1 & Q2 & Q3 & Q4).
        repeat split; try congruence; try lia.
  Qed.
End NoMerge.

Lemma reverse_graphemes_wf lo hi m b : (level b =? 2) = false -> WF lo hi b = true -> pre (ORevGraphemes m) b = true ->
  okwf lo hi b (reverse_graphemes m b).
Proof.
  intros Hl Hw Hp. cbn [pre] in Hp. apply andb_prop in Hp. destruct Hp as [Hh Hm]. apply negb_true_iff in Hh.
  unfold reverse_graphemes. destruct m.
  - apply reverse_groups_merge_wf; auto.
  - cbn [orb] in Hm.
    destruct (reverse_groups_nomerge_spec is_cont b) as (b' & E & Ec & El & _ & Ei & Eh & Elv).
    { intros i H0 H1 Hc. rewrite !nth_cls. apply groups_uniform_nth; auto. }
    exists b'. split; [exact E|]. split; [|exact Elv].
    apply (WF_reversed lo hi b); auto; congruence.
Qed.
