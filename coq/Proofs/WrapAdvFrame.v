(* C02 "Advance = sum of the glyph advances" for ALL lines of a call sequence / of WrapParagraph, judged on the FINAL store:
   a WrapNextLine call touches no glyph of a line returned by an earlier call.
   Every store edit of a call at line start s is made inside the glyph slice of an exact piece that starts at or after s:
   the start-letter-spacing trim at Glyphs[0] of a piece cut as first in line (fillUntil, processBreakOption), the
   trailing-whitespace trim inside the last visual run of the new line (postProcessLine).  The runs of earlier lines are
   exact pieces over rune ranges that end at or before s: Proofs/WrapAdvRet.v other_piece_untouched.
   The loops are followed once for an arbitrary store property Q closed under such trims (Section Frame). *)
From TV Require Import Model.Wrap Spec.Wrap Spec.WrapCut Proofs.Wrap Proofs.WrapCut Proofs.WrapLines Proofs.WrapTotal Proofs.WrapStore
  Proofs.WrapMand Proofs.WrapMand2 Proofs.WrapTrunc Proofs.WrapWidth Proofs.WrapValid Proofs.WrapEmpty Proofs.WrapAdvRet Proofs.WrapAdvFull.

Section Frame.
Variables (n : Z) (rs : list out) (s : Z) (Q : store -> Prop).
Hypothesis HQ : forall st rc, wf_runs st rs n = true -> PO st rs rc -> s <= o_off rc -> 0 < o_len rc ->
  Q st -> Q (store_update st (o_src rc) (o_lo rc) trim_glyph).

Lemma fill_until_Q : forall fuel w b w',
  XI n w -> 0 <= w_idx w -> w_runs w = rs -> w_start w = s -> Q (w_st w) ->
  fill_until fuel w b = Ok w' -> Q (w_st w').
Proof.
  induction fuel as [|fuel IH]; intros w b w' HX Hi Hr Hs HQw H; [discriminate|]. cbn [fill_until] in H. unfold peek in H.
  destruct (zlen (w_runs w) <=? w_idx w) eqn:E; [cbn [andb] in H; inversion H; subst; auto|].
  apply Z.leb_gt in E. cbn [andb] in H. set (run := znth out_zero (w_runs w) (w_idx w)) in *.
  destruct (o_cnt run + o_off run <=? b); [|inversion H; subst; auto].
  pose proof HX as ((HW & HMs & HC) & HA & HS & HBst).
  destruct (wf_runs_nth _ _ _ HW (w_idx w) ltac:(lia)) as (G0 & G1 & G2 & G3 & G4 & G5 & G6 & G7). fold run in G0, G1, G2, G3, G4, G5, G7.
  destruct (o_off run + o_cnt run <=? w_start w) eqn:Es.
  { apply (IH (iter_advance w) b w'); [eapply XI_ext; [| | | | |exact HX]; destruct w; reflexivity|destruct w; cbn in *; lia
      |destruct w; exact Hr|destruct w; exact Hs|destruct w; exact HQw|exact H]. }
  apply Z.leb_gt in Es.
  destruct (o_off run <? w_start w) eqn:Ec.
  - apply Z.ltb_lt in Ec.
    destruct (map_run_safe n w (w_idx w) run (proj1 HX) ltac:(lia) eq_refl) as (mp & MR & XM & MM). rewrite MR in H. cbn [bind] in H.
    replace (w_st (set_mp w mp)) with (w_st w) in H by (destruct w; reflexivity).
    replace (w_start (set_mp w mp)) with (w_start w) in H by (destruct w; reflexivity).
    replace (mapping_of (w_mp (set_mp w mp))) with (mapping_of mp) in H by (destruct w; reflexivity). rewrite MM, <- G1 in H.
    replace (alt_empty (set_mp w mp)) with (alt_empty w) in H by (destruct w; reflexivity).
    destruct (cut_safe n (w_st w) (w_runs w) run (w_start w) (o_cnt run + o_off run) (alt_empty w) HW G0
                ltac:(lia) ltac:(lia) ltac:(lia) (HC run G0) ltac:(apply cluster_start_out; right; lia))
      as (st' & rc & CR & S1 & P1 & O1 & O2).
    rewrite CR in H. cbn [bind fst snd] in H.
    assert (Prc : PO (w_st w) (w_runs w) rc) by (unfold PO in *; rewrite (sk_piece_ok (w_st w) st' (w_runs w) rc (eq_sym S1)); exact P1).
    set (wx := iter_advance (cand_append (set_st (set_mp w mp) st') rc)) in *.
    assert (XIx : XI n wx).
    { pose proof (XI_set_st n _ st' (XI_set_mp n w mp HX XM) ltac:(destruct w; exact S1)) as (XB2 & XA2 & XS2 & XBe2).
      split; [unfold wx; destruct w; exact XB2|]. unfold wx. destruct w; cbn in *. split; [|split; assumption].
      apply Forall_app. split; [exact XA2|constructor; [exact P1|constructor]]. }
    apply (IH wx b w'); [exact XIx|unfold wx; destruct w; cbn in *; lia|unfold wx; destruct w; exact Hr|unfold wx; destruct w; exact Hs| |exact H].
    replace (w_st wx) with st' by (unfold wx; destruct w; reflexivity).
    destruct (cut_run_store _ _ _ _ _ _ _ _ CR) as [[-> _]|(Tt & Tl & ->)]; [exact HQw|].
    apply HQ; [rewrite <- Hr; exact HW|rewrite <- Hr; exact Prc|lia|exact Tl|exact HQw].
  - cbn [bind fst snd] in H.
    set (wx := iter_advance (cand_append w (recompute_advance (w_st w) run))) in *.
    apply (IH wx b w'); [|unfold wx; destruct w; cbn in *; lia|unfold wx; destruct w; exact Hr|unfold wx; destruct w; exact Hs
                         |unfold wx; destruct w; exact HQw|exact H].
    split; [unfold wx; destruct w; exact (proj1 HX)|]. unfold wx. destruct w; cbn in *. split; [|split; assumption].
    apply Forall_app. split; [exact HA|constructor; [|constructor]].
    assert (PW : PO w_st w_runs run) by (eapply whole_piece_ok; eauto).
    unfold PO in *. rewrite <- PW. unfold piece_ok, recompute_advance, set_adv, out_end. reflexivity.
Qed.

Lemma pbo_Q : forall w opt lc w' r cand,
  JP n w -> XI n w -> fst opt < n ->
  (s_alt (w_sc w) <> [] -> lend (w_start w) (s_alt (w_sc w)) <= fst opt) ->
  w_runs w = rs -> w_start w = s -> Q (w_st w) ->
  process_break_option w opt lc = Ok (w', r, cand) -> Q (w_st w').
Proof.
  intros w opt lc w' r cand HJ HX Hopt Hord Hr Hs HQw H0.
  pose proof HJ as (HI & _). pose proof HI as (HR & HP & HS & HMp & HBo).
  destruct (pbo_safe2 n w opt lc HI HX Hopt Hord) as (w'' & r'' & cand'' & PB & XC3 & Sk3 & Fin3 & _).
  rewrite H0 in PB. injection PB as <- <- <-.
  destruct (JP_pbo n w opt lc w' r cand HJ Hopt Hord H0) as (P3 & F3 & _ & _ & C3 & _).
  pose proof H0 as H. unfold process_break_option in H.
  destruct (fst opt <? w_start w) eqn:E0; [inversion H; subst; exact HQw|].
  assert (Hidx0 : 0 <= w_idx w).
  { destruct HP as (_ & pre & post & m & e & _ & Hidx & _). rewrite <- Hidx. apply zlen_nonneg. }
  destruct (fill_until_safe n (S (length (w_runs w))) w (fst opt) HX Hidx0 ltac:(unfold zlen; lia)) as (w1 & FU & X1 & S1).
  rewrite FU in H. cbn [bind] in H.
  destruct (fill_until_ok n _ _ _ _ HR HP HMp FU) as (F1 & _).
  destruct F1 as (F1a & F1b & F1c & F1d & F1e & F1f & F1g & F1h & F1i).
  pose proof (fill_until_Q _ w (fst opt) w1 HX Hidx0 Hr Hs HQw FU) as Q1.
  destruct (peek w1) as [[ci run] mr].
  destruct (map_run w1 ci run) as [w2| | |] eqn:MR; cbn [bind] in H; try discriminate.
  destruct (map_run_set _ _ _ _ MR) as [mp ->].
  destruct (is_valid _ _ _ run) as [v| | |]; cbn [bind] in H; try discriminate.
  destruct v; cbn [negb] in H; [|inversion H; subst; destruct w1; exact Q1].
  destruct (cut_run _ run _ _ _ _) as [[st' rc]| | |] eqn:CR; cbn [bind fst snd] in H; try discriminate.
  set (w3 := set_st (set_mp w1 mp) st') in *.
  assert (Hfin : w' = w3 /\ cand = rc /\ r <> BreakInvalid).
  { cbv zeta in H. repeat match type of H with context [if ?c then _ else _] => destruct c end; inversion H; subst; repeat split; discriminate. }
  destruct Hfin as (-> & -> & Hrr).
  replace (w_st (set_mp w1 mp)) with (w_st w1) in CR by (destruct w1; reflexivity).
  replace (alt_empty (set_mp w1 mp)) with (alt_empty w1) in CR by (destruct w1; reflexivity).
  assert (St3 : w_st w3 = st') by (unfold w3; destruct w1; reflexivity).
  assert (Sc3 : w_sc w3 = w_sc w1) by (unfold w3; destruct w1; reflexivity).
  assert (Rn3 : w_runs w3 = w_runs w1) by (unfold w3; destruct w1; reflexivity).
  assert (Ss3 : w_start w3 = w_start w1) by (unfold w3; destruct w1; reflexivity).
  destruct (Fin3 Hrr) as [FP _]. rewrite St3, Rn3 in FP. rewrite St3.
  destruct (cut_run_store _ _ _ _ _ _ _ _ CR) as [[-> Tn]|(Tt & Tl & ->)]; [exact Q1|].
  assert (Ae : s_alt (w_sc w1) = []) by (unfold alt_empty in Tt; destruct (s_alt (w_sc w1)); [reflexivity|discriminate]).
  assert (Sk1 : sk (store_update (w_st w1) (o_src rc) (o_lo rc) trim_glyph) = sk (w_st w1)).
  { rewrite St3 in Sk3. rewrite Sk3. symmetry. exact S1. }
  assert (Prc : PO (w_st w1) (w_runs w1) rc) by (unfold PO in *; rewrite (sk_piece_ok _ _ (w_runs w1) rc (eq_sym Sk1)); exact FP).
  destruct (C3 Hrr) as (_ & _ & C33). rewrite Sc3, Ae, Ss3 in C33. cbn [app] in C33.
  destruct (chain_single_off _ _ _ C33) as [Orc _].
  destruct X1 as ((HW1 & _) & _).
  apply HQ; [rewrite <- Hr, <- F1e; exact HW1|rewrite <- Hr, <- F1e; exact Prc|rewrite Orc, F1c; lia|exact Tl|exact Q1].
Qed.

Lemma inner_Q : forall fuel w wopt lc w' d,
  JT n w -> OrdI w -> 1 <= b_wpos (w_br w) <= n -> fst (b_unusedW (w_br w)) = b_wpos (w_br w) - 1 ->
  fst wopt = b_wpos (w_br w) - 1 -> XI n w -> w_runs w = rs -> w_start w = s -> Q (w_st w) ->
  inner_loop fuel w wopt lc = Ok (w', d) -> Q (w_st w').
Proof.
  induction fuel as [|fuel IH]; intros w wopt lc w' d HT HO HW HU HWo HX Hr Hs HQw H; cbn [inner_loop] in H; [discriminate|].
  destruct (JT_checkpoint n w HT) as (T1 & Csv & Calt & Cbe & Cbr & Cbest).
  pose proof (XI_checkpoint n w HX) as XC1.
  set (w1 := checkpoint w) in *.
  destruct (next_grapheme_break (br_fuel w1) (w_br w1)) as [[b1 ro]| | |] eqn:NG; cbn [bind fst snd] in H; try discriminate.
  pose proof T1 as ((_ & B1 & _) & _).
  destruct (ngb_spec n _ _ _ _ B1 NG) as (Bb1 & SW & UGm & X & Y). rewrite Cbr in SW, UGm, X, Y.
  destruct SW as (S1 & S2 & S3 & S4 & S5).
  pose proof (JT_set_br n w1 b1 T1 Bb1) as T2.
  destruct (set_br_proj w1 b1) as (Q1 & Q2 & Q3 & Q4 & Q5).
  assert (Q7 : w_start w1 = w_start w) by (destruct w; reflexivity).
  pose proof (XI_set_br n w1 b1 XC1) as XC2.
  assert (St2 : w_st (set_br w1 b1) = w_st w) by (unfold w1; destruct w; reflexivity).
  assert (Rn2 : w_runs (set_br w1 b1) = w_runs w) by (unfold w1; destruct w; reflexivity).
  set (w2 := set_br w1 b1) in *.
  rewrite Calt in Q1. rewrite Csv in Q5. rewrite Cbest in Q4. rewrite Q7 in Q3.
  destruct (Bk_ug_n n _ Bb1) as (G1 & G2 & G3).
  set (b := w_br w) in *.
  assert (Hr2 : w_runs w2 = rs) by (rewrite Rn2; exact Hr).
  assert (Hs2 : w_start w2 = s) by (rewrite Q3; exact Hs).
  assert (HQ2 : Q (w_st w2)) by (rewrite St2; exact HQw).
  destruct ro as [opt|].
  2:{ cbv beta iota zeta in H.
      assert (Rw2 : restore w2 = w2) by (unfold w2, w1; destruct w as [? ? ? ? ? ? ? ? ? [? ? ? ? ?] ?]; reflexivity).
      unfold word_fallback in H.
      destruct (negb (lc_truncating lc) && negb (has_best w2)) eqn:FB; [|injection H as <- <-; exact HQ2].
      apply andb_prop in FB. destruct FB as [FB1 FB2]. apply negb_true_iff in FB1, FB2.
      rewrite (has_best_same w w2 Q4) in FB2. rewrite Rw2 in H.
      assert (Hord : s_alt (w_sc w2) <> [] -> lend (w_start w2) (s_alt (w_sc w2)) <= fst wopt).
      { rewrite Q1. rewrite (JT_no_best_alt n w HT FB2). congruence. }
      destruct (process_break_option w2 wopt lc) as [[[w3 r] cand]| | |] eqn:PB; cbn [bind] in H; try discriminate.
      pose proof (pbo_Q w2 wopt lc w3 r cand (proj1 T2) XC2 ltac:(fold b in HWo, HW; lia) Hord Hr2 Hs2 HQ2 PB) as Q3'.
      cbv beta iota zeta in H.
      destruct r; injection H as <- <-; destruct w3; exact Q3'. }
  destruct X as (X1 & X2 & X3 & X4 & X5 & X6 & X7 & X8).
  assert (X1' : fst opt = fst (b_unusedG b1)) by (rewrite X1; reflexivity).
  pose proof Bb1 as (_ & _ & _ & Hpw1 & _).
  assert (Hord : s_alt (w_sc w2) <> [] -> lend (w_start w2) (s_alt (w_sc w2)) <= fst opt).
  { rewrite Q1, Q3. intros Hne. destruct (HO Hne) as [O1|O1]; fold b in O1; lia. }
  destruct (pbo_safe2 n w2 opt lc (proj1 (proj1 T2)) XC2 ltac:(lia) Hord) as (w3 & r & cand & PB & XC3 & Sk3 & Fin3 & Inv3).
  rewrite PB in H. cbn [bind] in H.
  destruct (JP_pbo n w2 opt lc w3 r cand (proj1 T2) ltac:(lia) Hord PB) as (P3 & F3 & BE3 & LE3 & C3 & L3).
  pose proof (pbo_Q w2 opt lc w3 r cand (proj1 T2) XC2 ltac:(lia) Hord Hr2 Hs2 HQ2 PB) as Q3'.
  destruct F3 as (F3c & _ & F3s & _ & F3r & _ & F3b & F3v & F3best).
  rewrite Q2 in F3b. rewrite Q5 in F3v. rewrite Q4 in F3best. rewrite Q3 in F3s, LE3. rewrite Q1 in LE3.
  rewrite Rn2 in F3r.
  assert (Mw : Bk n (mark_word_unused b1)) by (apply Bk_mark_word; [exact Bb1|rewrite S1; exact HW|rewrite S1, S2; exact HU]).
  rewrite Q1, Q3 in Hord. rewrite Q3 in C3.
  assert (Hsv : r <> BreakInvalid -> lend (w_start w3) (s_save (w_sc w3)) <= fst opt).
  { intros Hr'. destruct (C3 Hr') as (C31 & _). rewrite F3v, F3s. destruct (s_alt (w_sc w)) eqn:A; [unfold lend; cbn; lia|].
    apply Hord. congruence. }
  assert (Best1 : r <> BreakInvalid -> XI n (mark_best w3 [cand]) /\ JT n (mark_best w3 [cand])
                   /\ best_end (mark_best w3 [cand]) = fst opt + 1).
  { intros Hr'. destruct (C3 Hr') as (C31 & C32 & C33). destruct (Fin3 Hr') as [FP FC].
    destruct (JT_mark_best n w3 cand (fst opt + 1) P3 C33 C32 ltac:(specialize (Hsv Hr'); lia) ltac:(lia)) as [T4 BE4].
    split; [eapply XI_mark_best1; eauto|split; [exact T4|exact BE4]]. }
  destruct (mark_best_proj w3 [cand]) as (M1 & M2 & M3 & M4).
  destruct (restore_proj w3) as (R1 & R2 & R3 & R4).
  destruct r.
  - (* BreakInvalid *)
    apply (IH (restore w3) wopt lc w' d); [apply JT_restore; exact P3| | | | |apply XI_restore; exact XC3| | | |exact H].
    + unfold OrdI. rewrite R1, R2, R3, F3v, F3s, F3b. intros Hne. destruct (HO Hne) as [O|O]; fold b in O; [left; rewrite S3; exact O|right; lia].
    + rewrite R2, F3b, S1. exact HW.
    + rewrite R2, F3b, S1, S2. exact HU.
    + rewrite R2, F3b, S1. exact HWo.
    + destruct w3; cbn in *. congruence.
    + rewrite R3, F3s. exact Hs.
    + destruct w3; exact Q3'.
  - cbv beta iota zeta in H. injection H as <- <-. destruct w3; exact Q3'.
  - cbv beta iota zeta in H. injection H as <- <-. destruct (has_best w3); destruct w3; exact Q3'.
  - cbv beta iota zeta in H. injection H as <- <-. destruct w3; exact Q3'.
  - (* Fits *)
    destruct (Best1 ltac:(discriminate)) as (B1x & T4 & BE4). rewrite F3b in H.
    pose proof (JT_set_br n _ _ T4 Mw) as T5.
    destruct (set_br_proj (mark_best w3 [cand]) (mark_word_unused b1)) as (U1 & U2 & U3 & U4 & U5).
    destruct (C3 ltac:(discriminate)) as (C31 & C32 & C33).
    destruct (chain_app_lend _ _ _ _ C33 C32) as [CL _].
    apply (IH (set_br (mark_best w3 [cand]) (mark_word_unused b1)) wopt lc w' d); [exact T5| | | | |apply XI_set_br; exact B1x| | | |exact H].
    + unfold OrdI. rewrite U1, U2, U3, M1, M3. cbn. intros _. right. lia.
    + rewrite U2; cbn. rewrite S1; exact HW.
    + rewrite U2; cbn. rewrite S1, S2; exact HU.
    + rewrite U2; cbn. rewrite S1; exact HWo.
    + destruct w3; cbn in *. congruence.
    + rewrite U3, M3, F3s. exact Hs.
    + destruct w3; exact Q3'.
  - destruct (lc_truncating lc); cbv beta iota zeta in H; injection H as <- <-; destruct w3; exact Q3'.
Qed.

Lemma outer_Q : forall fuel w lc w' d,
  JT n w -> OrdO w -> XI n w -> w_runs w = rs -> w_start w = s -> Q (w_st w) ->
  outer_loop fuel w lc = Ok (w', d) -> Q (w_st w').
Proof.
  induction fuel as [|fuel IH]; intros w lc w' d HT HO HX Hr Hs HQw H; cbn [outer_loop] in H; [discriminate|].
  destruct (JT_checkpoint n w HT) as (T1 & Csv & Calt & Cbe & Cbr & Cbest).
  pose proof (XI_checkpoint n w HX) as XC1.
  set (w1 := checkpoint w) in *.
  destruct (next_word_break (w_br w1)) as [b1 ro] eqn:NW.
  pose proof T1 as ((_ & B1 & _) & _).
  destruct (nwb_spec n _ _ _ B1 NW) as (Bb1 & SG1 & FW & UW & X). rewrite Cbr in SG1, UW, X, B1, NW.
  destruct SG1 as (S1 & S2 & S3 & S5).
  pose proof (JT_set_br n w1 b1 T1 Bb1) as T2.
  destruct (set_br_proj w1 b1) as (Q1 & Q2 & Q3 & Q4 & Q5).
  assert (Q7 : w_start w1 = w_start w) by (destruct w; reflexivity).
  pose proof (XI_set_br n w1 b1 XC1) as XC2.
  assert (St2 : w_st (set_br w1 b1) = w_st w) by (unfold w1; destruct w; reflexivity).
  assert (Rn2 : w_runs (set_br w1 b1) = w_runs w) by (unfold w1; destruct w; reflexivity).
  set (w2 := set_br w1 b1) in *.
  rewrite Calt in Q1. rewrite Csv in Q5. rewrite Cbest in Q4. rewrite Q7 in Q3.
  destruct (Bk_ug_n n _ Bb1) as (G1 & G2 & G3).
  set (b := w_br w) in *.
  assert (Hr2 : w_runs w2 = rs) by (rewrite Rn2; exact Hr).
  assert (Hs2 : w_start w2 = s) by (rewrite Q3; exact Hs).
  assert (HQ2 : Q (w_st w2)) by (rewrite St2; exact HQw).
  destruct ro as [opt|].
  2:{ cbv beta iota zeta in H. injection H as <- <-. exact HQ2. }
  destruct X as (X1 & X3 & X6 & X7 & X8 & X9 & X10).
  assert (X1' : fst opt = fst (b_unusedW b1)) by (rewrite X1; reflexivity).
  assert (Hord : s_alt (w_sc w2) <> [] -> lend (w_start w2) (s_alt (w_sc w2)) <= fst opt).
  { rewrite Q1, Q3. intros Hne. destruct (HO Hne) as [O1 O2]; fold b in O1; lia. }
  destruct (pbo_safe2 n w2 opt lc (proj1 (proj1 T2)) XC2 ltac:(lia) Hord) as (w3 & r & cand & PB & XC3 & Sk3 & Fin3 & Inv3).
  rewrite PB in H. cbn [bind] in H.
  destruct (JP_pbo n w2 opt lc w3 r cand (proj1 T2) ltac:(lia) Hord PB) as (P3 & F3 & BE3 & LE3 & C3 & L3).
  pose proof (pbo_Q w2 opt lc w3 r cand (proj1 T2) XC2 ltac:(lia) Hord Hr2 Hs2 HQ2 PB) as Q3'.
  destruct F3 as (F3c & _ & F3s & _ & F3r & _ & F3b & F3v & F3best).
  rewrite Q2 in F3b. rewrite Q5 in F3v. rewrite Q4 in F3best. rewrite Q3 in F3s, LE3. rewrite Q1 in LE3.
  rewrite Rn2 in F3r.
  assert (HB3 : has_best w3 = has_best w) by (apply has_best_same; exact F3best).
  assert (Mw : Bk n (mark_word_unused b1)) by (apply Bk_mark_word; [exact Bb1|lia|lia]).
  rewrite Q1, Q3 in Hord. rewrite Q3 in C3.
  assert (Hsv : r <> BreakInvalid -> lend (w_start w3) (s_save (w_sc w3)) <= fst opt).
  { intros Hr'. destruct (C3 Hr') as (C31 & _). rewrite F3v, F3s. destruct (s_alt (w_sc w)) eqn:A; [unfold lend; cbn; lia|].
    apply Hord. congruence. }
  destruct (mark_best_proj w3 [cand]) as (M1 & M2 & M3 & M4).
  destruct (restore_proj w3) as (R1 & R2 & R3 & R4).
  assert (Best1 : r <> BreakInvalid -> XI n (mark_best w3 [cand]) /\ JT n (mark_best w3 [cand])
                   /\ best_end (mark_best w3 [cand]) = fst opt + 1).
  { intros Hr'. destruct (C3 Hr') as (C31 & C32 & C33). destruct (Fin3 Hr') as [FP FC].
    destruct (JT_mark_best n w3 cand (fst opt + 1) P3 C33 C32 ltac:(specialize (Hsv Hr'); lia) ltac:(lia)) as [T4 BE4].
    split; [eapply XI_mark_best1; eauto|split; [exact T4|exact BE4]]. }
  assert (Hr3 : w_runs w3 = rs) by congruence.
  assert (Hs3 : w_start w3 = s) by congruence.
  assert (G : forall wx, JP n wx -> s_save (w_sc wx) = s_alt (w_sc w) -> w_start wx = w_start w ->
              b_prevW (w_br wx) = b_prevW b1 -> b_wpos (w_br wx) = b_wpos b1 -> b_unusedW (w_br wx) = b_unusedW b1 ->
              XI n wx -> w_runs wx = rs -> Q (w_st wx) ->
              inner_loop (br_fuel wx) (restore wx) opt lc = Ok (w', d) -> Q (w_st w')).
  { intros wx Px Sx Stx Pwx Wx Ux Xx Rx Qx Hx. destruct (restore_proj wx) as (Rx1 & Rx2 & Rx3 & Rx4).
    apply (inner_Q (br_fuel wx) (restore wx) opt lc w' d); [apply JT_restore; exact Px| | | | |apply XI_restore; exact Xx| | | |exact Hx].
    - unfold OrdI. rewrite Rx1, Rx2, Rx3, Sx, Stx, Pwx. intros Hne. left. destruct (HO Hne) as [O1 O2]. fold b in O1, O2.
      destruct (b_isUnusedW b) eqn:FB; [cbn in O2; lia|]. rewrite (X9 eq_refl). exact O1.
    - rewrite Rx2, Wx. lia.
    - rewrite Rx2, Wx, Ux. lia.
    - rewrite Rx2, Wx. lia.
    - destruct wx; exact Rx.
    - rewrite Rx3, Stx. exact Hs.
    - destruct wx; exact Qx. }
  destruct r.
  - (* BreakInvalid *)
    cbv beta iota zeta in H. rewrite R2, F3b in H.
    destruct (set_br_proj (restore w3) (discard_word b1)) as (D1 & D2 & D3 & D4 & D5).
    apply (IH (set_br (restore w3) (discard_word b1)) lc w' d);
      [apply JT_set_br; [apply JT_restore; exact P3|apply Bk_discard; assumption]| |apply XI_set_br; apply XI_restore; exact XC3| | | |exact H].
    + unfold OrdO. rewrite D1, D2, D3, R1, R3, F3v, F3s. cbn [discard_word b_unusedW b_isUnusedW]. rewrite FW.
      intros Hne. destruct (HO Hne) as [O1 O2]. fold b in O1, O2.
      destruct (b_isUnusedW b) eqn:FB; [cbn in O2; lia|]. rewrite (X9 eq_refl). split; [exact O1|reflexivity].
    + destruct w3; exact Hr3.
    + rewrite D3, R3. exact Hs3.
    + destruct w3; exact Q3'.
  - cbv beta iota zeta in H. injection H as <- <-. destruct w3; exact Q3'.
  - (* Truncated *)
    cbv beta iota zeta in H.
    destruct (has_best w3) eqn:HB3'.
    + destruct (policy_never w3); [injection H as <- <-; exact Q3'|].
      apply (G w3 P3); auto; try (rewrite F3b; reflexivity).
    + destruct (policy_never (mark_best (restore w3) [])); [injection H as <- <-; destruct w3; exact Q3'|].
      destruct (JT_restore n w3 P3) as [P3r _].
      destruct (JP_mark_best_nil n (restore w3) P3r ltac:(destruct w3; cbn; apply Z.le_refl)) as [P4 _].
      pose proof (XI_mark_best0 n (restore w3) (XI_restore n w3 XC3) (proj1 P3r)) as X4.
      destruct (mark_best_proj (restore w3) []) as (N1 & N2 & N3 & N4).
      apply (G (mark_best (restore w3) []) P4); [destruct w3; exact F3v|rewrite N3, R3; exact F3s|rewrite N2, R2, F3b; reflexivity
        |rewrite N2, R2, F3b; reflexivity|rewrite N2, R2, F3b; reflexivity|exact X4|destruct w3; exact Hr3|destruct w3; exact Q3'|exact H].
  - (* NewLineBeforeBreak *)
    cbv beta iota zeta in H. rewrite R2, F3b in H.
    pose proof (JT_set_br n _ _ (JT_restore n w3 P3) Mw) as T5.
    destruct (set_br_proj (restore w3) (mark_word_unused b1)) as (U1 & U2 & U3 & U4 & U5).
    destruct (_ || _).
    + injection H as <- <-. destruct w3; exact Q3'.
    + apply (G (set_br (restore w3) (mark_word_unused b1)) (proj1 T5));
        [rewrite U5; destruct w3; cbn in *; exact F3v|rewrite U3, R3; exact F3s|rewrite U2; reflexivity|rewrite U2; reflexivity
        |rewrite U2; reflexivity|apply XI_set_br; apply XI_restore; exact XC3|destruct w3; exact Hr3|destruct w3; exact Q3'|exact H].
  - (* Fits *)
    destruct (Best1 ltac:(discriminate)) as (B1x & T4 & BE4).
    cbv beta iota zeta in H. destruct (snd opt) eqn:SO.
    + injection H as <- <-. destruct w3; exact Q3'.
    + apply (IH (mark_best w3 [cand]) lc w' d); [exact T4| |exact B1x| | | |exact H].
      * unfold OrdO. rewrite M1, M2, M3, F3b, FW. destruct (C3 ltac:(discriminate)) as (C31 & C32 & C33).
        destruct (chain_app_lend _ _ _ _ C33 C32) as [CL _]. intros _. split; [lia|reflexivity].
      * destruct w3; exact Hr3.
      * rewrite M3. exact Hs3.
      * destruct w3; exact Q3'.
  - (* CannotFit *)
    cbv beta iota zeta in H. destruct (policy_never w3).
    + destruct (lc_truncating lc); injection H as <- <-; destruct w3; exact Q3'.
    + apply (G w3 P3); auto; try (rewrite F3b; reflexivity).
Qed.

End Frame.

(* ---- one call leaves the glyphs of every exact piece that ends at or before the line start alone ------------------- *)

Lemma gskel_trim : forall g, gskel (trim_glyph g) = gskel g.
Proof. intros [? ? ? ? ? ? ? ?]. reflexivity. Qed.

Lemma pp_first_frame : forall st rs n w l s e w1 l1 y,
  wf_runs st rs n = true -> w_st w = st -> Forall (PO st rs) l -> chain s l e -> all_pos l ->
  PO st rs y -> out_end y <= s ->
  pp_first w (Some l) = (w1, l1) -> out_glyphs (w_st w1) y = out_glyphs st y.
Proof.
  intros st rs n w l s e w1 l1 y HW Hst HP HC Hpos Py Hy H. unfold pp_first in H.
  destruct l as [|a l0]; [injection H as <- <-; rewrite Hst; reflexivity|].
  set (fl := compute_bidi_ordering (c_dir (w_cfg w)) (a :: l0)) in *.
  pose proof (bidi_ga (c_dir (w_cfg w)) (a :: l0)) as G. fold fl in G. clearbody fl.
  assert (P1 : Forall (PO st rs) fl).
  { eapply (Forall_ga (PO st rs)); [|exact G|exact HP]. intros x z E Hx. unfold PO in *. rewrite <- (piece_ok_geo st rs x z (ga_geo _ _ E)). exact Hx. }
  assert (C1 : chain s fl e) by (unfold chain; rewrite (chain_rng _ _ _ (map_ga_rng _ _ G)); exact HC).
  assert (Q1 : all_pos fl).
  { eapply (Forall_ga (fun o => 0 < o_cnt o)); [|exact G|exact Hpos]. intros x z E Hx. apply ga_geo in E. apply geo_fields in E. destruct E as (_ & _ & E & _). lia. }
  destruct (c_notrim (w_cfg w)).
  { injection H as <- <-. destruct w; cbn in *. subst. reflexivity. }
  cbv zeta in H. set (goal := match find_vis fl _ 0 with Some i => i | None => _ end) in H. clearbody goal.
  destruct (0 <? o_len (znth out_zero fl goal)) eqn:EL.
  2:{ injection H as <- <-. destruct w; cbn in *. subst. reflexivity. }
  apply Z.ltb_lt in EL. destruct (znth_nth_error_len fl goal EL) as [Hg0 Hgn].
  set (fvr := znth out_zero fl goal) in *.
  set (gi := if dir_rtl (c_dir (w_cfg w)) then o_lo fvr else o_lo fvr + o_len fvr - 1) in H.
  assert (Hgi : o_lo fvr <= gi < o_lo fvr + o_len fvr) by (unfold gi; destruct (dir_rtl _); lia).
  rewrite Hst in H. injection H as <- <-.
  replace (w_st (set_start (set_st w (store_update st (o_src fvr) gi zero_adv)) _)) with (store_update st (o_src fvr) gi zero_adv) by (destruct w; reflexivity).
  assert (Pf : PO st rs fvr) by (rewrite Forall_forall in P1; apply P1; eapply nth_error_In; eauto).
  apply (other_piece_untouched st rs n y fvr gi zero_adv HW Py Pf); [|exact Hgi].
  left. destruct (chain_in_bounds _ _ _ _ C1 Q1 (nth_error_In _ _ Hgn)). lia.
Qed.

Lemma wnl_frame : forall n attrs w mw w' wl d y,
  CI n attrs w -> XB n w -> w_more w = true ->
  PO (w_st w) (w_runs w) y -> out_end y <= w_start w ->
  wrap_next_line w mw = Ok (w', wl, d) -> out_glyphs (w_st w') y = out_glyphs (w_st w) y.
Proof.
  intros n attrs w mw w' wl d y HC HB Hm Py Hy H. unfold wrap_next_line in H. rewrite Hm in H. cbn [negb] in H.
  destruct (CI_peek n attrs w HC) as (ci & run & PK). rewrite PK in H. cbn [negb] in H.
  destruct (CI_start_line n attrs w HC) as (T0 & O0 & A0 & N0 & Acc0).
  pose proof (XI_start_line n w HB) as X0.
  set (lc := mkLC _ _ _) in H.
  pose proof (outer_safe n (loop_fuel (start_line w)) (start_line w) lc T0 O0 X0) as OS.
  destruct (outer_loop _ (start_line w) lc) as [[w2 d2]| | |] eqn:OL; cbn [bind] in H; try discriminate.
  destruct OS as [X2 S2].
  destruct (outer_loop_ok n _ _ _ _ _ (proj1 (proj1 T0)) OL) as [I2 O2].
  destruct (outer_loop_J n (phi n (w_br w)) attrs _ _ _ _ _ T0 O0 (N0 lc) A0 (fun _ => Acc0) OL) as (P2 & _).
  destruct O2 as (Oc & Ot & Os & Om & Or & On & Oa).
  set (Q := fun st : store => sk st = sk (w_st w) /\ out_glyphs st y = out_glyphs (w_st w) y).
  assert (HQ : forall st rc, wf_runs st (w_runs w) n = true -> PO st (w_runs w) rc -> w_start w <= o_off rc -> 0 < o_len rc ->
            Q st -> Q (store_update st (o_src rc) (o_lo rc) trim_glyph)).
  { intros st rc HW Prc Ho Hl [Q1 Q2]. split; [rewrite sk_update; [exact Q1|exact gskel_trim]|]. rewrite <- Q2.
    apply (other_piece_untouched st (w_runs w) n y rc (o_lo rc) trim_glyph HW); [|exact Prc|left; lia|lia].
    unfold PO in *. rewrite (sk_piece_ok st (w_st w) (w_runs w) y Q1). exact Py. }
  assert (Q2 : Q (w_st w2)).
  { apply (outer_Q n (w_runs w) (w_start w) Q HQ (loop_fuel (start_line w)) (start_line w) lc w2 d2 T0 O0 X0); [destruct w; reflexivity|destruct w; reflexivity| |exact OL].
    split; destruct w; reflexivity. }
  destruct Q2 as [Sk2 Gl2].
  replace (w_runs (start_line w)) with (w_runs w) in * by (destruct w; reflexivity).
  replace (w_start (start_line w)) with (w_start w) in * by (destruct w; reflexivity).
  cbv beta iota zeta in H. injection H as PP. rewrite post_process_split in PP.
  destruct (pp_first w2 (s_best (w_sc w2))) as [w1 l1] eqn:PF.
  destruct (pp_tail_line _ _ _ _ _ _ _ PP) as [St' _]. rewrite St'.
  destruct (s_best (w_sc w2)) as [l|] eqn:EB; [|cbn in PF; injection PF as <- <-; exact Gl2].
  pose proof X2 as ((HW2 & _) & _ & _ & XBest). rewrite Or in HW2. destruct (XBest l EB) as [FPO _]. rewrite Or in FPO.
  assert (HL : chain (w_start w2) l (lend (w_start w2) l)).
  { destruct I2 as (_ & _ & _ & _ & HBo). destruct (HBo l EB) as [e He]. rewrite (lend_chain _ _ _ He). exact He. }
  pose proof P2 as (_ & _ & _ & _ & Hap & _).
  assert (Py2 : PO (w_st w2) (w_runs w) y) by (unfold PO in *; rewrite (sk_piece_ok _ _ (w_runs w) y Sk2); exact Py).
  rewrite (pp_first_frame (w_st w2) (w_runs w) n w2 l _ _ w1 l1 y HW2 eq_refl FPO HL (Hap l EB) Py2 ltac:(rewrite Os; exact Hy) PF).
  exact Gl2.
Qed.

(* ---- any sequence of calls: every line, judged on the final store --------------------------------------------------- *)

Definition line_adv_ok (st : store) (tsrc : Z) (x : wrapped * bool) : Prop :=
  match wl_line (fst x) with Some l => Forall (aok st) (text_runs tsrc l) | None => True end.

Lemma text_run_end : forall n start tsrc wl l r, line_result2 n start tsrc wl -> wl_line wl = Some l ->
  In r (text_runs tsrc l) -> out_end r <= wl_next wl.
Proof.
  intros n start tsrc wl l r (_ & _ & _ & HL) El Hr. rewrite El in HL. destruct HL as (_ & body & Hc & Hp & Hm).
  unfold text_runs in Hr. apply filter_In in Hr. destruct Hr as [Hr1 Hr2]. unfold is_text in Hr2. apply negb_true_iff in Hr2. apply Z.eqb_neq in Hr2.
  assert (Hin : In (rng r) (map rng body)).
  { pose proof (in_map rng _ _ Hr1) as Q. destruct Hm as [Hm|[Hm _]]; rewrite Hm in Q; [exact Q|].
    apply in_app_or in Q. destruct Q as [Q|[Q|[]]]; [exact Q|]. unfold rng in Q. injection Q as _ _ Q. congruence. }
  apply in_map_iff in Hin. destruct Hin as (b0 & Eb & Hb).
  destruct (chain_in_bounds _ _ _ _ Hc Hp Hb) as [_ Q]. unfold rng in Eb. injection Eb as E1 E2 _. unfold out_end in *. lia.
Qed.

Lemma run_calls_adv : forall n attrs tsrc rsn widths w w' res (Y : list out),
  CI n attrs w -> w_more w = true -> XB n w ->
  w_runs w = rsn -> zlen rsn <= tsrc -> o_src (c_truncator (w_cfg w)) = tsrc ->
  Forall (fun y => PO (w_st w) rsn y /\ out_end y <= w_start w /\ aok (w_st w) y) Y ->
  run_calls w widths = Ok (w', res) ->
  Forall (aok (w_st w')) Y /\ Forall (line_adv_ok (w_st w') tsrc) res.
Proof.
  intros n attrs tsrc rsn. induction widths as [|mw rest IH]; intros w w' res Y HC Hm HB Hr Hts Htr HY H; cbn [run_calls] in H.
  { inversion H; subst. split; [eapply Forall_impl; [|exact HY]; intros y (_ & _ & A); exact A|constructor]. }
  pose proof (wrap_next_line_safe n attrs w mw HC HB) as SF.
  destruct (wrap_next_line w mw) as [[[w1 wl] d]| | |] eqn:WN; cbn [bind] in H; try discriminate.
  destruct (run_calls w1 rest) as [[w2 r2]| | |] eqn:R; cbn [bind fst snd] in H; try discriminate.
  injection H as <- <-. destruct SF as (XB1 & Sk1 & Rn1 & LE1). rewrite Htr, Hr in LE1.
  destruct (wrap_next_line_J n attrs w mw w1 wl d HC Hm WN) as (LR & Nx & Tr1 & Jf & Jt). rewrite Htr in LR.
  pose proof LR as ((Ls1 & Ls2) & _).
  (* the pieces of earlier lines are untouched, the new line has Advance = sum *)
  set (T := match wl_line wl with Some l => text_runs tsrc l | None => [] end).
  assert (HT : Forall (fun y => PO (w_st w1) rsn y /\ out_end y <= w_start w1 /\ aok (w_st w1) y) T).
  { unfold T. destruct (wl_line wl) as [l|] eqn:El; [|constructor].
    pose proof (wnl_adv_full n attrs w mw w1 wl d l HC HB Hm ltac:(rewrite Hr, Htr; exact Hts) WN El) as A. rewrite Htr in A.
    apply Forall_forall. intros r Hin. rewrite Forall_forall in A. split; [|split; [|exact (A r Hin)]].
    - specialize (LE1 l eq_refl). unfold line_exact in LE1. rewrite Forall_forall in LE1.
      pose proof Hin as Hin'. unfold text_runs in Hin'. apply filter_In in Hin'. destruct Hin' as [I1 I2].
      destruct (LE1 r I1) as [P|P]; [exact P|]. unfold is_text in I2. rewrite P, Z.eqb_refl in I2. discriminate I2.
    - rewrite <- Nx. eapply text_run_end; eauto. }
  assert (HY1 : Forall (fun y => PO (w_st w1) rsn y /\ out_end y <= w_start w1 /\ aok (w_st w1) y) Y).
  { eapply Forall_impl; [|exact HY]. intros y (P & E & A).
    split; [unfold PO in *; rewrite (sk_piece_ok (w_st w1) (w_st w) rsn y Sk1); exact P|]. split; [lia|].
    eapply aok_same_glyphs; [|exact A]. apply (wnl_frame n attrs w mw w1 wl d y HC HB Hm); [rewrite Hr; exact P|exact E|exact WN]. }
  assert (HYT : Forall (fun y => PO (w_st w1) rsn y /\ out_end y <= w_start w1 /\ aok (w_st w1) y) (Y ++ T)) by (apply Forall_app; auto).
  assert (Fin : Forall (aok (w_st w2)) (Y ++ T) /\ Forall (line_adv_ok (w_st w2) tsrc) r2).
  { destruct d.
    - destruct (Jt eq_refl) as [M1 _]. rewrite (after_done rest w1 M1) in R. injection R as <- <-.
      split; [eapply Forall_impl; [|exact HYT]; intros y (_ & _ & A); exact A|].
      apply Forall_forall. intros x Hx. apply in_map_iff in Hx. destruct Hx as (? & <- & _). exact I.
    - destruct (Jf eq_refl) as (C1 & M1 & _).
      apply (IH w1 w2 r2 (Y ++ T) C1 M1 XB1 ltac:(congruence) Hts ltac:(rewrite Tr1; exact Htr) HYT R). }
  destruct Fin as [F1 F2]. apply Forall_app in F1. destruct F1 as [F1a F1b].
  split; [exact F1a|]. constructor; [|exact F2].
  unfold line_adv_ok. cbn [fst]. unfold T in F1b. destruct (wl_line wl); [exact F1b|exact I].
Qed.

Lemma advance_all_lines_calls : forall n w cfg attrs runs widths w' res,
  wf_runs (w_st w) runs n = true -> zlen attrs - 1 = n -> 1 <= n ->
  zlen runs <= o_src (c_truncator cfg) ->
  run_calls (prepare w cfg attrs runs 0 0) widths = Ok (w', res) ->
  Forall (line_adv_ok (w_st w') (o_src (c_truncator cfg))) res.
Proof.
  intros n w cfg attrs runs widths w' res HW Ha Hn Hts RC.
  pose proof (CI_prepare n w cfg attrs runs (wf_runs_ok _ _ _ HW) Ha Hn) as C0.
  pose proof (XB_prepare n w cfg attrs runs HW) as B0.
  exact (proj2 (run_calls_adv n attrs (o_src (c_truncator cfg)) runs widths _ w' res [] C0 eq_refl B0 eq_refl Hts eq_refl ltac:(constructor) RC)).
Qed.

(* ---- WrapParagraph ----------------------------------------------------------------------------------------------------- *)

Lemma paragraph_loop_adv : forall n attrs tsrc rsn fuel w mw acc w' ls tr (Y : list out),
  CI n attrs w -> w_more w = true -> XB n w ->
  w_runs w = rsn -> zlen rsn <= tsrc -> o_src (c_truncator (w_cfg w)) = tsrc ->
  Forall (fun y => PO (w_st w) rsn y /\ out_end y <= w_start w /\ aok (w_st w) y) Y ->
  Forall (fun l => forall r, In r (text_runs tsrc l) -> In r Y) acc ->
  paragraph_loop fuel w mw acc = Ok (w', ls, tr) ->
  Forall (fun l => Forall (aok (w_st w')) (text_runs tsrc l)) ls.
Proof.
  intros n attrs tsrc rsn. induction fuel as [|fuel IH]; intros w mw acc w' ls tr Y HC Hm HB Hr Hts Htr HY HAcc H; cbn [paragraph_loop] in H; [discriminate|].
  pose proof (wrap_next_line_safe n attrs w mw HC HB) as SF.
  destruct (wrap_next_line w mw) as [[[w1 wl] d]| | |] eqn:WN; cbn [bind] in H; try discriminate.
  destruct SF as (XB1 & Sk1 & Rn1 & LE1). rewrite Htr, Hr in LE1.
  destruct (wrap_next_line_J n attrs w mw w1 wl d HC Hm WN) as (LR & Nx & Tr1 & Jf & Jt). rewrite Htr in LR.
  pose proof LR as ((Ls1 & Ls2) & _).
  set (T := match wl_line wl with Some l => text_runs tsrc l | None => [] end).
  assert (HT : Forall (fun y => PO (w_st w1) rsn y /\ out_end y <= w_start w1 /\ aok (w_st w1) y) T).
  { unfold T. destruct (wl_line wl) as [l|] eqn:El; [|constructor].
    pose proof (wnl_adv_full n attrs w mw w1 wl d l HC HB Hm ltac:(rewrite Hr, Htr; exact Hts) WN El) as A. rewrite Htr in A.
    apply Forall_forall. intros r Hin. rewrite Forall_forall in A. split; [|split; [|exact (A r Hin)]].
    - specialize (LE1 l eq_refl). unfold line_exact in LE1. rewrite Forall_forall in LE1.
      pose proof Hin as Hin'. unfold text_runs in Hin'. apply filter_In in Hin'. destruct Hin' as [I1 I2].
      destruct (LE1 r I1) as [P|P]; [exact P|]. unfold is_text in I2. rewrite P, Z.eqb_refl in I2. discriminate I2.
    - rewrite <- Nx. eapply text_run_end; eauto. }
  assert (HY1 : Forall (fun y => PO (w_st w1) rsn y /\ out_end y <= w_start w1 /\ aok (w_st w1) y) Y).
  { eapply Forall_impl; [|exact HY]. intros y (P & E & A).
    split; [unfold PO in *; rewrite (sk_piece_ok (w_st w1) (w_st w) rsn y Sk1); exact P|]. split; [lia|].
    eapply aok_same_glyphs; [|exact A]. apply (wnl_frame n attrs w mw w1 wl d y HC HB Hm); [rewrite Hr; exact P|exact E|exact WN]. }
  assert (HYT : Forall (fun y => PO (w_st w1) rsn y /\ out_end y <= w_start w1 /\ aok (w_st w1) y) (Y ++ T)) by (apply Forall_app; auto).
  set (acc' := match wl_line wl with Some l => acc ++ [l] | None => acc end) in *.
  assert (HAcc' : Forall (fun l => forall r, In r (text_runs tsrc l) -> In r (Y ++ T)) acc').
  { unfold acc', T. destruct (wl_line wl) as [l|].
    - apply Forall_app. split; [eapply Forall_impl; [|exact HAcc]; intros l0 Hl0 r Hin; apply in_or_app; left; apply Hl0; exact Hin|].
      constructor; [intros r Hin; apply in_or_app; right; exact Hin|constructor].
    - eapply Forall_impl; [|exact HAcc]. intros l0 Hl0 r Hin. apply in_or_app; left; apply Hl0; exact Hin. }
  destruct d.
  - injection H as <- <- _. eapply Forall_impl; [|exact HAcc']. intros l Hl. apply Forall_forall. intros r Hin.
    rewrite Forall_forall in HYT. exact (proj2 (proj2 (HYT r (Hl r Hin)))).
  - destruct (Jf eq_refl) as (C1 & M1 & _).
    apply (IH w1 mw acc' w' ls tr (Y ++ T) C1 M1 XB1 ltac:(congruence) Hts ltac:(rewrite Tr1; exact Htr) HYT HAcc' H).
Qed.

Lemma advance_all_lines_paragraph : forall n w cfg attrs runs mw w' ls tr,
  wf_runs (w_st w) runs n = true -> zlen attrs - 1 = n -> 1 <= n ->
  zlen runs <= o_src (c_truncator cfg) ->
  wrap_paragraph w cfg mw attrs runs = Ok (w', ls, tr) ->
  conservation_advance (w_st w') (o_src (c_truncator cfg)) ls = true.
Proof.
  intros n w cfg attrs runs mw w' ls tr HW Ha Hn Hts H.
  assert (G : Forall (fun l => Forall (aok (w_st w')) (text_runs (o_src (c_truncator cfg)) l)) ls).
  { unfold wrap_paragraph in H.
    match type of H with (match ?f with Some _ => _ | None => _ end) = _ => destruct f as [first|] eqn:FP end.
    - inversion H; subst; clear H. replace (w_st (set_br w (new_breaker attrs))) with (w_st w) by (destruct w; reflexivity).
      destruct (negb _); [|discriminate]. destruct (negb _); [|discriminate].
      destruct runs as [|r0 [|r1 rest]]; try discriminate. destruct (_ <=? _); [|discriminate]. inversion FP; subst.
      constructor; [|constructor]. apply text_runs_Forall. constructor; [intros _; apply aok_recompute|constructor].
    - pose proof (CI_prepare n w cfg attrs runs (wf_runs_ok _ _ _ HW) Ha Hn) as C0.
      pose proof (XB_prepare n w cfg attrs runs HW) as B0.
      apply (paragraph_loop_adv n attrs (o_src (c_truncator cfg)) runs _ _ mw [] w' ls tr [] C0 eq_refl B0 eq_refl Hts eq_refl ltac:(constructor) ltac:(constructor) H). }
  unfold conservation_advance. apply forallb_forall. intros r Hr. apply in_concat in Hr. destruct Hr as (tl & Htl & Hr).
  apply in_map_iff in Htl. destruct Htl as (l & <- & Hl). rewrite Forall_forall in G. specialize (G l Hl). rewrite Forall_forall in G.
  unfold advance_ok. apply Z.eqb_eq. exact (G r Hr).
Qed.
