(* GPOS mark-to-mark attachment as a window-local rule (C18): the pass mm_pass is a backward window rule
   (Proofs/BackwardRule.v) and meets the contract of Spec/LocalEngine.v in either buffer direction, for every table,
   with no side condition on the ligature ids / components the rule reads (they belong to the two marks of the window). *)
From TV Require Import Model.MarkMark Spec.LocalEngine Proofs.LocalEngine Proofs.EngineItem Proofs.KernMachine Proofs.MarkBase.
From TV Require Import Proofs.Direction Proofs.ForwardRule Proofs.BackwardRule Proofs.PairPos.

Lemma mm_plan_shape P d x b x' : mm_plan P d x = Some (b, x') -> (b < length d)%nat /\ keeps x x'.
Proof.
  unfold mm_plan. destruct (negb _); [discriminate|].
  destruct (mb_mark P (igid x)) as [[[class mx] my]|]; [|discriminate].
  destruct (snext (mm_match P) (rev d)) as [dist|] eqn:Es; [|discriminate].
  apply snext_some in Es. destruct Es as (Ld & _ & _). rewrite rev_length in Ld.
  destruct (negb (is_gmark _)); [discriminate|]. destruct (negb (mm_good _ _)); [discriminate|].
  destruct (mb_base P _) as [anchors|]; [|discriminate].
  destruct (mb_anchor anchors class) as [[bx byy]|]; [|discriminate].
  intros H. injection H as <- <-. split; [lia|]. repeat split; auto.
Qed.

Lemma mm_plan_prefix P d1 d2 x :
  match mm_plan P d2 x with
  | Some (b, x') => mm_plan P (d1 ++ d2) x = Some ((length d1 + b)%nat, x')
  | None => mm_plan P (d1 ++ d2) x = None \/ exists b x', mm_plan P (d1 ++ d2) x = Some (b, x') /\ (b < length d1)%nat
  end.
Proof.
  unfold mm_plan. destruct (negb _); [left; reflexivity|].
  destruct (mb_mark P (igid x)) as [[[class mx] my]|]; [|left; reflexivity].
  rewrite rev_app_distr.
  destruct (snext (mm_match P) (rev d2)) as [dist|] eqn:E2.
  - rewrite (snext_app_some _ (rev d2) (rev d1) dist E2).
    apply snext_some in E2. destruct E2 as (Ld & _ & _). rewrite rev_length in Ld.
    rewrite app_length.
    replace (length d1 + length d2 - 1 - dist)%nat with (length d1 + (length d2 - 1 - dist))%nat by lia.
    rewrite app_nth2 by lia. replace (length d1 + (length d2 - 1 - dist) - length d1)%nat with (length d2 - 1 - dist)%nat by lia.
    destruct (negb (is_gmark _)); [left; reflexivity|]. destruct (negb (mm_good _ _)); [left; reflexivity|].
    destruct (mb_base P _) as [anchors|]; [|left; reflexivity].
    destruct (mb_anchor anchors class) as [[bx byy]|]; [|left; reflexivity].
    f_equal. f_equal. f_equal. lia.
  - destruct (snext (mm_match P) (rev d2 ++ rev d1)) as [k|] eqn:E1; [|left; reflexivity].
    destruct (snext_app_inv _ _ _ _ E1) as [[_ Hc]|[Lk _]]; [rewrite Hc in E2; discriminate|].
    apply snext_some in E1. destruct E1 as (Lk2 & _ & _). rewrite app_length, !rev_length in Lk2. rewrite rev_length in Lk.
    destruct (negb (is_gmark _)); [left; reflexivity|]. destruct (negb (mm_good _ _)); [left; reflexivity|].
    destruct (mb_base P _) as [anchors|]; [|left; reflexivity].
    destruct (mb_anchor anchors class) as [[bx byy]|]; [|left; reflexivity].
    right. eexists _, _. split; [reflexivity|]. rewrite app_length. lia.
Qed.

Definition mmstep (P : mbparams) (d t : list item) : list item * list item :=
  let '(d', t', _) := mm_step P d t in (d', t').

Lemma mmstep_br P d t : mmstep P d t = br_step (mm_plan P) d t.
Proof.
  unfold mmstep, mm_step, br_step. destruct t as [|x rest]; [reflexivity|].
  destruct (mm_plan P d x) as [[b x']|]; reflexivity.
Qed.

Theorem mm_step_ok_dir side srt (D : dir_ok side srt) P : step_ok icl iutb side srt (mm_pass P).
Proof.
  apply (step_ok_ext side srt (mm_pass P) (br_pass (mm_plan P))).
  - intros L R d t. cbn [pstep mm_pass br_pass]. apply mmstep_br.
  - reflexivity.
  - reflexivity.
  - apply br_step_ok_dir; [apply mm_plan_shape|apply mm_plan_prefix|exact D].
Qed.

Theorem mm_step_ok P : step_ok icl iutb sideL sorted (mm_pass P).
Proof. exact (mm_step_ok_dir sideL sorted dirL P). Qed.

(* under the invariant of the engine pieces (no glyph carries the `multiplied` bit), either direction *)
Theorem mm_step_ok_mb_dir side srt (D : dir_ok side srt) P :
  step_ok icl iutb side (fun l => srt l /\ nomult l) (mm_pass P).
Proof.
  apply (step_ok_ext side _ (mm_pass P) (br_pass (mm_plan P))).
  - intros L R d t. cbn [pstep mm_pass br_pass]. apply mmstep_br.
  - reflexivity.
  - reflexivity.
  - apply (br_step_ok_gp_dir (mm_plan P) (mm_plan_shape P) (mm_plan_prefix P) side srt D (fun x => is_multiplied x = false)).
    intros a b E H. unfold is_multiplied in *. rewrite E. exact H.
Qed.

(* one lookup as the code runs it is one run of the pass *)
Lemma mm_loop_ploop P L R : forall f d t rec, fst (mm_loop P f d t rec) = ploop (mm_pass P) f L R d t.
Proof.
  induction f as [|f IH]; intros d t rec; [reflexivity|]. destruct t as [|x rest]; [reflexivity|].
  cbn [mm_loop ploop pstep mm_pass]. destruct (mm_step P d (x :: rest)) as [[d' t'] r]. cbn [fst snd]. apply IH.
Qed.

Theorem mm_lookup_is_pass P L R l rec : (mb_mask P =? 0) = false -> fst (mm_lookup (l, rec) P) = prun (mm_pass P) L R l.
Proof. intros M. unfold mm_lookup, prun. rewrite M. apply mm_loop_ploop. Qed.
