(* C13: the fonts handed to the engine by a HarfbuzzShaper do not depend on the SetFontCacheSize calls of its
   history, and the font of a Shape call does not depend on the history at all.  Corollaries of the refinement. *)
From TV Require Import Spec.Reuse Proofs.Reuse.
Open Scope Z_scope.

Definition is_shape (o : ShaperCache.op) : bool := match o with ShaperCache.Shape _ => true | _ => false end.

Section Indep.
  Variable hbfont : Type.
  Variable mk : Z -> hbfont.

  Lemma shaper_ref_filter ops : shaper_ref hbfont mk ops = shaper_ref hbfont mk (filter is_shape ops).
  Proof. induction ops as [|o ops IH]; [reflexivity|]. destruct o; cbn; rewrite IH; reflexivity. Qed.

  Lemma shaper_ref_app a b : shaper_ref hbfont mk (a ++ b) = shaper_ref hbfont mk a ++ shaper_ref hbfont mk b.
  Proof. induction a as [|o a IH]; [reflexivity|]. destruct o; cbn; rewrite IH; reflexivity. Qed.

  Lemma shaper_sizes_irrelevant_lemma ops ops' :
    filter is_shape ops = filter is_shape ops' ->
    ShaperCache.run hbfont mk (ShaperCache.lru_init hbfont) ops = ShaperCache.run hbfont mk (ShaperCache.lru_init hbfont) ops'.
  Proof.
    intros F. rewrite !shaper_lru_transparent_lemma, (shaper_ref_filter ops), (shaper_ref_filter ops'), F. reflexivity.
  Qed.

  Lemma shape_history_free_lemma pre f :
    exists front, ShaperCache.run hbfont mk (ShaperCache.lru_init hbfont) (pre ++ [ShaperCache.Shape f]) = front ++ [mk f].
  Proof.
    rewrite shaper_lru_transparent_lemma, shaper_ref_app. eexists. reflexivity.
  Qed.
End Indep.
