(* The buffer operations that GSUB / GPOS application uses (Model/Buffer.v `op`, `run_op`) keep `bkeeps` (Proofs/EngineKeep.v:
   on the glyph sequence  output so far ++ unread input  no cluster value is invented and, while a glyph remains, the
   smallest cluster value is kept) under their preconditions `pre` (Spec/Buffer.v).
   Excluded (they do lose or add cluster values): skipGlyph, removeOutput, AddRune, AddRunes, and replaceGlyphs with an
   empty replacement. *)
From TV Require Import Model.Buffer Spec.Buffer Proofs.ShapeGlue Proofs.Buffer Proofs.BufferOps Proofs.BufferNewOps Proofs.BufferAll.
From TV Require Import Model.Engine Proofs.Engine.
From TV Require Import Proofs.EngineKeep Proofs.EngineKeepMerge Proofs.EngineRecompose Proofs.EngineDecompose
                       Proofs.EngineKeepStages Proofs.EngineKeepDecompose Proofs.EngineHide.

Definition op_safe (o : op) : bool :=
  match o with
  | OSkip | OAddRune _ _ _ | OAddRunes _ _ _ _ => false
  | ORemoveOut set => negb set          (* removeOutput(false) only clears the (absent) output *)
  | OReplace _ c g => 1 <=? Z.max (olen c) (olen g)
  | _ => true
  end.

(* ---------- list facts ---------- *)

Lemma lkeeps_dup (a : list Z) x z : lkeeps (a ++ x :: z) (a ++ x :: x :: z).
Proof. apply lkeeps_same_set. intros y. rewrite !in_app_iff. cbn [In]. tauto. Qed.

(* a block of copies of a value that is present is inserted *)
Lemma lkeeps_insert_const (a m z : list Z) c : In c (a ++ z) -> Forall (fun x => x = c) m -> lkeeps (a ++ z) (a ++ m ++ z).
Proof.
  intros Hc F. rewrite Forall_forall in F. apply lkeeps_same_set. intros y. rewrite !in_app_iff in *. split.
  - intros [H|H]; auto.
  - intros [H|[H|H]]; auto. rewrite (F y H). exact Hc.
Qed.

Lemma bkeeps_bseq_eq b b' : cls (bseq b') = cls (bseq b) -> bkeeps b b'.
Proof. intros E. apply lkeeps_eq. exact E. Qed.

(* ---------- the glyph sequence does not change ---------- *)

Lemma next_glyph_keeps b b' : 0 <= idx b -> pre ONext b = true -> next_glyph b = Ok b' -> bkeeps b b'.
Proof.
  intros I0 Hp E. cbn [pre] in Hp. apply Z.ltb_lt in Hp. apply bkeeps_bseq_eq. destruct (have_out b) eqn:Hh.
  - rewrite (next_glyph_bseq b b'); auto.
  - unfold next_glyph in E. rewrite Hh in E. injection E as <-.
    rewrite !bseq_nohave by (cbn; exact Hh). reflexivity.
Qed.

Lemma next_glyphs_keeps b n b' : 0 <= idx b -> pre (ONextN n) b = true -> next_glyphs b n = Ok b' -> bkeeps b b'.
Proof.
  intros I0 Hp E. cbn [pre] in Hp. pre_split Hp. apply Z.leb_le in Hp, Hp0. apply bkeeps_bseq_eq. destruct (have_out b) eqn:Hh.
  - rewrite (next_glyphs_bseq b n b'); auto.
  - unfold next_glyphs in E. rewrite Hh in E. injection E as <-.
    rewrite !bseq_nohave by (cbn; exact Hh). reflexivity.
Qed.

Lemma swap_buffers_keeps b b' : 0 <= idx b -> idx b <= zlen (info b) -> pre OSwap b = true -> swap_buffers b = Ok b' -> bkeeps b b'.
Proof.
  intros I0 I1 Hp E. cbn [pre] in Hp. unfold swap_buffers, next_glyphs in E. rewrite Hp in E.
  destruct (Z.leb_spec 0 (idx b)); [|lia]. destruct (Z.leb_spec 0 (zlen (info b) - idx b)); [|lia].
  destruct (Z.leb_spec (idx b + (zlen (info b) - idx b)) (zlen (info b))); [|lia]. cbn [andb bind] in E. injection E as <-.
  apply bkeeps_bseq_eq. rewrite (bseq_have b Hp). rewrite bseq_nohave by reflexivity.
  cbn [info out idx with_idx with_out]. unfold slice.
  replace (idx b + (zlen (info b) - idx b) - idx b) with (zlen (info b) - idx b) by lia.
  rewrite zfirstn_all; [reflexivity|]. rewrite zlen_zskipn by lia. lia.
Qed.

Lemma clear_output_keeps b b' : pre OClearOut b = true -> clear_output b = Ok b' -> bkeeps b b'.
Proof.
  intros Hp E. cbn [pre] in Hp. apply negb_true_iff in Hp. unfold clear_output in E. injection E as <-.
  apply bkeeps_bseq_eq. rewrite (bseq_nohave b Hp). rewrite bseq_have by reflexivity.
  cbn [info out idx with_idx with_out with_have app]. rewrite zskipn_0. reflexivity.
Qed.

Lemma remove_output_false_keeps b b' : pre (ORemoveOut false) b = true -> remove_output b false = Ok b' -> bkeeps b b'.
Proof.
  intros Hp E. cbn [pre] in Hp. apply negb_true_iff in Hp. unfold remove_output in E. injection E as <-.
  apply bkeeps_bseq_eq. rewrite (bseq_nohave b Hp). rewrite bseq_nohave by reflexivity. reflexivity.
Qed.

(* skipGlyph without output in progress only moves the cursor (with output in progress it drops the glyph: skip_breaks) *)
Lemma skip_glyph_nohave_keeps b b' : have_out b = false -> skip_glyph b = Ok b' -> bkeeps b b'.
Proof.
  intros Hh E. unfold skip_glyph in E. injection E as <-.
  apply bkeeps_bseq_eq. rewrite !bseq_nohave by (cbn; exact Hh). reflexivity.
Qed.

Lemma clear_positions_keeps b b' : pre OClearPos b = true -> clear_positions b = Ok b' -> bkeeps b b'.
Proof.
  intros Hp E. cbn [pre] in Hp. apply negb_true_iff in Hp. unfold clear_positions in E. injection E as <-.
  apply bkeeps_bseq_eq. rewrite (bseq_nohave b Hp). rewrite bseq_nohave by reflexivity. reflexivity.
Qed.

Lemma shift_forward_keeps b n b' : 0 <= idx b -> idx b <= zlen (info b) -> pre (OShiftFwd n) b = true ->
  shift_forward b n = Ok b' -> bkeeps b b'.
Proof.
  intros I0 I1 Hp E. cbn [pre] in Hp. pre_split Hp. apply Z.leb_le in Hp0.
  destruct (shift_forward_spec b n Hp0 I0 I1) as (b1 & E1 & F1 & F2 & F3 & F4 & F5 & F6).
  rewrite (ok_inj _ _ _ E E1). apply bkeeps_bseq_eq. rewrite !bseq_have by congruence. rewrite F2, F5. reflexivity.
Qed.

Lemma move_to_bseq b i : 0 <= idx b -> idx b <= zlen (info b) -> pre (OMoveTo i) b = true ->
  exists b', move_to b i = Ok b' /\ cls (bseq b') = cls (bseq b).
Proof.
  intros I0 I1 Hp. cbn [pre] in Hp. pre_split Hp. apply Z.leb_le in Hp.
  unfold move_to. destruct (have_out b) eqn:Hh; cbn [negb].
  - apply Z.leb_le in Hp0.
    destruct (Z.ltb_spec (zlen (out b)) i) as [Hfwd|Hnf].
    + destruct (Z.leb_spec 0 (idx b)); [|lia]. destruct (Z.leb_spec (idx b + (i - zlen (out b))) (zlen (info b))); [|lia]. cbn [andb].
      eexists. split; [reflexivity|].
      rewrite !bseq_have by (cbn; exact Hh). cbn [idx info out with_idx with_out].
      rewrite <- app_assoc. rewrite <- zskipn_slice by lia. reflexivity.
    + destruct (Z.ltb_spec i (zlen (out b))) as [Hback|Hsame].
      * destruct (Z.ltb_spec i 0); [lia|].
        set (count := zlen (out b) - i).
        assert (B1 : exists b1, (if idx b <? count then shift_forward b (count - idx b) else Ok b) = Ok b1
                  /\ out b1 = out b /\ have_out b1 = have_out b /\ level b1 = level b
                  /\ count <= idx b1 /\ idx b1 <= zlen (info b1) /\ zskipn (idx b1) (info b1) = zskipn (idx b) (info b)).
        { destruct (Z.ltb_spec (idx b) count).
          - destruct (shift_forward_spec b (count - idx b)) as (b1 & E & F1 & F2 & F3 & F4 & F5 & F6); try lia.
            exists b1. repeat split; auto; lia.
          - exists b. repeat split; auto. }
        destruct B1 as (b1 & E1 & F2 & F3 & F4 & C1 & C2 & F5). rewrite E1. cbn [bind].
        destruct (Z.ltb_spec (idx b1) count); [lia|]. destruct (Z.ltb_spec (zlen (info b1)) (idx b1)); [lia|]. cbn [orb].
        eexists. split; [reflexivity|].
        assert (Lf : zlen (zfirstn (idx b1 - count) (info b1)) = idx b1 - count) by (apply zlen_zfirstn; subst count; lia).
        rewrite !bseq_have by (cbn; congruence). cbn [idx info out with_idx with_out with_info].
        rewrite <- Lf at 1. rewrite zskipn_app_exact.
        replace (idx b1 - count + count) with (idx b1) by lia. rewrite F5, F2, app_assoc, zfirstn_zskipn. reflexivity.
      * eexists. split; reflexivity.
  - eexists. split; [reflexivity|]. rewrite !bseq_nohave by (cbn; exact Hh). reflexivity.
Qed.

Lemma move_to_keeps b i b' : 0 <= idx b -> idx b <= zlen (info b) -> pre (OMoveTo i) b = true -> move_to b i = Ok b' -> bkeeps b b'.
Proof.
  intros I0 I1 Hp E. destruct (move_to_bseq b i I0 I1 Hp) as (b1 & E1 & K). rewrite (ok_inj _ _ _ E E1).
  apply bkeeps_bseq_eq. exact K.
Qed.

(* ---------- the cluster values do not change ---------- *)

Lemma propagate_keeps b b' : (level b =? 2) = false -> monotone (cls (bseq b)) = true -> pre OPropagate b = true ->
  propagate_flags b = Ok b' -> bkeeps b b'.
Proof.
  intros Hl Hm Hp E. cbn [pre] in Hp. apply negb_true_iff in Hp. rewrite (bseq_nohave b Hp) in Hm.
  destruct (propagate_flags_uniform b) as (b1 & E1 & Ec & Eo & Ei & Eh & _); [rewrite Hl; reflexivity|exact Hm|].
  rewrite (ok_inj _ _ _ E E1). apply bkeeps_cls_eq; [exact Hp|congruence|exact Ec].
Qed.

Lemma replace_glyph_index_keeps b g b' : 0 <= idx b -> pre (OReplIdx g) b = true -> replace_glyph_index b g = Ok b' -> bkeeps b b'.
Proof.
  intros I0 Hp E. cbn [pre] in Hp. pre_split Hp. apply Z.ltb_lt in Hp0.
  unfold replace_glyph_index in E. rewrite getg_ok in E by lia. cbn [bind] in E. injection E as <-.
  apply bkeeps_bseq_eq. rewrite !bseq_have by (cbn; exact Hp). cbn [idx info out with_idx with_out].
  rewrite <- app_assoc. cbn [app]. rewrite (zskipn_cons (info b) (idx b)) by lia.
  rewrite !cls_app. cbn [cls map cl]. reflexivity.
Qed.

(* ---------- a glyph is duplicated ---------- *)

Lemma copy_glyph_keeps b b' : 0 <= idx b -> pre OCopy b = true -> copy_glyph b = Ok b' -> bkeeps b b'.
Proof.
  intros I0 Hp E. cbn [pre] in Hp. pre_split Hp. apply Z.ltb_lt in Hp0.
  unfold copy_glyph in E. rewrite getg_ok in E by lia. cbn [bind] in E. injection E as <-.
  unfold bkeeps. rewrite !bseq_have by (cbn; exact Hp). cbn [idx info out with_out].
  rewrite <- app_assoc. cbn [app]. rewrite (zskipn_cons (info b) (idx b)) by lia.
  rewrite !cls_app. change (cls (?x :: ?r)) with (cl x :: cls r).
  set (g := nth (Z.to_nat (idx b)) (info b) g0).
  change (cls (g :: g :: zskipn (idx b + 1) (info b))) with (cl g :: cl g :: cls (zskipn (idx b + 1) (info b))).
  change (cls (g :: zskipn (idx b + 1) (info b))) with (cl g :: cls (zskipn (idx b + 1) (info b))).
  apply lkeeps_dup.
Qed.

(* ---------- merges ---------- *)

Lemma merge_op_keeps b s e b' : (level b =? 2) = false -> 0 <= idx b -> idx b <= zlen (info b) -> pre (OMerge s e) b = true ->
  merge_clusters b s e = Ok b' -> bkeeps b b'.
Proof.
  intros Hl I0 I1 Hp E. cbn [pre] in Hp. pre_split Hp. apply Z.leb_le in Hp, Hp2, Hp1.
  apply (merge_clusters_keeps b s e b'); auto.
  intros Hh. rewrite Hh in Hp0. cbn [negb orb] in Hp0. apply Z.leb_le in Hp0. exact Hp0.
Qed.

Lemma merge_out_op_keeps b s e b' : (level b =? 2) = false -> 0 <= idx b -> idx b <= zlen (info b) -> pre (OMergeOut s e) b = true ->
  merge_out_clusters b s e = Ok b' -> bkeeps b b'.
Proof.
  intros Hl I0 I1 Hp E. cbn [pre] in Hp. pre_split Hp. apply Z.leb_le in Hp0, Hp1, Hp2.
  apply (merge_out_clusters_keeps b s e b'); auto.
Qed.

(* ---------- reversals, sort ---------- *)

Lemma reverse_range_op_keeps b s e b' : pre (ORevRange s e) b = true -> reverse_range b s e = Ok b' -> bkeeps b b'.
Proof.
  intros Hp E. cbn [pre] in Hp. pre_split Hp. apply negb_true_iff in Hp. exact (reverse_range_keeps b s e b' E Hp).
Qed.

Lemma reverse_op_keeps b b' : pre OReverse b = true -> reverse b = Ok b' -> bkeeps b b'.
Proof. intros Hp E. cbn [pre] in Hp. apply negb_true_iff in Hp. exact (reverse_whole_keeps b b' E Hp). Qed.

Lemma reverse_clusters_keeps b b' : pre ORevClusters b = true -> reverse_clusters b = Ok b' -> bkeeps b b'.
Proof.
  intros Hp E. cbn [pre] in Hp. apply negb_true_iff in Hp.
  destruct (reverse_clusters_spec b) as (b1 & E1 & Ec & El & _ & Ei & Eh & Elv).
  rewrite (ok_inj _ _ _ E E1). apply bkeeps_info; [exact Hp|congruence|]. rewrite Ec. apply lkeeps_rev.
Qed.

Lemma sort_op_keeps lo hi b s e b' : (level b =? 2) = false -> WF lo hi b = true -> pre (OSort s e) b = true ->
  sort_range cmp_ccc b s e = Ok b' -> bkeeps b b'.
Proof.
  intros Hl Hw Hp E. cbn [pre] in Hp. pre_split Hp. apply negb_true_iff in Hp. apply Z.leb_le in Hp0, Hp1.
  exact (sort_range_keeps lo hi cmp_ccc b s e b' Hl Hw Hp Hp1 Hp0 E).
Qed.

Lemma reverse_graphemes_op_keeps lo hi m b b' : (level b =? 2) = false -> WF lo hi b = true -> pre (ORevGraphemes m) b = true ->
  reverse_graphemes m b = Ok b' -> bkeeps b b'.
Proof.
  intros Hl Hw Hp E. cbn [pre] in Hp. pre_split Hp. apply negb_true_iff in Hp.
  exact (reverse_graphemes_keeps lo hi m b b' Hl Hw Hp Hp0 E).
Qed.

(* ---------- replaceGlyphs with at least one replacement glyph ---------- *)

Lemma replace_glyphs_keeps lo hi b k c g b' : (level b =? 2) = false -> WF lo hi b = true -> pre (OReplace k c g) b = true ->
  1 <= Z.max (olen c) (olen g) -> replace_glyphs b k c g = Ok b' -> bkeeps b b'.
Proof.
  intros Hl Hw Hp HL E. destruct (WF_parts lo hi b Hl Hw) as (I0 & I1 & _).
  cbn [pre] in Hp. pre_split Hp. rename Hp into Hh. apply Z.leb_le in Hp3, Hp2.
  assert (Pm : pre (OMerge (idx b) (idx b + k)) b = true).
  { cbn [pre]. destruct (Z.leb_spec 0 (idx b)); [|lia]. destruct (Z.leb_spec (idx b) (idx b + k)); [|lia].
    destruct (Z.leb_spec (idx b + k) (zlen (info b))); [|lia]. rewrite Z.leb_refl, orb_true_r. reflexivity. }
  destruct (merge_full lo hi b (idx b) (idx b + k) Hl Hw Pm) as (b1 & E1 & W1 & L1 & F1 & F2 & F3 & F4 & _ & _ & FA).
  apply (bkeeps_trans _ b1).
  { apply (merge_clusters_keeps b (idx b) (idx b + k) b1); auto; lia. }
  assert (Hh1 : have_out b1 = true) by congruence.
  unfold replace_glyphs in E. rewrite E1 in E. cbn [bind] in E. rewrite F1, F3 in E.
  set (L := Z.max (olen c) (olen g)) in *.
  assert (Hnew : forall orig, Forall (fun x => x = cl orig)
            (cls (map (fun i => mkGX (cl orig) (gf orig) (rest orig) (oget c (cp orig) i) (oget g (gid orig) i) (up orig) (gp orig)) (seq 0 (Z.to_nat L))))).
  { intros orig. unfold cls. rewrite map_map. cbn [cl]. apply Forall_const_map. }
  assert (Hnn : forall orig,
            cls (map (fun i => mkGX (cl orig) (gf orig) (rest orig) (oget c (cp orig) i) (oget g (gid orig) i) (up orig) (gp orig)) (seq 0 (Z.to_nat L))) <> []).
  { intros orig N. apply (f_equal (@length Z)) in N. unfold cls in N. rewrite !map_length, seq_length in N. cbn [length] in N. lia. }
  destruct (Z.ltb_spec (idx b) (zlen (info b))) as [Hin|Hend].
  - rewrite getg_ok in E by lia. cbn [bind] in E. cbv zeta in E.
    match type of E with (if ?cnd then _ else _) = _ => destruct cnd end; [discriminate|]. injection E as <-.
    set (orig := nth (Z.to_nat (idx b)) (info b1) g0) in *.
    unfold bkeeps. rewrite (bseq_have b1 Hh1). rewrite bseq_have by (cbn; exact Hh1). cbn [idx info out with_idx with_out].
    rewrite F1, <- app_assoc.
    destruct (Z.eq_dec k 0) as [->|Nk].
    + rewrite Z.add_0_r. rewrite !cls_app. apply (lkeeps_insert_const _ _ _ (cl orig)); [|apply Hnew].
      apply in_or_app. right. rewrite (zskipn_cons (info b1) (idx b)) by lia. left. reflexivity.
    + rewrite (zskipn_slice (info b1) (idx b) k) by lia. rewrite !cls_app.
      apply (lkeeps_const_block _ _ _ _ (cl orig)); [| apply Hnn | | apply Hnew].
      * intros N. pose proof (f_equal (@zlen Z) N) as ZZ. rewrite zlen_cls, zlen_slice, zlen_nil in ZZ by lia. lia.
      * apply Forall_forall. intros v Hv. apply in_map_iff in Hv. destruct Hv as (x & <- & Hx).
        rewrite Forall_forall in FA. exact (FA x Hx).
  - assert (idx b = zlen (info b)) by lia. assert (k = 0) by lia. subst k.
    destruct (Z.ltb_spec (idx b) (zlen (info b))) as [|_]; [lia|]. cbn [orb] in Hp1. apply negb_true_iff in Hp1.
    rewrite F4, Hp1 in E. cbn [bind] in E. cbv zeta in E.
    match type of E with (if ?cnd then _ else _) = _ => destruct cnd end; [discriminate|]. injection E as <-.
    set (orig := lastg (out b1)) in *.
    assert (One : out b1 <> []). { intros N. rewrite N, zlen_nil in F4. apply Z.eqb_neq in Hp1. lia. }
    unfold bkeeps. rewrite (bseq_have b1 Hh1). rewrite bseq_have by (cbn; exact Hh1). cbn [idx info out with_idx with_out].
    rewrite F1, Z.add_0_r, zskipn_all by lia. rewrite <- app_assoc, !cls_app.
    apply (lkeeps_insert_const _ _ _ (cl orig)); [|apply Hnew].
    apply in_or_app. left. apply in_cls. unfold orig, lastg. apply last_in. exact One.
Qed.

(* ---------- deleteGlyph ---------- *)

Lemma delete_glyph_sub b b' : (level b =? 2) = false -> have_out b = true -> 0 <= idx b -> idx b < zlen (info b) ->
  delete_glyph b = Ok b' -> lsub (cls (bseq b)) (cls (bseq b')).
Proof.
  intros Hl Hh I0 I1 E. unfold delete_glyph in E. rewrite getg_ok in E by lia. cbn [bind] in E. cbv zeta in E.
  cbn [idx with_out] in E.
  set (g := nth (Z.to_nat (idx b)) (info b) g0) in *. set (c := cl g) in *. set (rest := zskipn (idx b + 1) (info b)).
  assert (Eb : bseq b = out b ++ g :: rest).
  { rewrite bseq_have by exact Hh. rewrite (zskipn_cons (info b) (idx b)) by lia. reflexivity. }
  assert (Skip : forall o', lsub (cls (out b ++ g :: rest)) (cls (o' ++ rest)) ->
            lsub (cls (bseq b)) (cls (bseq (with_idx (with_out b o') (idx b + 1))))).
  { intros o' S. rewrite Eb. rewrite (bseq_have (with_idx _ _)) by (cbn; exact Hh). cbn [idx info out with_idx with_out]. exact S. }
  assert (Plain : lsub (cls (bseq b)) (cls (bseq (with_idx b (idx b + 1))))).
  { rewrite <- (with_out_id b) at 2. apply Skip. intros x. rewrite !cls_app, !in_app_iff.
    change (cls (g :: rest)) with (cl g :: cls rest). cbn [In]. tauto. }
  match type of E with (if ?cnd then _ else _) = _ => destruct cnd end; [injection E as <-; exact Plain|].
  destruct (Z.eqb_spec (zlen (out b)) 0) as [L0|LN]; cbn [negb] in E.
  - destruct (Z.ltb_spec (idx b + 1) (zlen (info b))) as [Hnext|Hlast]; [|injection E as <-; exact Plain].
    destruct (merge_effect2 b (idx b) (idx b + 2) Hl I0 ltac:(lia) I0 ltac:(lia) ltac:(lia) ltac:(intros; lia))
      as (b1 & a & m & z & c' & E1 & _ & _ & _ & _ & X1 & Z1 & _ & Hh1 & _).
    pose proof (merge_clusters_keeps b (idx b) (idx b + 2) b1 Hl I0 ltac:(lia) I0 ltac:(lia) ltac:(lia) ltac:(intros; lia) E1) as [S _].
    rewrite E1 in E. cbn [bind] in E. injection E as <-.
    apply (lsub_trans _ _ _ S). rewrite (bseq_have b1) by congruence. rewrite (bseq_have (with_idx _ _)) by (cbn; congruence).
    cbn [idx info out with_idx]. intros x. rewrite !cls_app, !in_app_iff. intros [H|H]; [left; exact H|right].
    rewrite (zskipn_cons (info b1) (idx b1)) by lia. right. exact H.
  - destruct (Z.ltb_spec c (cl (lastg (out b)))) as [Hlt|Hge]; [|injection E as <-; exact Plain].
    destruct (set_cluster_last_run c (gf g) (out b) (cl (lastg (out b)))) as (o1 & o2 & EO & LO & FO & VO).
    rewrite VO in E. injection E as <-. apply Skip.
    intros x. rewrite EO, <- !app_assoc, !cls_app, cls_set_cluster, !in_app_iff.
    change (cls (g :: rest)) with (cl g :: cls rest). cbn [In].
    intros [H|[H|H]]; [left; exact H| |right; right; right; exact H].
    apply in_map_const in H. subst x. right. right. left. reflexivity.
Qed.

Lemma delete_glyph_keeps b b' : (level b =? 2) = false -> 0 <= idx b -> pre ODelete b = true -> delete_glyph b = Ok b' -> bkeeps b b'.
Proof.
  intros Hl I0 Hp E. cbn [pre] in Hp. pre_split Hp. apply Z.ltb_lt in Hp0.
  split; [exact (delete_glyph_sub b b' Hl Hp I0 Hp0 E)|].
  destruct (delete_keeps_min_lemma b Hl Hp I0 Hp0) as (b1 & E1 & _ & _ & M). rewrite (ok_inj _ _ _ E E1). exact M.
Qed.

(* ---------- deleteGlyphsInplace: the invariant `oinv` of Proofs/EngineHide.v on the loop without the flag ORs ---------- *)

Lemma dgi_step_keep l0 n lv filt b j i : (lv =? 2) = false -> oinv l0 n lv (b, j) i -> 0 <= i -> i < n ->
  exists st', dgi_step filt n (Ok (b, j)) i = Ok st' /\ oinv l0 n lv st' (i + 1).
Proof.
  intros Hlv (Ln & Hh & Hi & Elv & J0 & J1 & S0 & M0) I0 I1.
  unfold dgi_step. cbn [bind]. set (inf := info b) in *. set (g := nth (Z.to_nat i) inf g0).
  assert (EV : zfirstn j inf ++ zskipn i inf = zfirstn j inf ++ g :: zskipn (i + 1) inf).
  { rewrite (zskipn_cons inf i) by lia. reflexivity. }
  rewrite EV in S0, M0.
  assert (Hne : cls (zfirstn j inf ++ g :: zskipn (i + 1) inf) <> []).
  { rewrite cls_app. intros N. apply app_eq_nil in N. destruct N as [_ N]. discriminate N. }
  pose proof (M0 Hne) as HM0. clear M0.
  pose proof (lmin_in _ Hne) as HMin.
  assert (Mle : forall x, In x (cls (zfirstn j inf ++ g :: zskipn (i + 1) inf)) ->
                  lmin (cls (zfirstn j inf ++ g :: zskipn (i + 1) inf)) <= x) by (intros; apply lmin_le; assumption).
  remember (lmin (cls (zfirstn j inf ++ g :: zskipn (i + 1) inf))) as M eqn:EM.
  assert (Hg_old : In (cl g) (cls (zfirstn j inf ++ g :: zskipn (i + 1) inf))).
  { apply in_cls_app. right. left. reflexivity. }
  assert (Done : forall b' j', zlen (info b') = n -> have_out b' = false -> idx b' = 0 -> level b' = lv -> 0 <= j' -> j' <= i + 1 ->
            ss (cls (zfirstn j inf ++ g :: zskipn (i + 1) inf)) (cls (zfirstn j' (info b') ++ zskipn (i + 1) (info b'))) ->
            (cls (zfirstn j' (info b') ++ zskipn (i + 1) (info b')) <> [] -> In M (cls (zfirstn j' (info b') ++ zskipn (i + 1) (info b')))) ->
            exists st', Ok (b', j') = Ok st' /\ oinv l0 n lv st' (i + 1)).
  { intros b' j' A1 A2 A3 A4 A5 A6 S HinM. exists (b', j'). split; [reflexivity|]. unfold oinv.
    refine (conj A1 (conj A2 (conj A3 (conj A4 (conj A5 (conj A6 (conj _ _))))))).
    - exact (ss_trans _ _ S0 _ S).
    - intros Hn'. rewrite <- HM0, EM. apply lmin_transfer; [exact (ss_in _ _ S)|rewrite <- EM; exact (HinM Hn')]. }
  assert (Same : forall b' j', zlen (info b') = n -> have_out b' = false -> idx b' = 0 -> level b' = lv -> 0 <= j' -> j' <= i + 1 ->
            cls (zfirstn j' (info b') ++ zskipn (i + 1) (info b')) = cls (zfirstn j inf ++ g :: zskipn (i + 1) inf) ->
            exists st', Ok (b', j') = Ok st' /\ oinv l0 n lv st' (i + 1)).
  { intros b' j' A1 A2 A3 A4 A5 A6 E. apply Done; auto; rewrite E; [apply ss_refl|intros _; exact HMin]. }
  (* the glyph is dropped; its cluster value survives if it is the minimum *)
  assert (DropC : (cls (zfirstn j inf ++ zskipn (i + 1) inf) <> [] -> M = cl g -> In (cl g) (cls (zfirstn j inf ++ zskipn (i + 1) inf))) ->
            exists st', Ok (b, j) = Ok st' /\ oinv l0 n lv st' (i + 1)).
  { intros HK. apply Done; auto; try lia; fold inf.
    - rewrite !cls_app. change (cls (g :: zskipn (i + 1) inf)) with ([cl g] ++ cls (zskipn (i + 1) inf)).
      apply ss_remove.
    - intros Hn'.
      destruct (Z.eq_dec M (cl g)) as [EMg|NM]; [rewrite EMg; apply HK; auto|].
      apply in_cls_app in HMin. apply in_cls_app. destruct HMin as [H|H]; [left; exact H|].
      destruct H as [H|H]; [congruence|right; exact H]. }
  assert (Hpj : 0 < j -> In (cl (nth (Z.to_nat (j - 1)) inf g0)) (cls (zfirstn j inf))).
  { intros Hj. rewrite (zfirstn_snoc inf j) by lia. apply in_cls_app. right. left. reflexivity. }
  destruct (filt g).
  - destruct ((i + 1 <? n) && (cl g =? cl (nth (Z.to_nat (i + 1)) inf g0))) eqn:Hnx.
    { apply andb_prop in Hnx. destruct Hnx as [Hn1 Hn2]. apply Z.ltb_lt in Hn1. apply Z.eqb_eq in Hn2.
      apply DropC.
      intros _ _. apply in_cls_app. right. rewrite (zskipn_cons inf (i + 1)) by lia. left. symmetry. exact Hn2. }
    destruct (Z.eqb_spec j 0) as [J00|JN]; cbn [negb].
    + destruct (Z.ltb_spec (i + 1) n) as [Hnext|Hlast].
      2:{ apply DropC. intros Hn'. exfalso. apply Hn'. rewrite zfirstn_neg, zskipn_all by lia. reflexivity. }
      assert (Hlb : (level b =? 2) = false) by (rewrite Elv; exact Hlv). assert (Ln2 : zlen (info b) = n) by exact Ln.
      destruct (merge_clusters_view b i (i + 2) Hlb) as (s' & e' & k & c & A1 & A2 & A3 & A4 & A5 & A6 & A7 & A8 & A9 & A10 & A11 & E); try lia.
      rewrite E. cbn [bind]. fold inf in A5, A9, A10, A11, E |- *.
      subst j.
      assert (EO : cls (zfirstn 0 inf ++ g :: zskipn (i + 1) inf) = cls (slice i e' inf) ++ cls (zskipn e' inf)).
      { rewrite zfirstn_neg by lia. cbn [app]. unfold g. rewrite <- (zskipn_cons inf i) by lia.
        rewrite (zskipn_slice inf i (e' - i)) by lia. replace (i + (e' - i)) with e' by lia. apply cls_app. }
      assert (EN : cls (zfirstn 0 (map_range (set_cluster c fl0) s' e' inf) ++ zskipn (i + 1) (map_range (set_cluster c fl0) s' e' inf))
                   = map (fun _ => c) (slice (i + 1) e' inf) ++ cls (zskipn e' inf)).
      { rewrite zfirstn_neg by lia. cbn [app]. rewrite zskipn_map_range by lia. rewrite cls_app, cls_set_cluster. reflexivity. }
      assert (Hc_in : In c (cls (slice i e' inf))).
      { unfold cls in *. apply in_map_iff in A9. destruct A9 as (x & Ex & Hx). apply in_map_iff. exists x. split; [exact Ex|].
        apply (slice_incl inf i i (i + 2) e'); auto; lia. }
      apply Done; cbn [info have_out idx level with_info with_out]; auto; try lia.
      * rewrite zlen_map_range by lia. exact Ln.
      * rewrite EN, EO. rewrite (slice_cons g0 i e' inf) by lia.
        rewrite (slice_cons g0 i e' inf) in Hc_in by lia.
        change (cls (nth (Z.to_nat i) inf g0 :: slice (i + 1) e' inf)) with ([cl (nth (Z.to_nat i) inf g0)] ++ cls (slice (i + 1) e' inf)) in *.
        rewrite <- (app_nil_l (([_] ++ _) ++ _)). rewrite <- (app_nil_l (map _ _ ++ _)).
        apply (ss_block _ _ _ _ c); [exact Hc_in|].
        apply Forall_const_map.
      * rewrite EN. intros _. rewrite EO in HMin, Mle. apply in_app_or in HMin. apply in_or_app.
        destruct HMin as [H|H]; [left|right; exact H].
        assert (M = c).
        { assert (c <= M).
          { rewrite Forall_forall in A11. apply A11. unfold cls in *. apply in_map_iff in H. destruct H as (x & Ex & Hx).
            apply in_map_iff. exists x. split; [exact Ex|]. apply (slice_incl inf s' i e' e'); auto; lia. }
          pose proof (Mle c ltac:(apply in_or_app; left; exact Hc_in)). lia. }
        subst c. apply in_map_const_intro. intros N. assert (Z1 : zlen (slice (i + 1) e' inf) = e' - (i + 1)) by (apply zlen_slice; lia). rewrite N, zlen_nil in Z1. lia.
    + set (pj := nth (Z.to_nat (j - 1)) inf g0).
      assert (Hpj' : In (cl pj) (cls (zfirstn j inf))) by (apply Hpj; lia).
      destruct (Z.ltb_spec (cl g) (cl pj)).
      2:{ apply DropC. intros _ EMg.
          pose proof (Mle (cl pj) ltac:(apply in_cls_app; left; exact Hpj')).
          assert (Ecp : cl g = cl pj) by lia.
          apply in_cls_app. left. rewrite Ecp. exact Hpj'. }
      set (oldC := cl pj).
      assert (Kpos : 0 < run_eq oldC (rev (zfirstn j inf))).
      { rewrite (zfirstn_snoc inf j) by lia. rewrite rev_app_distr. cbn [rev app run_eq]. fold pj. unfold oldC. rewrite Z.eqb_refl.
        pose proof (run_eq_bound (cl pj) (rev (zfirstn (j - 1) inf))). lia. }
      pose proof (run_eq_bound oldC (rev (zfirstn j inf))) as Bk. rewrite zlen_rev, zlen_zfirstn in Bk by lia.
      set (k := run_eq oldC (rev (zfirstn j inf))) in *.
      destruct (map_range_view (set_cluster (cl g) (gf g)) (j - k) j inf) as (l1 & l2 & l3 & EI & L1 & L2 & _ & V); try lia.
      assert (L12 : zlen (l1 ++ l2) = j) by (rewrite zlen_app; lia).
      assert (L12' : zlen (l1 ++ map (set_cluster (cl g) (gf g)) l2) = j) by (rewrite zlen_app, zlen_map; lia).
      assert (F1 : zfirstn j ((l1 ++ l2) ++ l3) = l1 ++ l2) by (rewrite <- L12; apply zfirstn_app_exact).
      assert (F2 : zfirstn j ((l1 ++ map (set_cluster (cl g) (gf g)) l2) ++ l3) = l1 ++ map (set_cluster (cl g) (gf g)) l2)
        by (rewrite <- L12'; apply zfirstn_app_exact).
      assert (F1' : zfirstn j inf = l1 ++ l2) by (rewrite EI, app_assoc; exact F1).
      assert (FA : Forall (fun x => cl x = oldC) l2).
      { assert (FAr : Forall (fun x => cl x = oldC) (rev l2)).
        { apply (run_eq_app_all oldC (rev l2) (rev l1)). rewrite zlen_rev, <- rev_app_distr, <- F1'. change (zlen l2 <= k). lia. }
        rewrite Forall_forall in *. intros x Hx. apply FAr. apply in_rev in Hx. exact Hx. }
      assert (EO : cls (zfirstn j inf ++ g :: zskipn (i + 1) inf) = cls l1 ++ cls l2 ++ [cl g] ++ cls (zskipn (i + 1 - j) l3)).
      { rewrite F1'. rewrite EI at 1. rewrite (app_assoc l1 l2 l3). rewrite zskipn_app_ge by lia. rewrite L12.
        rewrite <- !app_assoc, !cls_app. reflexivity. }
      assert (EN : cls (zfirstn j (map_range (set_cluster (cl g) (gf g)) (j - k) j inf) ++ zskipn (i + 1) (map_range (set_cluster (cl g) (gf g)) (j - k) j inf))
                   = cls l1 ++ map (fun _ => cl g) l2 ++ cls (zskipn (i + 1 - j) l3)).
      { rewrite V. rewrite (app_assoc l1 (map _ l2) l3). rewrite F2. rewrite zskipn_app_ge by lia. rewrite L12'.
        rewrite <- !app_assoc, !cls_app, cls_set_cluster. reflexivity. }
      apply Done; cbn [info have_out idx level with_info]; auto; try lia.
      -- rewrite zlen_map_range by lia. exact Ln.
      -- rewrite EN, EO. rewrite (app_assoc (cls l2)).
         apply (ss_block _ _ _ _ (cl g)); [apply in_or_app; right; left; reflexivity|apply Forall_const_map].
      -- rewrite EN. intros _. rewrite EO in HMin, Mle.
         pose proof (Mle (cl g) ltac:(apply in_or_app; right; apply in_or_app; right; left; reflexivity)) as Mg.
         apply in_app_or in HMin. destruct HMin as [HM1|HM1]; [apply in_or_app; left; exact HM1|].
         apply in_app_or in HM1. destruct HM1 as [HM2|HM2].
         ++ exfalso. unfold cls in HM2. apply in_map_iff in HM2. destruct HM2 as (x & Ex & Hx).
            rewrite Forall_forall in FA. rewrite (FA x Hx) in Ex. unfold oldC in Ex. lia.
         ++ apply in_or_app. right. apply in_or_app. destruct HM2 as [HM3|HM3]; [left|right; exact HM3].
            rewrite <- HM3. apply in_map_const_intro. intros N. rewrite N, zlen_nil in L2. lia.
  - destruct (Z.eqb_spec j i) as [Eji|Nji].
    + apply Same; auto; try lia. fold inf. subst j. rewrite <- EV, !zfirstn_zskipn. reflexivity.
    + assert (Lf : zlen (zfirstn j inf ++ [g]) = j + 1) by (rewrite zlen_app, zlen_zfirstn, zlen_cons, zlen_nil; lia).
      apply Same; cbn [info have_out idx level with_info]; auto; try lia.
      { rewrite !zlen_app, zlen_zfirstn, zlen_zskipn, zlen_cons, zlen_nil by lia. lia. }
      rewrite (app_assoc (zfirstn j inf) [g]).
      rewrite <- Lf at 1. rewrite zfirstn_app_exact. rewrite zskipn_app_ge by lia. rewrite Lf.
      rewrite zskipn_zskipn by lia. replace (j + 1 + (i + 1 - (j + 1))) with (i + 1) by lia.
      rewrite <- app_assoc. reflexivity.
Qed.

Lemma dgi_fold_keep l0 n lv filt : (lv =? 2) = false -> forall k a st, oinv l0 n lv st (Z.of_nat a) -> Z.of_nat a + Z.of_nat k <= n ->
  exists st', fold_left (dgi_step filt n) (map Z.of_nat (seq a k)) (Ok st) = Ok st' /\ oinv l0 n lv st' (Z.of_nat a + Z.of_nat k).
Proof.
  intros Hlv. induction k as [|k IH]; intros a st Inv Hb.
  - exists st. split; [reflexivity|]. rewrite Z.add_0_r. exact Inv.
  - cbn [seq map fold_left]. destruct st as [b j].
    destruct (dgi_step_keep l0 n lv filt b j (Z.of_nat a) Hlv Inv) as (st1 & E1 & Inv1); try lia.
    rewrite E1. replace (Z.of_nat a + 1) with (Z.of_nat (S a)) in Inv1 by lia.
    destruct (IH (S a) st1 Inv1) as (st' & E & Inv'); [lia|].
    exists st'. split; [exact E|]. replace (Z.of_nat a + Z.of_nat (S k)) with (Z.of_nat (S a) + Z.of_nat k) by lia. exact Inv'.
Qed.

(* for EVERY buffer without output in progress (no WF needed) *)
Lemma delete_glyphs_inplace_core filt b : (level b =? 2) = false -> have_out b = false -> idx b = 0 ->
  exists b', delete_glyphs_inplace filt b = Ok b' /\ level b' = level b /\ have_out b' = false /\ idx b' = 0
    /\ zlen (info b') <= zlen (info b)
    /\ ss (cls (info b)) (cls (info b'))
    /\ (info b' <> [] -> lmin (cls (info b')) = lmin (cls (info b))).
Proof.
  intros Hl Hh Hi.
  unfold delete_glyphs_inplace. set (n := zlen (info b)). pose proof (zlen_nonneg (info b)) as Hn. fold n in Hn.
  destruct (dgi_fold_keep (cls (info b)) n (level b) filt Hl (Z.to_nat n) 0%nat (b, 0)) as ([b' j] & E & Inv); try lia.
  { unfold oinv. rewrite zfirstn_neg, zskipn_0 by lia. cbn [app]. repeat split; auto; try lia. apply ss_refl. }
  unfold zseq. rewrite E. cbn [bind].
  destruct Inv as (Ln & Hh' & Hi' & Elv & J0 & J1 & S & HM).
  replace (Z.of_nat 0 + Z.of_nat (Z.to_nat n)) with n in * by lia.
  rewrite zskipn_all, app_nil_r in S, HM by lia.
  eexists. split; [reflexivity|]. cbn [level idx info have_out with_pos with_info].
  split; [exact Elv|]. split; [exact Hh'|]. split; [exact Hi'|].
  split; [rewrite zlen_zfirstn by lia; lia|]. split; [exact S|].
  intros Hne. apply HM. intros N. apply Hne. unfold cls in N. apply map_eq_nil in N. exact N.
Qed.

Lemma delete_glyphs_inplace_keeps filt b b' : (level b =? 2) = false -> negb (have_out b) && (idx b =? 0) = true ->
  delete_glyphs_inplace filt b = Ok b' -> bkeeps b b'.
Proof.
  intros Hl Hp E. apply andb_prop in Hp. destruct Hp as [Hh Hi]. apply negb_true_iff in Hh. apply Z.eqb_eq in Hi.
  destruct (delete_glyphs_inplace_core filt b Hl Hh Hi) as (b1 & E1 & _ & Hh1 & _ & _ & S & M).
  rewrite (ok_inj _ _ _ E E1). apply bkeeps_info; [exact Hh|exact Hh1|].
  apply lkeeps_ss; [exact S|]. intros N. apply M. intros N'. apply N. rewrite N'. reflexivity.
Qed.

(* ---------- every safe operation, every sequence of safe operations ---------- *)

Lemma op_keeps lo hi o b b' : (level b =? 2) = false -> WF lo hi b = true -> pre o b = true -> op_safe o = true ->
  run_op o b = Ok b' -> bkeeps b b'.
Proof.
  intros Hl Hw Hp Hs E. destruct (WF_parts lo hi b Hl Hw) as (I0 & I1 & Hm & _).
  pose proof (flag_ops_same_cl o b Hl I0 I1 Hp) as FS.
  destruct o; cbn [op_safe] in Hs; try discriminate Hs; cbn [run_op] in E, FS;
    try (destruct FS as (b1 & E1 & S1); rewrite (ok_inj _ _ _ E E1); apply same_cl_keeps; exact S1).
  - exact (next_glyph_keeps b b' I0 Hp E).
  - exact (next_glyphs_keeps b n b' I0 Hp E).
  - exact (copy_glyph_keeps b b' I0 Hp E).
  - exact (replace_glyph_index_keeps b g b' I0 Hp E).
  - apply Z.leb_le in Hs. exact (replace_glyphs_keeps lo hi b numIn cps gids b' Hl Hw Hp Hs E).
  - exact (delete_glyph_keeps b b' Hl I0 Hp E).
  - exact (delete_glyphs_inplace_keeps _ b b' Hl Hp E).
  - exact (merge_op_keeps b s e b' Hl I0 I1 Hp E).
  - exact (merge_out_op_keeps b s e b' Hl I0 I1 Hp E).
  - exact (move_to_keeps b i b' I0 I1 Hp E).
  - exact (shift_forward_keeps b n b' I0 I1 Hp E).
  - exact (swap_buffers_keeps b b' I0 I1 Hp E).
  - exact (clear_output_keeps b b' Hp E).
  - destruct set; [discriminate Hs|]. exact (remove_output_false_keeps b b' Hp E).
  - exact (clear_positions_keeps b b' Hp E).
  - exact (reverse_range_op_keeps b s e b' Hp E).
  - exact (reverse_op_keeps b b' Hp E).
  - exact (reverse_clusters_keeps b b' Hp E).
  - exact (propagate_keeps b b' Hl Hm Hp E).
  - exact (sort_op_keeps lo hi b s e b' Hl Hw Hp E).
  - exact (reverse_graphemes_op_keeps lo hi merge b b' Hl Hw Hp E).
Qed.

(* a safe operation brings no cluster value in *)
Lemma op_safe_rng lo hi o : op_safe o = true -> op_rng lo hi o = true.
Proof. destruct o; cbn [op_safe op_rng]; intros H; try reflexivity; discriminate H. Qed.

Lemma run_ops_keeps lo hi : forall os b b', (level b =? 2) = false -> WF lo hi b = true -> pres_hold os b -> ops_rng lo hi os ->
  Forall (fun o => op_safe o = true) os -> run_ops os b = Ok b' -> bkeeps b b'.
Proof.
  induction os as [|o r IH]; intros b b' Hl Hw Hp Hr Hs E.
  - unfold run_ops in E. cbn [fold_left] in E. injection E as <-. apply bkeeps_refl.
  - destruct Hp as [Hpo Hpr]. inversion Hr as [|? ? Hro Hrr]; subst. inversion Hs as [|? ? Hso Hsr]; subst.
    destruct (op_step lo hi o b Hl Hw Hpo Hro) as (b1 & E1 & W1 & L1).
    rewrite (run_ops_cons o r b b1 E1) in E.
    apply (bkeeps_trans _ b1); [exact (op_keeps lo hi o b b1 Hl Hw Hpo Hso E1)|].
    exact (IH b1 b' L1 W1 (Hpr b1 E1) Hrr Hsr E).
Qed.

(* the hypothesis ops_rng is implied by safety: the same statement without it, with the result buffer and its invariant *)
Lemma run_ops_safe_keeps lo hi os b : (level b =? 2) = false -> WF lo hi b = true -> pres_hold os b ->
  Forall (fun o => op_safe o = true) os ->
  exists b', run_ops os b = Ok b' /\ WF lo hi b' = true /\ bkeeps b b'.
Proof.
  intros Hl Hw Hp Hs.
  assert (Hr : ops_rng lo hi os).
  { unfold ops_rng. rewrite Forall_forall in *. intros o Ho. apply op_safe_rng. exact (Hs o Ho). }
  destruct (buffer_ops_preserve_wf_lemma lo hi os b Hl Hw Hp Hr) as (b' & E & W).
  exists b'. split; [exact E|]. split; [exact W|]. exact (run_ops_keeps lo hi os b b' Hl Hw Hp Hr Hs E).
Qed.

(* ---------- the excluded operations do break the relation (under their preconditions, on WF buffers) ---------- *)

Definition gl (c : Z) : glyph := mkG c fl0 0 0 0.
Definition bx (i o : list glyph) (x : Z) (h : bool) : buffer := mkB i o x h 0 0 0 false false false.

(* does l' keep l: every value of l' occurs in l and, when l' is not empty, lmin l' = lmin l *)
Definition lkeeps_b (l l' : list Z) : bool :=
  forallb (fun x => existsb (Z.eqb x) l) l' && match l' with [] => true | _ => lmin l' =? lmin l end.
Lemma lkeeps_b_complete l l' : lkeeps l l' -> lkeeps_b l l' = true.
Proof.
  intros [S M]. unfold lkeeps_b. apply andb_true_intro. split.
  - apply forallb_forall. intros x Hx. apply existsb_exists. exists x. split; [exact (S x Hx)|apply Z.eqb_refl].
  - destruct l' as [|y r]; [reflexivity|]. apply Z.eqb_eq. apply M. discriminate.
Qed.
Definition bkeeps_b (b : buffer) (r : res buffer) : bool :=
  match r with Ok b' => lkeeps_b (cls (bseq b)) (cls (bseq b')) | _ => true end.
Lemma not_bkeeps b b' : bkeeps_b b (Ok b') = false -> ~ bkeeps b b'.
Proof. intros H K. apply lkeeps_b_complete in K. unfold bkeeps_b in H. rewrite K in H. discriminate H. Qed.

(* skipGlyph drops the current glyph: the smallest cluster 0 is lost *)
Example skip_breaks : let b := bx [gl 0; gl 1] [] 0 true in
  WF 0 10 b && pre OSkip b && negb (bkeeps_b b (run_op OSkip b)) = true.
Proof. vm_compute. reflexivity. Qed.
(* removeOutput(true) drops the consumed prefix *)
Example remove_out_breaks : let b := bx [gl 0; gl 1] [] 1 false in
  WF 0 10 b && pre (ORemoveOut true) b && negb (bkeeps_b b (run_op (ORemoveOut true) b)) = true.
Proof. vm_compute. reflexivity. Qed.
(* AddRune invents a value *)
Example add_rune_breaks : let b := bx [gl 0] [] 0 false in
  WF 0 10 b && pre (OAddRune 65 1 1) b && op_rng 0 10 (OAddRune 65 1 1) && negb (bkeeps_b b (run_op (OAddRune 65 1 1) b)) = true.
Proof. vm_compute. reflexivity. Qed.
Example add_runes_breaks : let b := bx [gl 0] [] 0 false in let o := OAddRunes [65; 66; 67] 1 1 1 in
  WF 0 10 b && pre o b && op_rng 0 10 o && negb (bkeeps_b b (run_op o b)) = true.
Proof. vm_compute. reflexivity. Qed.
(* replaceGlyphs(1, nil, nil): the current glyph is dropped without merging its cluster anywhere *)
Example replace_empty_breaks : let b := bx [gl 0; gl 1] [] 0 true in let o := OReplace 1 None None in
  WF 0 10 b && pre o b && negb (op_safe o) && negb (bkeeps_b b (run_op o b)) = true.
Proof. vm_compute. reflexivity. Qed.
Example replace_empty_breaks' : let b := bx [gl 0; gl 1] [] 0 true in let o := OReplace 1 (Some []) (Some []) in
  WF 0 10 b && pre o b && negb (op_safe o) && negb (bkeeps_b b (run_op o b)) = true.
Proof. vm_compute. reflexivity. Qed.

Print Assumptions op_keeps.
Print Assumptions run_ops_keeps.
Print Assumptions run_ops_safe_keeps.
