(* Lemmas for C07 (itemization). *)
From TV Require Import Model.Itemize Spec.Itemize.
Open Scope Z_scope.

(* ---- generic facts ------------------------------------------------------------------------ *)
Lemma bind_ok {A B} (r : res A) (f : A -> res B) b : bind r f = Ok b -> exists a, r = Ok a /\ f a = Ok b.
Proof. destruct r; cbn; try discriminate. eauto. Qed.

Ltac inv_ok :=
  repeat match goal with
  | H : bind _ _ = Ok _ |- _ => apply bind_ok in H; destruct H as (? & ? & H)
  | H : Ok _ = Ok _ |- _ => injection H as H; try subst
  end.

Lemma in_zrange a b i : In i (zrange a b) <-> a <= i < b.
Proof.
  unfold zrange. rewrite in_map_iff. split.
  - intros (k & <- & Hk). apply in_seq in Hk. lia.
  - intros H. exists (Z.to_nat (i - a)). split; [lia|]. apply in_seq. lia.
Qed.

Lemma all_pos_true r p : all_pos r p = true <-> forall i, i_start r <= i < i_end r -> p i = true.
Proof.
  unfold all_pos. rewrite forallb_forall. split; intros H i Hi; apply H; apply in_zrange; auto.
Qed.

(* ---- chains ------------------------------------------------------------------------------- *)
Fixpoint chain (a b : Z) (l : list input) : Prop :=
  match l with
  | [] => a = b
  | r :: l' => i_start r = a /\ a < i_end r /\ chain (i_end r) b l'
  end.

Lemma chainb_iff a b l : chainb a b l = true <-> chain a b l.
Proof.
  revert a; induction l as [|r l IH]; intros a; cbn.
  - apply Z.eqb_eq.
  - rewrite !andb_true_iff, Z.eqb_eq, Z.ltb_lt, IH. tauto.
Qed.

Lemma chain_app a b c l1 l2 : chain a b l1 -> chain b c l2 -> chain a c (l1 ++ l2).
Proof.
  revert a; induction l1 as [|r l IH]; intros a; cbn.
  - intros ->. auto.
  - intros (H1 & H2 & H3) H4. repeat split; auto.
Qed.

Lemma chain_le a b l : chain a b l -> a <= b.
Proof.
  revert a; induction l as [|r l IH]; intros a; cbn; [lia|].
  intros (H1 & H2 & H3). apply IH in H3. lia.
Qed.

Lemma chain_in a b l r : chain a b l -> In r l -> a <= i_start r /\ i_start r < i_end r /\ i_end r <= b.
Proof.
  revert a; induction l as [|r0 l IH]; intros a; cbn; [tauto|].
  intros (H1 & H2 & H3) [->|Hin].
  - apply chain_le in H3. lia.
  - destruct (IH _ H3 Hin). lia.
Qed.

Lemma chain_snoc a b l r : chain a b l -> i_start r = b -> b < i_end r -> chain a (i_end r) (l ++ [r]).
Proof. intros. eapply chain_app; eauto. cbn. auto. Qed.

(* a position of a chain lies in exactly one run, which run_at finds *)
Lemma run_at_chain a b l r pos : chain a b l -> In r l -> i_start r <= pos < i_end r -> run_at l pos = Some r.
Proof.
  unfold run_at. revert a; induction l as [|r0 l IH]; intros a; cbn; [tauto|].
  intros (H1 & H2 & H3) [->|Hin] Hp.
  - replace ((i_start r <=? pos) && (pos <? i_end r)) with true; auto.
    symmetry. apply andb_true_iff. split; [apply Z.leb_le|apply Z.ltb_lt]; lia.
  - destruct (chain_in _ _ _ _ H3 Hin) as (Ha & _).
    replace ((i_start r0 <=? pos) && (pos <? i_end r0)) with false; [eauto|].
    symmetry. apply andb_false_iff. right. apply Z.ltb_ge. lia.
Qed.

Lemma chain_cover a b l pos : chain a b l -> a <= pos < b -> exists r, In r l /\ i_start r <= pos < i_end r.
Proof.
  revert a; induction l as [|r0 l IH]; intros a; cbn; [lia|].
  intros (H1 & H2 & H3) Hp.
  destruct (Z_lt_dec pos (i_end r0)).
  - exists r0. split; auto. lia.
  - destruct (IH _ H3) as (r & Hin & Hr); [lia|]. exists r. auto.
Qed.

(* ---- stages: every input run is replaced by a list of runs ------------------------------------ *)
Definition stage_rel (Q : input -> list input -> Prop) (ins outs : list input) : Prop :=
  exists parts, Forall2 Q ins parts /\ outs = concat parts.

Lemma stage_rel_in (Q : input -> list input -> Prop) ins outs r : stage_rel Q ins outs -> In r outs -> exists x part, In x ins /\ Q x part /\ In r part.
Proof.
  intros (parts & HF & ->) Hin. apply in_concat in Hin. destruct Hin as (part & Hp & Hr).
  induction HF; cbn in *; [tauto|]. destruct Hp as [->|Hp].
  - eauto 6.
  - destruct (IHHF Hp) as (x0 & p0 & ? & ? & ?). eauto 7.
Qed.

Lemma stage_rel_part (Q : input -> list input -> Prop) ins outs x : stage_rel Q ins outs -> In x ins -> exists part, Q x part /\ incl part outs.
Proof.
  intros (parts & HF & ->) Hin. induction HF; cbn in *; [tauto|]. destruct Hin as [->|Hin].
  - exists y. split; auto. apply incl_appl, incl_refl.
  - destruct (IHHF Hin) as (p & ? & ?). exists p. split; auto. apply incl_appr; auto.
Qed.

Lemma stage_rel_chain (Q : input -> list input -> Prop) ins outs a b :
  (forall x part, Q x part -> chain (i_start x) (i_end x) part) ->
  stage_rel Q ins outs -> chain a b ins -> chain a b outs.
Proof.
  intros HQ (parts & HF & ->). revert a. induction HF; intros a; cbn; auto.
  intros (H1 & H2 & H3). eapply chain_app; [|eauto]. rewrite <- H1. auto.
Qed.

Lemma stage_rel_weaken (Q Q' : input -> list input -> Prop) ins outs :
  (forall x p, In x ins -> Q x p -> Q' x p) -> stage_rel Q ins outs -> stage_rel Q' ins outs.
Proof.
  intros HW (parts & HF & ->). exists parts. split; auto.
  induction HF; constructor; auto.
  - apply HW; cbn; auto.
  - apply IHHF. intros. apply HW; cbn; auto.
Qed.

(* `pass` with a state invariant *)
Lemma pass_rel {St} (f : St -> input -> res (St * list input)) (P : St -> Prop) (Q : input -> list input -> Prop) :
  (forall st x st' o, P st -> f st x = Ok (st', o) -> P st' /\ Q x o) ->
  forall ins st st' outs, P st -> pass f st ins = Ok (st', outs) -> P st' /\ stage_rel Q ins outs.
Proof.
  intros Hf. induction ins as [|x r IH]; intros st st' outs HP H; cbn in H.
  - injection H as <- <-. split; auto. exists []. split; auto.
  - destruct (f st x) as [[st1 o1]| | |] eqn:E1; cbn in H; try discriminate.
    destruct (pass f st1 r) as [[st2 o2]| | |] eqn:E2; cbn in H; try discriminate.
    injection H as <- <-.
    destruct (Hf _ _ _ _ HP E1) as (HP1 & HQ).
    destruct (IH _ _ _ HP1 E2) as (HP2 & parts & HF & ->).
    split; auto. exists (o1 :: parts). split; auto.
Qed.

(* `pass` is total when the function is *)
Lemma pass_total {St} (f : St -> input -> res (St * list input)) (G : input -> Prop) :
  (forall st x, G x -> exists r, f st x = Ok r) ->
  forall ins st, Forall G ins -> exists r, pass f st ins = Ok r.
Proof.
  intros Hf. induction ins as [|x r IH]; intros st HG; cbn; eauto.
  inversion HG; subst. destruct (Hf st x H1) as (a & ->). cbn.
  destruct (IH (fst a) H2) as (b & ->). cbn. eauto.
Qed.

(* ---- the per-rune loop -------------------------------------------------------------------- *)
Lemma text_at_ok text i : 0 <= i < zlen text -> text_at text i = Ok (obs_at text i).
Proof.
  intros H. unfold text_at. replace ((0 <=? i) && (i <? zlen text)) with true; auto.
  symmetry. apply andb_true_iff. split; [apply Z.leb_le|apply Z.ltb_lt]; lia.
Qed.

Lemma text_at_inv text i o : text_at text i = Ok o -> o = obs_at text i /\ 0 <= i < zlen text.
Proof.
  unfold text_at. destruct ((0 <=? i) && (i <? zlen text)) eqn:E; [|discriminate].
  intros H; injection H as <-. apply andb_true_iff in E. destruct E as (E1 & E2).
  apply Z.leb_le in E1. apply Z.ltb_lt in E2. auto.
Qed.

Lemma gloop_inv St text step istart (I : Z -> lstate St -> Prop) :
  forall n i s s',
    (forall k s, i <= k < i + Z.of_nat n -> 0 <= k < zlen text -> I k s -> I (k + 1) (gstep St step istart s k (obs_at text k))) ->
    I i s -> gloop St text step istart n i s = Ok s' -> I (i + Z.of_nat n) s'.
Proof.
  induction n as [|n IH]; intros i s s' Hstep HI H; cbn [gloop] in H.
  - injection H as <-. replace (i + Z.of_nat 0) with i by lia. auto.
  - destruct (text_at text i) as [o| | |] eqn:E; cbn in H; try discriminate.
    apply text_at_inv in E. destruct E as (-> & Hb).
    replace (i + Z.of_nat (S n)) with ((i + 1) + Z.of_nat n) by lia.
    eapply IH; [| |exact H].
    + intros k s0 Hk Hk2 HIk. apply Hstep; auto. lia.
    + apply Hstep; auto. lia.
Qed.

Lemma gloop_total St text step istart :
  forall n i s, 0 <= i -> i + Z.of_nat n <= zlen text -> exists s', gloop St text step istart n i s = Ok s'.
Proof.
  induction n as [|n IH]; intros i s H0 H1; cbn [gloop]; eauto.
  rewrite text_at_ok by lia. cbn. apply IH; lia.
Qed.

(* invariant principle for one input run *)
Lemma run_loop_inv {St} text (step : input -> St -> Z -> obs -> input -> St * input * bool) init st inp st' o
    (I : Z -> St -> input -> list input -> Prop) :
  i_start inp <= i_end inp ->
  run_loop text step init st inp = Ok (st', o) ->
  I (i_start inp) st (init inp) [] ->
  (forall k st cur out, i_start inp <= k < i_end inp -> 0 <= k < zlen text -> I k st cur out ->
      let '(st2, cur2, out2) := gstep St (step inp) (i_start inp) (st, cur, out) k (obs_at text k) in I (k + 1) st2 cur2 out2) ->
  exists cur out, I (i_end inp) st' cur out /\ o = out ++ [set_end cur (i_end inp)].
Proof.
  intros Hle H HI0 Hstep. unfold run_loop in H.
  destruct (gloop St text (step inp) (i_start inp) (Z.to_nat (i_end inp - i_start inp)) (i_start inp) (st, init inp, []))
    as [((st1, cur), out)| | |] eqn:H0; cbn in H; try discriminate.
  injection H as <- <-.
  exists cur, out. split; auto.
  pose (J := fun (k : Z) (s : lstate St) => let '(a, b, c) := s in I k a b c).
  assert (HJ : J (i_start inp + Z.of_nat (Z.to_nat (i_end inp - i_start inp))) (st1, cur, out)).
  { eapply gloop_inv; [| |exact H0].
    - intros k s Hk Hk2 HIk. destruct s as ((a, b), c). unfold J in *. apply Hstep; auto. lia.
    - unfold J. auto. }
  unfold J in HJ. replace (i_start inp + Z.of_nat (Z.to_nat (i_end inp - i_start inp))) with (i_end inp) in HJ by lia. auto.
Qed.

Lemma run_loop_total {St} text (step : input -> St -> Z -> obs -> input -> St * input * bool) init st inp :
  0 <= i_start inp -> i_end inp <= zlen text -> exists r, run_loop text step init st inp = Ok r.
Proof.
  intros H0 H1. unfold run_loop.
  destruct (Z_le_dec (i_start inp) (i_end inp)).
  - destruct (gloop_total St text (step inp) (i_start inp) (Z.to_nat (i_end inp - i_start inp)) (i_start inp) (st, init inp, []))
      as (((a, b), c) & ->); [lia|lia|]. cbn. eauto.
  - replace (Z.to_nat (i_end inp - i_start inp)) with O by lia. cbn. eauto.
Qed.

(* ---- partition through a loop: frame conditions on the step -------------------------------------- *)
Definition payload (x : input) := (i_text x, i_size x, i_feat x).

Definition step_frame {St} (step : input -> St -> Z -> obs -> input -> St * input * bool) : Prop :=
  forall inp st k o cur st2 cur2 cut, step inp st k o cur = (st2, cur2, cut) ->
    (payload cur = payload inp -> payload cur2 = payload inp) /\ (cut = false -> i_start cur2 = i_start cur).

Definition part_ok (x : input) (part : list input) : Prop :=
  chain (i_start x) (i_end x) part /\ Forall (fun r => payload r = payload x) part.

Lemma run_loop_partition {St} text (step : input -> St -> Z -> obs -> input -> St * input * bool) init st inp st' o :
  step_frame step -> payload (init inp) = payload inp -> i_start (init inp) = i_start inp ->
  i_start inp < i_end inp ->
  run_loop text step init st inp = Ok (st', o) -> part_ok inp o.
Proof.
  intros Hfr Hp0 Hs0 Hlt H.
  destruct (run_loop_inv text step init st inp st' o
    (fun k _ cur out => chain (i_start inp) (i_start cur) out /\ Forall (fun r => payload r = payload inp) out
                        /\ payload cur = payload inp
                        /\ (i_start cur < k \/ (k = i_start inp /\ i_start cur = i_start inp)))) as (cur & out & HI & ->); auto; try lia.
  - rewrite Hs0. cbn. repeat split; auto.
  - intros k st0 cur out Hk Hk2 (Hc & HF & Hpc & Hpos). unfold gstep.
    destruct (step inp st0 k (obs_at text k) cur) as ((st2, cur2), cut) eqn:E.
    destruct (Hfr _ _ _ _ _ _ _ _ E) as (Hpay & Hst). destruct cut.
    + pose proof (chain_le _ _ _ Hc) as Hge. specialize (Hpay Hpc).
      assert (Hpay2 : payload (set_start cur2 k) = payload inp) by (unfold payload in *; cbn; auto).
      destruct (Z.eqb_spec k (i_start inp)) as [Heq|Hne].
      * assert (Hsc : i_start cur = i_start inp) by lia. rewrite Hsc in Hc.
        cbn [i_start set_start]. rewrite Heq. repeat split; auto. lia.
      * cbn [i_start set_start]. repeat split; auto; try lia.
        -- replace k with (i_end (set_end cur k)) at 1 by reflexivity. eapply chain_snoc; eauto; cbn; lia.
        -- apply Forall_app. split; auto.
    + rewrite (Hst eq_refl). repeat split; auto. lia.
  - destruct HI as (Hc & HF & Hpc & Hpos). split.
    + replace (i_end inp) with (i_end (set_end cur (i_end inp))) at 1 by reflexivity. eapply chain_snoc; eauto; cbn; lia.
    + apply Forall_app. split; auto.
Qed.

(* ---- Split without the buffers ------------------------------------------------------------------ *)
Definition split_pure (e : env) (x : input) : res (list input) :=
  do b <- split_by_bidi (zlen (e_text e)) (e_bidi e) x;
  do r <- split_by_script (e_text e) [] b;
  do l <- enforce_languages (e_langid e) (e_use e) (e_stl e) (snd r);
  do v <- (if resolve_orientation x then split_by_vert (e_text e) l else Ok l);
  split_by_face (e_text e) (e_hint e) v.

Lemma live_appends b xs : live (buf_appends b xs) = live b ++ xs.
Proof.
  unfold buf_appends. revert b. induction xs as [|x xs IH]; intros b; cbn.
  - now rewrite app_nil_r.
  - rewrite IH. cbn. now rewrite <- app_assoc.
Qed.

Local Opaque buf_appends split_by_script split_by_vert split_by_face enforce_languages split_by_bidi.
(* the slice returned by Split does not depend on the state of the Segmenter it is called on *)
Lemma split_runs_pure e s x : split_runs e s x = split_pure e x.
Proof.
  unfold split_runs, split, split_rest, split_pure, resolve_orientation.
  destruct (split_by_bidi (zlen (e_text e)) (e_bidi e) x) as [b| | |]; cbn; auto.
  rewrite live_appends. cbn.
  destruct (split_by_script (e_text e) [] b) as [(stk, sc)| | |]; cbn; auto.
  rewrite live_appends. cbn.
  destruct (enforce_languages (e_langid e) (e_use e) (e_stl e) sc) as [l| | |]; cbn; auto.
  destruct (d_vert (i_dir x) && negb (d_oset (i_dir x))); cbn.
  - destruct (split_by_vert (e_text e) l) as [v| | |]; cbn; auto.
    rewrite live_appends. cbn.
    destruct (split_by_face (e_text e) (e_hint e) v) as [f| | |]; cbn; auto.
    rewrite live_appends. cbn. auto.
  - destruct (split_by_face (e_text e) (e_hint e) l) as [f| | |]; cbn; auto.
    rewrite live_appends. cbn. auto.
Qed.

Local Transparent buf_appends split_by_script split_by_vert split_by_face enforce_languages split_by_bidi.

Lemma split_history_lemma : forall h e x s,
  run_history h seg_zero = Ok s -> split_runs e s x = split_runs e seg_zero x.
Proof. intros. now rewrite !split_runs_pure. Qed.

(* calls on a Segmenter never fail because of its earlier uses: the history runs iff every call runs alone *)
Lemma run_history_ok : forall h s, (forall e x, In (e, x) h -> exists r, split_pure e x = Ok r) -> exists s', run_history h s = Ok s'.
Proof.
  induction h as [|(e, x) h IH]; intros s Hall; cbn; eauto.
  destruct (Hall e x (or_introl eq_refl)) as (r & Hr).
  pose proof (split_runs_pure e s x) as Hp. unfold split_runs in Hp. rewrite Hr in Hp.
  destruct (split e s x) as [s1| | |]; cbn in Hp; try discriminate. cbn.
  apply IH. intros. apply Hall. now right.
Qed.

(* ---- splitByBidi -------------------------------------------------------------------------------- *)
Definition mk_bidi_run (x : input) (iv : Z * Z * bool) : input :=
  let '(s, e, rtl) := iv in set_dir (set_end (set_start x s) e) (set_prog (i_dir x) rtl).

Lemma bidi_loop_spec start : forall runs inp,
  bidi_loop runs start inp = map (mk_bidi_run inp) (bidi_intervals (i_start inp) start runs).
Proof.
  induction runs as [|(e, rtl) runs IH]; intros inp; cbn [bidi_loop bidi_intervals map]; auto.
  rewrite IH. destruct inp. cbn. try reflexivity.
Qed.

Lemma range_ok_inv e x : range_ok e x = true -> 0 <= i_start x /\ i_start x < i_end x /\ i_end x <= zlen (e_text e).
Proof.
  unfold range_ok. rewrite !andb_true_iff, !Z.leb_le, Z.ltb_lt. tauto.
Qed.

Lemma split_by_bidi_spec e x : range_ok e x = true ->
  split_by_bidi (zlen (e_text e)) (e_bidi e) x = Ok (map (mk_bidi_run x) (intervals_of (e_bidi e) x)).
Proof.
  intros H. apply range_ok_inv in H. destruct H as (H0 & H1 & H2). unfold split_by_bidi, intervals_of.
  replace (i_end x <=? i_start x) with false by (symmetry; apply Z.leb_gt; lia).
  replace ((0 <=? i_start x) && (i_end x <=? zlen (e_text e))) with true
    by (symmetry; apply andb_true_iff; split; apply Z.leb_le; lia).
  cbn [negb].
  assert (Hx : [x] = map (mk_bidi_run x) [(i_start x, i_end x, d_prog (i_dir x))]).
  { cbn. destruct x as [? ? ? [] ? ? ? ? ?]; reflexivity. }
  destruct (e_bidi e) as [[|r runs]|]; try (now rewrite Hx).
  now rewrite bidi_loop_spec.
Qed.

Lemma bidi_intervals_chain x start : forall runs s,
  ends_increasing (s - start - 1) runs = true ->
  chain s (match runs with [] => s | _ => fst (last runs (0, false)) + start + 1 end) (map (mk_bidi_run x) (bidi_intervals s start runs)).
Proof.
  induction runs as [|(e, rtl) runs IH]; intros s H; cbn [bidi_intervals map chain]; auto.
  cbn [ends_increasing] in H. apply andb_true_iff in H. destruct H as (H1 & H2). apply Z.ltb_lt in H1.
  cbn [mk_bidi_run i_start i_end set_start set_end set_dir]. split; [auto|]. split; [lia|].
  specialize (IH (e + start + 1)). replace (e + start + 1 - start - 1) with e in IH by lia. specialize (IH H2).
  destruct runs as [|r2 runs]; [cbn in *; auto|].
  cbn [last] in *. auto.
Qed.

Lemma bidi_stage_chain e x : range_ok e x = true -> bidi_wf (i_end x - i_start x) (e_bidi e) = true ->
  chain (i_start x) (i_end x) (map (mk_bidi_run x) (intervals_of (e_bidi e) x)).
Proof.
  intros H Hwf. apply range_ok_inv in H. destruct H as (H0 & H1 & H2). unfold intervals_of, bidi_wf in *.
  assert (Hone : chain (i_start x) (i_end x) (map (mk_bidi_run x) [(i_start x, i_end x, d_prog (i_dir x))])).
  { cbn. repeat split; auto. }
  destruct (e_bidi e) as [[|r runs]|]; auto.
  apply andb_true_iff in Hwf. destruct Hwf as (Hinc & Hlast). apply Z.eqb_eq in Hlast.
  pose proof (bidi_intervals_chain x (i_start x) (r :: runs) (i_start x)) as Hc.
  replace (i_start x - i_start x - 1) with (-1) in Hc by lia. specialize (Hc Hinc).
  cbv beta iota in Hc. rewrite Hlast in Hc. replace (i_end x - i_start x - 1 + i_start x + 1) with (i_end x) in Hc by lia. auto.
Qed.

(* ---- frames of the three steps ------------------------------------------------------------------ *)
Lemma script_step_frame : step_frame script_step.
Proof.
  intros inp st k o cur st2 cur2 cut H. unfold script_step in H.
  destruct (delim_resolve st (i_script cur) o) as (rs, stk1).
  destruct (negb (strong rs) || (rs =? i_script cur)); [|destruct (i_script cur =? SC_COMMON)];
    injection H as <- <- <-; split; auto; try discriminate.
Qed.

Lemma vert_step_frame : step_frame vert_step.
Proof.
  intros inp st k o cur st2 cur2 cut H. unfold vert_step in H.
  destruct (k =? i_start inp); [|destruct (Bool.eqb _ _)]; injection H as <- <- <-; split; auto; try discriminate.
Qed.

Lemma face_step_frame hint : step_frame (face_step hint).
Proof.
  intros inp st k o cur st2 cur2 cut H. unfold face_step in H.
  destruct (o_ignore o && _); [injection H as <- <- <-; split; auto|].
  cbv zeta in H.
  destruct (i_face cur =? 0) eqn:E0; cbn [i_face set_face] in H.
  - rewrite Z.eqb_refl in H. injection H as <- <- <-. split; auto.
  - clear E0. destruct (i_face cur =? _); injection H as <- <- <-; split; auto; try discriminate.
Qed.

(* ---- splitByScript: one bidi run ------------------------------------------------------------------ *)
Definition sc_at (text : list obs) (i : Z) : Z := o_script (obs_at text i).

Definition script_uniform_run (text : list obs) (r : input) : Prop :=
  forall i, i_start r <= i < i_end r -> strong (sc_at text i) = true -> sc_at text i = i_script r.

(* a closing paired delimiter (matched or not) *)
Definition is_closer (o : obs) : bool := negb (strong (o_script o)) && (0 <=? o_delim o) && Z.odd (o_delim o).

Definition cut_reason (text : list obs) (k : Z) : Prop :=
  strong (sc_at text k) = true \/ is_closer (obs_at text k) = true.

Definition keep_script (x r : input) : Prop := i_dir r = i_dir x /\ i_face r = i_face x /\ i_lang r = i_lang x.

Definition script_part (text : list obs) (x : input) (part : list input) : Prop :=
  part_ok x part /\ Forall (keep_script x) part /\ Forall (script_uniform_run text) part
  /\ Forall (fun r => i_start r = i_start x \/ cut_reason text (i_start r)) part.

Lemma delim_resolve_cases stk cs o rs stk' : delim_resolve stk cs o = (rs, stk') ->
  rs = o_script o \/ is_closer o = true.
Proof.
  unfold delim_resolve, is_closer. destruct (strong (o_script o)) eqn:Es.
  - cbn. intros H; injection H as <- _. auto.
  - destruct (0 <=? o_delim o) eqn:E0; [|intros H; injection H as <- _; auto].
    destruct (Z.even (o_delim o)) eqn:Ee; [intros H; injection H as <- _; auto|].
    intros _. right. cbn. rewrite <- Z.negb_even, Ee. reflexivity.
Qed.

Lemma delim_resolve_strong stk cs o rs stk' : delim_resolve stk cs o = (rs, stk') -> strong (o_script o) = true -> rs = o_script o.
Proof.
  unfold delim_resolve. intros H Hs. rewrite Hs in H. cbn in H. now injection H as <- _.
Qed.

Lemma script_run_spec text stk x stk' part : i_start x < i_end x ->
  run_loop text script_step (fun inp => set_script inp SC_COMMON) stk x = Ok (stk', part) -> script_part text x part.
Proof.
  intros Hlt H. split; [|split; [|split]].
  - apply (run_loop_partition text script_step (fun inp => set_script inp SC_COMMON) stk x stk'); auto using script_step_frame.
  - destruct (run_loop_inv text script_step (fun inp => set_script inp SC_COMMON) stk x stk' part
      (fun k _ cur out => Forall (keep_script x) out /\ keep_script x cur)) as (cur & out & (HF & Hc) & ->); auto; try lia.
    + split; [constructor|]. repeat split.
    + intros k st cur out _ _ (HF & Hc). unfold gstep.
      destruct (script_step x st k (obs_at text k) cur) as ((st2, cur2), cut) eqn:E.
      assert (Hk2 : keep_script x cur2).
      { unfold script_step in E. destruct (delim_resolve st (i_script cur) (obs_at text k)) as (rs, stk1).
        destruct (negb (strong rs) || (rs =? i_script cur)); [|destruct (i_script cur =? SC_COMMON)];
          injection E as <- <- <-; auto. }
      destruct cut; split; auto.
      destruct (k =? i_start x); auto. apply Forall_app. split; auto.
    + apply Forall_app. split; auto.
  - destruct (run_loop_inv text script_step (fun inp => set_script inp SC_COMMON) stk x stk' part
      (fun k _ cur out => Forall (script_uniform_run text) out
         /\ (forall i, i_start cur <= i < k -> strong (sc_at text i) = true -> sc_at text i = i_script cur)))
      as (cur & out & (HF & Hc) & ->); auto; try lia.
    + split; [constructor|]. cbn; intros; lia.
    + intros k st cur out _ _ (HF & Hc). unfold gstep.
      destruct (script_step x st k (obs_at text k) cur) as ((st2, cur2), cut) eqn:E.
      unfold script_step in E. destruct (delim_resolve st (i_script cur) (obs_at text k)) as (rs, stk1) eqn:Ed.
      pose proof (delim_resolve_strong _ _ _ _ _ Ed) as Hst.
      destruct (negb (strong rs) || (rs =? i_script cur)) eqn:E1; [|destruct (i_script cur =? SC_COMMON) eqn:E2];
        injection E as <- <- <-.
      * split; auto. intros i Hi Hs. destruct (Z.eq_dec i k) as [->|]; [|apply Hc; auto; lia].
        unfold sc_at in *. rewrite (Hst Hs) in E1. rewrite Hs in E1. cbn in E1. now apply Z.eqb_eq in E1.
      * split; auto. cbn [i_start i_script set_script]. intros i Hi Hs.
        destruct (Z.eq_dec i k) as [->|]; [symmetry; now apply Hst|].
        apply Z.eqb_eq in E2. rewrite (Hc i) in Hs by (auto; lia). rewrite E2 in Hs. discriminate.
      * split.
        -- destruct (k =? i_start x); auto; apply Forall_app; split; auto.
        -- cbn [i_start i_script set_start set_script]. intros i Hi Hs. assert (i = k) as -> by lia. symmetry. now apply Hst.
    + apply Forall_app; split; auto.
  - destruct (run_loop_inv text script_step (fun inp => set_script inp SC_COMMON) stk x stk' part
      (fun k _ cur out => Forall (fun r => i_start r = i_start x \/ cut_reason text (i_start r)) out
         /\ (i_start cur = i_start x \/ cut_reason text (i_start cur))))
      as (cur & out & (HF & Hc) & ->); auto; try lia.
    + intros k st cur out _ _ (HF & Hc). unfold gstep.
      destruct (script_step x st k (obs_at text k) cur) as ((st2, cur2), cut) eqn:E.
      unfold script_step in E. destruct (delim_resolve st (i_script cur) (obs_at text k)) as (rs, stk1) eqn:Ed.
      destruct (negb (strong rs) || (rs =? i_script cur)) eqn:E1; [|destruct (i_script cur =? SC_COMMON) eqn:E2];
        injection E as <- <- <-; auto.
      split.
      * destruct (k =? i_start x); auto. apply Forall_app. split; auto.
      * cbn [i_start set_start]. right. apply orb_false_iff in E1. destruct E1 as (E1 & _). apply negb_false_iff in E1.
        destruct (delim_resolve_cases _ _ _ _ _ Ed) as [->|Hcl]; [left|right]; auto.
    + apply Forall_app. split; auto.
Qed.

(* ---- matched paired delimiters: the specification's position stack --------------------------------- *)
Definition sstep (text : list obs) (stk : dstack) (i : Z) : dstack :=
  let o := obs_at text i in
  let di := if strong (o_script o) then -1 else o_delim o in
  if 0 <=? di then
    if Z.even di then (di, i) :: stk else snd (pop_match stk (di - 1))
  else stk.
Definition stack_after (text : list obs) (idxs : list Z) (stk : dstack) : dstack := fold_left (sstep text) idxs stk.

Lemma match_loop_app text l1 : forall l2 stk,
  match_loop text (l1 ++ l2) stk = match_loop text l1 stk ++ match_loop text l2 (stack_after text l1 stk).
Proof.
  induction l1 as [|i l1 IH]; intros l2 stk; cbn [app match_loop stack_after fold_left]; auto.
  unfold sstep at 2. cbv zeta.
  destruct (0 <=? _); [|apply IH].
  destruct (Z.even _); [apply IH|].
  destruct (pop_match stk _) as ([p|], stk'); cbn [snd]; [|apply IH].
  cbn [app]. f_equal. apply IH.
Qed.

Lemma zrange_nil a : zrange a a = [].
Proof. unfold zrange. now rewrite Z.sub_diag. Qed.

Lemma zrange_snoc a k : a <= k -> zrange a (k + 1) = zrange a k ++ [k].
Proof.
  intros H. unfold zrange. replace (Z.to_nat (k + 1 - a)) with (S (Z.to_nat (k - a))) by lia.
  rewrite seq_S, map_app. cbn. f_equal. f_equal. lia.
Qed.

Lemma zrange_app a b c : a <= b -> b <= c -> zrange a c = zrange a b ++ zrange b c.
Proof.
  intros H1 H2. replace c with (b + Z.of_nat (Z.to_nat (c - b))) by lia.
  induction (Z.to_nat (c - b)) as [|n IH].
  - rewrite Z.add_0_r, zrange_nil, app_nil_r. reflexivity.
  - replace (b + Z.of_nat (S n)) with (b + Z.of_nat n + 1) by lia.
    rewrite !zrange_snoc by lia. rewrite IH, app_assoc. reflexivity.
Qed.

Definition stk_rel (R : Z -> Z -> Prop) (stk pstk : dstack) : Prop :=
  Forall2 (fun m q => fst m = fst q /\ R (snd q) (snd m)) stk pstk.

Lemma stk_rel_weaken (R R' : Z -> Z -> Prop) stk pstk :
  (forall p sc, R p sc -> R' p sc) -> stk_rel R stk pstk -> stk_rel R' stk pstk.
Proof. intros H HF. induction HF; constructor; auto. destruct H0; split; auto. Qed.

Lemma pop_match_rel R c stk pstk : stk_rel R stk pstk ->
  match pop_match stk c, pop_match pstk c with
  | (Some sc, stk'), (Some p, pstk') => R p sc /\ stk_rel R stk' pstk'
  | (None, stk'), (None, pstk') => stk' = [] /\ pstk' = []
  | _, _ => False
  end.
Proof.
  intros HF. induction HF as [|(ix, sc) (ix', p) stk pstk (H1 & H2) HF IH]; cbn; auto.
  cbn in H1, H2. subst ix'. destruct (ix =? c); auto.
Qed.

(* one rune through delim_resolve and through the specification's stack *)
Lemma delim_step_rel R text k stk pstk cs rs stk1 : stk_rel R stk pstk ->
  delim_resolve stk cs (obs_at text k) = (rs, stk1) ->
  exists stk0 pstk0, stk_rel R stk0 pstk0 /\
    ( (stk1 = stk0 /\ sstep text pstk k = pstk0 /\ match_loop text [k] pstk = [] /\ rs = sc_at text k)
    \/ (exists di, stk1 = (di, cs) :: stk0 /\ sstep text pstk k = (di, k) :: pstk0 /\ match_loop text [k] pstk = []
                   /\ strong rs = false)
    \/ (exists p, stk1 = stk0 /\ sstep text pstk k = pstk0 /\ match_loop text [k] pstk = [(k, p)] /\ R p rs) ).
Proof.
  intros HR H. unfold delim_resolve in H. unfold sstep, sc_at. cbn [match_loop]. cbv zeta in *.
  set (o := obs_at text k) in *.
  destruct (strong (o_script o)) eqn:Es.
  - cbn in H. injection H as <- <-. exists stk, pstk. split; auto.
  - destruct (0 <=? o_delim o) eqn:E0.
    + destruct (Z.even (o_delim o)) eqn:Ee.
      * injection H as <- <-. exists stk, pstk. split; auto. right. left. exists (o_delim o). auto.
      * pose proof (pop_match_rel R (o_delim o - 1) stk pstk HR) as Hp.
        destruct (pop_match stk (o_delim o - 1)) as ([sc|], stk'); destruct (pop_match pstk (o_delim o - 1)) as ([p|], pstk');
          try contradiction; injection H as <- <-.
        -- destruct Hp as (Hp1 & Hp2). exists stk', pstk'. split; auto. right. right. exists p. auto.
        -- destruct Hp as (-> & ->). exists [], []. split; [constructor|]. left. auto.
    + injection H as <- <-. exists stk, pstk. split; auto.
Qed.

(* ---- the invariant of splitByScript on one bidi run [s, e) ------------------------------------------- *)
Definition scr (L : list input) (pos sc : Z) : Prop :=
  exists r, In r L /\ i_start r <= pos < i_end r /\ i_script r = sc.

Lemma scr_incl L L' pos sc : incl L L' -> scr L pos sc -> scr L' pos sc.
Proof. intros Hi (r & H1 & H2). exists r. auto. Qed.

(* a stack entry (position p, script sc) while rune k of the bidi run starting at s is examined; cs = current script *)
Definition ent_ok (s k : Z) (L : list input) (cs : Z) (p sc : Z) : Prop :=
  p < k /\ (s <= p -> scr L p sc) /\ (p < s -> cs <> SC_COMMON -> scr L s sc).
(* a matched pair (closing i, opening p) *)
Definition match_ok (s k : Z) (L : list input) (ip : Z * Z) : Prop :=
  s <= fst ip < k /\ snd ip < fst ip /\
  exists c, scr L (fst ip) c /\ (s <= snd ip -> scr L (snd ip) c) /\ (snd ip < s -> scr L s c).
(* why a run starts where it starts *)
Definition cut_ok (text : list obs) (s : Z) (ms : list (Z * Z)) (r : input) : Prop :=
  i_start r = s \/ strong (sc_at text (i_start r)) = true \/ In (i_start r) (map fst ms).

Lemma cut_ok_app text s ms ms' r : cut_ok text s ms r -> cut_ok text s (ms ++ ms') r.
Proof. intros [H|[H|H]]; [left|right; left|right; right]; auto. rewrite map_app. apply in_or_app. auto. Qed.

Definition binv (text : list obs) (s e : Z) (pstk0 : dstack) (k : Z) (stk : dstack) (cur : input) (out : list input) : Prop :=
  let L := out ++ [cur] in
  let pstk := stack_after text (zrange s k) pstk0 in
  let ms := match_loop text (zrange s k) pstk0 in
  i_end cur = e /\ i_start cur <= k /\ s <= i_start cur /\
  (i_script cur = SC_COMMON -> out = [] /\ i_start cur = s) /\
  (i_script cur <> SC_COMMON -> s < k) /\
  (strong (i_script cur) = true \/ i_script cur = SC_COMMON) /\
  Forall (fun r => strong (i_script r) = true) out /\
  stk_rel (ent_ok s k L (i_script cur)) stk pstk /\
  Forall (match_ok s k L) ms /\
  Forall (cut_ok text s ms) L.

Lemma strong_not_common c : strong c = true -> c <> SC_COMMON.
Proof. intros H ->. discriminate. Qed.

(* positions before k keep their run when the current run is cut at k *)
Lemma scr_cut out cur k rs q c : q < k -> scr (out ++ [cur]) q c ->
  scr ((out ++ [set_end cur k]) ++ [set_start (set_script cur rs) k]) q c.
Proof.
  intros Hq (r & Hin & Hr & Hs). apply in_app_or in Hin. destruct Hin as [Hin|[<-|[]]].
  - exists r. split; auto. apply in_or_app. left. apply in_or_app. auto.
  - exists (set_end cur k). split; [apply in_or_app; left; apply in_or_app; right; now left|].
    cbn [i_start i_end i_script set_end]. split; auto. lia.
Qed.

Lemma stk_rel_map (R R' : Z -> Z -> Prop) (f : Z * Z -> Z * Z) stk pstk :
  (forall m q, fst m = fst q /\ R (snd q) (snd m) -> fst (f m) = fst q /\ R' (snd q) (snd (f m))) ->
  stk_rel R stk pstk -> stk_rel R' (map f stk) pstk.
Proof. intros H HF. induction HF; cbn; constructor; auto. Qed.

Ltac split10 := split; [|split; [|split; [|split; [|split; [|split; [|split; [|split; [|split]]]]]]]].

Lemma binv_step text x s e pstk0 k stk cur out : s = i_start x -> s <= k < e ->
  binv text s e pstk0 k stk cur out ->
  let '(st2, cur2, out2) := gstep dstack (script_step x) s (stk, cur, out) k (obs_at text k) in
  binv text s e pstk0 (k + 1) st2 cur2 out2.
Proof.
  intros Hs Hk (He & Hle & Hge & Hcom & Hnc & Hsc & Hout & Hstk & Hms & Hcut).
  unfold gstep, script_step.
  destruct (delim_resolve stk (i_script cur) (obs_at text k)) as (rs, stk1) eqn:Ed.
  destruct (delim_step_rel _ text k stk _ (i_script cur) rs stk1 Hstk Ed) as (stk0 & pstk1 & Hrel0 & Hcase).
  set (L := out ++ [cur]) in *. set (cs := i_script cur) in *.
  set (pstk := stack_after text (zrange s k) pstk0) in *.
  set (ms := match_loop text (zrange s k) pstk0) in *.
  assert (Hpstk : stack_after text (zrange s (k + 1)) pstk0 = sstep text pstk k).
  { rewrite zrange_snoc by lia. unfold stack_after. rewrite fold_left_app. reflexivity. }
  assert (Hms' : match_loop text (zrange s (k + 1)) pstk0 = ms ++ match_loop text [k] pstk).
  { rewrite zrange_snoc by lia. apply match_loop_app. }
  assert (Hcurk : scr L k cs).
  { exists cur. split; [apply in_or_app; right; now left|]. split; auto. lia. }
  assert (HLsc : forall q c, scr L q c -> strong c = false -> c = cs /\ i_start cur <= q).
  { intros q c (r & Hin & Hr & Hsr) Hns. apply in_app_or in Hin. destruct Hin as [Hin|[<-|[]]].
    - rewrite Forall_forall in Hout. specialize (Hout r Hin). congruence.
    - split; auto. lia. }
  destruct (negb (strong rs) || (rs =? cs)) eqn:E1; [|destruct (cs =? SC_COMMON) eqn:E2].
  - (* the current run goes on *)
    unfold binv. fold L. fold cs. rewrite Hpstk, Hms'.
    assert (Hw : forall p sc, ent_ok s k L cs p sc -> ent_ok s (k + 1) L cs p sc).
    { intros p sc (H1 & H2 & H3). split; auto. lia. }
    split10; auto; try lia.
    + destruct Hcase as [(-> & -> & _ & _)|[(di & -> & -> & _ & _)|(p & -> & -> & _ & _)]].
      * eapply stk_rel_weaken; eauto.
      * constructor; [|eapply stk_rel_weaken; eauto]. cbn [fst snd]. split; auto.
        split; [lia|]. split; auto. intros; lia.
      * eapply stk_rel_weaken; eauto.
    + apply Forall_app. split.
      * eapply Forall_impl; [|exact Hms]. intros (i, p) (H1 & H2 & H3). split; auto. cbn [fst] in *. lia.
      * destruct Hcase as [(_ & _ & -> & _)|[(di & _ & _ & -> & _)|(p & _ & _ & -> & (Hp1 & Hp2 & Hp3))]]; constructor; [|constructor].
        unfold match_ok; cbn [fst snd]. split; [lia|]. split; [lia|]. exists cs. split; auto.
        assert (Hrs : rs = cs \/ (strong rs = false)).
        { apply orb_true_iff in E1. destruct E1 as [E1|E1]; [right; now apply negb_true_iff|left; now apply Z.eqb_eq]. }
        split.
        -- intros Hsp. specialize (Hp2 Hsp). destruct Hrs as [<-|Hns]; auto.
           destruct (HLsc _ _ Hp2 Hns) as (<- & _). auto.
        -- intros Hps. destruct (Z.eq_dec cs SC_COMMON) as [Hc|Hc].
           ++ destruct (Hcom Hc) as (Hout0 & Hst). exists cur. split; [apply in_or_app; right; now left|]. split; auto. lia.
           ++ specialize (Hp3 Hps Hc). destruct Hrs as [<-|Hns]; auto.
              destruct (HLsc _ _ Hp3 Hns) as (<- & _). auto.
    + eapply Forall_impl; [|exact Hcut]. intros r. apply cut_ok_app.
  - (* the current run had no script yet: it takes rs, and so does the whole stack *)
    apply Z.eqb_eq in E2. destruct (Hcom E2) as (Hout0 & Hst).
    apply orb_false_iff in E1. destruct E1 as (E1 & _). apply negb_false_iff in E1.
    assert (Hall : forall q, s <= q < e -> scr ([] ++ [set_script cur rs]) q rs).
    { intros q Hq. exists (set_script cur rs). split; [now left|]. cbn [i_start i_end i_script set_script]. split; auto. lia. }
    unfold binv. cbn [i_end i_start i_script set_script]. rewrite Hpstk, Hms'. subst out.
    split10; auto; try lia.
    + assert (Hmap : forall st0 ps0, stk_rel (ent_ok s k L cs) st0 ps0 ->
                stk_rel (ent_ok s (k + 1) ([] ++ [set_script cur rs]) rs) (map (fun en => (fst en, rs)) st0) ps0).
      { intros st0 ps0 HF. eapply stk_rel_map; [|exact HF].
        intros m q (Hf & Hp1 & _). cbn [fst snd]. split; auto. split; [lia|]. split; intros; apply Hall; lia. }
      destruct Hcase as [(-> & -> & _ & _)|[(di & _ & _ & _ & Hns)|(p & -> & -> & _ & _)]]; auto. congruence.
    + apply Forall_app. split.
      * eapply Forall_impl; [|exact Hms]. intros (i, p) (H1 & H2 & H3). unfold match_ok; cbn [fst snd] in *. split; [lia|]. split; auto.
        exists rs. repeat split; intros; apply Hall; lia.
      * destruct Hcase as [(_ & _ & -> & _)|[(di & _ & _ & -> & _)|(p & _ & _ & -> & (Hp1 & Hp2 & Hp3))]]; constructor; [|constructor].
        unfold match_ok; cbn [fst snd]. split; [lia|]. split; [lia|]. exists rs. repeat split; intros; apply Hall; lia.
    + constructor; [|constructor]. left. cbn. auto.
  - (* a new run starts at k *)
    apply Z.eqb_neq in E2. specialize (Hnc E2).
    apply orb_false_iff in E1. destruct E1 as (E1 & E1'). apply negb_false_iff in E1. apply Z.eqb_neq in E1'.
    replace (k =? s) with false by (symmetry; apply Z.eqb_neq; lia).
    assert (Hcs : strong cs = true) by (destruct Hsc; congruence).
    set (L' := (out ++ [set_end cur k]) ++ [set_start (set_script cur rs) k]).
    assert (Htr : forall q c, q < k -> scr L q c -> scr L' q c) by (intros; now apply scr_cut).
    assert (Hnewk : scr L' k rs).
    { exists (set_start (set_script cur rs) k). split; [apply in_or_app; right; now left|].
      cbn [i_start i_end i_script set_start set_script]. split; auto. lia. }
    unfold binv. cbn [i_end i_start i_script set_start set_script]. fold L'. rewrite Hpstk, Hms'.
    assert (Hw : forall p sc, ent_ok s k L cs p sc -> ent_ok s (k + 1) L' rs p sc).
    { intros p sc (H1 & H2 & H3). split; [lia|]. split; intros; apply Htr; auto; lia. }
    split10; auto; try lia.
    + intros Hc. rewrite Hc in E1. discriminate.
    + apply Forall_app. split; auto.
    + destruct Hcase as [(-> & -> & _ & _)|[(di & _ & _ & _ & Hns)|(p & -> & -> & _ & _)]]; try congruence;
        eapply stk_rel_weaken; eauto.
    + apply Forall_app. split.
      * eapply Forall_impl; [|exact Hms]. intros (i, p) (H1 & H2 & (c & H3 & H4 & H5)). unfold match_ok; cbn [fst snd] in *. split; [lia|]. split; auto.
        exists c. repeat split; intros; apply Htr; auto; lia.
      * destruct Hcase as [(_ & _ & -> & _)|[(di & _ & _ & -> & _)|(p & _ & _ & -> & (Hp1 & Hp2 & Hp3))]]; constructor; [|constructor].
        unfold match_ok; cbn [fst snd]. split; [lia|]. split; [lia|]. exists rs. split; auto.
    + unfold L'. apply Forall_app. split; [apply Forall_app; split|].
      * apply Forall_app in Hcut. destruct Hcut as (Hcut & _). eapply Forall_impl; [|exact Hcut]. intros r. apply cut_ok_app.
      * apply Forall_app in Hcut. destruct Hcut as (_ & Hcut). inversion Hcut; subst. constructor; [|constructor].
        apply cut_ok_app. assumption.
      * constructor; [|constructor]. unfold cut_ok. cbn [i_start set_start]. right.
        destruct Hcase as [(_ & _ & _ & <-)|[(di & _ & _ & _ & Hns)|(p & _ & _ & -> & _)]]; try congruence.
        -- left. exact E1.
        -- right. rewrite map_app. apply in_or_app. right. now left.
Qed.

Lemma set_end_self cur : set_end cur (i_end cur) = cur.
Proof. now destruct cur. Qed.

(* one bidi run: the stack it leaves, the pairs closed in it, the reasons of its cuts *)
Lemma script_run_brackets text stk pstk0 x stk' part : i_start x < i_end x ->
  stk_rel (fun p _ => p < i_start x) stk pstk0 ->
  run_loop text script_step (fun inp => set_script inp SC_COMMON) stk x = Ok (stk', part) ->
  let ms := match_loop text (zrange (i_start x) (i_end x)) pstk0 in
  stk_rel (fun p _ => p < i_end x) stk' (stack_after text (zrange (i_start x) (i_end x)) pstk0)
  /\ Forall (match_ok (i_start x) (i_end x) part) ms
  /\ Forall (cut_ok text (i_start x) ms) part.
Proof.
  intros Hlt Hrel H.
  destruct (run_loop_inv text script_step (fun inp => set_script inp SC_COMMON) stk x stk' part
              (binv text (i_start x) (i_end x) pstk0)) as (cur & out & HI & ->); auto; try lia.
  - unfold binv. cbn [i_end i_start i_script set_script app]. rewrite zrange_nil. cbn [stack_after fold_left match_loop].
    split10; auto; try lia.
    + eapply stk_rel_weaken; [|exact Hrel]. intros p sc Hp. cbv beta in Hp. split; auto. split; intros; [lia|congruence].
    + constructor; [|constructor]. left. reflexivity.
  - intros k st cur out Hk _ HI. now apply (binv_step text x (i_start x) (i_end x) pstk0 k st cur out).
  - destruct HI as (He & _ & _ & _ & _ & _ & _ & Hstk & Hms & Hcut).
    rewrite <- He, set_end_self. rewrite He. cbv zeta. split; [|split]; auto.
    eapply stk_rel_weaken; [|exact Hstk]. intros p sc (Hp & _). exact Hp.
Qed.

Lemma match_ok_incl s e L L' ip : incl L L' -> match_ok s e L ip -> match_ok s e L' ip.
Proof.
  intros Hi (H1 & H2 & c & H3 & H4 & H5). split; auto. split; auto. exists c.
  split; [|split]; intros; eapply scr_incl; eauto.
Qed.

(* all the bidi runs of one Split: `pstk` is the specification's stack before the first of them *)
Lemma script_pass_brackets text : forall bs a b stk pstk stk' sc,
  chain a b bs -> stk_rel (fun p _ => p < a) stk pstk ->
  pass (run_loop text script_step (fun inp => set_script inp SC_COMMON)) stk bs = Ok (stk', sc) ->
  Forall (fun ip => exists bi, In bi bs /\ match_ok (i_start bi) (i_end bi) sc ip) (match_loop text (zrange a b) pstk)
  /\ Forall (fun r => exists bi, In bi bs /\ cut_ok text (i_start bi) (match_loop text (zrange a b) pstk) r) sc.
Proof.
  induction bs as [|x bs IH]; intros a b stk pstk stk' sc Hc Hrel H; cbn [pass] in H.
  - injection H as <- <-. cbn in Hc. subst b. rewrite zrange_nil. cbn. split; constructor.
  - destruct Hc as (Hs & Hlt & Hc).
    destruct (run_loop text script_step (fun inp => set_script inp SC_COMMON) stk x) as [(st1, o1)| | |] eqn:E1; cbn [bind fst snd] in H; try discriminate.
    destruct (pass (run_loop text script_step (fun inp => set_script inp SC_COMMON)) st1 bs) as [(st2, o2)| | |] eqn:E2; cbn [bind fst snd] in H; try discriminate.
    injection H as <- <-.
    pose proof (chain_le _ _ _ Hc) as Hle. subst a.
    destruct (script_run_brackets text stk pstk x st1 o1) as (Hr1 & Hm1 & Hc1); auto; try lia.
    rewrite (zrange_app (i_start x) (i_end x) b) by lia. rewrite match_loop_app.
    set (ms1 := match_loop text (zrange (i_start x) (i_end x)) pstk) in *.
    set (pstk1 := stack_after text (zrange (i_start x) (i_end x)) pstk) in *.
    destruct (IH (i_end x) b st1 pstk1 st2 o2 Hc Hr1 E2) as (Hm2 & Hc2).
    split; apply Forall_app; split.
    + eapply Forall_impl; [|exact Hm1]. intros ip Hip. exists x. split; [now left|].
      eapply match_ok_incl; [|exact Hip]. apply incl_appl, incl_refl.
    + eapply Forall_impl; [|exact Hm2]. intros ip (bi & Hbi & Hip). exists bi. split; [now right|].
      eapply match_ok_incl; [|exact Hip]. apply incl_appr, incl_refl.
    + eapply Forall_impl; [|exact Hc1]. intros r Hr. exists x. split; [now left|]. now apply cut_ok_app.
    + eapply Forall_impl; [|exact Hc2]. intros r (bi & Hbi & Hr). exists bi. split; [now right|].
      destruct Hr as [Hr|[Hr|Hr]]; [left|right; left|right; right]; auto.
      rewrite map_app. apply in_or_app. auto.
Qed.

(* ---- splitByVertOrientation: one run ------------------------------------------------------------ *)
Definition keep_vert (x r : input) : Prop :=
  d_prog (i_dir r) = d_prog (i_dir x) /\ i_script r = i_script x /\ i_face r = i_face x /\ i_lang r = i_lang x.

Definition orient_uniform_run (text : list obs) (script : Z) (r : input) : Prop :=
  d_vert (i_dir r) = true /\ d_oset (i_dir r) = true /\
  forall i, i_start r <= i < i_end r -> side_of (obs_at text i) script = d_side (i_dir r).

Definition vert_part (text : list obs) (x : input) (part : list input) : Prop :=
  part_ok x part /\ Forall (keep_vert x) part /\ Forall (orient_uniform_run text (i_script x)) part.

Lemma vert_run_spec text st x st' part : i_start x < i_end x ->
  run_loop text vert_step (fun inp => inp) st x = Ok (st', part) -> vert_part text x part.
Proof.
  intros Hlt H. split; [|split].
  - apply (run_loop_partition text vert_step (fun inp => inp) st x st'); auto using vert_step_frame.
  - destruct (run_loop_inv text vert_step (fun inp => inp) st x st' part
      (fun k _ cur out => Forall (keep_vert x) out /\ keep_vert x cur)) as (cur & out & (HF & Hc) & ->); auto; try lia.
    + split; [constructor|]. repeat split.
    + intros k st0 cur out _ _ (HF & Hc). unfold gstep.
      destruct (vert_step x st0 k (obs_at text k) cur) as ((st2, cur2), cut) eqn:E.
      assert (Hk2 : keep_vert x cur2).
      { unfold vert_step in E. destruct (k =? i_start x); [|destruct (Bool.eqb _ _)]; injection E as <- <- <-; auto. }
      destruct cut; split; auto.
      destruct (k =? i_start x); auto. apply Forall_app. split; auto.
    + apply Forall_app. split; auto.
  - destruct (run_loop_inv text vert_step (fun inp => inp) st x st' part
      (fun k _ cur out => Forall (orient_uniform_run text (i_script x)) out
         /\ i_start x <= i_start cur
         /\ (i_start x < k -> d_vert (i_dir cur) = true /\ d_oset (i_dir cur) = true /\
             forall i, i_start cur <= i < k -> side_of (obs_at text i) (i_script x) = d_side (i_dir cur))))
      as (cur & out & (HF & Hge & Hc) & ->); auto; try lia.
    + split; [constructor|]. split; lia.
    + intros k st0 cur out Hk _ (HF & Hge & Hc). unfold gstep.
      destruct (vert_step x st0 k (obs_at text k) cur) as ((st2, cur2), cut) eqn:E.
      unfold vert_step in E. destruct (Z.eqb_spec k (i_start x)) as [Hkx|Hkx].
      * injection E as <- <- <-. split; auto. cbn [i_start i_dir set_dir d_vert d_oset d_side set_sideways]. split; auto.
        intros _. repeat split. intros i Hi. assert (i = k) as -> by lia. reflexivity.
      * destruct Hc as (Hv & Ho & Hs); [lia|].
        assert (Hsw : is_sideways (i_dir cur) = d_side (i_dir cur)) by (unfold is_sideways; now rewrite Hv).
        rewrite Hsw in E.
        destruct (Bool.eqb (side_of (obs_at text k) (i_script x)) (d_side (i_dir cur))) eqn:Eb; injection E as <- <- <-.
        -- split; auto. split; auto. intros _. repeat split; auto. intros i Hi.
           destruct (Z.eq_dec i k) as [->|]; [now apply eqb_prop|apply Hs; lia].
        -- split.
           ++ replace (k =? i_start x) with false by (symmetry; now apply Z.eqb_neq).
              apply Forall_app. split; auto. constructor; [|constructor]. repeat split; auto.
           ++ cbn [i_start i_dir set_dir set_start d_vert d_oset d_side set_sideways]. split; [lia|].
              intros _. repeat split. intros i Hi. assert (i = k) as -> by lia. reflexivity.
    + apply Forall_app. split; auto. constructor; [|constructor].
      destruct Hc as (Hv & Ho & Hs); [lia|]. repeat split; auto.
Qed.

(* ---- splitByFace: one run -------------------------------------------------------------------------- *)
Definition keep_face (x r : input) : Prop := i_dir r = i_dir x /\ i_script r = i_script x /\ i_lang r = i_lang x.

Definition face_uniform_run (text : list obs) (key : Z) (r : input) : Prop :=
  (forall i, i_start r <= i < i_end r -> o_ignore (obs_at text i) = false -> face_of (obs_at text i) key <> 0 ->
             face_of (obs_at text i) key = i_face r)
  /\ (i_face r = 0 -> exists i, i_start r <= i < i_end r /\ face_of (obs_at text i) key = 0).

Definition face_part (text : list obs) (hint : bool) (x : input) (part : list input) : Prop :=
  part_ok x part /\ Forall (keep_face x) part /\ Forall (face_uniform_run text (face_key hint x)) part.

Lemma face_run_spec text hint st x st' part : i_start x < i_end x ->
  run_loop text (face_step hint) (fun inp => inp) st x = Ok (st', part) -> face_part text hint x part.
Proof.
  intros Hlt H. split; [|split].
  - apply (run_loop_partition text (face_step hint) (fun inp => inp) st x st'); auto using face_step_frame.
  - destruct (run_loop_inv text (face_step hint) (fun inp => inp) st x st' part
      (fun k _ cur out => Forall (keep_face x) out /\ keep_face x cur)) as (cur & out & (HF & Hc) & ->); auto; try lia.
    + split; [constructor|]. repeat split.
    + intros k st0 cur out _ _ (HF & Hc). unfold gstep.
      destruct (face_step hint x st0 k (obs_at text k) cur) as ((st2, cur2), cut) eqn:E.
      assert (Hk2 : keep_face x cur2).
      { unfold face_step in E. destruct (o_ignore _ && _); [injection E as <- <- <-; auto|]. cbv zeta in E.
        destruct (i_face (if i_face cur =? 0 then _ else cur) =? _); injection E as <- <- <-.
        - destruct (i_face cur =? 0); auto.
        - repeat split. }
      destruct cut; split; auto.
      destruct (k =? i_start x); auto. apply Forall_app. split; auto.
    + apply Forall_app. split; auto.
  - set (key := face_key hint x).
    destruct (run_loop_inv text (face_step hint) (fun inp => inp) st x st' part
      (fun k _ cur out => Forall (face_uniform_run text key) out
         /\ i_start cur <= k
         /\ (forall i, i_start cur <= i < k -> o_ignore (obs_at text i) = false -> face_of (obs_at text i) key <> 0 ->
                       face_of (obs_at text i) key = i_face cur)
         /\ (i_face cur = 0 -> k < i_end x \/ exists i, i_start cur <= i < k /\ face_of (obs_at text i) key = 0)))
      as (cur & out & (HF & Hle & Hu & Hn) & ->); auto; try lia.
    + split; [constructor|]. split; [lia|]. split; [intros; lia|]. intros _. left. lia.
    + intros k st0 cur out Hk _ (HF & Hle & Hu & Hn). unfold gstep.
      destruct (face_step hint x st0 k (obs_at text k) cur) as ((st2, cur2), cut) eqn:E.
      unfold face_step in E. fold key in E.
      destruct (o_ignore (obs_at text k) && (negb (i_face cur =? 0) || (k <? i_end x - 1))) eqn:Eig.
      * injection E as <- <- <-. split; auto. split; [lia|]. split.
        -- intros i Hi Hig Hnz. destruct (Z.eq_dec i k) as [->|]; [|apply Hu; auto; lia].
           apply andb_true_iff in Eig. destruct Eig as (Eig & _). congruence.
        -- intros Hz. apply andb_true_iff in Eig. destruct Eig as (_ & Eig). apply orb_true_iff in Eig.
           destruct Eig as [Eig|Eig].
           ++ apply negb_true_iff, Z.eqb_neq in Eig. contradiction.
           ++ apply Z.ltb_lt in Eig. left. lia.
      * cbv zeta in E. destruct (Z.eqb_spec (i_face cur) 0) as [Hz|Hnz].
        -- cbn [i_face set_face] in E. rewrite Z.eqb_refl in E. injection E as <- <- <-. split; auto.
           cbn [i_start i_face set_face]. split; [lia|]. split.
           ++ intros i Hi Hig Hnz. destruct (Z.eq_dec i k) as [->|]; auto.
              exfalso. apply Hnz. rewrite Hu; auto. lia.
           ++ intros Hsel. right. exists k. split; [lia|auto].
        -- destruct (Z.eqb_spec (i_face cur) (face_of (obs_at text k) key)) as [He|Hne]; injection E as <- <- <-.
           ++ split; auto. split; [lia|]. split.
              ** intros i Hi Hig Hnz2. destruct (Z.eq_dec i k) as [->|]; [auto|apply Hu; auto; lia].
              ** intros Hz. contradiction.
           ++ split.
              ** destruct (k =? i_start x); auto. apply Forall_app. split; auto. constructor; [|constructor].
                 split; [cbn [i_start i_end i_face set_end]; auto|]. cbn [i_face set_end]. intros Hz. contradiction.
              ** cbn [i_start i_face set_start set_face]. split; [lia|]. split.
                 --- intros i Hi Hig _. assert (i = k) as -> by lia. reflexivity.
                 --- intros Hz. right. exists k. split; [lia|auto].
    + apply Forall_app. split; auto. constructor; [|constructor]. split; auto.
      cbn [i_face i_start i_end set_end]. intros Hz. destruct (Hn Hz) as [?|?]; [lia|auto].
Qed.

(* ---- whole stages ---------------------------------------------------------------------------------- *)
Definition nonempty (x : input) : Prop := i_start x < i_end x.
Definition inside (tlen : Z) (x : input) : Prop := 0 <= i_start x /\ i_end x <= tlen.

Lemma chain_nonempty a b l : chain a b l -> Forall nonempty l.
Proof. intros H. apply Forall_forall. intros r Hr. destruct (chain_in _ _ _ _ H Hr). unfold nonempty. lia. Qed.

Lemma chain_inside a b l n : chain a b l -> 0 <= a -> b <= n -> Forall (inside n) l.
Proof. intros H ? ?. apply Forall_forall. intros r Hr. destruct (chain_in _ _ _ _ H Hr) as (? & ? & ?). unfold inside. lia. Qed.

Lemma script_stage text b stk stk' sc : Forall nonempty b -> split_by_script text stk b = Ok (stk', sc) ->
  stage_rel (script_part text) b sc.
Proof.
  intros Hne H. unfold split_by_script in H.
  destruct (pass_rel (run_loop text script_step (fun inp => set_script inp SC_COMMON)) (fun _ => True)
              (fun x o => nonempty x -> script_part text x o)) with (ins := b) (st := stk) (st' := stk') (outs := sc)
    as (_ & Hrel); auto.
  - intros st x st2 o _ Hr. split; auto. intros Hx. eapply script_run_spec; eauto.
  - eapply stage_rel_weaken; [|exact Hrel]. intros x p Hin HQ. apply HQ. rewrite Forall_forall in Hne. auto.
Qed.

Lemma vert_stage text l vt : Forall nonempty l -> split_by_vert text l = Ok vt -> stage_rel (vert_part text) l vt.
Proof.
  intros Hne H. unfold split_by_vert in H.
  destruct (pass (run_loop text vert_step (fun inp => inp)) tt l) as [(u, o)| | |] eqn:E; cbn in H; try discriminate.
  injection H as <-.
  destruct (pass_rel (run_loop text vert_step (fun inp => inp)) (fun _ => True)
              (fun x o => nonempty x -> vert_part text x o)) with (ins := l) (st := tt) (st' := u) (outs := o)
    as (_ & Hrel); auto.
  - intros st x st2 o2 _ Hr. split; auto. intros Hx. eapply vert_run_spec; eauto.
  - eapply stage_rel_weaken; [|exact Hrel]. intros x p Hin HQ. apply HQ. rewrite Forall_forall in Hne. auto.
Qed.

Lemma face_stage text hint l fc : Forall nonempty l -> split_by_face text hint l = Ok fc -> stage_rel (face_part text hint) l fc.
Proof.
  intros Hne H. unfold split_by_face in H.
  destruct (pass (run_loop text (face_step hint) (fun inp => inp)) tt l) as [(u, o)| | |] eqn:E; cbn in H; try discriminate.
  injection H as <-.
  destruct (pass_rel (run_loop text (face_step hint) (fun inp => inp)) (fun _ => True)
              (fun x o => nonempty x -> face_part text hint x o)) with (ins := l) (st := tt) (st' := u) (outs := o)
    as (_ & Hrel); auto.
  - intros st x st2 o2 _ Hr. split; auto. intros Hx. eapply face_run_spec; eauto.
  - eapply stage_rel_weaken; [|exact Hrel]. intros x p Hin HQ. apply HQ. rewrite Forall_forall in Hne. auto.
Qed.

(* totality of the stages on runs inside the text *)
Lemma pass_loop_total {St} text (step : input -> St -> Z -> obs -> input -> St * input * bool) init l st :
  Forall (inside (zlen text)) l -> exists r, pass (run_loop text step init) st l = Ok r.
Proof.
  intros H. eapply pass_total with (G := inside (zlen text)); auto.
  intros st0 x (H0 & H1). apply run_loop_total; auto.
Qed.

(* enforceLanguages *)
Definition lang_fix (e : env) (r : input) : input :=
  match e_langid e with
  | None => r
  | Some id => set_lang r (enforce_lang (e_use e) (e_stl e) id (i_script r))
  end.

Lemma enforce_spec e sc : sc <> [] -> enforce_languages (e_langid e) (e_use e) (e_stl e) sc = Ok (map (lang_fix e) sc).
Proof.
  intros Hne. unfold enforce_languages, lang_fix. destruct sc; [congruence|].
  destruct (e_langid e); auto. now rewrite map_id.
Qed.

Lemma lang_fix_range e r : i_start (lang_fix e r) = i_start r /\ i_end (lang_fix e r) = i_end r.
Proof. unfold lang_fix. destruct (e_langid e); auto. Qed.

Lemma chain_map_lang e a b l : chain a b l -> chain a b (map (lang_fix e) l).
Proof.
  revert a; induction l as [|r l IH]; intros a; cbn; auto.
  destruct (lang_fix_range e r) as (-> & ->). intros (? & ? & ?). auto.
Qed.

Lemma chain_not_nil a b l : chain a b l -> a < b -> l <> [].
Proof. destruct l; cbn; [lia|congruence]. Qed.

(* ---- Split decomposed into its stages (and total) ---------------------------------------------------- *)
Definition staged (e : env) (x : input) (sc vt fc : list input) : Prop :=
  let b := map (mk_bidi_run x) (intervals_of (e_bidi e) x) in
  let ln := map (lang_fix e) sc in
  chain (i_start x) (i_end x) b /\
  stage_rel (script_part (e_text e)) b sc /\ chain (i_start x) (i_end x) sc /\
  (if resolve_orientation x then stage_rel (vert_part (e_text e)) ln vt else vt = ln) /\ chain (i_start x) (i_end x) vt /\
  stage_rel (face_part (e_text e) (e_hint e)) vt fc /\ chain (i_start x) (i_end x) fc.

Lemma part_ok_chain x p : part_ok x p -> chain (i_start x) (i_end x) p.
Proof. now intros (? & _). Qed.

(* the matched pairs of the whole range against the runs of the script stage: each pair is closed inside one bidi run
   `bi`; every script run starts a bidi run, or at a strong rune, or at a matched closing delimiter *)
Definition brackets_staged (e : env) (x : input) (sc : list input) : Prop :=
  let b := map (mk_bidi_run x) (intervals_of (e_bidi e) x) in
  let ms := delim_matches (e_text e) x in
  Forall (fun ip => exists bi, In bi b /\ match_ok (i_start bi) (i_end bi) sc ip) ms
  /\ Forall (fun r => exists bi, In bi b /\ cut_ok (e_text e) (i_start bi) ms r) sc.

Lemma split_pure_stages e x : range_ok e x = true -> bidi_wf (i_end x - i_start x) (e_bidi e) = true ->
  exists sc vt fc, split_pure e x = Ok fc /\ staged e x sc vt fc /\ brackets_staged e x sc.
Proof.
  intros Hr Hwf. pose proof (range_ok_inv _ _ Hr) as (H0 & H1 & H2).
  pose proof (bidi_stage_chain e x Hr Hwf) as Hcb.
  unfold split_pure. rewrite split_by_bidi_spec by auto. cbn [bind].
  set (b := map (mk_bidi_run x) (intervals_of (e_bidi e) x)) in *.
  destruct (pass_loop_total (e_text e) script_step (fun inp => set_script inp SC_COMMON) b [])
    as ((stk, sc) & Hsc); [eapply chain_inside; eauto|].
  unfold split_by_script at 1. rewrite Hsc. cbn [bind snd].
  assert (Hrs : stage_rel (script_part (e_text e)) b sc) by (eapply script_stage; eauto using chain_nonempty).
  assert (Hbr : brackets_staged e x sc).
  { unfold brackets_staged, delim_matches. fold b. eapply script_pass_brackets; [exact Hcb|constructor|exact Hsc]. }
  assert (Hcs : chain (i_start x) (i_end x) sc).
  { eapply stage_rel_chain; [|exact Hrs|exact Hcb]. intros y p (Hp & _). now apply part_ok_chain. }
  rewrite enforce_spec by (eapply chain_not_nil; eauto). cbn [bind].
  set (ln := map (lang_fix e) sc).
  assert (Hcl : chain (i_start x) (i_end x) ln) by now apply chain_map_lang.
  assert (Hv : exists vt, (if resolve_orientation x then split_by_vert (e_text e) ln else Ok ln) = Ok vt
                /\ (if resolve_orientation x then stage_rel (vert_part (e_text e)) ln vt else vt = ln)
                /\ chain (i_start x) (i_end x) vt).
  { destruct (resolve_orientation x).
    - destruct (pass_loop_total (e_text e) vert_step (fun inp => inp) ln tt) as ((u, vt) & Hvt); [eapply chain_inside; eauto|].
      exists vt. assert (Hsv : split_by_vert (e_text e) ln = Ok vt) by (unfold split_by_vert; now rewrite Hvt).
      split; auto. assert (Hrv : stage_rel (vert_part (e_text e)) ln vt) by (eapply vert_stage; eauto using chain_nonempty).
      split; auto. eapply stage_rel_chain; [|exact Hrv|exact Hcl]. intros y p (Hp & _). now apply part_ok_chain.
    - exists ln. auto. }
  destruct Hv as (vt & -> & Hrv & Hcv). cbn [bind].
  destruct (pass_loop_total (e_text e) (face_step (e_hint e)) (fun inp => inp) vt tt) as ((u, fc) & Hfc); [eapply chain_inside; eauto|].
  assert (Hsf : split_by_face (e_text e) (e_hint e) vt = Ok fc) by (unfold split_by_face; now rewrite Hfc).
  assert (Hrf : stage_rel (face_part (e_text e) (e_hint e)) vt fc) by (eapply face_stage; eauto using chain_nonempty).
  exists sc, vt, fc. split; auto. split; auto. unfold staged. fold b. fold ln. repeat split; auto.
  eapply stage_rel_chain; [|exact Hrf|exact Hcv]. intros y p (Hp & _). now apply part_ok_chain.
Qed.

(* ---- lineage of an output run ------------------------------------------------------------------------- *)
Lemma lang_fix_fields e r :
  i_start (lang_fix e r) = i_start r /\ i_end (lang_fix e r) = i_end r /\ i_dir (lang_fix e r) = i_dir r /\
  i_script (lang_fix e r) = i_script r /\ i_face (lang_fix e r) = i_face r /\ payload (lang_fix e r) = payload r.
Proof. unfold lang_fix. destruct (e_langid e); repeat split. Qed.

Record lineage (e : env) (x : input) (sc fc : list input) (r : input) (iv : Z * Z * bool) (s v : input) : Prop := {
  ln_iv : In iv (intervals_of (e_bidi e) x);
  ln_s : exists ps, script_part (e_text e) (mk_bidi_run x iv) ps /\ In s ps;
  ln_s_in : In s sc;
  ln_v : if resolve_orientation x then exists pv, vert_part (e_text e) (lang_fix e s) pv /\ In v pv else v = lang_fix e s;
  ln_r : exists pf, face_part (e_text e) (e_hint e) v pf /\ In r pf
}.

Lemma lineage_exists e x sc vt fc r : staged e x sc vt fc -> In r fc -> exists iv s v, lineage e x sc fc r iv s v.
Proof.
  intros (Hcb & Hrs & Hcs & Hrv & Hcv & Hrf & Hcf) Hin.
  destruct (stage_rel_in _ _ _ _ Hrf Hin) as (v & pf & Hv & Hpf & Hrpf).
  assert (Hs : exists s, In s sc /\ if resolve_orientation x then exists pv, vert_part (e_text e) (lang_fix e s) pv /\ In v pv
                                     else v = lang_fix e s).
  { destruct (resolve_orientation x).
    - destruct (stage_rel_in _ _ _ _ Hrv Hv) as (l & pv & Hl & Hpv & Hvpv).
      apply in_map_iff in Hl. destruct Hl as (s & <- & Hs). eauto.
    - subst vt. apply in_map_iff in Hv. destruct Hv as (s & <- & Hs). eauto. }
  destruct Hs as (s & Hs & Hvs).
  destruct (stage_rel_in _ _ _ _ Hrs Hs) as (bi & ps & Hbi & Hps & Hsps).
  apply in_map_iff in Hbi. destruct Hbi as (iv & <- & Hiv).
  exists iv, s, v. constructor; eauto.
Qed.

Lemma mk_bidi_run_fields x iv :
  i_start (mk_bidi_run x iv) = fst (fst iv) /\ i_end (mk_bidi_run x iv) = snd (fst iv) /\
  d_prog (i_dir (mk_bidi_run x iv)) = snd iv /\ d_vert (i_dir (mk_bidi_run x iv)) = d_vert (i_dir x) /\
  d_oset (i_dir (mk_bidi_run x iv)) = d_oset (i_dir x) /\ d_side (i_dir (mk_bidi_run x iv)) = d_side (i_dir x) /\
  i_face (mk_bidi_run x iv) = i_face x /\ i_lang (mk_bidi_run x iv) = i_lang x /\ payload (mk_bidi_run x iv) = payload x.
Proof. destruct iv as ((s, e), rtl). repeat split. Qed.

Lemma Forall_in {A} (P : A -> Prop) l a : Forall P l -> In a l -> P a.
Proof. rewrite Forall_forall. auto. Qed.

(* what the lineage says about the fields of an output run *)
Lemma lineage_facts e x sc fc r iv s v : lineage e x sc fc r iv s v ->
  (fst (fst iv) <= i_start s /\ i_start s <= i_start v /\ i_start v <= i_start r /\ i_start r < i_end r
   /\ i_end r <= i_end v /\ i_end v <= i_end s /\ i_end s <= snd (fst iv))
  /\ d_prog (i_dir r) = snd iv
  /\ i_script r = i_script s /\ i_script v = i_script s
  /\ payload r = payload x
  /\ i_lang r = i_lang (lang_fix e s) /\ i_lang s = i_lang x
  /\ i_dir r = i_dir v
  /\ (resolve_orientation x = false -> d_vert (i_dir r) = d_vert (i_dir x) /\ d_oset (i_dir r) = d_oset (i_dir x)
                                       /\ d_side (i_dir r) = d_side (i_dir x)).
Proof.
  intros [Hiv (ps & (Hpo & Hks & _) & Hsps) Hssc Hv (pf & (Hpf & Hkf & _) & Hrpf)].
  pose proof (mk_bidi_run_fields x iv) as (Hb1 & Hb2 & Hb3 & Hb4 & Hb5 & Hb6 & Hb7 & Hb8 & Hb9).
  destruct Hpo as (Hcps & Hpps). destruct (chain_in _ _ _ _ Hcps Hsps) as (Hs1 & Hs2 & Hs3).
  pose proof (Forall_in _ _ _ Hpps Hsps) as Hpays. pose proof (Forall_in _ _ _ Hks Hsps) as (Hds & Hfs & Hls).
  destruct Hpf as (Hcpf & Hppf). destruct (chain_in _ _ _ _ Hcpf Hrpf) as (Hr1 & Hr2 & Hr3).
  pose proof (Forall_in _ _ _ Hppf Hrpf) as Hpayr. pose proof (Forall_in _ _ _ Hkf Hrpf) as (Hdr & Hscr & Hlr).
  pose proof (lang_fix_fields e s) as (Hl1 & Hl2 & Hl3 & Hl4 & Hl5 & Hl6).
  assert (Hvf : i_start s <= i_start v /\ i_end v <= i_end s /\ d_prog (i_dir v) = d_prog (i_dir s) /\ i_script v = i_script s
                /\ payload v = payload s /\ i_lang v = i_lang (lang_fix e s)
                /\ (resolve_orientation x = false -> i_dir v = i_dir s)).
  { destruct (resolve_orientation x).
    - destruct Hv as (pv & ((Hcpv & Hppv) & Hkv & _) & Hvpv).
      destruct (chain_in _ _ _ _ Hcpv Hvpv) as (Hv1 & Hv2 & Hv3).
      pose proof (Forall_in _ _ _ Hppv Hvpv) as Hpayv. pose proof (Forall_in _ _ _ Hkv Hvpv) as (Hdv & Hscv & Hfv & Hlv).
      repeat split; try congruence; try lia.
    - subst v. repeat split; try congruence; try lia. }
  destruct Hvf as (Hv1 & Hv2 & Hv3 & Hv4 & Hv5 & Hv6 & Hv7).
  assert (Hlast : resolve_orientation x = false -> i_dir r = i_dir (mk_bidi_run x iv)).
  { intros Hro. rewrite Hdr, (Hv7 Hro), Hds. auto. }
  repeat split; try congruence; try lia; try (rewrite Hlast by assumption; assumption).
Qed.

(* ---- the statements of C07 on the model ------------------------------------------------------------------ *)
Lemma split_main e s x : range_ok e x = true -> bidi_wf (i_end x - i_start x) (e_bidi e) = true ->
  exists runs sc vt, split_runs e s x = Ok runs /\ staged e x sc vt runs /\ brackets_staged e x sc.
Proof.
  intros Hr Hwf. destruct (split_pure_stages e x Hr Hwf) as (sc & vt & fc & Hs & Hst & Hbr).
  exists fc, sc, vt. rewrite split_runs_pure. auto.
Qed.

Lemma leb_true a b : a <= b -> (a <=? b) = true. Proof. intros; now apply Z.leb_le. Qed.
Lemma ltb_true a b : a < b -> (a <? b) = true. Proof. intros; now apply Z.ltb_lt. Qed.

Lemma partition_of_staged e x sc vt fc : staged e x sc vt fc -> partition_ok x fc = true.
Proof.
  intros Hst. pose proof Hst as (_ & _ & _ & _ & _ & _ & Hcf).
  unfold partition_ok. apply andb_true_iff. split; [now apply chainb_iff|].
  apply forallb_forall. intros r Hin. destruct (lineage_exists _ _ _ _ _ _ Hst Hin) as (iv & s0 & v & Hl).
  pose proof (lineage_facts _ _ _ _ _ _ _ _ Hl) as (_ & _ & _ & _ & Hpay & _).
  unfold payload in Hpay. injection Hpay as H1 H2 H3. unfold same_payload. rewrite H1, H2, H3. now rewrite !Z.eqb_refl.
Qed.

Lemma bidi_of_staged e x sc vt fc : staged e x sc vt fc -> bidi_ok (e_bidi e) x fc = true.
Proof.
  intros Hst. unfold bidi_ok. apply forallb_forall. intros r Hin.
  destruct (lineage_exists _ _ _ _ _ _ Hst Hin) as (iv & s0 & v & Hl).
  pose proof (lineage_facts _ _ _ _ _ _ _ _ Hl) as (Hrg & Hprog & _).
  apply existsb_exists. exists iv. split; [apply Hl|].
  destruct iv as ((a, b), rtl). cbn [fst snd] in *. unfold in_interval. rewrite Hprog, eqb_reflx.
  rewrite !leb_true by lia. reflexivity.
Qed.

Lemma strong_of_staged e x sc vt fc : staged e x sc vt fc -> strong_ok (e_text e) fc = true.
Proof.
  intros Hst. unfold strong_ok. apply forallb_forall. intros r Hin.
  destruct (lineage_exists _ _ _ _ _ _ Hst Hin) as (iv & s0 & v & Hl).
  pose proof (lineage_facts _ _ _ _ _ _ _ _ Hl) as (Hrg & _ & Hsc & _).
  destruct Hl as [_ (ps & (_ & _ & Hu & _) & Hsps) _ _ _].
  pose proof (Forall_in _ _ _ Hu Hsps) as Hus.
  apply all_pos_true. intros i Hi. destruct (strong (o_script (obs_at (e_text e) i))) eqn:Es; auto. cbn.
  apply Z.eqb_eq. rewrite Hsc. apply Hus; auto. lia.
Qed.

(* every position of a script-stage run is covered by an output run with the same script *)
Lemma descend e x sc vt fc s0 pos : staged e x sc vt fc -> In s0 sc -> i_start s0 <= pos < i_end s0 ->
  exists r, In r fc /\ i_start r <= pos < i_end r /\ i_script r = i_script s0.
Proof.
  intros (Hcb & Hrs & Hcs & Hrv & Hcv & Hrf & Hcf) Hs Hp.
  pose proof (lang_fix_fields e s0) as (Hl1 & Hl2 & _ & Hl4 & _).
  assert (Hv : exists v, In v vt /\ i_start v <= pos < i_end v /\ i_script v = i_script s0).
  { destruct (resolve_orientation x).
    - destruct (stage_rel_part _ _ _ (lang_fix e s0) Hrv) as (pv & ((Hc & _) & Hk & _) & Hincl); [now apply in_map|].
      destruct (chain_cover _ _ _ pos Hc) as (v & Hv & Hvp); [lia|].
      exists v. repeat split; auto; try lia. pose proof (Forall_in _ _ _ Hk Hv) as (_ & Hsv & _). congruence.
    - subst vt. exists (lang_fix e s0). repeat split; auto; try lia. now apply in_map. }
  destruct Hv as (v & Hv & Hvp & Hvs).
  destruct (stage_rel_part _ _ _ v Hrf Hv) as (pf & ((Hc & _) & Hk & _) & Hincl).
  destruct (chain_cover _ _ _ pos Hc) as (r & Hr & Hrp); [lia|].
  exists r. repeat split; auto; try lia. pose proof (Forall_in _ _ _ Hk Hr) as (_ & Hsr & _). congruence.
Qed.

(* the script of a position is the same in the script stage and in the result *)
Lemma scr_result e x sc vt fc pos c : staged e x sc vt fc -> scr sc pos c -> script_at_run fc pos = c.
Proof.
  intros Hst (s0 & Hin & Hp & Hs). pose proof Hst as (_ & _ & _ & _ & _ & _ & Hcf).
  destruct (descend e x sc vt fc s0 pos Hst Hin Hp) as (r & Hr & Hrp & Hrs).
  unfold script_at_run. rewrite (run_at_chain _ _ _ _ _ Hcf Hr Hrp). congruence.
Qed.

Lemma interval_at_chain x : forall ivs a b iv pos, chain a b (map (mk_bidi_run x) ivs) -> In iv ivs ->
  fst (fst iv) <= pos < snd (fst iv) -> interval_at ivs pos = iv.
Proof.
  unfold interval_at. induction ivs as [|iv0 ivs IH]; intros a b iv pos Hc Hin Hp; cbn [In] in Hin; [tauto|].
  cbn [map chain] in Hc. destruct Hc as (H1 & H2 & H3).
  pose proof (mk_bidi_run_fields x iv0) as (Hb1 & Hb2 & _). rewrite Hb2 in H3.
  cbn [find]. destruct Hin as [->|Hin].
  - destruct iv as ((s0, e0), rtl). cbn [fst snd] in Hp. rewrite leb_true, ltb_true by lia. reflexivity.
  - assert (Hge : snd (fst iv0) <= fst (fst iv)).
    { destruct (chain_in _ _ _ (mk_bidi_run x iv) H3) as (Ha & _); [now apply in_map|].
      pose proof (mk_bidi_run_fields x iv) as (Hc1 & _). lia. }
    destruct iv0 as ((s0, e0), rtl0). cbn [fst snd] in *.
    replace ((s0 <=? pos) && (pos <? e0)) with false by (symmetry; apply andb_false_iff; right; apply Z.ltb_ge; lia).
    eapply IH; eauto.
Qed.

Lemma brackets_of_staged e x sc vt fc : staged e x sc vt fc -> brackets_staged e x sc ->
  brackets_ok (e_text e) (e_bidi e) x fc = true.
Proof.
  intros Hst (Hm & _). pose proof Hst as (Hcb & _).
  unfold brackets_ok. apply forallb_forall. intros (i, p) Hin.
  rewrite Forall_forall in Hm. destruct (Hm _ Hin) as (bi & Hbi & (Hi & Hpi & c & Hci & Hsame & Hspan)).
  cbn [fst snd] in *.
  apply in_map_iff in Hbi. destruct Hbi as (iv & <- & Hiv).
  pose proof (mk_bidi_run_fields x iv) as (Hb1 & Hb2 & _). rewrite Hb1, Hb2 in *.
  rewrite (interval_at_chain x _ _ _ iv i Hcb Hiv Hi).
  destruct iv as ((s0, e0), rtl). cbn [fst snd] in *.
  rewrite (scr_result _ _ _ _ _ _ _ Hst Hci).
  destruct (Z_le_dec s0 p) as [Hle|Hgt].
  - rewrite leb_true, ltb_true by lia. cbn [andb]. rewrite (scr_result _ _ _ _ _ _ _ Hst (Hsame Hle)). apply Z.eqb_refl.
  - replace (s0 <=? p) with false by (symmetry; apply Z.leb_gt; lia). cbn [andb].
    rewrite (scr_result _ _ _ _ _ _ _ Hst (Hspan ltac:(lia))). apply Z.eqb_refl.
Qed.

(* neutral characters never open a script run; the only closing delimiters that do are the matched ones *)
Lemma neutrals_of_staged e x sc vt fc : staged e x sc vt fc -> brackets_staged e x sc ->
  neutrals_ok (e_text e) (intervals_of (e_bidi e) x) (map fst (delim_matches (e_text e) x)) fc = true.
Proof.
  intros Hst (_ & Hcuts). pose proof Hst as (_ & _ & _ & _ & _ & _ & Hcf).
  unfold neutrals_ok. apply forallb_forall. intros r Hin.
  destruct (lineage_exists _ _ _ _ _ _ Hst Hin) as (iv & s0 & v & Hl).
  pose proof (lineage_facts _ _ _ _ _ _ _ _ Hl) as (Hrg & _ & Hsc & _).
  destruct (chain_in _ _ _ _ Hcf Hin) as (Hx1 & Hx2 & Hx3).
  destruct (Z_lt_dec (i_start s0) (i_start r)) as [Hlt|Hge].
  - (* the rune before belongs to the same script-stage run *)
    destruct (descend e x sc vt fc s0 (i_start r - 1) Hst) as (r' & Hr' & Hp' & Hs'); [apply Hl|lia|].
    unfold script_at_run. rewrite (run_at_chain _ _ _ _ _ Hcf Hr' Hp'). rewrite Hs', Hsc, Z.eqb_refl. reflexivity.
  - assert (Heq : i_start r = i_start s0) by lia.
    rewrite Forall_forall in Hcuts. destruct (Hcuts s0 (ln_s_in _ _ _ _ _ _ _ _ Hl)) as (bi & Hbi & Hcut).
    apply in_map_iff in Hbi. destruct Hbi as (iv' & <- & Hiv').
    pose proof (mk_bidi_run_fields x iv') as (Hb1 & _). rewrite Hb1 in Hcut.
    destruct Hcut as [Hst0|[Hstr|Hcl]].
    + rewrite !orb_true_iff. left. left. right.
      apply existsb_exists. exists iv'. split; auto. apply Z.eqb_eq. lia.
    + rewrite !orb_true_iff. left. right. rewrite Heq. exact Hstr.
    + rewrite !orb_true_iff. right. apply existsb_exists. exists (i_start r). split; [|apply Z.eqb_refl].
      rewrite Heq. exact Hcl.
Qed.

Lemma orient_of_staged e x sc vt fc : staged e x sc vt fc -> orient_ok (e_text e) x fc = true.
Proof.
  intros Hst. unfold orient_ok. destruct (resolve_orientation x) eqn:Ero; apply forallb_forall; intros r Hin;
    destruct (lineage_exists _ _ _ _ _ _ Hst Hin) as (iv & s0 & v & Hl);
    pose proof (lineage_facts _ _ _ _ _ _ _ _ Hl) as (Hrg & _ & Hsc & _ & _ & _ & _ & Hdir & Hkeep).
  - destruct Hl as [_ _ _ Hv _]. rewrite Ero in Hv. destruct Hv as (pv & (_ & _ & Hu) & Hvpv).
    destruct (Forall_in _ _ _ Hu Hvpv) as (Hve & Hos & Hside).
    pose proof (lang_fix_fields e s0) as (_ & _ & _ & Hl4 & _).
    rewrite Hdir, Hve, Hos. cbn. apply all_pos_true. intros i Hi.
    rewrite Hsc, <- Hl4, Hside by lia. apply eqb_reflx.
  - destruct (Hkeep Ero) as (-> & -> & ->). now rewrite !eqb_reflx.
Qed.

Lemma face_of_staged e x sc vt fc : staged e x sc vt fc -> face_ok (e_text e) (e_hint e) fc = true.
Proof.
  intros Hst. unfold face_ok. apply forallb_forall. intros r Hin.
  destruct (lineage_exists _ _ _ _ _ _ Hst Hin) as (iv & s0 & v & Hl).
  pose proof (lineage_facts _ _ _ _ _ _ _ _ Hl) as (Hrg & _ & Hsc & Hscv & _).
  destruct Hl as [_ _ _ _ (pf & (_ & _ & Hu) & Hrpf)].
  destruct (Forall_in _ _ _ Hu Hrpf) as (Hun & Hnn).
  assert (Hkey : face_key (e_hint e) r = face_key (e_hint e) v) by (unfold face_key; destruct (e_hint e); congruence).
  rewrite Hkey. apply andb_true_iff. split.
  - apply all_pos_true. intros i Hi. cbv zeta.
    destruct (o_ignore (obs_at (e_text e) i)) eqn:Eig; auto. cbn.
    destruct (Z.eqb_spec (face_of (obs_at (e_text e) i) (face_key (e_hint e) v)) 0) as [|Hnz]; auto. cbn.
    apply Z.eqb_eq. apply Hun; auto.
  - destruct (Z.eqb_spec (i_face r) 0) as [Hz|]; [|now rewrite orb_true_r].
    destruct (Hnn Hz) as (i & Hi & Hi0). rewrite orb_false_r. apply negb_true_iff.
    destruct (all_pos r _) eqn:Ea; auto. rewrite all_pos_true in Ea. specialize (Ea i Hi). rewrite Hi0 in Ea. discriminate.
Qed.

Lemma lang_of_staged e x sc vt fc : staged e x sc vt fc -> lang_ok (e_langid e) (e_use e) (e_stl e) x fc = true.
Proof.
  intros Hst. unfold lang_ok.
  assert (H : forall r, In r fc -> exists s0, i_script r = i_script s0 /\ i_lang r = i_lang (lang_fix e s0) /\ i_lang s0 = i_lang x).
  { intros r Hin. destruct (lineage_exists _ _ _ _ _ _ Hst Hin) as (iv & s0 & v & Hl).
    pose proof (lineage_facts _ _ _ _ _ _ _ _ Hl) as (_ & _ & Hsc & _ & _ & Hlang & Hls & _). eauto. }
  unfold lang_fix in H. destruct (e_langid e) as [id|]; apply forallb_forall; intros r Hin;
    destruct (H r Hin) as (s0 & Hsc & Hlang & Hls).
  - cbn [i_lang set_lang] in Hlang. unfold enforce_lang in Hlang. rewrite <- Hsc in Hlang.
    destruct (e_use e (i_script r)); [now apply Z.eqb_eq|].
    destruct (e_stl e (i_script r) =? 0); now apply Z.eqb_eq.
  - apply Z.eqb_eq. congruence.
Qed.

(* the empty range *)
Lemma empty_range_lemma e s x : i_end x <= i_start x -> exists runs, split_runs e s x = Ok runs /\ empty_ok e x runs = true.
Proof.
  intros Hle. rewrite split_runs_pure. unfold split_pure, split_by_bidi.
  rewrite leb_true by auto. cbn [bind].
  assert (Hn : Z.to_nat (i_end x - i_start x) = O) by lia.
  unfold split_by_script, pass, run_loop. rewrite Hn. cbn [gloop bind fst snd app].
  set (y := set_end (set_script x SC_COMMON) (i_end x)).
  assert (Hl : exists l, enforce_languages (e_langid e) (e_use e) (e_stl e) [y] = Ok [l] /\ input_eqb l (empty_result e x) = true
                          /\ i_start l = i_start x /\ i_end l = i_end x).
  { unfold enforce_languages, empty_result. destruct (e_langid e) as [id|]; eexists; (split; [reflexivity|]);
      (split; [|split; reflexivity]); unfold input_eqb; cbn; rewrite !Z.eqb_refl, !eqb_reflx; reflexivity. }
  destruct Hl as (l & -> & Heq & Hs & He). cbn [bind].
  assert (Hn2 : Z.to_nat (i_end l - i_start l) = O) by lia.
  assert (Hv : (if resolve_orientation x then split_by_vert (e_text e) [l] else Ok [l]) = Ok [set_end l (i_end l)] \/
               (if resolve_orientation x then split_by_vert (e_text e) [l] else Ok [l]) = Ok [l]).
  { destruct (resolve_orientation x); auto. left. unfold split_by_vert, pass, run_loop. rewrite Hn2. reflexivity. }
  assert (Hse : set_end l (i_end l) = l) by (destruct l; reflexivity).
  rewrite Hse in Hv. assert (Hv' : (if resolve_orientation x then split_by_vert (e_text e) [l] else Ok [l]) = Ok [l]) by tauto.
  rewrite Hv'. cbn [bind]. unfold split_by_face, pass, run_loop. rewrite Hn2. cbn [gloop bind fst snd app]. rewrite Hse.
  eexists. split; [reflexivity|]. exact Heq.
Qed.

(* ---- statements used by Props/C07.v --------------------------------------------------------------------- *)
Definition pre (e : env) (x : input) : Prop :=
  range_ok e x = true /\ bidi_wf (i_end x - i_start x) (e_bidi e) = true.

Lemma partition_lemma e s x : pre e x -> exists runs, split_runs e s x = Ok runs /\ partition_ok x runs = true.
Proof. intros (Hr & Hw). destruct (split_main e s x Hr Hw) as (runs & sc & vt & H & Hst & _). eauto using partition_of_staged. Qed.

Lemma bidi_lemma e s x : pre e x -> exists runs, split_runs e s x = Ok runs /\ bidi_ok (e_bidi e) x runs = true.
Proof. intros (Hr & Hw). destruct (split_main e s x Hr Hw) as (runs & sc & vt & H & Hst & _). eauto using bidi_of_staged. Qed.

Lemma script_of_staged e x sc vt fc : staged e x sc vt fc -> brackets_staged e x sc ->
  script_ok (e_text e) (e_bidi e) x fc = true.
Proof.
  intros Hst Hbr. unfold script_ok.
  rewrite (strong_of_staged _ _ _ _ _ Hst), (brackets_of_staged _ _ _ _ _ Hst Hbr), (neutrals_of_staged _ _ _ _ _ Hst Hbr).
  reflexivity.
Qed.

Lemma script_lemma e s x : pre e x -> exists runs, split_runs e s x = Ok runs /\ script_ok (e_text e) (e_bidi e) x runs = true.
Proof.
  intros (Hr & Hw). destruct (split_main e s x Hr Hw) as (runs & sc & vt & H & Hst & Hbr). eauto using script_of_staged.
Qed.

Lemma orient_lemma e s x : pre e x -> exists runs, split_runs e s x = Ok runs /\ orient_ok (e_text e) x runs = true.
Proof. intros (Hr & Hw). destruct (split_main e s x Hr Hw) as (runs & sc & vt & H & Hst & _). eauto using orient_of_staged. Qed.

Lemma face_lemma e s x : pre e x -> exists runs, split_runs e s x = Ok runs /\ face_ok (e_text e) (e_hint e) runs = true.
Proof. intros (Hr & Hw). destruct (split_main e s x Hr Hw) as (runs & sc & vt & H & Hst & _). eauto using face_of_staged. Qed.

Lemma lang_lemma e s x : pre e x -> exists runs, split_runs e s x = Ok runs /\ lang_ok (e_langid e) (e_use e) (e_stl e) x runs = true.
Proof. intros (Hr & Hw). destruct (split_main e s x Hr Hw) as (runs & sc & vt & H & Hst & _). eauto using lang_of_staged. Qed.

(* everything at once, for the same result: the whole specification *)
Lemma all_lemma e s x : pre e x -> exists runs, split_runs e s x = Ok runs /\ check_itemization e x runs = true.
Proof.
  intros (Hr & Hw). destruct (split_main e s x Hr Hw) as (runs & sc & vt & H & Hst & Hbr). exists runs. split; auto.
  unfold check_itemization.
  rewrite (partition_of_staged _ _ _ _ _ Hst), (bidi_of_staged _ _ _ _ _ Hst), (script_of_staged _ _ _ _ _ Hst Hbr),
    (orient_of_staged _ _ _ _ _ Hst), (face_of_staged _ _ _ _ _ Hst), (lang_of_staged _ _ _ _ _ Hst). reflexivity.
Qed.

Lemma state_independent_lemma e s x : split_runs e s x = split_runs e seg_zero x.
Proof. now rewrite !split_runs_pure. Qed.

Lemma history_total_lemma h : (forall e x, In (e, x) h -> pre e x \/ i_end x <= i_start x) -> exists s, run_history h seg_zero = Ok s.
Proof.
  intros Hall. apply run_history_ok. intros e x Hin. rewrite <- (split_runs_pure e seg_zero x).
  destruct (Hall e x Hin) as [Hp|He].
  - destruct (partition_lemma e seg_zero x Hp) as (r & Hr & _). eauto.
  - destruct (empty_range_lemma e seg_zero x He) as (r & Hr & _). eauto.
Qed.
