(* otLayoutDeleteGlyphsInplace / hideDefaultIgnorables (Model/Engine.v) preserve the buffer invariant WF. *)
From TV Require Import Model.Buffer Spec.Buffer Proofs.ShapeGlue Proofs.Buffer Proofs.BufferOps Proofs.BufferNewOps Proofs.BufferAll.
From TV Require Import Model.Engine Proofs.Engine.

(* ---------- stutter-subsequences compose ---------- *)

Lemma ss_trans a b : ss a b -> forall c, ss b c -> ss a c.
Proof.
  induction 1 as [l|x l l' H IH|x l l' H IH]; intros c H2.
  - inversion H2. constructor.
  - remember (x :: l') as m eqn:Em. induction H2 as [m|y m m' H2 IH2|y m m' H2 IH2].
    + constructor.
    + inversion Em; subst. apply ss_keep. apply IH2. reflexivity.
    + inversion Em; subst. apply IH. exact H2.
  - apply ss_skip. apply IH. exact H2.
Qed.

(* ---------- edits of Info that keep every cluster value ---------- *)

Lemma virt_cls j i (l l' : list glyph) : cls l' = cls l -> cls (zfirstn j l' ++ zskipn i l') = cls (zfirstn j l ++ zskipn i l).
Proof. intros E. rewrite !cls_app, !cls_zfirstn, !cls_zskipn, E. reflexivity. Qed.

Lemma set_info_cls b k x : 0 <= k -> k < zlen (info b) -> cl x = cl (nth (Z.to_nat k) (info b) g0) ->
  cls (info (set_info b k x)) = cls (info b).
Proof.
  intros H0 H1 E. unfold set_info. cbn [info with_info].
  transitivity (cls (zfirstn k (info b) ++ zskipn k (info b))); [|rewrite zfirstn_zskipn; reflexivity].
  rewrite (zskipn_cons (info b) k) by lia. rewrite !cls_app. cbn [cls map app]. rewrite E. reflexivity.
Qed.

Lemma cl_or_gf_of s g : cl (or_gf_of s g) = cl g.
Proof. reflexivity. Qed.

Lemma zfirstn_snoc (l : list glyph) j : 0 < j -> j <= zlen l -> zfirstn j l = zfirstn (j - 1) l ++ [nth (Z.to_nat (j - 1)) l g0].
Proof.
  intros H0 H1.
  assert (E : forall k, zfirstn k l = slice 0 k l) by (intros k; unfold slice; rewrite zskipn_0, Z.sub_0_r; reflexivity).
  rewrite !E. rewrite (slice_split l 0 (j - 1) j) by lia. f_equal.
  rewrite (slice_cons g0 (j - 1) j l) by lia. replace (j - 1 + 1) with j by lia.
  unfold slice. rewrite zfirstn_neg by lia. reflexivity.
Qed.

(* ---------- the loop invariant: the virtual sequence (kept glyphs ++ unread glyphs) is a stutter-subsequence of the
              cluster sequence the loop started from, and while it is non-empty its smallest value is the smallest
              value the loop started from ---------- *)

Definition oinv (l0 : list Z) (n lv : Z) (st : buffer * Z) (i : Z) : Prop :=
  let '(b, j) := st in
  zlen (info b) = n /\ have_out b = false /\ idx b = 0 /\ level b = lv /\ 0 <= j /\ j <= i
  /\ ss l0 (cls (zfirstn j (info b) ++ zskipn i (info b)))
  /\ (cls (zfirstn j (info b) ++ zskipn i (info b)) <> [] -> lmin (cls (zfirstn j (info b) ++ zskipn i (info b))) = lmin l0).

Lemma oldgi_step_ok l0 n lv filt b j i : (lv =? 2) = false -> oinv l0 n lv (b, j) i -> 0 <= i -> i < n ->
  exists st', oldgi_step filt n (Ok (b, j)) i = Ok st' /\ oinv l0 n lv st' (i + 1).
Proof.
  intros Hlv (Ln & Hh & Hi & Elv & J0 & J1 & S0 & M0) I0 I1.
  unfold oldgi_step. cbn [bind]. set (inf := info b) in *. set (g := nth (Z.to_nat i) inf g0).
  assert (EV : zfirstn j inf ++ zskipn i inf = zfirstn j inf ++ g :: zskipn (i + 1) inf).
  { rewrite (zskipn_cons inf i) by lia. reflexivity. }
  rewrite EV in S0, M0.
  assert (Hne : cls (zfirstn j inf ++ g :: zskipn (i + 1) inf) <> []).
  { rewrite cls_app. intros N. apply app_eq_nil in N. destruct N as [_ N]. discriminate N. }
  pose proof (M0 Hne) as HM0. clear M0.
  pose proof (lmin_in _ Hne) as HMin.
  assert (Mle : forall x, In x (cls (zfirstn j inf ++ g :: zskipn (i + 1) inf)) ->
                  lmin (cls (zfirstn j inf ++ g :: zskipn (i + 1) inf)) <= x) by (intros; apply lmin_le; assumption).
  remember (lmin (cls (zfirstn j inf ++ g :: zskipn (i + 1) inf))) as M eqn:EM.
  assert (Hg_old : In (cl g) (cls (zfirstn j inf ++ g :: zskipn (i + 1) inf))).
  { apply in_cls_app. right. left. reflexivity. }
  (* closing a case: the new state, with the new virtual sequence a stutter-subsequence of the old one that keeps M *)
  assert (Done : forall b' j', zlen (info b') = n -> have_out b' = false -> idx b' = 0 -> level b' = lv -> 0 <= j' -> j' <= i + 1 ->
            ss (cls (zfirstn j inf ++ g :: zskipn (i + 1) inf)) (cls (zfirstn j' (info b') ++ zskipn (i + 1) (info b'))) ->
            (cls (zfirstn j' (info b') ++ zskipn (i + 1) (info b')) <> [] -> In M (cls (zfirstn j' (info b') ++ zskipn (i + 1) (info b')))) ->
            exists st', Ok (b', j') = Ok st' /\ oinv l0 n lv st' (i + 1)).
  { intros b' j' A1 A2 A3 A4 A5 A6 S HinM. exists (b', j'). split; [reflexivity|]. unfold oinv.
    refine (conj A1 (conj A2 (conj A3 (conj A4 (conj A5 (conj A6 (conj _ _))))))).
    - exact (ss_trans _ _ S0 _ S).
    - intros Hn'. rewrite <- HM0, EM. apply lmin_transfer; [exact (ss_in _ _ S)|rewrite <- EM; exact (HinM Hn')]. }
  (* the virtual sequence does not change *)
  assert (Same : forall b' j', zlen (info b') = n -> have_out b' = false -> idx b' = 0 -> level b' = lv -> 0 <= j' -> j' <= i + 1 ->
            cls (zfirstn j' (info b') ++ zskipn (i + 1) (info b')) = cls (zfirstn j inf ++ g :: zskipn (i + 1) inf) ->
            exists st', Ok (b', j') = Ok st' /\ oinv l0 n lv st' (i + 1)).
  { intros b' j' A1 A2 A3 A4 A5 A6 E. apply Done; auto; rewrite E; [apply ss_refl|intros _; exact HMin]. }
  (* the glyph is dropped, Info is edited without changing a cluster value; its cluster value survives if it is the minimum *)
  assert (DropC : forall b', have_out b' = false -> idx b' = 0 -> level b' = lv -> cls (info b') = cls inf ->
            (cls (zfirstn j inf ++ zskipn (i + 1) inf) <> [] -> M = cl g -> In (cl g) (cls (zfirstn j inf ++ zskipn (i + 1) inf))) ->
            exists st', Ok (b', j) = Ok st' /\ oinv l0 n lv st' (i + 1)).
  { intros b' A2 A3 A4 Ec HK. apply Done; auto; try lia.
    - rewrite (cls_eq_zlen _ _ Ec). exact Ln.
    - rewrite (virt_cls j (i + 1) inf (info b') Ec).
      rewrite !cls_app. change (cls (g :: zskipn (i + 1) inf)) with ([cl g] ++ cls (zskipn (i + 1) inf)).
      apply ss_remove.
    - rewrite (virt_cls j (i + 1) inf (info b') Ec). intros Hn'.
      destruct (Z.eq_dec M (cl g)) as [EMg|NM]; [rewrite EMg; apply HK; auto|].
      apply in_cls_app in HMin. apply in_cls_app. destruct HMin as [H|H]; [left; exact H|].
      destruct H as [H|H]; [congruence|right; exact H]. }
  assert (Hpj : 0 < j -> In (cl (nth (Z.to_nat (j - 1)) inf g0)) (cls (zfirstn j inf))).
  { intros Hj. rewrite (zfirstn_snoc inf j) by lia. apply in_cls_app. right. left. reflexivity. }
  destruct (filt g).
  - destruct ((i + 1 <? n) && (cl g =? cl (nth (Z.to_nat (i + 1)) inf g0))) eqn:Hnx.
    { apply andb_prop in Hnx. destruct Hnx as [Hn1 Hn2]. apply Z.ltb_lt in Hn1. apply Z.eqb_eq in Hn2.
      apply DropC; auto.
      - apply set_info_cls; fold inf; try lia. apply cl_or_gf_of.
      - intros _ _. apply in_cls_app. right. rewrite (zskipn_cons inf (i + 1)) by lia. left. symmetry. exact Hn2. }
    destruct (Z.eqb_spec j 0) as [J00|JN]; cbn [negb].
    + destruct (Z.ltb_spec (i + 1) n) as [Hnext|Hlast].
      2:{ apply DropC; auto. intros Hn'. exfalso. apply Hn'. rewrite zfirstn_neg, zskipn_all by lia. reflexivity. }
      assert (Hlb : (level b =? 2) = false) by (rewrite Elv; exact Hlv). assert (Ln2 : zlen (info b) = n) by exact Ln.
      destruct (merge_clusters_view b i (i + 2) Hlb) as (s' & e' & k & c & A1 & A2 & A3 & A4 & A5 & A6 & A7 & A8 & A9 & A10 & A11 & E); try lia.
      rewrite E. cbn [bind]. fold inf in A5, A9, A10, A11, E |- *.
      subst j.
      assert (EO : cls (zfirstn 0 inf ++ g :: zskipn (i + 1) inf) = cls (slice i e' inf) ++ cls (zskipn e' inf)).
      { rewrite zfirstn_neg by lia. cbn [app]. unfold g. rewrite <- (zskipn_cons inf i) by lia.
        rewrite (zskipn_slice inf i (e' - i)) by lia. replace (i + (e' - i)) with e' by lia. apply cls_app. }
      assert (EN : cls (zfirstn 0 (map_range (set_cluster c fl0) s' e' inf) ++ zskipn (i + 1) (map_range (set_cluster c fl0) s' e' inf))
                   = map (fun _ => c) (slice (i + 1) e' inf) ++ cls (zskipn e' inf)).
      { rewrite zfirstn_neg by lia. cbn [app]. rewrite zskipn_map_range by lia. rewrite cls_app, cls_set_cluster. reflexivity. }
      assert (Hc_in : In c (cls (slice i e' inf))).
      { unfold cls in *. apply in_map_iff in A9. destruct A9 as (x & Ex & Hx). apply in_map_iff. exists x. split; [exact Ex|].
        apply (slice_incl inf i i (i + 2) e'); auto; lia. }
      apply Done; cbn [info have_out idx level with_info with_out]; auto; try lia.
      * rewrite zlen_map_range by lia. exact Ln.
      * rewrite EN, EO. rewrite (slice_cons g0 i e' inf) by lia.
        rewrite (slice_cons g0 i e' inf) in Hc_in by lia.
        change (cls (nth (Z.to_nat i) inf g0 :: slice (i + 1) e' inf)) with ([cl (nth (Z.to_nat i) inf g0)] ++ cls (slice (i + 1) e' inf)) in *.
        rewrite <- (app_nil_l (([_] ++ _) ++ _)). rewrite <- (app_nil_l (map _ _ ++ _)).
        apply (ss_block _ _ _ _ c); [exact Hc_in|].
        (* one element fewer on the right: a constant list is a stutter of the block anyway *)
        apply Forall_const_map.
      * rewrite EN. intros _. rewrite EO in HMin, Mle. apply in_app_or in HMin. apply in_or_app.
        destruct HMin as [H|H]; [left|right; exact H].
        assert (M = c).
        { assert (c <= M).
          { rewrite Forall_forall in A11. apply A11. unfold cls in *. apply in_map_iff in H. destruct H as (x & Ex & Hx).
            apply in_map_iff. exists x. split; [exact Ex|]. apply (slice_incl inf s' i e' e'); auto; lia. }
          pose proof (Mle c ltac:(apply in_or_app; left; exact Hc_in)). lia. }
        subst c. apply in_map_const_intro. intros N. assert (Z1 : zlen (slice (i + 1) e' inf) = e' - (i + 1)) by (apply zlen_slice; lia). rewrite N, zlen_nil in Z1. lia.
    + set (pj := nth (Z.to_nat (j - 1)) inf g0).
      assert (Hpj' : In (cl pj) (cls (zfirstn j inf))) by (apply Hpj; lia).
      destruct (Z.eqb_spec (cl g) (cl pj)) as [Ecp|Ncp].
      * destruct (Z.ltb_spec (cl g) (cl pj)); [lia|].
        apply DropC; auto.
        -- apply set_info_cls; fold inf; try lia. rewrite cl_or_gf_of. reflexivity.
        -- intros _ _. apply in_cls_app. left. rewrite Ecp. exact Hpj'.
      * fold inf.
        destruct (Z.ltb_spec (cl g) (cl pj)).
        2:{ apply DropC; auto. intros _ EMg. exfalso.
            pose proof (Mle (cl pj) ltac:(apply in_cls_app; left; exact Hpj')). lia. }
        set (oldC := cl pj).
        assert (Kpos : 0 < run_eq oldC (rev (zfirstn j inf))).
        { rewrite (zfirstn_snoc inf j) by lia. rewrite rev_app_distr. cbn [rev app run_eq]. fold pj. unfold oldC. rewrite Z.eqb_refl.
          pose proof (run_eq_bound (cl pj) (rev (zfirstn (j - 1) inf))). lia. }
        pose proof (run_eq_bound oldC (rev (zfirstn j inf))) as Bk. rewrite zlen_rev, zlen_zfirstn in Bk by lia.
        set (k := run_eq oldC (rev (zfirstn j inf))) in *.
        destruct (map_range_view (set_cluster (cl g) (gf g)) (j - k) j inf) as (l1 & l2 & l3 & EI & L1 & L2 & _ & V); try lia.
        assert (L12 : zlen (l1 ++ l2) = j) by (rewrite zlen_app; lia).
        assert (L12' : zlen (l1 ++ map (set_cluster (cl g) (gf g)) l2) = j) by (rewrite zlen_app, zlen_map; lia).
        assert (F1 : zfirstn j ((l1 ++ l2) ++ l3) = l1 ++ l2) by (rewrite <- L12; apply zfirstn_app_exact).
        assert (F2 : zfirstn j ((l1 ++ map (set_cluster (cl g) (gf g)) l2) ++ l3) = l1 ++ map (set_cluster (cl g) (gf g)) l2)
          by (rewrite <- L12'; apply zfirstn_app_exact).
        assert (F1' : zfirstn j inf = l1 ++ l2) by (rewrite EI, app_assoc; exact F1).
        assert (FA : Forall (fun x => cl x = oldC) l2).
        { assert (FAr : Forall (fun x => cl x = oldC) (rev l2)).
          { apply (run_eq_app_all oldC (rev l2) (rev l1)). rewrite zlen_rev, <- rev_app_distr, <- F1'. change (zlen l2 <= k). lia. }
          rewrite Forall_forall in *. intros x Hx. apply FAr. apply in_rev in Hx. exact Hx. }
        assert (EO : cls (zfirstn j inf ++ g :: zskipn (i + 1) inf) = cls l1 ++ cls l2 ++ [cl g] ++ cls (zskipn (i + 1 - j) l3)).
        { rewrite F1'. rewrite EI at 1. rewrite (app_assoc l1 l2 l3). rewrite zskipn_app_ge by lia. rewrite L12.
          rewrite <- !app_assoc, !cls_app. reflexivity. }
        assert (EN : cls (zfirstn j (map_range (set_cluster (cl g) (gf g)) (j - k) j inf) ++ zskipn (i + 1) (map_range (set_cluster (cl g) (gf g)) (j - k) j inf))
                     = cls l1 ++ map (fun _ => cl g) l2 ++ cls (zskipn (i + 1 - j) l3)).
        { rewrite V. rewrite (app_assoc l1 (map _ l2) l3). rewrite F2. rewrite zskipn_app_ge by lia. rewrite L12'.
          rewrite <- !app_assoc, !cls_app, cls_set_cluster. reflexivity. }
        apply Done; cbn [info have_out idx level with_info]; auto; try lia.
        -- rewrite zlen_map_range by lia. exact Ln.
        -- rewrite EN, EO. rewrite (app_assoc (cls l2)).
           apply (ss_block _ _ _ _ (cl g)); [apply in_or_app; right; left; reflexivity|apply Forall_const_map].
        -- rewrite EN. intros _. rewrite EO in HMin, Mle.
           pose proof (Mle (cl g) ltac:(apply in_or_app; right; apply in_or_app; right; left; reflexivity)) as Mg.
           apply in_app_or in HMin. destruct HMin as [HM1|HM1]; [apply in_or_app; left; exact HM1|].
           apply in_app_or in HM1. destruct HM1 as [HM2|HM2].
           ++ exfalso. unfold cls in HM2. apply in_map_iff in HM2. destruct HM2 as (x & Ex & Hx).
              rewrite Forall_forall in FA. rewrite (FA x Hx) in Ex. unfold oldC in Ex. lia.
           ++ apply in_or_app. right. apply in_or_app. destruct HM2 as [HM3|HM3]; [left|right; exact HM3].
              rewrite <- HM3. apply in_map_const_intro. intros N. rewrite N, zlen_nil in L2. lia.
  - destruct (Z.eqb_spec j i) as [Eji|Nji].
    + apply Same; auto; try lia. fold inf. subst j. rewrite <- EV, !zfirstn_zskipn. reflexivity.
    + assert (Lf : zlen (zfirstn j inf ++ [g]) = j + 1) by (rewrite zlen_app, zlen_zfirstn, zlen_cons, zlen_nil; lia).
      apply Same; cbn [info have_out idx level with_info]; auto; try lia.
      { rewrite !zlen_app, zlen_zfirstn, zlen_zskipn, zlen_cons, zlen_nil by lia. lia. }
      rewrite (app_assoc (zfirstn j inf) [g]).
      rewrite <- Lf at 1. rewrite zfirstn_app_exact. rewrite zskipn_app_ge by lia. rewrite Lf.
      rewrite zskipn_zskipn by lia. replace (j + 1 + (i + 1 - (j + 1))) with (i + 1) by lia.
      rewrite <- app_assoc. reflexivity.
Qed.

Lemma oldgi_fold l0 n lv filt : (lv =? 2) = false -> forall k a st, oinv l0 n lv st (Z.of_nat a) -> Z.of_nat a + Z.of_nat k <= n ->
  exists st', fold_left (oldgi_step filt n) (map Z.of_nat (seq a k)) (Ok st) = Ok st' /\ oinv l0 n lv st' (Z.of_nat a + Z.of_nat k).
Proof.
  intros Hlv. induction k as [|k IH]; intros a st Inv Hb.
  - exists st. split; [reflexivity|]. rewrite Z.add_0_r. exact Inv.
  - cbn [seq map fold_left]. destruct st as [b j].
    destruct (oldgi_step_ok l0 n lv filt b j (Z.of_nat a) Hlv Inv) as (st1 & E1 & Inv1); try lia.
    rewrite E1. replace (Z.of_nat a + 1) with (Z.of_nat (S a)) in Inv1 by lia.
    destruct (IH (S a) st1 Inv1) as (st' & E & Inv'); [lia|].
    exists st'. split; [exact E|]. replace (Z.of_nat a + Z.of_nat (S k)) with (Z.of_nat (S a) + Z.of_nat k) by lia. exact Inv'.
Qed.

(* everything about the loop, for EVERY buffer without output in progress (no WF needed): no panic, the cluster sequence
   of the result is a stutter-subsequence of the input's, the smallest cluster value survives while a glyph remains *)
Lemma ot_delete_glyphs_inplace_core filt b : (level b =? 2) = false -> have_out b = false -> idx b = 0 ->
  exists b', ot_delete_glyphs_inplace filt b = Ok b' /\ level b' = level b /\ have_out b' = false /\ idx b' = 0
    /\ zlen (info b') <= zlen (info b)
    /\ ss (cls (info b)) (cls (info b'))
    /\ (info b' <> [] -> lmin (cls (info b')) = lmin (cls (info b))).
Proof.
  intros Hl Hh Hi.
  unfold ot_delete_glyphs_inplace. set (n := zlen (info b)). pose proof (zlen_nonneg (info b)) as Hn. fold n in Hn.
  destruct (oldgi_fold (cls (info b)) n (level b) filt Hl (Z.to_nat n) 0%nat (b, 0)) as ([b' j] & E & Inv); try lia.
  { unfold oinv. rewrite zfirstn_neg, zskipn_0 by lia. cbn [app]. repeat split; auto; try lia. apply ss_refl. }
  unfold zseq. rewrite E. cbn [bind].
  destruct Inv as (Ln & Hh' & Hi' & Elv & J0 & J1 & S & HM).
  replace (Z.of_nat 0 + Z.of_nat (Z.to_nat n)) with n in * by lia.
  rewrite zskipn_all, app_nil_r in S, HM by lia.
  eexists. split; [reflexivity|]. cbn [level idx info have_out with_pos with_info].
  split; [exact Elv|]. split; [exact Hh'|]. split; [exact Hi'|].
  split; [rewrite zlen_zfirstn by lia; lia|]. split; [exact S|].
  intros Hne. apply HM. intros N. apply Hne. unfold cls in N. apply map_eq_nil in N. exact N.
Qed.

Lemma ot_delete_glyphs_inplace_wf lo hi filt b :
  (level b =? 2) = false -> WF lo hi b = true -> have_out b = false -> idx b = 0 ->
  exists b', ot_delete_glyphs_inplace filt b = Ok b' /\ WF lo hi b' = true /\ level b' = level b /\ have_out b' = false /\ idx b' = 0
    /\ ss (cls (info b)) (cls (info b')).
Proof.
  intros Hl Hw Hh Hi.
  destruct (ot_delete_glyphs_inplace_core filt b Hl Hh Hi) as (b' & E & Elv & Hh' & Hi' & Ln & S & _).
  exists b'. split; [exact E|]. split; [|repeat split; auto].
  pose proof (zlen_nonneg (info b')).
  apply (WF_ss lo hi b); auto; try lia.
  rewrite (bseq_nohave b Hh), (bseq_nohave b' Hh'). exact S.
Qed.

Lemma ot_delete_glyphs_inplace_ss filt b b' : (level b =? 2) = false -> have_out b = false -> idx b = 0 ->
  ot_delete_glyphs_inplace filt b = Ok b' -> ss (cls (info b)) (cls (info b')).
Proof.
  intros Hl Hh Hi E. destruct (ot_delete_glyphs_inplace_core filt b Hl Hh Hi) as (b1 & E1 & _ & _ & _ & _ & S & _).
  rewrite E in E1. inversion E1; subst b1. exact S.
Qed.

(* deleting never loses the smallest cluster value while a glyph remains *)
Lemma ot_delete_glyphs_inplace_min filt b b' : (level b =? 2) = false -> have_out b = false -> idx b = 0 ->
  ot_delete_glyphs_inplace filt b = Ok b' -> info b' <> [] -> lmin (cls (info b')) = lmin (cls (info b)).
Proof.
  intros Hl Hh Hi E. destruct (ot_delete_glyphs_inplace_core filt b Hl Hh Hi) as (b1 & E1 & _ & _ & _ & _ & _ & HM).
  rewrite E in E1. inversion E1; subst b1. exact HM.
Qed.

(* ---------- hideDefaultIgnorables ---------- *)

Section Hide.
  Variable nominal : Z -> Z * bool.

  Lemma hide_default_ignorables_wf lo hi e : EWF lo hi e -> idx (eb e) = 0 ->
    exists e', hide_default_ignorables nominal e = Ok e' /\ EWF lo hi e' /\ level (eb e') = level (eb e) /\ idx (eb e') = 0 /\ dir e' = dir e.
  Proof.
    intros (Hw & Hl & Hh) Hi. unfold hide_default_ignorables.
    destruct (negb (sf_di e) || f_preserve_di e); [exists e; repeat split; auto|].
    destruct (if invisible e =? 0 then nominal 32 else (invisible e, false)) as [inv ok].
    destruct (negb (f_remove_di e) && ok).
    - eexists. split; [reflexivity|]. unfold EWF. cbn [eb with_eb dir level have_out idx with_info].
      repeat split; auto.
      apply WF_edit_info; auto. apply cls_map_keeps. intros g. destruct (is_default_ignorable g); reflexivity.
    - destruct (ot_delete_glyphs_inplace_wf lo hi is_default_ignorable (eb e) Hl Hw Hh Hi) as (b' & E & W' & L' & Hh' & I' & _).
      rewrite E. cbn [lift bind]. eexists. split; [reflexivity|]. unfold EWF. cbn [eb with_eb dir].
      repeat split; auto. rewrite L'. exact Hl.
  Qed.

  (* the cluster sequence after hiding is a stutter-subsequence of the one before, with the same smallest value *)
  Lemma hide_default_ignorables_ss e e' : (level (eb e) =? 2) = false -> have_out (eb e) = false -> idx (eb e) = 0 ->
    hide_default_ignorables nominal e = Ok e' ->
    ss (cls (info (eb e))) (cls (info (eb e')))
    /\ (info (eb e') <> [] -> lmin (cls (info (eb e'))) = lmin (cls (info (eb e)))).
  Proof.
    intros Hl Hh Hi. unfold hide_default_ignorables.
    destruct (negb (sf_di e) || f_preserve_di e); [intros H; inversion H; subst e'; split; [apply ss_refl|reflexivity]|].
    destruct (if invisible e =? 0 then nominal 32 else (invisible e, false)) as [inv ok].
    destruct (negb (f_remove_di e) && ok).
    - intros H. inversion H; subst e'. clear H. cbn [eb with_eb info with_info].
      assert (Ec : cls (map (fun g => if is_default_ignorable g then set_gid g inv else g) (info (eb e))) = cls (info (eb e))).
      { apply cls_map_keeps. intros g. destruct (is_default_ignorable g); reflexivity. }
      rewrite Ec. split; [apply ss_refl|reflexivity].
    - destruct (ot_delete_glyphs_inplace_core is_default_ignorable (eb e) Hl Hh Hi) as (b' & E & _ & _ & _ & _ & S & HM).
      rewrite E. cbn [lift bind]. intros H. inversion H; subst e'. cbn [eb with_eb]. split; assumption.
  Qed.
End Hide.

