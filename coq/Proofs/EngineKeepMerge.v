(* The two cluster-merging primitives of the buffer keep `bkeeps` (no cluster value invented, smallest value kept). *)
From TV Require Import Model.Buffer Spec.Buffer Proofs.ShapeGlue Proofs.Buffer Proofs.BufferOps Proofs.BufferNewOps Proofs.BufferAll.
From TV Require Import Model.Engine Proofs.Engine.
From TV Require Import Proofs.EngineKeep.

(* replacing a block by its smallest value *)
Lemma lkeeps_block a m z c : In c m -> Forall (fun x => c <= x) m -> lkeeps (a ++ m ++ z) (a ++ map (fun _ => c) m ++ z).
Proof.
  intros Hc Hall. assert (Hm : m <> []) by (intros N; subst m; destruct Hc).
  apply lkeeps_intro.
  - intros x Hx. apply in_app_or in Hx. destruct Hx as [Hx|Hx]; [apply in_or_app; left; exact Hx|].
    apply in_app_or in Hx. destruct Hx as [Hx|Hx].
    + apply in_map_const in Hx. subst x. apply in_or_app. right. apply in_or_app. left. exact Hc.
    + apply in_or_app. right. apply in_or_app. right. exact Hx.
  - intros _.
    assert (Hne : a ++ m ++ z <> []).
    { intros N. apply app_eq_nil in N. destruct N as [_ N]. apply app_eq_nil in N. destruct N as [N _]. contradiction. }
    pose proof (lmin_in _ Hne) as HM. set (M := lmin (a ++ m ++ z)) in *.
    apply in_app_or in HM. destruct HM as [HM|HM]; [apply in_or_app; left; exact HM|].
    apply in_app_or in HM. destruct HM as [HM|HM]; [|apply in_or_app; right; apply in_or_app; right; exact HM].
    apply in_or_app. right. apply in_or_app. left.
    assert (M <= c). { apply lmin_le. apply in_or_app. right. apply in_or_app. left. exact Hc. }
    rewrite Forall_forall in Hall. specialize (Hall M HM).
    replace M with c by lia. apply in_map_const_intro. exact Hm.
Qed.

Lemma lkeeps_block_cls (a m z : list glyph) c : In c (cls m) -> Forall (fun x => c <= x) (cls m) ->
  lkeeps (cls (a ++ m ++ z)) (cls a ++ map (fun _ => c) m ++ cls z).
Proof. intros H1 H2. rewrite !cls_app, map_const_cls. apply lkeeps_block; assumption. Qed.

(* merge_clusters_view with k made explicit *)
Lemma merge_clusters_view2 b s e : (level b =? 2) = false -> 0 <= idx b -> 0 <= s -> s + 2 <= e -> e <= zlen (info b) ->
  exists s' e' k c,
    0 <= s' /\ s' <= s /\ (idx b <= s -> idx b <= s') /\ e <= e' /\ e' <= zlen (info b)
    /\ 0 <= k /\ k <= zlen (out b) /\ (0 < k -> idx b = s')
    /\ In c (cls (slice s e (info b))) /\ Forall (fun x => c <= x) (cls (slice s e (info b)))
    /\ Forall (fun x => c <= x) (cls (slice s' e' (info b)))
    /\ (k = 0 \/ k = run_eq (cl (nth (Z.to_nat s') (info b) g0)) (rev (out b)))
    /\ merge_clusters b s e
       = Ok (with_info (with_out b (set_cluster_last k c fl0 (out b))) (map_range (set_cluster c fl0) s' e' (info b))).
Proof.
  intros Hl Hidx H0 H1 H2. unfold merge_clusters.
  destruct (Z.ltb_spec (e - s) 2); [lia|]. rewrite Hl.
  destruct (Z.leb_spec 0 s); [|lia]. destruct (Z.leb_spec e (zlen (info b))); [|lia]. cbn [andb negb].
  remember (info b) as inf eqn:Einf.
  set (c := min_cl (cl (nth (Z.to_nat s) inf g0)) (slice (s + 1) e inf)).
  set (cend := cl (nth (Z.to_nat (e - 1)) inf g0)).
  set (cstart := cl (nth (Z.to_nat s) inf g0)).
  set (e' := if c =? cend then e else e + run_eq cend (zskipn e inf)).
  set (s' := if c =? cstart then s else s - run_eq cstart (rev (slice (idx b) s inf))).
  assert (He' : e <= e' /\ e' <= zlen inf).
  { subst e'. destruct (c =? cend); [lia|]. pose proof (run_eq_bound cend (zskipn e inf)) as B.
    rewrite zlen_zskipn in B by lia. lia. }
  assert (Hs' : 0 <= s' /\ s' <= s /\ (idx b <= s -> idx b <= s')).
  { subst s'. destruct (c =? cstart); [lia|]. pose proof (run_eq_bound cstart (rev (slice (idx b) s inf))) as B.
    rewrite zlen_rev in B. unfold slice in *.
    destruct (Z_le_gt_dec s (idx b)).
    - rewrite zfirstn_neg in * by lia. cbn in B |- *. lia.
    - rewrite zlen_zfirstn in B; [lia|]. rewrite zlen_zskipn by lia. lia. }
  assert (Hc : In c (cls (slice s e inf)) /\ Forall (fun x => c <= x) (cls (slice s e inf))).
  { rewrite (slice_cons g0 s e inf) by lia. cbn [cls map]. fold (cls (slice (s + 1) e inf)).
    destruct (min_cl_spec (cl (nth (Z.to_nat s) inf g0)) (slice (s + 1) e inf)) as (A1 & A2 & A3). fold c in A1, A2, A3.
    split; [destruct A1 as [->|A1]; [left; reflexivity|right; exact A1]|constructor; [exact A2|exact A3]]. }
  assert (Hext : Forall (fun x => c <= x) (cls (slice s' e' inf))).
  { destruct Hc as [_ Hall]. destruct Hs' as (S0 & S1 & S2). destruct He' as (E0 & E1).
    rewrite (slice_split inf s' s e') by lia. rewrite (slice_split inf s e e') by lia. rewrite !cls_app.
    assert (Hcs : c <= cstart).
    { rewrite Forall_forall in Hall. apply Hall. apply in_cls. subst cstart. apply nth_in_slice; lia. }
    assert (Hce : c <= cend).
    { rewrite Forall_forall in Hall. apply Hall. apply in_cls. subst cend. apply nth_in_slice; lia. }
    apply Forall_app. split; [|apply Forall_app; split; [exact Hall|]].
    - subst s'. destruct (c =? cstart).
      + unfold slice. rewrite zfirstn_neg by lia. constructor.
      + set (k := run_eq cstart (rev (slice (idx b) s inf))) in *.
        destruct (Z_le_gt_dec s (idx b)).
        * assert (k = 0). { subst k. unfold slice at 1. rewrite zfirstn_neg by lia. reflexivity. }
          rewrite H5. unfold slice. rewrite zfirstn_neg by lia. constructor.
        * assert (Hk : zlen (slice (s - k) s inf) = k).
          { unfold slice. rewrite zlen_zfirstn; [lia|]. rewrite zlen_zskipn by lia. lia. }
          assert (Forall (fun g => cl g = cstart) (rev (slice (s - k) s inf))).
          { apply (run_eq_app_all cstart _ (rev (slice (idx b) (s - k) inf))). rewrite zlen_rev, Hk.
            rewrite <- rev_app_distr, <- slice_split by lia. subst k. lia. }
          apply Forall_forall. intros x Hx. apply in_map_iff in Hx. destruct Hx as (gx & <- & Hg).
          rewrite Forall_forall in H5. rewrite (H5 gx); [exact Hcs|]. apply in_rev. rewrite rev_involutive. exact Hg.
    - subst e'. destruct (c =? cend).
      + unfold slice. rewrite zfirstn_neg by lia. constructor.
      + set (k := run_eq cend (zskipn e inf)) in *. unfold slice. replace (e + k - e) with k by lia.
        assert (Forall (fun g => cl g = cend) (zfirstn k (zskipn e inf))).
        { apply (run_eq_app_all cend _ (zskipn k (zskipn e inf))).
          assert (EL : zfirstn k (zskipn e inf) ++ zskipn k (zskipn e inf) = zskipn e inf) by (unfold zfirstn, zskipn; apply firstn_skipn).
          rewrite EL. pose proof (run_eq_bound cend (zskipn e inf)) as RB. fold k in RB.
          rewrite zlen_zfirstn by lia. subst k. lia. }
        apply Forall_forall. intros x Hx. apply in_map_iff in Hx. destruct Hx as (gx & <- & Hg).
        rewrite Forall_forall in H5. rewrite (H5 gx Hg). exact Hce. }
  destruct ((idx b =? s') && negb (cl (nth (Z.to_nat s') inf g0) =? c)) eqn:Ew.
  - exists s', e', (run_eq (cl (nth (Z.to_nat s') inf g0)) (rev (out b))), c.
    pose proof (run_eq_bound (cl (nth (Z.to_nat s') inf g0)) (rev (out b))) as B. rewrite zlen_rev in B.
    apply andb_prop in Ew. destruct Ew as [Ei _]. apply Z.eqb_eq in Ei.
    split; [tauto|]. split; [tauto|]. split; [tauto|]. split; [tauto|]. split; [tauto|]. split; [lia|]. split; [lia|].
    split; [intros _; exact Ei|]. split; [tauto|]. split; [tauto|]. split; [exact Hext|]. split; [right; reflexivity|reflexivity].
  - exists s', e', 0, c. rewrite set_cluster_last_0. pose proof (zlen_nonneg (out b)).
    split; [tauto|]. split; [tauto|]. split; [tauto|]. split; [tauto|]. split; [tauto|]. split; [lia|]. split; [lia|].
    split; [intros; lia|]. split; [tauto|]. split; [tauto|]. split; [exact Hext|]. split; [left; reflexivity|reflexivity].
Qed.

(* merge_effect with "c is the smallest value of the block" *)
Lemma merge_effect2 b s e : (level b =? 2) = false -> 0 <= idx b -> idx b <= zlen (info b) ->
  0 <= s -> s + 2 <= e -> e <= zlen (info b) -> (have_out b = true -> idx b <= s) ->
  exists b' a m z c, merge_clusters b s e = Ok b'
    /\ bseq b = a ++ m ++ z /\ In c (cls m) /\ Forall (fun x => c <= x) (cls m)
    /\ cls (bseq b') = cls a ++ map (fun _ => c) m ++ cls z
    /\ idx b' = idx b /\ zlen (info b') = zlen (info b) /\ level b' = level b /\ have_out b' = have_out b
    /\ pos_len b' = pos_len b /\ pos_cap b' = pos_cap b.
Proof.
  intros Hl Hi0 Hi1 H0 H1 H2 Hho.
  destruct (merge_clusters_view2 b s e Hl Hi0 H0 H1 H2) as (s' & e' & k & c & A1 & A2 & A3 & A4 & A5 & A6 & A7 & A8 & A9 & A10 & A11 & AK & E).
  rewrite E. exists (with_info (with_out b (set_cluster_last k c fl0 (out b))) (map_range (set_cluster c fl0) s' e' (info b))).
  destruct (map_range_view (set_cluster c fl0) s' e' (info b)) as (l1 & l2 & l3 & EI & L1 & L2 & S2 & V); try lia.
  assert (Hc2 : In c (cls l2)).
  { rewrite <- S2. unfold cls in *. apply in_map_iff in A9. destruct A9 as (g & Eg & Hg).
    apply in_map_iff. exists g. split; [exact Eg|]. apply (slice_incl (info b) s' s e e'); auto; lia. }
  assert (Hf2 : Forall (fun x => c <= x) (cls l2)) by (rewrite <- S2; exact A11).
  assert (Hlen : zlen (map_range (set_cluster c fl0) s' e' (info b)) = zlen (info b)).
  { rewrite V. rewrite EI. rewrite !zlen_app, zlen_map. reflexivity. }
  destruct (have_out b) eqn:Hh.
  - specialize (Hho eq_refl). specialize (A3 Hho).
    destruct (Z.eq_dec k 0) as [K0|KN].
    + (* nothing changed in the out-buffer *)
      subst k.
      exists (out b ++ zskipn (idx b) l1), l2, l3, c. split; [reflexivity|]. rewrite set_cluster_last_0.
      unfold bseq. cbn [have_out with_info with_out info out idx]. rewrite Hh, Hlen.
      rewrite V. rewrite EI at 1. rewrite !zskipn_app_lt by lia.
      repeat split; auto.
      * rewrite <- app_assoc. reflexivity.
      * rewrite !cls_app, cls_set_cluster, <- app_assoc. reflexivity.
    + assert (idx b = s') by (apply A8; lia).
      destruct AK as [AK|AK]; [lia|].
      set (startC := cl (nth (Z.to_nat s') (info b) g0)) in *.
      destruct (set_cluster_last_run c fl0 (out b) startC) as (o1 & o2 & EO & LO & FO & VO).
      rewrite <- AK in VO, LO.
      assert (HsC : c <= startC).
      { rewrite Forall_forall in A11. apply A11. apply in_cls. subst startC. apply nth_in_slice; lia. }
      exists o1, (o2 ++ l2), l3, c. split; [reflexivity|].
      unfold bseq. cbn [have_out with_info with_out info out idx]. rewrite Hh, VO, Hlen, V.
      rewrite EI at 1. rewrite EO at 1.
      replace (idx b) with (zlen l1) by lia. rewrite !zskipn_app_exact.
      repeat split; auto.
      * rewrite <- !app_assoc. reflexivity.
      * rewrite cls_app. apply in_or_app. right. exact Hc2.
      * rewrite cls_app. apply Forall_app_intro; [|exact Hf2].
        apply Forall_forall. intros x Hx. apply in_map_iff in Hx. destruct Hx as (g & <- & Hg).
        rewrite Forall_forall in FO. rewrite (FO g Hg). exact HsC.
      * rewrite !cls_app, !cls_set_cluster, map_app, <- !app_assoc. reflexivity.
  - exists l1, l2, l3, c. split; [reflexivity|].
    unfold bseq. cbn [have_out with_info with_out info out idx]. rewrite Hh, Hlen, V.
    repeat split; auto.
    rewrite !cls_app, cls_set_cluster. reflexivity.
Qed.

Lemma merge_clusters_keeps b s e b' : (level b =? 2) = false -> 0 <= idx b -> idx b <= zlen (info b) ->
  0 <= s -> s <= e -> e <= zlen (info b) -> (have_out b = true -> idx b <= s) ->
  merge_clusters b s e = Ok b' -> bkeeps b b'.
Proof.
  intros Hl I0 I1 H0 H1 H2 Hho E.
  destruct (Z_lt_le_dec (e - s) 2) as [Hsmall|Hbig].
  - unfold merge_clusters in E. destruct (Z.ltb_spec (e - s) 2); [|lia]. inversion E. apply bkeeps_refl.
  - destruct (merge_effect2 b s e Hl I0 I1) as (b2 & a & m & z & c & E2 & Eb & Hc & Hf & Ec & _); try lia; auto.
    rewrite E in E2. inversion E2. subst b2.
    unfold bkeeps. rewrite Ec, Eb. apply lkeeps_block_cls; assumption.
Qed.

(* ---------- mergeOutClusters ---------- *)

(* the run_eq c glyphs after position e all carry cluster c *)
Lemma run_fwd_all (l : list glyph) e c : 0 <= e -> e <= zlen l ->
  Forall (fun g => cl g = c) (slice e (e + run_eq c (zskipn e l)) l).
Proof.
  intros H0 H1. set (k := run_eq c (zskipn e l)). unfold slice. replace (e + k - e) with k by lia.
  apply (run_eq_app_all c _ (zskipn k (zskipn e l))).
  assert (EL : zfirstn k (zskipn e l) ++ zskipn k (zskipn e l) = zskipn e l) by (unfold zfirstn, zskipn; apply firstn_skipn).
  rewrite EL. pose proof (run_eq_bound c (zskipn e l)) as RB. fold k in RB. rewrite zlen_zskipn in RB by lia.
  rewrite zlen_zfirstn by (rewrite ?zlen_zskipn; lia). subst k. lia.
Qed.

(* the run_eq c glyphs before position s all carry cluster c *)
Lemma run_back_all (l : list glyph) s c : 0 <= s -> s <= zlen l ->
  Forall (fun g => cl g = c) (slice (s - run_eq c (rev (zfirstn s l))) s l).
Proof.
  intros H0 H1. set (k := run_eq c (rev (zfirstn s l))).
  pose proof (run_eq_bound c (rev (zfirstn s l))) as B. fold k in B. rewrite zlen_rev, zlen_zfirstn in B by lia.
  assert (EF : zfirstn s l = slice 0 (s - k) l ++ slice (s - k) s l).
  { rewrite <- slice_split by lia. unfold slice. rewrite zskipn_neg by lia. f_equal. lia. }
  assert (Hk : zlen (slice (s - k) s l) = k) by (rewrite zlen_slice; lia).
  assert (F : Forall (fun g => cl g = c) (rev (slice (s - k) s l))).
  { apply (run_eq_app_all c _ (rev (slice 0 (s - k) l))). rewrite zlen_rev, Hk.
    rewrite <- rev_app_distr, <- EF. subst k. lia. }
  rewrite Forall_forall in *. intros g Hg. apply F. apply in_rev. rewrite rev_involutive. exact Hg.
Qed.

Lemma Forall_cl_le (c v : Z) (l : list glyph) : c <= v -> Forall (fun g => cl g = v) l -> Forall (fun x => c <= x) (cls l).
Proof.
  intros H F. apply Forall_forall. intros x Hx. apply in_map_iff in Hx. destruct Hx as (g & <- & Hg).
  rewrite Forall_forall in F. rewrite (F g Hg). exact H.
Qed.

Lemma merge_out_clusters_keeps b s e b' : (level b =? 2) = false -> have_out b = true -> 0 <= idx b -> idx b <= zlen (info b) ->
  0 <= s -> s <= e -> e <= zlen (out b) ->
  merge_out_clusters b s e = Ok b' -> bkeeps b b'.
Proof.
  intros Hl Hh I0 I1 H0 H1 H2. unfold merge_out_clusters. rewrite Hl.
  destruct (Z.ltb_spec (e - s) 2) as [Hsmall|Hbig]; [intros E; inversion E; apply bkeeps_refl|].
  destruct (Z.leb_spec 0 s); [|lia]. destruct (Z.leb_spec e (zlen (out b))); [|lia]. cbn [andb negb].
  set (o := out b) in *.
  set (cs := cl (nth (Z.to_nat s) o g0)). set (ce := cl (nth (Z.to_nat (e - 1)) o g0)).
  set (c := min_cl cs (slice (s + 1) e o)).
  set (s' := s - run_eq cs (rev (zfirstn s o))).
  set (e' := e + run_eq ce (zskipn e o)).
  assert (Hs' : 0 <= s' /\ s' <= s).
  { pose proof (run_eq_bound cs (rev (zfirstn s o))) as B. rewrite zlen_rev, zlen_zfirstn in B by lia. subst s'. lia. }
  assert (He' : e <= e' /\ e' <= zlen o).
  { pose proof (run_eq_bound ce (zskipn e o)) as B. rewrite zlen_zskipn in B by lia. subst e'. lia. }
  assert (Hc : In c (cls (slice s e o)) /\ Forall (fun x => c <= x) (cls (slice s e o))).
  { rewrite (slice_cons g0 s e o) by lia. cbn [cls map]. fold (cls (slice (s + 1) e o)). fold cs.
    destruct (min_cl_spec cs (slice (s + 1) e o)) as (A1 & A2 & A3). fold c in A1, A2, A3.
    split; [destruct A1 as [->|A1]; [left; reflexivity|right; exact A1]|constructor; [exact A2|exact A3]]. }
  destruct Hc as [Hc Hall].
  assert (Hcs : c <= cs).
  { rewrite Forall_forall in Hall. apply Hall. apply in_cls. subst cs. apply nth_in_slice; lia. }
  assert (Hce : c <= ce).
  { rewrite Forall_forall in Hall. apply Hall. apply in_cls. subst ce. apply nth_in_slice; lia. }
  assert (Hext : Forall (fun x => c <= x) (cls (slice s' e' o))).
  { rewrite (slice_split o s' s e') by lia. rewrite (slice_split o s e e') by lia. rewrite !cls_app.
    apply Forall_app_intro; [|apply Forall_app_intro; [exact Hall|]].
    - apply (Forall_cl_le c cs); [exact Hcs|]. subst s'. apply run_back_all; lia.
    - apply (Forall_cl_le c ce); [exact Hce|]. subst e'. apply run_fwd_all; lia. }
  destruct (map_range_view (set_cluster c fl0) s' e' o) as (o1 & o2 & o3 & EO & LO1 & LO2 & SO & VO); try lia.
  assert (Hc2 : In c (cls o2)).
  { rewrite <- SO. unfold cls in *. apply in_map_iff in Hc. destruct Hc as (g & Eg & Hg). apply in_map_iff. exists g.
    split; [exact Eg|]. apply (slice_incl o s' s e e'); auto; lia. }
  assert (Hf2 : Forall (fun x => c <= x) (cls o2)) by (rewrite <- SO; exact Hext).
  assert (Eb : bseq b = o1 ++ o2 ++ o3 ++ zskipn (idx b) (info b)).
  { rewrite bseq_have by exact Hh. fold o. rewrite EO at 1. rewrite <- !app_assoc. reflexivity. }
  destruct (Z.eqb_spec e' (zlen o)) as [Eend|Nend].
  - destruct (Z.ltb_spec (idx b) 0); [lia|].
    set (endC := cl (nth (Z.to_nat (e' - 1)) o g0)).
    pose proof (run_eq_bound endC (zskipn (idx b) (info b))) as Bk. rewrite zlen_zskipn in Bk by lia.
    pose proof (run_fwd_all (info b) (idx b) endC I0 I1) as Fk.
    set (k := run_eq endC (zskipn (idx b) (info b))) in *.
    destruct (map_range_view (set_cluster c fl0) (idx b) (idx b + k) (info b)) as (i1 & i2 & i3 & EI & LI1 & LI2 & SI & VI); try lia.
    rewrite SI in Fk.
    assert (o3 = []). { apply zlen_zero_nil. pose proof (f_equal zlen EO) as Z. rewrite !zlen_app in Z. lia. }
    subst o3.
    assert (HendC : c <= endC).
    { rewrite Forall_forall in Hext. apply Hext. apply in_cls. subst endC. apply nth_in_slice; lia. }
    intros E. inversion E. clear E. unfold bkeeps.
    rewrite Eb. rewrite (bseq_have (with_out _ _)) by (cbn; exact Hh). cbn [idx info out with_info with_out].
    rewrite VO, VI. rewrite EI at 1. rewrite <- LI1 at 1 2. rewrite !zskipn_app_exact.
    rewrite !app_nil_l, app_nil_r, <- !app_assoc.
    replace (cls (o1 ++ map (set_cluster c fl0) o2 ++ map (set_cluster c fl0) i2 ++ i3))
      with (cls o1 ++ map (fun _ => c) (o2 ++ i2) ++ cls i3)
      by (rewrite !cls_app, !cls_set_cluster, map_app, <- !app_assoc; reflexivity).
    rewrite (app_assoc o2).
    apply lkeeps_block_cls.
    + rewrite cls_app. apply in_or_app. left. exact Hc2.
    + rewrite cls_app. apply Forall_app_intro; [exact Hf2|]. exact (Forall_cl_le c endC i2 HendC Fk).
  - intros E. inversion E. clear E. unfold bkeeps.
    rewrite Eb. rewrite (bseq_have (with_out _ _)) by (cbn; exact Hh). cbn [idx info out with_out].
    rewrite VO, <- !app_assoc.
    replace (cls (o1 ++ map (set_cluster c fl0) o2 ++ o3 ++ zskipn (idx b) (info b)))
      with (cls o1 ++ map (fun _ => c) o2 ++ cls (o3 ++ zskipn (idx b) (info b)))
      by (rewrite !cls_app, !cls_set_cluster; reflexivity).
    apply lkeeps_block_cls; assumption.
Qed.
