(* Proofs for C09, container layer: totality of NewLoaders on every byte string, bound on the number of loaders,
   linear bound on the allocation of NewLoaders and of RawTable. *)
From TV Require Import Model.Container Spec.Container.
From Coq Require Import ZifyBool.
Ltac Zify.zify_post_hook ::= Z.div_mod_to_equations.

(* ---------- the monad ---------- *)

Definition no_panic {A} (r : res A) : Prop := match r with Ok _ | Err _ => True | _ => False end.
Lemma no_panic_total {A} (r : res A) : no_panic r <-> total r.
Proof. destruct r; simpl; tauto. Qed.

Lemma np_bind {A B} (r : res A) (f : A -> res B) :
  no_panic r -> (forall a, r = Ok a -> no_panic (f a)) -> no_panic (bind r f).
Proof. destruct r; simpl; auto. Qed.

Lemma np_bindM {A B} (m : M A) (f : A -> M B) :
  no_panic (result m) -> (forall a, result m = Ok a -> no_panic (result (f a))) -> no_panic (result (bindM m f)).
Proof. destruct m as [n r]; unfold bindM, result; simpl. destruct r; simpl; auto. Qed.

Lemma np_lift {A} (r : res A) : no_panic r -> no_panic (result (lift r)).
Proof. auto. Qed.
Lemma np_fail {A} e : no_panic (result (@fail A e)).
Proof. exact I. Qed.
Lemma np_ret {A} (a : A) : no_panic (result (ret a)).
Proof. exact I. Qed.
Lemma np_alloc n : no_panic (result (alloc n)).
Proof. exact I. Qed.

Lemma bindM_ok {A B} (m : M A) (f : A -> M B) b :
  result (bindM m f) = Ok b -> exists a, result m = Ok a /\ result (f a) = Ok b.
Proof. destruct m as [n r]; unfold bindM, result; simpl. destruct r; simpl; try discriminate. eauto. Qed.

Lemma bindM_alloc_ok {A B} (m : M A) (f : A -> M B) a :
  result m = Ok a -> allocated (bindM m f) = allocated m + allocated (f a).
Proof. destruct m as [n r]; unfold bindM, result, allocated; simpl. intros ->. reflexivity. Qed.
Lemma bindM_alloc_fail {A B} (m : M A) (f : A -> M B) :
  (forall a, result m <> Ok a) -> allocated (bindM m f) = allocated m.
Proof. destruct m as [n r]; unfold bindM, result, allocated; simpl. destruct r; simpl; auto. intros H; exfalso; eapply H; eauto. Qed.

Lemma bindM_lift_alloc {A B} (r : res A) (f : A -> M B) :
  allocated (bindM (lift r) f) = match r with Ok a => allocated (f a) | _ => 0 end.
Proof. unfold bindM, lift, allocated; simpl. destruct r; simpl; lia. Qed.
Lemma bindM_lift_result {A B} (r : res A) (f : A -> M B) :
  result (bindM (lift r) f) = match r with Ok a => result (f a) | Err c => Err c | Panic c => Panic c | OutOfFuel => OutOfFuel end.
Proof. unfold bindM, lift, result; simpl. destruct r; reflexivity. Qed.
Lemma bindM_alloc_unit {B} n (f : unit -> M B) : bindM (alloc n) f = (n + fst (f tt), snd (f tt)).
Proof. reflexivity. Qed.
Lemma bindM_allocA {B} n (f : unit -> M B) : allocated (bindM (alloc n) f) = n + allocated (f tt).
Proof. reflexivity. Qed.
Lemma bindM_allocR {B} n (f : unit -> M B) : result (bindM (alloc n) f) = result (f tt).
Proof. reflexivity. Qed.
Lemma ret_alloc {A} (a : A) : allocated (ret a) = 0.
Proof. reflexivity. Qed.
Lemma fail_alloc {A} e : allocated (@fail A e) = 0.
Proof. reflexivity. Qed.

(* ---------- readers ---------- *)

Lemma np_read_partial file pos n : no_panic (read_partial file pos n).
Proof. unfold read_partial. destruct (_ <=? _); exact I. Qed.
Lemma np_read_full file pos n : no_panic (read_full file pos n).
Proof. unfold read_full. destruct (_ <? _); exact I. Qed.
Lemma np_read_at file off n : no_panic (read_at file off n).
Proof. unfold read_at. repeat destruct (_ <? _); try destruct (_ <=? _); exact I. Qed.
Lemma np_read_full_seq file pos n : no_panic (read_full_seq file pos n).
Proof. unfold read_full_seq. destruct (_ =? _); [exact I|]. destruct (_ <? _); exact I. Qed.

Lemma zlen_firstn_skipn {A} (l : list A) off n :
  0 <= off -> 0 <= n -> off + n <= zlen l -> zlen (zfirstn n (zskipn off l)) = n.
Proof.
  intros. rewrite zlen_zfirstn; [reflexivity|]. rewrite zlen_zskipn by lia. lia.
Qed.

Lemma read_at_len file off n b : 0 <= n -> read_at file off n = Ok b -> zlen b = n /\ 0 <= off /\ off + n <= zlen file.
Proof.
  unfold read_at. intros Hn.
  destruct (off <? 0) eqn:E1; [discriminate|]. destruct (zlen file <=? off) eqn:E2; [discriminate|].
  destruct (zlen file <? off + n) eqn:E3; [discriminate|]. intros H; inversion H; subst.
  split; [|lia]. apply zlen_firstn_skipn; lia.
Qed.

Lemma read_full_seq_len file pos n b : 0 <= pos -> 0 <= n -> read_full_seq file pos n = Ok b -> zlen b = n /\ (n = 0 \/ pos + n <= zlen file).
Proof.
  unfold read_full_seq. intros Hp Hn.
  destruct (n =? 0) eqn:E0. { intros H; inversion H; subst. split; [|lia]. rewrite zlen_nil. lia. }
  destruct (zlen file <? pos + n) eqn:E3; [discriminate|]. intros H; inversion H; subst.
  split; [|lia]. apply zlen_firstn_skipn; lia.
Qed.

(* ---------- sfnt / woff directories ---------- *)

Lemma np_read_entries file n : forall pos offset rel acc, no_panic (read_entries file pos n offset rel acc).
Proof.
  induction n as [|n IH]; intros; simpl; [exact I|].
  apply np_bind; [apply np_read_full|]. intros buf _.
  destruct (has_tag _ _); [apply IH|]. destruct rel; [|apply IH].
  destruct (_ <? _); [exact I|apply IH].
Qed.

Lemma np_parse_otf file offset rel : no_panic (parse_otf file offset rel).
Proof.
  unfold parse_otf. apply np_bind; [apply np_read_partial|]. intros hdr _.
  apply np_bind; [apply np_read_entries|]. intros; exact I.
Qed.

Lemma np_read_woff_entries file n : forall pos offset rel acc, no_panic (read_woff_entries file pos n offset rel acc).
Proof.
  induction n as [|n IH]; intros; simpl; [exact I|].
  apply np_bind; [apply np_read_full_seq|]. intros buf _.
  destruct (has_ctag _ _); [apply IH|]. destruct rel; [|apply IH].
  destruct (_ <? _); [exact I|apply IH].
Qed.

Lemma np_parse_otf_m file offset rel : no_panic (result (parse_otf_m file offset rel)).
Proof.
  unfold parse_otf_m. apply np_bindM; [apply np_lift, np_read_partial|]. intros hdr _.
  apply np_bindM; [apply np_alloc|]. intros _ _.
  apply np_bindM; [apply np_lift, np_parse_otf|]. intros; apply np_ret.
Qed.

Lemma np_parse_woff_m file offset rel : no_panic (result (parse_woff_m file offset rel)).
Proof.
  unfold parse_woff_m. apply np_bindM; [apply np_lift, np_read_full_seq|]. intros hdr _.
  apply np_bindM; [apply np_alloc|]. intros _ _.
  apply np_bindM; [apply np_lift, np_read_woff_entries|]. intros; apply np_ret.
Qed.

Lemma np_parse_one_font_m file offset rel : no_panic (result (parse_one_font_m file offset rel)).
Proof.
  unfold parse_one_font_m. apply np_bindM; [apply np_lift, np_read_partial|]. intros m _.
  destruct (_ =? tag_woff); [apply np_parse_woff_m|].
  destruct (_ || _); [apply np_parse_otf_m|].
  destruct (_ || _); apply np_fail.
Qed.

Lemma np_parse_each file rel offs : no_panic (result (parse_each file offs rel)).
Proof.
  induction offs as [|o r IH]; simpl; [exact I|].
  apply np_bindM; [apply np_parse_one_font_m|]. intros ld _.
  apply np_bindM; [apply IH|]. intros; apply np_ret.
Qed.

(* ---------- TTC header ---------- *)

Lemma get32_at_ok l i : 0 <= i -> i + 4 <= zlen l -> get32_at l i = Ok (get32 (zskipn i l)).
Proof. intros. unfold get32_at. replace ((0 <=? i) && (i + 4 <=? zlen l)) with true by lia. reflexivity. Qed.
Lemma get16_at_ok l i : 0 <= i -> i + 2 <= zlen l -> get16_at l i = Ok (get16 (zskipn i l)).
Proof. intros. unfold get16_at. replace ((0 <=? i) && (i + 2 <=? zlen l)) with true by lia. reflexivity. Qed.

Lemma np_parse_uint32s data n : forall i, 0 <= i -> 4 * (i + Z.of_nat n) <= zlen data -> no_panic (parse_uint32s data i n).
Proof.
  induction n as [|n IH]; intros i Hi Hlen; cbn [parse_uint32s]; [exact I|].
  rewrite get32_at_ok by lia. cbn [bind].
  apply np_bind; [apply IH; lia|]. intros; exact I.
Qed.

Lemma parse_uint32s_len data n : forall i r, parse_uint32s data i n = Ok r -> length r = n.
Proof.
  induction n as [|n IH]; intros i r; cbn [parse_uint32s]. { intros H; inversion H; reflexivity. }
  destruct (get32_at data (4 * i)); cbn [bind]; try discriminate.
  destruct (parse_uint32s data (i + 1) n) eqn:E; cbn [bind]; try discriminate.
  intros H; inversion H; subst. simpl. f_equal. eapply IH; eauto.
Qed.

Lemma np_parse_ttc_header_m file : no_panic (result (parse_ttc_header_m file)).
Proof.
  unfold parse_ttc_header_m. apply np_bindM; [apply np_lift, np_read_partial|]. intros buf _.
  set (num := get32 (skipn 8 buf)).
  destruct (num =? 0) eqn:E0; [apply np_fail|].
  destruct (max_num_fonts <? num) eqn:E1; [apply np_fail|].
  apply np_bindM; [apply np_alloc|]. intros _ _.
  apply np_bindM; [apply np_lift, np_read_full_seq|]. intros data Hd.
  apply np_bindM; [apply np_alloc|]. intros _ _.
  apply np_lift.
  destruct (Z_lt_le_dec num 0) as [Hneg|Hpos].
  { replace (Z.to_nat num) with O by lia. exact I. }
  unfold max_num_fonts in E1.
  apply np_parse_uint32s; [lia|].
  unfold lift, result in Hd; cbn [snd] in Hd.
  apply read_full_seq_len in Hd as [Hl _]; [| pose proof (zlen_nonneg file); lia | unfold wrap32; lia].
  rewrite Hl. unfold wrap32. lia.
Qed.

(* ---------- dfont ---------- *)

Lemma np_dfont_types tl n : forall i nf rlo, 0 <= i -> 8 * (i + Z.of_nat n) <= zlen tl -> no_panic (dfont_types tl i n nf rlo).
Proof.
  induction n as [|n IH]; intros i nf rlo Hi Hlen; cbn [dfont_types]; [exact I|].
  rewrite get32_at_ok by lia. rewrite !get16_at_ok by lia. cbn [bind].
  destruct (negb _); [apply IH; lia|].
  destruct (_ <? 0); [exact I|]. destruct (_ <? 0); [exact I|]. apply IH; lia.
Qed.

Lemma dfont_types_nf tl n : forall i nf rlo nf' rlo', 0 <= nf -> dfont_types tl i n nf rlo = Ok (nf', rlo') -> 0 <= nf'.
Proof.
  induction n as [|n IH]; intros i nf rlo nf' rlo' Hnf; cbn [dfont_types]. { intros H; inversion H; subst; lia. }
  destruct (get32_at tl (8 * i)); cbn [bind]; try discriminate.
  destruct (negb _); [apply IH; lia|].
  destruct (get16_at tl (8 * i + 4)) as [a0| | |]; cbn [bind]; try discriminate.
  destruct (sint16 a0 <? 0) eqn:E; [discriminate|].
  destruct (get16_at tl (8 * i + 6)) as [a1| | |]; cbn [bind]; try discriminate.
  destruct (sint16 a1 <? 0); [discriminate|]. apply IH. lia.
Qed.

Lemma np_dfont_offsets ob n : forall i, 0 <= i -> 12 * (i + Z.of_nat n) <= zlen ob -> no_panic (dfont_offsets ob i n).
Proof.
  induction n as [|n IH]; intros i Hi Hlen; cbn [dfont_offsets]; [exact I|].
  rewrite get32_at_ok by lia. cbn [bind]. destruct (_ <? _); [exact I|].
  apply np_bind; [apply IH; lia|]. intros; exact I.
Qed.

Lemma dfont_offsets_len ob n : forall i r, dfont_offsets ob i n = Ok r -> length r = n.
Proof.
  induction n as [|n IH]; intros i r; cbn [dfont_offsets]. { intros H; inversion H; reflexivity. }
  destruct (get32_at ob (12 * i + 4)); cbn [bind]; try discriminate.
  destruct (_ <? _); [discriminate|].
  destruct (dfont_offsets ob (i + 1) n) eqn:E; cbn [bind]; try discriminate.
  intros H; inversion H; subst. simpl. f_equal. eapply IH; eauto.
Qed.

Lemma np_parse_dfont_m file : no_panic (result (parse_dfont_m file)).
Proof.
  unfold parse_dfont_m. apply np_bindM; [apply np_lift, np_read_partial|]. intros buf _.
  set (rmo := get32 (skipn 4 buf)). set (rml := get32 (skipn 12 buf)).
  destruct (_ || _); [apply np_fail|]. destruct (rml <? 28); [apply np_fail|].
  apply np_bindM; [apply np_lift, np_read_at|]. intros b1 _.
  set (tlo := sint16 (get16 b1)).
  destruct (_ || _); [apply np_fail|].
  apply np_bindM; [apply np_lift, np_read_at|]. intros b2 _.
  set (tc0 := get16 b2).
  destruct (tc0 =? 65535); [apply np_fail|].
  destruct (_ <? _); [apply np_fail|].
  apply np_bindM; [apply np_alloc|]. intros _ _.
  apply np_bindM; [apply np_lift, np_read_at|]. intros tl Htl.
  apply np_bindM.
  { apply np_lift.
    destruct (Z_lt_le_dec (tc0 + 1) 0) as [Hneg|Hpos].
    { replace (Z.to_nat (tc0 + 1)) with O by lia. exact I. }
    unfold lift, result in Htl; cbn [snd] in Htl.
    apply read_at_len in Htl as [Hl _]; [|lia].
    apply np_dfont_types; [lia|]. rewrite Hl. lia. }
  intros [nf rlo] Hnr.
  destruct (nf =? 0) eqn:Enf0; [apply np_fail|].
  destruct (max_num_fonts <? nf) eqn:Enf1; [apply np_fail|].
  destruct (_ || _); [apply np_fail|].
  apply np_bindM; [apply np_alloc|]. intros _ _.
  apply np_bindM; [apply np_lift, np_read_at|]. intros ob Hob.
  apply np_bindM; [apply np_alloc|]. intros _ _.
  apply np_lift.
  unfold lift, result in Hnr; cbn [snd] in Hnr. apply dfont_types_nf in Hnr; [|lia].
  unfold max_num_fonts in Enf1.
  unfold lift, result in Hob; cbn [snd] in Hob.
  apply read_at_len in Hob as [Hl _]; [|unfold wrap32; lia].
  apply np_dfont_offsets; [lia|]. rewrite Hl. unfold wrap32. lia.
Qed.

(* ---------- NewLoaders ---------- *)

Lemma np_new_loaders file : no_panic (result (new_loaders file)).
Proof.
  unfold new_loaders. destruct (_ <=? 0); [apply np_fail|].
  destruct (_ || _).
  { apply np_bindM; [apply np_parse_one_font_m|]. intros; apply np_ret. }
  destruct (_ =? tag_ttcf).
  { apply np_bindM; [apply np_parse_ttc_header_m|]. intros offs _.
    apply np_bindM; [apply np_alloc|]. intros _ _. apply np_parse_each. }
  destruct (_ =? tag_dfont); [|apply np_fail].
  apply np_bindM; [apply np_parse_dfont_m|]. intros offs _.
  apply np_bindM; [apply np_alloc|]. intros _ _. apply np_parse_each.
Qed.

Lemma container_total_lemma : forall file, total (result (new_loaders file)).
Proof. intros. apply no_panic_total, np_new_loaders. Qed.

(* ---------- byte strings ---------- *)

Lemma bytes_ok_firstn n l : bytes_ok l -> bytes_ok (firstn n l).
Proof. unfold bytes_ok. revert l; induction n; intros [|x l] H; simpl; auto. inversion H; subst. constructor; auto. Qed.
Lemma bytes_ok_skipn n l : bytes_ok l -> bytes_ok (skipn n l).
Proof. unfold bytes_ok. revert l; induction n; intros [|x l] H; simpl; auto. inversion H; subst. auto. Qed.
Lemma bytes_ok_app a b : bytes_ok a -> bytes_ok b -> bytes_ok (a ++ b).
Proof. unfold bytes_ok. intros; apply Forall_app; auto. Qed.
Lemma bytes_ok_zeros n : bytes_ok (repeat 0 n).
Proof. unfold bytes_ok. induction n; simpl; constructor; auto. unfold byte_ok; lia. Qed.
Lemma bytes_ok_zfirstn n l : bytes_ok l -> bytes_ok (zfirstn n l).
Proof. apply bytes_ok_firstn. Qed.
Lemma bytes_ok_zskipn n l : bytes_ok l -> bytes_ok (zskipn n l).
Proof. apply bytes_ok_skipn. Qed.

Lemma get16_range l : bytes_ok l -> 0 <= get16 l < 65536.
Proof.
  unfold get16. destruct l as [|a [|b r]]; intros H; try lia.
  inversion H as [|? ? Ha T1]; inversion T1 as [|? ? Hb T2]. unfold byte_ok in *; lia.
Qed.

Lemma read_partial_bytes file pos n b : bytes_ok file -> read_partial file pos n = Ok b -> bytes_ok b.
Proof.
  unfold read_partial. destruct (_ <=? _); [discriminate|]. intros Hf H; inversion H; subst.
  apply bytes_ok_app; [apply bytes_ok_zfirstn, bytes_ok_zskipn, Hf | apply bytes_ok_zeros].
Qed.
Lemma read_at_bytes file off n b : bytes_ok file -> read_at file off n = Ok b -> bytes_ok b.
Proof.
  unfold read_at. destruct (_ <? 0); [discriminate|]. destruct (_ <=? _); [discriminate|]. destruct (_ <? _); [discriminate|].
  intros Hf H; inversion H; subst. apply bytes_ok_zfirstn, bytes_ok_zskipn, Hf.
Qed.
Lemma read_full_seq_bytes file pos n b : bytes_ok file -> read_full_seq file pos n = Ok b -> bytes_ok b.
Proof.
  unfold read_full_seq. destruct (_ =? 0). { intros _ H; inversion H; constructor. }
  destruct (_ <? _); [discriminate|].
  intros Hf H; inversion H; subst. apply bytes_ok_zfirstn, bytes_ok_zskipn, Hf.
Qed.

(* ---------- a successfully read directory is backed by file bytes ---------- *)

Lemma read_entries_backed file n : forall pos offset rel acc r,
  read_entries file pos n offset rel acc = Ok r -> pos + 16 * Z.of_nat n <= zlen file \/ n = O.
Proof.
  induction n as [|n IH]; intros pos offset rel acc r; [right; reflexivity|]. cbn [read_entries].
  unfold read_full at 1. destruct (zlen file <? pos + 16) eqn:E; [discriminate|]. cbn [bind].
  intros H. left.
  assert (G : exists acc', read_entries file (pos + 16) n offset rel acc' = Ok r).
  { destruct (has_tag _ _); [eauto|]. destruct rel; [|eauto]. destruct (wrap32 _ <? _); [discriminate|eauto]. }
  destruct G as [acc' G]. apply IH in G. lia.
Qed.

Lemma read_woff_entries_backed file n : forall pos offset rel acc r,
  read_woff_entries file pos n offset rel acc = Ok r -> pos + 20 * Z.of_nat n <= zlen file \/ n = O.
Proof.
  induction n as [|n IH]; intros pos offset rel acc r; [right; reflexivity|]. cbn [read_woff_entries].
  unfold read_full_seq at 1. change (20 =? 0) with false. cbv iota.
  destruct (zlen file <? pos + 20) eqn:E; [discriminate|]. cbn [bind].
  intros H. left.
  assert (G : exists acc', read_woff_entries file (pos + 20) n offset rel acc' = Ok r).
  { destruct (has_ctag _ _); [eauto|]. destruct rel; [|eauto]. destruct (wrap32 _ <? _); [discriminate|eauto]. }
  destruct G as [acc' G]. apply IH in G. lia.
Qed.

(* ---------- allocation of one font ---------- *)

Definition font_fail_bound : Z := loader_cost + map_cost 65535.
Definition font_ok_bound (len : Z) : Z := 112 + 3 * len.

Lemma parse_otf_m_alloc file o rel : bytes_ok file -> 0 <= o ->
  0 <= allocated (parse_otf_m file o rel) <= font_fail_bound
  /\ (forall ld, result (parse_otf_m file o rel) = Ok ld -> allocated (parse_otf_m file o rel) <= font_ok_bound (zlen file)).
Proof.
  intros Hf Ho. unfold parse_otf_m.
  rewrite bindM_lift_alloc, bindM_lift_result.
  destruct (read_partial file o 12) as [hdr| | |] eqn:Eh.
  2-4: unfold font_fail_bound, loader_cost, map_cost; split; [lia|intros; discriminate].
  rewrite bindM_allocA, bindM_allocR.
  rewrite bindM_lift_alloc, bindM_lift_result.
  pose proof (get16_range (skipn 4 hdr) (bytes_ok_skipn 4 _ (read_partial_bytes _ _ _ _ Hf Eh))) as Hn.
  set (num := get16 (skipn 4 hdr)) in *.
  destruct (parse_otf file o rel) as [ld| | |] eqn:Ep.
  2-4: unfold font_fail_bound, loader_cost, map_cost; split; [lia|intros; discriminate].
  rewrite ret_alloc.
  split; [unfold font_fail_bound, loader_cost, map_cost; lia|].
  intros _ _. unfold parse_otf in Ep. rewrite Eh in Ep. cbn [bind] in Ep. fold num in Ep.
  destruct (read_entries file (Z.min (zlen file) (o + 12)) (Z.to_nat num) o rel []) eqn:Er; try discriminate.
  apply read_entries_backed in Er. pose proof (zlen_nonneg file).
  unfold font_ok_bound, loader_cost, map_cost. lia.
Qed.

Lemma parse_woff_m_alloc file o rel : bytes_ok file -> 0 <= o ->
  0 <= allocated (parse_woff_m file o rel) <= font_fail_bound
  /\ (forall ld, result (parse_woff_m file o rel) = Ok ld -> allocated (parse_woff_m file o rel) <= font_ok_bound (zlen file)).
Proof.
  intros Hf Ho. unfold parse_woff_m.
  rewrite bindM_lift_alloc, bindM_lift_result.
  destruct (read_full_seq file o 44) as [hdr| | |] eqn:Eh.
  2-4: unfold font_fail_bound, loader_cost, map_cost; split; [lia|intros; discriminate].
  rewrite bindM_allocA, bindM_allocR.
  rewrite bindM_lift_alloc, bindM_lift_result.
  pose proof (get16_range (skipn 12 hdr) (bytes_ok_skipn 12 _ (read_full_seq_bytes _ _ _ _ Hf Eh))) as Hn.
  set (num := get16 (skipn 12 hdr)) in *.
  destruct (read_woff_entries file (o + 44) (Z.to_nat num) o rel []) as [tabs| | |] eqn:Er.
  2-4: unfold font_fail_bound, loader_cost, map_cost; split; [lia|intros; discriminate].
  rewrite ret_alloc.
  split; [unfold font_fail_bound, loader_cost, map_cost; lia|].
  intros _ _. apply read_woff_entries_backed in Er. pose proof (zlen_nonneg file).
  unfold font_ok_bound, loader_cost, map_cost. lia.
Qed.

Lemma parse_one_font_m_alloc file o rel : bytes_ok file -> 0 <= o ->
  0 <= allocated (parse_one_font_m file o rel) <= font_fail_bound
  /\ (forall ld, result (parse_one_font_m file o rel) = Ok ld -> allocated (parse_one_font_m file o rel) <= font_ok_bound (zlen file)).
Proof.
  intros Hf Ho. unfold parse_one_font_m.
  rewrite bindM_lift_alloc, bindM_lift_result.
  assert (Z0 : 0 <= 0 <= font_fail_bound) by (unfold font_fail_bound, loader_cost, map_cost; lia).
  destruct (read_partial file o 4) as [m| | |]; try (split; [exact Z0|intros; discriminate]).
  destruct (_ =? tag_woff); [apply parse_woff_m_alloc; auto|].
  destruct (_ || _); [apply parse_otf_m_alloc; auto|].
  destruct (_ || _); (split; [exact Z0|intros; discriminate]).
Qed.

Lemma parse_each_alloc file rel offs : bytes_ok file -> Forall (fun o => 0 <= o) offs ->
  0 <= allocated (parse_each file offs rel) <= zlen offs * font_ok_bound (zlen file) + font_fail_bound.
Proof.
  intros Hf. pose proof (zlen_nonneg file) as Hz.
  assert (Z0 : 0 <= font_fail_bound) by (unfold font_fail_bound, loader_cost, map_cost; lia).
  assert (ZF : 0 <= font_ok_bound (zlen file)) by (unfold font_ok_bound; lia).
  induction offs as [|o r IH]; intros Ho.
  { cbn. lia. }
  inversion Ho as [|? ? Ho1 Ho2]; subst. specialize (IH Ho2).
  cbn [parse_each]. rewrite zlen_cons. pose proof (zlen_nonneg r) as Hr.
  destruct (parse_one_font_m_alloc file o rel Hf Ho1) as [B1 B2].
  set (F := font_ok_bound (zlen file)) in *.
  destruct (result (parse_one_font_m file o rel)) as [ld| | |] eqn:E1.
  - rewrite (bindM_alloc_ok _ _ ld E1). specialize (B2 ld eq_refl).
    set (a1 := allocated (parse_one_font_m file o rel)) in *.
    destruct (result (parse_each file r rel)) as [rest| | |] eqn:E2.
    + rewrite (bindM_alloc_ok _ _ rest E2). rewrite ret_alloc.
      set (a2 := allocated (parse_each file r rel)) in *. nia.
    + rewrite bindM_alloc_fail by (intros a; rewrite E2; discriminate).
      set (a2 := allocated (parse_each file r rel)) in *. nia.
    + rewrite bindM_alloc_fail by (intros a; rewrite E2; discriminate).
      set (a2 := allocated (parse_each file r rel)) in *. nia.
    + rewrite bindM_alloc_fail by (intros a; rewrite E2; discriminate).
      set (a2 := allocated (parse_each file r rel)) in *. nia.
  - rewrite bindM_alloc_fail by (intros a; rewrite E1; discriminate).
    set (a1 := allocated (parse_one_font_m file o rel)) in *. nia.
  - rewrite bindM_alloc_fail by (intros a; rewrite E1; discriminate).
    set (a1 := allocated (parse_one_font_m file o rel)) in *. nia.
  - rewrite bindM_alloc_fail by (intros a; rewrite E1; discriminate).
    set (a1 := allocated (parse_one_font_m file o rel)) in *. nia.
Qed.

Lemma parse_each_len file rel offs : forall lds, result (parse_each file offs rel) = Ok lds -> length lds = length offs.
Proof.
  induction offs as [|o r IH]; intros lds; cbn [parse_each].
  { unfold ret, result; cbn. intros H; inversion H; reflexivity. }
  intros H. apply bindM_ok in H as [ld [_ H]]. apply bindM_ok in H as [rest [Hr H]].
  unfold ret, result in H; cbn in H. inversion H; subst. simpl. f_equal. apply IH, Hr.
Qed.

(* ---------- collection headers: allocation, number and sign of the offsets ---------- *)

Lemma parse_uint32s_nonneg data n : bytes_ok data -> forall i r, parse_uint32s data i n = Ok r -> Forall (fun o => 0 <= o) r.
Proof.
  intros Hd. induction n as [|n IH]; intros i r; cbn [parse_uint32s]. { intros H; inversion H; constructor. }
  unfold get32_at. destruct (_ && _); cbn [bind]; try discriminate.
  destruct (parse_uint32s data (i + 1) n) eqn:E; cbn [bind]; try discriminate.
  intros H; inversion H; subst. constructor; [|eapply IH; eauto].
  apply get32_range, bytes_ok_zskipn, Hd.
Qed.

Lemma dfont_offsets_nonneg ob n : forall i r, dfont_offsets ob i n = Ok r -> Forall (fun o => 0 <= o) r.
Proof.
  induction n as [|n IH]; intros i r; cbn [dfont_offsets]. { intros H; inversion H; constructor. }
  destruct (get32_at ob (12 * i + 4)); cbn [bind]; try discriminate.
  destruct (_ <? _); [discriminate|].
  destruct (dfont_offsets ob (i + 1) n) eqn:E; cbn [bind]; try discriminate.
  intros H; inversion H; subst. constructor; [|eapply IH; eauto].
  unfold wrap32. lia.
Qed.

Definition ttc_header_bound : Z := 16384.
Definition dfont_header_bound : Z := 557056.

Lemma ttc_header_props file : bytes_ok file ->
  0 <= allocated (parse_ttc_header_m file) <= ttc_header_bound
  /\ forall offs, result (parse_ttc_header_m file) = Ok offs -> 1 <= zlen offs <= max_num_fonts /\ Forall (fun o => 0 <= o) offs.
Proof.
  intros Hf. unfold parse_ttc_header_m, ttc_header_bound.
  rewrite bindM_lift_alloc, bindM_lift_result.
  destruct (read_partial file 0 12) as [buf| | |] eqn:Eb; try (split; [lia|intros; discriminate]).
  pose proof (get32_range (skipn 8 buf) (bytes_ok_skipn 8 _ (read_partial_bytes _ _ _ _ Hf Eb))) as Hn.
  set (num := get32 (skipn 8 buf)) in *.
  destruct (num =? 0) eqn:E0; [rewrite fail_alloc; split; [lia|intros; discriminate]|].
  destruct (max_num_fonts <? num) eqn:E1; [rewrite fail_alloc; split; [lia|intros; discriminate]|].
  unfold max_num_fonts in *.
  assert (Hw : wrap32 (num * 4) = num * 4) by (apply wrap32_small; lia). rewrite Hw.
  rewrite bindM_allocA, bindM_allocR, bindM_lift_alloc, bindM_lift_result.
  destruct (read_full_seq file (Z.min (zlen file) 12) (num * 4)) as [data| | |] eqn:Ed; try (split; [lia|intros; discriminate]).
  rewrite bindM_allocA, bindM_allocR. unfold lift, allocated, result; cbn [fst snd].
  split; [lia|]. intros offs Ho.
  pose proof (parse_uint32s_len _ _ _ _ Ho) as Hl.
  split; [unfold zlen; rewrite Hl; lia|].
  eapply parse_uint32s_nonneg; [|exact Ho]. eapply read_full_seq_bytes; eauto.
Qed.

Lemma dfont_types_range tl n : forall i nf rlo nf' rlo', 0 <= nf <= 32768 -> dfont_types tl i n nf rlo = Ok (nf', rlo') -> 0 <= nf' <= 32768.
Proof.
  induction n as [|n IH]; intros i nf rlo nf' rlo' Hnf; cbn [dfont_types]. { intros H; inversion H; subst; lia. }
  destruct (get32_at tl (8 * i)); cbn [bind]; try discriminate.
  destruct (negb _); [apply IH; lia|].
  destruct (get16_at tl (8 * i + 4)) as [a0| | |]; cbn [bind]; try discriminate.
  destruct (sint16 a0 <? 0) eqn:E; [discriminate|].
  destruct (get16_at tl (8 * i + 6)) as [a1| | |]; cbn [bind]; try discriminate.
  destruct (sint16 a1 <? 0); [discriminate|]. apply IH.
  unfold sint16, wrap16 in *. destruct (a0 mod 65536 <? 32768) eqn:E2; lia.
Qed.

Lemma dfont_props file : bytes_ok file ->
  0 <= allocated (parse_dfont_m file) <= dfont_header_bound
  /\ forall offs, result (parse_dfont_m file) = Ok offs -> 1 <= zlen offs <= max_num_fonts /\ Forall (fun o => 0 <= o) offs.
Proof.
  intros Hf. unfold parse_dfont_m, dfont_header_bound.
  rewrite bindM_lift_alloc, bindM_lift_result.
  destruct (read_partial file 0 16) as [buf| | |] eqn:Eb; try (split; [lia|intros; discriminate]).
  set (rmo := get32 (skipn 4 buf)). set (rml := get32 (skipn 12 buf)).
  destruct (_ || _); [rewrite fail_alloc; split; [lia|intros; discriminate]|].
  destruct (rml <? 28); [rewrite fail_alloc; split; [lia|intros; discriminate]|].
  rewrite bindM_lift_alloc, bindM_lift_result.
  destruct (read_at file (wrap32 (rmo + 24)) 2) as [b1| | |] eqn:E1; try (split; [lia|intros; discriminate]).
  set (tlo := sint16 (get16 b1)).
  destruct (_ || _); [rewrite fail_alloc; split; [lia|intros; discriminate]|].
  rewrite bindM_lift_alloc, bindM_lift_result.
  destruct (read_at file (rmo + tlo) 2) as [b2| | |] eqn:E2; try (split; [lia|intros; discriminate]).
  pose proof (get16_range b2 (read_at_bytes _ _ _ _ Hf E2)) as Htc.
  set (tc0 := get16 b2) in *.
  destruct (tc0 =? 65535) eqn:Etc; [rewrite fail_alloc; split; [lia|intros; discriminate]|].
  destruct (_ <? _); [rewrite fail_alloc; split; [lia|intros; discriminate]|].
  rewrite bindM_allocA, bindM_allocR, bindM_lift_alloc, bindM_lift_result.
  destruct (read_at file (rmo + tlo + 2) (8 * (tc0 + 1))) as [tl| | |] eqn:E3; try (split; [lia|intros; discriminate]).
  rewrite bindM_lift_alloc, bindM_lift_result.
  destruct (dfont_types tl 0 (Z.to_nat (tc0 + 1)) 0 0) as [[nf rlo]| | |] eqn:E4; try (split; [lia|intros; discriminate]).
  apply dfont_types_range in E4; [|lia].
  destruct (nf =? 0) eqn:Enf0; [rewrite fail_alloc; split; [lia|intros; discriminate]|].
  destruct (max_num_fonts <? nf) eqn:Enf1; [rewrite fail_alloc; split; [lia|intros; discriminate]|].
  unfold max_num_fonts in *.
  destruct (_ || _); [rewrite fail_alloc; split; [lia|intros; discriminate]|].
  assert (Hw : wrap32 (12 * wrap32 nf) = 12 * nf) by (rewrite (wrap32_small nf) by lia; apply wrap32_small; lia).
  rewrite Hw.
  rewrite bindM_allocA, bindM_allocR, bindM_lift_alloc, bindM_lift_result.
  destruct (read_at file (wrap32 (rmo + wrap32 (tlo + rlo))) (12 * nf)) as [ob| | |] eqn:E5; try (split; [lia|intros; discriminate]).
  rewrite bindM_allocA, bindM_allocR. unfold lift, allocated, result; cbn [fst snd].
  split; [lia|]. intros offs Ho.
  pose proof (dfont_offsets_len _ _ _ _ Ho) as Hl.
  split; [unfold zlen; rewrite Hl; lia|].
  eapply dfont_offsets_nonneg; exact Ho.
Qed.

(* ---------- NewLoaders: number of loaders and allocation ---------- *)

Lemma loaders_bounded_lemma : forall file lds, bytes_ok file ->
  result (new_loaders file) = Ok lds -> 1 <= zlen lds <= max_num_fonts.
Proof.
  intros file lds Hf. unfold new_loaders. destruct (_ <=? 0); [discriminate|].
  destruct (_ || _).
  { intros H. apply bindM_ok in H as [ld [_ H]]. unfold ret, result in H; cbn in H. inversion H; subst. cbn. unfold max_num_fonts. lia. }
  destruct (_ =? tag_ttcf).
  { intros H. apply bindM_ok in H as [offs [Ho H]]. rewrite bindM_allocR in H.
    apply parse_each_len in H. destruct (ttc_header_props file Hf) as [_ P]. destruct (P offs Ho) as [P1 _].
    unfold zlen in *. rewrite H. exact P1. }
  destruct (_ =? tag_dfont); [|discriminate].
  intros H. apply bindM_ok in H as [offs [Ho H]]. rewrite bindM_allocR in H.
  apply parse_each_len in H. destruct (dfont_props file Hf) as [_ P]. destruct (P offs Ho) as [P1 _].
  unfold zlen in *. rewrite H. exact P1.
Qed.

Lemma alloc_bounded_lemma : forall file, bytes_ok file ->
  0 <= allocated (new_loaders file) <= open_alloc_bound (zlen file).
Proof.
  intros file Hf. pose proof (zlen_nonneg file) as Hz. unfold open_alloc_bound, new_loaders.
  destruct (_ <=? 0); [rewrite fail_alloc; lia|].
  destruct (_ || _).
  { destruct (parse_one_font_m_alloc file 0 false Hf ltac:(lia)) as [B1 _].
    unfold font_fail_bound, loader_cost, map_cost in B1.
    destruct (result (parse_one_font_m file 0 false)) as [ld| | |] eqn:E.
    - rewrite (bindM_alloc_ok _ _ ld E), ret_alloc. lia.
    - rewrite bindM_alloc_fail by (intros a; rewrite E; discriminate). lia.
    - rewrite bindM_alloc_fail by (intros a; rewrite E; discriminate). lia.
    - rewrite bindM_alloc_fail by (intros a; rewrite E; discriminate). lia. }
  destruct (_ =? tag_ttcf).
  { destruct (ttc_header_props file Hf) as [B P]. unfold ttc_header_bound in B.
    destruct (result (parse_ttc_header_m file)) as [offs| | |] eqn:E.
    - rewrite (bindM_alloc_ok _ _ offs E), bindM_allocA.
      destruct (P offs eq_refl) as [P1 P2]. unfold max_num_fonts in P1.
      pose proof (parse_each_alloc file false offs Hf P2) as B2.
      unfold font_ok_bound, font_fail_bound, loader_cost, map_cost in B2. nia.
    - rewrite bindM_alloc_fail by (intros a; rewrite E; discriminate). lia.
    - rewrite bindM_alloc_fail by (intros a; rewrite E; discriminate). lia.
    - rewrite bindM_alloc_fail by (intros a; rewrite E; discriminate). lia. }
  destruct (_ =? tag_dfont); [|rewrite fail_alloc; lia].
  destruct (dfont_props file Hf) as [B P]. unfold dfont_header_bound in B.
  destruct (result (parse_dfont_m file)) as [offs| | |] eqn:E.
  - rewrite (bindM_alloc_ok _ _ offs E), bindM_allocA.
    destruct (P offs eq_refl) as [P1 P2]. unfold max_num_fonts in P1.
    pose proof (parse_each_alloc file true offs Hf P2) as B2.
    unfold font_ok_bound, font_fail_bound, loader_cost, map_cost in B2. nia.
  - rewrite bindM_alloc_fail by (intros a; rewrite E; discriminate). lia.
  - rewrite bindM_alloc_fail by (intros a; rewrite E; discriminate). lia.
  - rewrite bindM_alloc_fail by (intros a; rewrite E; discriminate). lia.
Qed.

(* ---------- RawTable ---------- *)

Definition sec_ok (s : csection) : Prop := 0 <= cs_off s /\ 0 <= cs_len s /\ 0 <= cs_zlen s.
Definition loader_ok (file : list Z) (ld : cloader) : Prop :=
  cl_size ld = zlen file /\ Forall (fun p => sec_ok (snd p)) (cl_tables ld).

Lemma np_find_table_buffer file size s : no_panic (result (find_table_buffer file size s)).
Proof.
  unfold find_table_buffer. destruct (_ && _).
  { destruct (_ || _); [apply np_fail|]. rewrite bindM_allocR. exact I. }
  destruct (_ && _); [apply np_fail|]. rewrite bindM_allocR.
  destruct (_ =? 0); [exact I|]. rewrite bindM_lift_result.
  pose proof (np_read_at file (cs_off s) (cs_len s)). destruct (read_at _ _ _); auto.
Qed.

Lemma raw_table_total_lemma : forall file ld tag, total (result (raw_table_m file ld tag)).
Proof.
  intros. apply no_panic_total. unfold raw_table_m. destruct (find_csection _ _); [apply np_find_table_buffer|apply np_fail].
Qed.

Lemma find_table_buffer_alloc file s : sec_ok s ->
  0 <= allocated (find_table_buffer file (zlen file) s) <= table_alloc_bound (zlen file).
Proof.
  intros (H1 & H2 & H3). pose proof (zlen_nonneg file). unfold find_table_buffer, table_alloc_bound, max_deflate_ratio.
  destruct (negb (cs_len s =? 0) && (cs_len s <? cs_zlen s)) eqn:Ec.
  { destruct (_ || _) eqn:E; [rewrite fail_alloc; lia|]. rewrite bindM_allocA, ret_alloc. lia. }
  destruct (negb (cs_len s =? 0) && (zlen file <? cs_off s + cs_len s)) eqn:E; [rewrite fail_alloc; lia|]. rewrite bindM_allocA.
  destruct (cs_len s =? 0) eqn:E0. { rewrite ret_alloc. lia. }
  rewrite bindM_lift_alloc. destruct (read_at _ _ _); try rewrite ret_alloc; lia.
Qed.

Lemma find_csection_in tag l s : find_csection tag l = Some s -> In (tag, s) l.
Proof.
  induction l as [|[t x] r IH]; simpl; [discriminate|]. destruct (t =? tag) eqn:E.
  - intros H; inversion H; subst. left. f_equal. lia.
  - intros H. right. auto.
Qed.

Lemma raw_table_alloc file ld tag : loader_ok file ld ->
  0 <= allocated (raw_table_m file ld tag) <= table_alloc_bound (zlen file).
Proof.
  intros [Hs Hf]. unfold raw_table_m. destruct (find_csection tag (cl_tables ld)) as [s|] eqn:E.
  - rewrite Hs. apply find_table_buffer_alloc. apply find_csection_in in E.
    rewrite Forall_forall in Hf. apply (Hf _ E).
  - rewrite fail_alloc. unfold table_alloc_bound. pose proof (zlen_nonneg file). lia.
Qed.

(* loaders returned by NewLoaders carry the file size and 32-bit unsigned sections *)
Lemma read_entries_ok file n : bytes_ok file -> forall pos offset rel acc r,
  Forall (fun p => 0 <= sec_off (snd p) /\ 0 <= sec_len (snd p)) acc ->
  read_entries file pos n offset rel acc = Ok r -> Forall (fun p => 0 <= sec_off (snd p) /\ 0 <= sec_len (snd p)) r.
Proof.
  intros Hf. induction n as [|n IH]; intros pos offset rel acc r Hacc; cbn [read_entries].
  { intros H; inversion H; subst; exact Hacc. }
  unfold read_full at 1. destruct (zlen file <? pos + 16); [discriminate|]. cbn [bind].
  set (buf := zfirstn 16 (zskipn pos file)).
  assert (Hb : bytes_ok buf) by (apply bytes_ok_zfirstn, bytes_ok_zskipn, Hf).
  pose proof (get32_range (skipn 8 buf) (bytes_ok_skipn 8 _ Hb)).
  pose proof (get32_range (skipn 12 buf) (bytes_ok_skipn 12 _ Hb)).
  destruct (has_tag _ _); [apply IH; exact Hacc|].
  destruct rel.
  - destruct (wrap32 _ <? _); [discriminate|]. apply IH. apply Forall_app; split; [exact Hacc|].
    constructor; [|constructor]. cbn [snd sec_off sec_len]. unfold wrap32. lia.
  - apply IH. apply Forall_app; split; [exact Hacc|]. constructor; [|constructor]. cbn [snd sec_off sec_len]. lia.
Qed.

Lemma read_woff_entries_ok file n : bytes_ok file -> forall pos offset rel acc r,
  Forall (fun p => sec_ok (snd p)) acc ->
  read_woff_entries file pos n offset rel acc = Ok r -> Forall (fun p => sec_ok (snd p)) r.
Proof.
  intros Hf. induction n as [|n IH]; intros pos offset rel acc r Hacc; cbn [read_woff_entries].
  { intros H; inversion H; subst; exact Hacc. }
  destruct (read_full_seq file pos 20) as [buf| | |] eqn:Eb; cbn [bind]; try discriminate.
  assert (Hb : bytes_ok buf) by (eapply read_full_seq_bytes; eauto).
  pose proof (get32_range (skipn 4 buf) (bytes_ok_skipn 4 _ Hb)).
  pose proof (get32_range (skipn 8 buf) (bytes_ok_skipn 8 _ Hb)).
  pose proof (get32_range (skipn 12 buf) (bytes_ok_skipn 12 _ Hb)).
  destruct (has_ctag _ _); [apply IH; exact Hacc|].
  destruct rel.
  - destruct (wrap32 _ <? _); [discriminate|]. apply IH. apply Forall_app; split; [exact Hacc|].
    constructor; [|constructor]. unfold sec_ok; cbn [snd cs_off cs_len cs_zlen]. unfold wrap32. lia.
  - apply IH. apply Forall_app; split; [exact Hacc|]. constructor; [|constructor]. unfold sec_ok; cbn [snd cs_off cs_len cs_zlen]. lia.
Qed.

Lemma parse_one_font_ok file o rel ld : bytes_ok file -> result (parse_one_font_m file o rel) = Ok ld -> loader_ok file ld.
Proof.
  intros Hf. unfold parse_one_font_m. rewrite bindM_lift_result.
  destruct (read_partial file o 4); try discriminate.
  destruct (_ =? tag_woff).
  { unfold parse_woff_m. rewrite bindM_lift_result. destruct (read_full_seq file o 44); try discriminate.
    rewrite bindM_allocR, bindM_lift_result.
    destruct (read_woff_entries _ _ _ _ _ _) eqn:E; try discriminate.
    unfold ret, result; cbn [snd]. intros H; inversion H; subst. split; [reflexivity|]. cbn [cl_tables].
    eapply read_woff_entries_ok; eauto. }
  destruct (_ || _).
  { unfold parse_otf_m. rewrite bindM_lift_result. destruct (read_partial file o 12) eqn:Eh; try discriminate.
    rewrite bindM_allocR, bindM_lift_result.
    destruct (parse_otf file o rel) as [sl| | |] eqn:E; try discriminate.
    unfold ret, result; cbn [snd]. intros H; inversion H; subst. split; [reflexivity|]. cbn [cl_tables of_sfnt_loader].
    unfold parse_otf in E. rewrite Eh in E. cbn [bind] in E.
    destruct (read_entries _ _ _ _ _ _) eqn:Er; cbn [bind] in E; try discriminate. inversion E; subst. cbn [ld_tables].
    apply read_entries_ok in Er; [|exact Hf|constructor].
    rewrite Forall_map. eapply Forall_impl; [|exact Er]. intros [t s] [A B]. unfold sec_ok; cbn in *. lia. }
  destruct (_ || _); discriminate.
Qed.

Lemma parse_each_ok file rel offs : bytes_ok file -> forall lds, result (parse_each file offs rel) = Ok lds -> Forall (loader_ok file) lds.
Proof.
  intros Hf. induction offs as [|o r IH]; intros lds; cbn [parse_each].
  { unfold ret, result; cbn. intros H; inversion H; constructor. }
  intros H. apply bindM_ok in H as [ld [Hl H]]. apply bindM_ok in H as [rest [Hr H]].
  unfold ret, result in H; cbn in H. inversion H; subst. constructor; [eapply parse_one_font_ok; eauto|apply IH, Hr].
Qed.

Lemma new_loaders_ok file lds : bytes_ok file -> result (new_loaders file) = Ok lds -> Forall (loader_ok file) lds.
Proof.
  intros Hf. unfold new_loaders. destruct (_ <=? 0); [discriminate|].
  destruct (_ || _).
  { intros H. apply bindM_ok in H as [ld [Hl H]]. unfold ret, result in H; cbn in H. inversion H; subst.
    constructor; [eapply parse_one_font_ok; eauto|constructor]. }
  destruct (_ =? tag_ttcf).
  { intros H. apply bindM_ok in H as [offs [_ H]]. rewrite bindM_allocR in H. eapply parse_each_ok; eauto. }
  destruct (_ =? tag_dfont); [|discriminate].
  intros H. apply bindM_ok in H as [offs [_ H]]. rewrite bindM_allocR in H. eapply parse_each_ok; eauto.
Qed.

Lemma table_alloc_bounded_lemma : forall file lds ld tag, bytes_ok file ->
  result (new_loaders file) = Ok lds -> In ld lds ->
  total (result (raw_table_m file ld tag)) /\ 0 <= allocated (raw_table_m file ld tag) <= table_alloc_bound (zlen file).
Proof.
  intros file lds ld tag Hf Hn Hin. split; [apply raw_table_total_lemma|].
  apply raw_table_alloc. pose proof (new_loaders_ok file lds Hf Hn) as H. rewrite Forall_forall in H. auto.
Qed.
