(* Lemmas for C13: the caching models are refinements of the cache-free reference machines. *)
From TV Require Import Spec.Reuse.

Lemma NoDup_app_one {A} (l : list A) x : NoDup l -> ~ In x l -> NoDup (l ++ [x]).
Proof.
  induction l as [|a r IH]; simpl; intros N H.
  - constructor; [tauto|constructor].
  - inversion N; subst. constructor.
    + intros C. apply in_app_or in C. destruct C as [C|[C|[]]]; [tauto|subst; tauto].
    + apply IH; tauto.
Qed.

(* ------------------------------------------------------------------------------------------ *)
Section FaceProofs.
  Variables coords variations extents : Type.
  Variable raw : Z -> coords -> Z * Z -> option extents.
  Variable norm : variations -> coords.
  Variable nil_coords : coords.

  Notation face := (FaceCache.face coords extents).
  Notation op := (FaceCache.op coords variations).
  Notation cache_get := (FaceCache.cache_get extents).
  Notation cache_set := (FaceCache.cache_set extents).
  Notation cache_reset := (FaceCache.cache_reset extents).
  Notation run := (FaceCache.run coords variations extents raw norm).
  Notation final := (FaceCache.final coords variations extents raw norm).
  Notation step := (FaceCache.step coords variations extents raw norm).
  Notation new_face := (FaceCache.new_face coords extents nil_coords).
  Notation face_ref := (face_ref coords variations extents raw norm).

  (* every valid cell holds the raw extents at the current settings *)
  Definition face_inv (f : face) : Prop :=
    forall g e, 0 <= g -> cache_get (f_cache _ _ f) g = Some e -> raw g (f_coords _ _ f) (f_ppem _ _ f) = Some e.

  (* glyph ids are unsigned (GID = uint32) *)
  Definition op_wf (o : op) : Prop := match o with FaceCache.GlyphExtents _ _ g => 0 <= g | _ => True end.

  Lemma nth_map_none (ec : list (option extents)) n : nth n (map (fun _ => @None extents) ec) None = None.
  Proof. revert n; induction ec; destruct n; simpl; auto. Qed.

  Lemma get_reset ec g : cache_get (cache_reset ec) g = None.
  Proof.
    unfold FaceCache.cache_get, FaceCache.cache_reset. destruct (_ >=? _); auto. apply nth_map_none.
  Qed.

  Lemma nth_repeat_none n k : nth k (repeat (@None extents) n) None = None.
  Proof. revert k; induction n; destruct k; simpl; auto. Qed.

  Lemma get_new n g : cache_get (f_cache _ _ (new_face n)) g = None.
  Proof.
    unfold FaceCache.cache_get, FaceCache.new_face; simpl. destruct (_ >=? _); auto. apply nth_repeat_none.
  Qed.

  Lemma upd_length {A} (l : list A) i x : length (FaceCache.upd l i x) = length l.
  Proof. revert i; induction l; destruct i; simpl; auto. Qed.

  Lemma nth_upd {A} (l : list A) i j x d :
    nth j (FaceCache.upd l i x) d = if (Nat.eqb i j && Nat.ltb i (length l))%bool then x else nth j l d.
  Proof.
    revert i j; induction l; intros i j.
    - destruct i, j; simpl; auto; rewrite ?Bool.andb_false_r; auto.
    - destruct i, j; simpl; auto. rewrite IHl.
      replace (Nat.ltb (S i) (S (length l))) with (Nat.ltb i (length l)); auto.
  Qed.

  Lemma get_set ec g e g' : 0 <= g -> 0 <= g' ->
    cache_get (cache_set ec g e) g' = if (g' =? g) && (g <? zlen ec) then Some e else cache_get ec g'.
  Proof.
    intros Hg Hg'. unfold FaceCache.cache_get, FaceCache.cache_set.
    destruct (g >=? zlen ec) eqn:E.
    - replace (g <? zlen ec) with false by lia. rewrite Bool.andb_false_r. reflexivity.
    - replace (g <? zlen ec) with true by lia. rewrite Bool.andb_true_r.
      unfold zlen. rewrite upd_length. fold (zlen ec).
      destruct (g' >=? zlen ec) eqn:E'.
      + destruct (g' =? g) eqn:E2; auto. lia.
      + rewrite nth_upd.
        assert (Nat.ltb (Z.to_nat g) (length ec) = true) as -> by (apply Nat.ltb_lt; unfold zlen in E; lia).
        rewrite Bool.andb_true_r.
        destruct (g' =? g) eqn:E2.
        * assert (g' = g) by lia; subst. rewrite Nat.eqb_refl. reflexivity.
        * assert (Nat.eqb (Z.to_nat g) (Z.to_nat g') = false) as -> by (apply Nat.eqb_neq; lia). reflexivity.
  Qed.

  Lemma inv_new n : face_inv (new_face n).
  Proof. intros g e _ H. rewrite get_new in H. discriminate. Qed.

  Lemma step_inv f o : face_inv f -> op_wf o -> face_inv (fst (step f o)).
  Proof.
    intros I W. destruct o; simpl.
    - intros g e _ H. simpl in H. rewrite get_reset in H. discriminate.
    - intros g e _ H. simpl in H. rewrite get_reset in H. discriminate.
    - intros g e _ H. simpl in H. rewrite get_reset in H. discriminate.
    - simpl in W. unfold FaceCache.glyph_extents.
      destruct (cache_get (f_cache _ _ f) g) eqn:G; simpl; auto.
      destruct (raw g (f_coords _ _ f) (f_ppem _ _ f)) eqn:R; simpl; auto.
      intros g' e' Hg' H. simpl in *. rewrite get_set in H by assumption.
      destruct ((g' =? g) && (g <? zlen (f_cache _ _ f))) eqn:E.
      + assert (g' = g) by lia; subst. congruence.
      + apply I; assumption.
  Qed.

  Lemma step_answer f o a : face_inv f -> op_wf o -> snd (step f o) = Some a ->
    exists g, o = FaceCache.GlyphExtents _ _ g /\ a = raw g (f_coords _ _ f) (f_ppem _ _ f).
  Proof.
    intros I W. destruct o; simpl; try discriminate.
    unfold FaceCache.glyph_extents.
    destruct (cache_get (f_cache _ _ f) g) eqn:G; simpl.
    - intros H; inversion H; subst. exists g; split; auto. symmetry. apply I; auto.
    - destruct (raw g (f_coords _ _ f) (f_ppem _ _ f)) eqn:R; simpl; intros H; inversion H; subst; exists g; auto.
  Qed.

  Lemma run_ref ops : forall f, face_inv f -> Forall op_wf ops ->
    run f ops = face_ref (f_coords _ _ f) (f_ppem _ _ f) ops.
  Proof.
    induction ops as [|o r IH]; intros f I W; [reflexivity|].
    inversion W as [|? ? Wo Wr]; subst.
    pose proof (step_inv f o I Wo) as I'.
    simpl. destruct (step f o) as [f' a] eqn:S. simpl in I'.
    destruct o; simpl in S; inversion S; subst; simpl.
    - apply (IH _ I' Wr).
    - apply (IH _ I' Wr).
    - apply (IH _ I' Wr).
    - clear S. unfold FaceCache.glyph_extents in *.
      destruct (cache_get (f_cache _ _ f) g) eqn:G.
      + inversion H0; subst. rewrite (IH _ I' Wr). f_equal. symmetry. apply I; auto.
      + destruct (raw g (f_coords _ _ f) (f_ppem _ _ f)) eqn:R; inversion H0; subst; rewrite (IH _ I' Wr); simpl; reflexivity.
  Qed.

  Lemma face_cache_transparent_lemma n ops : Forall op_wf ops ->
    run (new_face n) ops = face_ref nil_coords (0, 0) ops.
  Proof. intros W. apply (run_ref ops (new_face n) (inv_new n) W). Qed.

  Lemma final_inv ops : forall f, face_inv f -> Forall op_wf ops -> face_inv (final f ops).
  Proof.
    induction ops as [|o r IH]; intros f I W; [exact I|].
    inversion W; subst. unfold FaceCache.final; simpl. apply IH; auto. apply step_inv; auto.
  Qed.

  (* the cache content itself: after any history every valid cell equals the raw value at the settings in force *)
  Lemma face_cache_cells_lemma n ops : Forall op_wf ops -> face_inv (final (new_face n) ops).
  Proof. intros; apply final_inv; auto using inv_new. Qed.
End FaceProofs.

(* ------------------------------------------------------------------------------------------ *)
Section ShaperProofs.
  Variable hbfont : Type.
  Variable mk : Z -> hbfont.

  Notation lru := (ShaperCache.lru hbfont).
  Notation entries := (ShaperCache.entries hbfont).
  Notation max_size := (ShaperCache.max_size hbfont).
  Notation lookup := (ShaperCache.lookup hbfont).
  Notation remove_key := (ShaperCache.remove_key hbfont).
  Notation evict := (ShaperCache.evict hbfont).
  Notation step := (ShaperCache.step hbfont mk).
  Notation run := (ShaperCache.run hbfont mk).
  Notation final := (ShaperCache.final hbfont mk).
  Notation shape_font := (ShaperCache.shape_font hbfont mk).
  Notation lru_init := (ShaperCache.lru_init hbfont).

  Definition good (l : lru) : Prop := forall k v, In (k, v) (entries l) -> v = mk k.

  Lemma lookup_in es k v : lookup es k = Some v -> In (k, v) es.
  Proof.
    induction es as [|[k' v'] r IH]; simpl; [discriminate|].
    destruct (k' =? k) eqn:E; intros H.
    - inversion H; subst. left. f_equal. lia.
    - right; auto.
  Qed.
  Lemma lookup_none es k : lookup es k = None -> ~ In k (map fst es).
  Proof.
    induction es as [|[k' v'] r IH]; simpl; [tauto|].
    destruct (k' =? k) eqn:E; [discriminate|]. intros H [A|A]; [lia|]. apply IH; auto.
  Qed.
  Lemma remove_in es k x : In x (remove_key es k) -> In x es.
  Proof.
    induction es as [|[k' v'] r IH]; simpl; auto.
    destruct (k' =? k); simpl; intuition.
  Qed.
  Lemma remove_len es k v : lookup es k = Some v -> zlen (remove_key es k) = zlen es - 1.
  Proof.
    induction es as [|[k' v'] r IH]; cbn [ShaperCache.lookup ShaperCache.remove_key]; [discriminate|].
    destruct (k' =? k); intros H.
    - unfold zlen; simpl length; lia.
    - specialize (IH H). unfold zlen in *; simpl length; lia.
  Qed.
  Lemma remove_keys es k : NoDup (map fst es) -> NoDup (map fst (remove_key es k)) /\ ~ In k (map fst (remove_key es k)).
  Proof.
    induction es as [|[k' v'] r IH]; simpl; intros N.
    - split; [constructor|tauto].
    - inversion N as [|? ? Hn Hr]; subst.
      destruct (k' =? k) eqn:E.
      + split; auto. assert (k' = k) by lia; subst. exact Hn.
      + destruct (IH Hr) as [A B]. simpl. split.
        * constructor; auto. intros C. apply Hn.
          apply in_map_iff in C. destruct C as [x [Hx Hi]]. apply remove_in in Hi. apply in_map_iff. eauto.
        * intros [C|C]; [lia|tauto].
  Qed.
  Lemma evict_in es m x : In x (evict es m) -> In x es.
  Proof.
    induction es as [|a r IH]; simpl; auto.
    destruct (zlen (a :: r) >? m); simpl; intuition.
  Qed.
  Lemma evict_len es m : zlen (evict es m) <= Z.max 0 m /\ zlen (evict es m) <= zlen es.
  Proof.
    induction es as [|a r IH]; cbn [ShaperCache.evict].
    - unfold zlen; simpl; lia.
    - destruct (zlen (a :: r) >? m) eqn:E.
      + destruct IH as [I1 I2]. rewrite zlen_cons. split; lia.
      + split; [|lia]. rewrite Z.gtb_ltb in E. apply Z.ltb_ge in E. lia.
  Qed.
  Lemma evict_nodup es m : NoDup (map fst es) -> NoDup (map fst (evict es m)).
  Proof.
    induction es as [|a r IH]; simpl; auto.
    intros N. inversion N; subst. destruct (zlen (a :: r) >? m); auto.
  Qed.

  Lemma step_good l o : good l -> good (fst (step l o)).
  Proof.
    intros G. destruct o as [f|n]; simpl; [|exact G].
    unfold ShaperCache.shape_font, ShaperCache.lru_get.
    destruct (lookup (entries l) f) eqn:L; simpl.
    - intros k v' H. simpl in H. apply in_app_or in H. destruct H as [H|[H|[]]].
      + apply G. eapply remove_in; eauto.
      + inversion H; subst. apply G. apply lookup_in; auto.
    - intros k v' H. simpl in H. apply evict_in in H. apply in_app_or in H. destruct H as [H|[H|[]]].
      + apply G; auto.
      + inversion H; subst; auto.
  Qed.

  Lemma step_used l o v : good l -> snd (step l o) = Some v -> exists f, o = ShaperCache.Shape f /\ v = mk f.
  Proof.
    intros G. destruct o as [f|n]; simpl; [|discriminate].
    unfold ShaperCache.shape_font, ShaperCache.lru_get.
    destruct (lookup (entries l) f) eqn:L; simpl; intros H; inversion H; subst; exists f; split; auto.
    apply G. apply lookup_in; auto.
  Qed.

  Lemma shaper_run_ref ops : forall l, good l -> run l ops = shaper_ref hbfont mk ops.
  Proof.
    induction ops as [|o r IH]; intros l G; [reflexivity|].
    pose proof (step_good l o G) as G'.
    pose proof (step_used l o) as U.
    simpl. destruct (step l o) as [l' a] eqn:S. simpl in *.
    destruct o as [f|n]; simpl in S.
    - destruct (shape_font l f) as [l2 v] eqn:SF. inversion S; subst.
      destruct (U v G eq_refl) as [f' [E1 E2]]. inversion E1; subst. rewrite (IH _ G'). reflexivity.
    - inversion S; subst. apply (IH _ G').
  Qed.

  Lemma good_init : good lru_init.
  Proof. intros k v []. Qed.

  Lemma shaper_lru_transparent_lemma ops : run lru_init ops = shaper_ref hbfont mk ops.
  Proof. apply shaper_run_ref, good_init. Qed.

  (* keys stay distinct: len(l.m) = number of list nodes, the model's single list is faithful *)
  Lemma step_nodup l o : NoDup (map fst (entries l)) -> NoDup (map fst (entries (fst (step l o)))).
  Proof.
    intros N. destruct o as [f|n]; simpl; [|exact N].
    unfold ShaperCache.shape_font, ShaperCache.lru_get.
    destruct (lookup (entries l) f) eqn:L; simpl.
    - rewrite map_app. simpl. destruct (remove_keys (entries l) f N) as [A B].
      apply NoDup_app_one; auto.
    - apply evict_nodup. rewrite map_app. simpl. apply NoDup_app_one; auto. apply lookup_none; auto.
  Qed.

  Lemma final_nodup ops : forall l, NoDup (map fst (entries l)) -> NoDup (map fst (entries (final l ops))).
  Proof.
    induction ops as [|o r IH]; intros l N; [exact N|].
    unfold ShaperCache.final; simpl. apply IH. apply step_nodup; auto.
  Qed.
  Lemma lru_keys_distinct_lemma ops : NoDup (map fst (entries (final lru_init ops))).
  Proof. apply final_nodup. constructor. Qed.

  Lemma final_good ops : forall l, good l -> good (final l ops).
  Proof.
    induction ops as [|o r IH]; intros l G; [exact G|].
    unfold ShaperCache.final; simpl. apply IH. apply step_good; auto.
  Qed.
  Lemma lru_values_lemma ops k v : In (k, v) (entries (final lru_init ops)) -> v = mk k.
  Proof. apply final_good, good_init. Qed.

  (* size: an insertion brings the cache down to its configured size ... *)
  Lemma shape_miss_len l f : ShaperCache.is_miss hbfont l f = true ->
    zlen (entries (fst (shape_font l f))) <= Z.max 0 (max_size l).
  Proof.
    unfold ShaperCache.is_miss, ShaperCache.shape_font, ShaperCache.lru_get.
    destruct (lookup (entries l) f); [discriminate|]. intros _. simpl. apply evict_len.
  Qed.
  (* ... and nothing else makes it grow *)
  Lemma step_len l o B : 0 <= B -> zlen (entries l) <= B -> max_size l <= B ->
    (match o with ShaperCache.SetFontCacheSize n => n <= B | _ => True end) ->
    zlen (entries (fst (step l o))) <= B /\ max_size (fst (step l o)) <= B.
  Proof.
    intros HB HL HM HO. destruct o as [f|n]; simpl; [|auto].
    unfold ShaperCache.shape_font, ShaperCache.lru_get.
    destruct (lookup (entries l) f) eqn:L; simpl.
    - split; auto. rewrite zlen_app, (remove_len _ _ _ L). unfold zlen at 2; simpl. lia.
    - split; auto. pose proof (evict_len (entries l ++ [(f, mk f)]) (max_size l)). lia.
  Qed.
  Lemma final_len ops : forall l B, 0 <= B -> zlen (entries l) <= B -> max_size l <= B ->
    (forall n, In n (sizes_set ops) -> n <= B) -> zlen (entries (final l ops)) <= B.
  Proof.
    induction ops as [|o r IH]; intros l B HB HL HM HS; [exact HL|].
    unfold ShaperCache.final; simpl.
    destruct (step_len l o B HB HL HM) as [A1 A2].
    { destruct o; simpl in *; auto. }
    apply IH; auto. intros n Hn. apply HS. destruct o; simpl; auto.
  Qed.
  Lemma lru_size_bounded_lemma ops B : 0 <= B -> (forall n, In n (sizes_set ops) -> n <= B) ->
    zlen (entries (final lru_init ops)) <= B.
  Proof. intros. apply final_len; auto; simpl; unfold zlen; simpl; lia. Qed.

  Lemma final_app ops1 ops2 l : final l (ops1 ++ ops2) = final (final l ops1) ops2.
  Proof. unfold ShaperCache.final. apply fold_left_app. Qed.
  Lemma lru_shrinks_on_insert_lemma ops f :
    let l := final lru_init ops in
    ShaperCache.is_miss hbfont l f = true ->
    zlen (entries (final lru_init (ops ++ [ShaperCache.Shape f]))) <= Z.max 0 (max_size l).
  Proof.
    intros l H. rewrite final_app. fold l. unfold ShaperCache.final at 1. simpl.
    destruct (shape_font l f) as [l' v] eqn:E. simpl.
    pose proof (shape_miss_len l f H) as P. rewrite E in P. exact P.
  Qed.
End ShaperProofs.

(* ------------------------------------------------------------------------------------------ *)
Section PlanProofs.
  Variables coords plan : Type.
  Variable font_of : Z -> Z.
  Variable varidx : Z -> coords -> Z * Z.
  Variable compile : Z -> Z -> list feature -> Z * Z -> plan.
  (* what the plan compiler looks at in a user feature: tag, value and whether it is global
     (ot_shaper.go collectFeatures); this is the assumption under which matching on exactly these is sound *)
  Hypothesis compile_respects_match : forall fnt props fs fs' key,
    feats_match (map normalise fs') fs = true -> compile fnt props fs' key = compile fnt props fs key.

  Notation planrec := (PlanCache.planrec plan).
  Notation cache := (PlanCache.cache plan).
  Notation plans_of := (PlanCache.plans_of plan).
  Notation set_plans := (PlanCache.set_plans plan).
  Notation world := (PlanCache.world coords plan).
  Notation run := (PlanCache.run coords plan font_of varidx compile).
  Notation step := (PlanCache.step coords plan font_of varidx compile).
  Notation plan_ref := (plan_ref coords plan font_of varidx compile).

  Definition rec_ok (face : Z) (p : planrec) : Prop :=
    exists fs', p_feats _ p = map normalise fs' /\ p_plan _ p = compile (font_of face) (p_props _ p) fs' (p_key _ p).
  Definition cache_inv (c : cache) : Prop := forall face p, In p (plans_of c face) -> rec_ok face p.

  Lemma plans_set c face ps face' :
    plans_of (set_plans c face ps) face' = if face' =? face then ps else plans_of c face'.
  Proof.
    induction c as [|[f qs] r IH]; simpl.
    - destruct (face =? face') eqn:E, (face' =? face) eqn:E2; auto; lia.
    - destruct (f =? face) eqn:E; simpl.
      + destruct (f =? face') eqn:E1, (face' =? face) eqn:E2; auto; lia.
      + destruct (f =? face') eqn:E1; auto.
        destruct (face' =? face) eqn:E2; auto. lia.
  Qed.

  Lemma find_plan_some eq ps props feats key p :
    PlanCache.find_plan plan eq ps props feats key = Some p -> In p ps /\ eq p props feats key = true.
  Proof.
    induction ps as [|q r IH]; simpl; [discriminate|].
    destruct (eq q props feats key) eqn:E; intros H.
    - inversion H; subst. auto.
    - destruct (IH H); auto.
  Qed.

  Lemma plan_step_inv w o : cache_inv (w_cache _ _ w) -> cache_inv (w_cache _ _ (fst (step w o))).
  Proof.
    intros I. destruct o as [f c|f props feats]; simpl; auto.
    unfold PlanCache.plan_cached_with.
    destruct (PlanCache.find_plan plan _ _ props feats _) eqn:F; simpl; auto.
    intros face p H. rewrite plans_set in H.
    destruct (face =? f) eqn:E.
    - assert (face = f) by lia; subst. apply in_app_or in H. destruct H as [H|[H|[]]]; [apply I; auto|].
      subst p. exists feats. simpl. auto.
    - apply I; auto.
  Qed.

  Lemma step_plan w o p : cache_inv (w_cache _ _ w) -> snd (step w o) = Some p ->
    exists f props feats, o = PlanCache.ShapeB coords f props feats
      /\ p_plan _ p = compile (font_of f) props feats (varidx (font_of f) (w_coords _ _ w f)).
  Proof.
    intros I. destruct o as [f c|f props feats]; simpl; [discriminate|].
    unfold PlanCache.plan_cached_with.
    destruct (PlanCache.find_plan plan _ _ props feats _) eqn:F; simpl; intros H; inversion H; subst.
    - exists f, props, feats. split; auto.
      apply find_plan_some in F. destruct F as [Hin Heq].
      destruct (I _ _ Hin) as [fs' [E1 E2]].
      unfold PlanCache.plan_equal, key_eqb in Heq.
      apply andb_prop in Heq. destruct Heq as [Heq K]. apply andb_prop in Heq. destruct Heq as [P M].
      apply andb_prop in K. destruct K as [K0 K1].
      assert (p_props _ p = props) by lia.
      assert (p_key _ p = varidx (font_of f) (w_coords _ _ w f)).
      { destruct (p_key _ p), (varidx (font_of f) (w_coords _ _ w f)); simpl in *. f_equal; lia. }
      rewrite E2. rewrite E1 in M. rewrite H0, H1. apply compile_respects_match; auto.
    - exists f, props, feats. split; auto.
  Qed.

  Lemma plan_run_ref ops : forall w, cache_inv (w_cache _ _ w) -> run w ops = plan_ref (w_coords _ _ w) ops.
  Proof.
    induction ops as [|o r IH]; intros w I; [reflexivity|].
    pose proof (plan_step_inv w o I) as I'. pose proof (step_plan w o) as P.
    unfold PlanCache.run in *. simpl. fold (step w o).
    destruct (step w o) as [w' a] eqn:S. simpl in *.
    destruct o as [f c|f props feats].
    - simpl in S. inversion S; subst. simpl. apply (IH _ I').
    - destruct a as [p|].
      + destruct (P p I eq_refl) as [f' [props' [feats' [E1 E2]]]]. inversion E1; subst.
        rewrite E2. simpl. f_equal.
        assert (w_coords _ _ w' = w_coords _ _ w) as <-.
        { simpl in S. destruct (PlanCache.plan_cached_with _ _ _ _ _ _ _ _ _ _ _) in S. inversion S; reflexivity. }
        apply (IH _ I').
      + simpl in S. destruct (PlanCache.plan_cached_with _ _ _ _ _ _ _ _ _ _ _) in S. inversion S.
  Qed.

  Lemma plan_cache_transparent_lemma cs ops :
    run (PlanCache.mkWorld coords plan cs []) ops = plan_ref cs ops.
  Proof. apply (plan_run_ref ops (PlanCache.mkWorld coords plan cs [])). intros face p []. Qed.
End PlanProofs.

(* ------------------------------------------------------------------------------------------ *)
(* a plan compiler that looks at everything the assumption allows (font, properties, tag / value /
   globalness of every feature, variation indices) satisfies the assumption: it is not vacuous *)
Definition feat_proj (f : feature) : Z * Z * bool := (feat_tag f, feat_value f, is_global f).
Definition proj_compile (fnt props : Z) (fs : list feature) (key : Z * Z) := (fnt, props, map feat_proj fs, key).

Lemma is_global_normalise f : is_global (normalise f) = is_global f.
Proof.
  destruct f as [[[t v] s] e]. unfold is_global, normalise, feat_start, feat_end, feat_tag, feat_value; simpl.
  destruct (s =? global_start) eqn:E1; destruct (e =? global_end) eqn:E2; simpl; rewrite ?E1, ?E2; auto.
Qed.

Lemma feats_match_proj fs' : forall fs, feats_match (map normalise fs') fs = true -> map feat_proj fs' = map feat_proj fs.
Proof.
  induction fs' as [|a r IH]; intros [|b s]; simpl; try discriminate; auto.
  intros H. apply andb_prop in H. destruct H as [H M]. apply andb_prop in H. destruct H as [H G].
  apply andb_prop in H. destruct H as [T V].
  rewrite (IH _ M). f_equal. unfold feat_proj.
  rewrite <- (is_global_normalise a).
  apply Bool.eqb_prop in G. rewrite G.
  destruct a as [[[t v] st] e]. unfold normalise, feat_tag, feat_value in *; simpl in *.
  repeat f_equal; lia.
Qed.

Lemma proj_compile_respects_match fnt props fs fs' key :
  feats_match (map normalise fs') fs = true -> proj_compile fnt props fs' key = proj_compile fnt props fs key.
Proof. intros H. unfold proj_compile. rewrite (feats_match_proj _ _ H). reflexivity. Qed.
