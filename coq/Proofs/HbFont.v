(* Lemmas about Model/HbFont.v (harfbuzz/fonts.go): binary32 rounding, emScalef against the exact rational
   specification, oddness, monotonicity, ranges; and about Model/HbPos.v (default positioning). *)
From Coq Require Import ZArith List Bool Lia Zquot.
From TV Require Import Lib.GoNum Model.F32 Model.HbFont Model.HbPos Spec.HbFont.
Import ListNotations.
Open Scope Z_scope.

Lemma sint32_eq y : exists k, sint32 y = y + k * 4294967296.
Proof.
  unfold sint32, wrap32. pose proof (Z.div_mod y 4294967296 ltac:(lia)) as E.
  destruct (y mod 4294967296 <? 2147483648); [exists (- (y / 4294967296))|exists (- (y / 4294967296) - 1)]; lia.
Qed.
Lemma sint32_rng y : - 2147483648 <= sint32 y < 2147483648.
Proof.
  unfold sint32, wrap32. pose proof (Z.mod_pos_bound y 4294967296 ltac:(lia)).
  destruct (y mod 4294967296 <? 2147483648) eqn:A; [apply Z.ltb_lt in A|apply Z.ltb_ge in A]; lia.
Qed.
Lemma sint32_unique a b : (exists k, a = b + k * 4294967296) -> - 2147483648 <= a < 2147483648 -> - 2147483648 <= b < 2147483648 -> a = b.
Proof. intros [k E] A B. assert (k = 0) by lia. subst k. lia. Qed.

(* ---- the rounding core ---------------------------------------------------------------------- *)
(* p/d rounded to the nearest integer, ties to even *)
Definition rnd_core (p d : Z) : Z :=
  let t := p / d in
  let r := p - t * d in
  if 2 * r <? d then t else if d <? 2 * r then t + 1 else if Z.even t then t else t + 1.

Definition qsh (p q : Z) : Z := Z.max 0 (Z.log2 (p / q) - 23).

Lemma rnd_q_core p q : rnd_q p q = rnd_core p (q * 2 ^ qsh p q) * 2 ^ qsh p q.
Proof. reflexivity. Qed.

Lemma rnd_core_cases p d : 0 < d ->
  let t := p / d in let r := p - t * d in
  0 <= r < d /\ ((rnd_core p d = t /\ 2 * r <= d) \/ (rnd_core p d = t + 1 /\ d <= 2 * r)).
Proof.
  intros Hd. cbv zeta. unfold rnd_core.
  pose proof (Z.div_mod p d ltac:(lia)) as E. pose proof (Z.mod_pos_bound p d Hd) as B.
  assert (R : p - p / d * d = p mod d) by lia. rewrite R. split; [lia|].
  destruct (2 * (p mod d) <? d) eqn:A; [left; split; [reflexivity|lia]|].
  destruct (d <? 2 * (p mod d)) eqn:C; [right; split; [reflexivity|lia]|].
  apply Z.ltb_ge in A, C. destruct (Z.even (p / d)); [left|right]; split; try reflexivity; lia.
Qed.

Lemma rnd_core_err p d : 0 < d -> 2 * Z.abs (rnd_core p d * d - p) <= d.
Proof.
  intros Hd. destruct (rnd_core_cases p d Hd) as [B [[E L]|[E L]]]; rewrite E; lia.
Qed.

Lemma rnd_core_exact k d : 0 < d -> rnd_core (k * d) d = k.
Proof.
  intros Hd. unfold rnd_core. rewrite Z.div_mul by lia. replace (k * d - k * d) with 0 by lia.
  replace (2 * 0 <? d) with true by (symmetry; apply Z.ltb_lt; lia). reflexivity.
Qed.

Lemma rnd_core_mono p p' d : 0 < d -> p <= p' -> rnd_core p d <= rnd_core p' d.
Proof.
  intros Hd Hp.
  destruct (rnd_core_cases p d Hd) as [B [[E L]|[E L]]]; destruct (rnd_core_cases p' d Hd) as [B' [[E' L']|[E' L']]];
    rewrite E, E'; pose proof (Z.div_le_mono p p' d Hd Hp) as M; try lia.
  - (* t+1 vs t' : if t = t' then r <= r', 2r >= d >= 2r' so r = r' and then both are ties: same parity choice *)
    destruct (Z.eq_dec (p / d) (p' / d)) as [Q|Q]; [|lia].
    assert (p = p') by (rewrite Q in *; lia). subst p'.
    unfold rnd_core in E, E'. rewrite E in E'. lia.
Qed.

Lemma rnd_core_nonneg p d : 0 < d -> 0 <= p -> 0 <= rnd_core p d.
Proof.
  intros Hd Hp. pose proof (rnd_core_mono 0 p d Hd Hp) as M. replace 0 with (0 * d) in M at 1 by lia.
  rewrite rnd_core_exact in M by lia. exact M.
Qed.

Lemma rnd_core_scale p d c : 0 < d -> 0 < c -> rnd_core (p * c) (d * c) = rnd_core p d.
Proof.
  intros Hd Hc. unfold rnd_core. rewrite Z.div_mul_cancel_r by lia.
  replace (p * c - p / d * (d * c)) with ((p - p / d * d) * c) by ring.
  set (r := p - p / d * d).
  replace (2 * (r * c) <? d * c) with (2 * r <? d).
  2:{ destruct (2 * r <? d) eqn:A; symmetry; [apply Z.ltb_lt in A; apply Z.ltb_lt; nia|apply Z.ltb_ge in A; apply Z.ltb_ge; nia]. }
  replace (d * c <? 2 * (r * c)) with (d <? 2 * r).
  2:{ destruct (d <? 2 * r) eqn:A; symmetry; [apply Z.ltb_lt in A; apply Z.ltb_lt; nia|apply Z.ltb_ge in A; apply Z.ltb_ge; nia]. }
  reflexivity.
Qed.

Lemma pow2_pos n : 0 <= n -> 0 < 2 ^ n.
Proof. intros. apply Z.pow_pos_nonneg; lia. Qed.

Lemma qsh_nonneg p q : 0 <= qsh p q.
Proof. unfold qsh. lia. Qed.
Lemma qsh_pow p q : 0 < 2 ^ qsh p q.
Proof. apply pow2_pos, qsh_nonneg. Qed.

Lemma rnd_q_scale p q c : 0 < q -> 0 < c -> rnd_q (p * c) (q * c) = rnd_q p q.
Proof.
  intros Hq Hc. rewrite !rnd_q_core. unfold qsh. rewrite Z.div_mul_cancel_r by lia.
  set (w := 2 ^ Z.max 0 (Z.log2 (p / q) - 23)). assert (0 < w) by (apply pow2_pos; lia).
  replace (q * c * w) with (q * w * c) by ring. rewrite rnd_core_scale by nia. reflexivity.
Qed.

Lemma rnd_q_nonneg p q : 0 <= p -> 0 < q -> 0 <= rnd_q p q.
Proof.
  intros Hp Hq. rewrite rnd_q_core. pose proof (qsh_pow p q).
  pose proof (rnd_core_nonneg p (q * 2 ^ qsh p q) ltac:(nia) Hp). nia.
Qed.

(* absolute error: at most half a quantum *)
Lemma rnd_q_err p q : 0 < q -> 2 * Z.abs (rnd_q p q * q - p) <= q * 2 ^ qsh p q.
Proof.
  intros Hq. rewrite rnd_q_core. set (w := 2 ^ qsh p q). assert (0 < w) by apply qsh_pow.
  pose proof (rnd_core_err p (q * w) ltac:(nia)) as E.
  replace (rnd_core p (q * w) * w * q) with (rnd_core p (q * w) * (q * w)) by ring. exact E.
Qed.

(* the quantum is at most 2^-23 of the value once the value is at least 2^23 units *)
Lemma qsh_bound p q : 0 < q -> 2 ^ 23 * q <= p -> 2 ^ 23 * (q * 2 ^ qsh p q) <= p.
Proof.
  intros Hq Hp. unfold qsh.
  assert (F : 2 ^ 23 <= p / q) by (apply Z.div_le_lower_bound; lia).
  destruct (Z.max_spec 0 (Z.log2 (p / q) - 23)) as [[A ->]|[A ->]].
  - pose proof (Z.log2_spec (p / q) ltac:(lia)) as [L _].
    assert (E : 2 ^ Z.log2 (p / q) = 2 ^ 23 * 2 ^ (Z.log2 (p / q) - 23)).
    { rewrite <- Z.pow_add_r by lia. f_equal. lia. }
    pose proof (Z.mul_div_le p q Hq). nia.
  - rewrite Z.pow_0_r. lia.
Qed.

(* relative error 2^-24 *)
Lemma rnd_q_rel p q : 0 < q -> 2 ^ 23 * q <= p -> 2 ^ 24 * Z.abs (rnd_q p q * q - p) <= p.
Proof.
  intros Hq Hp. pose proof (rnd_q_err p q Hq). pose proof (qsh_bound p q Hq Hp). lia.
Qed.

(* a value with at most 24 significant bits is not changed *)
Lemma rnd_q_exact k q : 0 < q -> 0 <= k -> (2 ^ Z.max 0 (Z.log2 k - 23) | k) -> rnd_q (k * q) q = k.
Proof.
  intros Hq Hk [m Hm]. rewrite rnd_q_core. unfold qsh. rewrite Z.div_mul by lia.
  set (w := 2 ^ Z.max 0 (Z.log2 k - 23)) in *. assert (0 < w) by (apply pow2_pos; lia).
  replace (k * q) with (m * (q * w)) by (rewrite Hm at 1; ring). rewrite rnd_core_exact by nia. lia.
Qed.

Lemma rnd_q_zero q : 0 < q -> rnd_q 0 q = 0.
Proof. intros Hq. change 0 with (0 * q) at 1. apply rnd_q_exact; try lia. exists 0. reflexivity. Qed.

(* ---- Model/F32.v's rounding is the same rounding ----------------------------------------------- *)
Lemma rne_core a sh : 0 < sh -> rne a sh = rnd_core a (2 ^ sh).
Proof.
  intros Hs. unfold rne, rnd_core. replace (sh <=? 0) with false by (symmetry; apply Z.leb_gt; lia).
  rewrite Z.shiftr_div_pow2 by lia. rewrite !Z.shiftl_mul_pow2 by lia. rewrite Z.mul_1_l.
  set (t := a / 2 ^ sh). set (r := a - t * 2 ^ sh).
  assert (E : 2 ^ sh = 2 * 2 ^ (sh - 1)) by (rewrite <- Z.pow_succ_r by lia; f_equal; lia).
  set (h := 2 ^ (sh - 1)) in *. rewrite E.
  replace (2 * r <? 2 * h) with (r <? h) by (destruct (r <? h) eqn:A; symmetry; [apply Z.ltb_lt in A; apply Z.ltb_lt|apply Z.ltb_ge in A; apply Z.ltb_ge]; lia).
  replace (2 * h <? 2 * r) with (h <? r) by (destruct (h <? r) eqn:A; symmetry; [apply Z.ltb_lt in A; apply Z.ltb_lt|apply Z.ltb_ge in A; apply Z.ltb_ge]; lia).
  reflexivity.
Qed.

Lemma round_sh_rnd_q n k : 0 <= k -> f32_round_sh n k = Z.sgn n * rnd_q (Z.abs n) (2 ^ k).
Proof.
  intros Hk. unfold f32_round_sh. f_equal. set (a := Z.abs n). assert (Ha : 0 <= a) by (unfold a; lia).
  destruct (Z.eq_dec a 0) as [Z0|NZ].
  - rewrite Z0. rewrite rnd_q_zero by (apply pow2_pos; lia). unfold rne. cbn [Z.log2].
    destruct (Z.max k (0 - 23) <=? 0); [rewrite Z.shiftl_0_l; reflexivity|]. rewrite Z.shiftr_0_l, Z.shiftl_0_l.
    set (hh := Z.shiftl 1 (Z.max k (0 - 23) - 1)). assert (0 <= hh) by (apply Z.shiftl_nonneg; lia).
    change (0 - 0) with 0. destruct (0 <? hh); [apply Z.shiftl_0_l|].
    replace (hh <? 0) with false by (symmetry; apply Z.ltb_ge; lia). cbn [Z.even]. apply Z.shiftl_0_l.
  - assert (Q : qsh a (2 ^ k) = Z.max k (Z.log2 a - 23) - k).
    { unfold qsh. rewrite <- Z.shiftr_div_pow2 by lia. rewrite Z.log2_shiftr by lia. lia. }
    rewrite rnd_q_core, Q. set (sh := Z.max k (Z.log2 a - 23)). assert (k <= sh) by (unfold sh; lia).
    rewrite Z.shiftl_mul_pow2 by lia. f_equal.
    replace (2 ^ k * 2 ^ (sh - k)) with (2 ^ sh) by (rewrite <- Z.pow_add_r by lia; f_equal; lia).
    destruct (Z.eq_dec sh 0) as [S0|SN].
    + rewrite S0. unfold rne. cbn [Z.leb Z.compare]. change (2 ^ 0) with 1. replace a with (a * 1) at 2 by lia.
      rewrite rnd_core_exact by lia. reflexivity.
    + apply rne_core. lia.
Qed.

Definition repr_ok (k : Z) : Prop := (2 ^ Z.max 0 (Z.log2 (Z.abs k) - 23) | Z.abs k).

Lemma repr24_ok k : repr24 k = true -> repr_ok k.
Proof.
  unfold repr24, repr_ok. intros H. apply Z.eqb_eq in H. apply Z.mod_divide; [|exact H].
  pose proof (pow2_pos (Z.max 0 (Z.log2 (Z.abs k) - 23)) ltac:(lia)). lia.
Qed.

Lemma small_repr_ok k : Z.abs k < 2 ^ 24 -> repr_ok k.
Proof.
  intros H. unfold repr_ok.
  assert (L : Z.log2 (Z.abs k) <= 23).
  { destruct (Z.eq_dec (Z.abs k) 0) as [->|N]; [cbn; lia|]. apply Z.lt_succ_r. apply Z.log2_lt_pow2; lia. }
  replace (Z.max 0 (Z.log2 (Z.abs k) - 23)) with 0 by lia. exists (Z.abs k). change (2 ^ 0) with 1. lia.
Qed.

(* float32(i) is i when i has at most 24 significant bits *)
Lemma f32_of_int_exact i : repr_ok i -> f32_of_int i = i * 2 ^ 149.
Proof.
  intros R. unfold f32_of_int. rewrite round_sh_rnd_q by lia. change (2 ^ 0) with 1.
  rewrite Z.shiftl_mul_pow2 by lia.
  replace (Z.abs (i * 2 ^ 149)) with ((Z.abs i * 2 ^ 149) * 1) by (rewrite Z.abs_mul; change (Z.abs (2 ^ 149)) with (2 ^ 149); lia).
  rewrite rnd_q_exact; try lia.
  - destruct R as [m Hm]. set (K := Z.abs i) in *.
    destruct (Z.eq_dec K 0) as [->|N]; [exists 0; reflexivity|].
    assert (0 < K) by (unfold K in *; lia).
    assert (LL : Z.log2 (K * 2 ^ 149) = Z.log2 K + 149) by (rewrite Z.log2_mul_pow2 by lia; lia).
    rewrite LL. set (e := Z.max 0 (Z.log2 K - 23)) in *.
    assert (e <= Z.max 0 (Z.log2 K + 149 - 23)) by (unfold e; lia).
    assert (Z.max 0 (Z.log2 K + 149 - 23) <= e + 149) by (unfold e; lia).
    set (E := Z.max 0 (Z.log2 K + 149 - 23)) in *.
    exists (m * 2 ^ (e + 149 - E)). rewrite Hm. rewrite <- !Z.mul_assoc. f_equal.
    rewrite <- !Z.pow_add_r by lia. f_equal. lia.
Qed.

(* the product of two binary32 values: sign, and the rounding of |x*y| / 2^149 *)
Lemma f32_mul_rnd x y : f32_mul x y = Z.sgn (x * y) * rnd_q (Z.abs (x * y)) (2 ^ 149).
Proof. unfold f32_mul. apply round_sh_rnd_q. lia. Qed.

Lemma f32_mul_exact a b : repr_ok (a * b) -> f32_mul (a * 2 ^ 149) (b * 2 ^ 149) = a * b * 2 ^ 149.
Proof.
  intros R. rewrite f32_mul_rnd.
  replace (a * 2 ^ 149 * (b * 2 ^ 149)) with ((a * b * 2 ^ 149) * 2 ^ 149) by ring.
  assert (P : 0 < 2 ^ 149) by (apply pow2_pos; lia).
  rewrite !Z.abs_mul, !Z.sgn_mul. change (Z.abs (2 ^ 149)) with (2 ^ 149). change (Z.sgn (2 ^ 149)) with 1.
  rewrite <- Z.abs_mul. rewrite <- Z.sgn_mul.
  assert (X : rnd_q (Z.abs (a * b) * 2 ^ 149 * 2 ^ 149) (2 ^ 149) = Z.abs (a * b) * 2 ^ 149).
  { apply rnd_q_exact; try lia.
    destruct R as [m Hm]. set (K := Z.abs (a * b)) in *.
    destruct (Z.eq_dec K 0) as [->|N]; [exists 0; reflexivity|].
    assert (0 < K) by (unfold K in *; lia).
    rewrite Z.log2_mul_pow2 by lia. replace (149 + Z.log2 K) with (Z.log2 K + 149) by lia. set (e := Z.max 0 (Z.log2 K - 23)) in *.
    assert (e <= Z.max 0 (Z.log2 K + 149 - 23)) by (unfold e; lia).
    assert (Z.max 0 (Z.log2 K + 149 - 23) <= e + 149) by (unfold e; lia).
    set (E := Z.max 0 (Z.log2 K + 149 - 23)) in *.
    exists (m * 2 ^ (e + 149 - E)). rewrite Hm. rewrite <- !Z.mul_assoc. f_equal.
    rewrite <- !Z.pow_add_r by lia. f_equal. lia. }
  rewrite X. pose proof (Z.abs_sgn (a * b)). nia.
Qed.

(* ---- the division --------------------------------------------------------------------------- *)
Lemma f32_div_rnd x y : y <> 0 -> f32_div x y = Z.sgn x * Z.sgn y * rnd_q (Z.abs x * 2 ^ 149) (Z.abs y).
Proof.
  intros Hy. unfold f32_div. replace (y =? 0) with false by (symmetry; apply Z.eqb_neq; exact Hy).
  rewrite Z.shiftl_mul_pow2 by lia. set (p := Z.abs x * 2 ^ 149). set (q := Z.abs y).
  set (c := if p =? 0 then 0 else Z.min (ctz p) (ctz q)).
  destruct ((0 <=? c) && (Z.shiftl (Z.shiftr p c) c =? p) && (Z.shiftl (Z.shiftr q c) c =? q)) eqn:T; [|reflexivity].
  apply andb_prop in T. destruct T as [T Tq]. apply andb_prop in T. destruct T as [Tc Tp].
  apply Z.leb_le in Tc. apply Z.eqb_eq in Tp, Tq. rewrite Z.shiftl_mul_pow2 in Tp, Tq by lia.
  assert (0 < 2 ^ c) by (apply pow2_pos; lia). assert (0 < q) by (unfold q; lia).
  f_equal. rewrite <- Tp at 2. rewrite <- Tq at 2. symmetry. apply rnd_q_scale; nia.
Qed.

Lemma f32_div_units P u : 0 < u -> f32_div (P * 2 ^ 149) (u * 2 ^ 149) = Z.sgn P * rnd_q (Z.abs P * 2 ^ 149) u.
Proof.
  intros Hu. assert (W : 0 < 2 ^ 149) by (apply pow2_pos; lia).
  rewrite f32_div_rnd by nia. rewrite !Z.sgn_mul, !Z.abs_mul. change (Z.sgn (2 ^ 149)) with 1. change (Z.abs (2 ^ 149)) with (2 ^ 149).
  replace (Z.sgn u) with 1 by lia. replace (Z.abs u) with u by lia. rewrite rnd_q_scale by lia. ring.
Qed.

Lemma round_away_sgn s Y : 0 <= Y -> (s = 0 \/ s = 1 \/ s = -1) -> round_away (s * Y) = s * ((Y + 2 ^ 148) / 2 ^ 149).
Proof.
  intros HY Hs. unfold round_away. rewrite Z.shiftr_div_pow2 by lia.
  destruct (Z.eq_dec Y 0) as [->|N].
  - rewrite Z.mul_0_r. cbn [Z.sgn Z.abs]. rewrite Z.div_small; [lia|]. split; [lia|]. apply Z.pow_lt_mono_r; lia.
  - destruct Hs as [->|[->| ->]]; [reflexivity| |].
    + rewrite Z.mul_1_l. replace (Z.sgn Y) with 1 by lia. replace (Z.abs Y) with Y by lia. ring.
    + replace (Z.sgn (-1 * Y)) with (-1) by lia. replace (Z.abs (-1 * Y)) with Y by lia. reflexivity.
Qed.

Lemma sgn_cases P : Z.sgn P = 0 \/ Z.sgn P = 1 \/ Z.sgn P = -1.
Proof. destruct P; cbn; auto. Qed.

(* rounding the correctly rounded quotient gives the rounding of the quotient when the binary32 grid is finer than
   the distance between p/u and the next half-integer *)
Lemma round_div_exact A u : 0 < u -> u < 2 ^ 24 -> 0 <= A -> A < 2 ^ 22 ->
  (rnd_q (A * 2 ^ 149) u + 2 ^ 148) / 2 ^ 149 = (2 * A + u) / (2 * u).
Proof.
  intros Hu Hu2 HA HA2.
  destruct (Z.eq_dec A 0) as [->|NA].
  - rewrite Z.mul_0_l, rnd_q_zero by lia. rewrite Z.div_small by (split; [lia|apply Z.pow_lt_mono_r; lia]).
    symmetry. apply Z.div_small. lia.
  - set (n := (2 * A + u) / (2 * u)).
    assert (Dn : n * (2 * u) <= 2 * A + u < (n + 1) * (2 * u)).
    { unfold n. pose proof (Z.mul_div_le (2 * A + u) (2 * u) ltac:(lia)).
      pose proof (Z.mul_succ_div_gt (2 * A + u) (2 * u) ltac:(lia)). lia. }
    assert (Hn : 0 <= n) by (unfold n; apply Z.div_pos; lia).
    assert (Hn2 : n <= A + 1) by nia.
    set (Y := rnd_q (A * 2 ^ 149) u).
    symmetry. apply Z.div_unique with (r := Y + 2 ^ 148 - n * 2 ^ 149); [|ring].
    left.
    assert (E148 : 2 ^ 149 = 2 * 2 ^ 148) by reflexivity.
    set (H := 2 ^ 148) in *. assert (HH : 0 < H) by (apply pow2_pos; lia). rewrite E148.
    destruct (Z.eq_dec (2 * A + u) (n * (2 * u))) as [Tie|NT].
    + (* the quotient is the half-integer n - 1/2 exactly: a binary32 value *)
      assert (EY : Y = (2 * n - 1) * H).
      { unfold Y. replace (A * 2 ^ 149) with ((2 * n - 1) * H * u) by (rewrite E148; nia).
        assert (1 <= n) by nia.
        apply rnd_q_exact; try nia.
        assert (L : Z.log2 ((2 * n - 1) * H) = Z.log2 (2 * n - 1) + 148).
        { unfold H. rewrite Z.log2_mul_pow2 by lia. lia. }
        rewrite L.
        assert (Z.log2 (2 * n - 1) < 23) by (apply Z.log2_lt_pow2; lia).
        set (e := Z.max 0 (Z.log2 (2 * n - 1) + 148 - 23)). assert (0 <= e <= 148) by (unfold e; pose proof (Z.log2_nonneg (2 * n - 1)); lia).
        exists ((2 * n - 1) * 2 ^ (148 - e)). unfold H. rewrite <- Z.mul_assoc. f_equal. rewrite <- Z.pow_add_r by lia. f_equal. lia. }
      rewrite EY. lia.
    + assert (R : 2 ^ 24 * Z.abs (Y * u - A * (2 * H)) <= A * (2 * H)).
      { unfold Y. rewrite <- E148. apply rnd_q_rel; [lia|]. rewrite E148.
        assert (2 ^ 23 * u < 2 ^ 23 * 2 ^ 24) by lia. assert (2 ^ 23 * 2 ^ 24 <= H) by (unfold H; apply Z.pow_le_mono_r with (a := 2) (b := 47) (c := 148); lia).
        nia. }
      assert (Bd : 2 ^ 24 * (A * (2 * H)) < 2 ^ 24 * 2 ^ 23 * H) by nia.
      set (Yu := Y * u) in *. 
      (* Y + H - 2nH in [0, 2H): multiply by u *)
      assert (G : n * (2 * H) * u <= (Y + H) * u < (n + 1) * (2 * H) * u).
      { replace ((Y + H) * u) with (Yu + H * u) by (unfold Yu; ring).
        assert (L1 : (2 * n * u - u + 1) * H <= A * (2 * H)) by nia.
        assert (L2 : A * (2 * H) <= (2 * (n + 1) * u - u - 1) * H) by nia.
        split.
        - replace (n * (2 * H) * u) with ((2 * n * u) * H) by ring.
          assert (2 ^ 24 * (2 * n * u * H) <= 2 ^ 24 * (Yu + H * u)); [|lia].
          assert (X : (2 * n * u - u + 1) * H = 2 * n * u * H - H * u + H) by ring. lia.
        - replace ((n + 1) * (2 * H) * u) with ((2 * (n + 1) * u) * H) by ring.
          assert (2 ^ 24 * (Yu + H * u) < 2 ^ 24 * (2 * (n + 1) * u * H)); [|lia].
          assert (X : (2 * (n + 1) * u - u - 1) * H = 2 * (n + 1) * u * H - H * u - H) by ring. lia. }
      nia.
Qed.

Lemma round_div_pow2 A j : 0 <= A -> 0 <= j <= 23 -> repr_ok A ->
  (rnd_q (A * 2 ^ 149) (2 ^ j) + 2 ^ 148) / 2 ^ 149 = (2 * A + 2 ^ j) / (2 * 2 ^ j).
Proof.
  intros HA Hj R. assert (Wj : 0 < 2 ^ j) by (apply pow2_pos; lia).
  assert (E1 : 2 ^ 149 = 2 ^ (149 - j) * 2 ^ j) by (rewrite <- Z.pow_add_r by lia; f_equal; lia).
  assert (Y : rnd_q (A * 2 ^ 149) (2 ^ j) = A * 2 ^ (149 - j)).
  { rewrite E1 at 1. rewrite Z.mul_assoc. apply rnd_q_exact; [lia| |].
    1:{ assert (0 < 2 ^ (149 - j)) by (apply pow2_pos; lia). nia. }
    - destruct (Z.eq_dec A 0) as [->|N]; [exists 0; reflexivity|].
      unfold repr_ok in R. replace (Z.abs A) with A in R by lia. destruct R as [m Hm].
      rewrite Z.log2_mul_pow2 by lia. set (e := Z.max 0 (Z.log2 A - 23)) in *.
      set (E := Z.max 0 (149 - j + Z.log2 A - 23)). assert (e <= E <= e + (149 - j)) by (unfold e, E; lia).
      exists (m * 2 ^ (e + (149 - j) - E)). rewrite Hm at 1. rewrite <- !Z.mul_assoc. f_equal.
      rewrite <- !Z.pow_add_r by lia. f_equal. lia. }
  rewrite Y.
  assert (E2 : A * 2 ^ (149 - j) + 2 ^ 148 = (2 * A + 2 ^ j) * 2 ^ (148 - j)).
  { replace (2 ^ (149 - j)) with (2 * 2 ^ (148 - j)) by (rewrite <- Z.pow_succ_r by lia; f_equal; lia).
    replace (2 ^ 148) with (2 ^ j * 2 ^ (148 - j)) by (rewrite <- Z.pow_add_r by lia; f_equal; lia). ring. }
  assert (E3 : 2 ^ 149 = (2 * 2 ^ j) * 2 ^ (148 - j)).
  { rewrite <- Z.pow_succ_r by lia. rewrite <- Z.pow_add_r by lia. f_equal. lia. }
  rewrite E2, E3. apply Z.div_mul_cancel_r; [lia|]. assert (0 < 2 ^ (148 - j)) by (apply pow2_pos; lia). lia.
Qed.

Lemma cvt_id r : - 2147483648 <= r < 2147483648 -> cvt_int32 r = r.
Proof.
  intros H. unfold cvt_int32, in_int32.
  replace (-2147483648 <=? r) with true by (symmetry; apply Z.leb_le; lia).
  replace (r <? 2147483648) with true by (symmetry; apply Z.ltb_lt; lia). reflexivity.
Qed.

Lemma rha_sgn P u : rha P u = Z.sgn P * ((2 * Z.abs P + u) / (2 * u)).
Proof. reflexivity. Qed.

(* emScalef on an integer number of font units, inside the exactness conditions, is the exact rounding *)
Lemma em_scalef_exact_lemma v s u : scale_exact v s u = true -> em_scalef (v * 2 ^ 149) s u = scale_spec v s u.
Proof.
  unfold scale_exact. intros H.
  apply andb_prop in H. destruct H as [H C]. apply andb_prop in H. destruct H as [H H1].
  apply andb_prop in H. destruct H as [H H3]. apply andb_prop in H. destruct H as [H H2].
  apply Z.ltb_lt in H, H2, H1. apply repr24_ok in H3.
  assert (Ru : repr_ok u) by (apply small_repr_ok; lia).
  assert (RP : repr_ok (v * s)).
  { apply orb_prop in C. destruct C as [C|C].
    - apply Z.ltb_lt in C. apply small_repr_ok. lia.
    - apply andb_prop in C. destruct C as [C _]. apply andb_prop in C. destruct C as [_ C]. apply repr24_ok. assumption. }
  unfold em_scalef, scale_spec. rewrite (f32_of_int_exact s H3), (f32_of_int_exact u Ru).
  rewrite f32_mul_exact by exact RP. rewrite f32_div_units by lia.
  unfold roundf. rewrite round_away_sgn; [|apply rnd_q_nonneg; [|lia]|apply sgn_cases].
  2:{ assert (0 < 2 ^ 149) by (apply pow2_pos; lia). nia. }
  rewrite rha_sgn. set (A := Z.abs (v * s)). assert (HA : 0 <= A) by (unfold A; lia).
  assert (Q : (rnd_q (A * 2 ^ 149) u + 2 ^ 148) / 2 ^ 149 = (2 * A + u) / (2 * u) /\ (2 * A + u) / (2 * u) < 2 ^ 31).
  { apply orb_prop in C. destruct C as [C|C].
    - apply Z.ltb_lt in C. fold A in C. split; [apply round_div_exact; lia|].
      apply Z.div_lt_upper_bound; [lia|]. nia.
    - apply andb_prop in C. destruct C as [C H4]. apply andb_prop in C. destruct C as [C _]. apply Z.ltb_lt in H4. fold A in H4.
      unfold is_pow2 in C. apply andb_prop in C. destruct C as [_ C]. apply Z.eqb_eq in C.
      assert (J : Z.log2 u <= 23) by (apply Z.lt_succ_r; apply Z.log2_lt_pow2; lia).
      pose proof (Z.log2_nonneg u).
      split.
      + set (j := Z.log2 u) in *. clearbody j. subst u. apply round_div_pow2; try lia. unfold repr_ok in *. unfold A. rewrite Z.abs_involutive. exact RP.
      + apply Z.div_lt_upper_bound; [lia|]. nia. }
  destruct Q as [Q B]. rewrite Q.
  assert (0 <= (2 * A + u) / (2 * u)) by (apply Z.div_pos; lia).
  apply cvt_id. pose proof (sgn_cases (v * s)). nia.
Qed.

(* ---- oddness -------------------------------------------------------------------------------- *)
Lemma f32_mul_opp x y : f32_mul (- x) y = - f32_mul x y.
Proof. rewrite !f32_mul_rnd. replace (- x * y) with (- (x * y)) by ring. rewrite Z.sgn_opp, Z.abs_opp. ring. Qed.
Lemma f32_div_opp x y : f32_div (- x) y = - f32_div x y.
Proof.
  destruct (Z.eq_dec y 0) as [->|N]; [reflexivity|]. rewrite !f32_div_rnd by exact N. rewrite Z.sgn_opp, Z.abs_opp. ring.
Qed.
Lemma round_away_opp x : round_away (- x) = - round_away x.
Proof. unfold round_away. rewrite Z.sgn_opp, Z.abs_opp. ring. Qed.

(* scaling is odd: unless the result is the int32 overflow value, the opposite value scales to the opposite result *)
Lemma em_scalef_odd_lemma v s u : em_scalef v s u <> - 2147483648 -> em_scalef (- v) s u = - em_scalef v s u.
Proof.
  unfold em_scalef, roundf. rewrite f32_mul_opp, f32_div_opp, round_away_opp.
  set (r := round_away _). unfold cvt_int32, in_int32. intros H.
  destruct ((-2147483648 <=? r) && (r <? 2147483648)) eqn:A; [|congruence].
  apply andb_prop in A. destruct A as [A1 A2]. apply Z.leb_le in A1. apply Z.ltb_lt in A2.
  replace (-2147483648 <=? - r) with true by (symmetry; apply Z.leb_le; lia).
  replace (- r <? 2147483648) with true by (symmetry; apply Z.ltb_lt; lia). reflexivity.
Qed.
Lemma em_fscale_odd_lemma v s u : repr_ok v -> em_fscale (- v) s u = - em_fscale v s u.
Proof.
  intros R. unfold em_fscale. rewrite (f32_of_int_exact v R).
  rewrite f32_of_int_exact by (unfold repr_ok in *; rewrite Z.abs_opp; exact R).
  replace (- v * 2 ^ 149) with (- (v * 2 ^ 149)) by ring. rewrite f32_mul_opp, f32_div_opp. reflexivity.
Qed.
(* the int16 variant: truncation towards zero is odd too *)
Lemma em_scale_odd_lemma v s u : em_scale v s u <> - 2147483648 -> em_scale (- v) s u = - em_scale v s u.
Proof.
  unfold em_scale. replace (- v * s) with (- (v * s)) by ring.
  assert (Q : Z.quot (- (v * s)) u = - Z.quot (v * s) u).
  { destruct (Z.eq_dec u 0) as [->|N]; [rewrite !Zquot_0_r; reflexivity|apply Z.quot_opp_l; exact N]. }
  rewrite Q. set (r := Z.quot (v * s) u). intros H.
  destruct (sint32_eq r) as [k E]. destruct (sint32_eq (- r)) as [k' E'].
  pose proof (sint32_rng r). pose proof (sint32_rng (- r)).
  assert (sint32 (- r) = - sint32 r); [|assumption].
  apply sint32_unique; [exists (k' + k); lia| lia | fold r in H; lia].
Qed.

(* ---- ExtentsForDirection ---------------------------------------------------------------------- *)
(* the extents of a direction, read off the definition: horizontal directions use the face's horizontal extents under
   YScale, all others the vertical extents under XScale; each field is emScalef of the face's value, converted back
   to float32; without face extents 0.8 em above / 0.2 em below (horizontal), half an em on each side (vertical) *)
Definition fext_spec (fc : face) (ft : hbfont) (d : Z) : fext3 :=
  let h := hb_is_horizontal d in
  let s := if h then ft_yscale ft else ft_xscale ft in
  let '(e, ok) := if h then fc_hext fc else fc_vext fc in
  if ok then mkF3 (f32_of_int (em_scalef (x_asc e) s (ft_upem ft))) (f32_of_int (em_scalef (x_desc e) s (ft_upem ft)))
                  (f32_of_int (em_scalef (x_gap e) s (ft_upem ft)))
  else let a := f32_mul (f32_of_int s) (if h then f32_c08 else f32_c05) in mkF3 a (f32_sub a (f32_of_int s)) 0.

Lemma extents_for_direction_spec fc ft d : extents_for_direction fc ft d = fext_spec fc ft d.
Proof.
  unfold extents_for_direction, fext_spec, font_h_extents_with_fallback, em_scalef_x, em_scalef_y.
  destruct (hb_is_horizontal d); [destruct (fc_hext fc) as [e [|]]|destruct (fc_vext fc) as [e [|]]]; reflexivity.
Qed.

Lemma scale_spec_fits v s u : scale_exact v s u = true -> Z.abs (scale_spec v s u) < 2 ^ 24 -> 
  f32_of_int (em_scalef (v * 2 ^ 149) s u) = scale_spec v s u * 2 ^ 149.
Proof. intros E B. rewrite em_scalef_exact_lemma by exact E. apply f32_of_int_exact. apply small_repr_ok. exact B. Qed.

(* the same scale function for advances and extents *)
Lemma same_scale_lemma fc u s g :
  let ft := set_scale (new_font u) s in
  ft_upem ft = u /\ ft_xscale ft = s /\ ft_yscale ft = s
  /\ (forall v, em_scalef_x ft v = em_scalef_y ft v) /\ (forall v, em_scale_x ft v = em_scale_y ft v)
  /\ (forall v, em_fscale_x ft v = em_fscale_y ft v)
  /\ glyph_h_advance fc ft g = em_scalef (fc_hadv fc g) s u
  /\ (fc_vmetrics fc = true -> glyph_v_advance fc ft g = em_scalef (fc_vadv fc g) s u)
  /\ (forall d e, (if hb_is_horizontal d then fc_hext fc else fc_vext fc) = (e, true) ->
        extents_for_direction fc ft d = mkF3 (f32_of_int (em_scalef (x_asc e) s u)) (f32_of_int (em_scalef (x_desc e) s u))
                                             (f32_of_int (em_scalef (x_gap e) s u))).
Proof.
  cbv zeta. repeat split; try reflexivity.
  - intros V. unfold glyph_v_advance. rewrite V. reflexivity.
  - intros d e H. rewrite extents_for_direction_spec. unfold fext_spec. cbn [ft_xscale ft_yscale ft_upem set_scale new_font].
    destruct (hb_is_horizontal d); rewrite H; reflexivity.
Qed.

(* ---- error bound and range ------------------------------------------------------------------ *)
Lemma em_scalef_range_lemma v s u : in_range v s u = true ->
  let r := em_scalef (v * 2 ^ 149) s u in
  scale_err_ok v s u r = true /\ Z.abs r <= 2 ^ 29 + 65.
Proof.
  unfold in_range. intros H. cbv zeta.
  apply andb_prop in H. destruct H as [H Hu2]. apply andb_prop in H. destruct H as [H Hu1].
  apply andb_prop in H. destruct H as [H Hs3]. apply andb_prop in H. destruct H as [H Hs2].
  apply andb_prop in H. destruct H as [Hv Hs1].
  apply Z.leb_le in Hv, Hs1, Hs2, Hu1, Hu2. clear Hs3.
  assert (Rs : repr_ok s) by (apply small_repr_ok; lia).
  assert (Ru : repr_ok u) by (apply small_repr_ok; lia).
  set (U := 2 ^ 149). assert (HU : 0 < U) by (apply pow2_pos; lia).
  set (A := Z.abs (v * s)). assert (HA : 0 <= A) by (unfold A; lia).
  assert (HA2 : A <= 32767 * 262144) by (unfold A; rewrite Z.abs_mul; replace (Z.abs s) with s by lia; nia).
  unfold em_scalef. rewrite (f32_of_int_exact s Rs), (f32_of_int_exact u Ru). fold U.
  (* the product *)
  rewrite f32_mul_rnd. change (2 ^ 149) with U. replace (v * U * (s * U)) with (v * s * U * U) by ring.
  rewrite !Z.sgn_mul, !Z.abs_mul. replace (Z.sgn U) with 1 by lia. replace (Z.abs U) with U by lia.
  rewrite <- Z.sgn_mul, <- Z.abs_mul. fold A. rewrite !Z.mul_1_r.
  replace (rnd_q (A * U * U) U) with (rnd_q (A * U) 1) by (rewrite <- (rnd_q_scale (A * U) 1 U) by lia; f_equal; lia).
  set (M := rnd_q (A * U) 1). assert (HM : 0 <= M) by (apply rnd_q_nonneg; nia).
  assert (U47 : 2 ^ 47 <= U) by (unfold U; apply Z.pow_le_mono_r; lia).
  assert (EM : 2 ^ 24 * Z.abs (M - A * U) <= A * U).
  { destruct (Z.eq_dec A 0) as [Z0|N]; [unfold M; rewrite Z0, Z.mul_0_l, rnd_q_zero by lia; lia|].
    pose proof (rnd_q_rel (A * U) 1 ltac:(lia) ltac:(nia)) as R. fold M in R. rewrite Z.mul_1_r in R. exact R. }
  (* the quotient *)
  set (sg := Z.sgn (v * s)). assert (Hsg : sg = 0 \/ sg = 1 \/ sg = -1) by apply sgn_cases.
  rewrite f32_div_rnd by lia. change (2 ^ 149) with U.
  replace (Z.sgn (sg * M)) with (sg * Z.sgn M) by (rewrite Z.sgn_mul; destruct Hsg as [->|[->| ->]]; reflexivity).
  replace (Z.sgn (u * U)) with 1 by nia.
  replace (Z.abs (sg * M)) with (Z.abs sg * M) by (rewrite Z.abs_mul; lia).
  replace (Z.abs (u * U)) with (u * U) by nia.
  set (Y := rnd_q (Z.abs sg * M * U) (u * U)).
  assert (HY : 0 <= Y) by (apply rnd_q_nonneg; nia).
  assert (EY : sg * Z.sgn M * 1 * Y = sg * rnd_q (M * U) (u * U)).
  { unfold Y. destruct (Z.eq_dec M 0) as [Z0|N].
    - rewrite Z0. rewrite !Z.mul_0_r, !Z.mul_0_l. rewrite rnd_q_zero by nia. lia.
    - replace (Z.sgn M) with 1 by lia. destruct Hsg as [->|[->| ->]]; cbn [Z.abs Z.sgn]; rewrite ?Z.mul_1_l; try lia. }
  rewrite EY. rewrite rnd_q_scale by lia. clear EY Y HY.
  set (Y := rnd_q M u). assert (HY : 0 <= Y) by (apply rnd_q_nonneg; lia).
  assert (EY : 2 ^ 24 * Z.abs (Y * u - M) <= M).
  { destruct (Z.eq_dec A 0) as [Z0|N].
    - assert (M = 0) by (unfold M; rewrite Z0, Z.mul_0_l, rnd_q_zero by lia; lia). unfold Y. rewrite H, rnd_q_zero by lia. lia.
    - apply rnd_q_rel; [lia|]. assert (2 ^ 24 * (A * U) - A * U <= 2 ^ 24 * M) by lia. nia. }
  (* the rounding to an integer *)
  unfold roundf. rewrite round_away_sgn by assumption.
  set (r := (Y + 2 ^ 148) / 2 ^ 149).
  assert (EU : U = 2 * 2 ^ 148) by reflexivity. set (Hf := 2 ^ 148) in *. fold U in r.
  assert (Er : r * U <= Y + Hf < r * U + U).
  { unfold r. pose proof (Z.mul_div_le (Y + Hf) U HU). pose proof (Z.mul_succ_div_gt (Y + Hf) U HU). lia. }
  assert (Hr : 0 <= r) by (unfold r; apply Z.div_pos; lia).
  (* |r*u - A| * U <= Hf*u + |Y*u - M| + |M - A*U| *)
  assert (K : 2 ^ 48 * (Z.abs (r * u - A) * U) <= (2 ^ 47 * u + A * (2 ^ 25 + 1)) * U).
  { assert (T1 : r * U * u <= Y * u + Hf * u) by nia.
    assert (T2 : Y * u + Hf * u <= r * U * u + U * u) by nia.
    replace (Z.abs (r * u - A) * U) with (Z.abs (r * U * u - A * U)) by (replace (r * U * u - A * U) with ((r * u - A) * U) by ring; rewrite Z.abs_mul; lia).
    set (ru := r * U * u) in *. set (Yu := Y * u) in *. set (AU := A * U) in *. set (hu := Hf * u) in *.
    assert (U * u = 2 * hu) by (unfold hu; lia).
    replace ((2 ^ 47 * u + A * (2 ^ 25 + 1)) * U) with (2 ^ 48 * hu + AU * (2 ^ 25 + 1)) by (unfold hu, AU; lia).
    lia. }
  assert (G : 2 ^ 48 * Z.abs (r * u - A) <= 2 ^ 47 * u + A * (2 ^ 25 + 1)).
  { apply Z.mul_le_mono_pos_r with (p := U); [exact HU|]. lia. }
  assert (Rb : r <= 2 ^ 29 + 65).
  { assert (A < 2 ^ 29 * u) by lia. destruct (Z_le_gt_dec r (2 ^ 29 + 65)); [assumption|]. exfalso.
    assert (2 ^ 48 * (r * u - A) <= 2 ^ 47 * u + A * (2 ^ 25 + 1)) by lia. nia. }
  assert (Ecvt : cvt_int32 (sg * r) = sg * r) by (apply cvt_id; destruct Hsg as [->|[->| ->]]; lia).
  rewrite Ecvt. split.
  - unfold scale_err_ok. apply Z.leb_le.
    assert (VS : v * s = A * sg) by (unfold A, sg; symmetry; apply Z.abs_sgn).
    rewrite VS. replace (sg * r * u - A * sg) with (sg * (r * u - A)) by ring. rewrite Z.abs_mul.
    destruct Hsg as [Z0|[->| ->]]; cbn [Z.abs]; try (rewrite Z.mul_1_l; rewrite Z.abs_mul; replace (Z.abs A) with A by lia;
      try (replace (Z.abs 1) with 1 by reflexivity); try (replace (Z.abs (-1)) with 1 by reflexivity); lia).
    rewrite Z0. cbn [Z.abs]. lia.
  - destruct Hsg as [->|[->| ->]]; lia.
Qed.

(* ---- monotonicity (where the scaling is exact) ------------------------------------------------ *)
Lemma rha_mono p p' u : 0 < u -> p <= p' -> rha p u <= rha p' u.
Proof.
  intros Hu H. unfold rha.
  assert (N : forall a, 0 <= a -> 0 <= (2 * a + u) / (2 * u)) by (intros; apply Z.div_pos; lia).
  destruct (Z_lt_le_dec p 0), (Z_lt_le_dec p' 0).
  - replace (Z.sgn p) with (-1) by lia. replace (Z.sgn p') with (-1) by lia.
    pose proof (Z.div_le_mono (2 * Z.abs p' + u) (2 * Z.abs p + u) (2 * u) ltac:(lia) ltac:(lia)). lia.
  - replace (Z.sgn p) with (-1) by lia. pose proof (N (Z.abs p) ltac:(lia)). pose proof (N (Z.abs p') ltac:(lia)).
    pose proof (sgn_cases p'). assert (0 <= Z.sgn p') by lia. nia.
  - lia.
  - destruct (Z.eq_dec p 0) as [->|]; [cbn [Z.sgn]; pose proof (N (Z.abs p') ltac:(lia)); pose proof (sgn_cases p'); assert (0 <= Z.sgn p') by lia; nia|].
    replace (Z.sgn p) with 1 by lia. replace (Z.sgn p') with 1 by lia.
    pose proof (Z.div_le_mono (2 * Z.abs p + u) (2 * Z.abs p' + u) (2 * u) ltac:(lia) ltac:(lia)). lia.
Qed.

Lemma em_scalef_mono_exact v v' s u : 0 <= s -> v <= v' -> scale_exact v s u = true -> scale_exact v' s u = true ->
  em_scalef (v * 2 ^ 149) s u <= em_scalef (v' * 2 ^ 149) s u.
Proof.
  intros Hs Hv E E'. rewrite !em_scalef_exact_lemma by assumption. unfold scale_spec.
  assert (0 < u). { unfold scale_exact in E. repeat (apply andb_prop in E; destruct E as [E ?]). apply Z.ltb_lt in E. exact E. }
  apply rha_mono; [assumption|nia].
Qed.
