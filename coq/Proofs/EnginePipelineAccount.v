(* Rune accounting of the whole default pipeline when the lookups are stood for by accounting-safe buffer operations
   (op_safe of Proofs/EngineKeepOps.v: everything but skipGlyph, removeOutput, AddRune(s) and replaceGlyphs with an empty
   replacement): every cluster of the result is a rune index of the item, and whenever a glyph is produced the smallest
   cluster is the first rune of the item. *)
From TV Require Import Model.Buffer Spec.Buffer Proofs.ShapeGlue Proofs.Buffer Proofs.BufferOps Proofs.BufferNewOps Proofs.BufferAll.
From TV Require Import Model.Engine Proofs.Engine Proofs.EngineForm Proofs.EngineProps Proofs.EnginePre.
From TV Require Import Proofs.EngineDecompose Proofs.EngineNormalize Proofs.EngineHide Proofs.EnginePipeline.
From TV Require Import Proofs.EngineKeep Proofs.EngineKeepStages Proofs.EngineEmc Proofs.EngineAccount Proofs.EngineKeepOps.

(* what lkeeps says about the clusters AddRunes gave a fresh buffer *)
Lemma lkeeps_item off len l' : lkeeps (map (fun i => off + i) (zseq len)) l' ->
  (forall c, In c l' -> off <= c < off + len) /\ (l' <> [] -> lmin l' = off).
Proof.
  intros [S M]. split.
  - intros c Hc. specialize (S c Hc). apply in_map_iff in S. destruct S as (i & <- & Hi). apply in_zseq in Hi. lia.
  - intros N. rewrite (M N). apply lmin_item.
    destruct (Z_lt_le_dec 0 len); [assumption|]. exfalso. destruct l' as [|c r]; [congruence|].
    specialize (S c (or_introl eq_refl)). apply in_map_iff in S. destruct S as (i & _ & Hi). apply in_zseq in Hi. lia.
Qed.

Lemma lkeeps_item_info off len (l : list glyph) : lkeeps (map (fun i => off + i) (zseq len)) (cls l) ->
  (forall c, In c (cls l) -> off <= c < off + len) /\ (l <> [] -> lmin (cls l) = off).
Proof.
  intros K. destruct (lkeeps_item off len (cls l) K) as [A B]. split; [exact A|].
  intros N. apply B. intros Hn. apply N. destruct l; [reflexivity|discriminate].
Qed.

(* the clusters AddRunes gives an empty buffer: the rune indices of the item *)
Lemma e_add_runes_fresh e0 text off len0 newcap e1 : info (eb e0) = [] -> e_add_runes e0 text off len0 newcap = Ok e1 ->
  cls (info (eb e1)) = map (fun i => off + i) (zseq (add_runes_len text off len0)).
Proof.
  intros Hemp E1. unfold e_add_runes in E1. cbv zeta in E1. destruct (negb _); [discriminate|].
  destruct (add_runes (eb e0) text off len0 newcap) as [b| | |] eqn:Ea; cbn [bind] in E1; try discriminate.
  inversion E1; subst e1. cbn [eb with_eb with_ctx].
  unfold add_runes in Ea. cbv zeta in Ea.
  match type of Ea with (if ?c then _ else _) = _ => destruct c; [|discriminate] end. inversion Ea; subst b.
  cbn [info with_pos with_info]. rewrite Hemp. cbn [app]. apply cls_new_runes.
Qed.

Section PipelineAccount.
  Variable ugc : Z -> Z.
  Variable udi : Z -> bool.
  Variable umcc : Z -> Z.
  Variable uextpict : Z -> bool.
  Variable uspace : Z -> Z.
  Variable nominal : Z -> Z * bool.
  Variable variation : Z -> Z -> Z * bool.
  Variable sdecomp : Z -> option (Z * Z).
  Variable scomp : Z -> Z -> option Z.
  Variable smode : Z.
  Variable sreorder : Z.
  Variable is_mcm : Z -> bool.
  Variable dfuel : nat.

  Lemma default_pipeline_accounts horiz e0 text off len0 newcap os emc e' :
    let len := add_runes_len text off len0 in
    (forall u, 0 <= ugc u < 32) ->
    info (eb e0) = [] -> EWF off (off + len) e0 -> idx (eb e0) = 0 -> level (eb e0) = 0 \/ level (eb e0) = 1 ->
    pre (OAddRunes text off len0 newcap) (eb e0) = true ->
    (forall e1 e2, e_add_runes e0 text off len0 newcap = Ok e1 ->
       pre_gsub ugc udi umcc uextpict uspace nominal variation sdecomp scomp smode sreorder is_mcm dfuel horiz e1 = Ok e2 ->
       ops_ok off (off + len) os (eb e2)) ->
    Forall (fun o => op_safe o = true) os ->
    default_pipeline ugc udi umcc uextpict uspace nominal variation sdecomp scomp smode sreorder is_mcm dfuel
      horiz text off len0 newcap os emc e0 = Ok e' ->
    EWF off (off + len) e'
    /\ (forall c, In c (cls (info (eb e'))) -> off <= c < off + len)
    /\ (info (eb e') <> [] -> lmin (cls (info (eb e'))) = off).
  Proof.
    intros len Hgc Hemp He Hi Hlv Hp Hops Hsafe E.
    assert (Hr : op_rng off (off + len) (OAddRunes text off len0 newcap) = true).
    { cbn [op_rng]. fold len. destruct (Z.leb_spec len 0); [reflexivity|]. cbn [orb].
      apply andb_true_intro. split; apply Z.leb_le; lia. }
    unfold default_pipeline in E.
    destruct (e_add_runes_wf off (off + len) e0 text off len0 newcap He Hp Hr) as (e1 & E1 & H1 & I1 & L1 & _).
    rewrite E1 in E. cbn [bind] in E.
    pose proof (e_add_runes_fresh e0 text off len0 newcap e1 Hemp E1) as C1. fold len in C1.
    destruct (pre_gsub ugc udi umcc uextpict uspace nominal variation sdecomp scomp smode sreorder is_mcm dfuel horiz e1)
      as [e2| | |] eqn:E2; cbn [bind] in E; try discriminate.
    assert (I1' : idx (eb e1) = 0) by congruence.
    assert (L1' : level (eb e1) = 0 \/ level (eb e1) = 1) by (rewrite L1; exact Hlv).
    pose proof (pre_gsub_ewf ugc udi umcc uextpict uspace nominal variation sdecomp scomp smode sreorder is_mcm dfuel
                  off (off + len) horiz e1 e2 Hgc H1 I1' L1' E2) as H2.
    pose proof (pre_gsub_keeps ugc udi umcc uextpict uspace nominal variation sdecomp scomp smode sreorder is_mcm dfuel
                  off (off + len) horiz e1 e2 Hgc H1 I1' L1' E2) as K2.
    destruct (Hops e1 e2 E1 E2) as (Hpres & Hrng & Hend).
    destruct H2 as (Hw2 & Hl2 & Hh2).
    destruct (run_ops os (eb e2)) as [b3| | |] eqn:E3; cbn [bind] in E; try discriminate.
    pose proof (run_ops_keeps off (off + len) os (eb e2) b3 Hl2 Hw2 Hpres Hrng Hsafe E3) as K3.
    destruct (buffer_ops_preserve_wf_lemma off (off + len) os (eb e2) Hl2 Hw2 Hpres Hrng) as (b3' & E3' & W3).
    rewrite E3 in E3'. inversion E3'; subst b3'. clear E3'.
    destruct (Hend b3 eq_refl) as (Hh3 & I3).
    assert (Hl3 : (level b3 =? 2) = false).
    { clear Hend W3 Hh3 I3 K3 Hsafe. revert E3. generalize (eb e2) Hl2 Hw2 Hpres Hrng. clear. induction os as [|o r IH]; intros b Hl Hw Hp Hr E.
      - inversion E; subst. exact Hl.
      - destruct Hp as [Hpo Hpr]. inversion Hr as [|? ? Hro Hrr]; subst.
        destruct (op_step off (off + len) o b Hl Hw Hpo Hro) as (b1 & E1 & W1 & L1).
        rewrite (run_ops_cons o r b b1 E1) in E. exact (IH b1 L1 W1 (Hpr b1 E1) Hrr E). }
    destruct (hide_default_ignorables nominal (with_eb e2 b3)) as [e4| | |] eqn:E4; cbn [bind] in E; try discriminate.
    pose proof (hide_default_ignorables_keeps nominal (with_eb e2 b3) e4 Hl3 Hh3 I3 E4) as K4. cbn [eb with_eb] in K4.
    destruct (hide_default_ignorables_wf nominal off (off + len) (with_eb e2 b3)) as (e4' & E4' & H4 & _ & I4 & _).
    { unfold EWF. cbn [eb with_eb]. auto. }
    { exact I3. }
    rewrite E4 in E4'. inversion E4'; subst e4'. clear E4'.
    assert (K04 : lkeeps (map (fun i => off + i) (zseq len)) (cls (info (eb e4)))).
    { rewrite <- C1. destruct H1 as (_ & _ & Hh1). destruct H4 as (_ & _ & Hh4).
      pose proof (bkeeps_trans _ _ _ K2 (bkeeps_trans _ _ _ K3 K4)) as K. unfold bkeeps in K.
      rewrite (bseq_nohave _ Hh1), (bseq_nohave _ Hh4) in K. exact K. }
    destruct emc as [asc|].
    - destruct H4 as (Hw4 & Hl4 & Hh4).
      destruct (ensure_monotone_clusters_wf off (off + len) asc (eb e4) Hl4 Hw4 Hh4) as (b5 & E5 & W5 & Hh5 & L5 & _).
      rewrite E5 in E. cbn [lift bind] in E. inversion E; subst e'. cbn [eb with_eb].
      pose proof (ensure_monotone_clusters_keeps off (off + len) asc (eb e4) b5 Hl4 Hw4 Hh4 E5) as K5. unfold bkeeps in K5.
      rewrite (bseq_nohave _ Hh4), (bseq_nohave _ Hh5) in K5.
      split; [unfold EWF; cbn [eb with_eb]; repeat split; auto; rewrite L5; exact Hl4|].
      apply lkeeps_item_info. eapply lkeeps_trans; [exact K04|exact K5].
    - inversion E; subst e'. split; [exact H4|]. apply lkeeps_item_info. exact K04.
  Qed.
End PipelineAccount.
