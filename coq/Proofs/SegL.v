(* Line breaking: the cursor automaton of the model decides exactly Spec.UAX14.lb_decision at every position
   of every string free of the F3 pattern. *)
From TV Require Import Model.Segmenter Spec.UAX14 Proofs.SegCommon Proofs.SegLCore.
Open Scope Z_scope.


(* ---------- the line automaton as a projection of the cursor ---------- *)
Record lst := mkL {
  l_last : obs; l_pp : option lbc; l_p0 : option lbc; l_bs : option lbc; l_base : obs;
  l_ri : bool; l_ns : numSeq; l_nextLine : lbc }.

Definition lproj (cr : cursor) : lst :=
  mkL (c_r cr) (c_prevPrevLine cr) (c_prevLine cr) (c_beforeSpaces cr) (c_prevBase cr)
      (c_lRIOdd cr) (c_numSequence cr) (c_nextLine cr).

Definition bo_flags (bo : breakOp) : bool * bool :=
  match bo with
  | breakEmpty | breakAllowed => (true, false)
  | breakProhibited => (false, false)
  | breakMandatory => (true, true)
  end.

Definition lstep (s : lst) (r next : obs) (aft : lbc) : lst * (bool * bool) :=
  let line := rule_lb1 r (l_nextLine s) in
  let nt := update_num_sequence (l_ns s) line in
  let bo := line_decision (l_p0 s) (l_pp s) line (l_bs s) (l_last s) (l_base s) r aft (l_ri s) (snd nt) in
  let cmz := lbq line LB_CM || lbq line LB_ZWJ in
  let p0 := l_p0 s in
  let isStart := match p0 with None => true | Some _ => false end in
  let isLB10 := is_lb p0 LB_BK || is_lb p0 LB_CR || is_lb p0 LB_LF || is_lb p0 LB_NL || is_lb p0 LB_SP || is_lb p0 LB_ZW in
  let prevLine' := if cmz then (if isStart || isLB10 then Some LB_AL else p0) else Some line in
  let prevPrev' := if cmz then l_pp s else p0 in
  let base' := if cmz then (if isStart || isLB10 then r else l_base s) else r in
  let bs' := if is_lb prevLine' LB_SP then l_bs s else prevLine' in
  let ri' := if lbq line LB_RI then negb (l_ri s) else if cmz then l_ri s else false in
  (mkL r prevPrev' prevLine' bs' base' ri' (fst nt) (o_lb next), bo_flags bo).

Definition linv_i (cr : cursor) (i : Z) : Prop := (i = 0 <-> c_prevLine cr = None).

Lemma step_lproj cr i r next aft : 0 <= i -> linv_i cr i ->
  lproj (fst (fst (step cr i r next aft))) = fst (lstep (lproj cr) r next aft)
  /\ (fun a => (a_line a, a_mandatory a)) (snd (fst (step cr i r next aft))) = snd (lstep (lproj cr) r next aft).
Proof.
  intros Hi Hinv. unfold step, lstep. cbv zeta.
  cbn [lproj l_nextLine l_ns l_p0 l_pp l_bs l_last l_base l_ri start_iteration
       c_r c_prev c_line c_nextLine c_numSequence c_prevLine c_prevPrevLine c_beforeSpaces c_prevBase c_lRIOdd].
  destruct (update_picto _ _ _) as [picto gb11].
  destruct (update_grapheme_ri _ _) as [gri gb1213].
  destruct (update_word_ri _ _) as [wri wb1516].
  destruct (word_decision _ _ _ _ _ _ _ _) as [isW remove].
  destruct (update_num_sequence (c_numSequence cr) (rule_lb1 r (c_nextLine cr))) as [ns trigger] eqn:Hns.
  cbn [fst snd set_rules_state c_prevLine c_prevPrevLine c_line c_beforeSpaces c_prev c_prevBase c_r c_nextLine c_lRIOdd].
  assert (Hst : (i =? 0) = match c_prevLine cr with None => true | Some _ => false end).
  { destruct (c_prevLine cr) eqn:E.
    - apply Z.eqb_neq. intros E0. apply Hinv in E0. congruence.
    - apply Z.eqb_eq. apply Hinv. exact E. }
  destruct (line_decision _ _ _ _ _ _ _ _ _ _) eqn:Hbo; cbn [bo_flags];
    (split; [unfold end_iteration, lproj; cbn; rewrite Hst; reflexivity | reflexivity]).
Qed.

Lemma linv_i_step cr i r next aft : 0 <= i -> linv_i cr i -> linv_i (fst (fst (step cr i r next aft))) (i + 1).
Proof.
  intros Hi Hinv. unfold linv_i. split; [lia|]. intros E. exfalso. revert E.
  unfold step. cbv zeta.
  destruct (update_picto _ _ _) as [picto gb11].
  destruct (update_grapheme_ri _ _) as [gri gb1213].
  destruct (update_word_ri _ _) as [wri wb1516].
  destruct (word_decision _ _ _ _ _ _ _ _) as [isW remove].
  destruct (update_num_sequence _ _) as [ns trigger].
  destruct (Z.eqb_spec i 0) as [E0|N0];
  destruct (line_decision _ _ _ _ _ _ _ _ _ _); cbn; intros E;
    repeat match type of E with context [if ?c then _ else _] => destruct c end; try discriminate E;
    apply Hinv in E; contradiction.
Qed.

(* ---------- facts about the LB9/LB10 string ---------- *)
Lemma lbc_beq_eq a b : lbc_beq a b = true <-> a = b.
Proof. split; [apply internal_lbc_dec_bl | apply internal_lbc_dec_lb]. Qed.
Lemma lbc_beq_refl a : lbc_beq a a = true.
Proof. apply lbc_beq_eq. reflexivity. Qed.

Lemma rule_lb1_lb1 r : rule_lb1 r (o_lb r) = lb1 r.
Proof. unfold rule_lb1, lb1. destruct (o_lb r); reflexivity. Qed.

Lemma cmz_is_mark c : lbq c LB_CM || lbq c LB_ZWJ = is_mark c.
Proof. unfold is_mark, cin, lbq. cbn [existsb]. rewrite orb_false_r. reflexivity. Qed.

Lemma is_lb_ecls e k : is_lb (ecls e) k = eis e [k].
Proof. destruct e as [|[c o] r]; [reflexivity|]. cbn. rewrite orb_false_r. reflexivity. Qed.

Lemma lb10_test e :
  is_lb (ecls e) LB_BK || is_lb (ecls e) LB_CR || is_lb (ecls e) LB_LF || is_lb (ecls e) LB_NL
  || is_lb (ecls e) LB_SP || is_lb (ecls e) LB_ZW
  = match e with (x, _) :: _ => hard_or_space x | [] => false end.
Proof. destruct e as [|[c o] r]; [reflexivity|]. destruct c; reflexivity. Qed.

Lemma eff_cons r left :
  eff (r :: left) =
  if is_mark (lb1 r) then
    match eff left with
    | (x, _) :: _ => if hard_or_space x then (LB_AL, r) :: eff left else eff left
    | [] => [(LB_AL, r)]
    end
  else (lb1 r, r) :: eff left.
Proof. reflexivity. Qed.

(* the numeric context evolves like the model's numSequence *)
Lemma numctx_cons c o e : is_mark c = false ->
  num_state (numctx_of ((c, o) :: e)) = fst (update_num_sequence (num_state (numctx_of e)) c).
Proof.
  intros Hm. unfold numctx_of at 1. cbn [num_prefix].
  unfold numctx_of.
  destruct (num_prefix e) eqn:Hn.
  - destruct c; try discriminate Hm; reflexivity.
  - destruct e as [|[k o'] e'].
    + destruct c; try discriminate Hm; reflexivity.
    + destruct (cin k [LB_CL; LB_CP] && num_prefix e'); destruct c; try discriminate Hm; reflexivity.
Qed.

Lemma num_trigger_mark st c : is_mark c = true -> update_num_sequence st c = (st, false).
Proof. intros H. unfold update_num_sequence. rewrite cmz_is_mark, H. reflexivity. Qed.

Lemma numctx_hard x o e : hard_or_space x = true -> numctx_of ((x, o) :: e) = NumNone.
Proof. destruct x; try discriminate; reflexivity. Qed.
Lemma leading_ri_hard x o e : hard_or_space x = true -> leading_ri ((x, o) :: e) = 0%nat.
Proof. destruct x; try discriminate; reflexivity. Qed.

(* ---------- invariant: the automaton state is a function of the text to the left ---------- *)
Definition linv (left : list obs) (s : lst) : Prop :=
  let e := eff left in
  l_last s = hd obs_nul left
  /\ l_p0 s = ecls e
  /\ (eis e [LB_HY; LB_BA] = true -> is_lb (l_pp s) LB_HL = eis (tl e) [LB_HL])
  /\ l_bs s = ecls (skip_sp e)
  /\ (e <> [] -> l_base s = snd (hd (LB_AL, obs_nul) e))
  /\ l_ri s = Nat.odd (leading_ri e)
  /\ l_ns s = num_state (numctx_of e).

Lemma linv_init text : linv [] (lproj (new_cursor text)).
Proof. unfold linv. cbn. repeat split; try reflexivity; try discriminate; try (intros H; contradiction). Qed.

Lemma linv_step left s r next aft :
  linv left s -> l_nextLine s = o_lb r ->
  linv (r :: left) (fst (lstep s r next aft)) /\ l_nextLine (fst (lstep s r next aft)) = o_lb next.
Proof.
  intros (H1 & H2 & H3 & H4 & H5 & H6 & H7) Hn.
  split; [|reflexivity].
  unfold lstep. cbv zeta. rewrite Hn, rule_lb1_lb1, cmz_is_mark, H2, lb10_test.
  unfold linv. cbv zeta. cbn [fst l_last l_p0 l_pp l_bs l_base l_ri l_ns hd].
  rewrite eff_cons.
  set (e := eff left) in *.
  destruct (is_mark (lb1 r)) eqn:Hm.
  - (* a combining mark / ZWJ *)
    rewrite (num_trigger_mark _ _ Hm). cbn [fst snd].
    assert (Hri : lbq (lb1 r) LB_RI = false) by (destruct (lb1 r); try discriminate Hm; reflexivity).
    rewrite Hri.
    destruct e as [|[x ox] e0] eqn:Ee.
    + (* start of text: LB10 *)
      cbn. repeat split; try reflexivity; try discriminate.
      * exact H6. * exact H7.
    + cbn [ecls]. destruct (hard_or_space x) eqn:Hx.
      * (* LB10 *)
        cbn [orb]. cbn. repeat split; try reflexivity; try discriminate.
        -- rewrite H6, (leading_ri_hard x ox e0 Hx). reflexivity.
        -- rewrite H7, (numctx_hard x ox e0 Hx). reflexivity.
      * (* LB9: absorbed *)
        cbn [orb]. repeat split; try assumption.
        destruct (is_lb (Some x) LB_SP) eqn:Esp.
        -- exact H4.
        -- cbn [skip_sp]. cbn in Esp. unfold lbq in Esp. rewrite Esp. reflexivity.
  - (* a base rune *)
    assert (Hcmz : is_mark (lb1 r) = false) by exact Hm.
    repeat split.
    + cbn. rewrite orb_false_r. intros _. rewrite is_lb_ecls. reflexivity.
    + cbn [is_lb skip_sp]. unfold lbq. destruct (lbc_beq (lb1 r) LB_SP); [exact H4 | reflexivity].
    + cbn [leading_ri]. unfold lbq. destruct (lbc_beq (lb1 r) LB_RI).
      * rewrite H6, Nat.odd_succ, <- Nat.negb_odd. reflexivity.
      * reflexivity.
    + rewrite H7. symmetry. apply numctx_cons. exact Hm.
Qed.

(* ---------- the decision at one position ---------- *)
Lemma lb1_preserved o k : (k = LB_ZWJ \/ k = LB_LF \/ k = LB_NU) -> lbc_beq (lb1 o) k = lbc_beq (o_lb o) k.
Proof.
  unfold lb1. intros [-> | [-> | ->]]; destruct (o_lb o); try reflexivity; destruct (o_mnmc o); reflexivity.
Qed.

Lemma line_decision_obs p0 pp b1 bs prevr base r nl ri tr :
  line_decision p0 pp b1 bs prevr base r nl ri tr =
  line_decision p0 pp b1 bs (fobs (o_zwjtab prevr) false false false false)
                (fobs false false (o_wide base) (o_pic base && o_cn base) true)
                (fobs false (o_lf r) (o_wide r) false false) nl ri tr.
Proof.
  unfold line_decision, rule_lb7to4, rule_lb8, rule_lb21to9, rule_lb24to22, rule_lb25, rule_lb29to26, rule_lb30ab, rule_lb30.
  cbn [fobs o_zwjtab o_lf o_wide o_pic o_cn].
  destruct (o_pic base), (o_cn base); reflexivity.
Qed.

Lemma line_decision_pp p0 pp b1 bs prevr base r nl ri tr :
  line_decision p0 pp b1 bs prevr base r nl ri tr =
  line_decision p0 (if is_lb pp LB_HL then Some LB_HL else None) b1 bs prevr base r nl ri tr.
Proof. destruct pp as [k|]; [destruct k|]; reflexivity. Qed.

Lemma line_decision_nl p0 pp b1 bs prevr base r nl ri tr :
  line_decision p0 pp b1 bs prevr base r nl ri tr =
  line_decision p0 pp b1 bs prevr base r (if lbc_beq nl LB_NU then LB_NU else LB_AL) ri tr.
Proof. destruct nl; reflexivity. Qed.

Lemma eff_nonempty a left' : eff (a :: left') <> [].
Proof.
  rewrite eff_cons. destruct (is_mark (lb1 a)); [|discriminate].
  destruct (eff left') as [|[x o] e0]; [discriminate|]. destruct (hard_or_space x); discriminate.
Qed.

Lemma eff_no_mark : forall left c o, In (c, o) (eff left) -> is_mark c = false.
Proof.
  induction left as [|a left IH]; intros c o Hin; [destruct Hin|].
  rewrite eff_cons in Hin. destruct (is_mark (lb1 a)) eqn:Hm.
  - destruct (eff left) as [|[x ox] e0] eqn:Ee.
    + destruct Hin as [H|[]]; inversion H; reflexivity.
    + destruct (hard_or_space x).
      * destruct Hin as [H|Hin]; [inversion H; reflexivity | eapply IH; exact Hin].
      * eapply IH; exact Hin.
  - destruct Hin as [H|Hin]; [inversion H; subst; exact Hm | eapply IH; exact Hin].
Qed.

Lemma skip_sp_head e : eis (skip_sp e) [LB_SP] = false.
Proof.
  induction e as [|[c o] r IH]; [reflexivity|]. cbn [skip_sp].
  destruct (lbc_beq c LB_SP) eqn:E; [exact IH|]. cbn. rewrite E. reflexivity.
Qed.

Lemma zwsp_eff : forall left,
  match skip_sp_raw left with o :: _ => lbc_beq (lb1 o) LB_ZW | [] => false end = eis (skip_sp (eff left)) [LB_ZW].
Proof.
  induction left as [|a left IH]; [reflexivity|].
  rewrite eff_cons. cbn [skip_sp_raw].
  destruct (lbc_beq (lb1 a) LB_SP) eqn:Esp.
  - apply lbc_beq_eq in Esp. rewrite Esp. cbn [is_mark cin existsb lbc_beq orb skip_sp]. exact IH.
  - destruct (is_mark (lb1 a)) eqn:Hm.
    + assert (Hz : lbc_beq (lb1 a) LB_ZW = false) by (destruct (lb1 a); try discriminate Hm; reflexivity).
      rewrite Hz.
      destruct (eff left) as [|[x ox] e0] eqn:Ee; [reflexivity|].
      destruct (hard_or_space x) eqn:Hx; [reflexivity|].
      cbn [skip_sp]. destruct (lbc_beq x LB_SP) eqn:Ex.
      * apply lbc_beq_eq in Ex. subst x. discriminate Hx.
      * cbn. destruct x; try reflexivity; discriminate Hx.
    + cbn [skip_sp]. rewrite Esp. cbn. rewrite orb_false_r. reflexivity.
Qed.

Definition flags_of (d : lbr) : bool * bool :=
  match d with Mandatory => (true, true) | Allowed => (true, false) | Prohibited => (false, false) end.

Lemma bo_flags_lbr bo : bo_flags bo = flags_of (to_lbr bo).
Proof. destruct bo; reflexivity. Qed.

Lemma is_line_mark_lb1 o : is_line_mark o = is_mark (lb1 o).
Proof. unfold is_line_mark, lb1. destruct (o_lb o); try reflexivity. destruct (o_mnmc o); reflexivity. Qed.

Lemma first_non_mark_nu : forall l,
  lbc_beq (first_non_mark l) LB_NU = match skip_marks l with o :: _ => lbc_beq (lb1 o) LB_NU | [] => false end.
Proof.
  induction l as [|o l IH]; [reflexivity|].
  cbn [first_non_mark skip_marks]. rewrite is_line_mark_lb1.
  destruct (is_mark (lb1 o)); [exact IH|]. symmetry. apply lb1_preserved. auto.
Qed.

Lemma lb1_ophy o : cin (lb1 o) [LB_OP; LB_HY] = lbq (o_lb o) LB_OP || lbq (o_lb o) LB_HY.
Proof. unfold lb1, lbq. destruct (o_lb o); try reflexivity; destruct (o_mnmc o); reflexivity. Qed.

(* the repaired look-ahead of LB25 reads the class after the marks attached to an (OP | HY) *)
Lemma after_marks_nu r right' :
  cin (lb1 r) [LB_OP; LB_HY] = true ->
  lbc_beq (after_marks r right') LB_NU = match skip_marks right' with o :: _ => lbc_beq (lb1 o) LB_NU | [] => false end.
Proof.
  intros H. rewrite lb1_ophy in H. unfold after_marks. destruct right' as [|n r'']; [reflexivity|].
  rewrite H. cbn [andb skip_marks]. rewrite is_line_mark_lb1.
  destruct (is_mark (lb1 n)); [apply first_non_mark_nu|]. symmetry. apply lb1_preserved. auto.
Qed.

Lemma ldecision a left' s r next right' :
  linv (a :: left') s -> l_nextLine s = o_lb r ->
  obs_wf_l a = true -> obs_wf_l r = true ->
  snd (lstep s r next (after_marks r right')) = flags_of (lb_decision (a :: left') (r :: right')).
Proof.
  intros (H1 & H2 & H3 & H4 & H5 & H6 & H7) Hn Hwa Hwr.
  unfold lstep. cbv zeta. cbn [snd]. rewrite bo_flags_lbr. f_equal.
  rewrite Hn, rule_lb1_lb1, H1, H2, H4, H6, H7. cbn [hd].
  specialize (H5 (eff_nonempty a left')).
  rewrite H5.
  set (e := eff (a :: left')) in *.
  destruct e as [|[p bo] e1] eqn:Ee; [exfalso; exact (eff_nonempty a left' Ee)|].
  cbn [ecls hd snd] in *.
  rewrite line_decision_obs, line_decision_pp, line_decision_nl.
  unfold obs_wf_l in Hwa, Hwr.
  apply andb_true_iff in Hwa as [Hwa1 Hwa2]. apply andb_true_iff in Hwr as [Hwr1 Hwr2].
  apply eqb_prop in Hwa1, Hwr2.
  rewrite Hwa1, Hwr2.
  rewrite <- (lb1_preserved a LB_ZWJ) by auto. rewrite <- (lb1_preserved r LB_LF) by auto.
  (* the specification side *)
  unfold lb_decision.
  set (a0k := if is_mark (lb1 a) then Some (lbc_beq (lb1 a) LB_ZWJ) else None).
  set (sv := ecls (skip_sp ((p, bo) :: e1))).
  set (nx := negb (is_mark (lb1 r)) && match skip_marks right' with o :: _ => lbc_beq (lb1 o) LB_NU | [] => false end).
  assert (Hx : ctx_of a left' r right' =
               mk_x p (lb1 r) a0k sv (eis e1 [LB_HL]) (o_wide bo) (o_pic bo && o_cn bo) (o_wide r)
                    (Nat.odd (leading_ri ((p, bo) :: e1))) (numctx_of ((p, bo) :: e1)) nx).
  { unfold ctx_of, mk_x. fold e. rewrite Ee. cbn [tl base_wide base_pic_cn].
    f_equal.
    - (* a0 *)
      unfold a0k. pose proof (eff_cons a left') as Hc. fold e in Hc. rewrite Ee in Hc.
      destruct (is_mark (lb1 a)) eqn:Hm.
      + destruct (lbc_beq (lb1 a) LB_ZWJ) eqn:Ez; [apply lbc_beq_eq; exact Ez|].
        destruct (lb1 a); try discriminate Hm; try reflexivity; discriminate Ez.
      + inversion Hc. reflexivity.
    - (* zwsp *)
      rewrite zwsp_eff. fold e. rewrite Ee. fold sv.
      destruct (lbc_beq p LB_SP) eqn:Esp.
      + unfold eis. destruct sv as [k|] eqn:Esv.
        * unfold sv in Esv. destruct (skip_sp ((p, bo) :: e1)) as [|[k' o'] r'] eqn:Es; [discriminate|].
          cbn in Esv. inversion Esv; subst. cbn. rewrite orb_false_r. reflexivity.
        * unfold sv in Esv. destruct (skip_sp ((p, bo) :: e1)) as [|[k' o'] r']; [reflexivity | discriminate].
      + cbn [skip_sp]. rewrite Esp. cbn. rewrite orb_false_r. reflexivity.
    - (* s *)
      unfold sv. cbn [skip_sp]. destruct (lbc_beq p LB_SP); reflexivity. }
  rewrite Hx.
  (* the model side is model_core on the same context *)
  transitivity (to_lbr (model_core (mk_x p (lb1 r) a0k sv (eis e1 [LB_HL]) (o_wide bo) (o_pic bo && o_cn bo) (o_wide r)
                    (Nat.odd (leading_ri ((p, bo) :: e1))) (numctx_of ((p, bo) :: e1)) nx)
                    (is_lb (l_pp s) LB_HL) (lbc_beq (after_marks r right') LB_NU))).
  { unfold model_core, mk_x. cbn [x_p x_b0 x_s x_a0 x_base_wide x_base_piccn x_b_wide x_ri_odd x_num].
    f_equal. f_equal.
    - (* before spaces *)
      unfold sv. cbn [skip_sp]. destruct (lbc_beq p LB_SP); reflexivity.
    - (* prev rune: ZWJ table *)
      unfold a0k. f_equal.
      pose proof (eff_cons a left') as Hc. fold e in Hc. rewrite Ee in Hc.
      destruct (is_mark (lb1 a)) eqn:Hm.
      + destruct (lbc_beq (lb1 a) LB_ZWJ); reflexivity.
      + inversion Hc. reflexivity. }
  apply core_agree.
  - (* mk_ok *)
    unfold mk_ok. rewrite (eff_no_mark (a :: left') p bo) by (fold e; rewrite Ee; left; reflexivity).
    cbn [negb andb].
    apply andb_true_iff. split.
    + unfold a0k. pose proof (eff_cons a left') as Hc. fold e in Hc. rewrite Ee in Hc.
      destruct (is_mark (lb1 a)) eqn:Hm; [|reflexivity].
      destruct (eff left') as [|[x ox] e0].
      * inversion Hc. reflexivity.
      * destruct (hard_or_space x) eqn:Hxh; inversion Hc; subst; [reflexivity | rewrite Hxh; reflexivity].
    + destruct (lbc_beq p LB_SP) eqn:Esp; [|reflexivity]. cbn [negb orb].
      pose proof (skip_sp_head ((p, bo) :: e1)) as Hs. fold sv in Hs || idtac.
      unfold sv. destruct (skip_sp ((p, bo) :: e1)) as [|[k o'] r'] eqn:Es; [reflexivity|].
      cbn in Hs |- *. rewrite orb_false_r in Hs. rewrite Hs. reflexivity.
  - (* guards *)
    unfold guards. apply andb_true_iff. split.
    + destruct (cin p [LB_HY; LB_BA]) eqn:Ehb; [|reflexivity]. cbn [negb orb].
      rewrite H3 by (cbn; exact Ehb). cbn [tl]. apply eqb_reflx.
    + destruct (cin p [LB_PR; LB_PO] && cin (lb1 r) [LB_OP; LB_HY]) eqn:Eg; [|reflexivity]. cbn [negb orb].
      apply andb_true_iff in Eg as [Eg1 Eg2].
      assert (Hnm : is_mark (lb1 r) = false) by (destruct (lb1 r); try discriminate Eg2; reflexivity).
      unfold nx. rewrite Hnm. cbn [negb andb].
      rewrite (after_marks_nu r right' Eg2). apply eqb_reflx.
Qed.

(* ---------- the whole text ---------- *)
Definition lflags (a : attr) : bool * bool := (a_line a, a_mandatory a).

Lemma setif_nm c v b : b <> breakMandatory -> v <> breakMandatory -> setif c v b <> breakMandatory.
Proof. unfold setif. destruct c; auto. Qed.

Lemma first_not_mandatory pp b1 bs prevr base r nl ri tr :
  line_decision None pp b1 bs prevr base r nl ri tr <> breakMandatory.
Proof.
  unfold line_decision, rule_lb7to4, rule_lb8, rule_lb21to9, rule_lb24to22, rule_lb25, rule_lb29to26, rule_lb30ab, rule_lb30.
  cbn [is_lb orb andb]. unfold setif at 1. cbn [orb andb].
  repeat (apply setif_nm; [|discriminate]). discriminate.
Qed.

Lemma lrun_nonempty s rest : srun lstep s rest <> [].
Proof. destruct rest; cbn; discriminate. Qed.
Lemma lb_positions_nonempty left right : lb_positions left right <> [].
Proof. destruct right; cbn; discriminate. Qed.

Lemma last_lb_positions : forall right left, last (lb_positions left right) Allowed = Mandatory.
Proof.
  induction right as [|o r IH]; intros left.
  - cbn. destruct left; reflexivity.
  - cbn [lb_positions].
    assert (H : forall x (l : list lbr), l <> [] -> last (x :: l) Allowed = last l Allowed) by (intros x [|y l] Hl; [contradiction | reflexivity]).
    rewrite H by apply lb_positions_nonempty. apply IH.
Qed.

Definition next_lb (rest : list obs) : lbc := match rest with [] => o_lb obs_psep | n :: _ => o_lb n end.

Lemma lrun_body : forall rest left s,
  linv left s -> left <> [] -> l_nextLine s = next_lb rest ->
  forallb obs_wf_l left = true -> forallb obs_wf_l rest = true ->
  removelast (srun lstep s rest) = removelast (map flags_of (lb_positions left rest)).
Proof.
  induction rest as [|r rest IH]; intros left s Hinv Hne Hnl Hl Hr.
  - reflexivity.
  - cbn [forallb] in Hr. apply andb_true_iff in Hr as [Hwr Hr].
    cbn [srun lb_positions map].
    set (next := match rest with [] => obs_psep | n :: _ => n end).
    rewrite !removelast_cons by (apply lrun_nonempty || (intros E; apply map_eq_nil in E; revert E; apply lb_positions_nonempty)).
    destruct left as [|a left']; [contradiction|].
    cbn [forallb] in Hl. apply andb_true_iff in Hl as [Hwa Hl'].
    cbn [next_lb] in Hnl.
    rewrite (ldecision a left' s r next rest Hinv Hnl Hwa Hwr).
    f_equal.
    destruct (linv_step (a :: left') s r next (after_marks r rest) Hinv Hnl) as (Hinv' & Hnl').
    apply IH; try assumption.
    + discriminate.
    + rewrite Hnl'. unfold next, next_lb. destruct rest; reflexivity.
    + cbn [forallb]. rewrite Hwr, Hwa, Hl'. reflexivity.
Qed.

Lemma line_lemma text :
  forallb obs_wf_l text = true ->
  exists attrs, compute_attrs text = Ok attrs /\ map lflags attrs = map flags_of (lb_spec text).
Proof.
  intros Hwf. unfold compute_attrs.
  destruct (loop_total text (new_cursor text) 0 [] ltac:(lia) (wne_ok_new text)) as (attrs & E & L).
  rewrite E. cbn [bind]. eexists; split; [reflexivity|].
  assert (HI0 : linv_i (new_cursor text) 0) by (unfold linv_i; cbn; split; auto).
  pose proof (loop_trace lproj lstep lflags linv_i (fun a => eq_refl) linv_i_step step_lproj
                         text (new_cursor text) 0 [] attrs ltac:(lia) HI0 E) as Ht.
  cbn [map app] in Ht.
  unfold lb_spec.
  destruct text as [|r0 rest].
  - destruct attrs as [|a [|b l]]; cbn in L; try lia. reflexivity.
  - cbn [forallb] in Hwf. apply andb_true_iff in Hwf as [Hw0 Hwr].
    cbn [srun] in Ht.
    set (next := match rest with [] => obs_psep | n :: _ => n end) in Ht.
    destruct attrs as [|a0 tl]; [discriminate|].
    cbn [map] in Ht.
    assert (Ha0 : lflags a0 = snd (lstep (lproj (new_cursor (r0 :: rest))) r0 next (after_marks r0 rest))) by congruence.
    assert (Htl : map lflags tl = srun lstep (fst (lstep (lproj (new_cursor (r0 :: rest))) r0 next (after_marks r0 rest))) rest) by congruence.
    clear Ht.
    assert (Hne : tl <> []). { intros ->. symmetry in Htl. revert Htl. apply lrun_nonempty. }
    destruct tl as [|a1 tl']; [contradiction|].
    assert (Hm : a_mandatory a0 = false).
    { (* position 0 is never mandatory *)
      apply (f_equal snd) in Ha0. unfold lflags in Ha0. cbn [snd] in Ha0. rewrite Ha0.
      unfold lstep. cbv zeta. cbn [snd].
      match goal with |- snd (bo_flags ?d) = false => destruct d eqn:Hd end; try reflexivity.
      exfalso. cbn [lproj new_cursor l_p0 c_prevLine] in Hd. revert Hd. apply first_not_mandatory. }
    unfold fixups.
    rewrite (map_map_last lflags (true, true) (fun a => eq_refl)) by discriminate.
    change (map lflags (fix_first a0 :: a1 :: tl')) with ((false, a_mandatory a0) :: map lflags (a1 :: tl')).
    rewrite removelast_cons by discriminate. cbn [app].
    cbn [lb_positions lb_decision map flags_of].
    rewrite Hm. f_equal.
    rewrite (app_removelast_last' (lb_positions [r0] rest) Allowed) by apply lb_positions_nonempty.
    rewrite last_lb_positions, map_app. cbn [map flags_of].
    f_equal. change (lflags a1 :: map lflags tl') with (map lflags (a1 :: tl')). rewrite Htl.
    destruct (linv_step [] (lproj (new_cursor (r0 :: rest))) r0 next (after_marks r0 rest) (linv_init _) eq_refl) as (Hinv1 & Hnl1).
    rewrite (lrun_body rest [r0] _ Hinv1); try assumption.
    + rewrite map_removelast. reflexivity.
    + discriminate.
    + rewrite Hnl1. unfold next, next_lb. destruct rest; reflexivity.
    + cbn [forallb]. rewrite Hw0. reflexivity.
Qed.
