(* Line breaking: the cursor automaton of the model decides exactly Spec.UAX14.lb_decision at every position
   of every string free of the F3 pattern. *)
From TV Require Import Model.Segmenter Spec.UAX14 Proofs.SegCommon Proofs.SegLCore.
Open Scope Z_scope.

Definition obs_wf_l (o : obs) : bool :=
  Bool.eqb (o_zwjtab o) (lbc_beq (o_lb o) LB_ZWJ) && Bool.eqb (o_lf o) (lbc_beq (o_lb o) LB_LF).

(* ---------- the line automaton as a projection of the cursor ---------- *)
Record lst := mkL {
  l_last : obs; l_pp : option lbc; l_p0 : option lbc; l_bs : option lbc; l_base : obs;
  l_ri : bool; l_ns : numSeq; l_nextLine : lbc }.

Definition lproj (cr : cursor) : lst :=
  mkL (c_r cr) (c_prevPrevLine cr) (c_prevLine cr) (c_beforeSpaces cr) (c_prevBase cr)
      (c_lRIOdd cr) (c_numSequence cr) (c_nextLine cr).

Definition bo_flags (bo : breakOp) : bool * bool :=
  match bo with
  | breakEmpty | breakAllowed => (true, false)
  | breakProhibited => (false, false)
  | breakMandatory => (true, true)
  end.

Definition lstep (s : lst) (r next : obs) : lst * (bool * bool) :=
  let line := rule_lb1 r (l_nextLine s) in
  let nt := update_num_sequence (l_ns s) line in
  let bo := line_decision (l_p0 s) (l_pp s) line (l_bs s) (l_last s) (l_base s) r (o_lb next) (l_ri s) (snd nt) in
  let cmz := lbq line LB_CM || lbq line LB_ZWJ in
  let p0 := l_p0 s in
  let isStart := match p0 with None => true | Some _ => false end in
  let isLB10 := is_lb p0 LB_BK || is_lb p0 LB_CR || is_lb p0 LB_LF || is_lb p0 LB_NL || is_lb p0 LB_SP || is_lb p0 LB_ZW in
  let prevLine' := if cmz then (if isStart || isLB10 then Some LB_AL else p0) else Some line in
  let prevPrev' := if cmz then l_pp s else p0 in
  let base' := if cmz then (if isStart || isLB10 then r else l_base s) else r in
  let bs' := if is_lb prevLine' LB_SP then l_bs s else prevLine' in
  let ri' := if lbq line LB_RI then negb (l_ri s) else if cmz then l_ri s else false in
  (mkL r prevPrev' prevLine' bs' base' ri' (fst nt) (o_lb next), bo_flags bo).

Definition linv_i (cr : cursor) (i : Z) : Prop := (i = 0 <-> c_prevLine cr = None).

Lemma step_lproj cr i r next : 0 <= i -> linv_i cr i ->
  lproj (fst (fst (step cr i r next))) = fst (lstep (lproj cr) r next)
  /\ (fun a => (a_line a, a_mandatory a)) (snd (fst (step cr i r next))) = snd (lstep (lproj cr) r next).
Proof.
  intros Hi Hinv. unfold step, lstep. cbv zeta.
  cbn [lproj l_nextLine l_ns l_p0 l_pp l_bs l_last l_base l_ri start_iteration
       c_r c_prev c_line c_nextLine c_numSequence c_prevLine c_prevPrevLine c_beforeSpaces c_prevBase c_lRIOdd].
  destruct (update_picto _ _ _) as [picto gb11].
  destruct (update_grapheme_ri _ _) as [gri gb1213].
  destruct (update_word_ri _ _) as [wri wb1516].
  destruct (word_decision _ _ _ _ _ _ _ _) as [isW remove].
  destruct (update_num_sequence (c_numSequence cr) (rule_lb1 r (c_nextLine cr))) as [ns trigger] eqn:Hns.
  cbn [fst snd set_rules_state c_prevLine c_prevPrevLine c_line c_beforeSpaces c_prev c_prevBase c_r c_nextLine c_lRIOdd].
  assert (Hst : (i =? 0) = match c_prevLine cr with None => true | Some _ => false end).
  { destruct (c_prevLine cr) eqn:E.
    - apply Z.eqb_neq. intros E0. apply Hinv in E0. congruence.
    - apply Z.eqb_eq. apply Hinv. exact E. }
  destruct (line_decision _ _ _ _ _ _ _ _ _ _) eqn:Hbo; cbn [bo_flags];
    (split; [unfold end_iteration, lproj; cbn; rewrite Hst; reflexivity | reflexivity]).
Qed.

Lemma linv_i_step cr i r next : 0 <= i -> linv_i cr i -> linv_i (fst (fst (step cr i r next))) (i + 1).
Proof.
  intros Hi Hinv. unfold linv_i. split; [lia|]. intros E. exfalso. revert E.
  unfold step. cbv zeta.
  destruct (update_picto _ _ _) as [picto gb11].
  destruct (update_grapheme_ri _ _) as [gri gb1213].
  destruct (update_word_ri _ _) as [wri wb1516].
  destruct (word_decision _ _ _ _ _ _ _ _) as [isW remove].
  destruct (update_num_sequence _ _) as [ns trigger].
  destruct (Z.eqb_spec i 0) as [E0|N0];
  destruct (line_decision _ _ _ _ _ _ _ _ _ _); cbn; intros E;
    repeat match type of E with context [if ?c then _ else _] => destruct c end; try discriminate E;
    apply Hinv in E; contradiction.
Qed.

(* ---------- facts about the LB9/LB10 string ---------- *)
Lemma lbc_beq_eq a b : lbc_beq a b = true <-> a = b.
Proof. split; [apply internal_lbc_dec_bl | apply internal_lbc_dec_lb]. Qed.
Lemma lbc_beq_refl a : lbc_beq a a = true.
Proof. apply lbc_beq_eq. reflexivity. Qed.

Lemma rule_lb1_lb1 r : rule_lb1 r (o_lb r) = lb1 r.
Proof. reflexivity. Qed.

Lemma cmz_is_mark c : lbq c LB_CM || lbq c LB_ZWJ = is_mark c.
Proof. unfold is_mark, cin, lbq. cbn [existsb]. rewrite orb_false_r. reflexivity. Qed.

Lemma is_lb_ecls e k : is_lb (ecls e) k = eis e [k].
Proof. destruct e as [|[c o] r]; [reflexivity|]. cbn. rewrite orb_false_r. reflexivity. Qed.

Lemma lb10_test e :
  is_lb (ecls e) LB_BK || is_lb (ecls e) LB_CR || is_lb (ecls e) LB_LF || is_lb (ecls e) LB_NL
  || is_lb (ecls e) LB_SP || is_lb (ecls e) LB_ZW
  = match e with (x, _) :: _ => hard_or_space x | [] => false end.
Proof. destruct e as [|[c o] r]; [reflexivity|]. destruct c; reflexivity. Qed.

Lemma eff_cons r left :
  eff (r :: left) =
  if is_mark (lb1 r) then
    match eff left with
    | (x, _) :: _ => if hard_or_space x then (LB_AL, r) :: eff left else eff left
    | [] => [(LB_AL, r)]
    end
  else (lb1 r, r) :: eff left.
Proof. reflexivity. Qed.

(* the numeric context evolves like the model's numSequence *)
Lemma numctx_cons c o e : is_mark c = false ->
  num_state (numctx_of ((c, o) :: e)) = fst (update_num_sequence (num_state (numctx_of e)) c).
Proof.
  intros Hm. unfold numctx_of at 1. cbn [num_prefix].
  unfold numctx_of.
  destruct (num_prefix e) eqn:Hn.
  - destruct c; try discriminate Hm; reflexivity.
  - destruct e as [|[k o'] e'].
    + destruct c; try discriminate Hm; reflexivity.
    + destruct (cin k [LB_CL; LB_CP] && num_prefix e'); destruct c; try discriminate Hm; reflexivity.
Qed.

Lemma num_trigger_mark st c : is_mark c = true -> update_num_sequence st c = (st, false).
Proof. intros H. unfold update_num_sequence. rewrite cmz_is_mark, H. reflexivity. Qed.

Lemma numctx_hard x o e : hard_or_space x = true -> numctx_of ((x, o) :: e) = NumNone.
Proof. destruct x; try discriminate; reflexivity. Qed.
Lemma leading_ri_hard x o e : hard_or_space x = true -> leading_ri ((x, o) :: e) = 0%nat.
Proof. destruct x; try discriminate; reflexivity. Qed.

(* ---------- invariant: the automaton state is a function of the text to the left ---------- *)
Definition linv (left : list obs) (s : lst) : Prop :=
  let e := eff left in
  l_last s = hd obs_nul left
  /\ l_p0 s = ecls e
  /\ (eis e [LB_HY; LB_BA] = true -> is_lb (l_pp s) LB_HL = eis (tl e) [LB_HL])
  /\ l_bs s = ecls (skip_sp e)
  /\ (e <> [] -> l_base s = snd (hd (LB_AL, obs_nul) e))
  /\ l_ri s = Nat.odd (leading_ri e)
  /\ l_ns s = num_state (numctx_of e).

Lemma linv_init text : linv [] (lproj (new_cursor text)).
Proof. unfold linv. cbn. repeat split; try reflexivity; try discriminate. intros H; contradiction. Qed.

Lemma linv_step left s r next :
  linv left s -> l_nextLine s = o_lb r ->
  linv (r :: left) (fst (lstep s r next)) /\ l_nextLine (fst (lstep s r next)) = o_lb next.
Proof.
  intros (H1 & H2 & H3 & H4 & H5 & H6 & H7) Hn.
  split; [|reflexivity].
  unfold lstep. cbv zeta. rewrite Hn, rule_lb1_lb1, cmz_is_mark, H2, lb10_test.
  unfold linv. cbv zeta. cbn [fst l_last l_p0 l_pp l_bs l_base l_ri l_ns hd].
  rewrite eff_cons.
  set (e := eff left) in *.
  destruct (is_mark (lb1 r)) eqn:Hm.
  - (* a combining mark / ZWJ *)
    rewrite (num_trigger_mark _ _ Hm). cbn [fst snd].
    assert (Hri : lbq (lb1 r) LB_RI = false) by (destruct (lb1 r); try discriminate Hm; reflexivity).
    rewrite Hri.
    destruct e as [|[x ox] e0] eqn:Ee.
    + (* start of text: LB10 *)
      cbn. repeat split; try reflexivity; try discriminate.
      * exact H6. * exact H7.
    + cbn [ecls]. destruct (hard_or_space x) eqn:Hx.
      * (* LB10 *)
        cbn [orb]. cbn. repeat split; try reflexivity; try discriminate.
        -- rewrite H6, (leading_ri_hard x ox e0 Hx). reflexivity.
        -- rewrite H7, (numctx_hard x ox e0 Hx). reflexivity.
      * (* LB9: absorbed *)
        cbn [orb]. repeat split; try assumption.
        destruct (is_lb (Some x) LB_SP) eqn:Esp.
        -- exact H4.
        -- cbn [skip_sp]. cbn in Esp. unfold lbq in Esp. rewrite Esp. reflexivity.
  - (* a base rune *)
    assert (Hcmz : is_mark (lb1 r) = false) by exact Hm.
    repeat split.
    + cbn. rewrite orb_false_r. intros _. rewrite is_lb_ecls. reflexivity.
    + cbn [is_lb skip_sp]. unfold lbq. destruct (lbc_beq (lb1 r) LB_SP); [exact H4 | reflexivity].
    + cbn [leading_ri]. unfold lbq. destruct (lbc_beq (lb1 r) LB_RI).
      * rewrite H6, Nat.odd_succ, <- Nat.negb_odd. reflexivity.
      * reflexivity.
    + rewrite H7. symmetry. apply numctx_cons. exact Hm.
Qed.
