(* Lemmas for the second part of C20 (continued): the shaper's general category, script/category coherence,
   Arabic joining, Indic/USE categories, modified combining classes. *)
From Coq Require Import Sorting.Permutation.
From TV Require Import Lib.GoNum Lib.Res Lib.Bytes Model.Unicode Model.Lang Spec.Unicode Proofs.Unicode Proofs.Decomp.
From TV Require Import Model.UnicodeShape Spec.UnicodeShape Proofs.UnicodeShape.

Ltac Zify.zify_post_hook ::= Z.div_mod_to_equations.

(* ============================================================================================== *)
(* 4. the shaper's general category and Extended_Pictographic *)

Lemma hb_gc_family_ok : family_ok hb_generalCategories_order = true. Proof. vm_cast_no_check (eq_refl true). Qed.
Lemma hb_gc_tabs_eq : hb_gc_tabs = split_order hb_generalCategories_order. Proof. vm_compute. reflexivity. Qed.

Lemma hb_general_category_scan r : is_rune r -> hb_general_category r = Ok (hb_gc_scan r).
Proof.
  intro Hr. unfold hb_general_category, hb_gc_scan. rewrite hb_gc_tabs_eq.
  rewrite lookup_first_scan; [reflexivity|apply family_order_ok, hb_gc_family_ok|exact Hr].
Qed.

Definition aux_tables : list rtab :=
  [ut_Extended_Pictographic; ut_LargeEastAsian; ut_Word; ut_STerm; ut_IndicVirama; ut_IndicVowel_Dependent].
Lemma aux_tables_ok : forallb table_ok aux_tables = true. Proof. vm_compute. reflexivity. Qed.
Lemma aux_table_is_mem t r : In t aux_tables -> is_rune r -> unicode_is t r = Ok (mem t r).
Proof.
  intros Hin Hr. pose proof aux_tables_ok as H. rewrite forallb_forall in H. apply unicode_is_mem; [apply H; exact Hin|exact Hr].
Qed.
Lemma hb_is_extended_pictographic_mem r : is_rune r -> hb_is_extended_pictographic r = Ok (mem ut_Extended_Pictographic r).
Proof. intro Hr. apply aux_table_is_mem; [left; reflexivity|exact Hr]. Qed.

(* ---- script known <-> general category assigned (not unassigned / private use / surrogate) ---- *)

Definition ivs_subset (small big : list (Z * Z)) : bool :=
  forallb (fun iv => existsb (iv_within iv) (merge_ivs big)) small.
Lemma ivs_subset_sound small big r : ivs_subset small big = true ->
  (exists iv, In iv small /\ in_iv iv r = true) -> exists iv, In iv big /\ in_iv iv r = true.
Proof.
  intros H [iv [Hin Hr]]. unfold ivs_subset in H. rewrite forallb_forall in H. specialize (H iv Hin).
  apply existsb_exists in H as [a [Ha Hw]].
  assert (Har : in_iv a r = true).
  { unfold iv_within, in_iv in *. apply andb_prop in Hw as [W1 W2]. apply andb_prop in Hr as [R1 R2].
    apply Z.leb_le in W1, W2, R1, R2. apply andb_true_intro; split; apply Z.leb_le; lia. }
  exact (merge_ivs_sound _ r a Ha Har).
Qed.

Lemma in_tagged_ivs o r : order_ok o = true ->
  ((exists iv, In iv (ivs_of_tagged (LoSort.sort (tagged o))) /\ in_iv iv r = true) <->
   (exists p, In p o /\ mem (snd p) r = true)).
Proof.
  intro Hok. split.
  - intros [iv [Hin Hr]]. unfold ivs_of_tagged in Hin. apply in_map_iff in Hin as [x [Hx Hin]].
    apply (Permutation_in _ (Permutation_sym (LoSort.Permuted_sort (tagged o)))) in Hin.
    unfold tagged in Hin. apply in_flat_map in Hin as [p [Hp Hin]]. apply in_map_iff in Hin as [iv' [Hx' Hiv']].
    exists p. split; [exact Hp|]. apply (intervals_mem (snd p) r iv' (order_ok_strides _ Hok p Hp) Hiv').
    subst x iv. unfold e_lo, e_hi in Hr. cbn [fst snd] in Hr. unfold in_iv in *. cbn [fst snd] in Hr. exact Hr.
  - intros [p [Hp Hm]]. destruct (mem_intervals _ r (order_ok_strides _ Hok p Hp) Hm) as [iv [Hiv Hr]].
    exists iv. split; [|exact Hr]. unfold ivs_of_tagged.
    apply in_map_iff. exists (fst iv, snd iv, Z.of_nat (fst p)). split; [destruct iv; reflexivity|].
    eapply Permutation_in; [apply LoSort.Permuted_sort|]. unfold tagged. apply in_flat_map. exists p. split; [exact Hp|].
    apply in_map_iff. exists iv. split; [reflexivity|exact Hiv].
Qed.

Lemma order_ok_filter f o : order_ok o = true -> order_ok (filter f o) = true.
Proof.
  unfold order_ok. rewrite !forallb_forall. intros H p Hp. apply H. apply filter_In in Hp. tauto.
Qed.

Lemma in_ranges_ivs (t : list (Z * Z * Z)) r :
  (exists iv, In iv (map (fun e => (e_lo e, e_hi e)) t) /\ in_iv iv r = true) <-> (exists e, In e t /\ covers e r = true).
Proof.
  split.
  - intros [iv [Hin Hr]]. apply in_map_iff in Hin as [e [He Hin]]. exists e. split; [exact Hin|]. subst iv. exact Hr.
  - intros [e [Hin Hc]]. exists (e_lo e, e_hi e). split; [apply in_map_iff; exists e; tauto|exact Hc].
Qed.

(* the class found by the scan satisfies `keep` iff the code point lies in a class that satisfies it *)
Lemma scan_keep_iff o (keep : nat -> bool) r : family_ok o = true ->
  ((exists i, scan_classes o r = Some i /\ keep i = true) <->
   (exists p, In p (filter (fun p => keep (fst p)) o) /\ mem (snd p) r = true)).
Proof.
  intro Hf. split.
  - intros [i [E Hk]]. destruct (scan_some _ _ _ E) as [p [Hp [Hi Hm]]]. exists p. split; [|exact Hm].
    apply filter_In. split; [exact Hp|]. cbn beta. rewrite Hi. exact Hk.
  - intros [p [Hp Hm]]. apply filter_In in Hp as [Hp Hk]. cbn beta in Hk.
    destruct (scan_classes o r) as [i|] eqn:E.
    + destruct (scan_some _ _ _ E) as [q [Hq [Hi Hmq]]].
      pose proof (class_unique o r Hf p q Hp Hq Hm Hmq) as Heq. exists i. split; [reflexivity|]. rewrite <- Hi, <- Heq. exact Hk.
    + pose proof (scan_none _ _ E p Hp) as Hn. rewrite Hn in Hm. discriminate Hm.
Qed.

Definition hb_assigned (i : nat) : bool := negb (gc_is_unassigned_like (Z.of_nat i)).

Lemma script_no_unknown : forallb (fun e => negb (snd e =? script_Unknown)) ScriptRanges = true.
Proof. vm_compute. reflexivity. Qed.
Lemma script_sub_assigned :
  ivs_subset (map (fun e => (e_lo e, e_hi e)) ScriptRanges)
             (ivs_of_tagged (LoSort.sort (tagged (filter (fun p => hb_assigned (fst p)) hb_generalCategories_order)))) = true.
Proof. vm_cast_no_check (eq_refl true). Qed.
Lemma assigned_sub_script :
  ivs_subset (ivs_of_tagged (LoSort.sort (tagged (filter (fun p => hb_assigned (fst p)) hb_generalCategories_order))))
             (map (fun e => (e_lo e, e_hi e)) ScriptRanges) = true.
Proof. vm_cast_no_check (eq_refl true). Qed.

Lemma script_known_iff_cover r : script_scan ScriptRanges r <> script_Unknown <-> (exists e, In e ScriptRanges /\ covers e r = true).
Proof.
  pose proof script_no_unknown as H. rewrite forallb_forall in H. split.
  - intro Hne. unfold script_scan in Hne. destruct (find (fun e => in_script_range e r) ScriptRanges) as [e|] eqn:E; [|congruence].
    apply find_some in E as [Hin Hc]. exists e. split; [exact Hin|exact Hc].
  - intros [e [Hin Hc]]. rewrite (script_scan_of_cover e r Hin Hc). specialize (H e Hin).
    apply negb_true_iff, Z.eqb_neq in H. exact H.
Qed.

Lemma script_gc_coherent_scan r :
  script_scan ScriptRanges r <> script_Unknown <->
  (exists i, scan_classes hb_generalCategories_order r = Some i /\ hb_assigned i = true).
Proof.
  pose proof (order_ok_filter (fun p => hb_assigned (fst p)) _ (family_order_ok _ hb_gc_family_ok)) as Hok.
  split; intro H.
  - apply (proj2 (scan_keep_iff _ hb_assigned r hb_gc_family_ok)).
    apply (proj1 (in_tagged_ivs _ r Hok)).
    apply (ivs_subset_sound _ _ r script_sub_assigned).
    apply (proj2 (in_ranges_ivs ScriptRanges r)). apply (proj1 (script_known_iff_cover r)). exact H.
  - apply (proj2 (script_known_iff_cover r)). apply (proj1 (in_ranges_ivs ScriptRanges r)).
    apply (ivs_subset_sound _ _ r assigned_sub_script).
    apply (proj2 (in_tagged_ivs _ r Hok)).
    apply (proj1 (scan_keep_iff _ hb_assigned r hb_gc_family_ok)). exact H.
Qed.

Lemma unassigned_like_opt (x : option nat) :
  gc_is_unassigned_like (match x with Some i => Z.of_nat i | None => hb_gc_unassigned end) = false <->
  (exists i, x = Some i /\ hb_assigned i = true).
Proof.
  unfold hb_assigned. destruct x as [i|].
  - split; [intro H; exists i; split; [reflexivity|rewrite H; reflexivity]|].
    intros [j [Hj H]]. inversion Hj; subst j. apply negb_true_iff in H. exact H.
  - split; [intro H; unfold gc_is_unassigned_like in H; rewrite Z.eqb_refl in H; discriminate H|].
    intros [j [Hj _]]. discriminate Hj.
Qed.

Lemma script_gc_coherent_lemma r :
  script_scan ScriptRanges r <> script_Unknown <-> gc_is_unassigned_like (hb_gc_scan r) = false.
Proof.
  split; intro H.
  - apply (proj2 (unassigned_like_opt (scan_classes hb_generalCategories_order r))).
    apply (proj1 (script_gc_coherent_scan r)). exact H.
  - apply (proj2 (script_gc_coherent_scan r)).
    apply (proj1 (unassigned_like_opt (scan_classes hb_generalCategories_order r))). exact H.
Qed.

(* ============================================================================================== *)
(* 5. Arabic joining *)

Lemma assoc_filter {V} (l : list (Z * V)) u :
  assoc u l = match map snd (filter (fun p => fst p =? u) l) with j :: _ => Some j | [] => None end.
Proof.
  induction l as [|[k v] l IH]; [reflexivity|]. cbn [assoc filter fst]. rewrite (Z.eqb_sym k u).
  destruct (u =? k); [reflexivity|exact IH].
Qed.

Lemma assoc_find_key {V} (l : list (Z * V)) u : assoc u l = option_map snd (find_key fst l u).
Proof.
  induction l as [|[k v] l IH]; [reflexivity|]. unfold find_key in *. cbn [assoc find fst]. rewrite (Z.eqb_sym k u).
  destruct (u =? k); [reflexivity|exact IH].
Qed.

Definition range_0_255 : list Z := map Z.of_nat (seq 0 256).
Lemma in_range_0_255 x : 0 <= x < 256 -> In x range_0_255.
Proof.
  intro H. unfold range_0_255. apply in_map_iff. exists (Z.to_nat x). split; [lia|]. apply in_seq. lia.
Qed.

Lemma joining_fallback_ok : forallb (fun gc => joining_fallback gc =? joining_fallback_spec gc) range_0_255 = true.
Proof. vm_cast_no_check (eq_refl true). Qed.
Lemma joining_fallback_eq gc : 0 <= gc < 256 -> joining_fallback gc = joining_fallback_spec gc.
Proof.
  intro H. pose proof joining_fallback_ok as Hok. rewrite forallb_forall in Hok.
  apply Z.eqb_eq. apply Hok. apply in_range_0_255. exact H.
Qed.

Lemma joinings_distinct : distinctb (map fst arabic_joinings) = true.
Proof. vm_cast_no_check (eq_refl true). Qed.

Lemma get_joining_type_spec u gc : 0 <= gc < 256 -> get_joining_type u gc = joining_spec arabic_joinings u gc.
Proof.
  intro Hgc. unfold get_joining_type, get_joining_type_in, joining_spec, joining_entries.
  rewrite assoc_filter, (joining_fallback_eq gc Hgc).
  destruct (map snd (filter (fun p => fst p =? u) arabic_joinings)); reflexivity.
Qed.

Lemma joining_order_independent tab' u gc : Permutation arabic_joinings tab' ->
  get_joining_type_in tab' u gc = get_joining_type u gc.
Proof.
  intro HP. unfold get_joining_type, get_joining_type_in. rewrite !assoc_find_key.
  rewrite (find_key_perm fst arabic_joinings tab' u (distinctb_NoDup _ joinings_distinct) HP). reflexivity.
Qed.

Lemma joining_entries_le1 u : (length (joining_entries arabic_joinings u) <= 1)%nat.
Proof.
  unfold joining_entries. rewrite map_length. apply (filter_key_le1 fst). apply distinctb_NoDup. exact joinings_distinct.
Qed.

Lemma joining_of_byte_ok j t : joining_of_byte j = Some t -> joining_value_ok t = true.
Proof.
  unfold joining_of_byte. repeat (destruct (j =? _); [intro H; inversion H; reflexivity|]). discriminate.
Qed.
Lemma joining_fallback_value_ok gc : joining_value_ok (joining_fallback gc) = true.
Proof. unfold joining_fallback. destruct (negb _); reflexivity. Qed.
Lemma get_joining_type_value_ok u gc : joining_value_ok (get_joining_type u gc) = true.
Proof.
  unfold get_joining_type, get_joining_type_in. destruct (assoc u arabic_joinings) as [j|]; [|apply joining_fallback_value_ok].
  destruct (joining_of_byte j) as [t|] eqn:E; [exact (joining_of_byte_ok j t E)|apply joining_fallback_value_ok].
Qed.

Lemma hb_gc_ids_small : forallb (fun p => (fst p <? 256)%nat) hb_generalCategories_order = true.
Proof. vm_cast_no_check (eq_refl true). Qed.
Lemma hb_gc_scan_range r : 0 <= hb_gc_scan r < 256.
Proof.
  unfold hb_gc_scan. destruct (scan_classes hb_generalCategories_order r) as [i|] eqn:E; [|unfold hb_gc_unassigned; lia].
  destruct (scan_some _ _ _ E) as [p [Hp [Hi _]]]. pose proof hb_gc_ids_small as H. rewrite forallb_forall in H.
  specialize (H p Hp). apply Nat.ltb_lt in H. assert (Hlt : (i < 256)%nat) by (rewrite <- Hi; exact H). lia.
Qed.

Lemma arabic_joining_type_spec u : is_rune u ->
  arabic_joining_type u = Ok (joining_spec arabic_joinings u (hb_gc_scan u)).
Proof.
  intro Hu. unfold arabic_joining_type. rewrite (hb_general_category_scan u Hu). cbn [bind].
  rewrite (get_joining_type_spec u _ (hb_gc_scan_range u)). reflexivity.
Qed.

(* ============================================================================================== *)
(* 6. paged range lookups (indicGetCategories, getUSECategory) = one linear scan of all clauses *)

Definition clause_eqb (a b : clause) : bool :=
  (c_kind a =? c_kind b) && (c_lo a =? c_lo b) && (c_hi a =? c_hi b) && (c_sub a =? c_sub b) && (c_off a =? c_off b).
Lemma clause_eqb_eq a b : clause_eqb a b = true -> a = b.
Proof.
  destruct a as [[[[k1 l1] h1] s1] o1]. destruct b as [[[[k2 l2] h2] s2] o2]. unfold clause_eqb, c_kind, c_lo, c_hi, c_sub, c_off.
  cbn [fst snd]. intro H. repeat (apply andb_prop in H as [H ?]). repeat match goal with E : (_ =? _) = true |- _ => apply Z.eqb_eq in E end.
  subst. reflexivity.
Qed.

(* a clause is well formed for a table: kind 0 or 1, lo <= hi (lo = hi for kind 0), int32 bounds that make the
   rune arithmetic exact, and every index it computes inside the table *)
Definition clause_ok (tlen : Z) (c : clause) : bool :=
  (c_lo c <=? c_hi c) && (-2147483648 <=? c_lo c) && (c_hi c <? 2147483648)
  && (if c_kind c =? 0 then c_lo c =? c_hi c
      else (c_kind c =? 1)
           && (-2147483648 <=? c_lo c - c_sub c) && (c_hi c - c_sub c <? 2147483648)
           && (0 <=? c_lo c - c_sub c + c_off c) && (c_hi c - c_sub c + c_off c <? tlen) && (tlen <=? 2147483648)).
Definition clauses_disjoint_or_equal (cls : list clause) : bool :=
  forallb (fun a => forallb (fun b => clause_eqb a b || (c_hi a <? c_lo b) || (c_hi b <? c_lo a)) cls) cls.
(* a clause is listed under every page its range meets *)
Definition page_keys (shift : Z) (c : clause) : list Z :=
  map (fun k => Z.shiftr (c_lo c) shift + Z.of_nat k) (seq 0 (Z.to_nat (Z.shiftr (c_hi c) shift - Z.shiftr (c_lo c) shift + 1))).
Definition clause_listed (shift : Z) (pages : list (Z * list clause)) (c : clause) : bool :=
  forallb (fun q => match assoc q pages with Some cl => existsb (clause_eqb c) cl | None => false end) (page_keys shift c).
Definition paged_ok (shift : Z) (pages : list (Z * list clause)) (table : list Z) : bool :=
  (0 <=? shift)
  && forallb (clause_ok (zlen table)) (all_clauses pages)
  && clauses_disjoint_or_equal (all_clauses pages)
  && forallb (clause_listed shift pages) (all_clauses pages).

Lemma clause_covers_range c u : (c_lo c <=? c_hi c) = true -> (if c_kind c =? 0 then c_lo c =? c_hi c else true) = true ->
  clause_covers c u = true -> c_lo c <= u <= c_hi c.
Proof.
  unfold clause_covers. intros H1 H2 H. apply Z.leb_le in H1. destruct (c_kind c =? 0).
  - apply Z.eqb_eq in H, H2. lia.
  - apply andb_prop in H as [A B]. apply Z.leb_le in A, B. lia.
Qed.

Section Paged.
  Variable shift : Z.
  Variable pages : list (Z * list clause).
  Variable table : list Z.
  Variable dflt : Z.
  Hypothesis Hok : paged_ok shift pages table = true.

  Let Hparts : 0 <= shift /\ forallb (clause_ok (zlen table)) (all_clauses pages) = true
               /\ clauses_disjoint_or_equal (all_clauses pages) = true
               /\ forallb (clause_listed shift pages) (all_clauses pages) = true.
  Proof.
    unfold paged_ok in Hok. apply andb_prop in Hok as [H H4]. apply andb_prop in H as [H H3]. apply andb_prop in H as [H1 H2].
    apply Z.leb_le in H1. tauto.
  Qed.

  Lemma clause_in_range c u : In c (all_clauses pages) -> clause_covers c u = true -> c_lo c <= u <= c_hi c.
  Proof.
    intros Hin Hc. destruct Hparts as [_ [H2 _]]. rewrite forallb_forall in H2. specialize (H2 c Hin).
    unfold clause_ok in H2. apply andb_prop in H2 as [H2 Hk]. apply andb_prop in H2 as [H2 _]. apply andb_prop in H2 as [H2 _].
    apply (clause_covers_range c u H2); [|exact Hc]. destruct (c_kind c =? 0); [exact Hk|reflexivity].
  Qed.

  (* exactly one value per code point: two clauses that cover u are the same clause *)
  Lemma clause_unique c1 c2 u : In c1 (all_clauses pages) -> In c2 (all_clauses pages) ->
    clause_covers c1 u = true -> clause_covers c2 u = true -> c1 = c2.
  Proof.
    intros I1 I2 C1 C2. pose proof (clause_in_range c1 u I1 C1). pose proof (clause_in_range c2 u I2 C2).
    destruct Hparts as [_ [_ [H3 _]]]. unfold clauses_disjoint_or_equal in H3. rewrite forallb_forall in H3.
    specialize (H3 c1 I1). rewrite forallb_forall in H3. specialize (H3 c2 I2).
    apply orb_prop in H3 as [H3|H3]; [apply orb_prop in H3 as [H3|H3]|].
    - apply clause_eqb_eq. exact H3.
    - apply Z.ltb_lt in H3. lia.
    - apply Z.ltb_lt in H3. lia.
  Qed.

  Lemma clause_value_flat c u : In c (all_clauses pages) -> clause_covers c u = true ->
    clause_value table c u = Ok (flat_value table c u).
  Proof.
    intros Hin Hc. pose proof (clause_in_range c u Hin Hc) as Hr.
    destruct Hparts as [_ [H2 _]]. rewrite forallb_forall in H2. specialize (H2 c Hin).
    unfold clause_ok in H2. apply andb_prop in H2 as [H2 Hk]. apply andb_prop in H2 as [H2 B2]. apply andb_prop in H2 as [_ B1].
    unfold clause_value, flat_value. destruct (c_kind c =? 0); [reflexivity|].
    repeat (apply andb_prop in Hk as [Hk ?]).
    repeat match goal with E : (_ <=? _) = true |- _ => apply Z.leb_le in E | E : (_ <? _) = true |- _ => apply Z.ltb_lt in E end.
    rewrite (sint32_id (u - c_sub c)) by lia. rewrite (sint32_id (u - c_sub c + c_off c)) by lia.
    replace (0 <=? u - c_sub c + c_off c) with true by (symmetry; apply Z.leb_le; lia).
    replace (u - c_sub c + c_off c <? zlen table) with true by (symmetry; apply Z.ltb_lt; lia).
    reflexivity.
  Qed.

  Lemma run_clauses_find cl u : run_clauses table cl u = option_map (fun c => clause_value table c u) (find (fun c => clause_covers c u) cl).
  Proof. induction cl as [|c cl IH]; [reflexivity|]. cbn [run_clauses find]. destruct (clause_covers c u); [reflexivity|exact IH]. Qed.

  Lemma in_page_in_all q cl c : In (q, cl) pages -> In c cl -> In c (all_clauses pages).
  Proof.
    intros Hp Hc. unfold all_clauses. apply in_concat. exists cl. split; [|exact Hc].
    apply in_map_iff. exists (q, cl). split; [reflexivity|exact Hp].
  Qed.

  Lemma shiftr_mono a b : a <= b -> Z.shiftr a shift <= Z.shiftr b shift.
  Proof.
    intro H. destruct Hparts as [Hs _]. rewrite !Z.shiftr_div_pow2 by exact Hs.
    apply Z.div_le_mono; [apply Z.pow_pos_nonneg; lia|exact H].
  Qed.

  Lemma paged_lookup_flat u :
    paged_lookup shift pages table dflt u = Ok (flat_lookup table (all_clauses pages) dflt u).
  Proof.
    unfold paged_lookup, flat_lookup.
    destruct (find (fun c => clause_covers c u) (all_clauses pages)) as [c|] eqn:E.
    - apply find_some in E as [Hin Hc]. pose proof (clause_in_range c u Hin Hc) as Hr.
      destruct Hparts as [_ [_ [_ H4]]]. rewrite forallb_forall in H4. specialize (H4 c Hin).
      unfold clause_listed in H4. rewrite forallb_forall in H4.
      assert (Hq : In (Z.shiftr u shift) (page_keys shift c)).
      { unfold page_keys. apply in_map_iff.
        pose proof (shiftr_mono _ _ (proj1 Hr)). pose proof (shiftr_mono _ _ (proj2 Hr)).
        exists (Z.to_nat (Z.shiftr u shift - Z.shiftr (c_lo c) shift)). split; [lia|]. apply in_seq. lia. }
      specialize (H4 _ Hq). destruct (assoc (Z.shiftr u shift) pages) as [cl|] eqn:A; [|discriminate].
      apply existsb_exists in H4 as [c' [Hc' Heq]]. apply clause_eqb_eq in Heq. subst c'.
      rewrite run_clauses_find. destruct (find (fun c0 => clause_covers c0 u) cl) as [c2|] eqn:F.
      + apply find_some in F as [Hin2 Hc2]. pose proof (in_page_in_all _ _ c2 (assoc_in _ _ _ A) Hin2) as Hall2.
        rewrite (clause_unique c2 c u Hall2 Hin Hc2 Hc). cbn [option_map]. apply clause_value_flat; assumption.
      + pose proof (find_none _ _ F c Hc') as Hn. cbn beta in Hn. congruence.
    - destruct (assoc (Z.shiftr u shift) pages) as [cl|] eqn:A; [|reflexivity].
      rewrite run_clauses_find. destruct (find (fun c0 => clause_covers c0 u) cl) as [c2|] eqn:F; [|reflexivity].
      apply find_some in F as [Hin2 Hc2]. pose proof (in_page_in_all _ _ c2 (assoc_in _ _ _ A) Hin2) as Hall2.
      pose proof (find_none _ _ E c2 Hall2) as Hn. cbn beta in Hn. congruence.
  Qed.

  (* any other order of the clauses gives the same scan *)
  Lemma flat_lookup_order_independent cls' u : Permutation (all_clauses pages) cls' ->
    flat_lookup table cls' dflt u = flat_lookup table (all_clauses pages) dflt u.
  Proof.
    intro HP. unfold flat_lookup.
    destruct (find (fun c => clause_covers c u) (all_clauses pages)) as [c|] eqn:E1;
    destruct (find (fun c => clause_covers c u) cls') as [c'|] eqn:E2; try reflexivity.
    - apply find_some in E1 as [I1 C1]. apply find_some in E2 as [I2 C2].
      rewrite (clause_unique c' c u (Permutation_in _ (Permutation_sym HP) I2) I1 C2 C1). reflexivity.
    - apply find_some in E1 as [I1 C1]. pose proof (find_none _ _ E2 c (Permutation_in _ HP I1)) as Hn. cbn beta in Hn. congruence.
    - apply find_some in E2 as [I2 C2]. pose proof (find_none _ _ E1 c' (Permutation_in _ (Permutation_sym HP) I2)) as Hn. cbn beta in Hn. congruence.
  Qed.
End Paged.

Lemma indic_paged_ok : paged_ok indic_shift indic_pages indic_table = true. Proof. vm_cast_no_check (eq_refl true). Qed.
Lemma use_paged_ok : paged_ok use_shift use_pages use_table = true. Proof. vm_cast_no_check (eq_refl true). Qed.

(* ============================================================================================== *)
(* 7. modified combining classes *)

Definition mcc_table_ok : bool :=
  (zlen modified_ccc =? 256)
  && forallb (fun c => Bool.eqb (znth 0 modified_ccc c =? 0) (c =? 0) && (0 <=? znth 0 modified_ccc c) && (znth 0 modified_ccc c <? 256)) range_0_255.
Lemma mcc_table_ok_true : mcc_table_ok = true. Proof. vm_cast_no_check (eq_refl true). Qed.
Lemma cc_ids_small : forallb (fun p => (fst p <? 256)%nat) combiningClasses_order = true.
Proof. vm_cast_no_check (eq_refl true). Qed.
Lemma mcc_specials : lookup_combining_class 6752 = Ok 9 /\ lookup_combining_class 4038 = Ok 220 /\ lookup_combining_class 3897 = Ok 216.
Proof. repeat split; vm_compute; reflexivity. Qed.

Lemma modified_ccc_lemma r : is_rune r ->
  exists c m, lookup_combining_class r = Ok c /\ modified_combining_class r = Ok m
              /\ 0 <= c < 256 /\ 0 <= m < 256 /\ (m = 0 <-> c = 0).
Proof.
  intro Hr. destruct mcc_specials as [S1 [S2 S3]]. unfold modified_combining_class.
  destruct (r =? 6752) eqn:E1; [apply Z.eqb_eq in E1; subst r; exists 9, 254; rewrite S1; repeat split; lia|].
  destruct (r =? 4038) eqn:E2; [apply Z.eqb_eq in E2; subst r; exists 220, 254; rewrite S2; repeat split; lia|].
  destruct (r =? 3897) eqn:E3; [apply Z.eqb_eq in E3; subst r; exists 216, 127; rewrite S3; repeat split; lia|].
  rewrite (lookup_combining_class_scan r Hr). cbn [bind].
  set (c := match scan_classes combiningClasses_order r with Some i => Z.of_nat i | None => 0 end).
  assert (Hc : 0 <= c < 256).
  { unfold c. destruct (scan_classes combiningClasses_order r) as [i|] eqn:E; [|lia].
    destruct (scan_some _ _ _ E) as [p [Hp [Hi _]]]. pose proof cc_ids_small as H. rewrite forallb_forall in H.
    specialize (H p Hp). apply Nat.ltb_lt in H. assert (Hlt : (i < 256)%nat) by (rewrite <- Hi; exact H). lia. }
  exists c, (znth 0 modified_ccc c). split; [reflexivity|]. split; [reflexivity|]. split; [exact Hc|].
  pose proof mcc_table_ok_true as H. unfold mcc_table_ok in H. apply andb_prop in H as [_ H]. rewrite forallb_forall in H.
  specialize (H c (in_range_0_255 c Hc)). apply andb_prop in H as [H B2]. apply andb_prop in H as [H B1].
  apply Z.leb_le in B1. apply Z.ltb_lt in B2. split; [lia|].
  apply Bool.eqb_prop in H. split; intro Hz.
  - apply Z.eqb_eq. rewrite <- H. apply Z.eqb_eq. exact Hz.
  - apply Z.eqb_eq. rewrite H. apply Z.eqb_eq. exact Hz.
Qed.

(* ============================================================================================== *)
(* 8. the range clauses tile the table: every table entry is read for exactly one code point *)

Definition c_first (c : clause) : Z := c_lo c - c_sub c + c_off c.
Definition c_last (c : clause) : Z := c_hi c - c_sub c + c_off c.
Definition is_range (c : clause) : bool := c_kind c =? 1.
Definition segments_disjoint (cls : list clause) : bool :=
  forallb (fun a => forallb (fun b => negb (is_range a && is_range b) || clause_eqb a b || (c_last a <? c_first b) || (c_last b <? c_first a)) cls) cls.
Definition indices (n : nat) : list Z := map Z.of_nat (seq 0 n).
Definition table_covered (cls : list clause) (table : list Z) : bool :=
  forallb (fun i => existsb (fun c => is_range c && (c_first c <=? i) && (i <=? c_last c)) cls) (indices (length table)).
Definition tiled_ok (pages : list (Z * list clause)) (table : list Z) : bool :=
  forallb (fun c => (c_kind c =? 0) || (c_kind c =? 1)) (all_clauses pages)
  && segments_disjoint (all_clauses pages) && table_covered (all_clauses pages) table.

Section Tiled.
  Variable pages : list (Z * list clause).
  Variable table : list Z.
  Hypothesis Hok : tiled_ok pages table = true.

  Lemma table_index_injective c1 c2 u1 u2 : In c1 (all_clauses pages) -> In c2 (all_clauses pages) ->
    is_range c1 = true -> is_range c2 = true -> c_lo c1 <= u1 <= c_hi c1 -> c_lo c2 <= u2 <= c_hi c2 ->
    u1 - c_sub c1 + c_off c1 = u2 - c_sub c2 + c_off c2 -> c1 = c2 /\ u1 = u2.
  Proof.
    intros I1 I2 R1 R2 B1 B2 Heq. unfold tiled_ok in Hok. apply andb_prop in Hok as [H _]. apply andb_prop in H as [_ H].
    unfold segments_disjoint in H. rewrite forallb_forall in H. specialize (H c1 I1). rewrite forallb_forall in H. specialize (H c2 I2).
    rewrite R1, R2 in H. cbn [andb negb orb] in H. unfold c_first, c_last in H.
    apply orb_prop in H as [H|H]; [apply orb_prop in H as [H|H]|].
    - apply clause_eqb_eq in H. subst c2. split; [reflexivity|lia].
    - apply Z.ltb_lt in H. lia.
    - apply Z.ltb_lt in H. lia.
  Qed.

  Lemma table_index_surjective i : 0 <= i < zlen table ->
    exists c u, In c (all_clauses pages) /\ is_range c = true /\ c_lo c <= u <= c_hi c /\ u - c_sub c + c_off c = i.
  Proof.
    intro Hi. unfold tiled_ok in Hok. apply andb_prop in Hok as [_ H]. unfold table_covered in H. rewrite forallb_forall in H.
    assert (Hin : In i (indices (length table))).
    { unfold indices. apply in_map_iff. exists (Z.to_nat i). split; [lia|]. apply in_seq. unfold zlen in Hi. lia. }
    specialize (H i Hin). apply existsb_exists in H as [c [Hc Hb]]. apply andb_prop in Hb as [Hb B2]. apply andb_prop in Hb as [Hr B1].
    apply Z.leb_le in B1, B2. unfold c_first, c_last in *.
    exists c, (i + c_sub c - c_off c). split; [exact Hc|]. split; [exact Hr|]. lia.
  Qed.
End Tiled.

Lemma indic_tiled_ok : tiled_ok indic_pages indic_table = true. Proof. vm_cast_no_check (eq_refl true). Qed.
Lemma use_tiled_ok : tiled_ok use_pages use_table = true. Proof. vm_cast_no_check (eq_refl true). Qed.
