(* Fuel sufficiency of the line wrapper model (C02 wrap_terminates): no function of the model returns OutOfFuel when
   every glyph has GlyphCount >= 1 (with GlyphCount <= 0 mapRunesToClusterIndices3 does not terminate in Go either).
   Measures: glyphs left (map3), runs left (fillUntil), unread flagged positions + unused flag of one iterator
   (nextGraphemeBreak, the two loops of wrapNextLine), and phi = both iterators + both flags (calls per paragraph). *)
From TV Require Import Model.Wrap Spec.Wrap Proofs.Wrap Proofs.WrapLines.

Definition gc_pos (st : store) : bool := forallb (forallb (fun g => 1 <=? g_gc g)) st.

Definition noof {A} (r : res A) : Prop := r <> OutOfFuel.

Lemma gc_pos_in : forall st arr x, gc_pos st = true -> In arr st -> In x arr -> 1 <= g_gc x.
Proof.
  intros st arr x H Ha Hx. unfold gc_pos in H. rewrite forallb_forall in H. specialize (H _ Ha).
  rewrite forallb_forall in H. specialize (H _ Hx). apply Z.leb_le in H. exact H.
Qed.
Lemma src_array_in : forall st src x, In x (src_array st src) -> exists arr, In arr st /\ In x arr.
Proof.
  intros st src x H. unfold src_array, znth in H. destruct (src <? 0); [destruct H|].
  destruct (nth_in_or_default (Z.to_nat src) st []) as [E|E]; [eauto|rewrite E in H; destruct H].
Qed.
Lemma out_glyphs_in : forall st o x, In x (out_glyphs st o) -> exists arr, In arr st /\ In x arr.
Proof.
  intros st o x H. unfold out_glyphs, zfirstn, zskipn in H.
  assert (F : forall (l : list glyph) k, In x (firstn k l) -> In x l).
  { induction l; intros k Hk; destruct k; cbn in *; try tauto. destruct Hk; [left; auto|right; eauto]. }
  assert (S : forall (l : list glyph) k, In x (skipn k l) -> In x l).
  { induction l; intros k Hk; destruct k; cbn in *; try tauto. right; eauto. }
  apply F in H. apply S in H. eapply src_array_in; eauto.
Qed.
Lemma zget_cases : forall {A} (l : list A) i, (exists x, zget l i = Ok x /\ In x l) \/ zget l i = Panic p_index.
Proof.
  intros A l i. unfold zget. destruct ((0 <=? i) && (i <? zlen l)); [|right; reflexivity].
  destruct (nth_error l (Z.to_nat i)) eqn:E; [left; eexists; split; [reflexivity|eapply nth_error_In; eauto]|right; reflexivity].
Qed.
Lemma fill_range_cases : forall m cs ce v, (exists m', fill_range m cs ce v = Ok m') \/ fill_range m cs ce v = Panic p_index.
Proof. intros. unfold fill_range. destruct (_ && _); [destruct (cs <? 0)|]; eauto. Qed.

Lemma map3_ltr_noof : forall fuel glyphs off g m, (forall x, In x glyphs -> 1 <= g_gc x) ->
  Z.max 0 (zlen glyphs - g) < Z.of_nat fuel -> noof (map3_ltr fuel glyphs off g m).
Proof.
  unfold noof. induction fuel as [|fuel IH]; intros glyphs off g m HG HF; [lia|]. cbn [map3_ltr].
  destruct (g <? zlen glyphs) eqn:E; [|discriminate]. apply Z.ltb_lt in E.
  destruct (zget_cases glyphs g) as [(gl & -> & Hin)| -> ]; cbn [bind]; [|discriminate].
  destruct (fill_range_cases m (g_cluster gl - off) (g_rc gl + (g_cluster gl - off)) g) as [(m' & ->)| -> ]; cbn [bind]; [|discriminate].
  apply IH; auto. specialize (HG _ Hin). lia.
Qed.
Lemma map3_rtl_noof : forall fuel glyphs off g m, (forall x, In x glyphs -> 1 <= g_gc x) ->
  Z.max 0 (g + 1) < Z.of_nat fuel -> noof (map3_rtl fuel glyphs off g m).
Proof.
  unfold noof. induction fuel as [|fuel IH]; intros glyphs off g m HG HF; [lia|]. cbn [map3_rtl].
  destruct (0 <=? g) eqn:E; [|discriminate]. apply Z.leb_le in E.
  destruct (zget_cases glyphs g) as [(gl & -> & Hin)| -> ]; cbn [bind]; [|discriminate].
  destruct (fill_range_cases m (g_cluster gl - off) (g_rc gl + (g_cluster gl - off)) (g - (g_gc gl - 1))) as [(m' & ->)| -> ]; cbn [bind]; [|discriminate].
  apply IH; auto. specialize (HG _ Hin). lia.
Qed.
Lemma map3_noof : forall dir off glyphs init, (forall x, In x glyphs -> 1 <= g_gc x) -> noof (map3 dir off glyphs init).
Proof.
  intros. unfold map3. destruct (dir_rtl dir); [apply map3_rtl_noof|apply map3_ltr_noof]; auto; unfold zlen; lia.
Qed.

Lemma map_run_noof : forall w ci run, gc_pos (w_st w) = true -> noof (map_run w ci run).
Proof.
  intros w ci run HG. unfold map_run, noof. destruct (_ || _); [|discriminate].
  destruct (o_cnt run <=? 0); [discriminate|].
  match goal with |- context [map3 ?a ?b ?c ?d] => pose proof (map3_noof a b c d) as X; destruct (map3 a b c d) end; cbn [bind]; try discriminate.
  exfalso. apply X; [|reflexivity]. intros x Hx. destruct (out_glyphs_in _ _ _ Hx) as (arr & A1 & A2). eapply gc_pos_in; eauto.
Qed.

(* store updates by trimStartLetterSpacing / the trailing-space trim keep every GlyphCount *)
Lemma list_set_forallb : forall {A} (p : A -> bool) l i x, forallb p l = true -> p x = true -> forallb p (list_set l i x) = true.
Proof.
  induction l as [|a l IH]; intros i x H Hx; cbn; auto. cbn in H. apply andb_prop in H. destruct H as [H1 H2].
  destruct i; cbn; rewrite ?Hx, ?H1, ?H2; auto. rewrite IH; auto.
Qed.
Lemma store_update_gc : forall st src i f, (forall g, g_gc (f g) = g_gc g) -> gc_pos st = true -> gc_pos (store_update st src i f) = true.
Proof.
  intros st src i f Hf H. unfold store_update, zset. destruct (src <? 0) eqn:E; [exact H|].
  unfold gc_pos. apply list_set_forallb; [exact H|].
  assert (HA : forallb (fun g => 1 <=? g_gc g) (src_array st src) = true).
  { apply forallb_forall. intros x Hx. destruct (src_array_in _ _ _ Hx) as (arr & A1 & A2). apply Z.leb_le. eapply gc_pos_in; eauto. }
  destruct (i <? 0) eqn:E2; [exact HA|]. apply Z.ltb_ge in E2.
  destruct (Z_lt_le_dec i (zlen (src_array st src))) as [Hlt|Hge].
  - apply list_set_forallb; [exact HA|]. rewrite Hf. rewrite forallb_forall in HA. apply HA.
    unfold znth. destruct (i <? 0) eqn:E3; [apply Z.ltb_lt in E3; lia|]. apply nth_In. unfold zlen in Hlt. lia.
  - assert (forall {A} (l : list A) k x, (length l <= k)%nat -> list_set l k x = l) as LS.
    { clear. induction l; intros k x Hk; cbn; auto. destruct k; [cbn in Hk; lia|]. f_equal. apply IHl. cbn in Hk. lia. }
    rewrite LS; [exact HA|]. unfold zlen in Hge. lia.
Qed.

Lemma cut_run_light : forall st run m s e t, gc_pos st = true ->
  match cut_run st run m s e t with Ok (st', _) => gc_pos st' = true | OutOfFuel => False | _ => True end.
Proof.
  intros st run m s e t HG. unfold cut_run.
  assert (X : forall dir a b nm, match inclusive_glyph_range dir a b m nm with OutOfFuel => False | Err _ => False | _ => True end).
  { intros. unfold inclusive_glyph_range. destruct (dir_rtl dir).
    - destruct (zget_cases m b) as [(x & -> & _)| -> ]; cbn [bind]; auto. destruct (0 <=? a - 1); auto.
      destruct (zget_cases m (a - 1)) as [(y & -> & _)| -> ]; cbn [bind]; auto.
    - destruct (zget_cases m a) as [(x & -> & _)| -> ]; cbn [bind]; auto. destruct (b + 1 <? zlen m); auto.
      destruct (zget_cases m (b + 1)) as [(y & -> & _)| -> ]; cbn [bind]; auto. }
  match goal with |- context [inclusive_glyph_range ?d ?a ?b m ?nm] => specialize (X d a b nm); destruct (inclusive_glyph_range d a b m nm) as [[gs gend]| | |] end; cbn [bind]; auto.
  destruct (_ && _); auto. destruct (t && _); [|exact HG]. apply store_update_gc; auto.
Qed.
Lemma is_valid_light : forall st opt m run, match is_valid st opt m run with OutOfFuel => False | _ => True end.
Proof.
  intros. unfold is_valid. destruct (_ && _); auto.
  destruct (zget_cases m (opt - o_off run)) as [(x & -> & _)| -> ]; cbn [bind]; auto.
  destruct (zget_cases m (opt - o_off run + 1)) as [(y & -> & _)| -> ]; cbn [bind]; auto.
  destruct (_ || _); auto.
  destruct (zget_cases (out_glyphs st run) x) as [(a & -> & _)| -> ]; cbn [bind]; auto.
  destruct (zget_cases (out_glyphs st run) y) as [(b & -> & _)| -> ]; cbn [bind]; auto.
Qed.

(* ---- fillUntil, processBreakOption ------------------------------------------------------------------- *)

Lemma fill_until_light : forall fuel w b, gc_pos (w_st w) = true -> 0 <= w_idx w ->
  Z.max 0 (zlen (w_runs w) - w_idx w) < Z.of_nat fuel ->
  match fill_until fuel w b with
  | Ok w' => gc_pos (w_st w') = true /\ w_idx w <= w_idx w' /\ w_br w' = w_br w /\ w_saved w' = w_saved w /\ w_runs w' = w_runs w
  | OutOfFuel => False
  | _ => True
  end.
Proof.
  induction fuel as [|fuel IH]; intros w b HG Hi HF; [lia|]. cbn [fill_until].
  unfold peek. destruct (zlen (w_runs w) <=? w_idx w) eqn:E.
  { cbn [andb]. split; [exact HG|]. repeat split; auto; lia. }
  apply Z.leb_gt in E. cbn [andb]. set (run := znth out_zero (w_runs w) (w_idx w)).
  destruct (o_cnt run + o_off run <=? b); [|split; [exact HG|]; repeat split; auto; lia].
  assert (ADV : forall wx, gc_pos (w_st wx) = true -> w_idx wx = w_idx w -> w_br wx = w_br w -> w_saved wx = w_saved w -> w_runs wx = w_runs w ->
          match fill_until fuel (iter_advance wx) b with
          | Ok w' => gc_pos (w_st w') = true /\ w_idx w <= w_idx w' /\ w_br w' = w_br w /\ w_saved w' = w_saved w /\ w_runs w' = w_runs w
          | OutOfFuel => False | _ => True end).
  { intros wx G1 G2 G3 G4 G5.
    assert (P : gc_pos (w_st (iter_advance wx)) = true /\ w_idx (iter_advance wx) = w_idx w + 1 /\ w_br (iter_advance wx) = w_br w
                /\ w_saved (iter_advance wx) = w_saved w /\ w_runs (iter_advance wx) = w_runs w) by (destruct wx; cbn in *; repeat split; auto; lia).
    destruct P as (P1 & P2 & P3 & P4 & P5).
    specialize (IH (iter_advance wx) b P1 ltac:(lia) ltac:(rewrite P2, P5; lia)).
    destruct (fill_until fuel (iter_advance wx) b); auto. rewrite P2, P3, P4, P5 in IH. intuition lia. }
  destruct (o_off run + o_cnt run <=? w_start w); [apply ADV; auto|].
  destruct (o_off run <? w_start w).
  - pose proof (map_run_noof w (w_idx w) run HG) as MN. destruct (map_run w (w_idx w) run) as [w1| | |] eqn:MR; cbn [bind]; [|exact I|exact I|exfalso; apply MN; reflexivity].
    destruct (map_run_set _ _ _ _ MR) as [mp ->].
    pose proof (cut_run_light (w_st (set_mp w mp)) run (mapping_of (w_mp (set_mp w mp))) (w_start (set_mp w mp)) (o_cnt run + o_off run) (alt_empty (set_mp w mp))
                 ltac:(destruct w; exact HG)) as CL.
    destruct (cut_run _ _ _ _ _ _) as [[st' rc]| | |]; cbn [bind fst snd]; [|exact I|exact I|destruct CL].
    apply ADV; destruct w; cbn in *; auto.
  - cbn [bind fst snd]. apply ADV; destruct w; cbn in *; auto.
Qed.

Lemma pbo_light : forall w opt lc, gc_pos (w_st w) = true -> 0 <= w_idx w ->
  match process_break_option w opt lc with
  | Ok (w', _, _) => gc_pos (w_st w') = true /\ w_idx w <= w_idx w' /\ w_br w' = w_br w /\ w_saved w' = w_saved w /\ w_runs w' = w_runs w
  | OutOfFuel => False
  | _ => True
  end.
Proof.
  intros w opt lc HG Hi. unfold process_break_option. destruct (fst opt <? w_start w); [split; [exact HG|]; repeat split; auto; lia|].
  pose proof (fill_until_light (S (length (w_runs w))) w (fst opt) HG Hi ltac:(unfold zlen; lia)) as FL.
  destruct (fill_until _ w (fst opt)) as [w1| | |]; cbn [bind]; auto.
  destruct FL as (F1 & F2 & F3 & F4 & F5).
  destruct (peek w1) as [[ci run] mr].
  pose proof (map_run_noof w1 ci run F1) as MN. destruct (map_run w1 ci run) as [w2| | |] eqn:MR; cbn [bind]; [|exact I|exact I|exfalso; apply MN; reflexivity].
  destruct (map_run_set _ _ _ _ MR) as [mp ->].
  pose proof (is_valid_light (w_st (set_mp w1 mp)) (fst opt) (mapping_of (w_mp (set_mp w1 mp))) run) as IVL.
  destruct (is_valid _ _ _ run) as [v| | |]; cbn [bind]; auto.
  destruct v; cbn [negb]; [|destruct w1; cbn in *; repeat split; auto; lia].
  pose proof (cut_run_light (w_st (set_mp w1 mp)) run (mapping_of (w_mp (set_mp w1 mp))) (w_start (set_mp w1 mp)) (fst opt) (alt_empty (set_mp w1 mp))
               ltac:(destruct w1; exact F1)) as CL.
  destruct (cut_run _ run _ _ _ _) as [[st' rc]| | |]; cbn [bind fst snd]; auto.
  assert (R : gc_pos (w_st (set_st (set_mp w1 mp) st')) = true /\ w_idx w <= w_idx (set_st (set_mp w1 mp) st')
              /\ w_br (set_st (set_mp w1 mp) st') = w_br w /\ w_saved (set_st (set_mp w1 mp) st') = w_saved w
              /\ w_runs (set_st (set_mp w1 mp) st') = w_runs w) by (destruct w1; cbn in *; repeat split; auto).
  cbv zeta. repeat match goal with |- context [if ?c then _ else _] => destruct c end; exact R.
Qed.

(* ---- the breaker's iterators --------------------------------------------------------------------------- *)

Lemma gmeas_nonneg : forall n b, 0 <= gmeas n b. Proof. intros; unfold gmeas; destruct (b_isUnusedG b); cbn; lia. Qed.
Lemma wmeas_nonneg : forall n b, 0 <= wmeas n b. Proof. intros; unfold wmeas; destruct (b_isUnusedW b); cbn; lia. Qed.

Definition bfacts (n : Z) (b b1 : breaker) : Prop :=
  b_n b1 = n /\ 0 <= b_wpos b1 /\ 0 <= b_gpos b1 /\ b_attrs b1 = b_attrs b.

Lemma ngb_light : forall n fuel b, b_n b = n -> 0 <= b_wpos b -> 0 <= b_gpos b -> gmeas n b < Z.of_nat fuel ->
  match next_grapheme_break fuel b with
  | Ok (b1, ro) => bfacts n b b1 /\ gmeas n b1 + (match ro with Some _ => 1 | None => 0 end) <= gmeas n b
  | OutOfFuel => False
  | _ => True
  end.
Proof.
  intros n. induction fuel as [|fuel IH]; intros b Hn Hw Hg HF; [pose proof (gmeas_nonneg n b); lia|]. cbn [next_grapheme_break].
  destruct (b_isUnusedG b) eqn:F.
  - destruct ((fst (b_unusedG b) <=? fst (b_prevW (set_unusedG b (b_unusedG b) false))) && (0 <? fst (b_prevW (set_unusedG b (b_unusedG b) false)))).
    + specialize (IH (set_unusedG b (b_unusedG b) false) Hn Hw Hg). unfold gmeas in IH, HF |- *. cbn in IH. rewrite F in HF. cbn in HF.
      specialize (IH ltac:(lia)). destruct (next_grapheme_break fuel _) as [[b1 ro]| | |]; auto.
      unfold bfacts in *. cbn in IH. rewrite F. cbn [b2z]. intuition lia.
    + destruct (fst (b_unusedW (set_unusedG b (b_unusedG b) false)) <? fst (b_unusedG b)); unfold bfacts, gmeas; cbn; rewrite F; cbn; intuition lia.
  - unfold next_grapheme_raw. destruct (iter_next (b_attrs b) (b_n b) fl_grapheme (b_gpos b)) as [p ok] eqn:E. destruct ok.
    + apply iter_next_spec in E; [|exact Hg]. destruct E as (E1 & _). rewrite Hn in E1.
      match goal with |- context [next_grapheme_break fuel ?bb] => set (b1 := bb) end.
      assert (M : gmeas n b1 + 1 <= gmeas n b) by (unfold gmeas, b1; cbn; rewrite F; cbn; lia).
      destruct (_ && _).
      * specialize (IH b1 Hn Hw ltac:(unfold b1; cbn; lia) ltac:(lia)).
        destruct (next_grapheme_break fuel b1) as [[b2 ro]| | |]; auto. unfold bfacts in *. cbn in IH. intuition lia.
      * destruct (_ <? _); unfold bfacts, gmeas in *; cbn in *; rewrite ?F in *; cbn in *; intuition lia.
    + apply iter_next_false in E. destruct E as [E _]. unfold bfacts, gmeas; cbn. rewrite F. cbn. intuition lia.
Qed.

Lemma nwb_light : forall n b b1 ro, b_n b = n -> 0 <= b_wpos b -> 0 <= b_gpos b -> next_word_break b = (b1, ro) ->
  bfacts n b b1 /\ gmeas n b1 = gmeas n b /\ wmeas n b1 + (match ro with Some _ => 1 | None => 0 end) <= wmeas n b.
Proof.
  intros n b b1 ro Hn Hw Hg H. unfold next_word_break in H. destruct (b_isUnusedW b) eqn:F.
  - inversion H; subst. unfold bfacts, gmeas, wmeas; cbn. rewrite F. cbn. intuition lia.
  - unfold next_word_raw in H. destruct (iter_next (b_attrs b) (b_n b) fl_line (b_wpos b)) as [p ok] eqn:E. destruct ok.
    + apply iter_next_spec in E; [|exact Hw]. destruct E as (E1 & _).
      inversion H; subst. unfold bfacts, gmeas, wmeas; cbn. rewrite F. cbn. intuition lia.
    + apply iter_next_false in E. destruct E as [E _]. inversion H; subst. unfold bfacts, gmeas, wmeas; cbn. rewrite F. cbn. intuition lia.
Qed.

(* ---- the two loops of wrapNextLine ---------------------------------------------------------------------- *)

Definition LP (n : Z) (w : W) : Prop :=
  b_n (w_br w) = n /\ 0 <= b_wpos (w_br w) /\ 0 <= b_gpos (w_br w) /\ zlen (b_attrs (w_br w)) = n + 1
  /\ 0 <= w_saved w /\ 0 <= w_idx w /\ gc_pos (w_st w) = true.

Lemma LP_intro : forall n w b st idx saved,
  b_n b = n -> 0 <= b_wpos b -> 0 <= b_gpos b -> zlen (b_attrs b) = n + 1 -> 0 <= saved -> 0 <= idx -> gc_pos st = true ->
  w_br w = b -> w_st w = st -> w_idx w = idx -> w_saved w = saved -> LP n w.
Proof. intros. unfold LP. subst. auto 10. Qed.

Lemma gmeas_bound : forall n b, 0 <= b_gpos b -> 0 <= n -> gmeas n b <= n + 2.
Proof. intros; unfold gmeas; destruct (b_isUnusedG b); cbn; lia. Qed.
Lemma wmeas_bound : forall n b, 0 <= b_wpos b -> 0 <= n -> wmeas n b <= n + 2.
Proof. intros; unfold wmeas; destruct (b_isUnusedW b); cbn; lia. Qed.

Lemma fallback_light : forall w wopt lc, gc_pos (w_st w) = true -> 0 <= w_saved w ->
  match word_fallback w wopt lc with Ok (w', _) => gc_pos (w_st w') = true | OutOfFuel => False | _ => True end.
Proof.
  intros w wopt lc HG Hs. unfold word_fallback. destruct (negb (lc_truncating lc) && negb (has_best w)); [|exact HG].
  pose proof (pbo_light (restore w) wopt lc ltac:(destruct w; exact HG) ltac:(destruct w; exact Hs)) as PL.
  destruct (process_break_option (restore w) wopt lc) as [[[w3 r] cand]| | |]; cbn [bind]; auto.
  destruct PL as (L1 & _). destruct r; destruct w3; exact L1.
Qed.

Lemma inner_light : forall n fuel w wopt lc, 0 <= n -> LP n w -> gmeas n (w_br w) < Z.of_nat fuel ->
  match inner_loop fuel w wopt lc with Ok (w', _) => gc_pos (w_st w') = true | OutOfFuel => False | _ => True end.
Proof.
  intros n. induction fuel as [|fuel IH]; intros w wopt lc Hn0 (Hn & Hw & Hg & Ha & Hs & Hi & HG) HF; [pose proof (gmeas_nonneg n (w_br w)); lia|].
  cbn [inner_loop].
  replace (w_br (checkpoint w)) with (w_br w) by (destruct w; reflexivity).
  assert (BF : Z.of_nat (br_fuel (checkpoint w)) = n + 3).
  { unfold br_fuel. replace (w_br (checkpoint w)) with (w_br w) by (destruct w; reflexivity). unfold zlen in Ha. lia. }
  pose proof (ngb_light n (br_fuel (checkpoint w)) (w_br w) Hn Hw Hg ltac:(pose proof (gmeas_bound n (w_br w) Hg Hn0); lia)) as NL.
  destruct (next_grapheme_break _ (w_br w)) as [[b1 ro]| | |]; cbn [bind fst snd]; auto.
  destruct NL as ((N1 & N2 & N3 & N4) & N5).
  destruct ro as [opt|]; [|apply fallback_light; destruct w; cbn; auto].
  set (w2 := set_br (checkpoint w) b1).
  assert (P2 : gc_pos (w_st w2) = true /\ 0 <= w_idx w2 /\ w_br w2 = b1 /\ w_saved w2 = w_idx w) by (destruct w; cbn; auto).
  destruct P2 as (P21 & P22 & P23 & P24).
  pose proof (pbo_light w2 opt lc P21 P22) as PL.
  destruct (process_break_option w2 opt lc) as [[[w3 r] cand]| | |]; cbn [bind]; auto.
  destruct PL as (L1 & L2 & L3 & L4 & L5). rewrite P23 in L3. rewrite P24 in L4.
  assert (Ha1 : zlen (b_attrs b1) = n + 1) by (rewrite N4; exact Ha).
  destruct r.
  - apply IH; [exact Hn0| |destruct w3; cbn in *; subst; lia].
    eapply (LP_intro n _ b1 (w_st w3) (w_saved w3) (w_saved w3)); auto; try lia; destruct w3; cbn in *; auto.
  - destruct w3; exact L1.
  - destruct (has_best w3); [exact L1|destruct w3; exact L1].
  - destruct w3; exact L1.
  - apply IH; [exact Hn0| |destruct w3; cbn in *; subst; unfold gmeas in *; cbn; lia].
    eapply (LP_intro n _ (mark_word_unused b1) (w_st w3) (w_idx w3) (w_saved w3)); cbn; auto; try lia; destruct w3; cbn in *; subst; auto.
  - destruct (lc_truncating lc); [exact L1|destruct w3; exact L1].
Qed.

Lemma outer_light : forall n fuel w lc, 0 <= n -> LP n w -> wmeas n (w_br w) < Z.of_nat fuel ->
  match outer_loop fuel w lc with Ok (w', _) => gc_pos (w_st w') = true | OutOfFuel => False | _ => True end.
Proof.
  intros n. induction fuel as [|fuel IH]; intros w lc Hn0 (Hn & Hw & Hg & Ha & Hs & Hi & HG) HF; [pose proof (wmeas_nonneg n (w_br w)); lia|].
  cbn [outer_loop].
  replace (w_br (checkpoint w)) with (w_br w) by (destruct w; reflexivity).
  destruct (next_word_break (w_br w)) as [b1 ro] eqn:NW.
  destruct (nwb_light n _ _ _ Hn Hw Hg NW) as ((N1 & N2 & N3 & N4) & N5 & N6).
  destruct ro as [opt|]; [|destruct w; exact HG].
  set (w2 := set_br (checkpoint w) b1).
  assert (P2 : gc_pos (w_st w2) = true /\ 0 <= w_idx w2 /\ w_br w2 = b1 /\ w_saved w2 = w_idx w) by (destruct w; cbn; auto).
  destruct P2 as (P21 & P22 & P23 & P24).
  pose proof (pbo_light w2 opt lc P21 P22) as PL.
  destruct (process_break_option w2 opt lc) as [[[w3 r] cand]| | |]; cbn [bind]; auto.
  destruct PL as (L1 & L2 & L3 & L4 & L5). rewrite P23 in L3. rewrite P24 in L4.
  assert (Ha1 : zlen (b_attrs b1) = n + 1) by (rewrite N4; exact Ha).
  (* entering the grapheme loop *)
  assert (G : forall wx, gc_pos (w_st wx) = true -> 0 <= w_saved wx -> (w_br wx = b1 \/ w_br wx = mark_word_unused b1) ->
              match inner_loop (br_fuel wx) (restore wx) opt lc with Ok (w', _) => gc_pos (w_st w') = true | OutOfFuel => False | _ => True end).
  { intros wx X1 X2 X3. apply (inner_light n); [exact Hn0| |].
    - eapply (LP_intro n _ (w_br wx) (w_st wx) (w_saved wx) (w_saved wx)); auto; try (destruct wx; reflexivity);
        destruct X3 as [-> | ->]; cbn; auto.
    - replace (w_br (restore wx)) with (w_br wx) by (destruct wx; reflexivity).
      assert (Z.of_nat (br_fuel wx) = n + 3) by (unfold br_fuel; destruct X3 as [-> | ->]; cbn; unfold zlen in Ha1; lia).
      assert (gmeas n (w_br wx) <= n + 2) by (apply gmeas_bound; auto; destruct X3 as [-> | ->]; cbn; auto). lia. }
  destruct r.
  - cbv zeta. apply IH; [exact Hn0| |destruct w3; cbn in *; subst; unfold wmeas in *; cbn in *; lia].
    eapply (LP_intro n _ (discard_word b1) (w_st w3) (w_saved w3) (w_saved w3)); cbn; auto; try lia; destruct w3; cbn in *; subst; auto.
  - destruct w3; exact L1.
  - assert (X : gc_pos (w_st (if has_best w3 then w3 else mark_best (restore w3) [])) = true /\ w_saved (if has_best w3 then w3 else mark_best (restore w3) []) = w_saved w3
                /\ w_br (if has_best w3 then w3 else mark_best (restore w3) []) = b1) by (destruct (has_best w3); destruct w3; cbn in *; auto).
    destruct X as (X1 & X2 & X3). destruct (policy_never _); [exact X1|]. apply G; auto. lia.
  - cbv zeta. destruct (_ || _); [destruct w3; exact L1|]. apply G; destruct w3; cbn in *; subst; auto; lia.
  - destruct (snd opt); [destruct w3; exact L1|].
    apply IH; [exact Hn0| |destruct w3; cbn in *; subst; lia].
    eapply (LP_intro n _ b1 (w_st w3) (w_idx w3) (w_saved w3)); cbn; auto; try lia; destruct w3; cbn in *; subst; auto.
  - destruct (policy_never w3); [destruct (lc_truncating lc); [exact L1|destruct w3; exact L1]|].
    apply G; auto; lia.
Qed.

(* ---- postProcessLine, one call, a paragraph ---------------------------------------------------------------- *)

Lemma post_process_gc : forall w line done, gc_pos (w_st w) = true ->
  gc_pos (w_st (fst (fst (post_process w line done)))) = true.
Proof.
  intros w line done HG. rewrite post_process_split.
  assert (T : forall cfg wx l dn, w_st (fst (fst (pp_tail cfg wx l dn))) = w_st wx).
  { intros. unfold pp_tail. repeat match goal with |- context [if ?c then _ else _] => destruct c end; destruct wx; reflexivity. }
  destruct (pp_first w line) as [w1 l1] eqn:PF. rewrite T.
  unfold pp_first in PF. destruct line as [[|a fl]|]; try (inversion PF; subst; exact HG).
  cbv zeta in PF. destruct (c_notrim (w_cfg w)); [inversion PF; subst; destruct w; exact HG|].
  match type of PF with context [if ?c then _ else _] => destruct c end; inversion PF; subst; [|destruct w; exact HG].
  destruct w; unfold set_start, set_st; cbn. apply store_update_gc; auto.
Qed.

Lemma phi_nonneg : forall n b, 0 <= phi n b.
Proof. intros. unfold phi. pose proof (wmeas_nonneg n b). pose proof (gmeas_nonneg n b). lia. Qed.

(* one call: no OutOfFuel, and the glyph-count hypothesis is kept *)
Lemma wrap_next_line_light : forall n attrs w mw,
  CI n attrs w -> zlen attrs = n + 1 -> gc_pos (w_st w) = true ->
  match wrap_next_line w mw with Ok (w', _, _) => gc_pos (w_st w') = true | OutOfFuel => False | _ => True end.
Proof.
  intros n attrs w mw HC Ha HG. unfold wrap_next_line. destruct (w_more w); cbn [negb]; [|exact HG].
  destruct (peek w) as [[ci run] hasFirst]. destruct hasFirst; cbn [negb].
  2:{ pose proof (post_process_gc w None true HG) as X. destruct (post_process w None true) as [[w' wl] d]. exact X. }
  destruct HC as (HR & HP & HS & HM & HB & HAt & Hst & HT & HF).
  pose proof HB as (B1 & B2 & B3 & _).
  set (lc := mkLC _ _ _).
  assert (L : LP n (start_line w)).
  { eapply (LP_intro n _ (w_br w) (w_st w) (w_idx w) (w_saved w)); auto; try lia; try (destruct w; reflexivity). rewrite HAt. exact Ha. }
  pose proof (outer_light n (loop_fuel (start_line w)) (start_line w) lc ltac:(lia) L) as OL.
  assert (F : wmeas n (w_br (start_line w)) < Z.of_nat (loop_fuel (start_line w))).
  { unfold loop_fuel. replace (w_br (start_line w)) with (w_br w) by (destruct w; reflexivity). rewrite HAt.
    pose proof (wmeas_bound n (w_br w) B2 ltac:(lia)). unfold zlen in Ha. lia. }
  specialize (OL F). destruct (outer_loop _ (start_line w) lc) as [[w2 d2]| | |]; cbn [bind]; auto.
  pose proof (post_process_gc w2 (s_best (w_sc w2)) d2 OL) as X. destruct (post_process w2 _ d2) as [[w' wl] d]. exact X.
Qed.

Lemma paragraph_loop_noof : forall n attrs fuel w mw acc,
  zlen attrs = n + 1 -> CI n attrs w -> w_more w = true -> gc_pos (w_st w) = true ->
  phi n (w_br w) < Z.of_nat fuel -> noof (paragraph_loop fuel w mw acc).
Proof.
  intros n attrs. induction fuel as [|fuel IH]; intros w mw acc Ha HC Hm HG HF; [pose proof (phi_nonneg n (w_br w)); lia|].
  unfold noof. cbn [paragraph_loop].
  pose proof (wrap_next_line_light n attrs w mw HC Ha HG) as WL.
  destruct (wrap_next_line w mw) as [[[w1 wl] d]| | |] eqn:WN; cbn [bind]; try discriminate; [|destruct WL].
  destruct d; [discriminate|].
  destruct (wrap_next_line_J n attrs w mw w1 wl false HC Hm WN) as (_ & _ & _ & L4 & _).
  destruct (L4 eq_refl) as (C1 & M1 & P1). apply IH; auto. lia.
Qed.

Lemma next_line_loop_noof : forall n attrs fuel w widths acc,
  zlen attrs = n + 1 -> CI n attrs w -> w_more w = true -> gc_pos (w_st w) = true ->
  phi n (w_br w) < Z.of_nat fuel -> noof (next_line_loop fuel w widths acc).
Proof.
  intros n attrs. induction fuel as [|fuel IH]; intros w widths acc Ha HC Hm HG HF; [pose proof (phi_nonneg n (w_br w)); lia|].
  unfold noof. cbn [next_line_loop].
  set (wd := match widths with x :: _ => x | [] => 0 end).
  pose proof (wrap_next_line_light n attrs w wd HC Ha HG) as WL.
  destruct (wrap_next_line w wd) as [[[w1 wl] d]| | |] eqn:WN; cbn [bind]; try discriminate; [|destruct WL].
  destruct (wrap_next_line_J n attrs w wd w1 wl d HC Hm WN) as (_ & _ & _ & L4 & L5).
  destruct d.
  - destruct (L5 eq_refl) as [M1 _]. unfold wrap_next_line. rewrite M1. cbn. discriminate.
  - destruct (L4 eq_refl) as (C1 & M1 & P1). apply IH; auto. lia.
Qed.

Lemma run_calls_noof : forall n attrs widths w (live : bool),
  zlen attrs = n + 1 ->
  (match live return Prop with true => CI n attrs w /\ w_more w = true /\ gc_pos (w_st w) = true | false => w_more w = false end) ->
  noof (run_calls w widths).
Proof.
  intros n attrs. induction widths as [|mw rest IH]; intros w live Ha HS; unfold noof; cbn [run_calls]; [discriminate|].
  destruct live.
  - destruct HS as (HC & Hm & HG).
    pose proof (wrap_next_line_light n attrs w mw HC Ha HG) as WL.
    destruct (wrap_next_line w mw) as [[[w1 wl] d]| | |] eqn:WN; cbn [bind]; try discriminate; [|destruct WL].
    destruct (wrap_next_line_J n attrs w mw w1 wl d HC Hm WN) as (_ & _ & _ & L4 & L5).
    assert (X : noof (run_calls w1 rest)).
    { destruct d; [apply (IH w1 false Ha); apply L5; reflexivity|].
      destruct (L4 eq_refl) as (C1 & M1 & _). apply (IH w1 true Ha). auto. }
    unfold noof in X. destruct (run_calls w1 rest); cbn [bind]; try discriminate. congruence.
  - unfold wrap_next_line. rewrite HS. cbn [negb bind].
    pose proof (IH w false Ha HS) as X. unfold noof in X. destruct (run_calls w rest); cbn [bind]; try discriminate. congruence.
Qed.

Lemma phi_new : forall attrs, 0 <= zlen attrs - 1 -> phi (zlen attrs - 1) (new_breaker attrs) = 2 * zlen attrs.
Proof. intros. unfold phi, wmeas, gmeas, new_breaker; cbn [b_wpos b_gpos b_isUnusedW b_isUnusedG b2z]. lia. Qed.

(* wrap_terminates: after Prepare on a contiguous run list covering [0,n), n >= 1, whose store has GlyphCount >= 1
   everywhere, neither WrapParagraph, nor the iterative API with any widths, nor any sequence of WrapNextLine calls
   runs out of the fuel the model's callers pass *)
Lemma wrap_terminates_all : forall n w cfg attrs runs,
  runs_ok runs n -> zlen attrs - 1 = n -> 1 <= n -> gc_pos (w_st w) = true ->
  (forall mw, noof (wrap_paragraph w cfg mw attrs runs))
  /\ (forall widths, noof (wrap_iterative w cfg widths attrs runs))
  /\ (forall widths, noof (run_calls (prepare w cfg attrs runs 0 0) widths)).
Proof.
  intros n w cfg attrs runs HR Hn H1 HG.
  pose proof (CI_prepare n w cfg attrs runs HR Hn H1) as HC.
  assert (Ha : zlen attrs = n + 1) by lia.
  assert (HP : phi n (w_br (prepare w cfg attrs runs 0 0)) < Z.of_nat (para_fuel attrs)).
  { cbn. rewrite <- Hn, phi_new by lia. unfold para_fuel, zlen. lia. }
  split; [|split].
  - intros mw. unfold wrap_paragraph.
    match goal with |- noof (match ?f with Some _ => _ | None => _ end) => destruct f end; [unfold noof; discriminate|].
    eapply paragraph_loop_noof; eauto.
  - intros widths. unfold wrap_iterative. eapply next_line_loop_noof; eauto.
  - intros widths. apply (run_calls_noof n attrs widths _ true Ha). auto.
Qed.
