(* GPOS mark-to-base attachment meets the contract in EITHER buffer direction (C18): the proof of Proofs/MarkBase.v with
   the direction abstracted (Proofs/Direction.v).  The lookup searches the base backward in the buffer whatever the
   direction of the run, and flags the window [base, mark] the same way. *)
From TV Require Import Model.MarkBase Spec.LocalEngine Proofs.LocalEngine Proofs.EngineItem Proofs.KernMachine Proofs.MarkBase.
From TV Require Import Proofs.Direction.

Theorem mb_step_ok_dir side srt (D : dir_ok side srt) P :
  step_ok icl iutb side (fun l => srt l /\ nomult l) (mb_pass P).
Proof.
  constructor.
  - (* progress *) intros L R d t Hne. rewrite mb_pass_step. destruct t as [|x rest]; [contradiction|]. rewrite mstep_cons. cbn. lia.
  - (* invariant *) intros L R d t Hne [HS HN]. rewrite mb_pass_step. destruct t as [|x rest]; [contradiction|]. split.
    + eapply (d_same _ _ D); [|exact HS]. symmetry. apply refines_icls. apply mstep_refines. apply nomult_app in HN. tauto.
    + apply mstep_nomult. exact HN.
  - (* clusters *) intros L R d t y Hne [HS HN] Hy. rewrite mb_pass_step in Hy. destruct t as [|x rest]; [contradiction|].
    apply nomult_app in HN. apply (refines_cls _ _ (mstep_refines P d x rest (proj1 HN)) y Hy).
  - (* persistence *) intros L R d t c Hne [HS HN] F. rewrite mb_pass_step. destruct t as [|x rest]; [contradiction|].
    apply nomult_app in HN. apply (refines_fog c _ _ (mstep_refines P d x rest (proj1 HN)) F).
  - (* cut ahead: attachment never looks ahead *)
    intros L R R' d t1 t2 c Hne HI HI1 HC _. cbv zeta. rewrite !mb_pass_step. right.
    destruct t1 as [|x r1]; [contradiction|]. cbn [app]. rewrite !mstep_cons. reflexivity.
  - (* cut behind *)
    intros L L' R d1 d2 t c Hne [HS HN] [HS2 HN2] HC _. cbv zeta. rewrite !mb_pass_step.
    destruct t as [|x rest]; [contradiction|]. rewrite !mstep_cons. cbn [fst snd]. rewrite !mb_at_plan.
    apply (cutv_spec icl side) in HC. destruct HC as [C1 C2].
    assert (HN12 : nomult (d1 ++ d2)).
    { rewrite app_assoc in HN. apply nomult_app in HN. tauto. }
    pose proof (mb_plan_prefix P d1 d2 x HN12) as Hp.
    destruct (mb_plan P d2 x) as [[b x']|] eqn:E2.
    + right. rewrite Hp. f_equal.
      rewrite firstn_app, skipn_app. rewrite firstn_all2, skipn_all2 by lia.
      replace (length d1 + b - length d1)%nat with b by lia. cbn [app]. rewrite <- app_assoc. reflexivity.
    + destruct Hp as [Hp|(b & x' & Hp & Lb)]; rewrite Hp.
      * right. rewrite <- app_assoc. reflexivity.
      * left.
        destruct (mb_plan_props P (d1 ++ d2) x b x' HN12 Hp) as (_ & Ec & Eu).
        rewrite <- app_assoc. apply (d_flagged _ _ D).
        -- eapply (d_same _ _ D); [|exact HS]. symmetry.
           transitivity (icls (firstn b (d1 ++ d2) ++ (skipn b (d1 ++ d2) ++ [x]) ++ rest)).
           ++ apply refines_icls. apply refines_app; [apply refines_refl|]. apply refines_app; [|apply refines_refl].
              apply refines_app; [apply refines_refl|]. constructor; [|constructor]. split; [symmetry; exact Ec|exact Eu].
           ++ rewrite <- !app_assoc. rewrite (app_assoc (firstn b (d1 ++ d2))). rewrite firstn_skipn. rewrite <- app_assoc. reflexivity.
        -- intros y Hy. apply C1. rewrite firstn_app in Hy. replace (b - length d1)%nat with O in Hy by lia.
           cbn [firstn] in Hy. rewrite app_nil_r in Hy. eapply in_firstn. exact Hy.
        -- intros y Hy. apply C2. apply in_or_app. right. right. exact Hy.
        -- exists (nth b d1 i0). split.
           ++ apply in_or_app. left. rewrite skipn_app. apply in_or_app. left. apply nth_in_skipn. exact Lb.
           ++ apply C1. apply nth_In. exact Lb.
        -- exists x'. split; [apply in_or_app; right; left; reflexivity|]. rewrite Ec. apply C2. apply in_or_app. right. left. reflexivity.
Qed.
