(* Window-local rule engines (C18): every well-formed engine is cut-safe. *)
From TV Require Import Spec.LocalEngine.

Section Proofs.
Context {A C : Type}.
Variable icl : A -> Z.
Variable iutb : A -> bool.
Variable side : Z -> Z -> bool.
Variable Inv : list A -> Prop.

Notation fog := (fog icl iutb).
Notation cutv := (cutv icl side).
Notation step_ok := (step_ok icl iutb side Inv).
Notation stable := (stable Inv).
Notation wf_engine := (wf_engine icl iutb side Inv).

(* ---- cutv ---- *)
Lemma cutv_spec c l r : cutv c l r = true <->
  (forall x, In x l -> side c (icl x) = false) /\ (forall y, In y r -> side c (icl y) = true).
Proof.
  unfold LocalEngine.cutv. rewrite andb_true_iff, !forallb_forall. split; intros [H1 H2]; split; intros x Hx.
  - specialize (H1 x Hx). destruct (side c (icl x)); [discriminate|reflexivity].
  - exact (H2 x Hx).
  - rewrite (H1 x Hx). reflexivity.
  - exact (H2 x Hx).
Qed.

Lemma cutv_nil_r c l : (forall x, In x l -> side c (icl x) = false) -> cutv c l [] = true.
Proof. intros H. apply cutv_spec. split; [exact H|intros y []]. Qed.

(* clusters of l' all occur in l *)
Definition cls_sub (l' l : list A) : Prop := forall x, In x l' -> exists y, In y l /\ icl y = icl x.

Lemma cls_sub_refl l : cls_sub l l.
Proof. intros x Hx. exists x. auto. Qed.
Lemma cls_sub_trans a b c : cls_sub a b -> cls_sub b c -> cls_sub a c.
Proof. intros H1 H2 x Hx. destruct (H1 x Hx) as (y & Hy & E). destruct (H2 y Hy) as (z & Hz & E'). exists z. split; [auto|congruence]. Qed.

Lemma side_sub (b : bool) c l' l : cls_sub l' l -> (forall x, In x l -> side c (icl x) = b) -> forall x, In x l' -> side c (icl x) = b.
Proof. intros Hs H x Hx. destruct (Hs x Hx) as (y & Hy & E). rewrite <- E. exact (H y Hy). Qed.

Section OnePass.
Variable p : @pass A C.
Hypothesis OK : step_ok p.

Lemma ploop_nil f L R d : ploop p f L R d [] = d.
Proof. destruct f; cbn; [apply app_nil_r|reflexivity]. Qed.

Lemma ploop_fuel2 L R : forall f1 f2 d t, (length t <= f1)%nat -> (length t <= f2)%nat ->
  ploop p f1 L R d t = ploop p f2 L R d t.
Proof.
  induction f1 as [|f1 IH]; intros f2 d t H1 H2.
  - destruct t; [|cbn in H1; lia]. rewrite !ploop_nil. reflexivity.
  - destruct t as [|x t]; [rewrite !ploop_nil; reflexivity|].
    destruct f2 as [|f2]; [cbn in H2; lia|].
    cbn [ploop]. pose proof (so_progress _ _ _ _ _ OK L R d (x :: t) ltac:(discriminate)) as Hp.
    apply IH; cbn [length] in *; lia.
Qed.

Lemma ploop_fuel L R f d t : (length t <= f)%nat -> ploop p f L R d t = ploop p (length t) L R d t.
Proof. intros. apply ploop_fuel2; lia. Qed.

(* one unfolding *)
Lemma ploop_step L R f d t : t <> [] -> (length t <= S f)%nat ->
  ploop p (S f) L R d t = ploop p f L R (fst (pstep p L R d t)) (snd (pstep p L R d t)).
Proof. intros Hne _. destruct t; [contradiction|reflexivity]. Qed.

(* invariants of the loop *)
Lemma ploop_inv L R : forall f d t, (length t <= f)%nat -> Inv (d ++ t) -> Inv (ploop p f L R d t).
Proof.
  induction f as [|f IH]; intros d t Hf HI.
  - destruct t; [|cbn in Hf; lia]. cbn. exact HI.
  - destruct t as [|x t]; [rewrite ploop_nil; rewrite app_nil_r in HI; exact HI|].
    rewrite ploop_step by (try discriminate; assumption).
    pose proof (so_progress _ _ _ _ _ OK L R d (x :: t) ltac:(discriminate)) as Hp.
    apply IH; [cbn [length] in *; lia|]. apply (so_inv _ _ _ _ _ OK); [discriminate|exact HI].
Qed.

Lemma ploop_cls L R : forall f d t, (length t <= f)%nat -> Inv (d ++ t) -> cls_sub (ploop p f L R d t) (d ++ t).
Proof.
  induction f as [|f IH]; intros d t Hf HI.
  - destruct t; [|cbn in Hf; lia]. cbn. apply cls_sub_refl.
  - destruct t as [|x t]; [rewrite ploop_nil, app_nil_r; apply cls_sub_refl|].
    rewrite ploop_step by (try discriminate; assumption).
    pose proof (so_progress _ _ _ _ _ OK L R d (x :: t) ltac:(discriminate)) as Hp.
    eapply cls_sub_trans.
    + apply IH; [cbn [length] in *; lia|]. apply (so_inv _ _ _ _ _ OK); [discriminate|exact HI].
    + intros y Hy. apply (so_cls _ _ _ _ _ OK L R d (x :: t)); [discriminate|exact HI|exact Hy].
Qed.

Lemma ploop_persist L R c : forall f d t, (length t <= f)%nat -> Inv (d ++ t) ->
  fog c (d ++ t) = true -> fog c (ploop p f L R d t) = true.
Proof.
  induction f as [|f IH]; intros d t Hf HI HF.
  - destruct t; [|cbn in Hf; lia]. cbn. exact HF.
  - destruct t as [|x t]; [rewrite ploop_nil; rewrite app_nil_r in HF; exact HF|].
    rewrite ploop_step by (try discriminate; assumption).
    pose proof (so_progress _ _ _ _ _ OK L R d (x :: t) ltac:(discriminate)) as Hp.
    apply IH; [cbn [length] in *; lia| |].
    + apply (so_inv _ _ _ _ _ OK); [discriminate|exact HI].
    + apply (so_persist _ _ _ _ _ OK); [discriminate|exact HI|exact HF].
Qed.

Lemma ploop_sums (p' : @pass A C) L R : stable p p' -> forall f d t, (length t <= f)%nat -> Inv (d ++ t) ->
  (forall X, psumR p' (ploop p f L R d t ++ X) = psumR p' ((d ++ t) ++ X))
  /\ (forall X, psumL p' (X ++ ploop p f L R d t) = psumL p' (X ++ d ++ t)).
Proof.
  intros St. induction f as [|f IH]; intros d t Hf HI.
  - destruct t; [|cbn in Hf; lia]. cbn. split; reflexivity.
  - destruct t as [|x t]; [rewrite ploop_nil, app_nil_r; split; reflexivity|].
    rewrite ploop_step by (try discriminate; assumption).
    pose proof (so_progress _ _ _ _ _ OK L R d (x :: t) ltac:(discriminate)) as Hp.
    destruct (St L R d (x :: t) ltac:(discriminate) HI) as [SR SL].
    destruct (IH (fst (pstep p L R d (x :: t))) (snd (pstep p L R d (x :: t)))) as [IR IL].
    { cbn [length] in *; lia. }
    { apply (so_inv _ _ _ _ _ OK); [discriminate|exact HI]. }
    split; intros X.
    + rewrite IR. apply SR.
    + rewrite IL. apply SL.
Qed.

(* ---- the cut, one pass ---- *)

(* cursor behind the cut: what was passed is d1 ++ d2 *)
Lemma phase2 L L' R c : forall f d1 d2 t, (length t <= f)%nat ->
  Inv (d1 ++ d2 ++ t) -> Inv (d2 ++ t) -> cutv c d1 (d2 ++ t) = true ->
  psumL p (L ++ L') = psumL p (L ++ d1) ->
  fog c (ploop p f L R (d1 ++ d2) t) = true
  \/ ploop p f L R (d1 ++ d2) t = d1 ++ ploop p f (L ++ L') R d2 t.
Proof.
  induction f as [|f IH]; intros d1 d2 t Hf HI HI2 HC HS.
  - destruct t; [|cbn in Hf; lia]. right. cbn. rewrite !app_nil_r. reflexivity.
  - destruct t as [|x t]; [right; rewrite !ploop_nil; reflexivity|].
    rewrite !ploop_step by (try discriminate; assumption).
    pose proof (so_progress _ _ _ _ _ OK L R (d1 ++ d2) (x :: t) ltac:(discriminate)) as Hp.
    pose proof (so_progress _ _ _ _ _ OK (L ++ L') R d2 (x :: t) ltac:(discriminate)) as Hp2.
    assert (HIw : Inv ((d1 ++ d2) ++ x :: t)) by (rewrite <- app_assoc; exact HI).
    destruct (so_bwd _ _ _ _ _ OK L L' R d1 d2 (x :: t) c ltac:(discriminate) HI HI2 HC HS) as [F|E].
    + left. apply ploop_persist; [cbn [length] in *; lia| |exact F].
      apply (so_inv _ _ _ _ _ OK); [discriminate|exact HIw].
    + cbv zeta in E. rewrite E. cbn [fst snd].
      set (r2 := pstep p (L ++ L') R d2 (x :: t)) in *.
      assert (HI2' : Inv (fst r2 ++ snd r2)) by (apply (so_inv _ _ _ _ _ OK); [discriminate|exact HI2]).
      apply IH.
      * cbn [length] in *; lia.
      * pose proof (so_inv _ _ _ _ _ OK L R (d1 ++ d2) (x :: t) ltac:(discriminate) HIw) as H.
        rewrite E in H. cbn [fst snd] in H. rewrite <- app_assoc in H. exact H.
      * exact HI2'.
      * apply cutv_spec in HC. destruct HC as [C1 C2]. apply cutv_spec. split; [exact C1|].
        apply (side_sub true c _ (d2 ++ x :: t)); [|exact C2].
        intros y Hy. apply (so_cls _ _ _ _ _ OK (L ++ L') R d2 (x :: t)); [discriminate|exact HI2|exact Hy].
      * exact HS.
Qed.

(* cursor ahead of the cut: the unread input is t1 ++ t2 *)
Lemma phase1 L R R' c t2 : psumR p (R' ++ R) = psumR p (t2 ++ R) ->
  forall f d t1, (length (t1 ++ t2) <= f)%nat ->
  Inv (d ++ t1 ++ t2) -> Inv (d ++ t1) -> cutv c (d ++ t1) t2 = true ->
  fog c (ploop p f L R d (t1 ++ t2)) = true
  \/ (ploop p f L R d (t1 ++ t2) = ploop p f L R (ploop p f L (R' ++ R) d t1) t2
      /\ Inv (ploop p f L (R' ++ R) d t1 ++ t2)).
Proof.
  intros HS. induction f as [|f IH]; intros d t1 Hf HI HI1 HC.
  - destruct t1; [|cbn in Hf; lia]. destruct t2; [|cbn in Hf; lia]. right. cbn. rewrite !app_nil_r in *. split; [reflexivity|exact HI1].
  - destruct t1 as [|x t1].
    + right. rewrite ploop_nil. split; [reflexivity|exact HI].
    + assert (Hne : (x :: t1) ++ t2 <> []) by discriminate.
      rewrite (ploop_step L R f d _ Hne Hf).
      rewrite (ploop_step L (R' ++ R) f d (x :: t1)); [|discriminate|rewrite app_length in Hf; lia].
      pose proof (so_progress _ _ _ _ _ OK L R d ((x :: t1) ++ t2) Hne) as Hp.
      assert (HIw : Inv (d ++ (x :: t1) ++ t2)) by exact HI.
      destruct (so_fwd _ _ _ _ _ OK L R R' d (x :: t1) t2 c ltac:(discriminate) HI HI1 HC HS) as [F|E].
      * left. apply ploop_persist; [lia| |exact F].
        apply (so_inv _ _ _ _ _ OK); [exact Hne|exact HIw].
      * cbv zeta in E. rewrite E. cbn [fst snd].
        set (r1 := pstep p L (R' ++ R) d (x :: t1)) in *.
        assert (HI1' : Inv (fst r1 ++ snd r1)) by (apply (so_inv _ _ _ _ _ OK); [discriminate|exact HI1]).
        rewrite E in Hp. cbn [snd] in Hp.
        assert (Hlen2 : (length t2 <= f)%nat) by (rewrite app_length in Hp; rewrite app_length in Hf; cbn [length] in Hf; lia).
        rewrite (ploop_fuel2 L R (S f) f _ t2) by lia.
        apply IH.
        -- lia.
        -- pose proof (so_inv _ _ _ _ _ OK L R d ((x :: t1) ++ t2) Hne HIw) as H.
           rewrite E in H. cbn [fst snd] in H. exact H.
        -- exact HI1'.
        -- apply cutv_spec in HC. destruct HC as [C1 C2]. apply cutv_spec. split; [|exact C2].
           apply (side_sub false c _ (d ++ x :: t1)); [|exact C1].
           intros y Hy. apply (so_cls _ _ _ _ _ OK L (R' ++ R) d (x :: t1)); [discriminate|exact HI1|exact Hy].
Qed.

(* a whole pass over a ++ b, cut between a and b; pre / suf: what the pieces see as context *)
Lemma pass_cut L R pre suf c a b :
  stable p p ->
  Inv (a ++ b) -> Inv a -> Inv b -> cutv c a b = true ->
  psumR p (suf ++ R) = psumR p (b ++ R) -> psumL p (L ++ pre) = psumL p (L ++ a) ->
  fog c (prun p L R (a ++ b)) = true
  \/ prun p L R (a ++ b) = prun p L (suf ++ R) a ++ prun p (L ++ pre) R b.
Proof.
  intros St HI Ha Hb HC HR HL. unfold prun.
  destruct (phase1 L R suf c b HR (length (a ++ b)) [] a (le_n _) HI Ha HC) as [F|[E Iab]]; [left; exact F|].
  rewrite E.
  assert (La : (length a <= length (a ++ b))%nat) by (rewrite app_length; lia).
  assert (Lb : (length b <= length (a ++ b))%nat) by (rewrite app_length; lia).
  rewrite (ploop_fuel L (suf ++ R) _ [] a La) in *.
  set (a' := ploop p (length a) L (suf ++ R) [] a) in *.
  assert (Ca : cls_sub a' a) by (apply (ploop_cls L (suf ++ R) (length a) [] a (le_n _) Ha)).
  rewrite (ploop_fuel L R _ a' b Lb).
  destruct (ploop_sums p L (suf ++ R) St (length a) [] a (le_n _) Ha) as [_ SL].
  destruct (phase2 L pre R c (length b) a' [] b (le_n _)) as [F|E2].
  - rewrite app_nil_l. exact Iab.
  - exact Hb.
  - apply cutv_spec in HC. destruct HC as [C1 C2]. apply cutv_spec. split; [|exact C2].
    apply (side_sub false c a' a Ca C1).
  - rewrite HL. symmetry. apply (SL L).
  - left. rewrite app_nil_r in F. exact F.
  - right. rewrite app_nil_r in E2. exact E2.
Qed.

End OnePass.

(* ---- whole passes ---- *)
Lemma prun_inv (p : @pass A C) (OK : step_ok p) L R l : Inv l -> Inv (prun p L R l).
Proof. intros H. apply ploop_inv; [exact OK|lia|exact H]. Qed.

Lemma prun_cls (p : @pass A C) (OK : step_ok p) L R l : Inv l -> cls_sub (prun p L R l) l.
Proof. intros H. apply (ploop_cls p OK L R (length l) [] l (le_n _) H). Qed.

Lemma prun_persist (p : @pass A C) (OK : step_ok p) L R l c : Inv l -> fog c l = true -> fog c (prun p L R l) = true.
Proof. intros H F. apply ploop_persist; [exact OK|lia|exact H|exact F]. Qed.

Lemma prun_sums (p p' : @pass A C) (OK : step_ok p) (St : stable p p') L R l : Inv l ->
  (forall X, psumR p' (prun p L R l ++ X) = psumR p' (l ++ X))
  /\ (forall X, psumL p' (X ++ prun p L R l) = psumL p' (X ++ l)).
Proof. intros H. apply (ploop_sums p OK p' L R St (length l) [] l (le_n _) H). Qed.

(* ---- engines ---- *)
Lemma erun_cons (q : @pass A C) r L R l : erun (q :: r) L R l = erun r L R (prun q L R l).
Proof. reflexivity. Qed.

Lemma erun_inv : forall ps : list (@pass A C), wf_engine ps -> forall L R l, Inv l -> Inv (erun ps L R l).
Proof.
  induction ps as [|q r IH]; intros W L R l H; [exact H|].
  destruct W as (OK & _ & Wr). rewrite erun_cons. apply IH; [exact Wr|]. apply prun_inv; assumption.
Qed.

Lemma erun_persist : forall ps : list (@pass A C), wf_engine ps -> forall L R l c, Inv l -> fog c l = true -> fog c (erun ps L R l) = true.
Proof.
  induction ps as [|q r IH]; intros W L R l c H F; [exact F|].
  destruct W as (OK & _ & Wr). rewrite erun_cons. apply IH; [exact Wr| |].
  - apply prun_inv; assumption.
  - apply prun_persist; assumption.
Qed.

Lemma erun_cls : forall ps : list (@pass A C), wf_engine ps -> forall L R l, Inv l -> cls_sub (erun ps L R l) l.
Proof.
  induction ps as [|q r IH]; intros W L R l H; [apply cls_sub_refl|].
  destruct W as (OK & _ & Wr). rewrite erun_cons. eapply cls_sub_trans.
  - apply IH; [exact Wr|]. apply prun_inv; assumption.
  - apply prun_cls; assumption.
Qed.

(* the cut through all passes: a, b are the current states of the two pieces, pre, suf their original text *)
Lemma engine_cut_gen : forall ps : list (@pass A C), wf_engine ps -> forall L R pre suf c a b,
  Inv (a ++ b) -> Inv a -> Inv b -> cutv c a b = true ->
  (forall p, In p ps -> psumR p (suf ++ R) = psumR p (b ++ R) /\ psumL p (L ++ pre) = psumL p (L ++ a)) ->
  fog c (erun ps L R (a ++ b)) = true
  \/ erun ps L R (a ++ b) = erun ps L (suf ++ R) a ++ erun ps (L ++ pre) R b.
Proof.
  induction ps as [|q r IH]; intros W L R pre suf c a b HI Ha Hb HC HS; [right; reflexivity|].
  destruct W as (OK & St & Wr). rewrite !erun_cons.
  pose proof (Forall_inv St) as Stq. pose proof (Forall_inv_tail St) as Str.
  destruct (HS q (or_introl eq_refl)) as [SRq SLq].
  destruct (pass_cut q OK L R pre suf c a b Stq HI Ha Hb HC SRq SLq) as [F|E].
  - left. apply erun_persist; [exact Wr| |exact F]. apply prun_inv; assumption.
  - rewrite E.
    assert (Ia' : Inv (prun q L (suf ++ R) a)) by (apply prun_inv; assumption).
    assert (Ib' : Inv (prun q (L ++ pre) R b)) by (apply prun_inv; assumption).
    apply IH.
    + exact Wr.
    + rewrite <- E. apply prun_inv; assumption.
    + exact Ia'.
    + exact Ib'.
    + apply cutv_spec in HC. destruct HC as [C1 C2]. apply cutv_spec. split.
      * apply (side_sub false c _ a); [apply prun_cls; assumption|exact C1].
      * apply (side_sub true c _ b); [apply prun_cls; assumption|exact C2].
    + intros p' Hp'. destruct (HS p' (or_intror Hp')) as [SR SL].
      rewrite Forall_forall in Str. specialize (Str p' Hp').
      destruct (prun_sums q p' OK Str L (suf ++ R) a Ha) as [_ PL].
      destruct (prun_sums q p' OK Str (L ++ pre) R b Hb) as [PR _].
      split.
      * rewrite SR. symmetry. apply PR.
      * rewrite SL. symmetry. apply PL.
Qed.

(* every well-formed engine is cut-safe *)
Theorem wf_engine_cut_safe : forall ps : list (@pass A C), wf_engine ps -> cut_safe icl iutb side Inv ps.
Proof.
  intros ps W L R pre suf c HI Hp Hs HC HF.
  destruct (engine_cut_gen ps W L R pre suf c pre suf HI Hp Hs HC) as [F|E].
  - intros p _. split; reflexivity.
  - rewrite F in HF. discriminate.
  - exact E.
Qed.

(* the pieces can be cut again: flags, like everything else, are those of the whole run *)
Corollary cut_safe_flags : forall ps : list (@pass A C), wf_engine ps -> forall L R pre suf c c',
  Inv (pre ++ suf) -> Inv pre -> Inv suf -> cutv c pre suf = true ->
  fog c (erun ps L R (pre ++ suf)) = false ->
  fog c' (erun ps L R (pre ++ suf)) = fog c' (erun ps L (suf ++ R) pre ++ erun ps (L ++ pre) R suf).
Proof. intros ps W L R pre suf c c' HI Hp Hs HC HF. rewrite (wf_engine_cut_safe ps W L R pre suf c HI Hp Hs HC HF) at 1. reflexivity. Qed.

(* a stronger invariant that the steps also preserve *)
Lemma step_ok_strengthen (Q : list A -> Prop) (p : @pass A C) : step_ok p ->
  (forall L R d t, t <> [] -> Inv (d ++ t) -> Q (d ++ t) -> Q (fst (pstep p L R d t) ++ snd (pstep p L R d t))) ->
  Spec.LocalEngine.step_ok icl iutb side (fun l => Inv l /\ Q l) p.
Proof.
  intros OK HQ. constructor.
  - apply (so_progress _ _ _ _ _ OK).
  - intros L R d t Hne [HI Hq]. split; [apply (so_inv _ _ _ _ _ OK); assumption|apply HQ; assumption].
  - intros L R d t x Hne [HI _]. apply (so_cls _ _ _ _ _ OK); assumption.
  - intros L R d t c Hne [HI _]. apply (so_persist _ _ _ _ _ OK); assumption.
  - intros L R R' d t1 t2 c Hne [HI _] [HI1 _]. apply (so_fwd _ _ _ _ _ OK); assumption.
  - intros L L' R d1 d2 t c Hne [HI _] [HI2 _]. apply (so_bwd _ _ _ _ _ OK); assumption.
Qed.

End Proofs.

(* passes that do not read the context (summary type unit): stability is trivial *)
Section NoContext.
Context {A : Type}.
Variable icl : A -> Z.
Variable iutb : A -> bool.
Variable side : Z -> Z -> bool.
Variable Inv : list A -> Prop.

Lemma stable_unit (q p : @pass A unit) : stable Inv q p.
Proof. intros L R d t _ _. split; intros X; destruct (psumR p _), (psumR p _) || destruct (psumL p _), (psumL p _); reflexivity. Qed.

Lemma wf_engine_unit (ps : list (@pass A unit)) :
  Forall (step_ok icl iutb side Inv) ps -> wf_engine icl iutb side Inv ps.
Proof.
  induction 1 as [|q r OK _ IH]; cbn; [exact I|]. split; [exact OK|]. split; [|exact IH].
  apply Forall_forall. intros p _. apply stable_unit.
Qed.

End NoContext.
