(* C11: compositions for the tables as the library builds them (raw arrays -> newCmap4 / sanitizeCmap4, raw groups ->
   sanitizeCmapGroups), and the instances of the generic theorems at the tables regenerated from the library. *)
From TV Require Import Lib.GoNum Lib.Res Lib.Bytes Model.RuneSet Model.Cmap Model.CmapSel Model.LangSet Model.Scripts.
From TV Require Import Spec.RuneSet Spec.Cmap Spec.CmapRemap Spec.CmapSel Spec.LangSet Spec.Scripts.
From TV Require Import Proofs.RuneSet Proofs.RuneSetIncl Proofs.Cmap Proofs.C11Compose Proofs.CmapSan Proofs.CmapSel
  Proofs.LangSet Proofs.Scripts.
From TV Require Import Gen.C11Tables Gen.ScriptTable.

Definition typed_quads (qs : list (Z * Z * Z * Z)) : Prop :=
  Forall (fun q => let '(e, st, d, iro) := q in u16b e && u16b st && u16b d && u16b iro = true) qs.
Definition typed_bytes (ga : list Z) : Prop := Forall (fun b => 0 <= b < 256) ga.

Lemma built_cmap4_wf qs ga s : typed_quads qs -> typed_bytes ga -> new_cmap4 qs ga = Ok s -> wf_cmap4 (sanitize4 s) = true.
Proof. intros Hq Hg H. apply sanitize4_wf. eapply new_cmap4_typed; eauto. Qed.

Lemma iter_eq_lookup_cmap4_built qs ga s : typed_quads qs -> typed_bytes ga -> new_cmap4 qs ga = Ok s ->
  exists l, iter4 (sanitize4 s) = Ok l /\ iter_agrees l (lookup4 (sanitize4 s)).
Proof. intros Hq Hg H. apply iter4_eq_lookup4. eapply built_cmap4_wf; eauto. Qed.

Lemma coverage_exact_cmap4_built qs ga s : typed_quads qs -> typed_bytes ga -> new_cmap4 qs ga = Ok s ->
  exists rs, coverage_from_ranges (rune_ranges4 (sanitize4 s)) = Ok rs /\ inv rs /\
             forall x, rune_ok x -> exists b, rsContains rs x = Ok b /\ (b = true <-> exists g, lookup4 (sanitize4 s) x = Ok (g, true)).
Proof. intros Hq Hg H. apply coverage_exact_cmap4. eapply built_cmap4_wf; eauto. Qed.

Lemma iter_eq_lookup_cmap12_built gs : forallb ty_grp gs = true -> iter_agrees (iter12 (sanitize12 gs)) (lookup12 (sanitize12 gs)).
Proof. intros H. apply iter12_eq_lookup12. exact (proj1 (sanitize12_wf false gs H)). Qed.
Lemma iter_eq_lookup_cmap13_built gs : forallb ty_grp gs = true -> iter_agrees (iter13 (sanitize12 gs)) (lookup13 (sanitize12 gs)).
Proof. intros H. apply iter13_eq_lookup13. exact (proj1 (sanitize12_wf true gs H)). Qed.
Lemma coverage_exact_cmap12_built gs : forallb ty_grp gs = true ->
  exists rs, coverage_from_ranges (rune_ranges12 (sanitize12 gs)) = Ok rs /\ inv rs /\
             forall x, rune_ok x -> exists b, rsContains rs x = Ok b /\ (b = true <-> exists g, lookup12 (sanitize12 gs) x = Ok (g, true)).
Proof. intros H. destruct (sanitize12_wf false gs H) as [W F]. apply coverage_exact_cmap12; assumption. Qed.

(* ---- the regenerated tables satisfy the side conditions of the generic theorems ---- *)
Lemma macintosh_decode_ok : decode_ok macintosh_decode = true.
Proof. vm_compute. reflexivity. Qed.
Lemma arabicPUASimp_ok : pua_table_ok arabicPUASimp = true.
Proof. vm_compute. reflexivity. Qed.
Lemma arabicPUATrad_ok : pua_table_ok arabicPUATrad = true.
Proof. vm_compute. reflexivity. Qed.
Lemma ScriptRanges_ok : sr_ok ScriptRanges = true.
Proof. vm_compute. reflexivity. Qed.
Definition lang_table : list RuneSet := map to_runeset languagesRunes.
Lemma lang_table_ok : forallb invb lang_table = true /\ zlen lang_table <= 512.
Proof. split; [vm_compute; reflexivity|]. vm_compute. discriminate. Qed.

Lemma process_cmap_iter_agrees_table recs fp cm uv :
  Forall (fun r => typed_sub (snd r)) recs -> process_cmap macintosh_decode recs fp = Ok (cm, uv) ->
  exists l, miter arabicPUASimp arabicPUATrad cm = Ok l /\ iter_agrees_nn l (mlookup arabicPUASimp arabicPUATrad cm).
Proof.
  intros T H. eapply process_cmap_iter_agrees; eauto using macintosh_decode_ok, arabicPUASimp_ok, arabicPUATrad_ok.
Qed.

Lemma langset_exact_table rs : inv rs ->
  exists ls, new_langset lang_table rs = Ok ls /\ ls_ok ls /\
    (forall id, 0 <= id < zlen lang_table ->
       (ls_contains ls id = true <-> subset_of rs (nth (Z.to_nat id) lang_table []))) /\
    (forall id, zlen lang_table <= id < 512 -> ls_contains ls id = false).
Proof. intros I. destruct lang_table_ok as [A B]. apply langset_exact_b; assumption. Qed.

Lemma scripts_from_ranges_exact_table ranges : ranges_ok ranges = true ->
  exists ss, scripts_from_ranges ScriptRanges script_Unknown ranges = Ok ss /\ ss_sorted ss /\
             forall s, In s ss <-> exists x, in_ranges ranges x = true /\ script_of ScriptRanges script_Unknown x = s.
Proof. intros H. apply scripts_from_ranges_exact; [exact ScriptRanges_ok|exact H]. Qed.
