(* Forward window rules (C18).  A rule that, at the glyph x under the cursor, inspects a window x :: firstn m rest of the
   unread input, rewrites it into W (same clusters, unsafe-to-break flags only added, glyphProps kept), flags it with
   unsafeToBreak and moves the cursor n glyphs forward (1 <= n <= window length) — and otherwise advances by one without
   a change — meets the contract of Spec/LocalEngine.v, provided its decision is LOCAL:
     plan_inside  a window that fits into the piece before a cut is found, with the same result, on the piece alone;
     plan_none    a rule that does not fire on the whole text does not fire on the piece.
   A window that straddles the cut is flagged, whatever the rule did.  Instances: GPOS pair positioning
   (Proofs/PairPos.v). *)
From TV Require Import Model.EngineItem Spec.LocalEngine Proofs.LocalEngine Proofs.EngineItem Proofs.KernMachine Proofs.Direction.

Definition keeps (a b : item) : Prop := icl a = icl b /\ (iutb a = true -> iutb b = true) /\ gp (ig a) = gp (ig b).

Lemma keeps_refl a : keeps a a.
Proof. repeat split; auto. Qed.
Lemma keeps_trans a b c : keeps a b -> keeps b c -> keeps a c.
Proof. intros (A1 & A2 & A3) (B1 & B2 & B3). repeat split; [congruence|auto|congruence]. Qed.

Lemma keeps_all_refl l : Forall2 keeps l l.
Proof. induction l; constructor; auto using keeps_refl. Qed.

Lemma keeps_all_trans a b c : Forall2 keeps a b -> Forall2 keeps b c -> Forall2 keeps a c.
Proof.
  intros H. revert c. induction H as [|x y a b K _ IH]; intros c H2; inversion H2; subst; constructor.
  - eapply keeps_trans; eauto.
  - apply IH. assumption.
Qed.

Lemma keeps_refines a b : Forall2 keeps a b -> refines a b.
Proof. induction 1 as [|x y a b (K1 & K2 & _) _ IH]; constructor; auto. Qed.

Lemma keeps_in_l a b x : Forall2 keeps a b -> In x a -> exists y, In y b /\ keeps x y.
Proof.
  induction 1 as [|u v a b K _ IH]; intros H; [contradiction|]. destruct H as [<-|H].
  - exists v. split; [left; reflexivity|exact K].
  - destruct (IH H) as (y & Hy & Ky). exists y. split; [right; exact Hy|exact Ky].
Qed.

Lemma keeps_in_r a b y : Forall2 keeps a b -> In y b -> exists x, In x a /\ keeps x y.
Proof.
  induction 1 as [|u v a b K _ IH]; intros H; [contradiction|]. destruct H as [<-|H].
  - exists u. split; [left; reflexivity|exact K].
  - destruct (IH H) as (x & Hx & Kx). exists x. split; [right; exact Hx|exact Kx].
Qed.

Lemma keeps_flag_item m x : keeps x (flag_item m x).
Proof. repeat split. apply flag_item_keeps. Qed.

Lemma keeps_flag_window m w : Forall2 keeps w (flag_window_m m w).
Proof.
  unfold flag_window_m. destruct w as [|a [|b r]]; try apply keeps_all_refl.
  set (c := lminz _). generalize (a :: b :: r). intros l. induction l as [|x l IH]; cbn [map]; constructor; [|exact IH].
  destruct (icl x =? c); [apply keeps_refl|apply keeps_flag_item].
Qed.

Lemma keeps_length a b : Forall2 keeps a b -> length a = length b.
Proof. induction 1; cbn; congruence. Qed.

Lemma nth_in_firstn (l : list item) : forall i m, (i < m)%nat -> (m <= length l)%nat -> In (nth i l i0) (firstn m l).
Proof.
  induction l as [|a l IH]; intros i m H1 H2; cbn in H2; [lia|].
  destruct m as [|m]; [lia|]. destruct i as [|i]; cbn; [left; reflexivity|right; apply IH; lia].
Qed.

Section ForwardRule.
Variable plan : item -> list item -> option (nat * list item * nat).

Hypothesis plan_shape : forall x rest m W n, plan x rest = Some (m, W, n) ->
  (1 <= m <= length rest)%nat /\ Forall2 keeps (x :: firstn m rest) W /\ (1 <= n <= S m)%nat.
Hypothesis plan_inside : forall x r1 t2 m W n,
  plan x (r1 ++ t2) = Some (m, W, n) -> (m <= length r1)%nat -> plan x r1 = Some (m, W, n).
Hypothesis plan_none : forall x r1 t2, plan x (r1 ++ t2) = None -> plan x r1 = None.

Definition fr_step (d t : list item) : list item * list item :=
  match t with
  | [] => (d, [])
  | x :: rest =>
    match plan x rest with
    | None => (d ++ [x], rest)
    | Some (m, W, n) => let w := flag_window W in (d ++ firstn n w, skipn n w ++ skipn m rest)
    end
  end.

Definition fr_pass : @pass item unit := mkPass (fun _ _ => fr_step) (fun _ => tt) (fun _ => tt).

Lemma fr_seq d x rest m W n : plan x rest = Some (m, W, n) ->
  fst (fr_step d (x :: rest)) ++ snd (fr_step d (x :: rest)) = d ++ flag_window W ++ skipn m rest.
Proof.
  intros E. cbn [fr_step]. rewrite E. cbn [fst snd]. rewrite <- app_assoc. f_equal. rewrite app_assoc. f_equal. apply firstn_skipn.
Qed.

Lemma fr_none d x rest : plan x rest = None -> fr_step d (x :: rest) = (d ++ [x], rest).
Proof. intros E. cbn [fr_step]. rewrite E. reflexivity. Qed.

Lemma fr_orig (x : item) (rest : list item) m : x :: rest = (x :: firstn m rest) ++ skipn m rest.
Proof. cbn [app]. rewrite firstn_skipn. reflexivity. Qed.

Lemma fr_refines d x rest : refines (d ++ x :: rest) (fst (fr_step d (x :: rest)) ++ snd (fr_step d (x :: rest))).
Proof.
  destruct (plan x rest) as [[[m W] n]|] eqn:E.
  - rewrite (fr_seq d x rest m W n E). rewrite (fr_orig x rest m).
    destruct (plan_shape _ _ _ _ _ E) as (_ & K & _). apply window_refines. apply keeps_refines. exact K.
  - rewrite (fr_none d x rest E). cbn [fst snd]. rewrite <- app_assoc. apply refines_refl.
Qed.

Lemma fr_gp d x rest y : In y (fst (fr_step d (x :: rest)) ++ snd (fr_step d (x :: rest))) ->
  exists z, In z (d ++ x :: rest) /\ gp (ig y) = gp (ig z).
Proof.
  destruct (plan x rest) as [[[m W] n]|] eqn:E.
  - rewrite (fr_seq d x rest m W n E). destruct (plan_shape _ _ _ _ _ E) as (_ & K & _). intros H.
    apply in_app_or in H. destruct H as [H|H]; [exists y; split; [apply in_or_app; left; exact H|reflexivity]|].
    apply in_app_or in H. destruct H as [H|H].
    + destruct (keeps_in_r _ _ y (keeps_flag_window m_break W) H) as (u & Hu & (_ & _ & G1)).
      destruct (keeps_in_r _ _ u K Hu) as (z & Hz & (_ & _ & G2)).
      exists z. split; [|congruence]. apply in_or_app. right. rewrite (fr_orig x rest m). apply in_or_app. left. exact Hz.
    + exists y. split; [|reflexivity]. apply in_or_app. right. right. eapply in_skipn. exact H.
  - rewrite (fr_none d x rest E). cbn [fst snd]. rewrite <- app_assoc. intros H. exists y. auto.
Qed.

(* for either buffer direction *)
Theorem fr_step_ok_dir side srt (D : dir_ok side srt) : step_ok icl iutb side srt fr_pass.
Proof.
  constructor.
  - (* progress *) intros L R d t Hne. cbn [pstep fr_pass]. destruct t as [|x rest]; [contradiction|]. cbn [fr_step].
    destruct (plan x rest) as [[[m W] n]|] eqn:E; [|cbn; lia].
    destruct (plan_shape _ _ _ _ _ E) as (Hm & K & Hn). cbn [snd length].
    rewrite app_length, !skipn_length. unfold flag_window. rewrite flag_window_length.
    apply keeps_length in K. cbn [length] in K. rewrite firstn_length in K. lia.
  - (* invariant *) intros L R d t Hne HI. cbn [pstep fr_pass]. destruct t as [|x rest]; [contradiction|].
    eapply (d_same _ _ D); [|exact HI]. symmetry. apply refines_icls. apply fr_refines.
  - (* clusters *) intros L R d t y Hne HI Hy. cbn [pstep fr_pass] in Hy. destruct t as [|x rest]; [contradiction|].
    apply (refines_cls _ _ (fr_refines d x rest) y Hy).
  - (* persistence *) intros L R d t c Hne HI F. cbn [pstep fr_pass]. destruct t as [|x rest]; [contradiction|].
    apply (refines_fog c _ _ (fr_refines d x rest) F).
  - (* cut ahead *) intros L R R' d t1 t2 c Hne HI HI1 HC _. cbv zeta. cbn [pstep fr_pass].
    destruct t1 as [|x r1]; [contradiction|]. cbn [app].
    apply (cutv_spec icl side) in HC. destruct HC as [C1 C2].
    destruct (plan x (r1 ++ t2)) as [[[m W] n]|] eqn:E.
    + destruct (le_lt_dec m (length r1)) as [Hin|Hout].
      * (* the window lies before the cut: same step on the piece *)
        right. pose proof (plan_inside _ _ _ _ _ _ E Hin) as E1. cbn [fr_step]. rewrite E, E1. cbn [fst snd].
        f_equal. rewrite <- app_assoc. f_equal. rewrite skipn_app. f_equal.
        replace (m - length r1)%nat with O by lia. reflexivity.
      * (* the window straddles the cut: it is flagged *)
        left. rewrite (fr_seq d x (r1 ++ t2) m W n E).
        destruct (plan_shape _ _ _ _ _ E) as (Hm & K & Hn).
        apply (d_flagged _ _ D).
        -- eapply (d_same _ _ D); [|exact HI]. symmetry.
           transitivity (icls (d ++ (x :: firstn m (r1 ++ t2)) ++ skipn m (r1 ++ t2))).
           ++ apply refines_icls. apply refines_app; [apply refines_refl|]. apply refines_app; [|apply refines_refl].
              apply keeps_refines. exact K.
           ++ rewrite <- fr_orig. reflexivity.
        -- intros y Hy. apply C1. apply in_or_app. left. exact Hy.
        -- intros y Hy. apply C2. rewrite skipn_app in Hy. rewrite skipn_all2 in Hy by lia. eapply in_skipn. exact Hy.
        -- destruct (keeps_in_l _ _ x K (or_introl eq_refl)) as (x0 & Hx0 & (Ec & _)).
           exists x0. split; [exact Hx0|]. rewrite <- Ec. apply C1. apply in_or_app. right. left. reflexivity.
        -- set (z := nth (m - 1) (r1 ++ t2) i0).
           assert (Hz : In z (x :: firstn m (r1 ++ t2))) by (right; apply nth_in_firstn; lia).
           destruct (keeps_in_l _ _ z K Hz) as (z0 & Hz0 & (Ec & _)).
           exists z0. split; [exact Hz0|]. rewrite <- Ec. apply C2. unfold z.
           rewrite app_nth2 by lia. apply nth_In. rewrite app_length in Hm. lia.
    + right. pose proof (plan_none _ _ _ E) as E1. cbn [fr_step]. rewrite E, E1. reflexivity.
  - (* cut behind: the rule never looks back *)
    intros L L' R d1 d2 t c Hne HI HI2 HC _. cbv zeta. cbn [pstep fr_pass]. right.
    destruct t as [|x rest]; [contradiction|]. cbn [fr_step].
    destruct (plan x rest) as [[[m W] n]|]; cbn [fst snd]; rewrite app_assoc; reflexivity.
Qed.

Theorem fr_step_ok : step_ok icl iutb sideL sorted fr_pass.
Proof. exact (fr_step_ok_dir sideL sorted dirL). Qed.

(* the same under an invariant that adds a property of the glyphProps (no glyph carries the `multiplied` bit) *)
Theorem fr_step_ok_gp_dir side srt (D : dir_ok side srt) (Q : item -> Prop) : (forall a b, gp (ig a) = gp (ig b) -> Q b -> Q a) ->
  step_ok icl iutb side (fun l => srt l /\ Forall Q l) fr_pass.
Proof.
  intros HQ. apply (step_ok_strengthen icl iutb side srt (Forall Q) fr_pass (fr_step_ok_dir side srt D)).
  intros L R d t Hne _ HN. cbn [pstep fr_pass]. destruct t as [|x rest]; [contradiction|].
  apply Forall_forall. intros y Hy. destruct (fr_gp d x rest y Hy) as (z & Hz & E).
  rewrite Forall_forall in HN. apply (HQ y z E). apply HN. exact Hz.
Qed.

Theorem fr_step_ok_gp (Q : item -> Prop) : (forall a b, gp (ig a) = gp (ig b) -> Q b -> Q a) ->
  step_ok icl iutb sideL (fun l => sorted l /\ Forall Q l) fr_pass.
Proof. exact (fr_step_ok_gp_dir sideL sorted dirL Q). Qed.

End ForwardRule.
