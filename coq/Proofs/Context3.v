(* The GSUB contextual lookups of format 3 (chained or not, nested single substitutions) as window-local rules (C18): the
   pass meets the contract of Spec/LocalEngine.v on sorted buffers.  A rule that fires flags its whole window
   [backtrack start, lookahead end) (unsafeToBreakFromOutbuffer); a match that fails on the whole run fails on every piece,
   and a match that succeeds on the whole run either lies inside the piece (and is found there, with the same window) or
   reaches over the cut, which is then flagged. *)
From TV Require Import Model.Context3 Spec.LocalEngine Proofs.LocalEngine Proofs.EngineItem Proofs.KernMachine Proofs.MarkBase Proofs.GsubLig.

(* ---- the plan of a step: (k, n, e, ps) = glyphs of the out-buffer in the window, length of the input match, end of the
   window, matched input positions ---- *)
Definition cx_plan (P : cxparams) (d : list item) (x : item) (rest : list item) : option (nat * nat * nat * list nat) :=
  if negb (has_mask (cx_mask P) x && check_prop (cx_flag P) x) then None
  else match cx_in P with
       | [] => None
       | c0 :: cin =>
         if negb (in_cov c0 (igid x)) then None
         else match match_input (cx_match_in P) (idxs 1 (length cin)) rest O with
              | None => None
              | Some ps =>
                let n := S (span ps) in
                match match_input (cx_match_ctx P (cx_ahead P)) (idxs 0 (length (cx_ahead P))) (skipn n (x :: rest)) O with
                | None => None
                | Some pa =>
                  match match_input (cx_match_ctx P (cx_back P)) (idxs 0 (length (cx_back P))) (rev d) O with
                  | None => None
                  | Some pb => Some (span pb, n, (n + span pa)%nat, ps)
                  end
                end
              end
       end.

Definition cx_fire (P : cxparams) (d t : list item) (k n e : nat) (ps : list nat) : list item * list item :=
  let W := flag_window (skipn (length d - k) d ++ firstn e t) in
  let d' := firstn (length d - k) d ++ firstn k W in
  let t' := skipn k W ++ skipn e t in
  let t'' := apply_recs (O :: map S ps) (cx_recs P) t' in
  (d' ++ firstn n t'', skipn n t'').

Lemma cx_step_plan P d x rest :
  cx_step P d (x :: rest)
  = match cx_plan P d x rest with
    | None => (d ++ [x], rest)
    | Some (k, n, e, ps) => cx_fire P d (x :: rest) k n e ps
    end.
Proof.
  unfold cx_step, cx_plan. destruct (negb (has_mask _ x && _)); [reflexivity|].
  destruct (cx_in P) as [|c0 cin]; [reflexivity|]. destruct (negb (in_cov c0 (igid x))); [reflexivity|].
  destruct (match_input (cx_match_in P) _ rest O) as [ps|]; [|reflexivity].
  destruct (match_input (cx_match_ctx P (cx_ahead P)) _ _ O) as [pa|]; [|reflexivity].
  destruct (match_input (cx_match_ctx P (cx_back P)) _ _ O) as [pb|]; reflexivity.
Qed.

(* ---- matched positions ---- *)
Lemma span_bound m cs l ps : match_input m cs l O = Some ps -> (span ps <= length l)%nat /\ forall p, In p ps -> (p < span ps)%nat.
Proof.
  intros H. destruct (mi_bound m cs l O ps H) as [B _]. pose proof (mi_le_last m cs l O ps H) as Hle.
  unfold span. destruct ps as [|p0 ps']; [split; [lia|intros p []]|].
  assert (Hin : In (last (p0 :: ps') O) (p0 :: ps')) by (apply last_in_nat; discriminate).
  rewrite Forall_forall in B. specialize (B _ Hin). split; [lia|]. intros p Hp. specialize (Hle p Hp). lia.
Qed.

Lemma mi_split m cs l1 l2 :
  match match_input m cs (l1 ++ l2) O with
  | Some ps => match_input m cs l1 O = Some ps \/ (match_input m cs l1 O = None /\ (length l1 < span ps)%nat)
  | None => match_input m cs l1 O = None
  end.
Proof.
  destruct (match_input m cs (l1 ++ l2) O) as [ps|] eqn:E.
  - destruct (mi_app_inv m cs l1 l2 O ps E) as [E1|(E1 & p & Hp & Lp)]; [left; exact E1|right].
    split; [exact E1|]. destruct (span_bound m cs (l1 ++ l2) ps E) as [_ H]. specialize (H p Hp). lia.
  - destruct (match_input m cs l1 O) as [ps|] eqn:E1; [|reflexivity].
    rewrite (mi_app_some m cs l1 l2 O ps E1) in E. discriminate.
Qed.

Lemma plan_bounds P d x rest k n e ps : cx_plan P d x rest = Some (k, n, e, ps) ->
  (k <= length d)%nat /\ (1 <= n)%nat /\ (n <= e)%nat /\ (e <= length (x :: rest))%nat /\ n = S (span ps)
  /\ (forall p, In p (O :: map S ps) -> (p < n)%nat).
Proof.
  unfold cx_plan. destruct (negb (has_mask _ x && _)); [discriminate|].
  destruct (cx_in P) as [|c0 cin]; [discriminate|]. destruct (negb (in_cov c0 (igid x))); [discriminate|].
  destruct (match_input (cx_match_in P) _ rest O) as [ps0|] eqn:E1; [|discriminate].
  destruct (match_input (cx_match_ctx P (cx_ahead P)) _ _ O) as [pa|] eqn:E2; [|discriminate].
  destruct (match_input (cx_match_ctx P (cx_back P)) _ _ O) as [pb|] eqn:E3; [|discriminate].
  intros H. injection H as <- <- <- <-.
  destruct (span_bound _ _ _ _ E1) as [B1 H1]. destruct (span_bound _ _ _ _ E2) as [B2 _]. destruct (span_bound _ _ _ _ E3) as [B3 _].
  rewrite rev_length in B3. rewrite skipn_length in B2. cbn [length] in *.
  repeat split; try lia.
  intros p [<-|Hp]; [lia|]. apply in_map_iff in Hp. destruct Hp as (q & <- & Hq). specialize (H1 q Hq). lia.
Qed.

(* ---- the nested substitutions ---- *)
Lemma subst_single_same s x : icl (subst_single s x) = icl x /\ iutb (subst_single s x) = iutb x.
Proof. unfold subst_single. destruct (find _ s); split; reflexivity. Qed.

Lemma map_at_length f : forall p l, length (map_at f p l) = length l.
Proof. induction p as [|p IH]; intros [|x r]; cbn; auto. Qed.

Lemma map_at_refines s : forall p l, refines l (map_at (subst_single s) p l).
Proof.
  induction p as [|p IH]; intros [|x r]; cbn [map_at]; try apply refines_refl.
  - constructor; [|apply refines_refl]. destruct (subst_single_same s x) as [E U]. split; [symmetry; exact E|intros H; rewrite U; exact H].
  - constructor; [split; auto|apply IH].
Qed.

Lemma map_at_app f : forall p l m, (p < length l)%nat -> map_at f p (l ++ m) = map_at f p l ++ m.
Proof.
  induction p as [|p IH]; intros [|x r] m H; cbn in H; try lia; cbn [map_at app]; [reflexivity|].
  f_equal. apply IH. lia.
Qed.

Lemma apply_recs_length pos recs : forall t, length (apply_recs pos recs t) = length t.
Proof.
  unfold apply_recs. induction recs as [|r recs IH]; intros t; cbn [fold_left]; [reflexivity|].
  rewrite IH. destruct (fst r <? length pos)%nat; [apply map_at_length|reflexivity].
Qed.

Lemma apply_recs_refines pos recs : forall t, refines t (apply_recs pos recs t).
Proof.
  unfold apply_recs. induction recs as [|r recs IH]; intros t; cbn [fold_left]; [apply refines_refl|].
  eapply refines_trans; [|apply IH]. destruct (fst r <? length pos)%nat; [apply map_at_refines|apply refines_refl].
Qed.

Lemma apply_recs_app pos recs : forall l m, (forall p, In p pos -> (p < length l)%nat) ->
  apply_recs pos recs (l ++ m) = apply_recs pos recs l ++ m.
Proof.
  unfold apply_recs. induction recs as [|r recs IH]; intros l m H; cbn [fold_left]; [reflexivity|].
  destruct (fst r <? length pos)%nat eqn:E; [|apply IH; exact H].
  rewrite map_at_app by (apply H; apply nth_In; apply Nat.ltb_lt; exact E).
  apply IH. intros p Hp. rewrite map_at_length. apply H. exact Hp.
Qed.

(* ---- a firing step ---- *)
Lemma fire_seq P d t k n e ps : (k <= length d)%nat -> (n <= e)%nat -> (e <= length t)%nat ->
  let a := firstn (length d - k) d in
  let w := skipn (length d - k) d ++ firstn e t in
  let b := skipn e t in
  d ++ t = a ++ w ++ b
  /\ refines (a ++ flag_window w ++ b) (fst (cx_fire P d t k n e ps) ++ snd (cx_fire P d t k n e ps))
  /\ length (snd (cx_fire P d t k n e ps)) = (length t - n)%nat.
Proof.
  intros Hk Hn He a w b. split; [|split].
  - unfold a, w, b. rewrite <- app_assoc. rewrite (app_assoc (firstn _ d)), firstn_skipn. f_equal. symmetry. apply firstn_skipn.
  - unfold cx_fire. cbv zeta. fold a. fold w. fold b. cbn [fst snd].
    set (W := flag_window w). set (t' := skipn k W ++ b). set (t'' := apply_recs (O :: map S ps) (cx_recs P) t').
    rewrite <- !app_assoc. rewrite firstn_skipn.
    apply refines_app; [apply refines_refl|].
    rewrite <- (firstn_skipn k W) at 1. rewrite <- app_assoc. apply refines_app; [apply refines_refl|].
    apply apply_recs_refines.
  - unfold cx_fire. cbv zeta. cbn [snd]. rewrite skipn_length, apply_recs_length, app_length, !skipn_length.
    unfold flag_window. rewrite flag_window_length, app_length, skipn_length, firstn_length. lia.
Qed.

Lemma cx_pass_step P L R d t : pstep (cx_pass P) L R d t = cx_step P d t.
Proof. reflexivity. Qed.

Lemma cx_refines P d x rest :
  refines (d ++ x :: rest) (fst (cx_step P d (x :: rest)) ++ snd (cx_step P d (x :: rest))).
Proof.
  rewrite cx_step_plan. destruct (cx_plan P d x rest) as [[[[k n] e] ps]|] eqn:E.
  - destruct (plan_bounds P d x rest k n e ps E) as (Hk & Hn1 & Hn & He & _ & _).
    destruct (fire_seq P d (x :: rest) k n e ps Hk Hn He) as (E1 & R & _).
    rewrite E1. eapply refines_trans; [|exact R].
    apply refines_app; [apply refines_refl|]. apply refines_app; [apply flag_window_refines|apply refines_refl].
  - cbn [fst snd]. rewrite <- app_assoc. apply refines_refl.
Qed.

(* ---- locality of the plan ---- *)
Lemma plan_fwd P d x r1 t2 :
  match cx_plan P d x (r1 ++ t2) with
  | None => cx_plan P d x r1 = None
  | Some (k, n, e, ps) => (cx_plan P d x r1 = Some (k, n, e, ps) /\ (e <= length (x :: r1))%nat) \/ (length (x :: r1) < e)%nat
  end.
Proof.
  unfold cx_plan. destruct (negb (has_mask _ x && _)); [reflexivity|].
  destruct (cx_in P) as [|c0 cin]; [reflexivity|]. destruct (negb (in_cov c0 (igid x))); [reflexivity|].
  pose proof (mi_split (cx_match_in P) (idxs 1 (length cin)) r1 t2) as H1.
  destruct (match_input (cx_match_in P) _ (r1 ++ t2) O) as [ps|] eqn:E; [|rewrite H1; reflexivity].
  destruct H1 as [E1|[E1 L1]]; rewrite E1.
  - cbv zeta. destruct (span_bound _ _ _ _ E1) as [B1 _]. cbn [skipn].
    rewrite skipn_app. replace (span ps - length r1)%nat with O by lia. change (skipn 0 t2) with t2.
    pose proof (mi_split (cx_match_ctx P (cx_ahead P)) (idxs 0 (length (cx_ahead P))) (skipn (span ps) r1) t2) as H2.
    destruct (match_input (cx_match_ctx P (cx_ahead P)) _ (skipn (span ps) r1 ++ t2) O) as [pa|] eqn:E2'; [|rewrite H2; reflexivity].
    destruct H2 as [E2|[E2 L2]]; rewrite E2.
    + destruct (match_input (cx_match_ctx P (cx_back P)) _ (rev d) O) as [pb|]; [|reflexivity].
      left. split; [reflexivity|]. destruct (span_bound _ _ _ _ E2) as [B2 _]. rewrite skipn_length in B2. cbn [length]. lia.
    + destruct (match_input (cx_match_ctx P (cx_back P)) _ (rev d) O) as [pb|]; [|reflexivity].
      right. rewrite skipn_length in L2. cbn [length]. lia.
  - cbv zeta. destruct (match_input (cx_match_ctx P (cx_ahead P)) _ _ O) as [pa|]; [|reflexivity].
    destruct (match_input (cx_match_ctx P (cx_back P)) _ (rev d) O) as [pb|]; [|reflexivity].
    right. cbn [length]. lia.
Qed.

Lemma plan_bwd P d1 d2 x rest :
  match cx_plan P (d1 ++ d2) x rest with
  | None => cx_plan P d2 x rest = None
  | Some (k, n, e, ps) => (cx_plan P d2 x rest = Some (k, n, e, ps) /\ (k <= length d2)%nat) \/ (length d2 < k)%nat
  end.
Proof.
  unfold cx_plan. destruct (negb (has_mask _ x && _)); [reflexivity|].
  destruct (cx_in P) as [|c0 cin]; [reflexivity|]. destruct (negb (in_cov c0 (igid x))); [reflexivity|].
  destruct (match_input (cx_match_in P) _ rest O) as [ps|]; [|reflexivity]. cbv zeta.
  destruct (match_input (cx_match_ctx P (cx_ahead P)) _ _ O) as [pa|]; [|reflexivity].
  rewrite rev_app_distr.
  pose proof (mi_split (cx_match_ctx P (cx_back P)) (idxs 0 (length (cx_back P))) (rev d2) (rev d1)) as H.
  destruct (match_input (cx_match_ctx P (cx_back P)) _ (rev d2 ++ rev d1) O) as [pb|]; [|rewrite H; reflexivity].
  destruct H as [E|[E L]]; rewrite E.
  - left. split; [reflexivity|]. destruct (span_bound _ _ _ _ E) as [B _]. rewrite rev_length in B. exact B.
  - right. rewrite rev_length in L. exact L.
Qed.

Lemma fire_app P d t1 t2 k n e ps : (k <= length d)%nat -> (n <= e)%nat -> (e <= length t1)%nat ->
  (forall p, In p (O :: map S ps) -> (p < n)%nat) ->
  cx_fire P d (t1 ++ t2) k n e ps = (fst (cx_fire P d t1 k n e ps), snd (cx_fire P d t1 k n e ps) ++ t2).
Proof.
  intros Hk Hn He Hp. unfold cx_fire. cbv zeta. cbn [fst snd].
  assert (Ef : firstn e (t1 ++ t2) = firstn e t1).
  { rewrite firstn_app. replace (e - length t1)%nat with O by lia. cbn [firstn]. apply app_nil_r. }
  assert (Es : skipn e (t1 ++ t2) = skipn e t1 ++ t2).
  { rewrite skipn_app. replace (e - length t1)%nat with O by lia. reflexivity. }
  rewrite Ef, Es. set (W := flag_window (skipn (length d - k) d ++ firstn e t1)).
  assert (LW : length W = (k + e)%nat).
  { unfold W, flag_window. rewrite flag_window_length, app_length, skipn_length, firstn_length. lia. }
  rewrite app_assoc. set (l := skipn k W ++ skipn e t1).
  assert (Ll : length l = length t1) by (unfold l; rewrite app_length, !skipn_length; lia).
  rewrite apply_recs_app by (intros p Hp'; specialize (Hp p Hp'); lia).
  set (t'' := apply_recs (O :: map S ps) (cx_recs P) l).
  assert (Lt : length t'' = length t1) by (unfold t''; rewrite apply_recs_length; exact Ll).
  rewrite firstn_app, skipn_app. replace (n - length t'')%nat with O by lia. cbn [firstn skipn]. rewrite app_nil_r. reflexivity.
Qed.

Lemma fire_lift P d1 d2 t k n e ps : (k <= length d2)%nat ->
  cx_fire P (d1 ++ d2) t k n e ps = (d1 ++ fst (cx_fire P d2 t k n e ps), snd (cx_fire P d2 t k n e ps)).
Proof.
  intros Hk. unfold cx_fire. cbv zeta. cbn [fst snd].
  rewrite app_length. replace (length d1 + length d2 - k)%nat with (length d1 + (length d2 - k))%nat by lia.
  assert (Es : skipn (length d1 + (length d2 - k)) (d1 ++ d2) = skipn (length d2 - k) d2).
  { rewrite skipn_app. rewrite skipn_all2 by lia. cbn [app]. f_equal. lia. }
  assert (Ef : firstn (length d1 + (length d2 - k)) (d1 ++ d2) = d1 ++ firstn (length d2 - k) d2) by apply firstn_app_2.
  rewrite Es, Ef. rewrite <- !app_assoc. reflexivity.
Qed.

(* ---- the contract ---- *)
Theorem cx_step_ok P : step_ok icl iutb sideL sorted (cx_pass P).
Proof.
  constructor.
  - (* progress *) intros L R d t Hne. rewrite cx_pass_step. destruct t as [|x rest]; [contradiction|].
    rewrite cx_step_plan. destruct (cx_plan P d x rest) as [[[[k n] e] ps]|] eqn:E; [|cbn; lia].
    destruct (plan_bounds P d x rest k n e ps E) as (Hk & Hn1 & Hn & He & _ & _).
    destruct (fire_seq P d (x :: rest) k n e ps Hk Hn He) as (_ & _ & Ls). rewrite Ls. cbn [length]. lia.
  - (* invariant *) intros L R d t Hne HI. rewrite cx_pass_step. destruct t as [|x rest]; [contradiction|].
    eapply sorted_same; [|exact HI]. symmetry. apply refines_icls. apply cx_refines.
  - (* clusters *) intros L R d t y Hne HI Hy. rewrite cx_pass_step in Hy. destruct t as [|x rest]; [contradiction|].
    apply (refines_cls _ _ (cx_refines P d x rest) y Hy).
  - (* persistence *) intros L R d t c Hne HI F. rewrite cx_pass_step. destruct t as [|x rest]; [contradiction|].
    apply (refines_fog c _ _ (cx_refines P d x rest) F).
  - (* cut ahead *)
    intros L R R' d t1 t2 c Hne HI HI1 HC _. cbv zeta. rewrite !cx_pass_step.
    destruct t1 as [|x r1]; [contradiction|]. cbn [app].
    apply cutvL_spec in HC. destruct HC as [C1 C2].
    rewrite !cx_step_plan. pose proof (plan_fwd P d x r1 t2) as HP.
    destruct (cx_plan P d x (r1 ++ t2)) as [[[[k n] e] ps]|] eqn:E; [|rewrite HP; right; reflexivity].
    destruct (plan_bounds P d x (r1 ++ t2) k n e ps E) as (Hk & Hn1 & Hn & He & _ & Hpos).
    destruct HP as [[E1 He1]|Lt].
    + (* the window ends before the cut: same step on the piece *)
      right. rewrite E1. change (x :: r1 ++ t2) with ((x :: r1) ++ t2). apply fire_app; assumption.
    + (* the window reaches over the cut: it is flagged *)
      left. destruct (fire_seq P d (x :: r1 ++ t2) k n e ps Hk Hn He) as (E0 & Rf & _).
      eapply refines_fog; [exact Rf|].
      apply fog_flag_window.
      * rewrite <- E0. exact HI.
      * intros y Hy. apply C1. apply in_or_app. left. eapply in_firstn. exact Hy.
      * intros y Hy. apply C2. change (x :: r1 ++ t2) with ((x :: r1) ++ t2) in Hy. rewrite skipn_app in Hy.
        rewrite skipn_all2 in Hy by lia. eapply in_skipn. exact Hy.
      * exists x. split; [apply in_or_app; right; destruct e; [exfalso; lia|left; reflexivity]|].
        apply C1. apply in_or_app. right. left. reflexivity.
      * (* the first glyph beyond the cut lies in the window *)
        change (x :: r1 ++ t2) with ((x :: r1) ++ t2) in *. rewrite app_length in He.
        destruct t2 as [|z r2]; [cbn [length] in He, Lt; lia|].
        exists z. split; [|apply C2; left; reflexivity].
        apply in_or_app. right. rewrite firstn_app. apply in_or_app. right.
        destruct (e - length (x :: r1))%nat eqn:D; [exfalso; lia|left; reflexivity].
  - (* cut behind *)
    intros L L' R d1 d2 t c Hne HI HI2 HC _. cbv zeta. rewrite !cx_pass_step.
    destruct t as [|x rest]; [contradiction|].
    apply cutvL_spec in HC. destruct HC as [C1 C2].
    rewrite !cx_step_plan. pose proof (plan_bwd P d1 d2 x rest) as HP.
    destruct (cx_plan P (d1 ++ d2) x rest) as [[[[k n] e] ps]|] eqn:E;
      [|rewrite HP; right; cbn [fst snd]; rewrite app_assoc; reflexivity].
    destruct (plan_bounds P (d1 ++ d2) x rest k n e ps E) as (Hk & Hn1 & Hn & He & _ & Hpos).
    destruct HP as [[E2 Hk2]|Lt].
    + right. rewrite E2. apply fire_lift. exact Hk2.
    + left. destruct (fire_seq P (d1 ++ d2) (x :: rest) k n e ps Hk Hn He) as (E0 & Rf & _).
      eapply refines_fog; [exact Rf|].
      rewrite app_length in Hk.
      assert (Es : skipn (length (d1 ++ d2) - k) (d1 ++ d2) = skipn (length d1 + length d2 - k) d1 ++ d2).
      { rewrite app_length, skipn_app. f_equal. replace (length d1 + length d2 - k - length d1)%nat with O by lia. reflexivity. }
      assert (Ef : firstn (length (d1 ++ d2) - k) (d1 ++ d2) = firstn (length d1 + length d2 - k) d1).
      { rewrite app_length, firstn_app. replace (length d1 + length d2 - k - length d1)%nat with O by lia. cbn [firstn]. apply app_nil_r. }
      apply fog_flag_window.
      * rewrite <- E0. rewrite <- app_assoc. exact HI.
      * intros y Hy. apply C1. rewrite Ef in Hy. eapply in_firstn. exact Hy.
      * intros y Hy. apply C2. apply in_or_app. right. eapply in_skipn. exact Hy.
      * (* a glyph of d1 lies in the window *)
        rewrite Es. set (j := (length d1 + length d2 - k)%nat). assert (Hj : (j < length d1)%nat) by (unfold j; lia).
        exists (nth j d1 i0). split; [apply in_or_app; left; apply in_or_app; left; apply nth_in_skipn; exact Hj|].
        apply C1. apply nth_In. exact Hj.
      * exists x. split; [apply in_or_app; right; destruct e; [exfalso; lia|left; reflexivity]|]. apply C2. apply in_or_app. right. left. reflexivity.
Qed.

(* ---- the lookup loop of the model is the pass ---- *)
Lemma cx_loop_ploop P L R : forall f d t, cx_loop P f d t = ploop (cx_pass P) f L R d t.
Proof.
  induction f as [|f IH]; intros d t; [reflexivity|]. cbn [cx_loop ploop]. destruct t as [|x rest]; [reflexivity|].
  rewrite cx_pass_step. destruct (cx_step P d (x :: rest)) as [d' t']. cbn [fst snd]. apply IH.
Qed.

Theorem cx_lookup_is_pass P L R l : (cx_mask P =? 0) = false -> cx_lookup l P = prun (cx_pass P) L R l.
Proof.
  intros Hm. unfold cx_lookup, prun. rewrite Hm. cbn [orb]. destruct l as [|x r]; [reflexivity|]. apply cx_loop_ploop.
Qed.

Theorem cx_engine_cut_safe (Ps : list cxparams) : cut_safe icl iutb sideL sorted (map cx_pass Ps).
Proof.
  apply wf_engine_cut_safe. apply wf_engine_unit. apply Forall_forall. intros q Hq.
  apply in_map_iff in Hq. destruct Hq as (p & <- & _). apply cx_step_ok.
Qed.
