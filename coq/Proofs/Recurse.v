From TV Require Import Model.Recurse.

Section RecProofs.
  Variable body : Z -> Z -> Z -> list Z.

  Definition pot (st : rstate) : Z := Z.max 0 (ops st).

  (* what one call guarantees, for the state it starts from *)
  Definition good (st st' : rstate) : Prop :=
    nest st' = nest st /\ depth st' = depth st
    /\ maxdepth st' <= Z.max (maxdepth st) (depth st + nest st)
    /\ maxdepth st <= maxdepth st'
    /\ entries st <= entries st'
    /\ entries st' + pot st' <= entries st + pot st
    /\ ops st' <= ops st.

  Lemma good_refl st : 0 <= nest st -> good st st.
  Proof. unfold good. intros. repeat split; lia. Qed.

  Lemma good_trans a b c : good a b -> good b c -> good a c.
  Proof. unfold good. intros (A1&A2&A3&A4&A5&A6&A7) (B1&B2&B3&B4&B5&B6&B7). rewrite B1, B2, A1, A2 in *. repeat split; lia. Qed.

  Lemma apply_records_good (rec : rstate -> Z -> res (rstate * bool)) (N : Z) : 0 <= N ->
    (forall st lk, nest st = N -> exists st' r, rec st lk = Ok (st', r) /\ good st st') ->
    forall recs st, nest st = N -> exists st', apply_records rec recs st = Ok st' /\ good st st'.
  Proof.
    intros HN Hrec. induction recs as [|lk r IH]; intros st Hn; cbn [apply_records].
    - exists st. split; [reflexivity|apply good_refl; lia].
    - destruct (ops st <=? 0); [exists st; split; [reflexivity|apply good_refl; lia]|].
      destruct (Hrec st lk Hn) as (st1 & r1 & E & G). rewrite E. cbn [bind fst].
      assert (nest st1 = N) by (destruct G as (G1 & _); lia).
      destruct (IH st1 H) as (st2 & E2 & G2). exists st2. split; [exact E2|exact (good_trans _ _ _ G G2)].
  Qed.

  Lemma recurse_good : forall fuel st sub, 0 <= nest st -> (Z.to_nat (nest st) < fuel)%nat ->
    exists st' r, recurse body fuel st sub = Ok (st', r) /\ good st st'.
  Proof.
    induction fuel as [|f IH]; intros st sub Hn Hf; [lia|]. cbn [recurse].
    destruct (Z.eqb_spec (nest st) 0) as [E0|N0].
    - exists st, false. split; [reflexivity|apply good_refl; exact Hn].
    - destruct (Z.leb_spec (ops st) 0).
      + eexists; exists false. split; [reflexivity|]. unfold good, pot. cbn [nest ops entries depth maxdepth]. repeat split; lia.
      + set (st1 := mkR (nest st - 1) (ops st - 1) (entries st + 1) (depth st + 1) (Z.max (maxdepth st) (depth st + 1))).
        destruct (apply_records_good (recurse body f) (nest st - 1)) with (recs := body (nest st1) sub (ops st1)) (st := st1)
          as (st2 & E2 & G2); [lia| |reflexivity|].
        { intros s lk Hs. apply IH; lia. }
        rewrite E2. cbn [bind]. eexists; exists true. split; [reflexivity|].
        destruct G2 as (A1&A2&A3&A4&A5&A6&A7). subst st1. unfold good, pot in *. cbn [nest ops entries depth maxdepth] in *. repeat split; lia.
  Qed.

  (* a top-level call as made by applyLookup / the lookup driver: nestingLevelLeft = maxNestingLevel, depth 0 *)
  Lemma recursion_bounded_lemma : forall sub maxops,
    exists st' r, recurse body 7 (mkR max_nesting_level maxops 0 0 0) sub = Ok (st', r)
      /\ nest st' = max_nesting_level
      /\ maxdepth st' <= max_nesting_level
      /\ 0 <= entries st' <= Z.max 0 maxops
      /\ ops st' <= maxops.
  Proof.
    intros sub maxops.
    destruct (recurse_good 7 (mkR max_nesting_level maxops 0 0 0) sub) as (st' & r & E & G).
    - cbn. unfold max_nesting_level. lia.
    - cbn. unfold max_nesting_level. lia.
    - exists st', r. split; [exact E|]. destruct G as (A1&A2&A3&A4&A5&A6&A7).
      unfold pot, max_nesting_level in *. cbn [nest ops entries depth maxdepth] in *. repeat split; lia.
  Qed.

  (* more fuel never changes the result: the bound 7 = maxNestingLevel + 1 is enough for every body *)
  Lemma recurse_fuel_mono : forall fuel st sub, 0 <= nest st -> (Z.to_nat (nest st) < fuel)%nat ->
    forall k, recurse body (fuel + k) st sub = recurse body fuel st sub.
  Proof.
    induction fuel as [|f IH]; intros st sub Hn Hf k; [lia|]. cbn [recurse Nat.add].
    destruct (Z.eqb_spec (nest st) 0); [reflexivity|]. destruct (ops st <=? 0); [reflexivity|].
    set (st1 := mkR (nest st - 1) (ops st - 1) (entries st + 1) (depth st + 1) (Z.max (maxdepth st) (depth st + 1))).
    assert (A : forall recs s, nest s = nest st - 1 ->
               apply_records (recurse body (f + k)) recs s = apply_records (recurse body f) recs s).
    { induction recs as [|lk r IHr]; intros s Hs; cbn [apply_records]; [reflexivity|].
      destruct (ops s <=? 0); [reflexivity|]. rewrite IH by lia.
      destruct (recurse_good f s lk) as (s' & r' & E & G); [lia|lia|]. rewrite E. cbn [bind fst].
      apply IHr. destruct G as (G1 & _). lia. }
    rewrite A by reflexivity. reflexivity.
  Qed.
End RecProofs.
