(* C10: the point box of a glyph encloses every point of its decoded outline, implied midpoints included. *)
From TV Require Import Model.Outline Spec.Outline Proofs.Outline.
Open Scope Z_scope.

Lemma trace_concat l : trace (concat l) = concat (map trace l).
Proof. induction l as [|x l IH]; [reflexivity|]. cbn [concat map]. rewrite trace_app, IH. reflexivity. Qed.

Lemma trace_snoc segs d : segs <> [] -> exists t, trace segs = t ++ [(seg_end (last segs d), true)].
Proof.
  induction segs as [|x r IH]; intros N; [congruence|].
  destruct r as [|y r'].
  - destruct x as [p|p|c p]; cbn.
    + exists []. reflexivity.
    + exists []. reflexivity.
    + exists [(c, false)]. reflexivity.
  - destruct (IH ltac:(congruence)) as (t & E).
    exists (seg_trace x ++ t).
    change (trace (x :: y :: r')) with (seg_trace x ++ trace (y :: r')). rewrite E, <- app_assoc.
    reflexivity.
Qed.

(* every point visited by a closed path already occurs before the closing return *)
Lemma closed_trace_in out q : closed_contour out -> In q (trace out) -> In q (removelast (trace out)).
Proof.
  intros (s & segs & -> & N & _ & E) Hin.
  destruct (trace_snoc segs (MoveTo s) N) as (t & T). rewrite E in T.
  change (trace (MoveTo s :: segs)) with ((s, true) :: trace segs) in *. rewrite T in *.
  rewrite app_comm_cons, removelast_last.
  rewrite app_comm_cons in Hin. apply in_app_or in Hin as [H|[<-|[]]]; [assumption|left; reflexivity].
Qed.

Lemma rotation_in {A} (a b : list A) x : rotation a b -> In x b -> In x a.
Proof. intros (l1 & l2 & -> & ->) H. apply in_or_app. apply in_app_or in H as [H|H]; auto. Qed.

(* what expand produces: doubled input points, or midpoints of two input points *)
Definition from_points (ps : list pt) (q : pt) : Prop :=
  (exists p, In p ps /\ q = dbl_u p) \/ (exists p p', In p ps /\ In p' ps /\ q = mid_u p p').

Lemma expand_in prev l q : In q (expand prev l) -> from_points (fst prev :: map fst l) (fst q).
Proof.
  revert prev. induction l as [|x r IH]; intros prev H; [destruct H|].
  cbn [expand] in H. apply in_app_or in H as [H|[<-|H]].
  - destruct (negb (snd prev) && negb (snd x)); [|destruct H]. destruct H as [<-|[]].
    right. exists (fst prev), (fst x). cbn. auto.
  - left. exists (fst x). cbn. auto.
  - destruct (IH x H) as [(p & Hp & E)|(p & p' & Hp & Hp' & E)].
    + left. exists p. split; [|assumption]. cbn [map]. right. exact Hp.
    + right. exists p, p'. cbn [map]. repeat split; auto; right; assumption.
Qed.

Lemma last_in {A} (l : list A) d : l <> [] -> In (last l d) l.
Proof.
  induction l as [|x r IH]; intros N; [congruence|]. destruct r; [left; reflexivity|].
  right. apply IH. congruence.
Qed.

Lemma expand_cyclic_in c q : In q (expand_cyclic c) -> from_points (map fst c) (fst q).
Proof.
  unfold expand_cyclic. destruct c as [|p0 r]; [intros []|]. intros H.
  apply expand_in in H.
  assert (Hl : In (fst (last (p0 :: r) p0)) (map fst (p0 :: r))) by (apply in_map, last_in; congruence).
  destruct H as [(p & [<-|Hp] & E)|(p & p' & Hp & Hp' & E)].
  - left. eexists. split; [exact Hl|assumption].
  - left. exists p. auto.
  - right. exists p, p'. repeat split; auto.
    destruct Hp as [<-|Hp]; auto.
    destruct Hp' as [<-|Hp']; auto.
Qed.

Lemma mark_in c p : In p (map fst c) -> exists cp, In cp (mark c) /\ cp_x cp = fst p /\ cp_y cp = snd p.
Proof.
  induction c as [|q r IH]; intros H; [destruct H|].
  destruct r as [|q' r'].
  - destruct H as [<-|[]]. rewrite mark_single. eexists. split; [left; reflexivity|]. split; reflexivity.
  - rewrite mark_cons_cons. destruct H as [<-|H].
    + eexists. split; [left; reflexivity|]. split; reflexivity.
    + destruct (IH H) as (cp & Hin & E). exists cp. split; [right; assumption|assumption].
Qed.

Lemma in_box2_dbl e x y : in_box e x y -> in_box2 e (dbl_u (x, y)).
Proof. destruct e as [[[xb yb] w] h]. unfold in_box, in_box2, dbl_u. cbn [fst snd]. lia. Qed.
Lemma in_box2_mid e x y x' y' : in_box e x y -> in_box e x' y' -> in_box2 e (mid_u (x, y) (x', y')).
Proof. destruct e as [[[xb yb] w] h]. unfold in_box, in_box2, mid_u. cbn [fst snd]. lia. Qed.

Lemma extents_enclose_outline_lemma cs : Forall (fun c => good_contour c = true) cs ->
  forall q, In q (trace (build_segments (concat (map mark cs)))) ->
  in_box2 (extents_from_points (concat (map mark cs))) (fst q).
Proof.
  intros G q Hq. rewrite build_segments_contours in Hq by assumption.
  rewrite trace_concat, map_map in Hq. apply in_concat in Hq as (tr & Htr & Hq).
  apply in_map_iff in Htr as (c & <- & Hc).
  rewrite Forall_forall in G. pose proof (contour_fn_spec c (G c Hc)) as [Cl Rot].
  apply (closed_trace_in _ _ Cl) in Hq. apply (rotation_in _ _ _ Rot) in Hq.
  apply expand_cyclic_in in Hq.
  assert (P : forall p, In p (map fst c) -> in_box (extents_from_points (concat (map mark cs))) (fst p) (snd p)).
  { intros p Hp. destruct (mark_in c p Hp) as (cp & Hin & <- & <-).
    apply extents_enclose_lemma. apply in_concat. exists (mark c). split; [apply in_map; assumption|assumption]. }
  destruct Hq as [(p & Hp & ->)|(p & p' & Hp & Hp' & ->)].
  - destruct p as [x y]. apply in_box2_dbl. apply (P (x, y) Hp).
  - destruct p as [x y], p' as [x' y']. apply in_box2_mid; [apply (P (x, y) Hp)|apply (P (x', y') Hp')].
Qed.
