(* C08 corollaries: computeBidiOrdering keeps the directions, so ordering an already ordered line changes nothing
   (idempotence); the visual indices are pairwise distinct. *)
From TV Require Import Model.BidiOrder Spec.L2 Proofs.BidiOrder.
From Coq Require Import Permutation.
Open Scope Z_scope.

Lemma cbo_keeps_dirs pdir line : map r_dir (compute_bidi_ordering pdir line) = map r_dir line.
Proof.
  unfold compute_bidi_ordering. generalize (cbo pdir (map r_dir line) (map r_vis line)).
  induction line as [|r line IH]; intros [|x v]; cbn; try reflexivity. f_equal. apply IH.
Qed.

Lemma cbo_idempotent_vis pdir line :
  map r_vis (compute_bidi_ordering pdir (compute_bidi_ordering pdir line)) = map r_vis (compute_bidi_ordering pdir line).
Proof. apply cbo_vis_dirs. apply cbo_keeps_dirs. Qed.

Lemma ziota_nodup n : NoDup (ziota n).
Proof.
  unfold ziota. apply FinFun.Injective_map_NoDup; [|apply seq_NoDup].
  intros a b H. apply Nat2Z.inj. exact H.
Qed.

Lemma cbo_vis_nodup pdir line : NoDup (map r_vis (compute_bidi_ordering pdir line)).
Proof.
  apply (Permutation_NoDup (l := ziota (length line))); [|apply ziota_nodup].
  apply Permutation_sym. apply permutation_lemma.
Qed.
