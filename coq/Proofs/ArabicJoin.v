(* Arabic joining as a window-local pass (C18): arab_pass (Model/ArabicJoin.v) meets the contract of Spec/LocalEngine.v
   on sorted buffers, reading the text on its left through psumL = the joining type of the last letter and the text on
   its right through psumR = the joining type of the first letter.

   The point of so_bwd: the state of the machine at the cursor is a function of ALL the text on the left, while a piece
   that starts at a cut only sees the last letter of its pre-context (and takes it from state 0).  The two states may
   differ (3 against 2, 4 or 5 against 1), but only in the prevAction column — the action of a glyph on the other side
   of the cut, whose window was flagged when it was given: currAction and nextState agree (state_sim, by exhaustion of
   arabicStateTable). *)
From TV Require Import Model.ArabicJoin Spec.LocalEngine Proofs.LocalEngine Proofs.EngineItem Proofs.KernMachine.

(* ---------------- joining types are never changed ---------------- *)
Definition jts (l : list item) : list nat := map jt l.

Lemma first_jt_jts : forall l l', jts l = jts l' -> first_jt l = first_jt l'.
Proof.
  induction l as [|x l IH]; intros [|y l'] H; try discriminate; [reflexivity|].
  cbn in H. injection H as E H. cbn [first_jt]. unfold is_T. rewrite E. rewrite (IH l' H). reflexivity.
Qed.

Lemma last_jt_jts l l' : jts l = jts l' -> last_jt l = last_jt l'.
Proof. intros H. unfold last_jt. apply first_jt_jts. unfold jts in *. rewrite !map_rev, H. reflexivity. Qed.

Lemma jts_app a b : jts (a ++ b) = jts a ++ jts b.
Proof. apply map_app. Qed.

Lemma jt_set_act a x : jt (set_act a x) = jt x.
Proof. reflexivity. Qed.
Lemma jt_flag_item m x : jt (flag_item m x) = jt x.
Proof. reflexivity. Qed.

Lemma jts_flag_window m w : jts (flag_window_m m w) = jts w.
Proof.
  unfold flag_window_m. destruct w as [|a [|b r]]; try reflexivity. unfold jts. rewrite map_map.
  apply map_ext. intros x. destruct (icl x =? _); reflexivity.
Qed.

Lemma first_jt_app a b : first_jt (a ++ b) = match first_jt a with Some t => Some t | None => first_jt b end.
Proof. induction a as [|x a IH]; [reflexivity|]. cbn. destruct (is_T x); [exact IH|reflexivity]. Qed.

Lemma last_jt_snoc l g : last_jt (l ++ [g]) = if is_T g then last_jt l else Some (jt g).
Proof. unfold last_jt. rewrite rev_unit. reflexivity. Qed.

(* ---------------- the window ---------------- *)
Lemma upto_letter_le l : (upto_letter l <= length l)%nat.
Proof. induction l as [|y r IH]; cbn; [lia|]. destruct (is_T y); lia. Qed.

Lemma upto_letter_app a b :
  upto_letter (a ++ b) = match first_jt a with Some _ => upto_letter a | None => (length a + upto_letter b)%nat end.
Proof. induction a as [|y a IH]; [reflexivity|]. cbn. destruct (is_T y); [|reflexivity]. rewrite IH. destruct (first_jt a); reflexivity. Qed.

Lemma upto_letter_none a : first_jt a = None -> upto_letter a = length a.
Proof. induction a as [|y a IH]; [reflexivity|]. cbn. destruct (is_T y); [|discriminate]. intros H. rewrite IH by exact H. reflexivity. Qed.

Lemma upto_letter_pos y r : (1 <= upto_letter (y :: r))%nat.
Proof. cbn. destruct (is_T y); lia. Qed.

(* ---------------- shape of a step ---------------- *)
Definition arab_win (pa : Z) (x : item) (rest : list item) : list item :=
  flag_window (set_act pa x :: firstn (upto_letter rest) rest).

(* what the step decides at x: None = x only gets an action a; Some pa = x gets pa and the window is flagged *)
Definition arab_plan (s : nat) (x : item) (o : option nat) : Z + Z :=
  if is_T x then inl aNone
  else
    let e := a_entry s (jt x) in
    match o with
    | None => inl (e_curr e)
    | Some ty' => let pa := e_prev (a_entry (e_next e) ty') in if pa =? aNone then inl (e_curr e) else inr pa
    end.

Lemma arab_step_plan L R d x rest :
  arab_step L R d (x :: rest) =
  match arab_plan (st_at L d) x (first_jt (rest ++ R)) with
  | inl a => (d ++ [set_act a x], rest)
  | inr pa => (d ++ [hd i0 (arab_win pa x rest)], tl (arab_win pa x rest) ++ skipn (upto_letter rest) rest)
  end.
Proof.
  unfold arab_step, arab_plan, arab_win. destruct (is_T x); [reflexivity|].
  destruct (first_jt (rest ++ R)) as [ty'|]; [|reflexivity].
  destruct (_ =? aNone); reflexivity.
Qed.

Lemma arab_win_ne pa x rest : arab_win pa x rest <> [].
Proof.
  unfold arab_win. intros H. apply (f_equal (@length item)) in H. unfold flag_window in H. rewrite flag_window_length in H. cbn in H. lia.
Qed.

Lemma arab_win_seq pa x rest d :
  (d ++ [hd i0 (arab_win pa x rest)]) ++ tl (arab_win pa x rest) ++ skipn (upto_letter rest) rest
  = d ++ arab_win pa x rest ++ skipn (upto_letter rest) rest.
Proof. rewrite <- app_assoc. f_equal. rewrite app_assoc. f_equal. apply hd_tl_window. apply arab_win_ne. Qed.

Lemma set_act_same a x : icl (set_act a x) = icl x /\ (iutb x = true -> iutb (set_act a x) = true).
Proof. split; [reflexivity|auto]. Qed.

Lemma arab_step_refines L R d x rest :
  refines (d ++ x :: rest) (fst (arab_step L R d (x :: rest)) ++ snd (arab_step L R d (x :: rest))).
Proof.
  rewrite arab_step_plan. destruct (arab_plan _ _ _) as [a|pa]; cbn [fst snd].
  - rewrite <- app_assoc. apply refines_app; [apply refines_refl|]. cbn [app].
    constructor; [|apply refines_refl]. destruct (set_act_same a x) as [E U]. split; [symmetry; exact E|exact U].
  - rewrite arab_win_seq. unfold arab_win.
    rewrite <- (firstn_skipn (upto_letter rest) rest) at 1.
    change (x :: firstn (upto_letter rest) rest ++ skipn (upto_letter rest) rest)
      with ((x :: firstn (upto_letter rest) rest) ++ skipn (upto_letter rest) rest).
    apply window_refines. constructor; [|apply refines_refl].
    destruct (set_act_same pa x) as [E U]. split; [symmetry; exact E|exact U].
Qed.

Lemma arab_step_jts L R d x rest :
  jts (fst (arab_step L R d (x :: rest)) ++ snd (arab_step L R d (x :: rest))) = jts (d ++ x :: rest).
Proof.
  rewrite arab_step_plan. destruct (arab_plan _ _ _) as [a|pa]; cbn [fst snd].
  - rewrite <- app_assoc, !jts_app. reflexivity.
  - rewrite arab_win_seq. unfold arab_win, flag_window. rewrite !jts_app, jts_flag_window. f_equal.
    unfold jts. cbn [map app]. rewrite jt_set_act. f_equal. rewrite <- map_app, firstn_skipn. reflexivity.
Qed.

(* ---------------- the state table ---------------- *)
(* two states that assign the same action to the current letter and lead to the same state *)
Definition st_sim (s s' : nat) : Prop :=
  forall ty, e_curr (a_entry s ty) = e_curr (a_entry s' ty) /\ e_next (a_entry s ty) = e_next (a_entry s' ty).

Lemma st_sim_refl s : st_sim s s.
Proof. intros ty. split; reflexivity. Qed.

Ltac nat8 n := destruct n as [|[|[|[|[|[|[|[|n]]]]]]]].

(* the state reached through a letter and the state a piece computes from that letter alone (taken from state 0) *)
Lemma state_sim_table s ty : (s <= 6)%nat -> st_sim (e_next (a_entry s ty)) (e_next (a_entry O ty)).
Proof. intros Hs. nat8 s; [| | | | | | |lia|lia]; nat8 ty; intros ty0; nat8 ty0; split; reflexivity. Qed.

(* the states are those of the table *)
Lemma next_le s ty : (e_next (a_entry s ty) <= 6)%nat.
Proof. nat8 s; nat8 ty; cbn; lia. Qed.
Lemma st_init_le L : (st_init L <= 6)%nat.
Proof. unfold st_init. destruct (last_jt L); [apply next_le|lia]. Qed.
Lemma st_step_le s x : (s <= 6)%nat -> (st_step s x <= 6)%nat.
Proof. intros H. unfold st_step. destruct (is_T x); [exact H|apply next_le]. Qed.
Lemma st_at_le L d : (st_at L d <= 6)%nat.
Proof.
  unfold st_at. generalize (st_init_le L). generalize (st_init L). induction d as [|x d IH]; intros s H; [exact H|].
  cbn. apply IH. apply st_step_le. exact H.
Qed.

Lemma st_step_sim s s' x : st_sim s s' -> st_sim (st_step s x) (st_step s' x).
Proof.
  intros H. unfold st_step. destruct (is_T x); [exact H|]. destruct (H (jt x)) as [_ E]. rewrite E. apply st_sim_refl.
Qed.

Lemma fold_sim d : forall s s', st_sim s s' -> st_sim (fold_left st_step d s) (fold_left st_step d s').
Proof. induction d as [|x d IH]; intros s s' H; [exact H|]. cbn. apply IH. apply st_step_sim. exact H. Qed.

(* the state after L ++ d, and what a piece starting there computes from its pre-context L ++ d *)
Lemma state_sim L d : st_sim (st_at L d) (st_init (L ++ d)).
Proof.
  induction d as [|g d IH] using rev_ind.
  - rewrite app_nil_r. apply st_sim_refl.
  - unfold st_at. rewrite fold_left_app. cbn [fold_left]. fold (st_at L d).
    unfold st_init at 1. rewrite app_assoc, last_jt_snoc. unfold st_step.
    destruct (is_T g); [exact IH|]. apply state_sim_table. apply st_at_le.
Qed.

Lemma st_init_ext A B : last_jt A = last_jt B -> st_init A = st_init B.
Proof. unfold st_init. intros ->. reflexivity. Qed.

Lemma cut_state_sim L L' d1 d2 : last_jt (L ++ L') = last_jt (L ++ d1) -> st_sim (st_at L (d1 ++ d2)) (st_at (L ++ L') d2).
Proof.
  intros H. unfold st_at at 1. rewrite fold_left_app. fold (st_at L d1). unfold st_at at 2.
  apply fold_sim. rewrite (st_init_ext _ _ H). apply state_sim.
Qed.

Lemma arab_plan_sim s s' x o : st_sim s s' -> arab_plan s x o = arab_plan s' x o.
Proof.
  intros H. unfold arab_plan. destruct (is_T x); [reflexivity|]. destruct (H (jt x)) as [E1 E2]. rewrite E1, E2. reflexivity.
Qed.

(* ---------------- the contract ---------------- *)
Theorem arab_step_ok : step_ok icl iutb sideL sorted arab_pass.
Proof.
  constructor.
  - intros L R d t Hne. destruct t as [|x rest]; [contradiction|]. cbn [pstep arab_pass].
    rewrite arab_step_plan. destruct (arab_plan _ _ _) as [a|pa]; cbn [snd length]; [lia|].
    rewrite app_length, skipn_length.
    assert (length (arab_win pa x rest) = S (upto_letter rest)).
    { unfold arab_win, flag_window. rewrite flag_window_length. cbn [length]. rewrite firstn_length.
      pose proof (upto_letter_le rest). lia. }
    pose proof (upto_letter_le rest). pose proof (arab_win_ne pa x rest).
    destruct (arab_win pa x rest); [contradiction|]. cbn [tl length] in *. lia.
  - intros L R d t Hne HI. destruct t as [|x rest]; [contradiction|].
    eapply sorted_same; [|exact HI]. symmetry. apply refines_icls. apply arab_step_refines.
  - intros L R d t y Hne HI Hy. destruct t as [|x rest]; [contradiction|].
    apply (refines_cls _ _ (arab_step_refines L R d x rest) y Hy).
  - intros L R d t c Hne HI F. destruct t as [|x rest]; [contradiction|].
    apply (refines_fog c _ _ (arab_step_refines L R d x rest) F).
  - (* cut ahead of the cursor *)
    intros L R R' d t1 t2 c Hne HI HI1 HC HS. cbv zeta. cbn [pstep psumR arab_pass] in *.
    destruct t1 as [|x r1]; [contradiction|]. apply cutvL_spec in HC. destruct HC as [C1 C2].
    change ((x :: r1) ++ t2) with (x :: (r1 ++ t2)). rewrite !arab_step_plan.
    (* the next letter is the same for the whole run and for the piece *)
    assert (EO : first_jt ((r1 ++ t2) ++ R) = first_jt (r1 ++ R' ++ R)).
    { rewrite <- app_assoc, !first_jt_app. rewrite first_jt_app in HS. rewrite first_jt_app in HS.
      destruct (first_jt r1); [reflexivity|]. symmetry. exact HS. }
    rewrite <- EO. destruct (arab_plan _ _ _) as [a|pa] eqn:EP; cbn [fst snd]; [right; reflexivity|].
    destruct (first_jt r1) as [ty1|] eqn:E1.
    + (* the window ends before the cut *)
      right. unfold arab_win. rewrite upto_letter_app, E1.
      pose proof (upto_letter_le r1) as Hle.
      rewrite firstn_app, skipn_app.
      replace (upto_letter r1 - length r1)%nat with O by lia. cbn [firstn skipn]. rewrite app_nil_r, app_assoc. reflexivity.
    + (* the window runs into t2 *)
      destruct t2 as [|z t2'].
      * right. rewrite !app_nil_r. reflexivity.
      * left. rewrite arab_win_seq. unfold arab_win.
        set (k := upto_letter (r1 ++ z :: t2')).
        assert (Hk : (length r1 < k)%nat).
        { unfold k. rewrite upto_letter_app, E1. pose proof (upto_letter_pos z t2'). lia. }
        apply fog_flag_window.
        -- eapply sorted_same; [|exact HI]. unfold icls. cbn [app]. rewrite firstn_skipn, !map_app. reflexivity.
        -- intros u Hu. apply C1. apply in_or_app. left. exact Hu.
        -- intros u Hu. apply C2. eapply in_skipn with (n := (k - length r1)%nat).
           rewrite skipn_app in Hu. replace (skipn k r1) with (@nil item) in Hu by (symmetry; apply skipn_all2; lia). exact Hu.
        -- exists (set_act pa x). split; [left; reflexivity|]. apply (C1 x). apply in_or_app. right. left. reflexivity.
        -- exists z. split; [|apply C2; left; reflexivity]. right.
           rewrite firstn_app. apply in_or_app. right.
           destruct (k - length r1)%nat as [|j] eqn:Ej; [lia|]. left. reflexivity.
  - (* cut behind the cursor: the step does not touch what it has passed, and the two states assign the same action *)
    intros L L' R d1 d2 t c Hne HI HI2 HC HS. cbv zeta. cbn [pstep psumL arab_pass] in *. right.
    destruct t as [|x rest]; [contradiction|]. rewrite !arab_step_plan.
    rewrite (arab_plan_sim _ _ x (first_jt (rest ++ R)) (cut_state_sim L L' d1 d2 HS)).
    destruct (arab_plan _ _ _) as [a|pa]; cbn [fst snd]; rewrite app_assoc; reflexivity.
Qed.

(* the pass does not change what it sees of a neighbouring piece: joining types are never rewritten *)
Theorem arab_stable : stable sorted arab_pass arab_pass.
Proof.
  intros L R d t Hne HI. destruct t as [|x rest]; [contradiction|]. cbn [psumR psumL arab_pass pstep].
  pose proof (arab_step_jts L R d x rest) as J. split; intros X.
  - apply first_jt_jts. rewrite (jts_app (fst _ ++ snd _) X), (jts_app (d ++ x :: rest) X), J. reflexivity.
  - apply last_jt_jts. rewrite (jts_app X (fst _ ++ snd _)), (jts_app X (d ++ x :: rest)), J. reflexivity.
Qed.

Theorem arab_engine_wf : wf_engine icl iutb sideL sorted [arab_pass].
Proof. cbn. split; [exact arab_step_ok|]. split; [constructor; [exact arab_stable|constructor]|exact I]. Qed.

Theorem arab_cut_safe : cut_safe icl iutb sideL sorted [arab_pass].
Proof. apply wf_engine_cut_safe. exact arab_engine_wf. Qed.

Theorem arab_meets_contract : step_ok icl iutb sideL sorted arab_pass /\ stable sorted arab_pass arab_pass.
Proof. split; [exact arab_step_ok|exact arab_stable]. Qed.

(* the state the whole run is in at a cut and the state the piece behind the cut starts in agree on currAction / nextState *)
Theorem arab_state_at_cut : forall L d ty,
  e_curr (a_entry (st_at L d) ty) = e_curr (a_entry (st_init (L ++ d)) ty)
  /\ e_next (a_entry (st_at L d) ty) = e_next (a_entry (st_init (L ++ d)) ty).
Proof. intros L d ty. apply state_sim. Qed.

(* ---------------- the loop as written IS the pass ---------------- *)
(* the window flagging is a pointwise map *)
Definition fwm (m : fl) (c : Z) (x : item) : item := if icl x =? c then x else flag_item m x.

Lemma flag_window_map m w : flag_window_m m w = map (fwm m (lminz (icls w))) w.
Proof.
  destruct w as [|a [|b r]]; [reflexivity| |reflexivity].
  cbn. unfold fwm. rewrite Z.eqb_refl. reflexivity.
Qed.

Lemma fwm_set_act m c a x : fwm m c (set_act a x) = set_act a (fwm m c x).
Proof. unfold fwm. change (icl (set_act a x)) with (icl x). destruct (icl x =? c); reflexivity. Qed.
Lemma jt_fwm m c x : jt (fwm m c x) = jt x.
Proof. unfold fwm. destruct (icl x =? c); reflexivity. Qed.
Lemma icl_fwm m c x : icl (fwm m c x) = icl x.
Proof. unfold fwm. destruct (icl x =? c); reflexivity. Qed.
Lemma set_act_twice a b x : set_act a (set_act b x) = set_act a x.
Proof. reflexivity. Qed.

(* index arithmetic of win *)
Lemma win_app f a w b e : e = (length a + length w)%nat -> win f (length a) e (a ++ w ++ b) = a ++ f w ++ b.
Proof.
  intros ->. unfold win.
  rewrite firstn_app, firstn_all, Nat.sub_diag. cbn [firstn]. rewrite app_nil_r.
  rewrite skipn_app, skipn_all, Nat.sub_diag. cbn [skipn app].
  replace (length a + length w - length a)%nat with (length w) by lia.
  rewrite firstn_app, firstn_all, Nat.sub_diag. cbn [firstn]. rewrite app_nil_r.
  rewrite (app_assoc a w b), skipn_app, app_length. rewrite skipn_all2 by (rewrite app_length; lia).
  replace (length a + length w - (length a + length w))%nat with O by lia. reflexivity.
Qed.

Lemma set_act_at_app d x t a i : i = length d -> set_act_at i a (d ++ x :: t) = d ++ set_act a x :: t.
Proof.
  intros ->. unfold set_act_at. change (x :: t) with ([x] ++ t). rewrite win_app by (cbn; lia). reflexivity.
Qed.

Lemma nth_mid (d : list item) x t i : i = length d -> nth i (d ++ x :: t) i0 = x.
Proof. intros ->. rewrite app_nth2 by lia. rewrite Nat.sub_diag. reflexivity. Qed.

(* the state only depends on joining types *)
Lemma st_at_jts L d d' : jts d = jts d' -> st_at L d = st_at L d'.
Proof.
  unfold st_at. generalize (st_init L). revert d'. induction d as [|x d IH]; intros [|y d'] s H; try discriminate; [reflexivity|].
  cbn in H. injection H as E H. cbn [fold_left]. unfold st_step at 2 4. unfold is_T. rewrite E. apply IH. exact H.
Qed.

Lemma st_at_snoc L d x : st_at L (d ++ [x]) = st_step (st_at L d) x.
Proof. unfold st_at. rewrite fold_left_app. reflexivity. Qed.

Lemma jts_map_fwm m c l : jts (map (fwm m c) l) = jts l.
Proof. unfold jts. rewrite map_map. apply map_ext. intros x. apply jt_fwm. Qed.
Lemma icls_map_fwm m c l : icls (map (fwm m c) l) = icls l.
Proof. unfold icls. rewrite map_map. apply map_ext. intros x. apply icl_fwm. Qed.

(* one iteration of the loop, both options off *)
Definition iter0 := code_iter false false.

Lemma iter0_T l prev s rec i x : nth i l i0 = x -> is_T x = true ->
  iter0 (l, prev, s, rec) i = (set_act_at i aNone l, prev, s, rec).
Proof. intros <- H. unfold iter0, code_iter. rewrite H. reflexivity. Qed.

Lemma iter0_letter l prev s rec i x : nth i l i0 = x -> is_T x = false ->
  let e := a_entry s (jt x) in
  fst (fst (fst (iter0 (l, prev, s, rec) i))) =
    set_act_at i (e_curr e)
      (match prev with
       | Some p => if e_prev e =? aNone then l else win flag_window p (S i) (set_act_at p (e_prev e) l)
       | None => l
       end)
  /\ snd (fst (fst (iter0 (l, prev, s, rec) i))) = Some i
  /\ snd (fst (iter0 (l, prev, s, rec) i)) = e_next e.
Proof.
  intros <- H. cbv zeta. unfold iter0, code_iter. rewrite H. rewrite !andb_false_r.
  destruct prev as [p|]; [|repeat split; reflexivity].
  destruct (e_prev _ =? aNone); repeat split; reflexivity.
Qed.

(* ---- what is pending for the previous letter ---- *)
(* the loop has given the previous letter y (followed by the transparent glyphs m) its currAction; the pass, which looked
   ahead when it was at y, has in addition given it the prevAction the next letter will ask for and flagged the window *)
Definition pend_pa (s : nat) (tc R : list item) : option Z :=
  match first_jt (tc ++ R) with
  | None => None
  | Some ty' => let pa := e_prev (a_entry s ty') in if pa =? aNone then None else Some pa
  end.
Definition pend_g (y : item) (m tc : list item) : item -> item :=
  fwm m_break (lminz (icls (y :: m ++ firstn (upto_letter tc) tc))).
Definition pend_d (s : nat) (a : list item) (y : item) (m tc R : list item) : list item :=
  match pend_pa s tc R with
  | None => a ++ y :: m
  | Some pa => a ++ map (pend_g y m tc) (set_act pa y :: m)
  end.
Definition pend_t (s : nat) (y : item) (m tc R : list item) : list item :=
  match pend_pa s tc R with
  | None => tc
  | Some pa => map (pend_g y m tc) (firstn (upto_letter tc) tc) ++ skipn (upto_letter tc) tc
  end.

Lemma pend_d_length s a y m tc R : length (pend_d s a y m tc R) = (length a + S (length m))%nat.
Proof. unfold pend_d. destruct (pend_pa s tc R); rewrite app_length; cbn [length map]; rewrite ?map_length; reflexivity. Qed.

Lemma pend_d_jts s a y m tc R : jts (pend_d s a y m tc R) = jts (a ++ y :: m).
Proof.
  unfold pend_d. destruct (pend_pa s tc R); [|reflexivity]. unfold pend_g. rewrite !jts_app, jts_map_fwm. reflexivity.
Qed.

(* the pass at a letter z leaves exactly the pending form *)
Lemma pass_letter_step L R d z tc : is_T z = false ->
  let e := a_entry (st_at L d) (jt z) in
  arab_step L R d (z :: tc)
  = (pend_d (e_next e) d (set_act (e_curr e) z) [] tc R, pend_t (e_next e) (set_act (e_curr e) z) [] tc R).
Proof.
  intros HT. cbv zeta. rewrite arab_step_plan. unfold arab_plan, pend_d, pend_t, pend_pa. rewrite HT.
  destruct (first_jt (tc ++ R)) as [ty'|]; [|reflexivity].
  destruct (_ =? aNone); [reflexivity|].
  unfold arab_win, flag_window. rewrite flag_window_map. cbn [map hd tl app]. reflexivity.
Qed.

Lemma pass_T_step L R d z tc : is_T z = true -> arab_step L R d (z :: tc) = (d ++ [set_act aNone z], tc).
Proof. intros HT. unfold arab_step. rewrite HT. reflexivity. Qed.

Lemma fold_seq_S {T} (f : T -> nat -> T) st i n : fold_left f (seq i (S n)) st = fold_left f (seq (S i) n) (f st i).
Proof. reflexivity. Qed.

Lemma ploop_S L R n d x t :
  ploop arab_pass (S n) L R d (x :: t) = ploop arab_pass n L R (fst (arab_step L R d (x :: t))) (snd (arab_step L R d (x :: t))).
Proof. reflexivity. Qed.

Definition post0 := code_post false false.

(* the loop with a previous letter *)
Lemma code_some L R : forall tc a y m s rec,
  s = st_at L (a ++ y :: m) ->
  fst (post0 R (fold_left iter0 (seq (length a + S (length m)) (length tc)) (a ++ y :: m ++ tc, Some (length a), s, rec)))
  = ploop arab_pass (length tc) L R (pend_d s a y m tc R) (pend_t s y m tc R).
Proof.
  induction tc as [|x tc IH]; intros a y m s rec Hs.
  - (* the post-context loop *)
    cbn [length seq fold_left ploop]. unfold post0, code_post, pend_d, pend_t, pend_pa. rewrite !app_nil_r. cbn [app].
    destruct (first_jt R) as [ty|]; [|cbn [fst]; rewrite app_nil_r; reflexivity].
    destruct (e_prev (a_entry s ty) =? aNone) eqn:EP; cbn [negb].
    + rewrite !andb_false_r. cbn [fst]. rewrite app_nil_r. reflexivity.
    + cbn [fst]. rewrite (set_act_at_app a y m _ (length a) eq_refl).
      change (a ++ set_act (e_prev (a_entry s ty)) y :: m) with (a ++ (set_act (e_prev (a_entry s ty)) y :: m)).
      rewrite <- (app_nil_r (set_act _ y :: m)) at 1.
      rewrite win_app by (rewrite app_length; cbn [length]; lia).
      unfold tatweel_win. rewrite flag_window_map. unfold pend_g. cbn [upto_letter firstn skipn map]. rewrite !app_nil_r.
      reflexivity.
  - cbn [length]. rewrite fold_seq_S.
    assert (Hi : (length a + S (length m))%nat = length (a ++ y :: m)) by (rewrite app_length; reflexivity).
    assert (Hx : nth (length a + S (length m)) (a ++ y :: m ++ x :: tc) i0 = x).
    { change (a ++ y :: m ++ x :: tc) with (a ++ (y :: m) ++ x :: tc). rewrite app_assoc. apply nth_mid. rewrite Hi. reflexivity. }
    destruct (is_T x) eqn:HT.
    + (* transparent *)
      rewrite (iter0_T _ _ _ _ _ x Hx HT).
      change (a ++ y :: m ++ x :: tc) with (a ++ (y :: m) ++ x :: tc). rewrite app_assoc.
      rewrite (set_act_at_app (a ++ y :: m) x tc aNone _ Hi).
      replace ((a ++ y :: m) ++ set_act aNone x :: tc) with (a ++ y :: (m ++ [set_act aNone x]) ++ tc)
        by (rewrite <- !app_assoc; reflexivity).
      replace (S (length a + S (length m))) with (length a + S (length (m ++ [set_act aNone x])))%nat
        by (rewrite app_length; cbn [length]; lia).
      rewrite IH.
      2:{ rewrite Hs. change (a ++ y :: m ++ [set_act aNone x]) with (a ++ (y :: m) ++ [set_act aNone x]).
          rewrite app_assoc, st_at_snoc. unfold st_step. change (is_T (set_act aNone x)) with (is_T x). rewrite HT. reflexivity. }
      assert (EPa : pend_pa s (x :: tc) R = pend_pa s tc R) by (unfold pend_pa; cbn [app first_jt]; rewrite HT; reflexivity).
      unfold pend_d, pend_t. rewrite EPa. destruct (pend_pa s tc R) as [pa|].
      * assert (EG : pend_g y (m ++ [set_act aNone x]) tc = pend_g y m (x :: tc)).
        { unfold pend_g. cbn [upto_letter]. rewrite HT. cbn [firstn]. f_equal. f_equal.
          rewrite <- app_assoc. unfold icls. cbn [map app]. rewrite !map_app. reflexivity. }
        rewrite EG. cbn [upto_letter]. rewrite HT. cbn [firstn skipn map app].
        rewrite ploop_S, pass_T_step by (unfold is_T, pend_g; rewrite jt_fwm; exact HT).
        cbn [fst snd]. f_equal.
        rewrite <- app_assoc. f_equal. cbn [app]. f_equal. rewrite map_app. cbn [map]. unfold pend_g. rewrite fwm_set_act. reflexivity.
      * rewrite ploop_S, pass_T_step by exact HT. cbn [fst snd]. f_equal. rewrite <- app_assoc. reflexivity.
    + (* a letter: the pending action is resolved, the letter becomes the previous one *)
      destruct (iter0_letter (a ++ y :: m ++ x :: tc) (Some (length a)) s rec _ x Hx HT) as (E1 & E2 & E3).
      destruct (iter0 _ _) as [[[l' p'] s'] rec']. cbn [fst snd] in E1, E2, E3. subst p' s'.
      set (e := a_entry s (jt x)) in *.
      (* the common ending *)
      assert (FIN : forall D X, length D = (length a + S (length m))%nat -> jts D = jts (a ++ y :: m) -> jt X = jt x ->
                l' = D ++ set_act (e_curr e) X :: tc ->
                fst (post0 R (fold_left iter0 (seq (S (length a + S (length m))) (length tc)) (l', Some (length a + S (length m))%nat, e_next e, rec')))
                = ploop arab_pass (S (length tc)) L R D (X :: tc)).
      { intros D X HL HJ HX ->.
        assert (SD : st_at L D = s) by (rewrite Hs; apply st_at_jts; exact HJ).
        rewrite <- HL.
        replace (S (length D)) with (length D + S (length (@nil item)))%nat by (cbn; lia).
        change (D ++ set_act (e_curr e) X :: tc) with (D ++ set_act (e_curr e) X :: [] ++ tc).
        rewrite IH.
        2:{ change (D ++ [set_act (e_curr e) X]) with (D ++ [set_act (e_curr e) X]). rewrite st_at_snoc, SD. unfold st_step.
            unfold is_T. change (jt (set_act (e_curr e) X)) with (jt X). rewrite HX. fold (is_T x). rewrite HT. reflexivity. }
        rewrite ploop_S, pass_letter_step by (unfold is_T; rewrite HX; exact HT).
        cbn [fst snd]. rewrite SD, HX. reflexivity. }
      unfold pend_d, pend_t, pend_pa. cbn [app first_jt]. rewrite HT. cbv zeta. fold e.
      destruct (e_prev e =? aNone) eqn:EP.
      * apply FIN; [symmetry; exact Hi|reflexivity|reflexivity|].
        rewrite E1. change (a ++ y :: m ++ x :: tc) with (a ++ (y :: m) ++ x :: tc). rewrite app_assoc.
        apply set_act_at_app. exact Hi.
      * cbn [upto_letter]. rewrite HT. cbn [firstn skipn map app].
        apply FIN.
        -- rewrite app_length. cbn [map length]. rewrite map_length. reflexivity.
        -- change (pend_g y m (x :: tc) (set_act (e_prev e) y) :: map (pend_g y m (x :: tc)) m)
             with (map (pend_g y m (x :: tc)) (set_act (e_prev e) y :: m)).
           unfold pend_g. rewrite jts_app, jts_map_fwm, jts_app. reflexivity.
        -- unfold pend_g. apply jt_fwm.
        -- rewrite E1.
           rewrite (set_act_at_app a y (m ++ x :: tc) _ (length a) eq_refl).
           replace (a ++ set_act (e_prev e) y :: m ++ x :: tc) with (a ++ (set_act (e_prev e) y :: m ++ [x]) ++ tc)
             by (cbn [app]; rewrite <- app_assoc; reflexivity).
           rewrite win_app by (cbn [length]; rewrite app_length; cbn [length]; lia).
           assert (EW : a ++ flag_window (set_act (e_prev e) y :: m ++ [x]) ++ tc
                        = (a ++ map (pend_g y m (x :: tc)) (set_act (e_prev e) y :: m)) ++ pend_g y m (x :: tc) x :: tc).
           { unfold flag_window. rewrite flag_window_map.
             change (set_act (e_prev e) y :: m ++ [x]) with ((set_act (e_prev e) y :: m) ++ [x]).
             rewrite map_app, <- !app_assoc. unfold pend_g. cbn [upto_letter]. rewrite HT. cbn [firstn map app]. reflexivity. }
           rewrite EW. apply set_act_at_app. rewrite app_length. cbn [map length]. rewrite map_length. reflexivity.
Qed.

(* the loop before the first letter *)
Lemma code_none L R : forall tc m s rec,
  s = st_at L m ->
  fst (post0 R (fold_left iter0 (seq (length m) (length tc)) (m ++ tc, None, s, rec)))
  = ploop arab_pass (length tc) L R m tc.
Proof.
  induction tc as [|x tc IH]; intros m s rec Hs.
  - cbn [length seq fold_left ploop]. unfold post0, code_post. destruct (first_jt R); reflexivity.
  - cbn [length]. rewrite fold_seq_S, ploop_S.
    assert (Hx : nth (length m) (m ++ x :: tc) i0 = x) by (apply nth_mid; reflexivity).
    destruct (is_T x) eqn:HT.
    + rewrite (iter0_T _ _ _ _ _ x Hx HT), (set_act_at_app m x tc aNone _ eq_refl).
      replace (m ++ set_act aNone x :: tc) with ((m ++ [set_act aNone x]) ++ tc) by (rewrite <- app_assoc; reflexivity).
      replace (S (length m)) with (length (m ++ [set_act aNone x])) by (rewrite app_length; cbn; lia).
      rewrite IH.
      2:{ rewrite st_at_snoc, <- Hs. unfold st_step. change (is_T (set_act aNone x)) with (is_T x). rewrite HT. reflexivity. }
      rewrite pass_T_step by exact HT. reflexivity.
    + destruct (iter0_letter (m ++ x :: tc) None s rec _ x Hx HT) as (E1 & E2 & E3).
      destruct (iter0 _ _) as [[[l' p'] s'] rec']. cbn [fst snd] in E1, E2, E3. subst p' s'.
      rewrite (set_act_at_app m x tc _ _ eq_refl) in E1. subst l'.
      replace (S (length m)) with (length m + S (length (@nil item)))%nat by (cbn; lia).
      change (m ++ set_act (e_curr (a_entry s (jt x))) x :: tc) with (m ++ set_act (e_curr (a_entry s (jt x))) x :: [] ++ tc).
      rewrite (code_some L R).
      2:{ rewrite st_at_snoc, <- Hs. unfold st_step. change (is_T (set_act (e_curr (a_entry s (jt x))) x)) with (is_T x).
          rewrite HT. reflexivity. }
      rewrite pass_letter_step by exact HT. cbn [fst snd]. rewrite <- Hs. reflexivity.
Qed.

(* THE LOOP AS WRITTEN IS THE PASS: with both Produce* options off, the Info the Go loop computes (model arab_code) is
   what the look-ahead pass of the cut theorem computes, for every run and every context *)
Theorem arab_code_is_the_pass : forall L R l rec, fst (arab_code false false L R l rec) = prun arab_pass L R l.
Proof.
  intros L R l rec. unfold arab_code, prun.
  apply (code_none L R l [] (st_init L) rec). reflexivity.
Qed.

(* the cut statement about the loop as written *)
Theorem arab_code_cut_safe : forall L R pre suf c rec,
  sorted (pre ++ suf) -> sorted pre -> sorted suf -> cutv icl sideL c pre suf = true ->
  fog icl iutb c (fst (arab_code false false L R (pre ++ suf) rec)) = false ->
  fst (arab_code false false L R (pre ++ suf) rec)
  = fst (arab_code false false L (suf ++ R) pre rec) ++ fst (arab_code false false (L ++ pre) R suf rec).
Proof.
  intros L R pre suf c rec H1 H2 H3 HC HF. rewrite !arab_code_is_the_pass in *.
  exact (arab_cut_safe L R pre suf c H1 H2 H3 HC HF).
Qed.
