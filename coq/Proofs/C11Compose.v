(* C11 composition: the coverage built from a well-formed subtable's RuneRanges contains a rune exactly when
   the subtable's Lookup maps it ("a face selected for a rune can always display it"). *)
From TV Require Import Lib.GoNum Lib.Res Model.RuneSet Model.Cmap Spec.RuneSet Spec.Cmap.
From TV Require Import Proofs.RuneSet Proofs.Cmap Proofs.RuneSetRange.
From Coq Require Import ZifyBool.

Lemma rune_ok_int32 x : rune_ok x -> int32_ok x.
Proof. unfold rune_ok, int32_ok. lia. Qed.

Lemma coverage_exact_cmap4 s : wf_cmap4 s = true ->
  exists rs, coverage_from_ranges (rune_ranges4 s) = Ok rs /\ inv rs /\
             forall x, rune_ok x -> exists b, rsContains rs x = Ok b /\ (b = true <-> exists g, lookup4 s x = Ok (g, true)).
Proof.
  intros H.
  (* the ranges are the maximal runs of mapped runes of each segment: sorted, disjoint, non-empty, below 2^24 *)
  pose proof (rune_ranges4_ok s H) as R.
  destruct (coverage_from_ranges_exact _ R) as [rs [E [I C]]].
  exists rs. split; auto. split; auto. intros x Hx. eexists. split; [apply C; auto|].
  apply (rune_ranges4_eq_domain s H x (rune_ok_int32 x Hx)).
Qed.

Lemma ranges_ok_cmap12 is13 s : forall lo, wf_cmap12_from is13 lo s = true -> 0 <= lo ->
  Forall (fun e => g_end e < 16777216) s -> ranges_sorted_from lo (map se12 s) = true.
Proof.
  induction s as [|e r IH]; intros lo H Hlo F; [reflexivity|].
  cbn [wf_cmap12_from] in H. apply andb_prop in H as [H H3]. apply andb_prop in H as [H1 H2].
  pose proof (wf_grp_prop _ _ H2) as (P1 & P2 & P3 & _). inversion F; subst.
  cbn [map ranges_sorted_from se12]. rewrite IH by (auto; lia). lia.
Qed.

Lemma coverage_exact_cmap12 s : wf_cmap12 s = true -> Forall (fun e => g_end e < 16777216) s ->
  exists rs, coverage_from_ranges (rune_ranges12 s) = Ok rs /\ inv rs /\
             forall x, rune_ok x -> exists b, rsContains rs x = Ok b /\ (b = true <-> exists g, lookup12 s x = Ok (g, true)).
Proof.
  intros H F. destruct (wf_cmap12_sorted _ _ _ H) as (Hs & Hwf).
  assert (Q : rune_ranges12 s = map se12 s).
  { unfold rune_ranges12. rewrite (map_ext_in _ se12).
    - apply (rune_ranges_sorted se12 0 s Hs).
    - intros e He. pose proof (wf_grp_prop _ _ (Hwf e He)) as Hp. unfold se12. rewrite !sint32_small by lia. reflexivity. }
  assert (R : ranges_ok (rune_ranges12 s) = true) by (rewrite Q; apply ranges_ok_cmap12 with (is13 := false); auto; lia).
  destruct (coverage_from_ranges_exact _ R) as [rs [E [I C]]].
  exists rs. split; auto. split; auto. intros x Hx. eexists. split; [apply C; auto|].
  apply (rune_ranges12_eq_domain s H x (rune_ok_int32 x Hx)).
Qed.
